/-
  Helper lemmas for Properties/C15 (link stage): the residual hypotheses of
  `Pipeline.exported_parses_partial` about the PCM part of the export (`PcmSmall`, `PcmWindowsOK`).
-/
import Ctrmml.Proofs.PipelineLinkParse
import Ctrmml.Proofs.PipelineBank
import Ctrmml.Proofs.WaveReader
import Ctrmml.Proofs.MdExport
namespace Ctrmml.Pipeline
open Ctrmml Ctrmml.Mds Ctrmml.MdsFile Ctrmml.LinkSpec Tables

/-! ### `max_size` of the wave rom never changes -/

theorem addFresh_maxSize {b b' : Wave.Bank} {h : Wave.Sample} {data : Bytes} {i : Nat}
    (hr : Wave.addFresh b h data = .ok (b', i)) : b'.maxSize = b.maxSize := by
  unfold Wave.addFresh at hr
  simp only at hr
  split at hr
  · cases hr
  · split at hr
    · cases hr
    · cases hr; rfl

theorem addSample_maxSize {b b' : Wave.Bank} {h : Wave.Sample} {data : Bytes} {i : Nat}
    (hr : Wave.addSample b h data = .ok (b', i)) : b'.maxSize = b.maxSize := by
  unfold Wave.addSample at hr
  split at hr
  · cases hr
  · split at hr
    · cases hr
    · split at hr
      · simp only at hr
        split at hr
        · cases hr; rfl
        · cases hr; rfl
      · exact addFresh_maxSize hr

theorem addSampleTag_maxSize {b b' : Wave.Bank} {file : Option Bytes} {tag : List String} {i : Nat}
    (hr : Wave.addSampleTag b file tag = .ok (b', i)) : b'.maxSize = b.maxSize := by
  unfold Wave.addSampleTag at hr
  repeat' (first | (split at hr) | (simp only at hr; split at hr))
  all_goals first
    | (cases hr; done)
    | exact addSample_maxSize hr

/-- the wave rom, once created, has `max_size = 2 MiB` -/
def RomMax (d : DState) : Prop := ∀ bk, d.bank = some bk → bk.maxSize = mds_dataWaveRom

theorem waveBankOf_maxSize {d : DState} (h : RomMax d) : (waveBankOf d).maxSize = mds_dataWaveRom := by
  unfold waveBankOf
  cases hb : d.bank with
  | none => rfl
  | some bk => exact h bk hb

theorem addInsPcm_romMax {files : List (String × Bytes)} {d d' : DState} {id : Nat} {tag : List String} (h : RomMax d)
    (hr : addInsPcm files d id tag = .ok d') : RomMax d' := by
  unfold addInsPcm at hr
  simp only at hr
  repeat' split at hr
  all_goals first
    | (cases hr; done)
    | (cases hr
       have hu := ‹Wave.addSampleTag (waveBankOf d) _ _ = Except.ok (_, _)›
       intro bk hbk
       simp only [Option.some.injEq] at hbk
       subst hbk
       rw [addSampleTag_maxSize hu]; exact waveBankOf_maxSize h)

/-- induction over `read_song`'s loop for a property of the wave-rom side of the state -/
theorem readTags_ind (P : DState → Prop) (files : List (String × Bytes))
    (hst : ∀ (d : DState) (st : MdsData.State), P d → P { d with st := st })
    (hpcm : ∀ (d d' : DState) (id : Nat) (tag : List String), P d → addInsPcm files d id tag = .ok d' → P d') :
    ∀ (tags : List (String × List String)) (d d' : DState), P d →
      readTags MdsData.Arith.float files d tags = .ok d' → P d' := by
  intro tags
  induction tags with
  | nil => intro d d' h hr; cases hr; exact h
  | cons kv rest ih =>
    intro d d' h hr
    obtain ⟨key, tag⟩ := kv
    unfold readTags at hr
    split at hr
    · exact ih d d' h hr
    · simp only at hr
      split at hr
      · cases hr
      · rename_i d1 hd1
        refine ih d1 d' ?_ hr
        have hmap : ∀ (r : Except MdsData.Err MdsData.State),
            (liftData r).map (fun st => ({ d with st := st } : DState)) = .ok d1 → P d1 := by
          intro r hm
          cases hl : liftData r with
          | error e => rw [hl] at hm; simp [Except.map] at hm
          | ok s =>
            rw [hl] at hm
            simp only [Except.map, Except.ok.injEq] at hm
            rw [← hm]; exact hst d s h
        split at hd1
        · exact hmap _ hd1
        · split at hd1
          · split at hd1
            · exact hpcm _ _ _ _ h hd1
            · exact hmap _ hd1
          · exact hmap _ hd1

theorem readSong_romMax {files : List (String × Bytes)} {tags : List (String × List String)} {d : DState}
    (h : readSong MdsData.Arith.float files tags = .ok d) : RomMax d :=
  readTags_ind RomMax files (fun d st hd bk hbk => hd bk hbk) (fun _ _ _ _ hd hr => addInsPcm_romMax hd hr) tags _ d
    (fun bk hbk => by cases hbk) h

theorem pcmOf_length_le {d : DState} (h : RomMax d) : (pcmOf d).length ≤ mds_dataWaveRom := by
  unfold pcmOf
  cases hb : d.bank with
  | none => simp
  | some bk =>
    simp only [List.length_take]
    have := h bk hb
    omega

/-- the exported `pcmd` is at most the 2 MiB wave rom -/
theorem pcmOf_le_of_readSong {files : List (String × Bytes)} {tags : List (String × List String)} {d : DState}
    (h : readSong MdsData.Arith.float files tags = .ok d) : (pcmOf d).length ≤ mds_dataWaveRom :=
  pcmOf_length_le (readSong_romMax h)

theorem export_readSong {inp : Input} {o : Output} (h : exportMds MdsData.Arith.float inp = .ok o) :
    readSong MdsData.Arith.float inp.files inp.tags = .ok o.data ∧
    construct inp.song (dataInfoOf o.data.st inp.platform) inp.volume = .ok o.built ∧
    getMds o.built o.data.st.bank inp.group.toUTF8.toList (pcmOf o.data) = .ok o.file := by
  unfold exportMds at h
  split at h
  · cases h
  · rename_i d hd
    split at h
    · cases h
    · rename_i b hb
      split at h
      · cases h
      · rename_i f hf
        injection h with h
        subst h
        exact ⟨hd, hb, hf⟩

/-- **`PcmSmall` holds of every export** -/
theorem pcmSmall_of_export {inp : Input} {o : Output} (h : exportMds MdsData.Arith.float inp = .ok o) : PcmSmall o := by
  have := pcmOf_le_of_readSong (export_readSong h).1
  unfold PcmSmall
  have e : mds_dataWaveRom = 2097152 := rfl
  omega

/-! ### the allocator invariant of the wave rom through `read_song` -/

/-- every file a `pcm` tag can open is below 1 GiB (the size bound of C14's bank theorems; `Wave_File`
itself refuses files above 2 GiB only) -/
def SideFilesSmall (files : List (String × Bytes)) : Prop :=
  ∀ name f, files.lookup name = some f → f.length < 1073741823

def RomInv (d : DState) : Prop := ∃ rs, Wave.Inv (waveBankOf d) rs

theorem romInv_init (st : MdsData.State) : RomInv { st := st } :=
  ⟨[], Wave.inv_new mds_dataWaveRom 0 (by decide) (by decide) (by decide)⟩

theorem addInsPcm_romInv {files : List (String × Bytes)} (hfs : SideFilesSmall files) {d d' : DState} {id : Nat} {tag : List String}
    (h : RomInv d) (hr : addInsPcm files d id tag = .ok d') : RomInv d' := by
  obtain ⟨rs, inv⟩ := h
  unfold addInsPcm at hr
  simp only at hr
  have hf : ∀ f, (match tag with | [] => none | name :: _ => files.lookup name) = some f → f.length < 1073741823 := by
    intro f hf
    cases tag with
    | nil => cases hf
    | cons name _ => exact hfs name f hf
  repeat' split at hr
  all_goals first
    | (cases hr; done)
    | (cases hr
       have hu := ‹Wave.addSampleTag (waveBankOf d) _ _ = Except.ok (_, _)›
       exact MdDriver.addSampleTag_inv _ rs inv _ _ hf _ _ hu)

theorem readSong_romInv {files : List (String × Bytes)} (hfs : SideFilesSmall files) {tags : List (String × List String)} {d : DState}
    (h : readSong MdsData.Arith.float files tags = .ok d) : RomInv d :=
  readTags_ind RomInv files (fun _ _ hd => hd) (fun _ _ _ _ hd hr => addInsPcm_romInv hfs hd hr) tags _ d
    (romInv_init _) h

/-! ### a stored sample header addresses a window inside the exported `pcmd` -/

theorem pcmOf_length_of_inv {d : DState} {bk : Wave.Bank} {rs : List Alloc.Win} (hb : d.bank = some bk) (inv : Wave.Inv bk rs) :
    (pcmOf d).length = bk.currentSize := by
  unfold pcmOf
  rw [hb]
  have h1 := inv.romLen; have h2 := inv.curLe; have h3 := inv.small.1
  have : bk.freeBytes = bk.maxSize - bk.currentSize := by
    unfold Wave.Bank.freeBytes Wave.u32
    omega
  simp only [List.length_take, this]
  omega

theorem toU8_toNat (b : Bytes) : toU8 (b.map (·.toNat)) = b := by
  unfold toU8
  rw [List.map_map]
  conv => rhs; rw [← List.map_id b]
  apply List.map_congr_left
  intro x _
  simp

theorem windowOK_of_sample {d : DState} {bk : Wave.Bank} {rs : List Alloc.Win} (hb : d.bank = some bk) (inv : Wave.Inv bk rs)
    {s : Wave.Sample} (hs : s ∈ bk.samples) : WindowOK (pcmOf d) ((Wave.Sample.toBytes s).map (·.toNat)) := by
  have hbound := Wave.housed_bounds inv hs
  have h2 := inv.curLe; have h3 := inv.small.1
  refine ⟨by simp [Wave.Sample.toBytes], ?_⟩
  rw [toU8_toNat, pcmOf_length_of_inv hb inv]
  intro position start size r0 r4 r8
  have e : Wave.Sample.toBytes s = le32 s.position ++ (le32 s.start ++ (le32 s.size ++ (le32 s.loopStart ++ le32 s.loopEnd ++
      le32 s.rate ++ le32 s.transpose ++ le32 s.flags))) := by
    simp [Wave.Sample.toBytes, List.append_assoc]
  rw [e, Linker.nat32le_eq] at r0 r4 r8
  have q0 := rdLe32_le32 s.position (by omega) [] (le32 s.start ++ (le32 s.size ++ (le32 s.loopStart ++ le32 s.loopEnd ++
      le32 s.rate ++ le32 s.transpose ++ le32 s.flags)))
  simp only [List.nil_append, List.length_nil] at q0
  rw [q0] at r0
  have q4a := Linker.rdLe32_append (le32 s.position) (le32 s.start ++ (le32 s.size ++ (le32 s.loopStart ++ le32 s.loopEnd ++
      le32 s.rate ++ le32 s.transpose ++ le32 s.flags))) 0
  have q4 := rdLe32_le32 s.start (by omega) [] (le32 s.size ++ (le32 s.loopStart ++ le32 s.loopEnd ++
      le32 s.rate ++ le32 s.transpose ++ le32 s.flags))
  simp only [List.nil_append, List.length_nil, le32_length, Nat.add_zero] at q4a q4
  rw [q4a, q4] at r4
  have q8a := Linker.rdLe32_append (le32 s.position) (le32 s.start ++ (le32 s.size ++ (le32 s.loopStart ++ le32 s.loopEnd ++
      le32 s.rate ++ le32 s.transpose ++ le32 s.flags))) 4
  have q8b := Linker.rdLe32_append (le32 s.start) (le32 s.size ++ (le32 s.loopStart ++ le32 s.loopEnd ++
      le32 s.rate ++ le32 s.transpose ++ le32 s.flags)) 0
  have q8 := rdLe32_le32 s.size (by omega) [] (le32 s.loopStart ++ le32 s.loopEnd ++
      le32 s.rate ++ le32 s.transpose ++ le32 s.flags)
  simp only [List.nil_append, List.length_nil, le32_length, Nat.add_zero] at q8a q8b q8
  rw [q8a, q8b, q8] at r8
  cases r0; cases r4; cases r8
  exact hbound

/-- **`PcmKeysAreHeaders`** (what remains of `PcmWindowsOK`): every key of `used_data_map` with the PCM
tag selects a data-bank item that is the serialised header of a sample of the final wave bank.  NOT
discharged: needs (a) the data-side invariant "an `envMap` entry whose `tyMap` type is `INS_PCM` indexes an
item stored by `add_ins_pcm`" through `readTags` (with `mset` overwrites and the monotone growth of
`samples`), and (b) the writer-side fact that only such entries get the 0x20000 tag. -/
def PcmKeysAreHeaders (c : Conv) (d : DState) : Prop :=
  ∀ p ∈ c.usedData, ¬ p.1 < mdsFile_pcmTag → ∀ dat, d.st.bank[p.1 % (mdsFile_bankMask + 1)]? = some dat →
    ∃ s ∈ (waveBankOf d).samples, dat = (Wave.Sample.toBytes s).map (·.toNat)

/-- `PcmWindowsOK` from the allocator invariant of `read_song`'s wave bank (files below 1 GiB) -/
theorem pcmWindowsOK_of_headers {files : List (String × Bytes)} (hfs : SideFilesSmall files) {tags : List (String × List String)}
    {d : DState} (h : readSong MdsData.Arith.float files tags = .ok d) {c : Conv} (hk : PcmKeysAreHeaders c d) :
    PcmWindowsOK c d.st.bank (pcmOf d) := by
  obtain ⟨rs, inv⟩ := readSong_romInv hfs h
  intro p hp hc dat hdat
  obtain ⟨s, hs, rfl⟩ := hk p hp hc dat hdat
  unfold waveBankOf at hs inv
  cases hb : d.bank with
  | none => rw [hb] at hs; simp [Wave.Bank.new] at hs
  | some bk =>
    rw [hb] at hs inv
    exact windowOK_of_sample hb inv hs

/-- `exported_parses_partial` with `PcmSmall` discharged and `PcmWindowsOK` reduced to `PcmKeysAreHeaders` -/
theorem exported_parses_partial' {inp : Input} {o : Output}
    (h : exportMds MdsData.Arith.float inp = .ok o)
    (hsmall : TreeSmall o.built o.data.st.bank inp.group.toUTF8.toList (pcmOf o.data))
    (hpc : PlatformClean (dataInfoOf o.data.st inp.platform))
    (hfit : SeqFits o) (hfs : SideFilesSmall inp.files) (hk : PcmKeysAreHeaders o.built.conv o.data) :
    ∃ s, parseMds o.file = some s ∧ s.group = inp.group.toUTF8.toList ∧ s.seq = toU8 o.built.seq ∧
      (∀ sl ∈ s.slots, ∀ rate bytes, sl.want = .pcm rate bytes → bytes.length < 1073741824) :=
  exported_parses_partial h hsmall hpc hfit (pcmWindowsOK_of_headers hfs (export_readSong h).1 hk) (pcmSmall_of_export h)

end Ctrmml.Pipeline
