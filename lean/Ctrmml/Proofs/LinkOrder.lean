/-
  Helper lemmas for C10: song order.  The linker's group key is the spec's group symbol
  (`groupKey = LinkSpec.groupOf`, 256-case check of the character classes), `std::string::operator<` is
  a strict total order that agrees with the spec's dictionary order, the group map after any list of
  insertions is the spec's sorted key list with the songs of each key in input order (`bank_fold`), the
  trace of a run (`runOps_trace`), and from these: the songs of the bank, in song-number order, are the
  spec's `ordered songs`, pairwise related (`songs_in_order`), so the resolver's per-song loop passes
  (`resolver_songs`).  No property statements here.
-/
import Ctrmml.Proofs.LinkResolve
namespace Ctrmml.Linker
open Ctrmml Ctrmml.LinkSpec

/-- one character of `keyify_string` -/
def keyChar (c : UInt8) : Bytes :=
  if isSpace c then [95] else if isDigit c || isUpper c || c == 95 then [c] else if isLower c then [c - 32] else []

theorem keyifyRaw_cons (c : UInt8) (cs : Bytes) : keyifyRaw (c :: cs) = keyChar c ++ keyifyRaw cs := by
  unfold keyChar
  rw [keyifyRaw]
  split
  · rfl
  · split
    · rfl
    · split <;> rfl

theorem keyChar_spec : ∀ n, n < 256 → keyChar (UInt8.ofNat n) = (upperOf (UInt8.ofNat n)).toList := by
  decide +kernel

theorem keyChar_eq (c : UInt8) : keyChar c = (upperOf c).toList := by
  have := keyChar_spec c.toNat c.toNat_lt
  simpa using this

theorem keyifyRaw_eq (s : Bytes) : keyifyRaw s = s.filterMap upperOf := by
  induction s with
  | nil => rfl
  | cons c cs ih =>
    rw [keyifyRaw_cons, keyChar_eq, ih, List.filterMap_cons]
    cases upperOf c <;> rfl

theorem keyify_eq (s : Bytes) : keyify s = symbolOf s := by
  unfold keyify symbolOf
  rw [keyifyRaw_eq]
  cases h : s.filterMap upperOf with
  | nil => rfl
  | cons c cs =>
    simp only
    have : isDigit c = decide (48 ≤ c.toNat ∧ c.toNat ≤ 57) := by
      unfold isDigit
      simp [UInt8.le_iff_toNat_le]
    rw [this]
    by_cases hd : 48 ≤ c.toNat ∧ c.toNat ≤ 57 <;> simp [hd]

theorem groupKey_eq (g : Bytes) : groupKey g = groupOf g := by
  unfold groupKey groupOf
  rw [keyify_eq]
  cases h : symbolOf g with
  | nil => simp [defaultGroup]; decide
  | cons c cs => simp

theorem bytesLt_iff (a b : Bytes) : bytesLt a b = true ↔ (lexLe (a.map (·.toNat)) (b.map (·.toNat)) = true ∧ a ≠ b) := by
  induction a generalizing b with
  | nil =>
    cases b with
    | nil => simp [bytesLt, lexLe]
    | cons y ys => simp [bytesLt, lexLe]
  | cons x xs ih =>
    cases b with
    | nil => simp [bytesLt, lexLe]
    | cons y ys =>
      simp only [bytesLt, lexLe, List.map_cons, Bool.or_eq_true, decide_eq_true_eq, Bool.and_eq_true, beq_iff_eq]
      by_cases h1 : x < y
      · have : x.toNat < y.toNat := UInt8.lt_iff_toNat_lt.mp h1
        simp only [h1, if_true, true_iff]
        refine ⟨Or.inl this, ?_⟩
        intro e
        have := (List.cons.inj e).1
        subst this
        omega
      · simp only [h1, if_false]
        by_cases h2 : y < x
        · have h2' : y.toNat < x.toNat := UInt8.lt_iff_toNat_lt.mp h2
          simp only [h2, if_true, Bool.false_eq_true, false_iff, not_and]
          intro h
          rcases h with h | ⟨h, _⟩ <;> omega
        · have hxy : x = y := by
            apply UInt8.toNat_inj.mp
            have := mt UInt8.lt_iff_toNat_lt.mpr h1
            have := mt UInt8.lt_iff_toNat_lt.mpr h2
            omega
          subst hxy
          simp only [h2, if_false, ih ys, Nat.lt_irrefl, false_or, true_and, ne_eq, List.cons.injEq]

/-! ### `std::string::operator<` is a strict total order -/

theorem bytesLt_irrefl (a : Bytes) : bytesLt a a = false := by
  induction a with
  | nil => rfl
  | cons x xs ih => simp [bytesLt, ih, UInt8.lt_irrefl]

theorem bytesLt_asymm (a b : Bytes) (h : bytesLt a b = true) : bytesLt b a = false := by
  induction a generalizing b with
  | nil => cases b <;> simp [bytesLt] at h ⊢
  | cons x xs ih =>
    cases b with
    | nil => simp [bytesLt] at h
    | cons y ys =>
      simp only [bytesLt] at h ⊢
      by_cases h1 : x < y
      · have : ¬ y < x := fun h2 => by
          have := UInt8.lt_iff_toNat_lt.mp h1; have := UInt8.lt_iff_toNat_lt.mp h2; omega
        simp [this, h1]
      · simp only [h1, if_false] at h
        by_cases h2 : y < x
        · simp [h2] at h
        · simp only [h2, if_false] at h
          simp only [h2, h1, if_false]
          exact ih ys h

theorem bytesLt_trans (a b c : Bytes) (h1 : bytesLt a b = true) (h2 : bytesLt b c = true) : bytesLt a c = true := by
  induction a generalizing b c with
  | nil =>
    cases b with
    | nil => simp [bytesLt] at h1
    | cons y ys =>
      cases c with
      | nil => simp [bytesLt] at h2
      | cons z zs => simp [bytesLt]
  | cons x xs ih =>
    cases b with
    | nil => simp [bytesLt] at h1
    | cons y ys =>
      cases c with
      | nil => simp [bytesLt] at h2
      | cons z zs =>
        simp only [bytesLt] at h1 h2 ⊢
        have lt := @UInt8.lt_iff_toNat_lt
        by_cases a1 : x < y
        · by_cases b1 : y < z
          · have : x < z := lt.mpr (by have := lt.mp a1; have := lt.mp b1; omega)
            simp [this]
          · simp only [b1, if_false] at h2
            by_cases b2 : z < y
            · simp [b2] at h2
            · have hyz : y = z := UInt8.toNat_inj.mp (by have := mt lt.mpr b1; have := mt lt.mpr b2; omega)
              subst hyz; simp [a1]
        · simp only [a1, if_false] at h1
          by_cases a2 : y < x
          · simp [a2] at h1
          · simp only [a2, if_false] at h1
            have hxy : x = y := UInt8.toNat_inj.mp (by have := mt lt.mpr a1; have := mt lt.mpr a2; omega)
            subst hxy
            by_cases b1 : x < z
            · simp [b1]
            · simp only [b1, if_false] at h2 ⊢
              by_cases b2 : z < x
              · simp [b2] at h2
              · simp only [b2, if_false] at h2 ⊢
                exact ih ys zs h1 h2

theorem bytesLt_total (a b : Bytes) (h : a ≠ b) (h1 : bytesLt a b = false) : bytesLt b a = true := by
  induction a generalizing b with
  | nil =>
    cases b with
    | nil => exact absurd rfl h
    | cons y ys => simp [bytesLt] at h1
  | cons x xs ih =>
    cases b with
    | nil => simp [bytesLt]
    | cons y ys =>
      simp only [bytesLt] at h1 ⊢
      have lt := @UInt8.lt_iff_toNat_lt
      by_cases a1 : x < y
      · simp [a1] at h1
      · simp only [a1, if_false] at h1
        by_cases a2 : y < x
        · simp [a2]
        · simp only [a2, if_false] at h1 ⊢
          have hxy : x = y := UInt8.toNat_inj.mp (by have := mt lt.mpr a1; have := mt lt.mpr a2; omega)
          subst hxy
          simp only [a1, if_false]
          exact ih ys (fun e => h (by rw [e])) h1

/-! ### the group-ordered map against the spec's insertion sort of group symbols -/

def Sorted (ks : List Bytes) : Prop := List.Pairwise (fun a b => bytesLt a b = true) ks

theorem insertKey_cons (k x : Bytes) (xs : List Bytes) :
    insertKey k (x :: xs) = if x = k then x :: xs else if bytesLt k x = true then k :: x :: xs else x :: insertKey k xs := by
  rw [insertKey]
  by_cases h : x = k
  · simp [h]
  · simp only [h, if_false]
    have := bytesLt_iff k x
    by_cases hl : lexLe (k.map (·.toNat)) (x.map (·.toNat)) = true
    · have hb : bytesLt k x = true := this.mpr ⟨hl, fun e => h e.symm⟩
      simp [hl, hb]
    · have hb : ¬ bytesLt k x = true := fun hb => hl (this.mp hb).1
      simp [hl, hb]

theorem mem_insertKey (k x : Bytes) (ks : List Bytes) : x ∈ insertKey k ks ↔ x = k ∨ x ∈ ks := by
  induction ks with
  | nil => simp [insertKey]
  | cons y ys ih =>
    rw [insertKey_cons]
    split
    · rename_i h; subst h
      simp only [List.mem_cons]
      constructor
      · intro h; exact Or.inr h
      · rintro (h | h)
        · exact Or.inl h
        · exact h
    · split
      · simp only [List.mem_cons]
      · simp only [List.mem_cons, ih]
        constructor
        · rintro (h | h | h)
          · exact Or.inr (Or.inl h)
          · exact Or.inl h
          · exact Or.inr (Or.inr h)
        · rintro (h | h | h)
          · exact Or.inr (Or.inl h)
          · exact Or.inl h
          · exact Or.inr (Or.inr h)

theorem sorted_insertKey (k : Bytes) (ks : List Bytes) (h : Sorted ks) : Sorted (insertKey k ks) := by
  induction ks with
  | nil => simp [insertKey, Sorted]
  | cons y ys ih =>
    have hp := List.pairwise_cons.mp h
    rw [insertKey_cons]
    split
    · exact h
    · rename_i hne
      split
      · rename_i hlt
        apply List.pairwise_cons.mpr
        refine ⟨?_, h⟩
        intro z hz
        rcases List.mem_cons.mp hz with e | e
        · rw [e]; exact hlt
        · exact bytesLt_trans _ _ _ hlt (hp.1 z e)
      · rename_i hnlt
        apply List.pairwise_cons.mpr
        refine ⟨?_, ih hp.2⟩
        intro z hz
        rcases (mem_insertKey k z ys).mp hz with e | e
        · rw [e]
          exact bytesLt_total k y (fun e => hne e.symm) (by simpa using hnlt)
        · exact hp.1 z e

theorem sorted_ne {x : Bytes} {xs : List Bytes} (h : Sorted (x :: xs)) : ∀ k ∈ xs, k ≠ x := by
  intro k hk e
  have := (List.pairwise_cons.mp h).1 k hk
  rw [e, bytesLt_irrefl] at this
  cases this

/-- one `seq_bank[key].push_back(sd)` on a map whose keys are `ks` and whose values are `F` -/
theorem seqInsert_map (ks : List Bytes) (hs : Sorted ks) (F : Bytes → List SeqData) (key : Bytes) (sd : SeqData)
    (hF : key ∉ ks → F key = []) :
    seqInsert (ks.map fun k => (k, F k)) key sd =
      (insertKey key ks).map fun k => (k, if k = key then F k ++ [sd] else F k) := by
  induction ks with
  | nil =>
    have := hF (by simp)
    simp [seqInsert, insertKey, this]
  | cons x xs ih =>
    have hp := List.pairwise_cons.mp hs
    rw [insertKey_cons]
    simp only [List.map_cons, seqInsert]
    by_cases h1 : key = x
    · subst h1
      simp only [if_true, List.map_cons, List.cons.injEq, true_and]
      apply List.map_congr_left
      intro k hk
      rw [if_neg (sorted_ne hs k hk)]
    · have h1' : ¬ x = key := fun e => h1 e.symm
      simp only [h1, h1', if_false]
      by_cases h2 : bytesLt key x = true
      · simp only [h2, if_true, List.map_cons, if_true]
        have hnot : key ∉ x :: xs := by
          intro hm
          rcases List.mem_cons.mp hm with e | e
          · exact h1 e
          · have := bytesLt_trans _ _ _ h2 (hp.1 key e)
            rw [bytesLt_irrefl] at this; cases this
        rw [hF hnot, if_neg h1']
        simp only [List.nil_append, List.cons.injEq, true_and]
        apply List.map_congr_left
        intro k hk
        rw [if_neg (fun e => hnot (by rw [← e]; exact List.mem_cons_of_mem _ hk))]
      · simp only [h2, Bool.false_eq_true, if_false, List.map_cons, if_neg h1', List.cons.injEq, true_and]
        exact ih hp.2 (fun hn => hF (fun hm => by
          rcases List.mem_cons.mp hm with e | e
          · exact h1 e
          · exact hn e))

/-- the values of key `k` among the pairs processed so far, in input order -/
def valsOf (done : List (Bytes × SeqData)) (k : Bytes) : List SeqData := (done.filter fun kv => kv.1 = k).map (·.2)

theorem valsOf_snoc (done : List (Bytes × SeqData)) (kv : Bytes × SeqData) (k : Bytes) :
    valsOf (done ++ [kv]) k = if k = kv.1 then valsOf done k ++ [kv.2] else valsOf done k := by
  unfold valsOf
  rw [List.filter_append, List.map_append]
  by_cases h : k = kv.1
  · subst h; simp
  · have : ¬ kv.1 = k := fun e => h e.symm
    simp [h, this]

/-- the linker's group map after a list of insertions is the spec's sorted key list with, per key, the
songs of that key in input order -/
theorem bank_fold (rest done : List (Bytes × SeqData)) (ks : List Bytes) (hs : Sorted ks)
    (hF : ∀ k, k ∉ ks → valsOf done k = []) :
    rest.foldl (fun b kv => seqInsert b kv.1 kv.2) (ks.map fun k => (k, valsOf done k)) =
      (rest.foldl (fun acc kv => insertKey kv.1 acc) ks).map (fun k => (k, valsOf (done ++ rest) k)) ∧
    Sorted (rest.foldl (fun acc kv => insertKey kv.1 acc) ks) := by
  induction rest generalizing done ks with
  | nil => simp only [List.foldl_nil, List.append_nil]; exact ⟨trivial, hs⟩
  | cons kv rest ih =>
    simp only [List.foldl_cons]
    rw [seqInsert_map ks hs (valsOf done) kv.1 kv.2 (hF kv.1)]
    have e : (fun k => (k, if k = kv.1 then valsOf done k ++ [kv.2] else valsOf done k)) = fun k => (k, valsOf (done ++ [kv]) k) := by
      funext k; rw [valsOf_snoc]
    rw [e]
    have := ih (done ++ [kv]) (insertKey kv.1 ks) (sorted_insertKey _ _ hs) (by
      intro k hk
      rw [valsOf_snoc]
      have hk' := mt (mem_insertKey kv.1 k ks).mpr hk
      simp only [not_or] at hk'
      rw [if_neg hk'.1]; exact hF k hk'.2)
    rw [List.append_assoc] at this
    exact this

/-! ### the trace of a run -/

/-- what is recorded for one added file: the group key and the song entry, and how they relate to the file -/
def TraceOk (bank : List Bytes) (w : Wave.Bank) (f : Bytes × Bytes) (kv : Bytes × SeqData) : Prop :=
  kv.2.filename = f.1 ∧ ∃ rd, readSong f.2 = some rd ∧ kv.1 = groupKey rd.group ∧ kv.2.data = rd.seq ∧
    All2 (Resolves bank w) kv.2.patch rd.carried

theorem runOps_trace (files : List (Bytes × Bytes)) (l0 l : Linker) (rs0 : List Alloc.Win)
    (inv0 : Wave.Inv l0.wave rs0) (hnd0 : l0.dataBank.Nodup)
    (h : runOps (files.map fun f => Op.add f.1 f.2) l0 = .ok l) :
    ∃ (tr : List (Bytes × SeqData)) (rs : List Alloc.Win), Wave.Inv l.wave rs ∧ l.dataBank.Nodup ∧
      Ext l0.dataBank l0.wave rs0 l.dataBank l.wave rs ∧
      All2 (TraceOk l.dataBank l.wave) files tr ∧
      l.seqBank = tr.foldl (fun b kv => seqInsert b kv.1 kv.2) l0.seqBank := by
  induction files generalizing l0 rs0 with
  | nil =>
    simp only [List.map_nil, runOps, Except.ok.injEq] at h
    subst h
    exact ⟨[], rs0, inv0, hnd0, Ext.refl .., .nil, rfl⟩
  | cons f fs ih =>
    simp only [List.map_cons, runOps] at h
    cases ho : Riff.ofBytes f.2 with
    | error e => rw [ho] at h; cases h
    | ok mds =>
      rw [ho] at h
      simp only at h
      cases ha : addSong l0 mds f.1 with
      | error e => rw [ha] at h; cases h
      | ok l1 =>
        rw [ha] at h
        simp only at h
        obtain ⟨rd, a, hrd, hfold, hl1⟩ := addSong_read l0 l1 f.2 mds f.1 ho ha
        obtain ⟨rs1, qs, inv1, hnd1, x1, hp, hf⟩ := foldDblk_step rd.sdata rd.seq.length rd.pcmd rd.chunks _ a rs0 inv0 hnd0 hfold
        simp only [List.nil_append] at hp
        have e1 : l1.dataBank = a.bank := by rw [hl1]
        have e2 : l1.wave = a.wave := by rw [hl1]
        have e3 : l1.seqBank = seqInsert l0.seqBank (groupKey rd.group) { filename := f.1, data := rd.seq, patch := a.patch } := by rw [hl1]
        obtain ⟨tr, rs, inv, hnd, x2, htr, hbank⟩ := ih l1 rs1 (by rw [e2]; exact inv1) (by rw [e1]; exact hnd1) h
        rw [e1, e2] at x2
        refine ⟨(groupKey rd.group, { filename := f.1, data := rd.seq, patch := a.patch }) :: tr, rs, inv, hnd, x1.trans x2, ?_, ?_⟩
        · refine .cons ⟨rfl, rd, hrd, rfl, rfl, ?_⟩ htr
          simp only [hp]
          exact forall2_mono hf inv1 x2
        · rw [hbank, e3]; rfl

/-! ### the spec's order -/

theorem All2.append {α β : Type} {R : α → β → Prop} {a1 a2 : List α} {b1 b2 : List β}
    (h1 : All2 R a1 b1) (h2 : All2 R a2 b2) : All2 R (a1 ++ a2) (b1 ++ b2) := by
  induction h1 with
  | nil => exact h2
  | cons h _ ih => exact .cons h ih

theorem All2.flatMap {α β κ : Type} {R : α → β → Prop} (ks : List κ) (f : κ → List α) (g : κ → List β)
    (h : ∀ k ∈ ks, All2 R (f k) (g k)) : All2 R (ks.flatMap f) (ks.flatMap g) := by
  induction ks with
  | nil => exact .nil
  | cons k ks ih =>
    simp only [List.flatMap_cons]
    exact (h k (List.mem_cons_self ..)).append (ih (fun k' hk' => h k' (List.mem_cons_of_mem _ hk')))

theorem All2.join {α β γ : Type} {R : α → β → Prop} {S : α → γ → Prop} {as : List α} {bs : List β} {cs : List γ}
    (h1 : All2 R as bs) (h2 : All2 S as cs) : All2 (fun b c => ∃ a, a ∈ as ∧ R a b ∧ S a c) bs cs := by
  induction h1 generalizing cs with
  | nil => cases h2; exact .nil
  | cons hr _ ih =>
    cases h2 with
    | cons hs hrest =>
      exact .cons ⟨_, List.mem_cons_self .., hr, hs⟩ ((ih hrest).imp (fun _ _ ⟨a, ha, h⟩ => ⟨a, List.mem_cons_of_mem _ ha, h⟩))

/-- song order: the spec's `ordered` (group symbols sorted, input order inside a group) lists the songs in
the order of the linker's group map, pairwise related by `P` -/
theorem ordered_all2 (P : SongIn → SeqData → Prop) (songs : List SongIn) (tr : List (Bytes × SeqData))
    (h : All2 (fun s kv => kv.1 = groupOf s.group ∧ P s kv.2) songs tr) :
    All2 P (ordered songs) ((tr.foldl (fun acc kv => insertKey kv.1 acc) []).flatMap (valsOf tr)) := by
  have hkeys : ∀ (acc : List Bytes), songs.foldl (fun acc s => insertKey (groupOf s.group) acc) acc =
      tr.foldl (fun acc kv => insertKey kv.1 acc) acc := by
    induction h with
    | nil => intro acc; rfl
    | cons hr _ ih => intro acc; simp only [List.foldl_cons, hr.1]; exact ih _
  have hvals : ∀ k, All2 P (songs.filter fun s => groupOf s.group == k) (valsOf tr k) := by
    intro k
    unfold valsOf
    clear hkeys
    induction h with
    | nil => exact .nil
    | @cons s kv ss kvs hr _ ih =>
      simp only [List.filter_cons]
      by_cases hk : groupOf s.group = k
      · have h1 : (groupOf s.group == k) = true := by simpa using hk
        have h2 : decide (kv.1 = k) = true := by rw [hr.1]; simpa using hk
        simp only [h1, h2, if_true, List.map_cons]
        exact .cons hr.2 ih
      · have h1 : (groupOf s.group == k) = false := by simpa using hk
        have h2 : decide (kv.1 = k) = false := by rw [hr.1]; simpa using hk
        simp only [h1, h2, Bool.false_eq_true, if_false]
        exact ih
  unfold ordered groupKeys
  rw [hkeys]
  exact All2.flatMap _ _ _ (fun k _ => hvals k)

/-- … and the group list with its song counts is the spec's -/
theorem ordered_groups (P : SongIn → SeqData → Prop) (songs : List SongIn) (tr : List (Bytes × SeqData))
    (h : All2 (fun s kv => kv.1 = groupOf s.group ∧ P s kv.2) songs tr) :
    (tr.foldl (fun acc kv => insertKey kv.1 acc) []).map (fun k => (k, (valsOf tr k).length)) =
      (groupKeys songs).map fun k => (k, (songs.filter fun s => groupOf s.group == k).length) := by
  have hkeys : ∀ (acc : List Bytes), songs.foldl (fun acc s => insertKey (groupOf s.group) acc) acc =
      tr.foldl (fun acc kv => insertKey kv.1 acc) acc := by
    induction h with
    | nil => intro acc; rfl
    | cons hr _ ih => intro acc; simp only [List.foldl_cons, hr.1]; exact ih _
  have hvals : ∀ k, (valsOf tr k).length = (songs.filter fun s => groupOf s.group == k).length := by
    intro k
    unfold valsOf
    clear hkeys
    induction h with
    | nil => rfl
    | @cons s kv ss kvs hr _ ih =>
      simp only [List.filter_cons]
      by_cases hk : groupOf s.group = k
      · have h1 : (groupOf s.group == k) = true := by simpa using hk
        have h2 : decide (kv.1 = k) = true := by rw [hr.1]; simpa using hk
        simp only [h1, h2, if_true, List.map_cons, List.length_cons, ih]
      · have h1 : (groupOf s.group == k) = false := by simpa using hk
        have h2 : decide (kv.1 = k) = false := by rw [hr.1]; simpa using hk
        simp only [h1, h2, Bool.false_eq_true, if_false]
        exact ih
  unfold groupKeys
  rw [hkeys]
  apply List.map_congr_left
  intro k _
  rw [hvals]

/-! ### the per-song loop of the resolver -/

theorem all2_of_map_eq {α β : Type} (f : α → Option β) (as : List α) (bs : List β) (h : as.map f = bs.map some) :
    All2 (fun a b => f a = some b) as bs := by
  induction as generalizing bs with
  | nil => cases bs with
    | nil => exact .nil
    | cons b bs => simp at h
  | cons a as ih =>
    cases bs with
    | nil => simp at h
    | cons b bs =>
      simp only [List.map_cons, List.cons.injEq] at h
      exact .cons h.1 (ih bs h.2)

theorem mapM'_enum {α β γ : Type} (P : α → β → Prop) (f : Nat × α → Except String γ) (all : List β)
    (xs : List α) (ys : List β) (n : Nat) (h : All2 P xs ys) (hy : ∀ i, ys[i]? = all[n + i]?)
    (g : ∀ i a b, all[i]? = some b → P a b → ∃ r, f (i, a) = .ok r) :
    ∃ rs, mapM' f (enumFrom n xs) = .ok rs ∧ rs.length = xs.length := by
  induction h generalizing n with
  | nil => exact ⟨[], rfl, rfl⟩
  | @cons a b as bs hr _ ih =>
    have h0 : all[n]? = some b := by have := hy 0; simpa using this.symm
    obtain ⟨r, hr'⟩ := g n a b h0 hr
    obtain ⟨rs, hrs, hl⟩ := ih (n + 1) (fun i => by
      have := hy (i + 1)
      simp only [List.getElem?_cons_succ] at this
      rw [this]; congr 1; omega)
    exact ⟨r :: rs, by simp only [enumFrom, mapM', hr', hrs], by simp [hl]⟩

/-- what the per-song resolver needs of a song of the spec and the song entry of the bank -/
def Paired (l : Linker) (s : SongIn) (sd : SeqData) : Prop :=
  sd.data = s.seq ∧ 0 < s.seq.length ∧ All2 (SlotServed l) sd.patch s.slots ∧
  (∀ sl ∈ s.slots, 2 ≤ sl.addr ∧ sl.addr + 2 ≤ s.seq.length) ∧ disjointSlots s.slots = true

theorem songs_in_order (m bk : Nat) (hm : 0 < m) (hm24 : m < 16777216) (hb : bk < 1073741824)
    (files : List (Bytes × Bytes)) (songs : List SongIn) (l : Linker) (bank : Bytes)
    (hparse : files.map (fun f => parseMds f.2) = songs.map some)
    (hrun : runOps (files.map fun f => Op.add f.1 f.2) (Linker.fresh m bk) = .ok l)
    (hseq : getSeqData l = .ok bank) :
    All2 (Paired l) (ordered songs) l.songs ∧ l.dataBank.Nodup := by
  have hfs := all2_of_map_eq (fun f : Bytes × Bytes => parseMds f.2) files songs hparse
  obtain ⟨tr, rs, inv, hnd, x, htr, hbank⟩ := runOps_trace files (Linker.fresh m bk) l []
    (Wave.inv_new m bk hm (by omega) hb) (by simp [Linker.fresh]) hrun
  have hmax : l.wave.maxSize < 16777216 := by rw [x.same.1]; exact hm24
  have hlen := laid_bank_small (getSeqData_laid l bank hseq) hnd
  -- the group map is the sorted key list with the songs of each key
  have hb0 := bank_fold tr [] [] (by simp [Sorted]) (by intro k _; simp [valsOf])
  simp only [List.map_nil, List.nil_append] at hb0
  have hsongs : l.songs = (tr.foldl (fun acc kv => insertKey kv.1 acc) []).flatMap (valsOf tr) := by
    unfold Linker.songs
    rw [hbank]
    have : (Linker.fresh m bk).seqBank = [] := rfl
    rw [this, hb0.1, List.flatMap_map]
  refine ⟨?_, hnd⟩
  rw [hsongs]
  apply ordered_all2
  refine (hfs.join htr).imp ?_
  intro s kv ⟨f, hf, hp, hname, rd, hrd, hkey, hdata, hres⟩
  obtain ⟨rd', r1, r2, r3, r4, r5, r6, r7, r8⟩ := readSong_of_parseMds f.2 s hp
  rw [hrd] at r1
  have e : rd = rd' := Option.some.inj r1
  subst e
  refine ⟨by rw [hkey, groupKey_eq, r3], by rw [hdata, r2], by omega, ?_, r5, r6⟩
  rw [← r4]
  refine hres.map_right (toSlot rd.pcmd) ?_
  intro q c hc hr
  exact served_of_serves l hlen rd q c hc (serves_of_resolves l rs inv hmax q c hr)

theorem groupKey_ok (g : Bytes) : KeyOk (groupKey g) ∧ groupKey g ≠ [] := by
  unfold groupKey
  cases h : keyify g with
  | nil =>
    simp only [List.isEmpty_nil, if_true]
    have e : keyify [66, 71, 77] = defaultGroup := by decide
    exact ⟨by rw [← e]; exact keyify_ok _, by decide⟩
  | cons c cs =>
    simp only [List.isEmpty_cons, Bool.false_eq_true, if_false]
    exact ⟨by rw [← h]; exact keyify_ok g, by simp⟩

/-- the groups of the linker's map with their song counts are the spec's groups, every key is a non-empty valid symbol -/
theorem seqBank_groups (m bk : Nat) (hm : 0 < m) (hb : bk < 1073741824) (hm2 : m < 1073741824)
    (files : List (Bytes × Bytes)) (songs : List SongIn) (l : Linker)
    (hparse : files.map (fun f => parseMds f.2) = songs.map some)
    (hrun : runOps (files.map fun f => Op.add f.1 f.2) (Linker.fresh m bk) = .ok l) :
    l.seqBank.map (fun p => (p.1, p.2.length)) =
      (groupKeys songs).map (fun k => (k, (songs.filter fun s => groupOf s.group == k).length)) ∧
    (∀ p ∈ l.seqBank, KeyOk p.1 ∧ p.1 ≠ [] ∧ p.2 ≠ []) := by
  have hfs := all2_of_map_eq (fun f : Bytes × Bytes => parseMds f.2) files songs hparse
  obtain ⟨tr, rs, inv, hnd, x, htr, hbank⟩ := runOps_trace files (Linker.fresh m bk) l []
    (Wave.inv_new m bk hm hm2 hb) (by simp [Linker.fresh]) hrun
  have hb0 := bank_fold tr [] [] (by simp [Sorted]) (by intro k _; simp [valsOf])
  simp only [List.map_nil, List.nil_append] at hb0
  have hsb : l.seqBank = (tr.foldl (fun acc kv => insertKey kv.1 acc) []).map (fun k => (k, valsOf tr k)) := by
    rw [hbank]
    have : (Linker.fresh m bk).seqBank = [] := rfl
    rw [this, hb0.1]
  have hpair : All2 (fun s kv => kv.1 = groupOf s.group ∧ True) songs tr := by
    refine (hfs.join htr).imp ?_
    intro s kv ⟨f, hf, hp, hname, rd, hrd, hkey, _⟩
    obtain ⟨rd', r1, _, r3, _⟩ := readSong_of_parseMds f.2 s hp
    rw [hrd] at r1
    have e : rd = rd' := Option.some.inj r1
    subst e
    exact ⟨by rw [hkey, groupKey_eq, r3], trivial⟩
  refine ⟨?_, ?_⟩
  · rw [hsb, List.map_map, ← ordered_groups (fun _ _ => True) songs tr hpair]
    rfl
  · intro p hp
    rw [hsb] at hp
    obtain ⟨k, hk, rfl⟩ := List.mem_map.mp hp
    simp only
    -- every key of the map is the key of some inserted pair
    have hmem : ∀ (tr : List (Bytes × SeqData)) (acc : List Bytes) (k : Bytes),
        k ∈ tr.foldl (fun acc kv => insertKey kv.1 acc) acc → k ∈ acc ∨ ∃ kv ∈ tr, kv.1 = k := by
      intro tr
      induction tr with
      | nil => intro acc k h; exact Or.inl h
      | cons kv tr ih =>
        intro acc k h
        simp only [List.foldl_cons] at h
        rcases ih _ k h with h1 | ⟨kv', h1, h2⟩
        · rcases (mem_insertKey kv.1 k acc).mp h1 with e | e
          · exact Or.inr ⟨kv, List.mem_cons_self .., e.symm⟩
          · exact Or.inl e
        · exact Or.inr ⟨kv', List.mem_cons_of_mem _ h1, h2⟩
    rcases hmem tr [] k hk with h1 | ⟨kv, hkv, rfl⟩
    · cases h1
    · obtain ⟨f, _, _, rd, _, hkey, _⟩ := htr.mem_right kv hkv
      refine ⟨by rw [hkey]; exact (groupKey_ok rd.group).1, by rw [hkey]; exact (groupKey_ok rd.group).2, ?_⟩
      intro he
      have hm : kv.2 ∈ valsOf tr kv.1 := by
        unfold valsOf
        exact List.mem_map_of_mem (List.mem_filter.mpr ⟨hkv, by simp⟩)
      rw [he] at hm; cases hm

theorem resolver_songs (m bk : Nat) (hm : 0 < m) (hm24 : m < 16777216) (hb : bk < 1073741824)
    (files : List (Bytes × Bytes)) (songs : List SongIn) (l : Linker) (bank : Bytes)
    (hparse : files.map (fun f => parseMds f.2) = songs.map some)
    (hrun : runOps (files.map fun f => Op.add f.1 f.2) (Linker.fresh m bk) = .ok l)
    (hseq : getSeqData l = .ok bank) (hbl : bank.length < 4294967296) :
    ∃ rs, mapM' (fun p => songOk bank (getPcmData l) p.1 p.2) (enumFrom 0 (ordered songs)) = .ok rs ∧
      rs.length = (ordered songs).length := by
  obtain ⟨hall, hnd⟩ := songs_in_order m bk hm hm24 hb files songs l bank hparse hrun hseq
  refine mapM'_enum (Paired l) _ l.songs (ordered songs) l.songs 0 hall (fun i => by simp) ?_
  intro i s sd hi ⟨p1, p2, p3, p4, p5⟩
  obtain ⟨o, es, h, _⟩ := songOk_of l bank hseq hnd hbl i sd hi s p1 p2 p3 p4 p5
  exact ⟨_, h⟩

end Ctrmml.Linker
