/-
  C15 (optimise stage), helper — the stack lists `analyze_stack` builds are complete: after
  `Opt.analyzeStack song = .ok m` the analyser of every track of the song holds one entry per
  event of that track (`ListsFull`).  This is what makes `event_list[dst_end]` in
  `find_match_length` an access inside the vector (`OErr.stackListOOB` unreachable,
  Proofs/OptOOB).

  `analyze_track` clears the list of its own analyser, sets `parsing`, appends one entry per event
  and clears `parsing`.  A nested call (for a `JUMP` or a drum-mode `NOTE`) runs only on an
  analyser that is not `parsing`, so the lists of the analysers on the call stack are not touched
  by it; an analyser that is not `parsing` and has a complete list keeps a complete list (it is
  either left alone or analysed again as a whole).  An analyser whose `base_usage` became non-zero
  was analysed (or is being analysed), which is the case `analyze_stack` skips.
-/
import Ctrmml.Proofs.OptAnalyze
namespace Ctrmml.OptSteps
open Ctrmml Ctrmml.Opt Tables

/-- the list of analyser `k` has one entry per event of the track `k` names -/
def Full (song : Song) (m : SAMap) (k : Int) : Prop :=
  ∃ evs, song.track? (trackIdOfParam k) = some evs ∧ (getSA m k).eventList.length = evs.length

/-- finished and complete -/
def RDone (song : Song) (m : SAMap) (k : Int) : Prop := par m k = false ∧ Full song m k

/-- an analyser that was called (non-zero `base_usage`) and is not on the call stack is complete -/
def QDone (song : Song) (m : SAMap) (k : Int) : Prop :=
  par m k = false → (getSA m k).baseUsage ≠ 0 → Full song m k

/-- what a piece of the analysis keeps of the analyser `k` -/
structure Keep (song : Song) (m m' : SAMap) (k : Int) : Prop where
  par_eq : par m' k = par m k
  anc : par m k = true → (getSA m' k).eventList = (getSA m k).eventList
  done : RDone song m k → RDone song m' k
  called : QDone song m k → QDone song m' k

theorem Keep.refl (song : Song) (m : SAMap) (k : Int) : Keep song m m k := ⟨rfl, fun _ => rfl, id, id⟩

theorem Keep.trans {song : Song} {m m' m'' : SAMap} {k : Int} (h1 : Keep song m m' k) (h2 : Keep song m' m'' k) :
    Keep song m m'' k :=
  ⟨by rw [h2.par_eq, h1.par_eq],
   fun h => by rw [h2.anc (by rw [h1.par_eq]; exact h), h1.anc h],
   fun h => h2.done (h1.done h), fun h => h2.called (h1.called h)⟩

theorem Keep.of_getSA {song : Song} {m m' : SAMap} {k : Int} (h : getSA m' k = getSA m k) : Keep song m m' k := by
  have hp : par m' k = par m k := by unfold par; rw [h]
  have hf : Full song m' k ↔ Full song m k := by unfold Full; rw [h]
  refine ⟨hp, fun _ => by rw [h], fun hk => ⟨by rw [hp]; exact hk.1, hf.2 hk.2⟩, ?_⟩
  intro hq h1 h2
  rw [hp] at h1
  rw [h] at h2
  exact hf.2 (hq h1 h2)

/-- an update of another analyser -/
theorem Keep.setSA_ne {song : Song} (m : SAMap) (k' : Int) (v : SA) {k : Int} (h : k ≠ k') :
    Keep song m (setSA m k' v) k := Keep.of_getSA (getSA_setSA_ne m k' v k h)

/-- the statement proved by induction on the budget -/
def ATLen (song : Song) (fuel : Nat) : Prop :=
  ∀ (m : SAMap) (self : Int) (evs : List Event) (drum : Int) (m'' : SAMap) (d : Int),
    analyzeTrack song fuel m self evs drum = .ok (m'', d) →
      par m'' self = false ∧ (getSA m'' self).eventList.length = evs.length ∧
      ∀ k, k ≠ self → Keep song m m'' k

/-- what one event does to the analysers: `self` (which is `parsing`) keeps its list, every other
one is kept -/
structure StepKeep (song : Song) (slf : Int) (m m' : SAMap) : Prop where
  mine : par m' slf = true ∧ (getSA m' slf).eventList = (getSA m slf).eventList
  other : ∀ k, k ≠ slf → Keep song m m' k

theorem calleeR_len {song : Song} {fuel : Nat} (ih : ATLen song fuel) {self : Int} {m : SAMap} {e : Event}
    (hself : par m self = true) (u0 drum drumArg : Int) (keepDrum isDrum : Bool) {m' : SAMap} {u d : Int}
    (h : calleeR song fuel self m e u0 drum drumArg keepDrum isDrum = .ok (m', u, d)) :
    StepKeep song self m m' := by
  unfold calleeR at h
  split at h
  · split at h
    · rename_i hnp
      have hpk : par m e.param = false := by simpa [par] using hnp
      have hne : e.param ≠ self := by
        intro he
        rw [he, hself] at hpk
        cases hpk
      split at h
      · cases h
      · rename_i cevs hc
        obtain ⟨m0, hm0⟩ : ∃ m0, m0 = setSA m e.param
            { getSA m e.param with baseUsage := wrap16 (u0 + (getSA m self).baseUsage) } := ⟨_, rfl⟩
        rw [← hm0] at h
        split at h
        · cases h
        · rename_i m'' d' hx
          simp only [Except.ok.injEq, Prod.mk.injEq] at h
          obtain ⟨h1, -, -⟩ := h
          subst h1
          obtain ⟨g1, g2, g3⟩ := ih m0 e.param cevs drumArg m'' d' hx
          have hk0 : ∀ k, k ≠ e.param → Keep song m m0 k := fun k hk => by
            rw [hm0]; exact Keep.setSA_ne m _ _ hk
          constructor
          · have hk := (hk0 self (Ne.symm hne)).trans (g3 self (Ne.symm hne))
            exact ⟨by rw [hk.par_eq]; exact hself, hk.anc hself⟩
          · intro k hk
            by_cases hke : k = e.param
            · subst hke
              have hfull : RDone song m'' e.param := ⟨g1, cevs, hc, g2⟩
              exact ⟨by rw [g1, hpk], fun hp => (by rw [hpk] at hp; cases hp), fun _ => hfull, fun _ _ _ => hfull.2⟩
            · exact (hk0 k hke).trans (g3 k hke)
    · rename_i hp
      have hpk : par m e.param = true := by simpa [par] using hp
      cases h
      have hsame : ∀ (v : Int), par (setSA m e.param { getSA m e.param with baseUsage := v }) e.param = true ∧
          (getSA (setSA m e.param { getSA m e.param with baseUsage := v }) e.param).eventList = (getSA m e.param).eventList := by
        intro v
        unfold par
        rw [getSA_setSA_same]
        exact ⟨hpk, rfl⟩
      constructor
      · by_cases hs : self = e.param
        · rw [hs]; exact hsame _
        · have hk := Keep.setSA_ne (song := song) m e.param
            { getSA m e.param with baseUsage := wrap16 (u0 + (getSA m self).baseUsage) } hs
          exact ⟨by rw [hk.par_eq]; exact hself, hk.anc hself⟩
      · intro k hk
        by_cases hke : k = e.param
        · subst hke
          refine ⟨by rw [(hsame _).1, hpk], fun _ => (hsame _).2, fun hr => (by rw [hr.1] at hpk; cases hpk), fun _ hp' => ?_⟩
          rw [(hsame _).1] at hp'
          cases hp'
        · exact Keep.setSA_ne m _ _ hke
  · cases h
    exact ⟨⟨hself, rfl⟩, fun k _ => Keep.refl song m k⟩

theorem stepR_len {song : Song} {fuel : Nat} (ih : ATLen song fuel) {self : Int} {m : SAMap} {e : Event}
    (hself : par m self = true) (ld drum : Int) {m' : SAMap} {u d l : Int}
    (h : stepR song fuel self m e ld drum = .ok (m', u, d, l)) : StepKeep song self m m' := by
  unfold stepR at h
  simp only at h
  split at h
  · split at h
    · cases h
    · rename_i m1 u1 d1 hx
      cases h
      exact calleeR_len ih hself _ _ _ _ _ hx
  split at h
  · split at h
    · cases h
    · rename_i m1 u1 d1 hx
      cases h
      exact calleeR_len ih hself _ _ _ _ _ hx
  split at h
  · cases h; exact ⟨⟨hself, rfl⟩, fun k _ => Keep.refl song m k⟩
  split at h
  · cases h; exact ⟨⟨hself, rfl⟩, fun k _ => Keep.refl song m k⟩
  · cases h; exact ⟨⟨hself, rfl⟩, fun k _ => Keep.refl song m k⟩

theorem go_len {song : Song} {fuel : Nat} (ih : ATLen song fuel) (self : Int) :
    ∀ (evs : List Event) (m : SAMap) (ld drum : Int) (m'' : SAMap) (d : Int), par m self = true →
      analyzeTrack.go song fuel self evs m ld drum = .ok (m'', d) →
      par m'' self = false ∧ (getSA m'' self).eventList.length = (getSA m self).eventList.length + evs.length ∧
      ∀ k, k ≠ self → Keep song m m'' k := by
  intro evs
  induction evs with
  | nil =>
    intro m ld drum m'' d hself h
    rw [analyzeTrack.go.eq_1] at h
    cases h
    refine ⟨?_, ?_, fun k hk => Keep.setSA_ne m _ _ hk⟩
    · unfold par; rw [getSA_setSA_same]
    · rw [getSA_setSA_same]; simp
  | cons e rest ihl =>
    intro m ld drum m'' d hself h
    rw [go_cons] at h
    split at h
    · cases h
    · rename_i m' usage drum' ld' hx
      have hs := stepR_len ih hself ld drum hx
      obtain ⟨mn, hmn⟩ : ∃ mn, mn = setSA m' self { getSA m' self with
          eventList := (getSA m' self).eventList ++ [wrap16 usage],
          maxUsage := if wrap16 usage > (getSA m' self).maxUsage then wrap16 usage else (getSA m' self).maxUsage } :=
        ⟨_, rfl⟩
      rw [← hmn] at h
      have hpn : par mn self = true := by
        rw [hmn]; unfold par; rw [getSA_setSA_same]; exact hs.mine.1
      obtain ⟨r1, r2, r3⟩ := ihl mn ld' drum' m'' d hpn h
      refine ⟨r1, ?_, ?_⟩
      · rw [r2, hmn, getSA_setSA_same]
        simp only [List.length_append, List.length_cons, List.length_nil]
        rw [hs.mine.2]
        omega
      · intro k hk
        have : Keep song m' mn k := by rw [hmn]; exact Keep.setSA_ne m' _ _ hk
        exact ((hs.other k hk).trans this).trans (r3 k hk)

theorem analyzeTrack_len (song : Song) : ∀ fuel, ATLen song fuel := by
  intro fuel
  induction fuel with
  | zero =>
    intro m self evs drum m'' d h
    rw [analyzeTrack.eq_1] at h
    cases h
  | succ fuel ih =>
    intro m self evs drum m'' d h
    rw [analyzeTrack.eq_2] at h
    obtain ⟨m1, hm1⟩ : ∃ m1, m1 = setSA m self { getSA m self with eventList := [], parsing := true } := ⟨_, rfl⟩
    have e1 : setSA m self (have __src := getSA m self;
        { parsing := true, baseUsage := __src.baseUsage, maxUsage := __src.maxUsage }) = m1 := by rw [hm1]
    rw [e1] at h
    have hp1 : par m1 self = true := by rw [hm1]; unfold par; rw [getSA_setSA_same]
    obtain ⟨g1, g2, g3⟩ := go_len ih self evs m1 0 drum m'' d hp1 h
    refine ⟨g1, ?_, ?_⟩
    · rw [g2, hm1, getSA_setSA_same]; simp
    · intro k hk
      have : Keep song m m1 k := by rw [hm1]; exact Keep.setSA_ne m _ _ hk
      exact this.trans (g3 k hk)

/-! ## `analyze_stack` -/

/-- every track has a complete stack list -/
def ListsFull (song : Song) (m : SAMap) : Prop :=
  ∀ id evs, song.track? id = some evs → evs.length ≤ (getSA m (id : Int)).eventList.length

theorem trackIdOfParam_nat {id : Nat} (h : id < 65536) : trackIdOfParam (id : Int) = id := by
  unfold trackIdOfParam
  omega

theorem lookup_of_mem_nodup' {β : Type} {l : List (Nat × β)} (hnd : (l.map (·.1)).Nodup) {k : Nat} {v : β}
    (h : (k, v) ∈ l) : l.lookup k = some v := by
  induction l with
  | nil => cases h
  | cons p r ih =>
    simp only [List.map_cons, List.nodup_cons] at hnd
    rcases List.mem_cons.1 h with rfl | hr
    · simp [List.lookup]
    · have hk : k ≠ p.1 := by
        intro he
        apply hnd.1
        rw [← he]
        exact List.mem_map.2 ⟨(k, v), hr, rfl⟩
      have : (k == p.1) = false := by simp [hk]
      simp only [List.lookup, this]
      exact ih hnd.2 hr

theorem lookup_none_of_any {m : SAMap} {key : Int} (h : ¬ m.any (·.1 == key) = true) : m.lookup key = none := by
  induction m with
  | nil => rfl
  | cons p r ih =>
    simp only [List.any_cons, Bool.or_eq_true, not_or] at h
    have h1 : (key == p.1) = false := by
      have := h.1
      simp only [beq_iff_eq] at this
      simp only [beq_eq_false_iff_ne, ne_eq]
      exact fun e => this e.symm
    simp only [List.lookup, h1]
    exact ih h.2

theorem getSA_ensure (m : SAMap) (key k : Int) :
    getSA (if m.any (·.1 == key) then m else m ++ [(key, ({} : SA))]) k = getSA m k := by
  split
  · rfl
  · rename_i hany
    unfold getSA
    by_cases hk : k = key
    · rw [hk, lookup_snoc_new m _ _ (Bool.eq_false_iff.2 hany), lookup_none_of_any hany]
      rfl
    · rw [lookup_snoc_ne m _ _ k hk]

/-- the invariant of the loop of `analyze_stack` -/
structure ASInv (song : Song) (m : SAMap) (done : List (Nat × List Event)) : Prop where
  idle : ∀ k, par m k = false
  called : ∀ k, QDone song m k
  full : ∀ p ∈ done, RDone song m (p.1 : Int)

theorem asBody_inv {song : Song} (hnd : (song.tracks.map (·.1)).Nodup) (hid : ∀ p ∈ song.tracks, p.1 < 65536)
    {m : SAMap} {done : List (Nat × List Event)} (hI : ASInv song m done) {p : Nat × List Event} (hp : p ∈ song.tracks)
    {m' : SAMap} (h : asBody song m p = .ok m') : ASInv song m' (done ++ [p]) := by
  unfold asBody at h
  simp only at h
  obtain ⟨m0, hm0⟩ : ∃ m0, m0 = (if m.any (·.1 == (p.1 : Int)) then m else m ++ [((p.1 : Int), ({} : SA))]) := ⟨_, rfl⟩
  rw [← hm0] at h
  have hg : ∀ k, getSA m0 k = getSA m k := fun k => by rw [hm0]; exact getSA_ensure m _ k
  have hk0 : ∀ k, Keep song m m0 k := fun k => Keep.of_getSA (hg k)
  have htr : song.track? (trackIdOfParam (p.1 : Int)) = some p.2 := by
    rw [trackIdOfParam_nat (hid p hp)]
    exact lookup_of_mem_nodup' hnd hp
  split at h
  · split at h
    · cases h
    · rename_i m1 d hx
      obtain ⟨g1, g2, g3⟩ := analyzeTrack_len song _ m0 (p.1 : Int) p.2 0 m1 d hx
      have hR1 : RDone song m1 (p.1 : Int) := ⟨g1, p.2, htr, g2⟩
      have hI1 : ASInv song m1 (done ++ [p]) := by
        refine ⟨fun k => ?_, fun k => ?_, fun q hq => ?_⟩
        · by_cases hk : k = (p.1 : Int)
          · rw [hk]; exact g1
          · rw [((hk0 k).trans (g3 k hk)).par_eq]; exact hI.idle k
        · by_cases hk : k = (p.1 : Int)
          · rw [hk]; exact fun _ _ => hR1.2
          · exact ((hk0 k).trans (g3 k hk)).called (hI.called k)
        · rcases List.mem_append.1 hq with hq | hq
          · by_cases hk : (q.1 : Int) = (p.1 : Int)
            · rw [hk]; exact hR1
            · exact ((hk0 _).trans (g3 _ hk)).done (hI.full q hq)
          · rw [List.mem_singleton] at hq
            rw [hq]; exact hR1
      cases h
      exact hI1
  · rename_i hb
    injection h with h
    subst h
    have hR0 : RDone song m0 (p.1 : Int) := by
      have hp0 : par m0 (p.1 : Int) = false := by rw [(hk0 _).par_eq]; exact hI.idle _
      exact ⟨hp0, (hk0 _).called (hI.called _) hp0 hb⟩
    refine ⟨fun k => by rw [(hk0 k).par_eq]; exact hI.idle k, fun k => (hk0 k).called (hI.called k), fun q hq => ?_⟩
    rcases List.mem_append.1 hq with hq | hq
    · exact (hk0 _).done (hI.full q hq)
    · rw [List.mem_singleton] at hq
      rw [hq]; exact hR0

theorem foldlM_asInv {song : Song} (hnd : (song.tracks.map (·.1)).Nodup) (hid : ∀ p ∈ song.tracks, p.1 < 65536) :
    ∀ (l done : List (Nat × List Event)) (m m' : SAMap), (∀ p ∈ l, p ∈ song.tracks) → ASInv song m done →
      l.foldlM (asBody song) m = .ok m' → ASInv song m' (done ++ l) := by
  intro l
  induction l with
  | nil =>
    intro done m m' _ hI h
    simp only [List.foldlM, pure, Except.pure, Except.ok.injEq] at h
    rw [← h, List.append_nil]
    exact hI
  | cons p r ih =>
    intro done m m' hl hI h
    rw [List.foldlM_cons] at h
    cases hb : asBody song m p with
    | error x => rw [hb] at h; simp [bind, Except.bind] at h
    | ok m1 =>
      rw [hb] at h
      simp only [bind, Except.bind] at h
      have := ih (done ++ [p]) m1 m' (fun q hq => hl q (List.mem_cons_of_mem _ hq))
        (asBody_inv hnd hid hI (hl p List.mem_cons_self) hb) h
      rw [List.append_assoc] at this
      exact this

/-- **After `analyze_stack` every track of the song has a complete stack list.** -/
theorem analyzeStack_full {song : Song} (hnd : (song.tracks.map (·.1)).Nodup) (hid : ∀ p ∈ song.tracks, p.1 < 65536)
    {m : SAMap} (h : analyzeStack song = .ok m) : ListsFull song m := by
  -- the marking of the unused macro tracks (second loop) only touches `base_usage`
  obtain ⟨m0, u, -, h, hm⟩ := analyzeStack_ok h
  have hI := foldlM_asInv hnd hid song.tracks [] [] m0 (fun _ hp => hp)
    ⟨fun _ => rfl, fun k _ hb => absurd rfl hb, fun _ hq => by cases hq⟩ h
  intro id evs ht
  have hmem : (id, evs) ∈ song.tracks := mem_of_lookup' ht
  obtain ⟨_, evs', h1, h2⟩ := hI.full (id, evs) (by simpa using hmem)
  rw [trackIdOfParam_nat (hid _ hmem)] at h1
  rw [hm, markUnused_eventList]
  simp only at h1 h2
  rw [ht] at h1
  cases h1
  omega

end Ctrmml.OptSteps
