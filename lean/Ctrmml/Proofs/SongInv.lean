/-
  C02 helper: the flat-emission invariant of the conversion state, carried through the mutually
  recursive `hook` / `runWriter` / `getSubroutine` / `getMacroTrack` next to C09's `Inv`:
  every finished subroutine list that was made from a well-formed plain track without loop point
  is `Emits` of that track's events (indices looked up in the CURRENT subroutine map, which only
  grows), then the pending rest, then `FINISH`.  At the level of the constructor: the same for the
  channel tracks, with the terminator `end_hook` chooses.
-/
import Ctrmml.Proofs.WriterFold
import Ctrmml.Proofs.MdsTop
namespace Ctrmml.SongInv
open Ctrmml Ctrmml.Player Ctrmml.Mds Ctrmml.WTrace Ctrmml.WFold Ctrmml.Refine Ctrmml.Expand Ctrmml.Tree Ctrmml.MdsFile Tables

/-- a track the writer theorems apply to -/
def WFTrack (song : Song) (tevs : List Event) : Prop :=
  NoEnd tevs ∧ BracketsTimeless tevs ∧ (∀ e ∈ tevs, SimpleEv e) ∧ ∃ items, perf song tevs = .ok items

theorem emits_noseg {m : WCtx} {d : Bool} {r r' : Nat} {g g' : Bool} {its : List TraceItem} {ms : List MEv}
    (h : Emits m d r g its ms r' g') (hn : ∀ it ∈ its, it.ev.type ≠ ev_SEGNO) : g' = g := by
  induction h with
  | nil => rfl
  | @cons d r g it its b ms r' g' _ _ ih =>
    have h1 : (it.ev.type == ev_SEGNO) = false := by simpa using hn it (by simp)
    rw [ih (fun x hx => hn x (by simp [hx])), h1]; simp

theorem type_segno_kind {e : Event} (t : e.type = ev_SEGNO) : e.kind = .segno := by
  unfold Event.kind kindOfType; simp +decide [t]

/-- a drum routine the writer theorem applies to: a forest without notes, drum-mode switches and
(for the expansion to be defined) structural faults, then the routine's note -/
def RoutineOK (song : Song) (tevs : List Event) (fpre : List Tree.Node) (note : Event) (post : List Event) : Prop :=
  tevs = flattenL fpre ++ note :: post ∧ closedL fpre ∧ BracketsTimeless (flattenL fpre) ∧
  (∃ items, Expand.expL (callK song limit) 0 false fpre = .ok items) ∧
  note.type = ev_NOTE ∧ (0 ≤ note.param ∧ note.param < 94) ∧
  ∀ e ∈ flattenL fpre, SimpleEv e ∧ e.type ≠ ev_NOTE ∧ e.type ≠ ev_DRUM_MODE

/-- the list registered under `key` is what the writer makes of the track `key` names: for the key
of a call made in drum-mode state `b`, whose track is well-formed and has no loop point, `Emits` of
the track in state `b`, the pending rest, `FINISH`; for the key of a drum routine, `Emits` of the
events before its note, what is flushed in front of the note, and `DMFINISH` with the note number -/
def FlatSub (song : Song) (m : WCtx) (key : Int) (evs : List MEv) : Prop :=
  (∀ (t : Int) (b : Bool) (tevs : List Event), key = subKey t false b → song.track? (trackIdOfParam t) = some tevs →
    WFTrack song tevs → (∀ e ∈ tevs, e.kind ≠ .segno) →
    ∃ ms r, Emits m b 0 false (tevs.map fun e => tItem e e) ms r false ∧ r < 65536 ∧
      evs = ms ++ flushL r ++ [⟨mds_FINISH, 0⟩]) ∧
  (∀ (t : Int) (tevs : List Event) (fpre : List Tree.Node) (note : Event) (post : List Event), key = subKey t true false →
    song.track? (trackIdOfParam t) = some tevs → RoutineOK song tevs fpre note post →
    ∃ ms r g, Emits m false 0 false ((flattenL fpre).map fun e => tItem e e) ms r g ∧ r < 65536 ∧
      evs = ms ++ (prepR r (tItem note note)).1 ++ [⟨mds_DMFINISH, u16 note.param⟩])

theorem FlatSub.mono {song : Song} {m m' : WCtx} (hm : m.le m') {key : Int} {evs : List MEv}
    (h : FlatSub song m key evs) : FlatSub song m' key evs := by
  refine ⟨?_, ?_⟩
  · intro t b tevs hk htr hwf hns
    obtain ⟨ms, r, he, hr, ho⟩ := h.1 t b tevs hk htr hwf hns
    exact ⟨ms, r, he.mono hm, hr, ho⟩
  · intro t tevs fpre note post hk htr hro
    obtain ⟨ms, r, g, he, hr, ho⟩ := h.2 t tevs fpre note post hk htr hro
    exact ⟨ms, r, g, he.mono hm, hr, ho⟩

/-- every finished subroutine (not in `hs`: still being converted) is flat -/
def Flat (song : Song) (d : DataInfo) (c : Conv) (hs : List Nat) : Prop :=
  ∀ p ∈ c.subMap, p.2 ∉ hs → ∃ evs, c.subList[p.2]? = some evs ∧ FlatSub song (ctxOf d c) p.1 evs

theorem flat_empty (song : Song) (d : DataInfo) : Flat song d {} [] := by intro p hp; simp at hp

/-- same subroutine map and lists: same invariant -/
theorem Flat.congr {song : Song} {d : DataInfo} {c c' : Conv} {hs : List Nat} (h : Flat song d c hs) (h1 : c'.subMap = c.subMap)
    (h2 : c'.subList = c.subList) (h3 : ∀ p ∈ c.macroMap, p ∈ c'.macroMap)
    (h4 : c.usedData.length ≤ c'.usedData.length) : Flat song d c' hs := by
  intro p hp hn
  rw [h1] at hp
  obtain ⟨evs, he, hf⟩ := h p hp hn
  refine ⟨evs, by rw [h2]; exact he, ?_⟩
  have hle : (ctxOf d c).le (ctxOf d c') := ⟨fun q hq => by
    have hq' : q ∈ c.subMap := hq
    show q ∈ c'.subMap
    rw [h1]; exact hq', h3, rfl, h4⟩
  exact FlatSub.mono hle hf

theorem subKey_inj {t t' : Int} {a b a' b' : Bool} (h : subKey t a b = subKey t' a' b') : t = t' ∧ a = a' ∧ b = b' := by
  unfold subKey at h
  cases a <;> cases b <;> cases a' <;> cases b' <;> simp at h <;> first | exact ⟨by omega, rfl, rfl⟩ | omega

structure WInv2 (song : Song) (d : DataInfo) (n : Nat) : Prop where
  hook : ∀ c w it c' w' L P, Inv song d c (w.out :: L) P → Flat song d c P.hs → Mds.hook song d n c w it = .ok (c', w') →
    Flat song d c' P.hs
  run : ∀ steps root c w st c' w' L P, Inv song d c (w.out :: L) P → Flat song d c P.hs →
    runWriter song d root n steps c w st = .ok (c', w') → Flat song d c' P.hs
  sub : ∀ c t a b c' id L P, Inv song d c L P → Flat song d c P.hs → getSubroutine song d n c t a b = .ok (c', id) →
    Flat song d c' P.hs
  mac : ∀ c t c' id L P, Inv song d c L P → Flat song d c P.hs → getMacroTrack song d n c t = .ok (c', id) →
    Flat song d c' P.hs

theorem hook_succ_flat {song : Song} {d : DataInfo} (hpc : PlatformClean d) (n : Nat) (ih : WInv2 song d n) :
    ∀ c w it c' w' L P, Inv song d c (w.out :: L) P → Flat song d c P.hs → Mds.hook song d (n + 1) c w it = .ok (c', w') →
      Flat song d c' P.hs := by
  intro c w it c' w' L P hinv hf h
  cases hook_step hpc h with
  | plain w' evs _ _ => exact hf
  | drum c' id w' pre ev _ _ hg _ _ _ _ => exact ih.sub c _ _ _ c' id (w.out :: L) P hinv hf hg
  | jump c' id w' pre _ hg _ _ => exact ih.sub c _ _ _ c' id (w.out :: L) P hinv hf hg
  | data key ty arg w' pre _ _ _ _ =>
    obtain ⟨h1, _, h3, _, h5, _⟩ := getEnvelope_spec c key hinv.maps
    exact hf.congr h3 h1 (fun p hp => by
      have : (getEnvelope c key).1.macroMap = c.macroMap := by unfold getEnvelope; split <;> rfl
      rw [this]; exact hp) h5
  | mtab c' id w' pre _ _ hg _ _ => exact ih.mac c _ c' id (w.out :: L) P hinv hf hg

theorem run_succ_flat {song : Song} {d : DataInfo} (hpc : PlatformClean d) (n : Nat) (ih : WInv2 song d n) :
    ∀ steps root c w st c' w' L P, Inv song d c (w.out :: L) P → Flat song d c P.hs →
      runWriter song d root (n + 1) steps c w st = .ok (c', w') → Flat song d c' P.hs := by
  intro steps
  induction steps with
  | zero => intro root c w st c' w' L P _ _ h; simp only [runWriter] at h; cases h
  | succ k ihk =>
    intro root c w st c' w' L P hinv hf h
    simp only [runWriter] at h
    split at h
    · simp only [Except.ok.injEq, Prod.mk.injEq] at h
      obtain ⟨rfl, rfl⟩ := h
      exact hf
    · cases hst : stepTrace song root false st with
      | error p =>
        rw [hst] at h
        obtain ⟨e, ho⟩ := p
        cases ho with
        | none => simp at h
        | some it =>
          simp only at h
          cases hh : Mds.hook song d n c w it with
          | error x => rw [hh] at h; simp only at h; split at h <;> cases h
          | ok r => rw [hh] at h; cases h
      | ok p =>
        rw [hst] at h
        obtain ⟨st', t⟩ := p
        cases t with
        | none => exact ihk root c w st' c' w' L P hinv hf h
        | some t1 =>
          cases t1 with
          | none =>
            simp only [Except.ok.injEq, Prod.mk.injEq] at h
            obtain ⟨rfl, _⟩ := h
            exact hf
          | some it =>
            simp only at h
            cases hh : Mds.hook song d n c w it with
            | error x => rw [hh] at h; simp only at h; split at h <;> cases h
            | ok r =>
              rw [hh] at h
              obtain ⟨c1, w1⟩ := r
              obtain ⟨hi1, _⟩ := (writerInv hpc n).hook c w it c1 w1 L P hinv hh
              have hf1 := ih.hook c w it c1 w1 L P hinv hf hh
              exact ihk root c1 w1 st' c' w' L P hi1 hf1 h

theorem getElem?_append_some' {α} {l m : List α} {k : Nat} {x : α} (h : l[k]? = some x) : (l ++ m)[k]? = some x :=
  getElem?_append_some h

theorem sub_succ_flat {song : Song} {d : DataInfo} (hpc : PlatformClean d) (hne : SongNoEnd song) (n : Nat)
    (ih : WInv2 song d n) :
    ∀ c t a b c' id L P, Inv song d c L P → Flat song d c P.hs → getSubroutine song d (n + 1) c t a b = .ok (c', id) →
      Flat song d c' P.hs := by
  intro c t a b c' id L P hinv hf h
  simp only [getSubroutine] at h
  change (match c.subMap.lookup (subKey t a b) with | some id => _ | none => _) = _ at h
  cases hl : c.subMap.lookup (subKey t a b) with
  | some k =>
    rw [hl] at h
    simp only [Except.ok.injEq, Prod.mk.injEq] at h
    obtain ⟨rfl, rfl⟩ := h
    exact hf
  | none =>
    rw [hl] at h
    simp only at h
    cases htr : song.track? (trackIdOfParam t) with
    | none => rw [htr] at h; cases h
    | some evs =>
      rw [htr] at h
      simp only at h
      have h1 := inv_sub_new hinv (subKey t a b) hl
      have ekey : ((t * 4 + if a = true then 2 else 0) + if b = true then 1 else 0) = subKey t a b := rfl
      rw [ekey] at h
      obtain ⟨c1, hc1⟩ : ∃ c1 : Conv, c1 = { c with subMap := c.subMap ++ [(subKey t a b, c.subList.length)], subList := c.subList ++ [[]] } := ⟨_, rfl⟩
      rw [← hc1] at h h1
      cases hr : runWriter song d evs n 20000000 c1 { drumEnabled := b, inDrum := a, trackId := t } initState with
      | error x => rw [hr] at h; cases h
      | ok r =>
        rw [hr] at h
        obtain ⟨c2, w⟩ := r
        simp only [Except.ok.injEq, Prod.mk.injEq] at h
        obtain ⟨rfl, rfl⟩ := h
        -- the invariant with the new entry pending
        have hf1 : Flat song d c1 (c.subList.length :: P.hs) := by
          intro p hp hnot
          simp only [List.mem_cons, not_or] at hnot
          have hp' : p ∈ c.subMap := by
            rw [hc1] at hp
            rcases List.mem_append.mp hp with hp' | hp'
            · exact hp'
            · rw [List.mem_singleton] at hp'; subst hp'; exact absurd rfl hnot.1
          obtain ⟨evs', he, hfl⟩ := hf p hp' hnot.2
          refine ⟨evs', by rw [hc1]; exact getElem?_append_some he, ?_⟩
          rw [hc1]
          have hle : (ctxOf d c).le (ctxOf d { c with subMap := c.subMap ++ [(subKey t a b, c.subList.length)], subList := c.subList ++ [[]] }) :=
            ⟨fun q hq => by
              have hq' : q ∈ c.subMap := hq
              show q ∈ c.subMap ++ [(subKey t a b, c.subList.length)]
              exact List.mem_append_left _ hq', fun q hq => hq, rfl, Nat.le_refl _⟩
          exact FlatSub.mono hle hfl
        have hf2 := ih.run 20000000 evs c1 _ initState c2 w L _ h1 hf1 hr
        obtain ⟨hi2, hm2⟩ := (writerInv hpc n).run 20000000 evs c1 _ initState c2 w L _ h1 hr
        have hmem1 : (subKey t a b, c.subList.length) ∈ c1.subMap := by rw [hc1]; simp
        have hmem2 := hm2.1 _ hmem1
        have hlt : c.subList.length < c2.subList.length := hold_lt (hi2.holdS _ (by simp))
        intro p hp hnot
        by_cases hpk : p.2 = c.subList.length
        · have hpe : p = (subKey t a b, c.subList.length) := pair_eq_of_val hi2.maps.sub hp hmem2 hpk
          subst hpe
          refine ⟨w.out, by show (c2.subList.set c.subList.length w.out)[c.subList.length]? = some w.out; simp [hlt], ?_, ?_⟩
          · intro t' b' tevs hk htr' hwf hns
            obtain ⟨rfl, rfl, rfl⟩ := subKey_inj hk
            rw [htr] at htr'
            obtain rfl : evs = tevs := Option.some.inj htr'
            obtain ⟨hr', hbt, hsimple, items, hperf⟩ := hwf
            cases n with
            | zero => simp [runWriter] at hr
            | succ n' =>
              obtain ⟨ms, r, g, hem, hrl, hout, _, _⟩ := writer_flat song evs hpc hne hr' hbt hperf hsimple n' 20000000 c1
                { drumEnabled := b, inDrum := false, trackId := t } c2 w L _ ⟨rfl, by show (0 : Nat) < 65536; omega⟩ rfl h1 hr
              have hg : g = false := emits_noseg hem (by
                intro it hit
                obtain ⟨e, he, rfl⟩ := List.mem_map.mp hit
                exact fun ht => hns e he (type_segno_kind ht))
              subst hg
              refine ⟨ms, r, hem, hrl, ?_⟩
              simpa using hout
          · intro t' tevs fpre note post hk htr' hro
            obtain ⟨rfl, rfl, rfl⟩ := subKey_inj hk
            rw [htr] at htr'
            obtain rfl : evs = tevs := Option.some.inj htr'
            obtain ⟨heq, hcl, hbt, ⟨items, hexp⟩, hnote, hp, hpre⟩ := hro
            cases n with
            | zero => simp [runWriter] at hr
            | succ n' =>
              have hdr : dAfterL false ((flattenL fpre).map fun e => tItem e e) = false := by
                have : ∀ (l : List Event), (∀ e ∈ l, e.type ≠ ev_DRUM_MODE) → dAfterL false (l.map fun e => tItem e e) = false := by
                  intro l
                  induction l with
                  | nil => intro _; rfl
                  | cons e l ih =>
                    intro hl
                    have h1 : ¬ (tItem e e).ev.type = ev_DRUM_MODE := hl e (by simp)
                    simp only [List.map_cons, dAfterL, dAfter, if_neg h1]
                    exact ih (fun x hx => hl x (by simp [hx]))
                exact this _ (fun e he => (hpre e he).2.2)
              obtain ⟨ms, r, g, hem, hrl, hout, _, _⟩ := writer_routine song evs hpc hne fpre note post heq hcl hbt hexp hnote hp
                (fun e he => (hpre e he).1) (fun e he => (hpre e he).2.1) n' 20000000 c1
                { drumEnabled := false, inDrum := true, trackId := t } c2 w L _ ⟨rfl, by show (0 : Nat) < 65536; omega⟩ rfl hdr h1 hr
              exact ⟨ms, r, g, hem, hrl, by simpa using hout⟩
        · obtain ⟨evs', he, hfl⟩ := hf2 p hp (by simp [hpk, hnot])
          refine ⟨evs', ?_, hfl⟩
          show (c2.subList.set c.subList.length w.out)[p.2]? = some evs'
          rw [List.getElem?_set_ne (Ne.symm hpk)]; exact he

theorem mac_succ_flat {song : Song} {d : DataInfo} (hpc : PlatformClean d) (n : Nat) (ih : WInv2 song d n) :
    ∀ c t c' id L P, Inv song d c L P → Flat song d c P.hs → getMacroTrack song d (n + 1) c t = .ok (c', id) →
      Flat song d c' P.hs := by
  intro c t c' id L P hinv hf h
  simp only [getMacroTrack] at h
  cases hl : c.macroMap.lookup t with
  | some k =>
    rw [hl] at h
    simp only [Except.ok.injEq, Prod.mk.injEq] at h
    obtain ⟨rfl, rfl⟩ := h
    exact hf
  | none =>
    rw [hl] at h
    simp only at h
    cases htr : song.track? (trackIdOfParam t) with
    | none => rw [htr] at h; cases h
    | some evs =>
      rw [htr] at h
      simp only at h
      have h1 := inv_mac_new hinv t hl
      obtain ⟨c1, hc1⟩ : ∃ c1 : Conv, c1 = { c with macroMap := c.macroMap ++ [(t, c.macroList.length)], macroList := c.macroList ++ [[]] } := ⟨_, rfl⟩
      rw [← hc1] at h h1
      cases hr : runWriter song d evs n 20000000 c1 { drumEnabled := false, inDrum := false, trackId := t } initState with
      | error x => rw [hr] at h; cases h
      | ok r =>
        rw [hr] at h
        obtain ⟨c2, w⟩ := r
        simp only [Except.ok.injEq, Prod.mk.injEq] at h
        obtain ⟨rfl, rfl⟩ := h
        have hf1 : Flat song d c1 P.hs := hf.congr (by rw [hc1]) (by rw [hc1]) (fun p hp => by rw [hc1]; simp [hp]) (by rw [hc1]; exact Nat.le_refl _)
        have hf2 := ih.run 20000000 evs c1 _ initState c2 w L { P with xm := c.macroList.length :: P.xm, hm := c.macroList.length :: P.hm }
          h1 hf1 hr
        exact hf2.congr rfl rfl (fun p hp => hp) (Nat.le_refl _)

/-- the flat invariant is carried by all four functions, for every fuel -/
theorem writerInv2 {song : Song} {d : DataInfo} (hpc : PlatformClean d) (hne : SongNoEnd song) : ∀ n, WInv2 song d n := by
  intro n
  induction n with
  | zero =>
    refine ⟨?_, ?_, ?_, ?_⟩
    · intro c w it c' w' L P _ _ h; simp only [Mds.hook] at h; cases h
    · intro steps root c w st c' w' L P _ _ h; cases steps <;> (simp only [runWriter] at h; cases h)
    · intro c t a b c' id L P _ _ h; simp only [getSubroutine] at h; cases h
    · intro c t c' id L P _ _ h; simp only [getMacroTrack] at h; cases h
  | succ n ih =>
    exact ⟨hook_succ_flat hpc n ih, run_succ_flat hpc n ih, sub_succ_flat hpc hne n ih, mac_succ_flat hpc n ih⟩

/-! ### the constructor -/

/-- what the writer made of a channel track -/
def ChanFlat (song : Song) (m : WCtx) (id : Nat) (evs : List MEv) : Prop :=
  ∀ tevs, song.track? id = some tevs → WFTrack song tevs →
    ∃ items ms r g, perf song tevs = .ok items ∧ Emits m false 0 false (tevs.map fun e => tItem e e) ms r g ∧ r < 65536 ∧
      evs = ms ++ flushL r ++
        [⟨if g = true ∧ (totalDur items : Int) ≠ toInt (loopTime items) then mds_JUMP else mds_FINISH, 0⟩]

theorem ChanFlat.mono {song : Song} {m m' : WCtx} (hm : m.le m') {id : Nat} {evs : List MEv}
    (h : ChanFlat song m id evs) : ChanFlat song m' id evs := by
  intro tevs htr hwf
  obtain ⟨items, ms, r, g, h1, h2, h3, h4⟩ := h tevs htr hwf
  exact ⟨items, ms, r, g, h1, h2.mono hm, h3, h4⟩

theorem parseTracks_flat {song : Song} {d : DataInfo} (hpc : PlatformClean d) (hne : SongNoEnd song) :
    ∀ (ids : List Nat) (c : Conv) (tl : List (Nat × List MEv)) (c' : Conv) (tl' : List (Nat × List MEv)),
      Inv song d c (tl.map (·.2)) {} → Flat song d c [] → (∀ p ∈ tl, ChanFlat song (ctxOf d c) p.1 p.2) →
      parseTracks song d ids c tl = .ok (c', tl') →
      Flat song d c' [] ∧ (∀ p ∈ tl', ChanFlat song (ctxOf d c') p.1 p.2)
  | [], c, tl, c', tl', _, hf, hch, h => by
    simp only [parseTracks, Except.ok.injEq, Prod.mk.injEq] at h
    obtain ⟨rfl, rfl⟩ := h
    exact ⟨hf, hch⟩
  | id :: ids, c, tl, c', tl', hinv, hf, hch, h => by
    simp only [parseTracks] at h
    cases htr : song.track? id with
    | none =>
      rw [htr] at h
      exact parseTracks_flat hpc hne ids c tl c' tl' hinv hf hch h
    | some evs =>
      rw [htr] at h
      simp only at h
      cases hr : runWriter song d evs 64 20000000 c { drumEnabled := false, inDrum := false, trackId := (id : Int) } initState with
      | error x => rw [hr] at h; cases h
      | ok r =>
        rw [hr] at h
        obtain ⟨c1, w⟩ := r
        simp only at h
        have h0 : Inv song d c (([] : List MEv) :: tl.map (·.2)) {} :=
          inv_lists_congr (fun l hl => Or.inl (List.mem_cons_of_mem _ hl))
            (fun l hl => by rcases List.mem_cons.mp hl with h' | h'; exact Or.inr h'; exact Or.inl h') hinv
        obtain ⟨hi1, hm1⟩ := (writerInv hpc 64).run 20000000 evs c _ initState c1 w (tl.map (·.2)) {} h0 hr
        have hf1 : Flat song d c1 [] := (writerInv2 hpc hne 64).run 20000000 evs c _ initState c1 w (tl.map (·.2)) {} h0 hf hr
        have hi2 : Inv song d c1 ((tl ++ [((id : Nat), w.out)]).map (·.2)) {} :=
          inv_lists_congr (fun l hl => Or.inl (by
              rcases List.mem_cons.mp hl with h' | h'
              · subst h'; simp
              · simp only [List.map_append, List.mem_append]; exact Or.inl h'))
            (fun l hl => Or.inl (by
              simp only [List.map_append, List.mem_append, List.map_cons, List.map_nil, List.mem_singleton] at hl
              rcases hl with h' | h'
              · exact List.mem_cons_of_mem _ h'
              · subst h'; exact List.mem_cons_self)) hi1
        have hch1 : ∀ p ∈ tl ++ [((id : Nat), w.out)], ChanFlat song (ctxOf d c1) p.1 p.2 := by
          intro p hp
          rcases List.mem_append.mp hp with hp' | hp'
          · exact (hch p hp').mono (ctxOf_le d hm1)
          · rw [List.mem_singleton] at hp'; subst hp'
            intro tevs htr' hwf
            rw [htr] at htr'
            obtain rfl : evs = tevs := Option.some.inj htr'
            obtain ⟨hr', hbt, hsimple, items, hperf⟩ := hwf
            obtain ⟨ms, r, g, hem, hrl, hout, _, _⟩ := writer_flat song evs hpc hne hr' hbt hperf hsimple 63 20000000 c
              { drumEnabled := false, inDrum := false, trackId := (id : Int) } c1 w (tl.map (·.2)) {}
              ⟨rfl, by show (0 : Nat) < 65536; omega⟩ rfl h0 hr
            exact ⟨items, ms, r, g, hperf, hem, hrl, by simpa using hout⟩
        exact parseTracks_flat hpc hne ids c1 _ c' tl' hi2 hf1 hch1 h

/-- **the flat form of everything the constructor converts** -/
theorem construct_flat {song : Song} {d : DataInfo} (hpc : PlatformClean d) (hne : SongNoEnd song) {vol : Option String}
    {b : Built} (h : construct song d vol = .ok b) :
    Flat song d b.conv [] ∧ ∀ p ∈ b.trackList, ChanFlat song (ctxOf d b.conv) p.1 p.2 := by
  unfold construct at h
  cases hp : parseTracks song d (channelIds song) {} [] with
  | error x => rw [hp] at h; cases h
  | ok r =>
    rw [hp] at h
    obtain ⟨c, tl⟩ := r
    simp only at h
    obtain ⟨_, _, _, _, _, _, _, hc, ht, _⟩ := assemble_ok h
    rw [hc, ht]
    exact parseTracks_flat hpc hne _ _ _ _ _ (inv_empty song d) (flat_empty song d) (by intro p hp; simp at hp) hp

end Ctrmml.SongInv
