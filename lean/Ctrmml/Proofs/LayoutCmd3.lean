/-
  Helper lemmas for C06, round 5 (no property statements here): the bare echo `\` followed by blanks
  (or the end of the line).  `mml_echo` reads the byte behind `\` with `get_token()`, which skips the
  blanks; then `read_duration` finds no number at the first other byte.  The blanks consumed are
  `countBlanks`, which for a tail "blanks, then a byte at which no number starts" is also what
  `numSpan` skips — so `L2.lcmdSkip` already counts them and only the look-ahead condition has to be
  widened: `L3.LCmdTail` = `L2.LCmdTail` with `EchoHead` replaced by `EchoHead ∨ (bare ∧ BareTail)`.
  All other definitions are those of `L2`.
-/
import Ctrmml.Proofs.LayoutTransfer
namespace Ctrmml.Mml.L3
open Ctrmml.Tables Ctrmml.Lexer Ctrmml.TrackBuilder
open Ctrmml.MmlMeaning (Num Dur Acc Cmd Simple)

/-- what may follow a bare echo `\`: blanks, then the end of the text or a byte at which no number starts -/
def BareTail (tail : List Nat) : Prop :=
  ∃ bl rest, tail = bl ++ rest ∧ (∀ b ∈ bl, b = 32 ∨ b = 9) ∧ (rest = [] ∨ ∃ c r, rest = c :: r ∧ L2.Stop c)

/-- the look-ahead condition of round 3, the echo widened by the bare `\` before blanks -/
def LCmdTail : Cmd → List Nat → Prop
  | .echo d, tail => DurTail d tail ∧ (EchoHead (d.bytes ++ tail) ∨ (d = .dflt 0 ∧ BareTail tail))
  | c, tail => L2.LCmdTail c tail

theorem lcmdTail_of_v2 (c : Cmd) (tail : List Nat) (h : L2.LCmdTail c tail) : LCmdTail c tail := by
  cases c with
  | echo d => exact ⟨h.1, Or.inl h.2⟩
  | _ => exact h

theorem stop_ne_eq (c : Nat) (h : L2.Stop c) : c ≠ 61 := by
  unfold L2.Stop L2.LCmdStart Mml.LCmdStart CmdStart at h; omega

/-- `mml_basic`: a bare `\`, blanks, then no number -/
theorem bare_echo_span (s : MmlState) (hs : Sane s) (tail : List Nat)
    (hsuf : suffix s = 92 :: tail) (hb : BareTail tail) :
    mmlBasic s = .ok false
      (adv (setTrack s ((getTrack s).addEcho (UInt16.ofNat (durVal (getTrack s) (.dflt 0)).toNat))) (1 + (Dur.dflt 0).bytes.length + durSkip (.dflt 0) tail)) := by
  obtain ⟨bl, rest, rfl, hbl, hrest⟩ := hb
  have hs1 : Sane (adv s 1) := sane_adv s hs 1 (by rw [hsuf]; simp)
  have hsuf1 : suffix (adv s 1) = bl ++ rest := by rw [suffix_adv, hsuf]; rfl
  obtain ⟨s2, hs2def⟩ : ∃ s2, s2 = adv (adv s 1) bl.length := ⟨_, rfl⟩
  have hs2 : Sane s2 := by rw [hs2def]; exact sane_adv _ hs1 _ (by rw [hsuf1]; simp)
  have hsuf2 : suffix s2 = rest := by rw [hs2def]; exact suffix_adv_append _ _ _ hsuf1
  have hns : numSpan (bl ++ rest) = (none, bl.length) := L2.numSpan_stop bl hbl rest hrest
  have hns0 : numSpan rest = (none, 0) := by
    simpa using L2.numSpan_stop [] (fun b hb => by simp at hb) rest hrest
  have hskip : durSkip (.dflt 0) (bl ++ rest) = bl.length := by simp [durSkip, hns]
  have hskip0 : durSkip (.dflt 0) rest = 0 := by simp [durSkip, hns0]
  have htr : DurTail (.dflt 0) rest := by
    refine ⟨by rw [hns0], ?_, ?_⟩
    · rw [hns0]
      rcases hrest with rfl | ⟨c, r, rfl, hc⟩
      · simp
      · have := L2.stop_props c hc
        simp; omega
    · rcases hrest with rfl | ⟨c, r, rfl, hc⟩
      · simp
      · have := L2.stop_props c hc
        simp; omega
  have hdur := readDuration_render s2 hs2 (.dflt 0) rest (by rw [hsuf2]; simp [Dur.bytes, MmlMeaning.dotsBytes]) trivial htr
  have htok : getTokenC (adv s 1) = getC s2 := by
    rw [getTokenC_eq, hsuf1, L2.countBlanks_shape bl rest hbl hrest, hs2def]
  have hget : ∃ v : Int, getTokenC (adv s 1) = .ok v (adv s2 1) ∧ (v == 61) = false := by
    rcases hrest with rfl | ⟨c, r, rfl, hc⟩
    · exact ⟨0, by rw [htok, getC_nil _ hsuf2], by decide⟩
    · have hrg := (L2.stop_props c hc).1
      refine ⟨(c : Int), by rw [htok, getC_cons _ c r hsuf2, schar_small c hrg.2], ne_lit c 61 (stop_ne_eq c hc) 61 rfl⟩
  obtain ⟨v, hv1, hv2⟩ := hget
  have hecho : mmlEcho (adv s 1) = .ok ()
      (adv (setTrack s ((getTrack s).addEcho (UInt16.ofNat (durVal (getTrack s) (.dflt 0)).toNat))) (1 + (Dur.dflt 0).bytes.length + durSkip (.dflt 0) (bl ++ rest))) := by
    unfold mmlEcho
    rw [bind_ok hv1]
    simp only [hv2, Bool.false_eq_true, if_false]
    rw [bind_ok (ungetC_zero s2)]
    rw [bind_ok hdur]
    rw [trackOp_ok _ _ _ "" rfl]
    rw [hskip, hskip0, hs2def]
    simp only [getTrack_adv, setTrack_adv, adv_adv, Dur.bytes, MmlMeaning.dotsBytes, List.replicate_zero, List.length_nil, Nat.add_zero]
  unfold mmlBasic
  rw [bind_ok (getTokenC_cons s 92 _ hsuf (by omega))]
  dispatch 92
  rw [bind_ok hecho, run_pure]

/-- ONE COVERED COMMAND AT THE CURSOR, the bare echo before blanks included: `L2.lcmd_step` under the
wider look-ahead condition `L3.LCmdTail`; same builder call, same number of bytes consumed -/
theorem lcmd_step (f : Nat) (s : MmlState) (hs : Sane s) (cmd : Cmd) (tail : List Nat) (hc : L2.LCovered cmd)
    (hcb : s.conditionalBlock = false)
    (hsuf : suffix s = cmd.bytes ++ tail) (hn : L2.LCmdNums (getTrack s).strip cmd) (ht : LCmdTail cmd tail) :
    parseMmlTrackF (f + 1) s =
      parseMmlTrackF f (adv (setTrack s (L2.lcmdTrack ((getTrack s).setReference (some { line := s.inp.line, column := s.inp.lb.column })) cmd))
        (cmd.bytes.length + L2.lcmdSkip cmd tail)) := by
  cases cmd with
  | echo d =>
    rcases ht.2 with hh | ⟨rfl, hb⟩
    · exact L2.lcmd_step f s hs (.echo d) tail hc hcb hsuf hn ⟨ht.1, hh⟩
    · obtain ⟨t1, ht1⟩ : ∃ t1, t1 = (getTrack s).setReference (some { line := s.inp.line, column := s.inp.lb.column }) := ⟨_, rfl⟩
      have hs0 : Sane (setTrack s t1) := sane_setTrack _ _ hs
      have hsuf0 : suffix (setTrack s t1) = 92 :: tail := by
        rw [suffix_setTrack]; simpa [Cmd.bytes, Dur.bytes, MmlMeaning.dotsBytes] using hsuf
      have hspan := bare_echo_span (setTrack s t1) hs0 tail hsuf0 hb
      rw [getTrack_setTrack, setTrack_setTrack] at hspan
      have hsuf' : suffix s = List.replicate 0 32 ++ 92 :: tail := by
        simpa [Cmd.bytes, Dur.bytes, MmlMeaning.dotsBytes] using hsuf
      have := step_basic f s hs 0 92 _ hsuf' (by omega) (by unfold NotLoopChar; omega) _ (by
        rw [adv_zero, Nat.add_zero, ← ht1]; exact hspan)
      rw [this, ht1]
      simp only [Cmd.bytes, L2.lcmdSkip, List.length_cons]
      have e : 1 + (Dur.dflt 0).bytes.length + durSkip (.dflt 0) tail = (Dur.dflt 0).bytes.length + 1 + durSkip (.dflt 0) tail := by omega
      rw [e]
      rfl
  | _ => exact L2.lcmd_step f s hs _ tail hc hcb hsuf hn ht

/-- behind any non-empty separator (or at the end of the line) the look-ahead condition `L3.LCmdTail`
of EVERY command holds — the bare echo included, no side condition -/
theorem cmdTail_of_sep (t : Track) (cmd : Cmd) (hn : L2.LCmdNums t cmd) (ts : List Tok) (e : List Nat) (hok : L2.ToksOk ts e)
    (hcov : ∀ c ∈ cmdsOf ts, L2.LCovered c) (he : EndOk e) (hts : ∀ c ts', ts ≠ Tok.cmd c :: ts') :
    LCmdTail cmd (toksText ts e) := by
  by_cases hbare : cmd = .echo (.dflt 0)
  · subst hbare
    have h1 : DurTail (.dflt 0) (toksText ts e) :=
      L2.cmdTail_of_sep t (.rest (.dflt 0)) trivial ts e hok hcov he hts (fun d hd => by cases hd)
    obtain ⟨bl, rest, a1, _, a3, a4⟩ := L2.toks_shape ts e hok hcov (L2.stopEnd_of_endOk he)
    exact ⟨h1, Or.inr ⟨rfl, bl, rest, a1, a3, a4⟩⟩
  · exact lcmdTail_of_v2 cmd _ (L2.cmdTail_of_sep t cmd hn ts e hok hcov he hts (fun d hd hd0 => hbare (by rw [hd, hd0])))

end Ctrmml.Mml.L3
