/-
  Helper lemmas for C06, round 5 (no property statements here): Proofs/LayoutBlock replayed for the
  widened command set `L2.LCovered` (Proofs/LayoutCmd2, Proofs/LayoutLine2).  Scans, `Clean`, `Item`,
  the block texts and `selCmds` are those of Proofs/LayoutBlock; what depends on the command set is
  restated inside `Ctrmml.Mml.L2`.  Inside an alternative the reader runs with the block flag set,
  where the byte `/` is the alternative separator, not the loop break: the step lemma and the
  segment lemma are replayed without the hypothesis `s.conditionalBlock = false` for command lists
  without a loop break (`NoBreak`), which is what `Clean` gives for an alternative.
-/
import Ctrmml.Proofs.LayoutBlock
import Ctrmml.Proofs.LayoutLines2
namespace Ctrmml.Mml.L2
open Ctrmml.Tables Ctrmml.Lexer Ctrmml.TrackBuilder
open Ctrmml.MmlMeaning (Num Dur Acc Cmd Simple)
open Ctrmml.Layout (Addr)

/-- no command of the list is the loop break `/` -/
def NoBreak (cs : List Cmd) : Prop := ∀ c ∈ cs, c ≠ .simple .loopBreak none

/-- ONE COVERED COMMAND OTHER THAN THE LOOP BREAK AT THE CURSOR: `L2.lcmd_step` without the
hypothesis on the block flag (valid inside a conditional block as well) -/
theorem lcmd_step_nb (f : Nat) (s : MmlState) (hs : Sane s) (cmd : Cmd) (tail : List Nat) (hc : LCovered cmd)
    (hnb : cmd ≠ .simple .loopBreak none)
    (hsuf : suffix s = cmd.bytes ++ tail) (hn : LCmdNums (getTrack s).strip cmd) (ht : LCmdTail cmd tail) :
    parseMmlTrackF (f + 1) s =
      parseMmlTrackF f (adv (setTrack s (lcmdTrack ((getTrack s).setReference (some { line := s.inp.line, column := s.inp.lb.column })) cmd))
        (cmd.bytes.length + lcmdSkip cmd tail)) := by
  rcases lcovered_cases cmd hc with ⟨n, rfl, h0⟩ | ⟨n, rfl⟩ | ⟨n, rfl, hh, h0⟩ | rfl | ⟨d, rfl⟩ | ⟨hold, h1, h2, h3, h4⟩
  · have hsuf' : suffix s = 86 :: (n.bytes ++ tail) := by simpa [Cmd.bytes, Simple.spellingBytes, MmlMeaning.optNumBytes] using hsuf
    have h := lstep_fineVol f s hs _ hsuf' (fun t => t.addEvent ev_VOL_FINE n.v 0 0) (1 + n.bytes.length) (fun s0 hs0 hsuf0 => by
      have hs1 : Sane (adv s0 1) := sane_adv s0 hs0 1 (by rw [hsuf0]; simp)
      have hsuf1 : suffix (adv s0 1) = n.bytes ++ tail := by rw [suffix_adv, hsuf0]; rfl
      rw [fineVol_span s0 _ hsuf0 _ (eventRelative_abs (adv s0 1) hs1 n tail hsuf1 hn ht h0)]
      simp only [getTrack_adv, setTrack_adv, adv_adv])
    rw [h]
    simp only [Cmd.bytes, Simple.spellingBytes, MmlMeaning.optNumBytes, lcmdSkip, Mml.lcmdSkip, List.length_append, List.length_cons, List.length_nil, Nat.add_zero, Nat.zero_add]
    rfl
  · have hsuf' : suffix s = 86 :: 43 :: (n.bytes ++ tail) := by simpa [Cmd.bytes, Simple.spellingBytes, MmlMeaning.optNumBytes] using hsuf
    have h := lstep_fineVol f s hs _ hsuf' (fun t => t.addEvent ev_VOL_FINE_REL n.v 0 0) (2 + n.bytes.length) (fun s0 hs0 hsuf0 => by
      have hs1 : Sane (adv s0 1) := sane_adv s0 hs0 1 (by rw [hsuf0]; simp)
      have hsuf1 : suffix (adv s0 1) = 43 :: (n.bytes ++ tail) := by rw [suffix_adv, hsuf0]; rfl
      rw [fineVol_span s0 _ hsuf0 _ (eventRelative_up (adv s0 1) hs1 n tail hsuf1 hn ht)]
      simp only [getTrack_adv, setTrack_adv, adv_adv]
      have : 1 + (1 + n.bytes.length) = 2 + n.bytes.length := by omega
      rw [this])
    rw [h]
    simp only [Cmd.bytes, Simple.spellingBytes, MmlMeaning.optNumBytes, lcmdSkip, Mml.lcmdSkip, List.length_append, List.length_cons, List.length_nil, Nat.add_zero, Nat.zero_add]
    have : 2 + n.bytes.length = 1 + 1 + n.bytes.length := by omega
    rw [this]
    rfl
  · have hsuf' : suffix s = 86 :: 45 :: (n.bytes ++ tail) := by simpa [Cmd.bytes, Simple.spellingBytes, MmlMeaning.optNumBytes] using hsuf
    have h := lstep_fineVol f s hs _ hsuf' (fun t => t.addEvent ev_VOL_FINE_REL (-n.v) 0 0) (2 + n.bytes.length) (fun s0 hs0 hsuf0 => by
      have hs1 : Sane (adv s0 1) := sane_adv s0 hs0 1 (by rw [hsuf0]; simp)
      have hsuf1 : suffix (adv s0 1) = 45 :: (n.bytes ++ tail) := by rw [suffix_adv, hsuf0]; rfl
      rw [fineVol_span s0 _ hsuf0 _ (eventRelative_down (adv s0 1) hs1 n tail hsuf1 hn ht hh h0)]
      simp only [getTrack_adv, setTrack_adv, adv_adv]
      have : 1 + (1 + n.bytes.length) = 2 + n.bytes.length := by omega
      rw [this])
    rw [h]
    simp only [Cmd.bytes, Simple.spellingBytes, MmlMeaning.optNumBytes, lcmdSkip, Mml.lcmdSkip, List.length_append, List.length_cons, List.length_nil, Nat.add_zero, Nat.zero_add]
    have : 2 + n.bytes.length = 1 + 1 + n.bytes.length := by omega
    rw [this]
    rfl
  · exact absurd rfl hnb
  · obtain ⟨t1, ht1⟩ : ∃ t1, t1 = (getTrack s).setReference (some { line := s.inp.line, column := s.inp.lb.column }) := ⟨_, rfl⟩
    have hs0 : Sane (setTrack s t1) := sane_setTrack _ _ hs
    have hsuf0 : suffix (setTrack s t1) = 92 :: (d.bytes ++ tail) := by rw [suffix_setTrack]; simpa [Cmd.bytes] using hsuf
    have hspan := echo_span (setTrack s t1) hs0 d tail hsuf0 hn ht.1 ht.2
    rw [getTrack_setTrack, setTrack_setTrack] at hspan
    have hsuf' : suffix s = List.replicate 0 32 ++ 92 :: (d.bytes ++ tail) := by simpa [Cmd.bytes] using hsuf
    have := step_basic f s hs 0 92 _ hsuf' (by omega) (by unfold NotLoopChar; omega) _ (by
      rw [adv_zero, Nat.add_zero, ← ht1]; exact hspan)
    rw [this, ht1]
    simp only [Cmd.bytes, lcmdSkip, List.length_cons]
    have e : 1 + d.bytes.length + durSkip d tail = d.bytes.length + 1 + durSkip d tail := by omega
    rw [e]
    rfl
  · rw [h1, h4]
    rw [h2] at hn
    rw [h3] at ht
    exact Mml.lcmd_step f s hs cmd tail hold hsuf hn ht

/-- the bytes of every command of a token list occur in its text -/
theorem cmd_bytes_sub (a : List Tok) : ∀ c ∈ cmdsOf a, ∀ x ∈ c.bytes, x ∈ altText a := by
  induction a with
  | nil => intro c hc; simp [cmdsOf] at hc
  | cons t ts ih =>
    intro c hc x hx
    simp only [altText, toksText, List.mem_append]
    cases t with
    | blank b => exact Or.inr (ih c hc x hx)
    | bar => exact Or.inr (ih c hc x hx)
    | cmd c' =>
      simp only [cmdsOf, List.mem_cons] at hc
      rcases hc with rfl | hc
      · exact Or.inl hx
      · exact Or.inr (ih c hc x hx)

/-- a clean alternative contains no loop break -/
theorem noBreak_of_clean (a : List Tok) (h : Clean (altText a)) : NoBreak (cmdsOf a) := by
  intro c hc he
  subst he
  have := h 47 (cmd_bytes_sub a _ hc 47 (by simp [Cmd.bytes, Simple.spellingBytes, MmlMeaning.optNumBytes]))
  omega

/-- `L2.parse_seg` inside or outside a conditional block, for token lists without a loop break -/
theorem parse_seg_nb : ∀ (n : Nat) (ts : List Tok), ts.length ≤ n → ∀ (e : List Nat) (f : Nat) (s : MmlState), Sane s → StopEnd e → NoBreak (cmdsOf ts) →
    suffix s = toksText ts e → ToksOk ts e → CmdsOk (getTrack s).strip (cmdsOf ts) → (toksText ts e).length + 1 ≤ f →
    ∃ s' f', parseMmlTrackF f s = parseMmlTrackF f' s' ∧ e.length + 1 ≤ f' ∧ suffix s' = e ∧ Sane s' ∧ Moved s s' ∧
      (getTrack s').strip = runCmds (getTrack s).strip (cmdsOf ts) := by
  intro n
  induction n with
  | zero =>
    intro ts hlen e f s hs _ _ hsuf _ _ hf
    have : ts = [] := by cases ts <;> simp_all
    subst this
    exact ⟨s, f, rfl, hf, hsuf, hs, Moved.refl s, rfl⟩
  | succ n ih =>
    intro ts hlen e f s hs he hcb hsuf hok hcmds hf
    cases ts with
    | nil => exact ⟨s, f, rfl, hf, hsuf, hs, Moved.refl s, rfl⟩
    | cons t ts =>
      have hlen' : ts.length ≤ n := by simp at hlen; omega
      obtain ⟨f', rfl⟩ : ∃ f', f = f' + 1 := ⟨f - 1, by omega⟩
      cases t with
      | blank b =>
        have hsuf' : suffix s = b :: toksText ts e := hsuf
        have hs1 : Sane (adv s 1) := sane_adv s hs 1 (by rw [hsuf']; simp)
        obtain ⟨s', f2, h1, hf2, hsf, hsn, h2, h3⟩ := ih ts hlen' e (f' + 1) (adv s 1) hs1 he hcb (by rw [suffix_adv, hsuf']; rfl) hok.2 hcmds
          (by simp [toksText, Tok.bytes] at hf; omega)
        refine ⟨s', f2, ?_, hf2, hsf, hsn, Moved.trans ⟨1, Or.inl rfl⟩ h2, h3⟩
        rw [parseF_blank_step f' s b _ hsuf' (blank_isBlank b hok.1)]; exact h1
      | bar =>
        have hsuf' : suffix s = 124 :: toksText ts e := hsuf
        have hs1 : Sane (adv s 1) := sane_adv s hs 1 (by rw [hsuf']; simp)
        obtain ⟨s', f2, h1, hf2, hsf, hsn, h2, h3⟩ := ih ts hlen' e f' (adv s 1) hs1 he hcb (by rw [suffix_adv, hsuf']; rfl) hok hcmds
          (by simp [toksText, Tok.bytes] at hf; omega)
        refine ⟨s', f2, ?_, hf2, hsf, hsn, Moved.trans ⟨1, Or.inl rfl⟩ h2, h3⟩
        rw [parseF_bar_step f' s _ hsuf']; exact h1
      | cmd c =>
        obtain ⟨hcov, hnum, hrest⟩ : LCovered c ∧ LCmdNums (getTrack s).strip c ∧ CmdsOk (lcmdTrack (getTrack s).strip c) (cmdsOf ts) := hcmds
        obtain ⟨T, hT⟩ : ∃ T, T = toksText ts e := ⟨_, rfl⟩
        have hsuf' : suffix s = c.bytes ++ T := by rw [hT]; exact hsuf
        have htail : LCmdTail c T := by rw [hT]; exact hok.1
        have hstep := lcmd_step_nb f' s hs c T hcov (hcb c (by simp [cmdsOf])) hsuf' hnum htail
        obtain ⟨t2, ht2⟩ : ∃ t2, t2 = lcmdTrack ((getTrack s).setReference (some { line := s.inp.line, column := s.inp.lb.column })) c := ⟨_, rfl⟩
        rw [← ht2] at hstep
        have hst2 : t2.strip = lcmdTrack (getTrack s).strip c := by rw [ht2, strip_lcmdTrack _ _ hcov, Track.strip_setReference]
        have hcovs : ∀ x ∈ cmdsOf ts, LCovered x := cmdsOk_covered _ _ hrest
        have hns : numSpan T = (none, leadBlanks ts) := by rw [hT]; exact toks_numSpan ts e hok.2 hcovs he
        have hskip : lcmdSkip c T ≤ leadBlanks ts := by
          rcases lcmdSkip_cases c T hcov with h | h
          · omega
          · rw [h, hns]; exact Nat.le_refl _
        obtain ⟨hdrop, hcmdsdrop⟩ := toks_drop_lead ts e (lcmdSkip c T) hskip
        have hle : leadBlanks ts ≤ T.length := by rw [hT]; exact leadBlanks_le ts e
        obtain ⟨ch, r, hcr, _⟩ := lcovered_head c hcov
        have hcl : 1 ≤ c.bytes.length := by rw [hcr]; simp
        obtain ⟨s2, hs2⟩ : ∃ s2, s2 = adv (setTrack s t2) (c.bytes.length + lcmdSkip c T) := ⟨_, rfl⟩
        rw [← hs2] at hstep
        have hsane2 : Sane s2 := by
          rw [hs2]; exact sane_adv _ (sane_setTrack _ _ hs) _ (by rw [suffix_setTrack, hsuf']; simp; omega)
        have hsuf2 : suffix s2 = toksText (ts.drop (lcmdSkip c T)) e := by
          rw [hs2, suffix_adv, suffix_setTrack, hsuf', ← List.drop_drop, ← hdrop, hT]; simp
        have hgt2 : getTrack s2 = t2 := by rw [hs2, getTrack_adv]; exact getTrack_setTrack _ _
        obtain ⟨s', f2, h1, hf2, hsf, hsn, h2, h3⟩ := ih (ts.drop (lcmdSkip c T)) (by simp; omega) e f' s2 hsane2 he (by rw [hcmdsdrop]; exact fun x hx => hcb x (by simp [cmdsOf, hx])) hsuf2
          (toksOk_drop ts e hok.2 _) (by rw [hgt2, hst2, hcmdsdrop]; exact hrest)
          (by
            rw [← hdrop, ← hT]
            have : (toksText (Tok.cmd c :: ts) e).length = c.bytes.length + T.length := by simp [toksText, Tok.bytes, hT]
            rw [this] at hf
            simp only [List.length_drop]; omega)
        refine ⟨s', f2, by rw [hstep]; exact h1, hf2, hsf, hsn, Moved.trans ⟨c.bytes.length + lcmdSkip c T, Or.inr ⟨t2, hs2⟩⟩ h2, ?_⟩
        rw [h3, hgt2, hst2, hcmdsdrop]; rfl

/-! ### one block -/

/-- a whole block as track position `i` sees it (as `parse_block`, over `L2.LCovered`; the selected
alternative contains no loop break) -/
theorem parse_block (skipped : List (List Tok)) (a : List Tok) (after : List (List Tok)) (e : List Nat) (f : Nat) (s : MmlState)
    (hs : Sane s) (hflag : s.conditionalBlock = false) (hoff : s.trackOffset = skipped.length)
    (hcl : ∀ b ∈ skipped ++ after, Clean (altText b))
    (hsuf : suffix s = blockText (skipped ++ a :: after) e) (hok : ToksOk a (afterText after e))
    (hcmds : CmdsOk (getTrack s).strip (cmdsOf a)) (hnb : NoBreak (cmdsOf a)) (hf : (blockText (skipped ++ a :: after) e).length + 1 ≤ f) :
    ∃ s' f', parseMmlTrackF f s = parseMmlTrackF f' s' ∧ e.length + 1 ≤ f' ∧ suffix s' = e ∧ Sane s' ∧ Moved s s' ∧
      (getTrack s').strip = runCmds (getTrack s).strip (cmdsOf a) := by
  obtain ⟨f0, rfl⟩ : ∃ f0, f = f0 + 1 := ⟨f - 1, by omega⟩
  rw [blockText_split] at hsuf hf
  obtain ⟨E, hE⟩ : ∃ E, E = afterText after e := ⟨_, rfl⟩
  rw [← hE] at hsuf hf hok
  have hElen : e.length + 1 ≤ E.length := by
    rw [hE]; exact afterText_length after e
  have hstopE : StopEnd E := by
    rw [hE]
    cases after with
    | nil => exact Or.inr ⟨125, e, rfl, by simp [Stop]⟩
    | cons b bs => exact Or.inr ⟨47, _, rfl, by simp [Stop]⟩
  -- `{` and conditional_block_begin
  have hs1 : Sane (adv s 1) := sane_adv s hs 1 (by rw [hsuf]; simp)
  have hsuf1 : suffix (adv s 1) = skipText skipped ++ toksText a E := by rw [suffix_adv, hsuf]; rfl
  have hbegin := conditionalBlockBegin_skip (skipped.map altText) (toksText a E) (adv s 1)
    (fun b hb => by
      obtain ⟨x, hx, rfl⟩ := List.mem_map.mp hb
      exact hcl x (by simp [hx]))
    (by show s.trackOffset = (skipped.map altText).length; simpa using hoff) hsuf1
  obtain ⟨k0, hk0⟩ : ∃ k0, k0 = 1 + (skipText skipped).length := ⟨_, rfl⟩
  obtain ⟨s1, hs1def⟩ : ∃ s1 : MmlState, s1 = { adv s k0 with conditionalBlock := true } := ⟨_, rfl⟩
  have hbegin' : conditionalBlockBegin (adv s 1) = .ok () s1 := by
    rw [hbegin, hs1def, hk0, adv_adv]; rfl
  have hfl1 : (adv s 1).conditionalBlock = false := hflag
  have hstep1 : parseMmlTrackF (f0 + 1) s = parseMmlTrackF f0 s1 := by
    conv => lhs; unfold parseMmlTrackF
    rw [bind_ok (getTokenC_cons s 123 _ hsuf (by omega)), bind_ok (getS_run _)]
    have e1 : ((123 : Nat) : Int) = 123 := rfl
    rw [e1]
    simp (config := { decide := true }) only [hfl1, if_false, if_true, Bool.and_false, Bool.and_true, Bool.not_false]
    rw [bind_ok hbegin']
  have hsane1 : Sane s1 := by
    rw [hs1def]
    have := sane_adv s hs k0 (by rw [hsuf, hk0]; simp; omega)
    exact ⟨this.bytes, this.inl⟩
  have hsufs1 : suffix s1 = toksText a E := by
    rw [hs1def]
    show suffix (adv s k0) = _
    rw [hk0, ← adv_adv]
    exact suffix_adv_append _ _ _ hsuf1
  have hgt1 : getTrack s1 = getTrack s := by rw [hs1def]; rfl
  -- the selected alternative
  obtain ⟨s2, f2, hp2, hf2, hsuf2, hsane2, hmv2, hres2⟩ := parse_seg_nb a.length a (Nat.le_refl _) E f0 s1 hsane1 hstopE hnb hsufs1 hok
    (by rw [hgt1]; exact hcmds)
    (by simp only [List.length_cons, List.length_append] at hf; omega)
  obtain ⟨f3, rfl⟩ : ∃ f3, f2 = f3 + 1 := ⟨f2 - 1, by omega⟩
  have hflag2 : s2.conditionalBlock = true := hmv2.ctl.cond.trans (by subst hs1def; rfl)
  have hend := parseF_block_end f3 s2 after e (fun b hb => hcl b (by simp [hb])) (by rw [hsuf2, hE]) hflag2
  obtain ⟨k3, hk3⟩ : ∃ k3, k3 = (afterText after e).length - e.length := ⟨_, rfl⟩
  rw [← hk3] at hend
  obtain ⟨s3, hs3⟩ : ∃ s3 : MmlState, s3 = { adv s2 k3 with conditionalBlock := false } := ⟨_, rfl⟩
  rw [← hs3] at hend
  have hk3le : k3 ≤ (suffix s2).length := by rw [hsuf2, hE, hk3]; omega
  have hsane3 : Sane s3 := by
    rw [hs3]
    have := sane_adv s2 hsane2 k3 hk3le
    exact ⟨this.bytes, this.inl⟩
  have hsuf3 : suffix s3 = e := by
    rw [hs3]
    show suffix (adv s2 k3) = _
    rw [suffix_adv, hsuf2, hE]
    obtain ⟨xs, hx1, _⟩ := afterText_scan after e (fun b hb => hcl b (by simp [hb]))
    rw [hk3, hx1]
    have h1 : (xs ++ 125 :: e).length - e.length = (xs ++ [125]).length := by simp; omega
    have h2 : xs ++ 125 :: e = (xs ++ [125]) ++ e := by simp
    rw [h1, h2, List.drop_left]
  refine ⟨s3, f3, by rw [hstep1, hp2, hend], by omega, hsuf3, hsane3, ?_, ?_⟩
  · rw [hs3]; rw [hs1def] at hmv2; exact close_block s s2 k0 k3 hflag hmv2
  · have : getTrack s3 = getTrack s2 := by rw [hs3]; rfl
    rw [this, hres2, hgt1]

/-! ### bodies -/

/-- a body is well formed for track position `i` (followed by `e`): token runs satisfy `ToksOk`
and are followed by a byte at which no number starts; a block has an alternative for position `i`,
no alternative spells `/`, `;`, `}` or NUL, and the selected alternative satisfies `ToksOk` -/
def ItemsOk (i : Nat) : List Item → List Nat → Prop
  | [], _ => True
  | .toks ts :: rest, e => ToksOk ts (itemsText rest e) ∧ StopEnd (itemsText rest e) ∧ ItemsOk i rest e
  | .block alts :: rest, e => i < alts.length ∧ (∀ a ∈ alts, Clean (altText a)) ∧
      ToksOk (alts.getD i []) (afterText (alts.drop (i + 1)) (itemsText rest e)) ∧ ItemsOk i rest e

/-- `parse_mml_track` over a body with blocks, for track position `i` -/
theorem parse_items (i : Nat) : ∀ (items : List Item) (e : List Nat) (f : Nat) (s : MmlState), Sane s →
    s.conditionalBlock = false → s.trackOffset = i → suffix s = itemsText items e → ItemsOk i items e →
    CmdsOk (getTrack s).strip (selCmds i items) → (itemsText items e).length + 1 ≤ f →
    ∃ s' f', parseMmlTrackF f s = parseMmlTrackF f' s' ∧ e.length + 1 ≤ f' ∧ suffix s' = e ∧ Sane s' ∧ Moved s s' ∧
      (getTrack s').strip = runCmds (getTrack s).strip (selCmds i items) := by
  intro items
  induction items with
  | nil => intro e f s hs _ _ hsuf _ _ hf; exact ⟨s, f, rfl, hf, hsuf, hs, Moved.refl s, rfl⟩
  | cons it rest ih =>
    intro e f s hs hflag hoff hsuf hok hcmds hf
    rw [selCmds_cons] at hcmds
    obtain ⟨hc1, hc2⟩ := (cmdsOk_append _ _ _).mp hcmds
    -- the first item, as a segment up to `E`
    have hfirst : ∃ s1 f1, parseMmlTrackF f s = parseMmlTrackF f1 s1 ∧ (itemsText rest e).length + 1 ≤ f1 ∧ suffix s1 = itemsText rest e ∧
        Sane s1 ∧ Moved s s1 ∧ (getTrack s1).strip = runCmds (getTrack s).strip (cmdsOf (it.sel i)) ∧ ItemsOk i rest e := by
      cases it with
      | toks ts =>
        obtain ⟨h1, h2, h3⟩ := hok
        obtain ⟨s1, f1, a1, a2, a3, a4, a5, a6⟩ := parse_seg ts.length ts (Nat.le_refl _) (itemsText rest e) f s hs h2 hflag hsuf h1 hc1 hf
        exact ⟨s1, f1, a1, a2, a3, a4, a5, a6, h3⟩
      | block alts =>
        obtain ⟨h1, h2, h3, h4⟩ := hok
        obtain ⟨hsplit, hlen⟩ := alts_split alts i h1
        have hsuf' : suffix s = blockText (alts.take i ++ alts.getD i [] :: alts.drop (i + 1)) (itemsText rest e) := by
          rw [← hsplit]; exact hsuf
        obtain ⟨s1, f1, a1, a2, a3, a4, a5, a6⟩ := parse_block (alts.take i) (alts.getD i []) (alts.drop (i + 1)) (itemsText rest e) f s hs hflag
          (by rw [hlen]; exact hoff)
          (fun b hb => h2 b (by
            simp at hb
            rcases hb with hb | hb
            · exact List.mem_of_mem_take hb
            · exact List.mem_of_mem_drop hb))
          hsuf' h3 hc1
          (noBreak_of_clean _ (h2 _ (by
            rw [show alts.getD i [] = alts[i] from by simp [List.getD, List.getElem?_eq_getElem h1]]
            exact List.getElem_mem h1)))
          (by rw [← hsplit]; exact hf)
        exact ⟨s1, f1, a1, a2, a3, a4, a5, a6, h4⟩
    obtain ⟨s1, f1, a1, a2, a3, a4, a5, a6, hokr⟩ := hfirst
    have hctl := a5.ctl
    obtain ⟨s', f', b1, b2, b3, b4, b5, b6⟩ := ih e f1 s1 a4 (hctl.cond.trans hflag) (hctl.trackOffset.trans hoff) a3 hokr
      (by rw [a6]; exact hc2) a2
    exact ⟨s', f', a1.trans b1, b2, b3, b4, a5.trans b5, by rw [b6, a6, selCmds_cons, runCmds_append]⟩

/-- result of a line for the tracks `ids`: position `j` receives `cmds j` -/
structure LineResI (ids : List Nat) (cmds : Nat → List Cmd) (s s' : MmlState) : Prop where
  tracks : ∀ j id, ids[j]? = some id → (trackOf id s').strip = runCmds (trackOf id s).strip (cmds j)
  others : ∀ b, b ∉ ids → s'.song.tracks.lookup b = s.song.tracks.lookup b
  ppqn : s'.song.ppqn = s.song.ppqn

theorem LineResI.trans {ids : List Nat} {c1 c2 : Nat → List Cmd} {s1 s2 s3 : MmlState}
    (h1 : LineResI ids c1 s1 s2) (h2 : LineResI ids c2 s2 s3) : LineResI ids (fun j => c1 j ++ c2 j) s1 s3 :=
  ⟨fun j id hid => by rw [h2.tracks j id hid, h1.tracks j id hid, runCmds_append],
   fun b hb => (h2.others b hb).trans (h1.others b hb), h2.ppqn.trans h1.ppqn⟩

/-- the `for` loop of `parse_mml` over distinct tracks on a body with blocks: the track at
position `i + j` receives the builder calls of its own selection -/
theorem parseMmlLoop_items (items : List Item) (e : List Nat) (col : Nat) (he : EndOk e) :
    ∀ (ids : List Nat) (i : Nat) (s : MmlState), Bytes s.inp.lb.buf → col ≤ s.inp.lb.buf.length →
    s.inp.lb.buf.drop col = itemsText items e → ids.Nodup → i + ids.length ≤ 65536 →
    (∀ j id, ids[j]? = some id → ItemsOk (i + j) items e ∧ CmdsOk (trackOf id s).strip (selCmds (i + j) items)) →
    ∃ s', parseMmlLoop col i ids s = .ok () s' ∧ LoopKeeps s s' ∧
      (∀ j id, ids[j]? = some id → (trackOf id s').strip = runCmds (trackOf id s).strip (selCmds (i + j) items)) ∧
      (∀ b, b ∉ ids → s'.song.tracks.lookup b = s.song.tracks.lookup b) := by
  intro ids
  induction ids with
  | nil => intro i s _ _ _ _ _ _; exact ⟨s, rfl, LoopKeeps.refl s, fun j id h => by simp at h, fun _ _ => rfl⟩
  | cons id rest ih =>
    intro i s hbytes hcol hdrop hnd hlen hcmds
    obtain ⟨s1, hs1⟩ : ∃ s1 : MmlState, s1 = { setLb s (s.inp.lb.seek col) with trackId := id, trackOffset := i % 65536, song := (setLb s (s.inp.lb.seek col)).song.makeTrack id, conditionalBlock := false } := ⟨_, rfl⟩
    have hsane1 : Sane s1 := by rw [hs1]; exact ⟨hbytes, hcol⟩
    have hsuf1 : suffix s1 = itemsText items e := by rw [hs1]; exact hdrop
    have hmk := makeTrack_lookup s.song id
    have hgt1 : getTrack s1 = trackOf id s := by
      rw [hs1]; unfold getTrack trackOf
      show (List.lookup id (s.song.makeTrack id).tracks).getD (Track.new (s.song.makeTrack id).ppqn) = _
      rw [hmk.1, hmk.2]; rfl
    have hoff1 : s1.trackOffset = i := by
      rw [hs1]; show i % 65536 = i
      simp at hlen; omega
    have hfuel : (itemsText items e).length + 1 ≤ trackFuel s1 := by
      have h1 := suffix_length s1
      rw [hsuf1] at h1
      unfold trackFuel
      have := hsane1.inl
      omega
    have h0 := hcmds 0 id (by simp)
    simp only [Nat.add_zero] at h0
    obtain ⟨sa, fa, a1, a2, a3, a4, a5, a6⟩ := parse_items i items e (trackFuel s1) s1 hsane1 (by rw [hs1]) hoff1 hsuf1 h0.1
      (by rw [hgt1]; exact h0.2) hfuel
    obtain ⟨s2, hp2, hm2, ht2⟩ := parse_toks_nil e fa sa he a3 (by omega)
    have hmv : Moved s1 s2 := a5.trans hm2
    have hres : (getTrack s2).strip = runCmds (trackOf id s).strip (selCmds i items) := by rw [ht2, a6, hgt1]
    have hctl := hmv.ctl
    have hpt : parseMmlTrack s1 = .ok () s2 := by
      unfold parseMmlTrack; rw [bind_ok (getS_run s1), a1]; exact hp2
    have hcond : s2.conditionalBlock = false := hctl.cond.trans (by subst hs1; rfl)
    have hid1 : s1.trackId = id := by rw [hs1]
    have hlk12 : ∀ b, b ≠ id → s2.song.tracks.lookup b = s.song.tracks.lookup b := by
      intro b hb
      rw [hctl.others b (by rw [hid1]; exact hb), hs1]
      exact lookup_makeTrack_ne b id s.song hb
    have hppqn2 : s2.song.ppqn = s.song.ppqn := by rw [hctl.ppqn, hs1]; exact hmk.2
    have hkeep2 : LoopKeeps s s2 := ⟨hctl.trackList.trans (by subst hs1; rfl), hctl.lastCmd.trans (by subst hs1; rfl), hppqn2,
      hctl.line.trans (by subst hs1; rfl), hctl.buf.trans (by subst hs1; rfl)⟩
    have hnd' := List.nodup_cons.mp hnd
    obtain ⟨s', hloop, hkeep, hall, hfr⟩ := ih (i + 1) s2 (by rw [hkeep2.buf]; exact hbytes) (by rw [hkeep2.buf]; exact hcol)
      (by rw [hkeep2.buf]; exact hdrop) hnd'.2 (by simp at hlen ⊢; omega)
      (fun j id' hid' => by
        have hmem : id' ∈ rest := List.mem_of_getElem? hid'
        have hne : id' ≠ id := fun e => hnd'.1 (e ▸ hmem)
        rw [trackOf_congr id' s s2 (hlk12 id' hne) hppqn2]
        have := hcmds (j + 1) id' (by simpa using hid')
        have e2 : i + (j + 1) = i + 1 + j := by omega
        rw [e2] at this
        exact this)
    refine ⟨s', ?_, hkeep2.trans hkeep, ?_, ?_⟩
    · rw [parseMmlLoop_cons, ← hs1, hpt]
      simp only [hcond, Bool.false_eq_true, if_false]
      exact hloop
    · intro j x hx
      cases j with
      | zero =>
        have hx' : x = id := by simpa using hx.symm
        subst hx'
        rw [trackOf_congr x s2 s' (hfr x hnd'.1) hkeep.ppqn]
        have : trackOf x s2 = getTrack s2 := by unfold trackOf getTrack; rw [hctl.trackId, hid1]
        rw [this, hres]; rfl
      | succ j =>
        have hx' : rest[j]? = some x := by simpa using hx
        have hmem : x ∈ rest := List.mem_of_getElem? hx'
        have hne : x ≠ id := fun e => hnd'.1 (e ▸ hmem)
        have e2 : i + (j + 1) = i + 1 + j := by omega
        rw [hall j x hx', trackOf_congr x s s2 (hlk12 x hne) hppqn2, e2]
    · intro b hb
      simp at hb
      rw [hfr b hb.2, hlk12 b hb.1]

/-! ### the spelling of a covered command other than the loop break never contains `/`, `;`, `}` or NUL -/

theorem lcovered_clean (c : Cmd) (hc : LCovered c) (hnb : c ≠ .simple .loopBreak none) : Clean c.bytes := by
  have hnum : ∀ (n : Num) (x : Nat), x ∈ n.bytes → (33 ≤ x ∧ x < 128) ∧ x ≠ 47 ∧ x ≠ 59 ∧ x ≠ 125 := fun n x h => by
    have := num_bytes_range n x h; omega
  rcases lcovered_cases c hc with ⟨n, rfl, _⟩ | ⟨n, rfl⟩ | ⟨n, rfl, _⟩ | rfl | ⟨d, rfl⟩ | ⟨h, _⟩
  · apply clean_of_range
    intro x hx
    simp only [Cmd.bytes, Simple.spellingBytes, MmlMeaning.optNumBytes, List.mem_append, List.mem_cons, List.mem_nil_iff, or_false] at hx
    rcases hx with rfl | hx
    · omega
    · exact hnum _ x hx
  · apply clean_of_range
    intro x hx
    simp only [Cmd.bytes, Simple.spellingBytes, MmlMeaning.optNumBytes, List.mem_append, List.mem_cons, List.mem_nil_iff, or_false] at hx
    rcases hx with (rfl | rfl) | hx
    · omega
    · omega
    · exact hnum _ x hx
  · apply clean_of_range
    intro x hx
    simp only [Cmd.bytes, Simple.spellingBytes, MmlMeaning.optNumBytes, List.mem_append, List.mem_cons, List.mem_nil_iff, or_false] at hx
    rcases hx with (rfl | rfl) | hx
    · omega
    · omega
    · exact hnum _ x hx
  · exact absurd rfl hnb
  · apply clean_of_range
    intro x hx
    simp only [Cmd.bytes, List.mem_cons] at hx
    rcases hx with rfl | hx
    · omega
    · have := dur_bytes_range d x hx; omega
  · exact Mml.lcovered_clean c h

/-- an alternative made of blanks, bars and covered commands other than the loop break is clean -/
theorem clean_alt (a : List Tok) (hb : ∀ b, Tok.blank b ∈ a → b = 32 ∨ b = 9) (hcov : ∀ c ∈ cmdsOf a, LCovered c)
    (hnb : NoBreak (cmdsOf a)) : Clean (altText a) := by
  induction a with
  | nil => intro x hx; simp [altText, toksText] at hx
  | cons t ts ih =>
    have ih' := ih (fun b hb' => hb b (by simp [hb']))
    intro x hx
    simp only [altText, toksText, List.mem_append] at hx
    cases t with
    | blank b =>
      rcases hx with hx | hx
      · simp [Tok.bytes] at hx
        have := hb b (by simp)
        omega
      · exact ih' hcov hnb x hx
    | bar =>
      rcases hx with hx | hx
      · simp [Tok.bytes] at hx; omega
      · exact ih' hcov hnb x hx
    | cmd c =>
      rcases hx with hx | hx
      · exact lcovered_clean c (hcov c (by simp [cmdsOf])) (hnb c (by simp [cmdsOf])) x hx
      · exact ih' (fun c' hc' => hcov c' (by simp [cmdsOf, hc'])) (fun c' hc' => hnb c' (by simp [cmdsOf, hc'])) x hx

end Ctrmml.Mml.L2
