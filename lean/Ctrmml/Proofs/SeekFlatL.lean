/-
  C12 round 3, part 3: flat tracks with a loop point.  `FlatL root` extends `Flat` by SEGNO (the
  loop point `L`) and explicit END events: such a track plays forever when time passes between
  the loop point and the end, so "no error" now also needs the zero-time guard of the root END
  (`last_loop_jump_time`) to bound the fetch loop: within one run of the fetch loop `play_time`
  is constant, the first root END may jump back and records `last_loop_jump = play_time`, the
  second one then stops the track.  Measure: `mu`.
-/
import Ctrmml.Proofs.SeekFlat
namespace Ctrmml.PlayerCh
open Ctrmml Player Tables

def flatLEv (e : Event) : Bool :=
  (decide (e.kind = .other) || decide (e.kind = .segno) || decide (e.kind = .fin))
    && (e.type != ev_PLATFORM) && (e.type != ev_DRUM_MODE)

def FlatL (root : List Event) : Prop := root.length < 49000 ∧ ∀ e ∈ root, flatLEv e = true

instance (root : List Event) : Decidable (FlatL root) := by unfold FlatL; infer_instance

structure FlatLInv (root : List Event) (s : PS) : Prop where
  track : s.core.track = .root
  stack : s.core.stack = []
  lp : s.acc.loopPosition ≤ root.length
  drum : getCh s.ch ev_DRUM_MODE = 0
  err : s.err = none
  past : s.core.position > root.length → s.acc.enabled = false

/-- bound on the number of further fetch steps of the current run of the fetch loop -/
def mu (root : List Event) (s : PS) : Nat :=
  (if (s.acc.playTime : Int) = s.acc.lastLoopJump then 0 else root.length + 2)
    + (root.length + 1 - s.core.position)

theorem flatLEv_spec {e : Event} (h : flatLEv e = true) :
    (e.kind = .other ∨ e.kind = .segno ∨ e.kind = .fin) ∧ e.type ≠ ev_PLATFORM ∧ e.type ≠ ev_DRUM_MODE := by
  simp only [flatLEv, Bool.and_eq_true, Bool.or_eq_true, decide_eq_true_eq, bne_iff_ne, ne_eq] at h
  exact ⟨by rcases h.1.1 with (h | h) | h <;> simp [h], h.1.2, h.2⟩

section
variable (song : Song) (root : List Event) (pd : Int → Bool)

theorem handleEvent_safe (s : PS) (e : Event) (hp : e.type ≠ ev_PLATFORM) (hm : e.type ≠ ev_DRUM_MODE)
    (hd : getCh s.ch ev_DRUM_MODE = 0) :
    (handleEvent song pd s e).1.core = s.core ∧ (handleEvent song pd s e).1.acc = s.acc ∧
    (handleEvent song pd s e).1.err = s.err ∧ getCh (handleEvent song pd s e).1.ch ev_DRUM_MODE = 0 := by
  have i1 : chIdx ev_TRANSPOSE ≠ chIdx ev_DRUM_MODE := by decide
  have i2 : chIdx ev_VOL_FINE ≠ chIdx ev_DRUM_MODE := by decide
  have i3 : chIdx ev_TEMPO ≠ chIdx ev_DRUM_MODE := by decide
  have i4 : (e.type ≥ ev_CHANNEL_CMD ∧ e.type < ev_CMD_COUNT) → chIdx e.type ≠ chIdx ev_DRUM_MODE := by
    intro hr
    have h1 := hr.1
    simp only [ev_CHANNEL_CMD, ev_DRUM_MODE, chIdx, ge_iff_le] at h1 hm ⊢
    omega
  unfold handleEvent
  repeat' split
  all_goals first
    | exact absurd hd ‹_›
    | exact absurd ‹e.type = ev_PLATFORM› hp
    | exact ⟨rfl, rfl, rfl, hd⟩
    | (refine ⟨rfl, rfl, rfl, ?_⟩
       simp only [getCh, setCh] at hd ⊢
       first
         | (rw [List.getElem?_set_ne i1]; exact hd)
         | (rw [List.getElem?_set_ne i2]; exact hd)
         | (rw [List.getElem?_set_ne i3]; exact hd)
         | (rw [List.getElem?_set_ne (i4 ‹_›)]; exact hd))

theorem coreStep_segno (c : Core) (ht : c.track = .root) (hk : (fetch root c.position).kind = .segno) :
    coreStep song root c
      = .ok ({ c with position := c.position + 1 }, .hook (fetch root c.position) (fetch root c.position)) := by
  unfold coreStep
  simp only [ht, codeOf, hk]

theorem pstep_nothing (skip : Bool) (s : PS) (bs : PState) (herr : s.err.isSome = false)
    (h : step song root true ⟨s.core, s.acc⟩ = .ok (bs, .nothing)) :
    (pstep song root pd skip s).1 = { s with core := bs.core, acc := bs.acc } := by
  unfold pstep
  simp only [herr, Bool.false_eq_true, if_false, h]

/-- one fetch step of an unsettled player on a `FlatL` track keeps the invariant and either stops
the track or decreases the measure -/
theorem pstep_flatL (hfl : FlatL root) (skip : Bool) (s : PS) (hi : FlatLInv root s)
    (hu : ¬ isSettled s = true) :
    FlatLInv root (pstep song root pd skip s).1 ∧
    ((pstep song root pd skip s).1.acc.enabled = false ∨ mu root (pstep song root pd skip s).1 < mu root s) := by
  have herr : s.err.isSome = false := by simp [hi.err]
  have hun : s.acc.onTime = 0 ∧ s.acc.offTime = 0 ∧ s.acc.enabled = true := by
    simp [isSettled] at hu
    exact ⟨hu.1.1.1, hu.1.1.2, hu.1.2⟩
  obtain ⟨hon, hoff, hen⟩ := hun
  have hple : s.core.position ≤ root.length := by
    apply Classical.byContradiction; intro h
    have := hi.past (by omega)
    rw [hen] at this; exact absurd this (by simp)
  -- the fetched event
  have hev : ((fetch root s.core.position).kind = .other ∨ (fetch root s.core.position).kind = .segno
        ∨ (fetch root s.core.position).kind = .fin) ∧
      (fetch root s.core.position).type ≠ ev_PLATFORM ∧ (fetch root s.core.position).type ≠ ev_DRUM_MODE ∧
      ((fetch root s.core.position).kind ≠ .fin → s.core.position < root.length) := by
    by_cases hlt : s.core.position < root.length
    · have hfe : fetch root s.core.position = root[s.core.position] := by
        simp [fetch, List.getElem?_eq_getElem hlt]
      obtain ⟨a, b, c⟩ := flatLEv_spec (hfl.2 _ (List.getElem_mem hlt))
      rw [hfe]; exact ⟨a, b, c, fun _ => hlt⟩
    · have hfe : fetch root s.core.position = endEvent := by
        simp [fetch, List.getElem?_eq_none (Nat.le_of_not_lt hlt)]
      rw [hfe]
      exact ⟨Or.inr (Or.inr (by decide)), by decide, by decide, fun h => absurd (by decide) h⟩
  obtain ⟨hkind, hp, hm, hplt⟩ := hev
  have hstepE : ∀ (a' : Acc), step song root true ⟨s.core, s.acc⟩
        = .ok (⟨{ s.core with position := s.core.position + 1 }, a'⟩, .event (fetch root s.core.position)) →
      a'.loopPosition ≤ root.length → a'.playTime = s.acc.playTime → a'.lastLoopJump = s.acc.lastLoopJump →
      s.core.position < root.length →
      FlatLInv root (pstep song root pd skip s).1 ∧
      ((pstep song root pd skip s).1.acc.enabled = false ∨ mu root (pstep song root pd skip s).1 < mu root s) := by
    intro a' hst hlp' hpt hlj hlt
    rw [pstep_event song root pd skip s _ _ herr hst]
    obtain ⟨h1, h2, h3, h4⟩ := handleEvent_safe song pd
      { s with core := { s.core with position := s.core.position + 1 }, acc := a' }
      (fetch root s.core.position) hp hm hi.drum
    refine ⟨⟨?_, ?_, ?_, h4, ?_, ?_⟩, Or.inr ?_⟩
    · rw [h1]; exact hi.track
    · rw [h1]; exact hi.stack
    · rw [h2]; exact hlp'
    · rw [h3]; exact hi.err
    · rw [h1]; intro hp; exfalso; dsimp only at hp; omega
    · unfold mu
      rw [h1, h2]
      dsimp only
      rw [hpt, hlj]
      omega
  rcases hkind with hk | hk | hk
  · have hns : ¬ ((fetch root s.core.position).kind = Kind.segno) := by rw [hk]; decide
    have hlt := hplt (by rw [hk]; decide)
    obtain ⟨a', hst, h1, h2, h3⟩ : ∃ a', step song root true ⟨s.core, s.acc⟩
        = .ok (⟨{ s.core with position := s.core.position + 1 }, a'⟩, .event (fetch root s.core.position)) ∧
        a'.loopPosition = s.acc.loopPosition ∧ a'.playTime = s.acc.playTime + s.acc.onTime + s.acc.offTime ∧
        a'.lastLoopJump = s.acc.lastLoopJump := by
      unfold step
      simp only [coreStep_other song root s.core hi.track hk]
      simp only [accStep, Out.fetched, hns, if_false]
      exact ⟨_, rfl, rfl, rfl, rfl⟩
    exact hstepE a' hst (by rw [h1]; exact hi.lp) (by rw [h2]; omega) h3 hlt
  · have hlt := hplt (by rw [hk]; decide)
    obtain ⟨a', hst, h1, h2, h3⟩ : ∃ a', step song root true ⟨s.core, s.acc⟩
        = .ok (⟨{ s.core with position := s.core.position + 1 }, a'⟩, .event (fetch root s.core.position)) ∧
        a'.loopPosition = (s.core.position : Int) + 1 ∧ a'.playTime = s.acc.playTime + s.acc.onTime + s.acc.offTime ∧
        a'.lastLoopJump = s.acc.lastLoopJump := by
      unfold step
      simp only [coreStep_segno song root s.core hi.track hk]
      simp only [accStep, Out.fetched, hk, if_true]
      exact ⟨_, rfl, rfl, rfl, rfl⟩
    exact hstepE a' hst (by rw [h1]; omega) (by rw [h2]; omega) h3 hlt
  · -- root END
    have hcs := coreStep_fin song root s.core hi.track hi.stack hk
    have hstep : (∃ a', step song root true ⟨s.core, s.acc⟩
          = .ok (⟨{ s.core with position := s.acc.loopPosition.toNat }, a'⟩, .nothing) ∧
            a'.loopPosition = s.acc.loopPosition ∧ (a'.playTime : Int) = a'.lastLoopJump ∧
            ((s.acc.playTime + s.acc.onTime + s.acc.offTime : Nat) : Int) ≠ s.acc.lastLoopJump) ∨
        (∃ a', step song root true ⟨s.core, s.acc⟩
          = .ok (⟨{ s.core with position := s.core.position + 1 }, a'⟩, .finish) ∧
            a'.enabled = false ∧ a'.loopPosition = s.acc.loopPosition) := by
      unfold step
      simp only [hcs]
      simp only [accStep, Out.fetched]
      split
      · rename_i h; exact Or.inl ⟨_, rfl, rfl, rfl, h.2.2.1⟩
      · exact Or.inr ⟨_, rfl, rfl, rfl⟩
    rcases hstep with ⟨a', hst, hlp', hph, h3⟩ | ⟨a', hst, hen', hlp'⟩
    · rw [pstep_nothing song root pd skip s _ herr hst]
      have hlpn := hi.lp
      refine ⟨⟨hi.track, hi.stack, by rw [hlp']; exact hi.lp, hi.drum, hi.err, ?_⟩, Or.inr ?_⟩
      · intro hp; exfalso; dsimp only at hp; omega
      · unfold mu
        dsimp only
        rw [if_pos hph]
        rw [hon, hoff] at h3
        have h3' : ¬ ((s.acc.playTime : Int) = s.acc.lastLoopJump) := by
          intro h; apply h3; simpa using h
        rw [if_neg h3']
        omega
    · rw [pstep_finish song root pd skip s _ herr hst]
      exact ⟨⟨hi.track, hi.stack, by rw [hlp']; exact hi.lp, hi.drum, hi.err, fun _ => hen'⟩, Or.inl hen'⟩

theorem settleO_flatL (hfl : FlatL root) (skip : Bool) : ∀ (fuel : Nat) (s : PS), FlatLInv root s →
    fuel > mu root s → FlatLInv root (settleO song root pd skip fuel s).1
  | 0, s, hi, hf => by omega
  | fuel + 1, s, hi, hf => by
    simp only [settleO]
    split
    · exact hi
    · rename_i hu
      obtain ⟨hi1, hd⟩ := pstep_flatL song root pd hfl skip s hi hu
      cases hp : pstep song root pd skip s with
      | mk s1 w =>
        rw [hp] at hi1 hd
        dsimp only at hi1 hd ⊢
        rcases hd with hd | hd
        · have hs1 : isSettled s1 = true := by simp [isSettled, hd]
          rw [settleO_fix song root pd skip fuel s1 hs1]
          exact hi1
        · have ih := settleO_flatL hfl skip fuel s1 hi1 (by omega)
          cases hq : settleO song root pd skip fuel s1 with
          | mk s2 w2 => rw [hq] at ih; exact ih

theorem settle_flatL (hfl : FlatL root) (s : PS) (hi : FlatLInv root s) : FlatLInv root (settle song root pd s) := by
  unfold settle
  apply settleO_flatL song root pd hfl false settleFuel s hi
  have := hfl.1
  rw [settleFuel_ge 0 (by omega)]
  unfold mu
  split <;> omega

theorem playTickS_flatL (hfl : FlatL root) (s : PS) (hi : FlatLInv root s) :
    FlatLInv root (playTickS song root pd s) := by
  have herr : s.err.isSome = false := by simp [hi.err]
  unfold playTickS
  simp only [herr, Bool.false_eq_true, if_false]
  apply settle_flatL song root pd hfl
  split
  · exact ⟨hi.track, hi.stack, hi.lp, hi.drum, hi.err, hi.past⟩
  · split
    · exact ⟨hi.track, hi.stack, hi.lp, hi.drum, hi.err, hi.past⟩
    · exact hi

theorem initPS_flatL : FlatLInv root initPS :=
  ⟨rfl, rfl, by show (-1 : Int) ≤ root.length; omega, by decide, rfl, fun h => by simp [initPS] at h⟩

theorem iter_flatL (hfl : FlatL root) : ∀ (n : Nat) (s : PS), FlatLInv root s →
    FlatLInv root (iter (playTickS song root pd) n s)
  | 0, _, hi => hi
  | n + 1, s, hi => iter_flatL hfl n _ (playTickS_flatL song root pd hfl s hi)

end
end Ctrmml.PlayerCh
