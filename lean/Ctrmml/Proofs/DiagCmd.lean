/-
  Helper lemmas for C17 (no property statements): column specifications (`Sp`, Proofs/DiagHoare)
  of every function of the MML reader that can raise `parse_error`, from the number readers up to
  `parse_line`.
-/
import Ctrmml.Proofs.DiagHoare
namespace Ctrmml.DiagCol
open Ctrmml.Lexer Ctrmml.Mml Ctrmml.TrackBuilder Ctrmml.Tables

variable {ln L lo : Nat}

/-- proves `Out ln L lo ?Q (run m s)` for an `m` with a known specification (extended below) -/
syntax "sp_atom" : tactic
macro "sp_side" : tactic =>
  `(tactic| first | trivial | assumption | (simp only [Geo] at *; omega) | (simp at *; omega) | (simp [isDigit, isBlank, isSpace] at *; omega))
macro "sp_fin" : tactic =>
  `(tactic| first | trivial | assumption | (simp only [Geo] at *; omega) | (simp at *; omega) | (simp [isDigit, isBlank, isSpace] at *; omega) | (simp_all; omega))
-- tried in reverse order of declaration: the most general one (`modifyS`) last
macro_rules | `(tactic| sp_atom) => `(tactic| (refine modifyS_sp _ (fun _ => rfl) _ ?_ ?_ <;> sp_side))
macro_rules | `(tactic| sp_atom) => `(tactic| (refine getC_sp _ ?_ ?_ <;> sp_side))
macro_rules | `(tactic| sp_atom) => `(tactic| (refine getTokenC_sp _ ?_ ?_ <;> sp_side))
macro_rules | `(tactic| sp_atom) => `(tactic| (refine ungetC_sp _ _ ?_ ?_ <;> sp_side))
macro_rules | `(tactic| sp_atom) => `(tactic| (refine getNumC_sp _ ?_ ?_ <;> sp_side))
macro_rules | `(tactic| sp_atom) => `(tactic| (refine tellC_sp _ ?_ ?_ <;> sp_side))
macro_rules | `(tactic| sp_atom) => `(tactic| (refine seekC_sp _ _ ?_ ?_ <;> sp_side))
macro_rules | `(tactic| sp_atom) => `(tactic| (refine getS_sp _ ?_ ?_ <;> sp_side))
macro_rules | `(tactic| sp_atom) => `(tactic| (refine track_sp _ ?_ ?_ <;> sp_side))
macro_rules | `(tactic| sp_atom) => `(tactic| (refine modifyTrack_sp _ _ ?_ ?_ <;> sp_side))
macro_rules | `(tactic| sp_atom) => `(tactic| (refine parseWarning_sp _ _ ?_ ?_ <;> sp_side))
macro_rules | `(tactic| sp_atom) => `(tactic| (refine trackOp_sp _ _ ?_ ?_ <;> sp_side))
macro_rules | `(tactic| sp_atom) => `(tactic| (refine scanC_sp _ _ ?_ ?_ <;> sp_side))

/-- one step of forward execution of `run prog s` -/
macro "sp_step" : tactic => `(tactic| first
  | (refine Out.bind (Q := ?Q) ?h1 ?h2
     case h1 => sp_atom
     intro _ _ _ _)
  | rw [run_pure_bind]
  | (refine Out.parseError (by assumption) ?_ ?_ <;> sp_fin)
  | (refine Out.pure (by assumption) ?_; sp_fin)
  | exact Out.foreign
  | (refine Out.mono (Q := ?Q) ?h1 ?h2
     case h1 => sp_atom
     intro _ _ _; sp_fin)
  | (refine Out.ite ?_ ?_ <;> intro _)
  | (refine Out.bind_ite ?_ ?_ <;> intro _)
  | split
  | simp only [])

macro "sp_run" : tactic => `(tactic| repeat' sp_step)

theorem expectParameter_sp : Sp ln L lo expectParameter (fun c => lo ≤ c ∧ c ≤ L) (fun c _ c' => c ≤ c' ∧ c' ≤ L) := by
  intro s hg hr
  unfold expectParameter
  sp_run

theorem expectSigned_sp : Sp ln L lo expectSigned (fun c => lo ≤ c ∧ c ≤ L) (fun c _ c' => c ≤ c' ∧ c' ≤ L) :=
  expectParameter_sp

theorem readParameter_sp (d : Int) : Sp ln L lo (readParameter d) (fun _ => True) (fun c _ c' => c ≤ c' ∧ (c ≤ L → c' ≤ L)) := by
  intro s hg hr
  unfold readParameter
  sp_run

theorem keySigOf_sp (c : Int) : Sp ln L lo (keySigOf c) (fun _ => True) (fun c _ c' => c' = c) := by
  intro s hg hr
  unfold keySigOf
  sp_run

macro_rules | `(tactic| sp_atom) => `(tactic| (refine expectParameter_sp _ ?_ ?_ <;> sp_side))
macro_rules | `(tactic| sp_atom) => `(tactic| (refine expectSigned_sp _ ?_ ?_ <;> sp_side))
macro_rules | `(tactic| sp_atom) => `(tactic| (refine readParameter_sp _ _ ?_ ?_ <;> sp_side))
macro_rules | `(tactic| sp_atom) => `(tactic| (refine keySigOf_sp _ _ ?_ ?_ <;> sp_side))

theorem readNote_sp (ch : Int) : Sp ln L lo (readNote ch) (fun _ => True)
    (fun c _ c' => c ≤ c' ∧ c' ≤ c + 1 ∧ (c ≤ L → c' ≤ L)) := by
  intro s hg hr
  unfold readNote
  sp_run

macro_rules | `(tactic| sp_atom) => `(tactic| (refine readNote_sp _ _ ?_ ?_ <;> sp_side))

theorem dotsLoop_sp (k : Nat) (d dot : Int) : Sp ln L lo (dotsLoop k d dot) (fun c => c + k ≤ L) (fun c _ c' => c' = c + k) := by
  induction k generalizing d dot with
  | zero =>
    intro s hg hr
    unfold dotsLoop
    sp_run
  | succ k ih =>
    intro s hg hr
    unfold dotsLoop
    sp_step
    refine Out.mono (ih _ _ _ (by assumption) (by sp_side)) ?_
    intro _ _ _; sp_fin

/-- the dots loop as `read_duration` calls it: the count is taken from the rest of the line -/
theorem dots_sp (sv : MmlState) (d dot : Int) :
    Sp ln L lo (dotsLoop (countDots (sv.inp.lb.buf.drop sv.inp.lb.column)) d dot)
      (fun c => sv.inp.lb.column = c ∧ sv.inp.lb.buf.length = L ∧ c ≤ L) (fun c _ c' => c ≤ c' ∧ c' ≤ L) := by
  intro s hg hr
  have := countDots_le (sv.inp.lb.buf.drop sv.inp.lb.column)
  simp only [List.length_drop] at this
  refine Out.mono (dotsLoop_sp _ _ _ _ hg (by simp only []; omega)) ?_
  intro _ _ h; simp only [] at h ⊢; omega

macro_rules | `(tactic| sp_atom) => `(tactic| (refine dots_sp _ _ _ _ ?_ ?_ <;> sp_side))

theorem readDuration_sp : Sp ln L lo readDuration (fun c => lo ≤ c ∧ c ≤ L) (fun c _ c' => c ≤ c' ∧ c' ≤ L) := by
  intro s hg hr
  unfold readDuration
  sp_run

macro_rules | `(tactic| sp_atom) => `(tactic| (refine readDuration_sp _ ?_ ?_ <;> sp_side))

theorem platformExclusive_sp : Sp ln L lo platformExclusive (fun c => lo ≤ c ∧ c ≤ L) (fun c _ c' => c ≤ c' ∧ c' ≤ L) := by
  intro s hg hr
  unfold platformExclusive
  sp_run

theorem mmlSlur_sp : Sp ln L lo mmlSlur (fun _ => True) (fun c _ c' => c' = c) := by
  intro s hg hr
  unfold mmlSlur
  sp_run

theorem mmlReverseRest_sp (d : Nat) : Sp ln L lo (mmlReverseRest d) (fun c => lo ≤ c ∧ c ≤ L + 1) (fun c _ c' => c' = c) := by
  intro s hg hr
  unfold mmlReverseRest
  sp_run

macro_rules | `(tactic| sp_atom) => `(tactic| (refine platformExclusive_sp _ ?_ ?_ <;> sp_side))
macro_rules | `(tactic| sp_atom) => `(tactic| (refine mmlSlur_sp _ ?_ ?_ <;> sp_side))
macro_rules | `(tactic| sp_atom) => `(tactic| (refine mmlReverseRest_sp _ _ ?_ ?_ <;> sp_side))

theorem mmlGrace_sp : Sp ln L lo mmlGrace (fun c => lo ≤ c ∧ c ≤ L) (fun c _ c' => c ≤ c' ∧ c' ≤ L) := by
  intro s hg hr
  unfold mmlGrace
  sp_run

theorem mmlTranspose_sp : Sp ln L lo mmlTranspose (fun c => lo ≤ c ∧ c ≤ L) (fun c _ c' => c ≤ c' ∧ c' ≤ L) := by
  intro s hg hr
  unfold mmlTranspose
  sp_run

theorem mmlEcho_sp : Sp ln L lo mmlEcho (fun c => lo ≤ c ∧ c ≤ L) (fun c _ c' => c ≤ c' ∧ c' ≤ L) := by
  intro s hg hr
  unfold mmlEcho
  sp_run

theorem eventRelative_sp (ty : Nat) (sub : Option Nat) :
    Sp ln L lo (eventRelative ty sub) (fun c => lo ≤ c ∧ c ≤ L) (fun c _ c' => c ≤ c' ∧ c' ≤ L) := by
  intro s hg hr
  unfold eventRelative
  sp_run

macro_rules | `(tactic| sp_atom) => `(tactic| (refine mmlGrace_sp _ ?_ ?_ <;> sp_side))
macro_rules | `(tactic| sp_atom) => `(tactic| (refine mmlTranspose_sp _ ?_ ?_ <;> sp_side))
macro_rules | `(tactic| sp_atom) => `(tactic| (refine mmlEcho_sp _ ?_ ?_ <;> sp_side))
macro_rules | `(tactic| sp_atom) => `(tactic| (refine eventRelative_sp _ _ _ ?_ ?_ <;> sp_side))

/-! ### the three command parsers -/

theorem mmlBasic_sp : Sp ln L lo mmlBasic (fun c => lo ≤ c ∧ c ≤ L) (fun c _ c' => c ≤ c' ∧ c' ≤ L) := by
  intro s hg hr
  unfold mmlBasic
  sp_run

theorem mmlControl_sp : Sp ln L lo mmlControl (fun c => lo ≤ c ∧ c ≤ L) (fun c _ c' => c ≤ c' ∧ c' ≤ L) := by
  intro s hg hr
  unfold mmlControl
  sp_run

theorem mmlEnvelope_sp : Sp ln L lo mmlEnvelope (fun c => lo ≤ c ∧ c ≤ L) (fun c _ c' => c ≤ c' ∧ c' ≤ L) := by
  intro s hg hr
  unfold mmlEnvelope
  sp_run

macro_rules | `(tactic| sp_atom) => `(tactic| (refine mmlBasic_sp _ ?_ ?_ <;> sp_side))
macro_rules | `(tactic| sp_atom) => `(tactic| (refine mmlControl_sp _ ?_ ?_ <;> sp_side))
macro_rules | `(tactic| sp_atom) => `(tactic| (refine mmlEnvelope_sp _ ?_ ?_ <;> sp_side))

/-! ### conditional blocks -/

theorem scanTokenC_sp (stop : Int → Bool) : Sp ln L lo (scanTokenC stop) (fun _ => True)
    (fun c ch c' => c + 1 ≤ c' ∧ (c ≤ L → c' ≤ L + 1) ∧ (ch ≠ 0 → c' ≤ L)) := by
  intro s hg hr
  unfold scanTokenC
  sp_run

macro_rules | `(tactic| sp_atom) => `(tactic| (refine scanTokenC_sp _ _ ?_ ?_ <;> sp_side))

theorem condBegin_go_sp (k : Nat) : Sp ln L lo (conditionalBlockBegin.go k) (fun c => lo ≤ c ∧ c ≤ L) (fun c _ c' => c ≤ c' ∧ c' ≤ L) := by
  induction k with
  | zero =>
    intro s hg hr
    unfold conditionalBlockBegin.go
    sp_run
  | succ k ih =>
    intro s hg hr
    unfold conditionalBlockBegin.go
    sp_step
    simp only []
    refine Out.ite ?_ ?_ <;> intro _
    · sp_run
    · refine Out.mono (ih _ (by assumption) (by sp_side)) ?_
      intro _ _ _; sp_fin

macro_rules | `(tactic| sp_atom) => `(tactic| (refine condBegin_go_sp _ _ ?_ ?_ <;> sp_side))

theorem conditionalBlockBegin_sp : Sp ln L lo conditionalBlockBegin (fun c => lo ≤ c ∧ c ≤ L) (fun c _ c' => c ≤ c' ∧ c' ≤ L) := by
  intro s hg hr
  unfold conditionalBlockBegin
  sp_run

theorem conditionalBlockEnd_sp (ch : Int) : Sp ln L lo (conditionalBlockEnd ch)
    (fun c => lo ≤ c ∧ c ≤ L + 1 ∧ (ch ≠ 0 → c ≤ L)) (fun c _ c' => c ≤ c' ∧ c' ≤ L) := by
  intro s hg hr
  unfold conditionalBlockEnd
  sp_run

macro_rules | `(tactic| sp_atom) => `(tactic| (refine conditionalBlockBegin_sp _ ?_ ?_ <;> sp_side))
macro_rules | `(tactic| sp_atom) => `(tactic| (refine conditionalBlockEnd_sp _ _ ?_ ?_ <;> sp_side))

end Ctrmml.DiagCol
