/- Helper lemmas for C11 (no property statements). -/
import Ctrmml.Model.MdsData
import Ctrmml.Spec.MdsData
namespace Ctrmml.MdsData
open Ctrmml.MdsSpec

/-- decidable equality of results (for the `example`s on concrete definitions) -/
instance exceptDecEq {ε α} [DecidableEq ε] [DecidableEq α] : DecidableEq (Except ε α)
  | .ok a, .ok b => if h : a = b then isTrue (by rw [h]) else isFalse (by intro h'; cases h'; exact h rfl)
  | .error a, .error b => if h : a = b then isTrue (by rw [h]) else isFalse (by intro h'; cases h'; exact h rfl)
  | .ok _, .error _ => isFalse (by intro h; cases h)
  | .error _, .ok _ => isFalse (by intro h; cases h)

theorem fm4opBytes_eq (td : List Nat) (tr : Nat) :
    fm4opBytes td tr =
      [fmField td 0 0, fmField td 0 1, fmField td 0 2, fmField td 0 3,
       fmField td 1 0, fmField td 1 1, fmField td 1 2, fmField td 1 3,
       fmField td 2 0, fmField td 2 1, fmField td 2 2, fmField td 2 3,
       fmField td 3 0, fmField td 3 1, fmField td 3 2, fmField td 3 3,
       fmField td 4 0, fmField td 4 1, fmField td 4 2, fmField td 4 3,
       fmField td 5 0, fmField td 5 1, fmField td 5 2, fmField td 5 3,
       fmField td 6 0, fmField td 6 1, fmField td 6 2, fmField td 6 3,
       (nth td 1 % 32) * 8 + nth td 0 % 8, tr] := rfl

theorem fm_roundtrip_aux (d : FmDef) (h : d.inRange) :
    decodeFm (fm4opBytes d.params (u8 ((d.tr + 24) * 2))) = some d := by
  obtain ⟨alg, fb, o1, o2, o3, o4, tr⟩ := d
  obtain ⟨ar1, dr1, sr1, rr1, sl1, tl1, ks1, ml1, dt1, ssg1, am1⟩ := o1
  obtain ⟨ar2, dr2, sr2, rr2, sl2, tl2, ks2, ml2, dt2, ssg2, am2⟩ := o2
  obtain ⟨ar3, dr3, sr3, rr3, sl3, tl3, ks3, ml3, dt3, ssg3, am3⟩ := o3
  obtain ⟨ar4, dr4, sr4, rr4, sl4, tl4, ks4, ml4, dt4, ssg4, am4⟩ := o4
  simp only [FmDef.inRange, FmOp.inRange] at h
  rw [fm4opBytes_eq]
  simp only [decodeFm, List.length_cons, List.length_nil, decodeOp, at', fmField, opBase, nth, FmDef.params, FmOp.params,
    List.cons_append, List.nil_append, List.getD_cons_succ, List.getD_cons_zero]
  simp
  obtain ⟨h0, h1, ⟨_, _, _, _, _, _, _, _, _, _⟩, ⟨_, _, _, _, _, _, _, _, _, _⟩, ⟨_, _, _, _, _, _, _, _, _, _⟩,
    ⟨_, _, _, _, _, _, _, _, _, _⟩, h6, h7⟩ := h
  refine ⟨h0, by omega, ?_, ?_, ?_, ?_, ?_⟩
  · cases am1
    · have hn : ¬ (100 ≤ ssg1) := by omega
      simp [hn]; omega
    · have hy : 100 ≤ ssg1 + 100 := by omega
      simp [hy]; omega
  · cases am2
    · have hn : ¬ (100 ≤ ssg2) := by omega
      simp [hn]; omega
    · have hy : 100 ≤ ssg2 + 100 := by omega
      simp [hy]; omega
  · cases am3
    · have hn : ¬ (100 ≤ ssg3) := by omega
      simp [hn]; omega
    · have hy : 100 ≤ ssg3 + 100 := by omega
      simp [hy]; omega
  · cases am4
    · have hn : ¬ (100 ≤ ssg4) := by omega
      simp [hn]; omega
    · have hy : 100 ≤ ssg4 + 100 := by omega
      simp [hy]; omega
  · simp only [u8]; omega

theorem fm2opBytes_eq (b0 b1 b2 b3 b4 b5 b6 b7 b8 b9 b10 b11 b12 b13 b14 b15 b16 b17 b18 b19 b20 b21 b22 b23 b24 b25 b26 b27 b28 b29 : Nat) (td : List Nat) :
    fm2opBytes [b0, b1, b2, b3, b4, b5, b6, b7, b8, b9, b10, b11, b12, b13, b14, b15, b16, b17, b18, b19, b20, b21, b22, b23, b24, b25, b26, b27, b28, b29] td = [(b0 / 16) * 16 + nth td (mulIdx 0) % 16, (b1 / 16) * 16 + nth td (mulIdx 1) % 16, (b2 / 16) * 16 + nth td (mulIdx 2) % 16, (b3 / 16) * 16 + nth td (mulIdx 3) % 16, b4, b5, b6, b7, b8, b9, b10, b11, b12, b13, b14, b15, b16, b17, b18, b19, b20, b21, b22, b23, b24, b25, b26, b26, b28, u8 (((nth td 5 : Nat) + 24) * 2)] := by
  simp [fm2opBytes, List.mapIdx_cons, nth]

theorem length30 (b : List Nat) (hb : b.length = 30) :
    ∃ b0 b1 b2 b3 b4 b5 b6 b7 b8 b9 b10 b11 b12 b13 b14 b15 b16 b17 b18 b19 b20 b21 b22 b23 b24 b25 b26 b27 b28 b29, b = [b0, b1, b2, b3, b4, b5, b6, b7, b8, b9, b10, b11, b12, b13, b14, b15, b16, b17, b18, b19, b20, b21, b22, b23, b24, b25, b26, b27, b28, b29] := by
  rcases b with _ | ⟨b0, b⟩
  · simp at hb
  rcases b with _ | ⟨b1, b⟩
  · simp at hb
  rcases b with _ | ⟨b2, b⟩
  · simp at hb
  rcases b with _ | ⟨b3, b⟩
  · simp at hb
  rcases b with _ | ⟨b4, b⟩
  · simp at hb
  rcases b with _ | ⟨b5, b⟩
  · simp at hb
  rcases b with _ | ⟨b6, b⟩
  · simp at hb
  rcases b with _ | ⟨b7, b⟩
  · simp at hb
  rcases b with _ | ⟨b8, b⟩
  · simp at hb
  rcases b with _ | ⟨b9, b⟩
  · simp at hb
  rcases b with _ | ⟨b10, b⟩
  · simp at hb
  rcases b with _ | ⟨b11, b⟩
  · simp at hb
  rcases b with _ | ⟨b12, b⟩
  · simp at hb
  rcases b with _ | ⟨b13, b⟩
  · simp at hb
  rcases b with _ | ⟨b14, b⟩
  · simp at hb
  rcases b with _ | ⟨b15, b⟩
  · simp at hb
  rcases b with _ | ⟨b16, b⟩
  · simp at hb
  rcases b with _ | ⟨b17, b⟩
  · simp at hb
  rcases b with _ | ⟨b18, b⟩
  · simp at hb
  rcases b with _ | ⟨b19, b⟩
  · simp at hb
  rcases b with _ | ⟨b20, b⟩
  · simp at hb
  rcases b with _ | ⟨b21, b⟩
  · simp at hb
  rcases b with _ | ⟨b22, b⟩
  · simp at hb
  rcases b with _ | ⟨b23, b⟩
  · simp at hb
  rcases b with _ | ⟨b24, b⟩
  · simp at hb
  rcases b with _ | ⟨b25, b⟩
  · simp at hb
  rcases b with _ | ⟨b26, b⟩
  · simp at hb
  rcases b with _ | ⟨b27, b⟩
  · simp at hb
  rcases b with _ | ⟨b28, b⟩
  · simp at hb
  rcases b with _ | ⟨b29, b⟩
  · simp at hb
  rcases b with _ | ⟨x, b⟩
  · exact ⟨b0, b1, b2, b3, b4, b5, b6, b7, b8, b9, b10, b11, b12, b13, b14, b15, b16, b17, b18, b19, b20, b21, b22, b23, b24, b25, b26, b27, b28, b29, rfl⟩
  · simp at hb

theorem fm_2op_aux (b : NBytes) (d : FmDef) (hd : decodeFm b = some d) (hbyte : ∀ x ∈ b, x < 256)
    (bid m1 m2 m3 m4 : Nat) (tr : Int) (h1 : m1 < 16) (h2 : m2 < 16) (h3 : m3 < 16) (h4 : m4 < 16)
    (htr : -24 ≤ tr ∧ tr ≤ 103) :
    decodeFm (fm2opBytes b [bid, m1, m2, m3, m4, u8 tr]) = some (d.twoOp m1 m2 m3 m4 tr) := by
  have hb : b.length = 30 := by
    unfold decodeFm at hd
    split at hd
    · assumption
    · simp at hd
  obtain ⟨b0, b1, b2, b3, b4, b5, b6, b7, b8, b9, b10, b11, b12, b13, b14, b15, b16, b17, b18, b19, b20, b21, b22, b23, b24, b25, b26, b27, b28, b29, rfl⟩ := length30 b hb
  rw [fm2opBytes_eq]
  simp only [decodeFm, List.length_cons, List.length_nil, decodeOp, at', List.getD_cons_succ, List.getD_cons_zero] at hd ⊢
  simp at hd
  subst hd
  simp [FmDef.twoOp, mulIdx, nth, u8]
  have hx := hbyte b0 (by simp); have hy := hbyte b1 (by simp); have hz := hbyte b2 (by simp); have hw := hbyte b3 (by simp)
  refine ⟨?_, ?_, ?_, ?_, ?_⟩ <;> omega

/-! ## PSG: merging preserves the frame sequence -/

/-- frames denoted by a run of envelope bytes (a sustain byte `01` denotes none) -/
def F (env : NBytes) : List Nat := env.flatMap fun b => List.replicate (b / 16) (15 - b % 16)

theorem F_append (a b : NBytes) : F (a ++ b) = F a ++ F b := by simp [F]

/-- events of a PSG definition after parsing -/
inductive PEv
  | val (v : Nat)
  | sustain
  | loop
deriving Repr, DecidableEq

def applyEv (st : PsgSt) : PEv → PsgSt
  | .val v => pushVal st v
  | .sustain => psgSustain st
  | .loop => psgLoop st

def evFrames : List PEv → List Nat
  | [] => []
  | .val v :: r => v :: evFrames r
  | _ :: r => evFrames r

/-- invariant: when `last` is set, the final byte is the value byte of level `last` at `lastPos` -/
def Inv (st : PsgSt) : Prop :=
  (∀ b ∈ st.env, b = 1 ∨ (16 ≤ b ∧ b < 256)) ∧
  (st.last = -1 ∨ ∃ pre b, st.env = pre ++ [b] ∧ st.lastPos = pre.length ∧ 16 ≤ b ∧ b < 256 ∧
      ((15 - b % 16 : Nat) : Int) = st.last)

theorem nth_append_last (pre : NBytes) (b : Nat) : nth (pre ++ [b]) pre.length = b := by
  simp [nth]

theorem set_append_last (pre : NBytes) (b c : Nat) : setAt (pre ++ [b]) pre.length c = pre ++ [c] := by
  simp [setAt]

theorem pushVal_spec (st : PsgSt) (v : Nat) (hv : v ≤ 15) (hi : Inv st) :
    Inv (pushVal st v) ∧ F (pushVal st v).env = F st.env ++ [v] := by
  obtain ⟨hb, hl⟩ := hi
  unfold pushVal
  simp only
  split
  · -- merge
    rename_i hc
    simp only [Bool.and_eq_true, beq_iff_eq, decide_eq_true_eq, bne_iff_ne, ne_eq] at hc
    obtain ⟨⟨h1, h2⟩, _⟩ := hc
    rcases hl with hl | ⟨pre, b, he, hp, hb1, hb2, hlv⟩
    · omega
    · rw [he, hp, nth_append_last] at h2
      rw [he, hp, nth_append_last, set_append_last]
      refine ⟨⟨?_, Or.inr ⟨pre, b + 16, rfl, rfl, by omega, by omega, ?_⟩⟩, ?_⟩
      · intro x hx
        simp only [List.mem_append, List.mem_singleton] at hx
        rcases hx with hx | hx
        · exact hb x (by rw [he]; simp [hx])
        · right; omega
      · simp only []
        have : (b + 16) % 16 = b % 16 := by omega
        rw [this]; omega
      · simp only [F_append]
        have e1 : (b + 16) / 16 = b / 16 + 1 := by omega
        have e2 : (b + 16) % 16 = b % 16 := by omega
        have e3 : 15 - b % 16 = v := by omega
        simp [F, e1, e2, e3, List.replicate_succ']
  · -- push
    have hu : u8 (0x1f - (v : Int)) = 31 - v := by simp only [u8]; omega
    rw [hu]
    refine ⟨⟨?_, Or.inr ⟨st.env, 31 - v, rfl, rfl, by omega, by omega, ?_⟩⟩, ?_⟩
    · intro x hx
      simp only [List.mem_append, List.mem_singleton] at hx
      rcases hx with hx | hx
      · exact hb x hx
      · right; omega
    · simp only []
      have : (31 - v) % 16 = 15 - v := by omega
      rw [this]; omega
    · simp only [F_append]
      have e1 : (31 - v) / 16 = 1 := by omega
      have e2 : (31 - v) % 16 = 15 - v := by omega
      have e3 : 15 - (15 - v) = v := by omega
      simp [F, e1, e2, e3]

theorem psgLoop_spec (st : PsgSt) (hi : Inv st) : Inv (psgLoop st) ∧ F (psgLoop st).env = F st.env := by
  exact ⟨hi, rfl⟩

theorem psgSustain_spec (st : PsgSt) (hi : Inv st) (hl : st.last ≠ -1) :
    Inv (psgSustain st) ∧ F (psgSustain st).env = F st.env := by
  obtain ⟨hb, _⟩ := hi
  unfold psgSustain
  have : (st.last == -1) = false := by simp [hl]
  simp only [this]
  refine ⟨⟨?_, Or.inl rfl⟩, ?_⟩
  · intro x hx
    simp only [Bool.false_eq_true, if_false, List.mem_append, List.mem_singleton] at hx
    rcases hx with hx | hx
    · exact hb x hx
    · left; exact hx
  · simp [F]

/-- a sustain is only applied when a value precedes it (since the start or the last sustain) -/
def evsOk : List PEv → Bool → Bool
  | [], _ => true
  | .val v :: r, _ => v ≤ 15 && evsOk r true
  | .sustain :: r, have_ => have_ && evsOk r false
  | .loop :: r, have_ => evsOk r have_

theorem pushVal_last (st : PsgSt) (v : Nat) : (pushVal st v).last = v := by
  unfold pushVal; simp

theorem applyEvs_spec (evs : List PEv) (st : PsgSt) (have_ : Bool) (hi : Inv st)
    (hh : have_ = true → st.last ≠ -1) (hok : evsOk evs have_ = true) :
    Inv (evs.foldl applyEv st) ∧ F (evs.foldl applyEv st).env = F st.env ++ evFrames evs := by
  induction evs generalizing st have_ with
  | nil => simp [evFrames, hi]
  | cons e r ih =>
    cases e with
    | val v =>
      simp only [evsOk, Bool.and_eq_true, decide_eq_true_eq] at hok
      obtain ⟨h1, h2⟩ := pushVal_spec st v hok.1 hi
      have := ih (pushVal st v) true h1 (by intro _; rw [pushVal_last]; omega) hok.2
      simp only [List.foldl_cons, applyEv, evFrames]
      refine ⟨this.1, ?_⟩
      rw [this.2, h2]; simp
    | sustain =>
      simp only [evsOk, Bool.and_eq_true] at hok
      obtain ⟨h1, h2⟩ := psgSustain_spec st hi (hh hok.1)
      have := ih (psgSustain st) false h1 (by intro h; cases h) hok.2
      simp only [List.foldl_cons, applyEv, evFrames]
      refine ⟨this.1, ?_⟩
      rw [this.2, h2]
    | loop =>
      simp only [evsOk] at hok
      have := ih (psgLoop st) have_ (psgLoop_spec st hi).1 hh hok
      simp only [List.foldl_cons, applyEv, evFrames]
      exact this

/-- the reader on value/sustain bytes followed by a terminator -/
theorem expand_frames (all env term : NBytes) (e : PsgExp)
    (hb : ∀ b ∈ env, b = 1 ∨ (16 ≤ b ∧ b < 256))
    (ht : term = [0] ∨ ∃ p, term = [2, p]) :
    ∃ e', expandPsgAux all (env ++ term) e = some e' ∧ e'.frames = e.frames ++ F env := by
  induction env generalizing e with
  | nil =>
    rcases ht with rfl | ⟨p, rfl⟩
    · exact ⟨e, by simp [expandPsgAux, F]⟩
    · exact ⟨{ e with loopTo := some (framesBefore all p) }, by simp [expandPsgAux], by simp [F]⟩
  | cons b bs ih =>
    have hb' : ∀ x ∈ bs, x = 1 ∨ (16 ≤ x ∧ x < 256) := fun x hx => hb x (by simp [hx])
    rcases hb b (by simp) with rfl | hb1
    · obtain ⟨e', h1, h2⟩ := ih { e with sustains := e.sustains ++ [e.frames.length] } hb'
      refine ⟨e', ?_, ?_⟩
      · simpa [expandPsgAux] using h1
      · rw [h2]; simp [F]
    · obtain ⟨e', h1, h2⟩ := ih { e with frames := e.frames ++ List.replicate (b / 16) (15 - b % 16) } hb'
      refine ⟨e', ?_, ?_⟩
      · have n0 : b ≠ 0 := by omega
        have n1 : b ≠ 1 := by omega
        have n2 : b ≠ 2 := by omega
        have n16 : ¬ b < 16 := by omega
        rw [List.cons_append]
        unfold expandPsgAux
        split <;> simp_all
      · rw [h2]; simp [F, List.append_assoc]


/-! ## PSG: from written items to events -/

def slideVals {α} (A : Arith α) (target : Nat) (delta : α) : Nat → α → List Nat
  | 0, _ => []
  | n + 1, c => frameVal A target n c :: slideVals A target delta n (A.add c delta)

theorem psgFrames_eq {α} (A : Arith α) (target : Nat) (delta : α) (n : Nat) (c : α) (st : PsgSt) :
    psgFrames A target delta n c st = (slideVals A target delta n c).foldl pushVal st := by
  induction n generalizing c st with
  | zero => rfl
  | succ n ih => simp [psgFrames, slideVals, ih]

/-- the frame values `add_ins_psg` computes for one written value `initial>target:length` -/
def slideOf {α} (A : Arith α) (initial target length : Nat) : List Nat :=
  let length := if length = 0 then 1 else length
  let delta := if length > 1 then A.divNat (A.ofInt ((target : Int) - initial)) (length - 1) else A.ofInt 0
  slideVals A target delta length (A.add (A.ofInt initial) A.half)

theorem psgValue_eq {α} (A : Arith α) (st : PsgSt) (i t n : Nat) :
    psgValue A st i t n = (slideOf A i t n).foldl pushVal st := by
  unfold psgValue slideOf
  exact psgFrames_eq ..

/-- one written item applied to the compiler state (what `psgToken` does after parsing) -/
def psgItem {α} (A : Arith α) (st : PsgSt) : PsgItem → PsgSt
  | .value i t n => psgValue A st i t n
  | .sustain => psgSustain st
  | .loop => psgLoop st

def itemEvs {α} (A : Arith α) : PsgItem → List PEv
  | .value i t n => (slideOf A i t n).map PEv.val
  | .sustain => [.sustain]
  | .loop => [.loop]

def itemFrames {α} (A : Arith α) : PsgItem → List Nat
  | .value i t n => slideOf A i t n
  | _ => []

theorem foldl_map_val (vs : List Nat) (st : PsgSt) :
    (vs.map PEv.val).foldl applyEv st = vs.foldl pushVal st := by
  induction vs generalizing st with
  | nil => rfl
  | cons v r ih => simp [applyEv, ih]

theorem psgItems_eq {α} (A : Arith α) (items : List PsgItem) (st : PsgSt) :
    items.foldl (psgItem A) st = (items.flatMap (itemEvs A)).foldl applyEv st := by
  induction items generalizing st with
  | nil => rfl
  | cons it r ih =>
    simp only [List.foldl_cons, List.flatMap_cons, List.foldl_append, ih]
    cases it with
    | value i t n => simp [psgItem, itemEvs, psgValue_eq, foldl_map_val]
    | sustain => rfl
    | loop => rfl

theorem evFrames_append (a b : List PEv) : evFrames (a ++ b) = evFrames a ++ evFrames b := by
  induction a with
  | nil => rfl
  | cons e r ih => cases e <;> simp [evFrames, ih]

theorem evFrames_map_val (vs : List Nat) : evFrames (vs.map PEv.val) = vs := by
  induction vs with
  | nil => rfl
  | cons v r ih => simp [evFrames, ih]

theorem evFrames_items {α} (A : Arith α) (items : List PsgItem) :
    evFrames (items.flatMap (itemEvs A)) = items.flatMap (itemFrames A) := by
  induction items with
  | nil => rfl
  | cons it r ih =>
    simp only [List.flatMap_cons, evFrames_append, ih]
    cases it <;> simp [itemEvs, itemFrames, evFrames_map_val, evFrames]

theorem evsOk_map_val (vs : List Nat) (rest : List PEv) (h : Bool) (hv : ∀ v ∈ vs, v ≤ 15)
    (hr : evsOk rest (h || !vs.isEmpty) = true) : evsOk (vs.map PEv.val ++ rest) h = true := by
  induction vs generalizing h with
  | nil => simpa using hr
  | cons v r ih =>
    simp only [List.map_cons, List.cons_append, evsOk, Bool.and_eq_true, decide_eq_true_eq]
    refine ⟨hv v (by simp), ih true (fun x hx => hv x (by simp [hx])) ?_⟩
    cases r <;> simp_all

/-- in-range items; a sustain needs a value in front of it -/
def itemsOk : List PsgItem → Bool → Bool
  | [], _ => true
  | .value i t n :: r, _ => i ≤ 15 && t ≤ 15 && 1 ≤ n && n ≤ 255 && itemsOk r true
  | .sustain :: r, h => h && itemsOk r false
  | .loop :: r, h => itemsOk r h

/-- hypothesis on the arithmetic: every single in-range slide has the slide shape -/
def SlideOK {α} (A : Arith α) : Prop :=
  ∀ i t n, i ≤ 15 → t ≤ 15 → 1 ≤ n → n ≤ 255 → slideShape i t n (slideOf A i t n) = true

theorem slideShape_bounds (i t n : Nat) (fs : List Nat) (hi : i ≤ 15) (ht : t ≤ 15) (hn : 1 ≤ n)
    (h : slideShape i t n fs = true) : (∀ v ∈ fs, v ≤ 15) ∧ fs.isEmpty = false := by
  simp only [slideShape, Bool.and_eq_true, beq_iff_eq, List.all_eq_true, decide_eq_true_eq] at h
  obtain ⟨⟨⟨⟨hl, _⟩, _⟩, _⟩, hall⟩ := h
  refine ⟨fun v hv => ?_, ?_⟩
  · have := (hall v hv).2; omega
  · cases fs with
    | nil => simp at hl; omega
    | cons _ _ => rfl

theorem evsOk_items {α} (A : Arith α) (hA : SlideOK A) (items : List PsgItem) (h : Bool)
    (hok : itemsOk items h = true) : evsOk (items.flatMap (itemEvs A)) h = true := by
  induction items generalizing h with
  | nil => rfl
  | cons it r ih =>
    cases it with
    | value i t n =>
      simp only [itemsOk, Bool.and_eq_true, decide_eq_true_eq] at hok
      obtain ⟨⟨⟨⟨hi, ht⟩, hn1⟩, hn2⟩, hr⟩ := hok
      obtain ⟨hb, hne⟩ := slideShape_bounds i t n _ hi ht hn1 (hA i t n hi ht hn1 hn2)
      simp only [List.flatMap_cons, itemEvs]
      apply evsOk_map_val _ _ _ hb
      simp only [hne, Bool.not_false, Bool.or_true]
      exact ih true hr
    | sustain =>
      simp only [itemsOk, Bool.and_eq_true] at hok
      simp only [List.flatMap_cons, itemEvs, List.cons_append, List.nil_append, evsOk, hok.1, Bool.true_and]
      exact ih false hok.2
    | loop =>
      simp only [itemsOk] at hok
      simp only [List.flatMap_cons, itemEvs, List.cons_append, List.nil_append, evsOk]
      exact ih h hok

theorem inv_init : Inv ({} : PsgSt) := ⟨by simp, Or.inl rfl⟩

theorem psg_frames_aux {α} (A : Arith α) (hA : SlideOK A) (items : List PsgItem)
    (hok : itemsOk items false = true) :
    ∃ e, expandPsg (psgFinish (items.foldl (psgItem A) {})) = some e ∧
      e.frames = items.flatMap (itemFrames A) := by
  have h := applyEvs_spec (items.flatMap (itemEvs A)) {} false inv_init (by intro h; cases h)
    (evsOk_items A hA items false hok)
  rw [← psgItems_eq] at h
  obtain ⟨⟨hb, _⟩, hF⟩ := h
  generalize items.foldl (psgItem A) {} = st at hb hF
  unfold psgFinish expandPsg
  split
  · obtain ⟨e', h1, h2⟩ := expand_frames (st.env ++ [0]) st.env [0] {} hb (Or.inl rfl)
    exact ⟨e', h1, by rw [h2, hF, evFrames_items]; simp [F]⟩
  · obtain ⟨e', h1, h2⟩ := expand_frames (st.env ++ [2, u8 st.loopPos]) st.env [2, u8 st.loopPos] {} hb (Or.inr ⟨_, rfl⟩)
    exact ⟨e', h1, by rw [h2, hF, evFrames_items]; simp [F]⟩


/-! ## PSG: positions of the sustain and loop marks -/

theorem F_cons (b : Nat) (bs : NBytes) : F (b :: bs) = List.replicate (b / 16) (15 - b % 16) ++ F bs := by
  simp [F]

/-- frame indices of the sustain bytes of a run of envelope bytes starting at frame `base` -/
def Sus : NBytes → Nat → List Nat
  | [], _ => []
  | b :: bs, base => if b = 1 then base :: Sus bs base else Sus bs (base + b / 16)

theorem Sus_append (a b : NBytes) (base : Nat) :
    Sus (a ++ b) base = Sus a base ++ Sus b (base + (F a).length) := by
  induction a generalizing base with
  | nil => simp [Sus, F]
  | cons x r ih =>
    simp only [List.cons_append, Sus, F_cons, List.length_append, List.length_replicate]
    split
    · rename_i h; subst h; simp [ih]
    · rw [ih]; simp [Nat.add_assoc]

theorem framesBefore_eq (l : NBytes) (p : Nat) : framesBefore l p = (F (l.take p)).length := by
  induction l generalizing p with
  | nil => cases p <;> simp [framesBefore, F]
  | cons b bs ih =>
    cases p with
    | zero => simp [framesBefore, F]
    | succ p =>
      simp only [framesBefore, List.take_succ_cons, F_cons, List.length_append, List.length_replicate, ih]
      split <;> omega

theorem expand_full (all env term : NBytes) (e : PsgExp)
    (hb : ∀ b ∈ env, b = 1 ∨ (16 ≤ b ∧ b < 256))
    (ht : term = [0] ∨ ∃ p, term = [2, p]) :
    ∃ e', expandPsgAux all (env ++ term) e = some e' ∧ e'.frames = e.frames ++ F env ∧
      e'.sustains = e.sustains ++ Sus env e.frames.length ∧
      (term = [0] → e'.loopTo = e.loopTo) ∧ (∀ p, term = [2, p] → e'.loopTo = some (framesBefore all p)) := by
  induction env generalizing e with
  | nil =>
    rcases ht with rfl | ⟨p, rfl⟩
    · exact ⟨e, by simp [expandPsgAux, F, Sus]⟩
    · refine ⟨{ e with loopTo := some (framesBefore all p) }, by simp [expandPsgAux], by simp [F], by simp [Sus], by simp, ?_⟩
      intro q hq; simp at hq; simp [hq]
  | cons b bs ih =>
    have hb' : ∀ x ∈ bs, x = 1 ∨ (16 ≤ x ∧ x < 256) := fun x hx => hb x (by simp [hx])
    rcases hb b (by simp) with rfl | hb1
    · obtain ⟨e', h1, h2, h3, h4, h5⟩ := ih { e with sustains := e.sustains ++ [e.frames.length] } hb'
      refine ⟨e', ?_, ?_, ?_, h4, h5⟩
      · simpa [expandPsgAux] using h1
      · rw [h2]; simp [F]
      · rw [h3]; simp [Sus]
    · obtain ⟨e', h1, h2, h3, h4, h5⟩ := ih { e with frames := e.frames ++ List.replicate (b / 16) (15 - b % 16) } hb'
      refine ⟨e', ?_, ?_, ?_, h4, h5⟩
      · have n0 : b ≠ 0 := by omega
        have n1 : b ≠ 1 := by omega
        have n2 : b ≠ 2 := by omega
        have n16 : ¬ b < 16 := by omega
        rw [List.cons_append]
        unfold expandPsgAux
        split <;> simp_all
      · rw [h2]; simp [F, List.append_assoc]
      · rw [h3]
        have n1 : b ≠ 1 := by omega
        simp [Sus, n1]

/-- reference positions of the marks of an event list, counted in frames from `pos` -/
def evSus : List PEv → Nat → List Nat
  | [], _ => []
  | .val _ :: r, pos => evSus r (pos + 1)
  | .sustain :: r, pos => pos :: evSus r pos
  | .loop :: r, pos => evSus r pos

def evLoop : List PEv → Nat → Option Nat → Option Nat
  | [], _, lp => lp
  | .val _ :: r, pos, lp => evLoop r (pos + 1) lp
  | .sustain :: r, pos, lp => evLoop r pos lp
  | .loop :: r, pos, _ => evLoop r pos (some pos)

/-- the loop position of the compiler state denotes `lp` frames -/
def LoopRel (st : PsgSt) (lp : Option Nat) : Prop :=
  (st.loopPos = -1 ∧ lp = none) ∨
  ∃ k : Nat, st.loopPos = (k : Int) ∧ k ≤ st.env.length ∧ lp = some (F (st.env.take k)).length

theorem pushVal_shape (st : PsgSt) (v : Nat) (hv : v ≤ 15) (hi : Inv st) :
    (pushVal st v).loopPos = st.loopPos ∧
    ((∃ pre b, st.env = pre ++ [b] ∧ 16 ≤ b ∧ st.loopPos ≠ (st.env.length : Int) ∧ (pushVal st v).env = pre ++ [b + 16]) ∨
     (pushVal st v).env = st.env ++ [31 - v]) := by
  obtain ⟨_, hl⟩ := hi
  unfold pushVal
  simp only
  split
  · rename_i hc
    simp only [Bool.and_eq_true, beq_iff_eq, decide_eq_true_eq, bne_iff_ne, ne_eq] at hc
    obtain ⟨⟨h1, _⟩, h3⟩ := hc
    rcases hl with hl | ⟨pre, b, he, hp, hb1, _, _⟩
    · omega
    · refine ⟨rfl, Or.inl ⟨pre, b, he, hb1, h3, ?_⟩⟩
      simp only [he, hp, nth_append_last, set_append_last]
  · have hu : u8 (0x1f - (v : Int)) = 31 - v := by simp only [u8]; omega
    exact ⟨rfl, Or.inr (by simp [hu])⟩

theorem Sus_single (x base : Nat) (h : x ≠ 1) : Sus [x] base = [] := by simp [Sus, h]

theorem pushVal_marks (st : PsgSt) (v : Nat) (hv : v ≤ 15) (hi : Inv st) (lp : Option Nat)
    (hm : LoopRel st lp) :
    Sus (pushVal st v).env 0 = Sus st.env 0 ∧ LoopRel (pushVal st v) lp := by
  obtain ⟨hlp, hsh⟩ := pushVal_shape st v hv hi
  rcases hsh with ⟨pre, b, he, hb1, hne, he'⟩ | he'
  · refine ⟨?_, ?_⟩
    · rw [he', he, Sus_append, Sus_append, Sus_single _ _ (by omega), Sus_single _ _ (by omega)]
    · rcases hm with ⟨h1, h2⟩ | ⟨k, h1, h2, h3⟩
      · exact Or.inl ⟨by rw [hlp]; exact h1, h2⟩
      · refine Or.inr ⟨k, by rw [hlp]; exact h1, ?_, ?_⟩
        · rw [he']; rw [he] at h2; simpa using h2
        · have hk : k ≤ pre.length := by
            rw [he] at h2 hne; simp at h2 hne; omega
          rw [h3, he', he, List.take_append_of_le_length hk, List.take_append_of_le_length hk]
  · refine ⟨?_, ?_⟩
    · rw [he', Sus_append, Sus_single _ _ (by omega)]; simp
    · rcases hm with ⟨h1, h2⟩ | ⟨k, h1, h2, h3⟩
      · exact Or.inl ⟨by rw [hlp]; exact h1, h2⟩
      · refine Or.inr ⟨k, by rw [hlp]; exact h1, ?_, ?_⟩
        · rw [he']; simp; omega
        · rw [h3, he', List.take_append_of_le_length h2]

theorem psgSustain_marks (st : PsgSt) (hl : st.last ≠ -1) (lp : Option Nat) (hm : LoopRel st lp) :
    Sus (psgSustain st).env 0 = Sus st.env 0 ++ [(F st.env).length] ∧ LoopRel (psgSustain st) lp := by
  have : (st.last == -1) = false := by simp [hl]
  have he : (psgSustain st).env = st.env ++ [1] := by simp [psgSustain, this]
  have hp : (psgSustain st).loopPos = st.loopPos := rfl
  refine ⟨by rw [he, Sus_append]; simp [Sus], ?_⟩
  rcases hm with ⟨h1, h2⟩ | ⟨k, h1, h2, h3⟩
  · exact Or.inl ⟨by rw [hp]; exact h1, h2⟩
  · refine Or.inr ⟨k, by rw [hp]; exact h1, ?_, ?_⟩
    · rw [he]; simp; omega
    · rw [h3, he, List.take_append_of_le_length h2]

theorem psgLoop_marks (st : PsgSt) : LoopRel (psgLoop st) (some (F st.env).length) := by
  refine Or.inr ⟨st.env.length, rfl, Nat.le_refl _, ?_⟩
  simp [psgLoop]

theorem applyEvs_marks (evs : List PEv) (st : PsgSt) (have_ : Bool) (hi : Inv st)
    (hh : have_ = true → st.last ≠ -1) (hok : evsOk evs have_ = true) (lp : Option Nat) (hm : LoopRel st lp) :
    Sus (evs.foldl applyEv st).env 0 = Sus st.env 0 ++ evSus evs (F st.env).length ∧
      LoopRel (evs.foldl applyEv st) (evLoop evs (F st.env).length lp) := by
  induction evs generalizing st have_ lp with
  | nil => simp [evSus, evLoop, hm]
  | cons e r ih =>
    cases e with
    | val v =>
      simp only [evsOk, Bool.and_eq_true, decide_eq_true_eq] at hok
      obtain ⟨h1, h2⟩ := pushVal_spec st v hok.1 hi
      obtain ⟨m1, m2⟩ := pushVal_marks st v hok.1 hi lp hm
      have := ih (pushVal st v) true h1 (by intro _; rw [pushVal_last]; omega) hok.2 lp m2
      simp only [List.foldl_cons, applyEv, evSus, evLoop]
      rw [h2, m1] at this
      simpa using this
    | sustain =>
      simp only [evsOk, Bool.and_eq_true] at hok
      obtain ⟨h1, h2⟩ := psgSustain_spec st hi (hh hok.1)
      obtain ⟨m1, m2⟩ := psgSustain_marks st (hh hok.1) lp hm
      have := ih (psgSustain st) false h1 (by intro h; cases h) hok.2 lp m2
      simp only [List.foldl_cons, applyEv, evSus, evLoop]
      rw [h2, m1] at this
      simpa using this
    | loop =>
      simp only [evsOk] at hok
      have := ih (psgLoop st) have_ (psgLoop_spec st hi).1 hh hok _ (psgLoop_marks st)
      simp only [List.foldl_cons, applyEv, evSus, evLoop]
      exact this

/-- every byte carries a frame or is a sustain mark -/
theorem length_le_frames (l : NBytes) (base : Nat) (hb : ∀ b ∈ l, b = 1 ∨ (16 ≤ b ∧ b < 256)) :
    l.length ≤ (F l).length + (Sus l base).length := by
  induction l generalizing base with
  | nil => simp
  | cons b bs ih =>
    have hb' : ∀ x ∈ bs, x = 1 ∨ (16 ≤ x ∧ x < 256) := fun x hx => hb x (by simp [hx])
    rcases hb b (by simp) with rfl | hb1
    · have := ih base hb'
      simp only [List.length_cons, F_cons, Sus, List.length_append, List.length_replicate, if_true]
      omega
    · have := ih (base + b / 16) hb'
      have n1 : b ≠ 1 := by omega
      have : 1 ≤ b / 16 := by omega
      simp only [List.length_cons, F_cons, Sus, n1, if_false, List.length_append, List.length_replicate]
      omega


/-! ## PSG: marks at the item level -/

theorem evSus_map_val (vs : List Nat) (rest : List PEv) (pos : Nat) :
    evSus (vs.map PEv.val ++ rest) pos = evSus rest (pos + vs.length) := by
  induction vs generalizing pos with
  | nil => rfl
  | cons v r ih => simp [evSus, ih]; congr 1; omega

theorem evLoop_map_val (vs : List Nat) (rest : List PEv) (pos : Nat) (lp : Option Nat) :
    evLoop (vs.map PEv.val ++ rest) pos lp = evLoop rest (pos + vs.length) lp := by
  induction vs generalizing pos with
  | nil => rfl
  | cons v r ih => simp [evLoop, ih]; congr 1; omega

/-- positions of the marks as written: frames are counted with the written lengths -/
def refSus : List PsgItem → Nat → List Nat
  | [], _ => []
  | .value _ _ n :: r, pos => refSus r (pos + n)
  | .sustain :: r, pos => pos :: refSus r pos
  | .loop :: r, pos => refSus r pos

def refLoop : List PsgItem → Nat → Option Nat → Option Nat
  | [], _, lp => lp
  | .value _ _ n :: r, pos, lp => refLoop r (pos + n) lp
  | .sustain :: r, pos, lp => refLoop r pos lp
  | .loop :: r, pos, _ => refLoop r pos (some pos)

/-- written size: frames plus sustain marks (an upper bound of the number of bytes) -/
def psgSize : List PsgItem → Nat
  | [] => 0
  | .value _ _ n :: r => n + psgSize r
  | .sustain :: r => 1 + psgSize r
  | .loop :: r => psgSize r

def LenOK {α} (A : Arith α) (items : List PsgItem) : Prop :=
  ∀ i t n, PsgItem.value i t n ∈ items → (slideOf A i t n).length = n

theorem LenOK_tail {α} (A : Arith α) (x : PsgItem) (r : List PsgItem) (h : LenOK A (x :: r)) : LenOK A r :=
  fun i t n hm => h i t n (by simp [hm])

theorem evSus_items {α} (A : Arith α) (items : List PsgItem) (pos : Nat) (hl : LenOK A items) :
    evSus (items.flatMap (itemEvs A)) pos = refSus items pos := by
  induction items generalizing pos with
  | nil => rfl
  | cons it r ih =>
    have ih' := fun p => ih p (LenOK_tail A it r hl)
    cases it with
    | value i t n =>
      simp only [List.flatMap_cons, itemEvs, evSus_map_val, refSus, hl i t n (by simp), ih']
    | sustain => simp [itemEvs, evSus, refSus, ih']
    | loop => simp [itemEvs, evSus, refSus, ih']

theorem evLoop_items {α} (A : Arith α) (items : List PsgItem) (pos : Nat) (lp : Option Nat) (hl : LenOK A items) :
    evLoop (items.flatMap (itemEvs A)) pos lp = refLoop items pos lp := by
  induction items generalizing pos lp with
  | nil => rfl
  | cons it r ih =>
    have ih' := fun p l => ih p l (LenOK_tail A it r hl)
    cases it with
    | value i t n =>
      simp only [List.flatMap_cons, itemEvs, evLoop_map_val, refLoop, hl i t n (by simp), ih']
    | sustain => simp [itemEvs, evLoop, refLoop, ih']
    | loop => simp [itemEvs, evLoop, refLoop, ih']

theorem size_items {α} (A : Arith α) (items : List PsgItem) (pos : Nat) (hl : LenOK A items) :
    (items.flatMap (itemFrames A)).length + (refSus items pos).length = psgSize items := by
  induction items generalizing pos with
  | nil => rfl
  | cons it r ih =>
    have ih' := fun p => ih p (LenOK_tail A it r hl)
    cases it with
    | value i t n =>
      have := ih' (pos + n)
      simp only [List.flatMap_cons, itemFrames, List.length_append, hl i t n (by simp), refSus, psgSize]
      omega
    | sustain =>
      have := ih' pos
      simp only [List.flatMap_cons, itemFrames, List.nil_append, refSus, List.length_cons, psgSize]
      omega
    | loop =>
      have := ih' pos
      simp only [List.flatMap_cons, itemFrames, List.nil_append, refSus, psgSize]
      omega

theorem checkPsg_ok {α} (A : Arith α) (items : List PsgItem) (pos : Nat) (sus : List Nat) (lp : Option Nat)
    (e : PsgExp)
    (hsh : ∀ i t n, PsgItem.value i t n ∈ items → slideShape i t n (slideOf A i t n) = true)
    (hs : e.sustains = sus ++ refSus items pos) (hl : e.loopTo = refLoop items pos lp) :
    checkPsg items (items.flatMap (itemFrames A)) pos sus lp e = true := by
  induction items generalizing pos sus lp with
  | nil => simp [checkPsg, hs, hl, refSus, refLoop]
  | cons it r ih =>
    have hsh' : ∀ i t n, PsgItem.value i t n ∈ r → slideShape i t n (slideOf A i t n) = true :=
      fun i t n hm => hsh i t n (by simp [hm])
    cases it with
    | value i t n =>
      have h := hsh i t n (by simp)
      have hlen : (slideOf A i t n).length = n := by
        simp only [slideShape, Bool.and_eq_true, beq_iff_eq] at h
        exact h.1.1.1.1
      simp only [List.flatMap_cons, itemFrames, checkPsg, Bool.and_eq_true]
      have ht : ((slideOf A i t n) ++ r.flatMap (itemFrames A)).take n = slideOf A i t n :=
        List.take_left' hlen
      have hd : ((slideOf A i t n) ++ r.flatMap (itemFrames A)).drop n = r.flatMap (itemFrames A) :=
        List.drop_left' hlen
      rw [ht, hd]
      exact ⟨h, ih (pos + n) sus lp hsh' (by simp only [refSus] at hs; exact hs) (by simp only [refLoop] at hl; exact hl)⟩
    | sustain =>
      simp only [List.flatMap_cons, itemFrames, List.nil_append, checkPsg]
      exact ih pos (sus ++ [pos]) lp hsh' (by simp only [refSus] at hs; simpa using hs) (by simp only [refLoop] at hl; exact hl)
    | loop =>
      simp only [List.flatMap_cons, itemFrames, List.nil_append, checkPsg]
      exact ih pos sus (some pos) hsh' (by simp only [refSus] at hs; exact hs) (by simp only [refLoop] at hl; exact hl)

theorem shape_of_ok {α} (A : Arith α) (hA : SlideOK A) (items : List PsgItem) (h : Bool)
    (hok : itemsOk items h = true) :
    ∀ i t n, PsgItem.value i t n ∈ items → slideShape i t n (slideOf A i t n) = true := by
  induction items generalizing h with
  | nil => intro _ _ _ hm; cases hm
  | cons x r ih =>
    intro i t n hm
    cases x with
    | value i' t' n' =>
      simp only [itemsOk, Bool.and_eq_true, decide_eq_true_eq] at hok
      rcases List.mem_cons.mp hm with heq | hm'
      · cases heq; exact hA i t n hok.1.1.1.1 hok.1.1.1.2 hok.1.1.2 hok.1.2
      · exact ih true hok.2 i t n hm'
    | sustain =>
      simp only [itemsOk, Bool.and_eq_true] at hok
      rcases List.mem_cons.mp hm with heq | hm'
      · cases heq
      · exact ih false hok.2 i t n hm'
    | loop =>
      simp only [itemsOk] at hok
      rcases List.mem_cons.mp hm with heq | hm'
      · cases heq
      · exact ih h hok i t n hm'

theorem u8_small (k : Nat) (h : k < 256) : u8 (k : Int) = k := by simp only [u8]; omega

/-- the compiler state after the written items: value/sustain bytes only, the frames, the
sustain positions, the loop relation and the size bound -/
theorem psg_state {α} (A : Arith α) (hA : SlideOK A) (items : List PsgItem)
    (hok : itemsOk items false = true) :
    let st := items.foldl (psgItem A) {}
    (∀ b ∈ st.env, b = 1 ∨ (16 ≤ b ∧ b < 256)) ∧ F st.env = items.flatMap (itemFrames A) ∧
      Sus st.env 0 = refSus items 0 ∧ LoopRel st (refLoop items 0 none) ∧ st.env.length ≤ psgSize items := by
  have hsh := shape_of_ok A hA items false hok
  have hlen : LenOK A items := by
    intro i t n hm
    have h := hsh i t n hm
    simp only [slideShape, Bool.and_eq_true, beq_iff_eq] at h
    exact h.1.1.1.1
  have hev := evsOk_items A hA items false hok
  have h := applyEvs_spec (items.flatMap (itemEvs A)) {} false inv_init (by intro h; cases h) hev
  have hm := applyEvs_marks (items.flatMap (itemEvs A)) {} false inv_init (by intro h; cases h) hev none
    (Or.inl ⟨rfl, rfl⟩)
  rw [← psgItems_eq] at h hm
  obtain ⟨⟨hb, _⟩, hF⟩ := h
  obtain ⟨hS, hL⟩ := hm
  have hF0 : F ({} : PsgSt).env = [] := rfl
  have hS0 : Sus ({} : PsgSt).env 0 = [] := rfl
  simp only [hF0, hS0, List.nil_append, List.length_nil, evFrames_items, evSus_items A items 0 hlen,
    evLoop_items A items 0 none hlen] at hF hS hL
  refine ⟨hb, hF, hS, hL, ?_⟩
  have h1 := length_le_frames _ 0 hb
  have h2 := size_items A items 0 hlen
  rw [hF, hS] at h1
  omega

/-- the loop position is `-1` or a byte index inside the envelope, hence at most the written size -/
theorem psg_loopPos_le {α} (A : Arith α) (hA : SlideOK A) (items : List PsgItem)
    (hok : itemsOk items false = true) :
    (items.foldl (psgItem A) {}).loopPos ≤ psgSize items := by
  obtain ⟨_, _, _, hL, hsz⟩ := psg_state A hA items hok
  rcases hL with ⟨h1, _⟩ | ⟨k, h1, h2, _⟩
  · rw [h1]; omega
  · rw [h1]; omega

/-- the full PSG clause modulo `SlideOK`, for every envelope whose loop position fits its byte
(what `psgEnd` checks) -/
theorem psg_full_aux {α} (A : Arith α) (hA : SlideOK A) (items : List PsgItem)
    (hok : itemsOk items false = true) (hlp : (items.foldl (psgItem A) {}).loopPos ≤ 255) :
    ∃ e, expandPsg (psgFinish (items.foldl (psgItem A) {})) = some e ∧
      e.frames = items.flatMap (itemFrames A) ∧
      e.sustains = refSus items 0 ∧ e.loopTo = refLoop items 0 none ∧
      psgMeets items e = true := by
  have hsh := shape_of_ok A hA items false hok
  obtain ⟨hb, hF, hS, hL, _⟩ := psg_state A hA items hok
  generalize items.foldl (psgItem A) {} = st at hb hF hS hL hlp
  have key : ∃ e, expandPsg (psgFinish st) = some e ∧ e.frames = items.flatMap (itemFrames A) ∧
      e.sustains = refSus items 0 ∧ e.loopTo = refLoop items 0 none := by
    unfold psgFinish expandPsg
    rcases hL with ⟨h1, h2⟩ | ⟨k, h1, h2, h3⟩
    · have : (st.loopPos == -1) = true := by simp [h1]
      simp only [this, if_true]
      obtain ⟨e', g1, g2, g3, g4, _⟩ := expand_full (st.env ++ [0]) st.env [0] {} hb (Or.inl rfl)
      exact ⟨e', g1, by rw [g2, hF]; rfl, by rw [g3]; simpa using hS, by rw [g4 rfl, h2]⟩
    · have : (st.loopPos == -1) = false := by simp [h1]
      simp only [this]
      have hk : u8 st.loopPos = k := by rw [h1]; exact u8_small k (by omega)
      rw [hk]
      obtain ⟨e', g1, g2, g3, _, g5⟩ := expand_full (st.env ++ [2, k]) st.env [2, k] {} hb (Or.inr ⟨_, rfl⟩)
      refine ⟨e', by simpa using g1, by rw [g2, hF]; rfl, by rw [g3]; simpa using hS, ?_⟩
      rw [g5 k rfl, framesBefore_eq, List.take_append_of_le_length h2, ← h3]
  obtain ⟨e, k1, k2, k3, k4⟩ := key
  refine ⟨e, k1, k2, k3, k4, ?_⟩
  unfold psgMeets
  rw [k2]
  exact checkPsg_ok A items 0 [] none e hsh (by simpa using k3) k4

theorem psg_loop_max_eq : ((Tables.mdsdrv_psg_loop_max : Nat) : Int) = 255 := rfl

/-- `psgEnd` accepts exactly the states whose loop position fits the byte, and then emits `psgFinish` -/
theorem psgEnd_ok (id : Nat) (st : PsgSt) (bytes : NBytes) :
    psgEnd id st = .ok bytes ↔ st.loopPos ≤ 255 ∧ bytes = psgFinish st := by
  unfold psgEnd
  have hv := psg_loop_max_eq
  by_cases h : st.loopPos > (Tables.mdsdrv_psg_loop_max : Int)
  · rw [if_pos h]
    constructor
    · intro h'; cases h'
    · intro h'; omega
  · rw [if_neg h]
    constructor
    · intro h'; cases h'; exact ⟨by omega, rfl⟩
    · intro h'; rw [h'.2]

theorem psgEnd_error (id : Nat) (st : PsgSt) (e : Err) (h : psgEnd id st = .error e) :
    255 < st.loopPos ∧ ∃ msg, e = .input msg := by
  unfold psgEnd at h
  have hv := psg_loop_max_eq
  by_cases h' : st.loopPos > (Tables.mdsdrv_psg_loop_max : Int)
  · rw [if_pos h'] at h
    cases h
    exact ⟨by omega, _, rfl⟩
  · rw [if_neg h'] at h
    cases h

end Ctrmml.MdsData
