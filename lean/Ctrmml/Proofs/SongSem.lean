/-
  C02 helper: from the writer's event list to the codec fragment and to the timeline.
  For a well-formed forest of the plain fragment, an event list that `WFold.Emits` relates to its
  events is the flat form of a `Codec.Node` bracket structure (leaves in the linear fragment, calls
  annotated with what the callee plays, further break markers behind the first one), and the
  expansion of that structure is — after the masking `Timeline.maskTk` — the tick string of the
  forest's performance (`Expand.expL`), up to the rest that is still pending.
-/
import Ctrmml.Proofs.WriterFold
import Ctrmml.Proofs.CodecTrack
import Ctrmml.Spec.Timeline
namespace Ctrmml.SongSem
open Ctrmml Ctrmml.Player Ctrmml.Mds Ctrmml.WTrace Ctrmml.WFold Ctrmml.Expand Ctrmml.Tree Ctrmml.Codec Ctrmml.Seq Tables

/-! ### leaves -/

def mk (l : List Tk) : List Tk := l.map Timeline.maskTk

theorem mk_append (a b : List Tk) : mk (a ++ b) = mk a ++ mk b := by simp [mk]
theorem mk_nil : mk [] = [] := rfl
theorem mk_off (n : Nat) : mk (List.replicate n Tk.off) = List.replicate n Tk.off := by
  simp [mk, Timeline.maskTk]
theorem mk_hold (n : Nat) : mk (List.replicate n Tk.hold) = List.replicate n Tk.hold := by
  simp [mk, Timeline.maskTk]

theorem mk_repeatL (k : Nat) (l : List Tk) : mk (repeatL k l) = repeatL k (mk l) := by
  induction k with
  | zero => rfl
  | succ k ih => simp [repeatL, mk_append, ih]

def evNodes (l : List MEv) : List Codec.Node := l.map Codec.Node.ev

theorem flatL_evNodes (l : List MEv) : flatL (evNodes l) = l := by
  induction l with
  | nil => rfl
  | cons x l ih => simp [evNodes, flatL, Codec.Node.flat] at ih ⊢; exact ih

/-- events that fit mode `M` (and do not change it) -/
theorem mokL_evNodes (M : Mode) (top : Bool) (l : List MEv) (h : ∀ x ∈ l, M.evOk x = true) : mokL M top (evNodes l) = true := by
  induction l with
  | nil => rfl
  | cons x l ih =>
    have hx := h x (by simp)
    simp only [evNodes, List.map_cons, mokL, Codec.Node.mok, Codec.Node.after, Mode.after_of_evOk hx, hx, Bool.true_or,
      Bool.true_and]
    exact ih (fun y hy => h y (by simp [hy]))

theorem afterL_evNodes (M : Mode) (l : List MEv) (h : ∀ x ∈ l, M.evOk x = true) : afterL M (evNodes l) = M :=
  afterL_of_mok (mokL_evNodes M false l h)

theorem expL_evNodes (M : Mode) (nS nM : Nat) (l : List MEv) (h : ∀ x ∈ l, M.evOk x = true) :
    Codec.expL M nS nM (evNodes l) = ticks M nS nM l := by
  induction l with
  | nil => rfl
  | cons x l ih =>
    have hx := h x (by simp)
    have := ih (fun y hy => h y (by simp [hy]))
    simp only [evNodes, List.map_cons, Codec.expL, Codec.Node.exp, Codec.Node.after, Mode.after_of_evOk hx, ticks_cons]
    rw [← this]; rfl

theorem linL_evNodes (l : List MEv) (h : ∀ x ∈ l, linEv x = true) : linL (evNodes l) = true := by
  induction l with
  | nil => rfl
  | cons x l ih =>
    simp only [evNodes, List.map_cons, linL, Codec.Node.lin, Bool.and_eq_true]
    exact ⟨h x (by simp), ih (fun y hy => h y (by simp [hy]))⟩

theorem brkOkL_evNodes (top : Bool) (l : List MEv) : brkOkL top (evNodes l) = true := by
  induction l with
  | nil => rfl
  | cons x l ih => simp only [evNodes, List.map_cons, brkOkL, Codec.Node.brkOk, Bool.true_and]; exact ih

theorem callsOkL_evNodes (M : Mode) (seq : List Nat) (base mj : Nat) (l : List MEv) : callsOkL M seq base mj (evNodes l) := by
  induction l generalizing M with
  | nil => simp [evNodes, callsOkL]
  | cons x l ih => simp only [evNodes, List.map_cons, callsOkL, Codec.Node.callsOk, true_and]; exact ih _

/-! ### append lemmas for the node predicates -/

theorem flatL_append (a b : List Codec.Node) : flatL (a ++ b) = flatL a ++ flatL b := by
  induction a with
  | nil => rfl
  | cons x a ih => simp [flatL, ih]

theorem afterL_append (M : Mode) (a b : List Codec.Node) : afterL M (a ++ b) = afterL (afterL M a) b := by
  induction a generalizing M with
  | nil => rfl
  | cons x a ih => simp [afterL, ih]

theorem expL_append (M : Mode) (nS nM : Nat) (a b : List Codec.Node) :
    Codec.expL M nS nM (a ++ b) = Codec.expL M nS nM a ++ Codec.expL (afterL M a) nS nM b := by
  induction a generalizing M with
  | nil => rfl
  | cons x a ih => simp [Codec.expL, afterL, ih]

theorem mokL_append (M : Mode) (top : Bool) (a b : List Codec.Node) :
    mokL M top (a ++ b) = (mokL M top a && mokL (afterL M a) top b) := by
  induction a generalizing M with
  | nil => rfl
  | cons x a ih => simp [mokL, afterL, ih, Bool.and_assoc]

theorem linL_append (a b : List Codec.Node) : linL (a ++ b) = (linL a && linL b) := by
  induction a with
  | nil => rfl
  | cons x a ih => simp [linL, ih, Bool.and_assoc]

theorem brkOkL_append (top : Bool) (a b : List Codec.Node) : brkOkL top (a ++ b) = (brkOkL top a && brkOkL top b) := by
  induction a with
  | nil => rfl
  | cons x a ih => simp [brkOkL, ih, Bool.and_assoc]

theorem callsOkL_append {M : Mode} {seq : List Nat} {base mj : Nat} {a b : List Codec.Node}
    (ha : callsOkL M seq base mj a) (hb : callsOkL (afterL M a) seq base mj b) : callsOkL M seq base mj (a ++ b) := by
  induction a generalizing M with
  | nil => exact hb
  | cons x a ih => simp only [List.cons_append, callsOkL, afterL] at ha hb ⊢; exact ⟨ha.1, ih ha.2 hb⟩

mutual
theorem brkOk_mono : ∀ (t : Codec.Node), t.brkOk false = true → t.brkOk true = true
  | .ev _, _ => rfl
  | .xbrk, h => by simp [Codec.Node.brkOk] at h
  | .call _ _, _ => rfl
  | .loop _ _, h => by simpa [Codec.Node.brkOk] using h
  | .loopB _ _ _, h => by simpa [Codec.Node.brkOk] using h
theorem brkOkL_mono : ∀ (ts : List Codec.Node), brkOkL false ts = true → brkOkL true ts = true
  | [], _ => rfl
  | t :: ts, h => by
    simp only [brkOkL, Bool.and_eq_true] at h ⊢
    exact ⟨brkOk_mono t h.1, brkOkL_mono ts h.2⟩
end

/-! ### the pending rest -/

theorem ticks_flushL (M : Mode) (nS nM r : Nat) : ticks M nS nM (flushL r) = List.replicate r Tk.off := by
  unfold flushL
  split
  · simp [ticks, evTicks]
  · rename_i h
    have : r = 0 := by simpa using h
    subst this; rfl

theorem lin_flushL (r : Nat) (hr : r < 65536) : ∀ x ∈ flushL r, linEv x = true := by
  intro x hx
  unfold flushL at hx
  split at hx
  · rename_i h
    simp at hx; subst hx
    have h1 : 1 ≤ r := by omega
    have h2 : r ≤ 65535 := by omega
    simp [linEv, h1, h2]
  · simp at hx

theorem evOk_flushL (M : Mode) (r : Nat) : ∀ x ∈ flushL r, M.evOk x = true := by
  intro x hx
  unfold flushL at hx
  split at hx
  · simp at hx; subst hx
    simp [Mode.evOk, mds_REST, mds_TIE, mds_FLG]
  · simp at hx

theorem flushL_zero : flushL 0 = [] := rfl

theorem prepR_other (r : Nat) (e : Event) (hne : e.type ≠ ev_REST) (ho : e.off ≤ 65535) :
    prepR r (tItem e e) = (flushL r, e.off) := by
  unfold prepR prepA prepB
  have h1 : (tItem e e).ev.type ≠ ev_REST := hne
  have h2 : ¬ (0 + (tItem e e).off > 0xffff) := by show ¬ (0 + e.off > 0xffff); omega
  simp only [h1, ne_eq, not_false_eq_true, if_true, h2, if_false, List.append_nil]
  show (flushL r, (0 + e.off) % 65536) = _
  congr 1; omega

theorem prepR_rest_small (r : Nat) (e : Event) (he : e.type = ev_REST) (h : r + e.off ≤ 65535) :
    prepR r (tItem e e) = ([], r + e.off) := by
  unfold prepR prepA prepB
  have h1 : ¬ (tItem e e).ev.type ≠ ev_REST := by show ¬ e.type ≠ ev_REST; simp [he]
  have h2 : ¬ (r + (tItem e e).off > 0xffff) := by show ¬ (r + e.off > 0xffff); omega
  simp only [h1, if_false, h2, List.append_nil]
  show (([] : List MEv), (r + e.off) % 65536) = _
  congr 1; omega

theorem prepR_rest_big (r : Nat) (e : Event) (he : e.type = ev_REST) (h : r + e.off > 65535) (ho : e.off ≤ 65535) :
    prepR r (tItem e e) = (flushL r, e.off) := by
  unfold prepR prepA prepB
  have h1 : ¬ (tItem e e).ev.type ≠ ev_REST := by show ¬ e.type ≠ ev_REST; simp [he]
  have h2 : r + (tItem e e).off > 0xffff := by show r + e.off > 0xffff; omega
  simp only [h1, if_false, h2, if_true, List.nil_append]
  show (flushL r, (0 + e.off) % 65536) = _
  congr 1; omega

/-! ### the timeline of a performance without drum mode -/

/-- on/off times as the MML front end sets them: 16 bits; only notes and ties have an on time,
only notes, ties and rests an off time; a sounding note has at least one key-on tick -/
def Timed (e : Event) : Prop :=
  e.on ≤ 65535 ∧ e.off ≤ 65535 ∧ (e.type ≠ ev_NOTE → e.type ≠ ev_TIE → e.on = 0) ∧
  (e.type ≠ ev_NOTE → e.type ≠ ev_TIE → e.type ≠ ev_REST → e.off = 0) ∧ (e.type = ev_NOTE → 1 ≤ e.on)

/-- the head of the drum routine a note in drum mode names (`Timeline.ticksOf`) -/
def rhead (song : Song) (pf : Timeline.Platform) (p : Int) : Option (List Tk × Int) :=
  match callK song limit 1 (trackIdOfParam p) with
  | .ok ritems => Timeline.routineHead pf ritems
  | .error _ => none

/-- ticks of one item in drum-mode state `dm`; `R` = the routine heads -/
def itTicks (R : Int → Option (List Tk × Int)) (pf : Timeline.Platform) (dm : Bool) (i : Item) : List Tk :=
  if i.ev.type = ev_NOTE then
    (if dm = true then
      (match R i.ev.param with
       | some (c, n) => c ++ Timeline.noteTicks n i.src.on i.src.off
       | none => [])
     else Timeline.noteTicks i.ev.param i.src.on i.src.off)
  else if i.ev.type = ev_TIE then List.replicate i.src.on Tk.hold ++ List.replicate i.src.off Tk.off
  else if i.ev.type = ev_REST then List.replicate (i.src.on + i.src.off) Tk.off
  else if i.ev.type = ev_DRUM_MODE then Timeline.cmdOf pf i.ev
  else Timeline.cmdOf pf i.ev ++ List.replicate (i.src.on + i.src.off) Tk.off

/-- ticks of a list of items in one drum-mode state -/
def itemsTicks (R : Int → Option (List Tk × Int)) (pf : Timeline.Platform) (dm : Bool) (items : List Item) : List Tk :=
  items.flatMap (itTicks R pf dm)

/-- ticks of a list of items, the drum-mode switches among them followed -/
def ticksT (R : Int → Option (List Tk × Int)) (pf : Timeline.Platform) : Bool → List Item → List Tk
  | _, [] => []
  | dm, i :: is => itTicks R pf dm i ++ ticksT R pf (if i.ev.type = ev_DRUM_MODE then decide (i.ev.param ≠ 0) else dm) is

theorem itemsTicks_append (R : Int → Option (List Tk × Int)) (pf : Timeline.Platform) (dm : Bool) (a b : List Item) :
    itemsTicks R pf dm (a ++ b) = itemsTicks R pf dm a ++ itemsTicks R pf dm b := by simp [itemsTicks]

theorem itemsTicks_cons (R : Int → Option (List Tk × Int)) (pf : Timeline.Platform) (dm : Bool) (a : Item) (b : List Item) :
    itemsTicks R pf dm (a :: b) = itTicks R pf dm a ++ itemsTicks R pf dm b := by simp [itemsTicks]

theorem drumAt_const : ∀ (l : List Item), (∀ i ∈ l, i.ev.type ≠ ev_DRUM_MODE) → ∀ d, Timeline.drumAt d l = d
  | [], _, _ => rfl
  | i :: is, h, d => by
    simp [Timeline.drumAt, h i (by simp), drumAt_const is (fun j hj => h j (by simp [hj]))]

theorem drumAt_append (d : Bool) (a b : List Item) : Timeline.drumAt d (a ++ b) = Timeline.drumAt (Timeline.drumAt d a) b := by
  induction a generalizing d with
  | nil => rfl
  | cons x a ih => simp [Timeline.drumAt, ih]

theorem ticksT_append (R : Int → Option (List Tk × Int)) (pf : Timeline.Platform) (dm : Bool) (a b : List Item) :
    ticksT R pf dm (a ++ b) = ticksT R pf dm a ++ ticksT R pf (Timeline.drumAt dm a) b := by
  induction a generalizing dm with
  | nil => rfl
  | cons x a ih => simp [ticksT, Timeline.drumAt, ih]

theorem ticksT_const (R : Int → Option (List Tk × Int)) (pf : Timeline.Platform) : ∀ (l : List Item) (dm : Bool),
    (∀ i ∈ l, i.ev.type ≠ ev_DRUM_MODE) → ticksT R pf dm l = itemsTicks R pf dm l
  | [], _, _ => rfl
  | i :: is, dm, h => by
    simp [ticksT, itemsTicks_cons, h i (by simp), ticksT_const R pf is dm (fun j hj => h j (by simp [hj]))]

/-- `Timeline.ticksOf`, where it is defined -/
theorem ticksOf_eq (song : Song) (pf : Timeline.Platform) : ∀ (items : List Item) (dm : Bool) (t : List Tk),
    Timeline.ticksOf song pf dm items = .ok t → t = ticksT (rhead song pf) pf dm items
  | [], _, t, h => by
    simp only [Timeline.ticksOf, Except.ok.injEq] at h
    subst h; rfl
  | i :: is, dm, t, h => by
    unfold Timeline.ticksOf at h
    simp only at h
    -- the tail, in whatever state
    have tail : ∀ (tk : List Tk) (d' : Bool),
        (match Timeline.ticksOf song pf d' is with
          | .error x => (.error x : Except SErr (List Tk))
          | .ok rest => .ok (tk ++ rest)) = .ok t → t = tk ++ ticksT (rhead song pf) pf d' is := by
      intro tk d' h'
      cases hr : Timeline.ticksOf song pf d' is with
      | error x => rw [hr] at h'; cases h'
      | ok rest =>
        rw [hr] at h'
        simp only [Except.ok.injEq] at h'
        rw [← h', ticksOf_eq song pf is d' rest hr]
    by_cases t1 : i.ev.type = ev_NOTE
    · have nd : ¬ i.ev.type = ev_DRUM_MODE := by rw [t1]; decide
      rw [if_pos t1] at h
      cases dm with
      | false =>
        rw [if_neg (by decide)] at h
        have := tail _ _ h
        rw [this]
        simp only [ticksT, itTicks, if_pos t1, if_neg nd, Bool.false_eq_true, if_false]
      | true =>
        rw [if_pos rfl] at h
        cases hc : callK song limit 1 (trackIdOfParam i.ev.param) with
        | error x => rw [hc] at h; cases h
        | ok ritems =>
          rw [hc] at h
          simp only at h
          cases hh : Timeline.routineHead pf ritems with
          | none => rw [hh] at h; cases h
          | some p =>
            obtain ⟨cmds, n⟩ := p
            rw [hh] at h
            have := tail _ _ h
            rw [this]
            have hR : rhead song pf i.ev.param = some (cmds, n) := by simp [rhead, hc, hh]
            simp only [ticksT, itTicks, if_pos t1, if_neg nd, if_true, hR]
    · rw [if_neg t1] at h
      by_cases t2 : i.ev.type = ev_TIE
      · have nd : ¬ i.ev.type = ev_DRUM_MODE := by rw [t2]; decide
        rw [if_pos t2] at h
        have := tail _ _ h
        rw [this]
        simp only [ticksT, itTicks, if_neg t1, if_pos t2, if_neg nd]
      · rw [if_neg t2] at h
        by_cases t3 : i.ev.type = ev_REST
        · have nd : ¬ i.ev.type = ev_DRUM_MODE := by rw [t3]; decide
          rw [if_pos t3] at h
          have := tail _ _ h
          rw [this]
          simp only [ticksT, itTicks, if_neg t1, if_neg t2, if_pos t3, if_neg nd]
        · rw [if_neg t3] at h
          by_cases t4 : i.ev.type = ev_DRUM_MODE
          · rw [if_pos t4] at h
            have := tail _ _ h
            rw [this]
            simp only [ticksT, itTicks, if_neg t1, if_neg t2, if_neg t3, if_pos t4]
          · rw [if_neg t4] at h
            have := tail _ _ h
            rw [this]
            simp only [ticksT, itTicks, if_neg t1, if_neg t2, if_neg t3, if_neg t4]

/-- the drum notes of a list of items (switches followed) name routines with a head -/
def DefT (R : Int → Option (List Tk × Int)) : Bool → List Item → Prop
  | _, [] => True
  | dm, i :: is =>
    (i.ev.type = ev_NOTE → dm = true → (R i.ev.param).isSome = true) ∧
      DefT R (if i.ev.type = ev_DRUM_MODE then decide (i.ev.param ≠ 0) else dm) is

theorem defT_append (R : Int → Option (List Tk × Int)) (dm : Bool) (a b : List Item) :
    DefT R dm (a ++ b) ↔ DefT R dm a ∧ DefT R (Timeline.drumAt dm a) b := by
  induction a generalizing dm with
  | nil => simp [DefT, Timeline.drumAt]
  | cons x a ih => simp [DefT, Timeline.drumAt, ih, and_assoc]

/-- where `Timeline.ticksOf` is defined, every drum note has its routine head -/
theorem ticksOf_def (song : Song) (pf : Timeline.Platform) : ∀ (items : List Item) (dm : Bool) (t : List Tk),
    Timeline.ticksOf song pf dm items = .ok t → DefT (rhead song pf) dm items
  | [], _, _, _ => trivial
  | i :: is, dm, t, h => by
    unfold Timeline.ticksOf at h
    simp only at h
    have tail : ∀ (tk : List Tk) (d' : Bool),
        (match Timeline.ticksOf song pf d' is with
          | .error x => (.error x : Except SErr (List Tk))
          | .ok rest => .ok (tk ++ rest)) = .ok t → DefT (rhead song pf) d' is := by
      intro tk d' h'
      cases hr : Timeline.ticksOf song pf d' is with
      | error x => rw [hr] at h'; cases h'
      | ok rest => exact ticksOf_def song pf is d' rest hr
    by_cases t1 : i.ev.type = ev_NOTE
    · have nd : ¬ i.ev.type = ev_DRUM_MODE := by rw [t1]; decide
      rw [if_pos t1] at h
      cases dm with
      | false =>
        rw [if_neg (by decide)] at h
        have := tail _ _ h
        refine ⟨fun _ hh => (by cases hh), ?_⟩
        rw [if_neg nd]; exact this
      | true =>
        rw [if_pos rfl] at h
        cases hc : callK song limit 1 (trackIdOfParam i.ev.param) with
        | error x => rw [hc] at h; cases h
        | ok ritems =>
          rw [hc] at h
          simp only at h
          cases hh : Timeline.routineHead pf ritems with
          | none => rw [hh] at h; cases h
          | some p =>
            obtain ⟨cmds, n⟩ := p
            rw [hh] at h
            have := tail _ _ h
            have hR : rhead song pf i.ev.param = some (cmds, n) := by simp [rhead, hc, hh]
            refine ⟨fun _ _ => (by rw [hR]; rfl), ?_⟩
            rw [if_neg nd]; exact this
    · rw [if_neg t1] at h
      refine ⟨fun hh => absurd hh t1, ?_⟩
      by_cases t2 : i.ev.type = ev_TIE
      · have nd : ¬ i.ev.type = ev_DRUM_MODE := by rw [t2]; decide
        rw [if_pos t2] at h
        rw [if_neg nd]; exact tail _ _ h
      · rw [if_neg t2] at h
        by_cases t3 : i.ev.type = ev_REST
        · have nd : ¬ i.ev.type = ev_DRUM_MODE := by rw [t3]; decide
          rw [if_pos t3] at h
          rw [if_neg nd]; exact tail _ _ h
        · rw [if_neg t3] at h
          by_cases t4 : i.ev.type = ev_DRUM_MODE
          · rw [if_pos t4] at h
            rw [if_pos t4]; exact tail _ _ h
          · rw [if_neg t4] at h
            rw [if_neg t4]; exact tail _ _ h

/-! ### one event -/

theorem u16_lo (p : Int) : Mds.u16 p % 256 = Timeline.lo p := by unfold Mds.u16 Timeline.lo; omega
theorem u16_nat' (n : Nat) : Mds.u16 (n : Int) = n % 65536 := by unfold Mds.u16; omega
theorem u16_eq (p : Int) : Mds.u16 p = Timeline.u16 p := rfl
theorem u16_cast_mod (n : Nat) : Mds.u16 (n : Int) % 256 = n % 256 := by
  rw [u16_nat']; omega
theorem bpm_eq (n : Nat) : bpmToDelta n = Timeline.bpmDelta n := by
  unfold bpmToDelta Timeline.bpmDelta
  simp only
  split <;> rfl
theorem bpm_lt (n : Nat) : Timeline.bpmDelta n < 256 := by
  unfold Timeline.bpmDelta; simp only; omega

theorem kind_other_types {e : Event} (hk : e.kind = .other) :
    e.type ≠ ev_LOOP_START ∧ e.type ≠ ev_LOOP_BREAK ∧ e.type ≠ ev_LOOP_END ∧ e.type ≠ ev_SEGNO ∧ e.type ≠ ev_JUMP := by
  unfold Event.kind kindOfType at hk
  refine ⟨?_, ?_, ?_, ?_, ?_⟩ <;> intro t <;> simp +decide [t] at hk

set_option hygiene false in
/-- a command branch: `fact` rewrites the operand the codec writes into the one `Timeline.cmdOf` names -/
macro "cmd_case" fact:term : tactic => `(tactic| (
  rw [if_pos t] at h
  simp only [Option.some.injEq] at h
  subst h
  have hon : e.on = 0 := ht.2.2.1 (by rw [t]; decide) (by rw [t]; decide)
  have hoff : e.off = 0 := ht.2.2.2.1 (by rw [t]; decide) (by rw [t]; decide) (by rw [t]; decide)
  refine ⟨fun x hx => by simp at hx; subst hx; rfl,
    fun x hx => by simp at hx; subst hx; simp +decide [Mode.evOk], ?_⟩
  have hf := $fact
  simp +decide [itTicks, item, Timeline.cmdOf, t, hon, hoff, mk, ticks, evTicks, isCmdOp, cmdArg, byteArgOps, wordArgOps,
    Timeline.maskTk, hf]))

/-- what is known about the drum routines (`rt` = what the routine streams of the chunk play, `R` =
the routine heads of the timeline): a note in drum mode that was given routine index `q` names a
routine whose stream plays, up to masking, the head of the routine track, and ends with its note -/
def DrumH (rt : Nat → Option (List Tk × Nat)) (R : Int → Option (List Tk × Int)) (m : List (Int × Nat)) : Prop :=
  ∀ (e : Event) (k q : Nat), e.type = ev_NOTE → (subKey e.param true false, k) ∈ m →
    (q : Int) = (if wrap16 (k : Int) < 0 then 0 else wrap16 (k : Int)) → q < 94 →
    ∃ C n, rt q = some (C, n) ∧ R e.param = some (mk C, (n : Int))

/-- the platform commands of the converter (`pl`: id ↦ the events `parse_platform_event` made) and of
the timeline (`pf`: id ↦ the commands they denote) agree: the events lie in the linear fragment,
fit every mode, and play exactly the commands -/
def PlatOK (nS nM : Nat) (pf : Timeline.Platform) (pl : List (Int × Option (List MEv))) : Prop :=
  ∀ id evs, pl.lookup id = some (some evs) →
    (∀ ev ∈ evs, linEv ev = true) ∧ (∀ (M : Mode), ∀ ev ∈ evs, M.evOk ev = true) ∧
    ∀ M : Mode, mk (ticks M nS nM evs) = ((pf.lookup id).getD []).map (fun p => Tk.cmd p.1 p.2)

/-- the index operands that `convert_track` offsets fit their byte (C09: `index_fits_byte`) -/
def FitsEv (nS nM : Nat) (ev : MEv) : Prop :=
  (ev.type = mds_PAT → ev.arg < 256) ∧ (ev.type = mds_MTAB → ev.arg ≠ 0 → (ev.arg + nS) % 256 = ev.arg + nS) ∧
  (ev.type = mds_PEG → ev.arg ≠ 0 → (nS + nM + ev.arg) % 256 = nS + nM + ev.arg)

/-- the index maps of the context are small (the header of a chunk below 64 KiB holds two bytes per
macro track and per used data entry): every macro index and every envelope index handed out is
below 32768, so `index + 1` is not reduced by the 16-bit event argument -/
def CtxSmall (cx : WCtx) : Prop := (∀ p ∈ cx.mac, p.2 < 32768) ∧ cx.used ≤ 32768

/-- what a leaf event that is not a rest pushes: events of the linear fragment that play the
event's ticks (the off time becomes pending rest) -/
theorem body_sem (M : Mode) (nS nM : Nat) (R : Int → Option (List Tk × Int)) (pf : Timeline.Platform) (cx : WCtx)
    (hD : DrumH M.rt R cx.sub) (hP : PlatOK nS nM pf cx.plat) (hMac : CtxSmall cx) (e : Event) (hs : SimpleEv e)
    (ht : Timed e) (hk : e.kind = .other) (hne : e.type ≠ ev_REST) (hnd : e.type ≠ ev_DRUM_MODE) {b : List MEv}
    (hb : Body cx M.dm (tItem e e) b) (hfb : ∀ ev ∈ b, FitsEv nS nM ev) :
    (∀ x ∈ b, linEv x = true) ∧ (∀ x ∈ b, M.evOk x = true) ∧
      mk (ticks M nS nM b) ++ List.replicate e.off Tk.off = itTicks R pf M.dm (item e) := by
  obtain ⟨k1, k2, k3, k4, k5⟩ := kind_other_types hk
  cases hb with
  | jump t _ => exact absurd t k5
  | @dnote k q t hdm hmem hq hq94 =>
    have t' : e.type = ev_NOTE := t
    obtain ⟨C, n, hrt, hR⟩ := hD e k q t' hmem hq hq94
    have hon1 := ht.2.2.2.2 t'
    have ha : Mds.u16 (e.on : Int) = e.on := by rw [u16_nat']; have := ht.1; omega
    show (∀ x ∈ [(⟨mds_NOTE + q, Mds.u16 (e.on : Int)⟩ : MEv)], _) ∧ _
    rw [ha]
    have h1 : mds_TIE ≤ mds_NOTE + q := by show 129 ≤ 130 + q; omega
    have h2 : mds_NOTE + q < mds_SLR := by show 130 + q < 224; omega
    have h0 : ¬ mds_NOTE + q = mds_REST := by show ¬ 130 + q = 128; omega
    have h5 : mds_NOTE + q - mds_NOTE = q := by show 130 + q - 130 = q; omega
    have h6 : mds_NOTE + q ≥ mds_NOTE := by omega
    refine ⟨fun x hx => ?_, fun x hx => ?_, ?_⟩
    · simp at hx; subst hx
      have := ht.1
      simp [linEv, h1, h2, hon1, this]
    · simp at hx; subst hx
      have hfl : ¬ mds_NOTE + q = mds_FLG := by show ¬ 130 + q = 236; omega
      simp [Mode.evOk, Mode.okTy, hdm, h5, hrt, hfl]
    · have h4 : ¬ e.on = 0 := by omega
      have h7 : ¬ mds_NOTE + n = mds_TIE := by show ¬ 130 + n = 129; omega
      have h8 : mds_NOTE + n - mds_NOTE = n := by show 130 + n - 130 = n; omega
      simp [itTicks, item, t', hdm, hR, mk, ticks, evTicks, h0, h1, h2, Mode.nt, h6, h5, hrt, Codec.noteTicks, h7, h8,
        Timeline.noteTicks, h4, Timeline.maskTk]
  | plat t hl =>
    have t' : e.type = ev_PLATFORM := t
    have hon : e.on = 0 := ht.2.2.1 (by rw [t']; decide) (by rw [t']; decide)
    have hoff : e.off = 0 := ht.2.2.2.1 (by rw [t']; decide) (by rw [t']; decide) (by rw [t']; decide)
    obtain ⟨h1, h2, h3⟩ := hP e.param b hl
    refine ⟨h1, h2 M, ?_⟩
    rw [h3 M]
    simp +decide [itTicks, item, Timeline.cmdOf, t', hon, hoff]
  | @mtab k t hp hmem =>
    have t' : e.type = ev_PAN_ENVELOPE := t
    have hp' : e.param ≠ 0 := hp
    have hon : e.on = 0 := ht.2.2.1 (by rw [t']; decide) (by rw [t']; decide)
    have hoff : e.off = 0 := ht.2.2.2.1 (by rw [t']; decide) (by rw [t']; decide) (by rw [t']; decide)
    have hk32 : k < 32768 := hMac.1 _ hmem
    have ha : Mds.u16 (Mds.wrap16 ((k : Int) + 1)) = k + 1 := by simp only [Mds.u16, Mds.wrap16]; omega
    have harg : (k + 1 : Nat) ≠ 0 := Nat.succ_ne_zero k
    have hfit : (k + 1 + nS) % 256 = k + 1 + nS := by
      have := (hfb ⟨mds_MTAB, Mds.u16 (Mds.wrap16 ((k : Int) + 1))⟩ (by simp)).2.1 rfl
      rw [ha] at this
      exact this harg
    rw [ha]
    refine ⟨fun x hx => by simp at hx; subst hx; rfl,
      fun x hx => by simp at hx; subst hx; simp +decide [Mode.evOk], ?_⟩
    have hne0 : ¬ (k + 1 + nS) % 256 = 0 := by
      rw [hfit]; exact Nat.ne_of_gt (Nat.lt_of_lt_of_le (Nat.succ_pos k) (Nat.le_add_right _ _))
    have hk1 : ¬ k + 1 = 0 := by omega
    simp +decide [itTicks, item, Timeline.cmdOf, t', hp', hon, hoff, mk, ticks, evTicks, isCmdOp, cmdArg, Timeline.maskTk,
      hk1, hne0]
  | @peg i t hp hlt =>
    have t' : e.type = ev_PITCH_ENVELOPE := t
    have hp' : e.param ≠ 0 := hp
    have hon : e.on = 0 := ht.2.2.1 (by rw [t']; decide) (by rw [t']; decide)
    have hoff : e.off = 0 := ht.2.2.2.1 (by rw [t']; decide) (by rw [t']; decide) (by rw [t']; decide)
    have hi32 : i < 32768 := Nat.lt_of_lt_of_le hlt hMac.2
    have ha : Mds.u16 (Mds.wrap16 ((i : Int) + 1)) = i + 1 := by simp only [Mds.u16, Mds.wrap16]; omega
    have harg : (i + 1 : Nat) ≠ 0 := Nat.succ_ne_zero i
    have hfit : (nS + nM + (i + 1)) % 256 = nS + nM + (i + 1) := by
      have := (hfb ⟨mds_PEG, Mds.u16 (Mds.wrap16 ((i : Int) + 1))⟩ (by simp)).2.2 rfl
      rw [ha] at this
      exact this harg
    rw [ha]
    refine ⟨fun x hx => by simp at hx; subst hx; rfl,
      fun x hx => by simp at hx; subst hx; simp +decide [Mode.evOk], ?_⟩
    have hne0 : ¬ (nS + nM + (i + 1)) % 256 = 0 := by rw [hfit]; omega
    have hi1 : ¬ i + 1 = 0 := by omega
    simp +decide [itTicks, item, Timeline.cmdOf, t', hp', hon, hoff, mk, ticks, evTicks, isCmdOp, cmdArg, Timeline.maskTk,
      hi1, hne0]
  | @ins ty i t hty =>
    have t' : e.type = ev_INS := t
    have hon : e.on = 0 := ht.2.2.1 (by rw [t']; decide) (by rw [t']; decide)
    have hoff : e.off = 0 := ht.2.2.2.1 (by rw [t']; decide) (by rw [t']; decide) (by rw [t']; decide)
    rcases hty with rfl | rfl
    · refine ⟨fun x hx => by simp at hx; subst hx; rfl, fun x hx => by simp at hx; subst hx; simp +decide [Mode.evOk], ?_⟩
      simp +decide [itTicks, item, Timeline.cmdOf, t', hon, hoff, mk, ticks, evTicks, isCmdOp, cmdArg, Timeline.maskTk]
    · refine ⟨fun x hx => by simp at hx; subst hx; rfl, fun x hx => by simp at hx; subst hx; simp +decide [Mode.evOk], ?_⟩
      simp +decide [itTicks, item, Timeline.cmdOf, t', hon, hoff, mk, ticks, evTicks, isCmdOp, cmdArg, Timeline.maskTk]
  | @det b h =>
    unfold detBody at h
    simp only [tItem] at h
    by_cases t : e.type = ev_TIE
    · rw [if_pos t] at h
      simp only [Option.some.injEq] at h
      subst h
      have ha : Mds.u16 (e.on : Int) = e.on := by rw [u16_nat']; have := ht.1; omega
      rw [ha]
      refine ⟨fun x hx => ?_, fun x hx => ?_, ?_⟩
      · simp at hx; subst hx
        have := ht.1
        by_cases h0 : e.on = 0
        · simp +decide [linEv, h0]
        · have h1 : 1 ≤ e.on := by omega
          simp +decide [linEv, h1, this]
      · simp at hx; subst hx
        simp +decide [Mode.evOk, Mode.okTy_tie]
      · simp +decide [itTicks, item, t, mk, ticks, evTicks, Mode.nt_tie, Codec.noteTicks, Timeline.maskTk]
    rw [if_neg t] at h
    by_cases t2 : e.type = ev_NOTE
    · rw [if_pos t2] at h
      by_cases hdm : M.dm = true
      · rw [if_pos hdm] at h; cases h
      rw [if_neg hdm, if_pos (hs t2)] at h
      have hdm' : M.dm = false := by simpa using hdm
      simp only [Option.some.injEq] at h
      subst h
      obtain ⟨p0, p1⟩ := hs t2
      have hon1 := ht.2.2.2.2 t2
      have ha : Mds.u16 (e.on : Int) = e.on := by rw [u16_nat']; have := ht.1; omega
      rw [ha]
      obtain ⟨q, hq⟩ : ∃ q : Nat, q = e.param.toNat := ⟨_, rfl⟩
      have hq94 : q < 94 := by omega
      rw [← hq]
      refine ⟨fun x hx => ?_, fun x hx => ?_, ?_⟩
      · simp at hx; subst hx
        have h1 : mds_TIE ≤ mds_NOTE + q := by show 129 ≤ 130 + q; omega
        have h2 : mds_NOTE + q < mds_SLR := by show 130 + q < 224; omega
        have := ht.1
        simp [linEv, h1, h2, hon1, this]
      · simp at hx; subst hx
        have hfl : ¬ mds_NOTE + q = mds_FLG := by show ¬ 130 + q = 236; omega
        simp [Mode.evOk, Mode.okTy, hdm', hfl]
      · have h0 : ¬ mds_NOTE + q = mds_REST := by show ¬ 130 + q = 128; omega
        have h1 : mds_TIE ≤ mds_NOTE + q ∧ mds_NOTE + q < mds_SLR := by
          constructor
          · show 129 ≤ 130 + q; omega
          · show 130 + q < 224; omega
        have h3 : ¬ mds_NOTE + q = mds_TIE := by show ¬ 130 + q = 129; omega
        have h4 : ¬ e.on = 0 := by omega
        have h5 : mds_NOTE + q - mds_NOTE = q := by show 130 + q - 130 = q; omega
        simp [itTicks, item, t2, hdm', mk, ticks, evTicks, h0, h1, Mode.nt, Codec.noteTicks, h3, Timeline.noteTicks, h4, h5,
          ← hq, Timeline.maskTk]
    rw [if_neg t2, if_neg k1, if_neg k2, if_neg k3, if_neg k4, if_neg k5] at h
    by_cases t : e.type = ev_SLUR
    · cmd_case trivial
    rw [if_neg t] at h
    have n3 := t; clear t
    by_cases t : e.type = ev_PLATFORM
    · rw [if_pos t] at h; cases h
    rw [if_neg t] at h
    have nP := t; clear t
    by_cases t : e.type = ev_TRANSPOSE_REL
    · cmd_case (u16_lo e.param)
    rw [if_neg t] at h
    have n4 := t; clear t
    by_cases t : e.type = ev_VOL
    · cmd_case (show Mds.u16 (↑(Mds.u16 e.param ||| 128)) % 256 = (Timeline.u16 e.param ||| 128) % 256 from
        u16_cast_mod _)
    rw [if_neg t] at h
    have n5 := t; clear t
    by_cases t : e.type = ev_VOL_REL ∨ e.type = ev_VOL_FINE_REL
    · rw [if_pos t] at h
      simp only [Option.some.injEq] at h
      subst h
      have hnn : e.type ≠ ev_NOTE ∧ e.type ≠ ev_TIE ∧ e.type ≠ ev_REST := by
        rcases t with t | t <;> (rw [t]; decide)
      have hon : e.on = 0 := ht.2.2.1 hnn.1 hnn.2.1
      have hoff : e.off = 0 := ht.2.2.2.1 hnn.1 hnn.2.1 hnn.2.2
      refine ⟨fun x hx => by simp at hx; subst hx; rfl,
        fun x hx => by simp at hx; subst hx; simp +decide [Mode.evOk], ?_⟩
      have hf := u16_lo e.param
      rcases t with t | t <;>
        simp +decide [itTicks, item, Timeline.cmdOf, t, hon, hoff, mk, ticks, evTicks, isCmdOp, cmdArg, byteArgOps,
          wordArgOps, Timeline.maskTk, hf]
    rw [if_neg t] at h
    have n6 := t; clear t
    by_cases t : e.type = ev_TEMPO_BPM
    · cmd_case (show Mds.u16 (↑(bpmToDelta (Mds.u16 e.param))) % 256 = Timeline.bpmDelta (Timeline.u16 e.param) by
        rw [u16_nat', bpm_eq, ← u16_eq]; have := bpm_lt (Mds.u16 e.param); omega)
    rw [if_neg t] at h
    have n7 := t; clear t
    by_cases t : e.type = ev_INS
    · rw [if_pos t] at h; cases h
    rw [if_neg t] at h
    have n8 := t; clear t
    by_cases t : e.type = ev_TRANSPOSE
    · cmd_case (u16_lo e.param)
    rw [if_neg t] at h
    have n9 := t; clear t
    by_cases t : e.type = ev_DETUNE
    · cmd_case (u16_lo e.param)
    rw [if_neg t] at h
    have n10 := t; clear t
    by_cases t : e.type = ev_VOL_FINE
    · cmd_case (show Mds.u16 (↑(Mds.u16 e.param &&& 127)) % 256 = (Timeline.u16 e.param &&& 127) % 256 from
        u16_cast_mod _)
    rw [if_neg t] at h
    have n11 := t; clear t
    by_cases t : e.type = ev_PAN
    · cmd_case (u16_lo (e.param * 64))
    rw [if_neg t] at h
    have n12 := t; clear t
    by_cases t : e.type = ev_PAN_ENVELOPE
    · rw [if_pos t] at h
      have hp : e.param = 0 := by
        by_cases hp : e.param = 0
        · exact hp
        · rw [if_neg hp] at h; cases h
      rw [if_pos hp] at h
      simp only [Option.some.injEq] at h
      subst h
      have hon : e.on = 0 := ht.2.2.1 (by rw [t]; decide) (by rw [t]; decide)
      have hoff : e.off = 0 := ht.2.2.2.1 (by rw [t]; decide) (by rw [t]; decide) (by rw [t]; decide)
      refine ⟨fun x hx => by simp at hx; subst hx; rfl,
        fun x hx => by simp at hx; subst hx; simp +decide [Mode.evOk], ?_⟩
      simp +decide [itTicks, item, Timeline.cmdOf, t, hon, hoff, mk, ticks, evTicks, isCmdOp, cmdArg, byteArgOps, wordArgOps,
        Timeline.maskTk, hp]
    rw [if_neg t] at h
    have n13 := t; clear t
    by_cases t : e.type = ev_PITCH_ENVELOPE
    · rw [if_pos t] at h
      have hp : e.param = 0 := by
        by_cases hp : e.param = 0
        · exact hp
        · rw [if_neg hp] at h; cases h
      rw [if_pos hp] at h
      simp only [Option.some.injEq] at h
      subst h
      have hon : e.on = 0 := ht.2.2.1 (by rw [t]; decide) (by rw [t]; decide)
      have hoff : e.off = 0 := ht.2.2.2.1 (by rw [t]; decide) (by rw [t]; decide) (by rw [t]; decide)
      refine ⟨fun x hx => by simp at hx; subst hx; rfl,
        fun x hx => by simp at hx; subst hx; simp +decide [Mode.evOk], ?_⟩
      simp +decide [itTicks, item, Timeline.cmdOf, t, hon, hoff, mk, ticks, evTicks, isCmdOp, cmdArg, byteArgOps, wordArgOps,
        Timeline.maskTk, hp]
    rw [if_neg t] at h
    have n14 := t; clear t
    by_cases t : e.type = ev_PORTAMENTO
    · cmd_case (u16_lo e.param)
    rw [if_neg t, if_neg hnd] at h
    have n15 := t; clear t
    by_cases t : e.type = ev_TEMPO
    · cmd_case (u16_lo e.param)
    rw [if_neg t] at h
    simp only [Option.some.injEq] at h
    subst h
    have hon : e.on = 0 := ht.2.2.1 t2 (by assumption)
    have hoff : e.off = 0 := ht.2.2.2.1 t2 (by assumption) hne
    refine ⟨fun x hx => by simp at hx, fun x hx => by simp at hx, ?_⟩
    have d1 := nP
    have d2 := hnd
    simp [itTicks, item, Timeline.cmdOf, hon, hoff, mk, ticks, *]

theorem body_rest {cx : WCtx} {d : Bool} {e : Event} (t : e.type = ev_REST) {b : List MEv}
    (hb : Body cx d (tItem e e) b) : b = [] := by
  cases hb with
  | jump t' _ => rw [show (tItem e e).ev.type = e.type from rfl, t] at t'; exact absurd t' (by decide)
  | ins t' _ => rw [show (tItem e e).ev.type = e.type from rfl, t] at t'; exact absurd t' (by decide)
  | dnote t' _ _ _ _ => rw [show (tItem e e).ev.type = e.type from rfl, t] at t'; exact absurd t' (by decide)
  | plat t' _ => rw [show (tItem e e).ev.type = e.type from rfl, t] at t'; exact absurd t' (by decide)
  | mtab t' _ _ => rw [show (tItem e e).ev.type = e.type from rfl, t] at t'; exact absurd t' (by decide)
  | peg t' _ _ => rw [show (tItem e e).ev.type = e.type from rfl, t] at t'; exact absurd t' (by decide)
  | det h =>
    unfold detBody at h
    simp +decide [t] at h
    exact h

/-- **one leaf event** (not a call, not a bracket, not the loop point, not a drum-mode switch): what
is flushed and pushed for it lies in the linear fragment, fits the mode, and plays the pending rest
that was flushed and the event's own ticks, up to the rest that is pending afterwards -/
theorem leaf_sem (M : Mode) (nS nM : Nat) (R : Int → Option (List Tk × Int)) (pf : Timeline.Platform)
    (cx : WCtx) (hD : DrumH M.rt R cx.sub) (hP : PlatOK nS nM pf cx.plat) (hMac : CtxSmall cx)
    (e : Event) (hs : SimpleEv e)
    (ht : Timed e) (hk : e.kind = .other) (hnd : e.type ≠ ev_DRUM_MODE) (r : Nat) (hr : r < 65536) {b : List MEv}
    (hb : Body cx M.dm (tItem e e) b) (hfb : ∀ ev ∈ b, FitsEv nS nM ev) :
    (∀ x ∈ (prepR r (tItem e e)).1 ++ b, linEv x = true) ∧ (∀ x ∈ (prepR r (tItem e e)).1 ++ b, M.evOk x = true) ∧
    (prepR r (tItem e e)).2 < 65536 ∧
    List.replicate r Tk.off ++ itTicks R pf M.dm (item e) =
      mk (ticks M nS nM ((prepR r (tItem e e)).1 ++ b)) ++ List.replicate (prepR r (tItem e e)).2 Tk.off := by
  refine ⟨?_, ?_, prepR_lt _ _, ?_⟩
  · by_cases t : e.type = ev_REST
    · rw [body_rest t hb, List.append_nil]
      by_cases hsum : r + e.off ≤ 65535
      · rw [prepR_rest_small r e t hsum]; intro x hx; simp at hx
      · rw [prepR_rest_big r e t (by omega) ht.2.1]; exact lin_flushL r hr
    · rw [prepR_other r e t ht.2.1]
      intro x hx
      rcases List.mem_append.mp hx with h | h
      · exact lin_flushL r hr x h
      · exact (body_sem M nS nM R pf cx hD hP hMac e hs ht hk t hnd hb hfb).1 x h
  · by_cases t : e.type = ev_REST
    · rw [body_rest t hb, List.append_nil]
      by_cases hsum : r + e.off ≤ 65535
      · rw [prepR_rest_small r e t hsum]; intro x hx; simp at hx
      · rw [prepR_rest_big r e t (by omega) ht.2.1]; exact evOk_flushL M r
    · rw [prepR_other r e t ht.2.1]
      intro x hx
      rcases List.mem_append.mp hx with h | h
      · exact evOk_flushL M r x h
      · exact (body_sem M nS nM R pf cx hD hP hMac e hs ht hk t hnd hb hfb).2.1 x h
  · by_cases t : e.type = ev_REST
    · rw [body_rest t hb, List.append_nil]
      have hon : e.on = 0 := ht.2.2.1 (by rw [t]; decide) (by rw [t]; decide)
      have hit : itTicks R pf M.dm (item e) = List.replicate e.off Tk.off := by
        simp +decide [itTicks, item, t, hon]
      rw [hit]
      by_cases hsum : r + e.off ≤ 65535
      · rw [prepR_rest_small r e t hsum]
        simp [mk, ticks, List.replicate_append_replicate]
      · rw [prepR_rest_big r e t (by omega) ht.2.1]
        simp [ticks_flushL, mk_off]
    · rw [prepR_other r e t ht.2.1]
      have := (body_sem M nS nM R pf cx hD hP hMac e hs ht hk t hnd hb hfb).2.2
      rw [ticks_append, mk_append, ticks_flushL, mk_off, List.append_assoc, this]

/-! ### brackets -/

theorem kind_cases' (e : Event) :
    (e.kind = .loopStart ∧ e.type = ev_LOOP_START) ∨ (e.kind = .loopBreak ∧ e.type = ev_LOOP_BREAK) ∨
    (e.kind = .loopEnd ∧ e.type = ev_LOOP_END) ∨ (e.kind = .segno ∧ e.type = ev_SEGNO) ∨
    (e.kind = .jump ∧ e.type = ev_JUMP) ∨ (e.kind = .fin ∧ e.type = ev_END) ∨
    (e.kind = .other ∧ e.type ≠ ev_LOOP_START ∧ e.type ≠ ev_LOOP_BREAK ∧ e.type ≠ ev_LOOP_END ∧
      e.type ≠ ev_SEGNO ∧ e.type ≠ ev_JUMP ∧ e.type ≠ ev_END) := by
  unfold Event.kind kindOfType
  by_cases h1 : e.type = ev_LOOP_START
  · simp [h1]
  by_cases h2 : e.type = ev_LOOP_BREAK
  · simp [h2]; decide
  by_cases h3 : e.type = ev_LOOP_END
  · simp [h3]; decide
  by_cases h4 : e.type = ev_SEGNO
  · simp [h4]; decide
  by_cases h5 : e.type = ev_JUMP
  · simp [h5]; decide
  by_cases h6 : e.type = ev_END
  · simp [h6]; decide
  simp [h1, h2, h3, h4, h5, h6]

theorem kind_loopStart {e : Event} (h : e.kind = .loopStart) : e.type = ev_LOOP_START := by
  rcases kind_cases' e with ⟨hk, ht⟩ | ⟨hk, ht⟩ | ⟨hk, ht⟩ | ⟨hk, ht⟩ | ⟨hk, ht⟩ | ⟨hk, ht⟩ | ⟨hk, ht⟩ <;>
    first | exact ht | (rw [h] at hk; cases hk)

theorem kind_loopBreak {e : Event} (h : e.kind = .loopBreak) : e.type = ev_LOOP_BREAK := by
  rcases kind_cases' e with ⟨hk, ht⟩ | ⟨hk, ht⟩ | ⟨hk, ht⟩ | ⟨hk, ht⟩ | ⟨hk, ht⟩ | ⟨hk, ht⟩ | ⟨hk, ht⟩ <;>
    first | exact ht | (rw [h] at hk; cases hk)

theorem kind_loopEnd {e : Event} (h : e.kind = .loopEnd) : e.type = ev_LOOP_END := by
  rcases kind_cases' e with ⟨hk, ht⟩ | ⟨hk, ht⟩ | ⟨hk, ht⟩ | ⟨hk, ht⟩ | ⟨hk, ht⟩ | ⟨hk, ht⟩ | ⟨hk, ht⟩ <;>
    first | exact ht | (rw [h] at hk; cases hk)

theorem kind_jump {e : Event} (h : e.kind = .jump) : e.type = ev_JUMP := by
  rcases kind_cases' e with ⟨hk, ht⟩ | ⟨hk, ht⟩ | ⟨hk, ht⟩ | ⟨hk, ht⟩ | ⟨hk, ht⟩ | ⟨hk, ht⟩ | ⟨hk, ht⟩ <;>
    first | exact ht | (rw [h] at hk; cases hk)

theorem type_segno_kind {e : Event} (t : e.type = ev_SEGNO) : e.kind = .segno := by
  unfold Event.kind kindOfType; simp +decide [t]

/-! ### `Emits`, taken apart -/

theorem emits_nil {cx : WCtx} {d : Bool} {r r' : Nat} {g g' : Bool} {ms : List MEv} (h : Emits cx d r g [] ms r' g') :
    ms = [] ∧ r' = r ∧ g' = g := by
  cases h; exact ⟨rfl, rfl, rfl⟩

theorem emits_cons {cx : WCtx} {d : Bool} {r r' : Nat} {g g' : Bool} {it : TraceItem} {its : List TraceItem}
    {ms : List MEv} (h : Emits cx d r g (it :: its) ms r' g') :
    ∃ b ms', Body cx d it b ∧ Emits cx (dAfter d it) (prepR r it).2 (g || it.ev.type == ev_SEGNO) its ms' r' g' ∧
      ms = (prepR r it).1 ++ b ++ ms' := by
  cases h with
  | cons hb he => exact ⟨_, _, hb, he, rfl⟩

theorem emits_append {cx : WCtx} : ∀ (a b : List TraceItem) {d : Bool} {r r' : Nat} {g g' : Bool} {ms : List MEv},
    Emits cx d r g (a ++ b) ms r' g' →
    ∃ ms1 r1 g1 ms2, Emits cx d r g a ms1 r1 g1 ∧ Emits cx (dAfterL d a) r1 g1 b ms2 r' g' ∧ ms = ms1 ++ ms2
  | [], b, d, r, r', g, g', ms, h => ⟨[], r, g, ms, .nil d r g, h, rfl⟩
  | it :: a, b, d, r, r', g, g', ms, h => by
    obtain ⟨bd, ms', hb, he, rfl⟩ := emits_cons h
    obtain ⟨ms1, r1, g1, ms2, h1, h2, rfl⟩ := emits_append a b he
    exact ⟨(prepR r it).1 ++ bd ++ ms1, r1, g1, ms2, .cons hb h1, h2, by simp [List.append_assoc]⟩

/-- events that are not drum-mode switches leave the writer's drum-mode state alone -/
theorem dAfterL_const (d : Bool) : ∀ (l : List Event), (∀ e ∈ l, e.type ≠ ev_DRUM_MODE) →
    dAfterL d (l.map fun e => tItem e e) = d
  | [], _ => rfl
  | e :: l, h => by
    have h1 : ¬ (tItem e e).ev.type = ev_DRUM_MODE := h e (by simp)
    simp only [List.map_cons, dAfterL, dAfter, if_neg h1]
    exact dAfterL_const d l (fun x hx => h x (by simp [hx]))

theorem dAfter_const {d : Bool} {e : Event} (h : e.type ≠ ev_DRUM_MODE) : dAfter d (tItem e e) = d := by
  have h1 : ¬ (tItem e e).ev.type = ev_DRUM_MODE := h
  simp only [dAfter, if_neg h1]

theorem body_lp {cx : WCtx} {d : Bool} {e : Event} (t : e.type = ev_LOOP_START) {b : List MEv}
    (hb : Body cx d (tItem e e) b) : b = [⟨mds_LP, 0⟩] := by
  cases hb with
  | jump t' _ => rw [show (tItem e e).ev.type = e.type from rfl, t] at t'; exact absurd t' (by decide)
  | ins t' _ => rw [show (tItem e e).ev.type = e.type from rfl, t] at t'; exact absurd t' (by decide)
  | dnote t' _ _ _ _ => rw [show (tItem e e).ev.type = e.type from rfl, t] at t'; exact absurd t' (by decide)
  | plat t' _ => rw [show (tItem e e).ev.type = e.type from rfl, t] at t'; exact absurd t' (by decide)
  | mtab t' _ _ => rw [show (tItem e e).ev.type = e.type from rfl, t] at t'; exact absurd t' (by decide)
  | peg t' _ _ => rw [show (tItem e e).ev.type = e.type from rfl, t] at t'; exact absurd t' (by decide)
  | det h => unfold detBody at h; simp +decide [t] at h; exact h.symm

theorem body_lpb {cx : WCtx} {d : Bool} {e : Event} (t : e.type = ev_LOOP_BREAK) {b : List MEv}
    (hb : Body cx d (tItem e e) b) : b = [⟨mds_LPB, 0⟩] := by
  cases hb with
  | jump t' _ => rw [show (tItem e e).ev.type = e.type from rfl, t] at t'; exact absurd t' (by decide)
  | ins t' _ => rw [show (tItem e e).ev.type = e.type from rfl, t] at t'; exact absurd t' (by decide)
  | dnote t' _ _ _ _ => rw [show (tItem e e).ev.type = e.type from rfl, t] at t'; exact absurd t' (by decide)
  | plat t' _ => rw [show (tItem e e).ev.type = e.type from rfl, t] at t'; exact absurd t' (by decide)
  | mtab t' _ _ => rw [show (tItem e e).ev.type = e.type from rfl, t] at t'; exact absurd t' (by decide)
  | peg t' _ _ => rw [show (tItem e e).ev.type = e.type from rfl, t] at t'; exact absurd t' (by decide)
  | det h => unfold detBody at h; simp +decide [t] at h; exact h.symm

theorem body_lpf {cx : WCtx} {d : Bool} {e : Event} (t : e.type = ev_LOOP_END) {b : List MEv}
    (hb : Body cx d (tItem e e) b) : b = [⟨mds_LPF, Mds.u16 e.param⟩] := by
  cases hb with
  | jump t' _ => rw [show (tItem e e).ev.type = e.type from rfl, t] at t'; exact absurd t' (by decide)
  | ins t' _ => rw [show (tItem e e).ev.type = e.type from rfl, t] at t'; exact absurd t' (by decide)
  | dnote t' _ _ _ _ => rw [show (tItem e e).ev.type = e.type from rfl, t] at t'; exact absurd t' (by decide)
  | plat t' _ => rw [show (tItem e e).ev.type = e.type from rfl, t] at t'; exact absurd t' (by decide)
  | mtab t' _ _ => rw [show (tItem e e).ev.type = e.type from rfl, t] at t'; exact absurd t' (by decide)
  | peg t' _ _ => rw [show (tItem e e).ev.type = e.type from rfl, t] at t'; exact absurd t' (by decide)
  | det h => unfold detBody at h; simp +decide [t] at h; exact h.symm

theorem body_segno {cx : WCtx} {d : Bool} {e : Event} (t : e.type = ev_SEGNO) {b : List MEv}
    (hb : Body cx d (tItem e e) b) : b = [⟨mds_SEGNO, 0⟩] := by
  cases hb with
  | jump t' _ => rw [show (tItem e e).ev.type = e.type from rfl, t] at t'; exact absurd t' (by decide)
  | ins t' _ => rw [show (tItem e e).ev.type = e.type from rfl, t] at t'; exact absurd t' (by decide)
  | dnote t' _ _ _ _ => rw [show (tItem e e).ev.type = e.type from rfl, t] at t'; exact absurd t' (by decide)
  | plat t' _ => rw [show (tItem e e).ev.type = e.type from rfl, t] at t'; exact absurd t' (by decide)
  | mtab t' _ _ => rw [show (tItem e e).ev.type = e.type from rfl, t] at t'; exact absurd t' (by decide)
  | peg t' _ _ => rw [show (tItem e e).ev.type = e.type from rfl, t] at t'; exact absurd t' (by decide)
  | det h => unfold detBody at h; simp +decide [t] at h; exact h.symm

theorem body_jump {cx : WCtx} {d : Bool} {e : Event} (t : e.type = ev_JUMP) {b : List MEv}
    (hb : Body cx d (tItem e e) b) :
    ∃ k : Nat, b = [⟨mds_PAT, Mds.u16 (k : Int)⟩] ∧ (subKey e.param false d, k) ∈ cx.sub := by
  cases hb with
  | jump _ hm => exact ⟨_, rfl, hm⟩
  | ins t' _ => rw [show (tItem e e).ev.type = e.type from rfl, t] at t'; exact absurd t' (by decide)
  | dnote t' _ _ _ _ => rw [show (tItem e e).ev.type = e.type from rfl, t] at t'; exact absurd t' (by decide)
  | plat t' _ => rw [show (tItem e e).ev.type = e.type from rfl, t] at t'; exact absurd t' (by decide)
  | mtab t' _ _ => rw [show (tItem e e).ev.type = e.type from rfl, t] at t'; exact absurd t' (by decide)
  | peg t' _ _ => rw [show (tItem e e).ev.type = e.type from rfl, t] at t'; exact absurd t' (by decide)
  | det h => unfold detBody at h; simp +decide [t] at h

/-- the drum-mode switch: the `FLG` command with the drum bit -/
theorem body_drum {cx : WCtx} {d : Bool} {e : Event} (t : e.type = ev_DRUM_MODE) {b : List MEv}
    (hb : Body cx d (tItem e e) b) : b = [⟨mds_FLG, if e.param ≠ 0 then 8 else 0⟩] := by
  cases hb with
  | jump t' _ => rw [show (tItem e e).ev.type = e.type from rfl, t] at t'; exact absurd t' (by decide)
  | ins t' _ => rw [show (tItem e e).ev.type = e.type from rfl, t] at t'; exact absurd t' (by decide)
  | dnote t' _ _ _ _ => rw [show (tItem e e).ev.type = e.type from rfl, t] at t'; exact absurd t' (by decide)
  | plat t' _ => rw [show (tItem e e).ev.type = e.type from rfl, t] at t'; exact absurd t' (by decide)
  | mtab t' _ _ => rw [show (tItem e e).ev.type = e.type from rfl, t] at t'; exact absurd t' (by decide)
  | peg t' _ _ => rw [show (tItem e e).ev.type = e.type from rfl, t] at t'; exact absurd t' (by decide)
  | det h =>
    unfold detBody at h
    simp +decide [t] at h
    rw [← h]
    by_cases hp : e.param = 0 <;> simp [hp]

/-- an event without on/off time that is not a rest: the pending rest is flushed, none is pending after -/
theorem prepR_timeless (r : Nat) (e : Event) (hne : e.type ≠ ev_REST) (ho : e.off = 0) :
    prepR r (tItem e e) = (flushL r, 0) := by
  rw [prepR_other r e hne (by omega), ho]

/-! ### the expansion of a forest, taken apart -/

theorem expL_append_ok (call : Nat → Nat → Except SErr (List Item)) (d : Nat) (il : Bool) :
    ∀ (a b : List Tree.Node) (items : List Item), Expand.expL call d il (a ++ b) = .ok items →
    ∃ x y, Expand.expL call d il a = .ok x ∧ Expand.expL call d il b = .ok y ∧ items = x ++ y
  | [], b, items, h => ⟨[], items, rfl, h, rfl⟩
  | n :: a, b, items, h => by
    rw [List.cons_append, Refine.expL_cons] at h
    obtain ⟨x, y, hx, hy, rfl⟩ := seq_ok h
    obtain ⟨x2, y2, hx2, hy2, rfl⟩ := expL_append_ok call d il a b y hy
    refine ⟨x ++ x2, y2, ?_, hy2, by simp⟩
    rw [Refine.expL_cons, hx, hx2]; rfl

theorem expPre_split (call : Nat → Nat → Except SErr (List Item)) (d : Nat) (e : Event) (b : List Tree.Node) :
    ∀ (a : List Tree.Node), hasTopBreak a = false →
    Expand.expPre call d (a ++ Tree.Node.brk e :: b) = Expand.expL call d true a
  | [], _ => by simp [Expand.expPre, Expand.expL]
  | .brk e' :: a, h => by simp [hasTopBreak] at h
  | .ev e' :: a, h => by
    have := expPre_split call d e b a (by simpa [hasTopBreak] using h)
    simp only [List.cons_append, Expand.expPre, Refine.expL_cons, this]
  | .loop ls bd le :: a, h => by
    have := expPre_split call d e b a (by simpa [hasTopBreak] using h)
    simp only [List.cons_append, Expand.expPre, Refine.expL_cons, this]
  | .strayEnd e' :: a, h => by
    have := expPre_split call d e b a (by simpa [hasTopBreak] using h)
    simp only [List.cons_append, Expand.expPre, Refine.expL_cons, this]
  | .openLoop ls bd :: a, h => by
    have := expPre_split call d e b a (by simpa [hasTopBreak] using h)
    simp only [List.cons_append, Expand.expPre, Refine.expL_cons, this]

theorem split_topBreak : ∀ (f : List Tree.Node), hasTopBreak f = true →
    ∃ a e b, f = a ++ Tree.Node.brk e :: b ∧ hasTopBreak a = false ∧ topBreakEv f = e
  | [], h => by simp [hasTopBreak] at h
  | .brk e :: ns, _ => ⟨[], e, ns, rfl, rfl, rfl⟩
  | .ev e' :: ns, h => by
    obtain ⟨a, e, b, h1, h2, h3⟩ := split_topBreak ns (by simpa [hasTopBreak] using h)
    exact ⟨.ev e' :: a, e, b, by rw [h1]; rfl, by simpa [hasTopBreak] using h2, by simpa [topBreakEv] using h3⟩
  | .loop ls bd le :: ns, h => by
    obtain ⟨a, e, b, h1, h2, h3⟩ := split_topBreak ns (by simpa [hasTopBreak] using h)
    exact ⟨.loop ls bd le :: a, e, b, by rw [h1]; rfl, by simpa [hasTopBreak] using h2, by simpa [topBreakEv] using h3⟩
  | .strayEnd e' :: ns, h => by
    obtain ⟨a, e, b, h1, h2, h3⟩ := split_topBreak ns (by simpa [hasTopBreak] using h)
    exact ⟨.strayEnd e' :: a, e, b, by rw [h1]; rfl, by simpa [hasTopBreak] using h2, by simpa [topBreakEv] using h3⟩
  | .openLoop ls bd :: ns, h => by
    obtain ⟨a, e, b, h1, h2, h3⟩ := split_topBreak ns (by simpa [hasTopBreak] using h)
    exact ⟨.openLoop ls bd :: a, e, b, by rw [h1]; rfl, by simpa [hasTopBreak] using h2, by simpa [topBreakEv] using h3⟩

/-- a loop bracket, as the hook is shown it, plays nothing -/
theorem itTicks_bracket (R : Int → Option (List Tk × Int)) (pf : Timeline.Platform) (dm : Bool) (i : Item)
    (hk : i.ev.type = ev_LOOP_START ∨ i.ev.type = ev_LOOP_BREAK ∨ i.ev.type = ev_LOOP_END ∨ i.ev.type = ev_JUMP)
    (h1 : i.src.on = 0) (h2 : i.src.off = 0) : itTicks R pf dm i = [] := by
  rcases hk with t | t | t | t <;> simp +decide [itTicks, Timeline.cmdOf, t, h1, h2]

/-! ### the semantic invariant of a piece of a track -/

theorem itemsTicks_nil (R : Int → Option (List Tk × Int)) (pf : Timeline.Platform) (dm : Bool) :
    itemsTicks R pf dm [] = [] := rfl
theorem itemsTicks_single (R : Int → Option (List Tk × Int)) (pf : Timeline.Platform) (dm : Bool) (i : Item) :
    itemsTicks R pf dm [i] = itTicks R pf dm i := by simp [itemsTicks]

theorem itemsTicks_repeat (R : Int → Option (List Tk × Int)) (pf : Timeline.Platform) (dm : Bool) (k : Nat) (l : List Item) :
    itemsTicks R pf dm (repeatItems k l) = repeatL k (itemsTicks R pf dm l) := by
  induction k with
  | zero => rfl
  | succ k ih => simp [repeatItems, repeatL, itemsTicks_append, ih]

section
variable (M : Mode) (nS nM : Nat) (R : Int → Option (List Tk × Int)) (pf : Timeline.Platform) (cx : WCtx)
  (seq : List Nat) (base mj : Nat) (call : Nat → Nat → Except SErr (List Item)) (Q : Event → Prop)

/-- what is known about the calls (`Q` = what is known about a call event, e.g. that its target has no
loop point): a call, made in drum-mode state `M.dm`, to a track whose expansion is `its`, registered
in the subroutine map under index `k`, finds through slot `k` of the pointer table a stream that
plays — up to masking — the ticks of `its`, and returns -/
def CallH : Prop :=
  ∀ (d : Nat) (e : Event) (its : List Item) (k : Nat), e.kind = .jump → Q e →
    call d (trackIdOfParam e.param) = .ok its → (subKey e.param false M.dm, k) ∈ cx.sub → Mds.u16 (k : Int) < 256 →
    ∃ T, (∃ t, slotTarget seq base (Mds.u16 (k : Int) % 256) = some t ∧ SubPlays seq base mj M.dm t T) ∧
      mk T = itemsTicks R pf M.dm its

/-- the event list `ms` written for a piece of a track that performs as `items`, entered with `r`
ticks of rest pending and left with `r'`, in one drum-mode state: it is the flat form of a bracket
structure of the codec fragment that fits the mode and plays, up to masking, the pending rest and
the ticks of `items` except for the rest that is pending at the end.  `hasB` = the piece has a break
marker at its top level. -/
def SemOK (hasB : Bool) (items : List Item) (r : Nat) (ms : List MEv) (r' : Nat) : Prop :=
  ∃ ts : List Codec.Node, flatL ts = ms ∧ linL ts = true ∧ brkOkL true ts = true ∧
    (hasB = false → brkOkL false ts = true) ∧ mokL M false ts = true ∧ callsOkL M seq base mj ts ∧
    List.replicate r Tk.off ++ itemsTicks R pf M.dm items = mk (Codec.expL M nS nM ts) ++ List.replicate r' Tk.off

theorem SemOK.nil (r : Nat) : SemOK M nS nM R pf seq base mj false [] r [] r :=
  ⟨[], rfl, rfl, rfl, fun _ => rfl, rfl, by simp [callsOkL], by simp [itemsTicks, Codec.expL, mk]⟩

theorem SemOK.append {h1 h2 : Bool} {i1 i2 : List Item} {r r1 r2 : Nat} {ms1 ms2 : List MEv}
    (a : SemOK M nS nM R pf seq base mj h1 i1 r ms1 r1) (b : SemOK M nS nM R pf seq base mj h2 i2 r1 ms2 r2) :
    SemOK M nS nM R pf seq base mj (h1 || h2) (i1 ++ i2) r (ms1 ++ ms2) r2 := by
  obtain ⟨t1, f1, l1, k1, k1', o1, c1, e1⟩ := a
  obtain ⟨t2, f2, l2, k2, k2', o2, c2, e2⟩ := b
  have ha : afterL M t1 = M := afterL_of_mok o1
  refine ⟨t1 ++ t2, by rw [flatL_append, f1, f2], by rw [linL_append, l1, l2]; rfl, by rw [brkOkL_append, k1, k2]; rfl,
    ?_, by rw [mokL_append, o1, ha, o2]; rfl, callsOkL_append c1 (by rw [ha]; exact c2), ?_⟩
  · intro hb
    simp only [Bool.or_eq_false_iff] at hb
    rw [brkOkL_append, k1' hb.1, k2' hb.2]; rfl
  · rw [itemsTicks_append, ← List.append_assoc, e1, List.append_assoc, e2, expL_append, ha, mk_append, List.append_assoc]

/-- the pending rest flushed into a piece that ends there: the body of a loop, up to its break or end -/
theorem SemOK.closed_ticks {hb : Bool} {items : List Item} {ms : List MEv} {r' : Nat}
    (h : SemOK M nS nM R pf seq base mj hb items 0 ms r') (hr' : r' < 65536) :
    ∃ ts : List Codec.Node, flatL ts = ms ++ flushL r' ∧ linL ts = true ∧ brkOkL true ts = true ∧
      (hb = false → brkOkL false ts = true) ∧ mokL M false ts = true ∧ callsOkL M seq base mj ts ∧
      mk (Codec.expL M nS nM ts) = itemsTicks R pf M.dm items := by
  obtain ⟨ts, f, l, k, k', o, c, e⟩ := h
  have ha : afterL M ts = M := afterL_of_mok o
  have hfo := evOk_flushL M r'
  refine ⟨ts ++ evNodes (flushL r'), by rw [flatL_append, f, flatL_evNodes],
    by rw [linL_append, l, linL_evNodes _ (lin_flushL r' hr')]; rfl, by rw [brkOkL_append, k, brkOkL_evNodes]; rfl,
    fun hh => by rw [brkOkL_append, k' hh, brkOkL_evNodes]; rfl,
    by rw [mokL_append, o, ha, mokL_evNodes M false _ hfo]; rfl,
    callsOkL_append c (callsOkL_evNodes _ _ _ _ _), ?_⟩
  rw [expL_append, ha, expL_evNodes M nS nM _ hfo, ticks_flushL, mk_append, mk_off]
  simpa using e.symm

/-- a piece made of leaf events only -/
theorem SemOK.leaves {items : List Item} {r r' : Nat} (ms : List MEv) (hl : ∀ x ∈ ms, linEv x = true)
    (ho : ∀ x ∈ ms, M.evOk x = true)
    (ht : List.replicate r Tk.off ++ itemsTicks R pf M.dm items = mk (ticks M nS nM ms) ++ List.replicate r' Tk.off) :
    SemOK M nS nM R pf seq base mj false items r ms r' :=
  ⟨evNodes ms, flatL_evNodes ms, linL_evNodes ms hl, brkOkL_evNodes true ms, fun _ => brkOkL_evNodes false ms,
    mokL_evNodes M false ms ho, callsOkL_evNodes M seq base mj ms, by rw [expL_evNodes M nS nM ms ho]; exact ht⟩

/-- the events of a track piece: in the fragment, with front-end timing, no loop point, loop
counts in a byte, no drum-mode switch -/
def EvOK (e : Event) : Prop :=
  SimpleEv e ∧ Timed e ∧ e.kind ≠ .segno ∧ (e.type = ev_LOOP_END → 0 ≤ e.param ∧ e.param ≤ 255) ∧
    (e.kind = .jump → Q e) ∧ e.type ≠ ev_DRUM_MODE

theorem EvOK.timeless {Q : Event → Prop} {e : Event} (h : EvOK Q e) (h1 : e.type ≠ ev_NOTE) (h2 : e.type ≠ ev_TIE) (h3 : e.type ≠ ev_REST) :
    e.on = 0 ∧ e.off = 0 := ⟨h.2.1.2.2.1 h1 h2, h.2.1.2.2.2.1 h1 h2 h3⟩

def isBrk : Tree.Node → Bool
  | .brk _ => true
  | _ => false

theorem hasTopBreak_cons (n : Tree.Node) (ns : List Tree.Node) : hasTopBreak (n :: ns) = (isBrk n || hasTopBreak ns) := by
  cases n <;> simp [hasTopBreak, isBrk]

theorem passes_eq (p : Int) (h0 : 0 ≤ p) (h1 : p ≤ 255) :
    Codec.passes (Mds.u16 p) = if p.toNat ≤ 1 then 1 else p.toNat := by
  have : Mds.u16 p = p.toNat := by unfold Mds.u16; omega
  rw [this]
  unfold Codec.passes
  have : p.toNat % 256 = p.toNat := by omega
  rw [this]

/-- a loop without break around a body that is known -/
theorem semok_loop (r : Nat) (hr : r < 65536) {full : List Item} {msB : List MEv} {rB : Nat}
    (hB : SemOK M nS nM R pf seq base mj false full 0 msB rB) (hrB : rB < 65536) (p : Int) (hp0 : 0 ≤ p) (hp1 : p ≤ 255)
    (X : List Item)
    (hX : itemsTicks R pf M.dm X = repeatL (if p.toNat ≤ 1 then 1 else p.toNat) (itemsTicks R pf M.dm full)) :
    SemOK M nS nM R pf seq base mj false X r
      (flushL r ++ [⟨mds_LP, 0⟩] ++ (msB ++ (flushL rB ++ [⟨mds_LPF, Mds.u16 p⟩]))) 0 := by
  obtain ⟨tb, fb, lb, _, kb, ob, cb, eb⟩ := SemOK.closed_ticks M nS nM R pf seq base mj hB hrB
  have hfo := evOk_flushL M r
  have ha : afterL M (evNodes (flushL r)) = M := afterL_evNodes M _ hfo
  refine ⟨evNodes (flushL r) ++ [.loop tb (Mds.u16 p)], ?_, ?_, ?_, fun _ => ?_, ?_, ?_, ?_⟩
  · rw [flatL_append, flatL_evNodes]
    simp [flatL, Codec.Node.flat, fb, List.append_assoc]
  · rw [linL_append, linL_evNodes _ (lin_flushL r hr)]; simp [linL, Codec.Node.lin, lb]
  · rw [brkOkL_append, brkOkL_evNodes]; simp [brkOkL, Codec.Node.brkOk, kb rfl]
  · rw [brkOkL_append, brkOkL_evNodes]; simp [brkOkL, Codec.Node.brkOk, kb rfl]
  · rw [mokL_append, mokL_evNodes M false _ hfo, ha]; simp [mokL, Codec.Node.mok, ob]
  · exact callsOkL_append (callsOkL_evNodes _ _ _ _ _) (by rw [ha]; simp [callsOkL, Codec.Node.callsOk, cb])
  · rw [expL_append, ha, expL_evNodes M nS nM _ hfo, ticks_flushL, mk_append, mk_off, hX]
    simp [Codec.expL, Codec.Node.exp, mk_repeatL, eb, passes_eq p hp0 hp1]

/-- a loop with a break: `ia` before the first break, `ib` after it -/
theorem semok_loopB (r : Nat) (hr : r < 65536) {ia ib : List Item} {msA msB : List MEv} {rA rB : Nat} {hb : Bool}
    (hA : SemOK M nS nM R pf seq base mj false ia 0 msA rA) (hrA : rA < 65536)
    (hB : SemOK M nS nM R pf seq base mj hb ib 0 msB rB) (hrB : rB < 65536) (p : Int) (hp0 : 0 ≤ p) (hp1 : p ≤ 255)
    (X : List Item)
    (hX : itemsTicks R pf M.dm X =
      repeatL ((if p.toNat ≤ 1 then 1 else p.toNat) - 1) (itemsTicks R pf M.dm ia ++ itemsTicks R pf M.dm ib) ++
        itemsTicks R pf M.dm ia ++ (if p.toNat ≤ 1 then itemsTicks R pf M.dm ib else [])) :
    SemOK M nS nM R pf seq base mj false X r
      (flushL r ++ [⟨mds_LP, 0⟩] ++ (msA ++ (flushL rA ++ [⟨mds_LPB, 0⟩] ++ (msB ++ (flushL rB ++ [⟨mds_LPF, Mds.u16 p⟩]))))) 0 := by
  obtain ⟨ta, fa, la, _, ka, oa, ca, ea⟩ := SemOK.closed_ticks M nS nM R pf seq base mj hA hrA
  obtain ⟨tb, fb, lb, kb, _, ob, cb, eb⟩ := SemOK.closed_ticks M nS nM R pf seq base mj hB hrB
  have hu : Mds.u16 p = p.toNat := by unfold Mds.u16; omega
  have hmod : p.toNat % 256 = p.toNat := by omega
  have hfo := evOk_flushL M r
  have ha : afterL M (evNodes (flushL r)) = M := afterL_evNodes M _ hfo
  refine ⟨evNodes (flushL r) ++ [.loopB ta tb (Mds.u16 p)], ?_, ?_, ?_, fun _ => ?_, ?_, ?_, ?_⟩
  · rw [flatL_append, flatL_evNodes]
    simp [flatL, Codec.Node.flat, fa, fb, List.append_assoc]
  · rw [linL_append, linL_evNodes _ (lin_flushL r hr)]; simp [linL, Codec.Node.lin, la, lb]
  · rw [brkOkL_append, brkOkL_evNodes]; simp [brkOkL, Codec.Node.brkOk, ka rfl, kb]
  · rw [brkOkL_append, brkOkL_evNodes]; simp [brkOkL, Codec.Node.brkOk, ka rfl, kb]
  · rw [mokL_append, mokL_evNodes M false _ hfo, ha]; simp [mokL, Codec.Node.mok, oa, ob]
  · exact callsOkL_append (callsOkL_evNodes _ _ _ _ _) (by rw [ha]; simp [callsOkL, Codec.Node.callsOk, ca, cb])
  · rw [expL_append, ha, expL_evNodes M nS nM _ hfo, ticks_flushL, mk_append, mk_off, hX]
    have hpass : Codec.passes p.toNat = if p.toNat ≤ 1 then 1 else p.toNat := by unfold Codec.passes; rw [hmod]
    simp only [Codec.expL, Codec.Node.exp, List.append_nil, mk_append, mk_repeatL, ea, eb, hu, hmod, hpass]
    split <;> simp [mk_nil, eb]

theorem or_segno_false {g : Bool} {e : Event} (h : e.kind ≠ .segno) : (g || (tItem e e).ev.type == ev_SEGNO) = g := by
  have : ¬ e.type = ev_SEGNO := fun t => h (type_segno_kind t)
  have : ((tItem e e).ev.type == ev_SEGNO) = false := by simpa using this
  rw [this]; simp

set_option maxRecDepth 8192 in
mutual
theorem semN (hH : CallH M R pf cx seq base mj call Q) (hD : DrumH M.rt R cx.sub) (hP : PlatOK nS nM pf cx.plat)
    (hMac : CtxSmall cx) (n : Tree.Node) (hcl : Node.closed n)
    (hev : ∀ e ∈ flattenN n, EvOK Q e)
    (d : Nat) (il : Bool) (items : List Item) (hexp : Expand.expN call d il n = .ok items)
    (r : Nat) (g : Bool) (ms : List MEv) (r' : Nat) (g' : Bool) (hr : r < 65536)
    (hem : Emits cx M.dm r g ((flattenN n).map fun e => tItem e e) ms r' g')
    (hfit : ∀ ev ∈ ms, FitsEv nS nM ev) :
    SemOK M nS nM R pf seq base mj (isBrk n) items r ms r' ∧ r' < 65536 ∧ g' = g := by
  match n, hcl, hev, hexp, hem with
  | .ev e, hcl, hev, hexp, hem =>
    have he : EvOK Q e := hev e (by simp [flattenN])
    have hnd : e.type ≠ ev_DRUM_MODE := he.2.2.2.2.2
    simp only [flattenN, List.map_cons, List.map_nil] at hem
    obtain ⟨b, ms', hb, he', rfl⟩ := emits_cons hem
    obtain ⟨rfl, rfl, rfl⟩ := emits_nil he'
    rw [or_segno_false he.2.2.1, List.append_nil]
    rcases hcl with hk | hk | hk
    · exact absurd hk he.2.2.1
    · -- a call
      have t := kind_jump hk
      simp only [expN, hk] at hexp
      obtain ⟨x, its, hx, hits, rfl⟩ := seq_ok hexp
      simp only [Except.ok.injEq] at hx
      subst hx
      obtain ⟨k, rfl, hmem⟩ := body_jump t hb
      have hk256 : Mds.u16 (k : Int) < 256 := (hfit ⟨mds_PAT, Mds.u16 (k : Int)⟩ (by simp)).1 rfl
      obtain ⟨hon, hoff⟩ := he.timeless (by rw [t]; decide) (by rw [t]; decide) (by rw [t]; decide)
      rw [prepR_timeless r e (by rw [t]; decide) hoff]
      obtain ⟨T, ⟨tg, htg, hsub⟩, hT⟩ := hH d e its k hk (he.2.2.2.2.1 hk) hits hmem hk256
      have hfo := evOk_flushL M r
      have ha : afterL M (evNodes (flushL r)) = M := afterL_evNodes M _ hfo
      refine ⟨⟨evNodes (flushL r) ++ [.call (Mds.u16 (k : Int)) T], ?_, ?_, ?_, fun _ => ?_, ?_, ?_, ?_⟩, by omega, rfl⟩
      · rw [flatL_append, flatL_evNodes]; simp [flatL, Codec.Node.flat]
      · rw [linL_append, linL_evNodes _ (lin_flushL r hr)]; simp [linL, Codec.Node.lin]
      · rw [brkOkL_append, brkOkL_evNodes]; simp [brkOkL, Codec.Node.brkOk]
      · rw [brkOkL_append, brkOkL_evNodes]; simp [brkOkL, Codec.Node.brkOk]
      · rw [mokL_append, mokL_evNodes M false _ hfo, ha]; simp [mokL, Codec.Node.mok]
      · exact callsOkL_append (callsOkL_evNodes _ _ _ _ _)
          (by rw [ha]; simp only [callsOkL, Codec.Node.callsOk, and_true]; exact ⟨tg, htg, hsub⟩)
      · have hi : itTicks R pf M.dm (item e) = [] := itTicks_bracket R pf M.dm (item e) (.inr (.inr (.inr t))) hon hoff
        rw [expL_append, ha, expL_evNodes M nS nM _ hfo, ticks_flushL, mk_append, mk_off]
        simp [itemsTicks_cons, itemsTicks_append, hi, Codec.expL, Codec.Node.exp, hT]
    · -- a leaf event
      have hx : items = [item e] := by simpa [expN, hk] using hexp.symm
      subst hx
      obtain ⟨hl, ho, hlt, htk⟩ := leaf_sem M nS nM R pf cx hD hP hMac e he.1 he.2.1 hk hnd r hr hb
        (fun ev hev => hfit ev (by simp [hev]))
      exact ⟨SemOK.leaves M nS nM R pf seq base mj _ hl ho (by simpa [itemsTicks] using htk), hlt, rfl⟩
  | .brk e, hcl, hev, hexp, hem =>
    have he : EvOK Q e := hev e (by simp [flattenN])
    have t := kind_loopBreak hcl
    cases il with
    | false => simp [expN] at hexp
    | true =>
      have hx : items = [item e] := by simpa [expN] using hexp.symm
      subst hx
      simp only [flattenN, List.map_cons, List.map_nil] at hem
      obtain ⟨b, ms', hb, he', rfl⟩ := emits_cons hem
      obtain ⟨rfl, rfl, rfl⟩ := emits_nil he'
      rw [or_segno_false he.2.2.1, List.append_nil, body_lpb t hb]
      obtain ⟨hon, hoff⟩ := he.timeless (by rw [t]; decide) (by rw [t]; decide) (by rw [t]; decide)
      rw [prepR_timeless r e (by rw [t]; decide) hoff]
      have hfo := evOk_flushL M r
      have ha : afterL M (evNodes (flushL r)) = M := afterL_evNodes M _ hfo
      refine ⟨⟨evNodes (flushL r) ++ [.xbrk], ?_, ?_, ?_, fun h => by simp [isBrk] at h, ?_, ?_, ?_⟩, by omega, rfl⟩
      · rw [flatL_append, flatL_evNodes]; simp [flatL, Codec.Node.flat]
      · rw [linL_append, linL_evNodes _ (lin_flushL r hr)]; simp [linL, Codec.Node.lin]
      · rw [brkOkL_append, brkOkL_evNodes]; simp [brkOkL, Codec.Node.brkOk]
      · rw [mokL_append, mokL_evNodes M false _ hfo, ha]; simp [mokL, Codec.Node.mok]
      · exact callsOkL_append (callsOkL_evNodes _ _ _ _ _) (by simp [callsOkL, Codec.Node.callsOk])
      · have hi : itTicks R pf M.dm (item e) = [] := itTicks_bracket R pf M.dm (item e) (.inr (.inl t)) hon hoff
        rw [expL_append, ha, expL_evNodes M nS nM _ hfo, ticks_flushL, mk_append, mk_off]
        simp [itemsTicks, hi, Codec.expL, Codec.Node.exp, mk]
  | .strayEnd e, hcl, _, _, _ => exact absurd hcl (by simp [Node.closed])
  | .openLoop ls b, hcl, _, _, _ => exact absurd hcl (by simp [Node.closed])
  | .loop ls body le, hcl, hev, hexp, hem =>
    obtain ⟨hlsk, hbcl, hlek⟩ := hcl
    have hls : EvOK Q ls := hev ls (by simp [flattenN])
    have hle : EvOK Q le := hev le (by simp [flattenN])
    have hbody : ∀ e ∈ flattenL body, EvOK Q e := fun e he => hev e (by simp [flattenN, he])
    have hbnd : ∀ e ∈ flattenL body, e.type ≠ ev_DRUM_MODE := fun e he => (hbody e he).2.2.2.2.2
    have tls := kind_loopStart hlsk
    have tle := kind_loopEnd hlek
    obtain ⟨hp0, hp1⟩ := hle.2.2.2.1 tle
    obtain ⟨_, hlsoff⟩ := hls.timeless (by rw [tls]; decide) (by rw [tls]; decide) (by rw [tls]; decide)
    obtain ⟨hleon, hleoff⟩ := hle.timeless (by rw [tle]; decide) (by rw [tle]; decide) (by rw [tle]; decide)
    -- the event list
    have hmap : (flattenN (.loop ls body le)).map (fun e => tItem e e) =
        tItem ls ls :: ((flattenL body).map (fun e => tItem e e) ++ [tItem le le]) := by
      simp [flattenN]
    rw [hmap] at hem
    obtain ⟨b0, ms0, hb0, he0, rfl⟩ := emits_cons hem
    obtain rfl := body_lp tls hb0
    rw [or_segno_false hls.2.2.1, dAfter_const hls.2.2.2.2.2] at he0
    rw [prepR_timeless r ls (by rw [tls]; decide) hlsoff] at he0 ⊢
    simp only at he0
    -- the expansion
    simp only [expN] at hexp
    by_cases hfull : d ≥ limit
    · simp [hfull] at hexp
    simp only [hfull, if_false] at hexp
    cases hfullR : Expand.expL call (d + 1) true body with
    | error x => rw [hfullR] at hexp; simp at hexp
    | ok full =>
      rw [hfullR] at hexp
      simp only at hexp
      have hneg : ¬ le.param < 0 := by omega
      simp only [hneg, if_false] at hexp
      have hils : itTicks R pf M.dm (item ls) = [] :=
        itTicks_bracket R pf M.dm (item ls) (.inl tls) (hls.timeless (by rw [tls]; decide) (by rw [tls]; decide) (by rw [tls]; decide)).1 hlsoff
      have hile : itTicks R pf M.dm (item le) = [] := itTicks_bracket R pf M.dm (item le) (.inr (.inr (.inl tle))) hleon hleoff
      cases hb : hasTopBreak body with
      | false =>
        -- no break: the body is one piece
        obtain ⟨msB, rB, gB, msE, heB, heE, rfl⟩ := emits_append _ _ he0
        rw [dAfterL_const M.dm _ hbnd] at heE
        obtain ⟨sB, hrB, hgB⟩ := semL hH hD hP hMac body hbcl hbody (d + 1) true full hfullR 0 g msB rB gB (by omega) heB
          (fun ev hev => hfit ev (by simp [hev]))
        obtain rfl : g = gB := hgB.symm
        rw [hb] at sB
        obtain ⟨bE, msE', hbE, heE', rfl⟩ := emits_cons heE
        obtain ⟨rfl, rfl, rfl⟩ := emits_nil heE'
        rw [or_segno_false hle.2.2.1, body_lpf tle hbE, prepR_timeless rB le (by rw [tle]; decide) hleoff]
        refine ⟨?_, by omega, rfl⟩
        have := semok_loop M nS nM R pf seq base mj r hr sB hrB le.param hp0 hp1 items ?_
        · simpa [isBrk, List.append_assoc] using this
        · by_cases hn1 : le.param.toNat ≤ 1
          · simp only [hn1, if_true, Except.ok.injEq] at hexp
            subst hexp
            simp [itemsTicks_cons, itemsTicks_append, itemsTicks_single, itemsTicks_nil, hils, hile, hn1, repeatL]
          · simp only [hn1, if_false, hb, Bool.false_eq_true, Except.ok.injEq] at hexp
            subst hexp
            simp [itemsTicks_cons, itemsTicks_repeat, itemsTicks_append, itemsTicks_single, itemsTicks_nil, hils, hile, hn1]
      | true =>
        -- a break: the part before the first break, the break, the part after it
        obtain ⟨a, eb, b, hsplit, hab, htb⟩ := split_topBreak body hb
        rw [hsplit] at hbcl hfullR hexp htb
        have hflat : flattenL body = flattenL a ++ eb :: flattenL b := by
          rw [hsplit, Tree.flattenL_append, Tree.flattenL_cons]; simp [flattenN]
        have hcl' := (closedL_append a (.brk eb :: b)).mp hbcl
        have hacl : closedL a := hcl'.1
        have hebk : eb.kind = .loopBreak := hcl'.2.1
        have hbcl' : closedL b := hcl'.2.2
        have teb := kind_loopBreak hebk
        have heb : EvOK Q eb := hbody eb (by rw [hflat]; simp)
        have hea : ∀ e ∈ flattenL a, EvOK Q e := fun e he => hbody e (by rw [hflat]; simp [he])
        have heb' : ∀ e ∈ flattenL b, EvOK Q e := fun e he => hbody e (by rw [hflat]; simp [he])
        have hand : ∀ e ∈ flattenL a, e.type ≠ ev_DRUM_MODE := fun e he => (hea e he).2.2.2.2.2
        have hbnd' : ∀ e ∈ flattenL b, e.type ≠ ev_DRUM_MODE := fun e he => (heb' e he).2.2.2.2.2
        obtain ⟨hebon, heboff⟩ := heb.timeless (by rw [teb]; decide) (by rw [teb]; decide) (by rw [teb]; decide)
        have hieb : itTicks R pf M.dm (item eb) = [] := itTicks_bracket R pf M.dm (item eb) (.inr (.inl teb)) hebon heboff
        -- expansion of the body
        obtain ⟨ia, y, hia, hy, rfl⟩ := expL_append_ok call (d + 1) true a (.brk eb :: b) full hfullR
        rw [Refine.expL_cons] at hy
        obtain ⟨xb, ib, hxb, hib, rfl⟩ := seq_ok hy
        have hxb' : xb = [item eb] := by simpa [expN] using hxb.symm
        subst hxb'
        -- the event list
        rw [hflat] at he0
        have hmap2 : (flattenL a ++ eb :: flattenL b).map (fun e => tItem e e) ++ [tItem le le] =
            (flattenL a).map (fun e => tItem e e) ++ (tItem eb eb :: ((flattenL b).map (fun e => tItem e e) ++ [tItem le le])) := by
          simp
        rw [hmap2] at he0
        obtain ⟨msA, rA, gA, ms1, heA, he1, rfl⟩ := emits_append _ _ he0
        rw [dAfterL_const M.dm _ hand] at he1
        obtain ⟨sA, hrA, hgA⟩ := semL hH hD hP hMac a hacl hea (d + 1) true ia hia 0 g msA rA gA (by omega) heA
          (fun ev hev => hfit ev (by simp [hev]))
        obtain rfl : g = gA := hgA.symm
        rw [hab] at sA
        obtain ⟨bb, ms2, hbb, he2, rfl⟩ := emits_cons he1
        obtain rfl := body_lpb teb hbb
        rw [or_segno_false heb.2.2.1, dAfter_const heb.2.2.2.2.2] at he2
        rw [prepR_timeless rA eb (by rw [teb]; decide) heboff] at he2 ⊢
        simp only at he2
        obtain ⟨msB, rB, gB, msE, heB, heE, rfl⟩ := emits_append _ _ he2
        rw [dAfterL_const M.dm _ hbnd'] at heE
        obtain ⟨sB, hrB, hgB⟩ := semL hH hD hP hMac b hbcl' heb' (d + 1) true ib hib 0 g msB rB gB (by omega) heB
          (fun ev hev => hfit ev (by simp [hev]))
        obtain rfl : g = gB := hgB.symm
        obtain ⟨bE, msE', hbE, heE', rfl⟩ := emits_cons heE
        obtain ⟨rfl, rfl, rfl⟩ := emits_nil heE'
        rw [or_segno_false hle.2.2.1, body_lpf tle hbE, prepR_timeless rB le (by rw [tle]; decide) hleoff]
        refine ⟨?_, by omega, rfl⟩
        have := semok_loopB M nS nM R pf seq base mj r hr sA hrA sB hrB le.param hp0 hp1 items ?_
        · simpa [isBrk, List.append_assoc] using this
        · by_cases hn1 : le.param.toNat ≤ 1
          · simp only [hn1, if_true, Except.ok.injEq] at hexp
            subst hexp
            simp [itemsTicks_cons, itemsTicks_append, itemsTicks_single, itemsTicks_nil, hils, hile, hieb, hn1, repeatL]
          · rw [hsplit] at hb
            simp only [hn1, if_false, hb, if_true] at hexp
            rw [expPre_split call (d + 1) eb b a hab, hia] at hexp
            simp only [Except.ok.injEq] at hexp
            subst hexp
            have hix : itTicks R pf M.dm { ev := le, src := topBreakEv (a ++ Tree.Node.brk eb :: b) } = [] := by
              rw [htb]; exact itTicks_bracket R pf M.dm _ (.inr (.inr (.inl tle))) hebon heboff
            simp [itemsTicks_cons, itemsTicks_repeat, itemsTicks_append, itemsTicks_single, itemsTicks_nil, hils, hile, hieb, hix, hn1]
termination_by 2 * (flattenN n).length
decreasing_by
  all_goals simp_wf
  all_goals (try subst_vars)
  all_goals simp [flattenN, Tree.flattenL_append, Tree.flattenL_cons]
  all_goals omega
theorem semL (hH : CallH M R pf cx seq base mj call Q) (hD : DrumH M.rt R cx.sub) (hP : PlatOK nS nM pf cx.plat)
    (hMac : CtxSmall cx) (f : List Tree.Node) (hcl : closedL f)
    (hev : ∀ e ∈ flattenL f, EvOK Q e)
    (d : Nat) (il : Bool) (items : List Item) (hexp : Expand.expL call d il f = .ok items)
    (r : Nat) (g : Bool) (ms : List MEv) (r' : Nat) (g' : Bool) (hr : r < 65536)
    (hem : Emits cx M.dm r g ((flattenL f).map fun e => tItem e e) ms r' g')
    (hfit : ∀ ev ∈ ms, FitsEv nS nM ev) :
    SemOK M nS nM R pf seq base mj (hasTopBreak f) items r ms r' ∧ r' < 65536 ∧ g' = g := by
  match f, hcl, hev, hexp, hem with
  | [], _, _, hexp, hem =>
    have hx : items = [] := by simpa [Expand.expL] using hexp.symm
    subst hx
    simp only [flattenL, List.map_nil] at hem
    obtain ⟨h1, h2, h3⟩ := emits_nil hem
    subst h1 h2 h3
    exact ⟨SemOK.nil M nS nM R pf seq base mj r', hr, rfl⟩
  | n :: ns, hcl, hev, hexp, hem =>
    rw [Refine.expL_cons] at hexp
    obtain ⟨x, y, hx, hy, rfl⟩ := seq_ok hexp
    rw [Tree.flattenL_cons, List.map_append] at hem
    obtain ⟨ms1, r1, g1, ms2, he1, he2, rfl⟩ := emits_append _ _ hem
    have hnnd : ∀ e ∈ flattenN n, e.type ≠ ev_DRUM_MODE :=
      fun e he => (hev e (by rw [Tree.flattenL_cons]; simp [he])).2.2.2.2.2
    rw [dAfterL_const M.dm _ hnnd] at he2
    obtain ⟨s1, hr1, hg1⟩ := semN hH hD hP hMac n hcl.1 (fun e he => hev e (by rw [Tree.flattenL_cons]; simp [he])) d il x hx r g ms1 r1 g1 hr he1
      (fun ev hev => hfit ev (by simp [hev]))
    obtain rfl : g = g1 := hg1.symm
    obtain ⟨s2, hr2, hg2⟩ := semL hH hD hP hMac ns hcl.2 (fun e he => hev e (by rw [Tree.flattenL_cons]; simp [he])) d il y hy r1 g ms2 r' g' hr1 he2
      (fun ev hev => hfit ev (by simp [hev]))
    obtain rfl : g = g' := hg2.symm
    rw [hasTopBreak_cons]
    exact ⟨s1.append M nS nM R pf seq base mj s2, hr2, rfl⟩
termination_by 2 * (flattenL f).length + 1
decreasing_by
  all_goals simp_wf
  all_goals simp [Tree.flattenL_cons]
  all_goals (have := Refine.len_flattenN_pos n; omega)
end

end

end Ctrmml.SongSem
