/-
  Helper lemmas for C17 (no property statements): the reference carried by an `InputError` that
  comes out of the MDSDRV converter (`runWriterR` / `getSubroutineR` / `parseTracksR` of Model/Refs).
-/
import Ctrmml.Proofs.Refs
import Ctrmml.Proofs.MdsHook
namespace Ctrmml.Refs
open Ctrmml Ctrmml.Lexer Ctrmml.TrackBuilder Ctrmml.Player Ctrmml.Mds Ctrmml.Tables

/-- `stepTrace` is `step` plus the hook's view -/
theorem stepTrace_ok (song : Song) (root : List Event) (lh : Bool) (s st' : PState) (t : Option (Option TraceItem))
    (h : stepTrace song root lh s = .ok (st', t)) : ∃ em, step song root lh s = .ok (st', em) := by
  unfold stepTrace at h
  unfold step
  cases hc : coreStep song root s.core with
  | error e => rw [hc] at h; cases h
  | ok p =>
    obtain ⟨c', o⟩ := p
    rw [hc] at h
    simp only [] at h ⊢
    cases h
    exact ⟨_, rfl⟩

/-- one writer step on the reference-carrying state is one `stepR` -/
theorem stepTrace_stepR (rs : RSong) (root : List BEvent) (s : RState) (st' : PState) (t : Option (Option TraceItem))
    (h : stepTrace rs.erase (eraseTrack root) false s.st = .ok (st', t)) :
    ∃ em, stepR rs root false s =
      .ok ({ st := st', ref := if isReturn rs root s.st.core then returnRef rs root st'.core (fetchRef rs root s.st.core s.ref)
                                else fetchRef rs root s.st.core s.ref }, em) := by
  obtain ⟨em, hem⟩ := stepTrace_ok _ _ _ _ _ _ h
  exact ⟨em, by unfold stepR; rw [hem]⟩

theorem ReachR.trans {rs : RSong} {root : List BEvent} {lh : Bool} {a b c : RState}
    (h1 : ReachR rs root lh a b) (h2 : ReachR rs root lh b c) : ReachR rs root lh a c := by
  induction h1 with
  | refl s => exact h2
  | step s s₁ s₂ em hs _ ih => exact .step s s₁ _ em hs (ih h2)

theorem ReachR.snoc {rs : RSong} {root : List BEvent} {lh : Bool} {a b c : RState} {em : Emit}
    (h1 : ReachR rs root lh a b) (h2 : stepR rs root lh b = .ok (c, em)) : ReachR rs root lh a c :=
  h1.trans (.step b c c em h2 (.refl c))

/-- where an `InputError` of the converter comes from: a step of the writer over `root` (a state
`s₁` reached from the start of the track by successful steps) — then it carries the reference of
the command fetched by that step —, or the drum routine `evs` that a drum-mode `NOTE` fetched at
such a state converts with a writer of its own, whose `InputError` is passed on unchanged -/
inductive ErrSite (rs : RSong) : List BEvent → RErr → Prop
  | own (root : List BEvent) (s₁ : RState) (x : RErr) :
      ReachR rs root false initR s₁ → x.ref = fetchRef rs root s₁.st.core s₁.ref → ErrSite rs root x
  | drum (root : List BEvent) (s₁ : RState) (id : Nat) (evs : List BEvent) (x : RErr) :
      ReachR rs root false initR s₁ → rs.track? id = some evs → ErrSite rs evs x → ErrSite rs root x

/-- the two statements proved together by induction on the nesting fuel -/
def WriterRef (rs : RSong) (d : DataInfo) (fuel : Nat) : Prop :=
  (∀ steps root c w s x, ReachR rs root false initR s → runWriterR rs d root fuel steps c w s = .error x →
      x.err = .fuel ∨ ErrSite rs root x) ∧
  (∀ c trackId inDrum drumEnabled x, getSubroutineR rs d fuel c trackId inDrum drumEnabled = .error x →
      x.err = .fuel ∨ (x.ref = none ∧ x.err = (if inDrum then .drumMissing else .subMissing)) ∨
      ∃ evs, rs.track? (trackIdOfParam trackId) = some evs ∧ ErrSite rs evs x)

theorem writerRef_zero (rs : RSong) (d : DataInfo) : WriterRef rs d 0 := by
  constructor
  · intro steps root c w s x _ h
    cases steps <;> (simp only [runWriterR] at h; cases h; exact Or.inl rfl)
  · intro c trackId inDrum drumEnabled x h
    simp only [getSubroutineR] at h
    cases h; exact Or.inl rfl

theorem writerRef_succ (rs : RSong) (d : DataInfo) (n : Nat) (ih : WriterRef rs d n) : WriterRef rs d (n + 1) := by
  have hrun : ∀ steps root c w s x, ReachR rs root false initR s →
      runWriterR rs d root (n + 1) steps c w s = .error x → x.err = .fuel ∨ ErrSite rs root x := by
    intro steps
    induction steps with
    | zero => intro root c w s x _ h; simp only [runWriterR] at h; cases h; exact Or.inl rfl
    | succ k ihk =>
      intro root c w s x hreach h
      simp only [runWriterR] at h
      split at h
      · cases h
      · cases hst : stepTrace rs.erase (eraseTrack root) false s.st with
        | error p =>
          rw [hst] at h
          obtain ⟨e, ho⟩ := p
          have hown : ∀ y : RErr, y.ref = fetchRef rs root s.st.core s.ref → ErrSite rs root y :=
            fun y hy => .own root s y hreach hy
          cases ho with
          | none => simp only at h; cases h; exact Or.inr (hown _ rfl)
          | some it =>
            simp only at h
            cases hh : hook rs.erase d n c w it with
            | error y =>
              rw [hh] at h; simp only at h
              split at h <;> (cases h; exact Or.inr (hown _ rfl))
            | ok r => rw [hh] at h; cases h; exact Or.inr (hown _ rfl)
        | ok p =>
          rw [hst] at h
          obtain ⟨st', t⟩ := p
          obtain ⟨em, hstep⟩ := stepTrace_stepR rs root s st' t hst
          have hreach' := hreach.snoc hstep
          have hown : ∀ y : RErr, y.ref = fetchRef rs root s.st.core s.ref → ErrSite rs root y :=
            fun y hy => .own root s y hreach hy
          cases t with
          | none => exact ihk root c w _ x hreach' h
          | some t1 =>
            cases t1 with
            | none => simp only at h; cases h
            | some it =>
              simp only at h
              split at h
              · -- the drum-mode NOTE: the inner writer
                rename_i y hinner
                cases h
                split at hinner
                · split at hinner
                  · rename_i z hz
                    split at hinner
                    · cases hinner; exact Or.inr (hown _ rfl)
                    · cases hinner
                      rcases ih.2 _ _ _ _ _ hz with hf | hn | ⟨evs, hev, hsite⟩
                      · exact Or.inl hf
                      · rename_i hne
                        exact absurd (by simpa using hn.2) hne
                      · exact Or.inr (.drum root s _ evs _ hreach hev hsite)
                  · cases hinner
                · cases hinner
              · cases hh : hook rs.erase d n c w it with
                | error y =>
                  rw [hh] at h; simp only at h
                  split at h <;> (cases h; exact Or.inr (hown _ rfl))
                | ok r =>
                  rw [hh] at h
                  obtain ⟨c1, w1⟩ := r
                  exact ihk root c1 w1 _ x hreach' h
  refine ⟨hrun, ?_⟩
  intro c trackId inDrum drumEnabled x h
  simp only [getSubroutineR] at h
  split at h
  · cases h
  · split at h
    · cases h; exact Or.inr (Or.inl ⟨rfl, rfl⟩)
    · rename_i evs hev
      split at h
      · rename_i y hy
        cases h
        rcases ih.1 _ _ _ _ _ _ (.refl _) hy with hf | hs
        · exact Or.inl hf
        · exact Or.inr (Or.inr ⟨evs, hev, hs⟩)
      · cases h

theorem writerRef (rs : RSong) (d : DataInfo) : ∀ fuel, WriterRef rs d fuel
  | 0 => writerRef_zero rs d
  | n + 1 => writerRef_succ rs d n (writerRef rs d n)

/-- the loop of the `MDSDRV_Converter` constructor over the channel tracks -/
theorem parseTracksR_error (rs : RSong) (d : DataInfo) : ∀ (ids : List Nat) (c : Conv) (tl : List (Nat × List MEv)) (x : RErr),
    parseTracksR rs d ids c tl = .error x →
    x.err = .fuel ∨ ∃ id evs, id ∈ ids ∧ rs.track? id = some evs ∧ ErrSite rs evs x
  | [], c, tl, x, h => by simp only [parseTracksR] at h; cases h
  | id :: ids, c, tl, x, h => by
    simp only [parseTracksR] at h
    split at h
    · rcases parseTracksR_error rs d ids c tl x h with hf | ⟨id', evs, hm, ht, hs⟩
      · exact Or.inl hf
      · exact Or.inr ⟨id', evs, List.mem_cons_of_mem _ hm, ht, hs⟩
    · rename_i evs hev
      split at h
      · rename_i y hy
        cases h
        rcases (writerRef rs d 64).1 _ _ _ _ _ _ (.refl _) hy with hf | hs
        · exact Or.inl hf
        · exact Or.inr ⟨id, evs, List.mem_cons_self, hev, hs⟩
      · rename_i c' w hok
        rcases parseTracksR_error rs d ids c' _ x h with hf | ⟨id', evs', hm, ht, hs⟩
        · exact Or.inl hf
        · exact Or.inr ⟨id', evs', List.mem_cons_of_mem _ hm, ht, hs⟩

theorem reachR_onChain {rs : RSong} {root : List BEvent} {lh : Bool} {s s₁ : RState} (h : ReachR rs root lh s s₁)
    (hinv : OnChain rs root s.st.core s.ref) : OnChain rs root s₁.st.core s₁.ref := by
  induction h with
  | refl s => exact hinv
  | step s s' s₂ em hs _ ih => exact ih (stepR_onChain rs root lh s s' em hinv hs)

/-- a position is that of a command of `root` or of a track of the song -/
def OnSomeTrack (rs : RSong) (root : List BEvent) (r : Option Ref) : Prop :=
  r = none ∨ ∃ evs, (evs = root ∨ ∃ id, rs.track? id = some evs) ∧ ∃ e ∈ evs, e.ref = r

theorem mem_codeR {rs : RSong} {root : List BEvent} {t : TRef} {e : BEvent} (h : e ∈ codeR rs root t) :
    ∃ evs, (evs = root ∨ ∃ id, rs.track? id = some evs) ∧ e ∈ evs := by
  cases t with
  | root => exact ⟨root, Or.inl rfl, h⟩
  | id n =>
    simp only [codeR] at h
    cases ht : rs.track? n with
    | none => rw [ht] at h; simp at h
    | some evs => rw [ht] at h; exact ⟨evs, Or.inr ⟨n, ht⟩, by simpa using h⟩

theorem onChain_onSomeTrack {rs : RSong} {root : List BEvent} {c : Core} {r : Option Ref} (h : OnChain rs root c r) :
    OnSomeTrack rs root r := by
  rcases h with h | ⟨t, _, e, he, hr⟩
  · exact Or.inl h
  · obtain ⟨evs, hw, hm⟩ := mem_codeR he
    exact Or.inr ⟨evs, hw, e, hm, hr⟩

theorem errSite_onSomeTrack {rs : RSong} {root : List BEvent} {x : RErr} (h : ErrSite rs root x) :
    OnSomeTrack rs root x.ref := by
  induction h with
  | own root s₁ x hreach href =>
    have hoc := reachR_onChain hreach (Or.inl rfl)
    rw [href]
    unfold fetchRef
    split
    · rename_i e he
      obtain ⟨evs, hw, hm⟩ := mem_codeR (List.mem_of_getElem? he)
      exact Or.inr ⟨evs, hw, e, hm, rfl⟩
    · exact onChain_onSomeTrack hoc
  | drum root s₁ id evs x _ hev _ ih =>
    rcases ih with h | ⟨evs', hw, hm⟩
    · exact Or.inl h
    · refine Or.inr ⟨evs', ?_, hm⟩
      rcases hw with rfl | hw
      · exact Or.inr ⟨id, hev⟩
      · exact Or.inr hw

/-! ### which event an error of the hook is about -/

/-- the event a writer step hands to `event_hook` is the event it fetched — except on the final pass
of a loop, where a fetched `LOOP_BREAK` is replaced by the loop's `LOOP_END` event -/
theorem stepTrace_item_fetched (song : Song) (root : List Event) (lh : Bool) (s st' : PState) (it : TraceItem)
    (h : stepTrace song root lh s = .ok (st', some (some it))) :
    it.ev = fetch (codeOf song root s.core.track) s.core.position ∨
    (fetch (codeOf song root s.core.track) s.core.position).kind = .loopBreak := by
  unfold stepTrace at h
  cases hc : coreStep song root s.core with
  | error e => rw [hc] at h; cases h
  | ok p =>
    obtain ⟨c', o⟩ := p
    rw [hc] at h
    simp only [] at h
    cases o with
    | ret e =>
      exfalso
      simp only [accStep] at h
      cases h
    | rootEnd e =>
      exfalso
      simp only [accStep] at h
      split at h <;> cases h
    | hook v f =>
      have hv : it.ev = v := by
        simp only [accStep] at h
        split at h <;> (cases h; rfl)
      rw [hv]
      unfold coreStep at hc
      simp only [] at hc
      split at hc
      case h_2 hk => exact Or.inr hk
      all_goals
        repeat' split at hc
      all_goals first
        | (cases hc; done)
        | (cases hc; exact Or.inl rfl)

theorem flushRest_drumEnabled (w : WState) : (flushRest w).drumEnabled = w.drumEnabled := by
  unfold flushRest; split <;> rfl

theorem prep_drumEnabled (w : WState) (it : TraceItem) : (prep w it).drumEnabled = w.drumEnabled := by
  unfold prep
  simp only []
  split <;> split <;> simp [flushRest_drumEnabled]

theorem ite_eq_cases {α : Type} {c : Prop} {_ : Decidable c} {a b v : α} (h : (if c then a else b) = v) :
    (c ∧ a = v) ∨ (¬c ∧ b = v) := by
  split at h
  · exact Or.inl ⟨‹_›, h⟩
  · exact Or.inr ⟨‹_›, h⟩

theorem checkInstrument_error (d : DataInfo) (t p : Int) (x : WErr) (h : checkInstrument d t p = .error x) :
    x = .insType := by
  unfold checkInstrument at h
  cases hl : d.insType.lookup p with
  | none => rw [hl] at h; cases h
  | some ty0 =>
    rw [hl] at h
    simp only [] at h
    rcases ite_eq_cases h with ⟨_, h⟩ | ⟨_, h⟩
    · cases h; rfl
    rcases ite_eq_cases h with ⟨_, h⟩ | ⟨_, h⟩
    · cases h; rfl
    rcases ite_eq_cases h with ⟨_, h⟩ | ⟨_, h⟩
    · cases h; rfl
    · cases h

/-- what an error of the `switch` of `event_hook` is about -/
def HookErrAbout (it : TraceItem) (drumEnabled : Bool) (x : WErr) : Prop :=
  (it.ev.type = ev_INS ∧ (x = .insType ∨ x = .insMissing)) ∨
  (it.ev.type = ev_PLATFORM ∧ (x = .platformMissing ∨ x = .platformBad)) ∨
  (it.ev.type = ev_PITCH_ENVELOPE ∧ x = .pitchMissing) ∨
  (it.ev.type = ev_NOTE ∧ (drumEnabled = false → x = .noteRange ∨ x = .drumNoteInLoop)) ∨
  it.ev.type = ev_JUMP ∨ it.ev.type = ev_PAN_ENVELOPE

theorem hookVis_error_event (song : Song) (d : DataInfo) (n : Nat) (c : Conv) (w : WState) (it : TraceItem) (x : WErr)
    (h : hookVis song d n c w it = .error x) : HookErrAbout it w.drumEnabled x := by
  unfold hookVis at h
  unfold HookErrAbout
  rcases ite_eq_cases h with ⟨_, h⟩ | ⟨_, h⟩
  · cases h
  rcases ite_eq_cases h with ⟨hty, h⟩ | ⟨_, h⟩
  · -- NOTE
    refine Or.inr (Or.inr (Or.inr (Or.inl ⟨hty, ?_⟩)))
    intro hd
    simp only [hd, Bool.false_eq_true, if_false] at h
    repeat' split at h
    all_goals first
      | (cases h; done)
      | (cases h; exact Or.inl rfl)
      | (cases h; exact Or.inr rfl)
  rcases ite_eq_cases h with ⟨_, h⟩ | ⟨_, h⟩
  · cases h
  rcases ite_eq_cases h with ⟨_, h⟩ | ⟨_, h⟩
  · cases h
  rcases ite_eq_cases h with ⟨_, h⟩ | ⟨_, h⟩
  · cases h
  rcases ite_eq_cases h with ⟨_, h⟩ | ⟨_, h⟩
  · cases h
  rcases ite_eq_cases h with ⟨hty, h⟩ | ⟨_, h⟩
  · exact Or.inr (Or.inr (Or.inr (Or.inr (Or.inl hty))))
  rcases ite_eq_cases h with ⟨_, h⟩ | ⟨_, h⟩
  · cases h
  rcases ite_eq_cases h with ⟨hty, h⟩ | ⟨_, h⟩
  · refine Or.inr (Or.inl ⟨hty, ?_⟩)
    repeat' split at h
    all_goals first
      | (cases h; done)
      | (cases h; exact Or.inl rfl)
      | (cases h; exact Or.inr rfl)
  rcases ite_eq_cases h with ⟨_, h⟩ | ⟨_, h⟩
  · cases h
  rcases ite_eq_cases h with ⟨_, h⟩ | ⟨_, h⟩
  · cases h
  rcases ite_eq_cases h with ⟨_, h⟩ | ⟨_, h⟩
  · cases h
  rcases ite_eq_cases h with ⟨_, h⟩ | ⟨_, h⟩
  · cases h
  rcases ite_eq_cases h with ⟨hty, h⟩ | ⟨_, h⟩
  · refine Or.inl ⟨hty, ?_⟩
    split at h
    · rename_i y hy
      cases h
      exact Or.inl (checkInstrument_error _ _ _ _ hy)
    · repeat' split at h
      all_goals first
        | (cases h; done)
        | (cases h; exact Or.inr rfl)
  rcases ite_eq_cases h with ⟨_, h⟩ | ⟨_, h⟩
  · cases h
  rcases ite_eq_cases h with ⟨_, h⟩ | ⟨_, h⟩
  · cases h
  rcases ite_eq_cases h with ⟨_, h⟩ | ⟨_, h⟩
  · cases h
  rcases ite_eq_cases h with ⟨_, h⟩ | ⟨_, h⟩
  · cases h
  rcases ite_eq_cases h with ⟨hty, h⟩ | ⟨_, h⟩
  · exact Or.inr (Or.inr (Or.inr (Or.inr (Or.inr hty))))
  rcases ite_eq_cases h with ⟨hty, h⟩ | ⟨_, h⟩
  · refine Or.inr (Or.inr (Or.inl ⟨hty, ?_⟩))
    repeat' split at h
    all_goals first
      | (cases h; done)
      | (cases h; rfl)
  rcases ite_eq_cases h with ⟨_, h⟩ | ⟨_, h⟩
  · cases h
  rcases ite_eq_cases h with ⟨_, h⟩ | ⟨_, h⟩
  · cases h
  rcases ite_eq_cases h with ⟨_, h⟩ | ⟨_, h⟩
  · cases h
  · cases h

/-- errors of `event_hook` (nesting fuel aside): only six event types can fail, and for an
instrument, platform or pitch-envelope command and for a note outside drum mode the error is the
one about that very event -/
theorem hook_error_event (song : Song) (d : DataInfo) (fuel : Nat) (c : Conv) (w : WState) (it : TraceItem) (x : WErr)
    (h : hook song d fuel c w it = .error x) : x = .fuel ∨ HookErrAbout it w.drumEnabled x := by
  cases fuel with
  | zero => simp only [hook] at h; cases h; exact Or.inl rfl
  | succ n =>
    rw [hook_succ_eq] at h
    split at h
    · split at h
      · rename_i hty
        split at h
        · rename_i y hy
          cases h
          exact Or.inr (Or.inl ⟨hty, Or.inl (checkInstrument_error _ _ _ _ hy)⟩)
        · cases h
      · cases h
    · have := hookVis_error_event song d n c (prep w it) it x h
      rw [prep_drumEnabled] at this
      exact Or.inr this

end Ctrmml.Refs
