/-
  Helper lemmas for C07: the export seen update by update.

  `MD_Driver::play_step` interleaves the 60 Hz sequence update with the PCM clock; only the
  sequence update (and the loop-marker test that follows it) touches the channels.  `updStep` is
  that part alone, `updRun k` the driver after `k` sequence updates.  `exportLoop_log` shows that
  the export loop of a successful export is exactly: update 0, 1, …, K, the operations of update
  `k` stamped with sample time `735·k`, waits in between that sum to `735·K`, where update `K` is
  the first after which no channel plays any more or the loop count is reached.
-/
import Ctrmml.Proofs.MdDriver
namespace Ctrmml.MdDriver
open Ctrmml Tables

/-- the driver without its two clock counters -/
def Drv.strip (s : Drv) : Drv := { s with seqCounter := 0, pcmCounter := 0 }

/-- one sequence update followed by the loop-marker test of `play_step` -/
def updStep (d : Data) (song : Song) (s : Drv) : Drv × List Vgm.Op :=
  ((stepLoop (seqUpdate d song s).1).1, (seqUpdate d song s).2.flatMap Wr.toOps ++ (stepLoop (seqUpdate d song s).1).2)

/-- the driver after `k` sequence updates -/
def updRun (d : Data) (song : Song) : Nat → Drv → Drv
  | 0, s => s
  | k + 1, s => (updStep d song (updRun d song k s)).1

/-- the operations of update number `k` -/
def updOps (d : Data) (song : Song) (s0 : Drv) (k : Nat) : List Vgm.Op := (updStep d song (updRun d song k s0)).2

/-- the first `K` updates, the operations of update `k` stamped with the sample time `735·k` -/
def schedLog (d : Data) (song : Song) (s0 : Drv) (K : Nat) : List (Nat × Vgm.Op) :=
  (List.range K).flatMap fun k => (updOps d song s0 k).map fun o => (735 * k, o)

theorem schedLog_succ (d : Data) (song : Song) (s0 : Drv) (K : Nat) :
    schedLog d song s0 (K + 1) = schedLog d song s0 K ++ (updOps d song s0 K).map fun o => (735 * K, o) := by
  simp [schedLog, List.range_succ]

/-- the condition under which `vgm_export` leaves its loop -/
def stopCond (s : Drv) : Prop := (!isPlaying s) = true ∨ loopCount s ≥ (vgm_export_num_loops : Int)

/-- no loop marker is pending -/
def LoopQuiet (s : Drv) : Prop := ¬ (s.g.loopTrigger = true ∧ loopCount s = 0)

theorem strip_strip (s : Drv) : s.strip.strip = s.strip := rfl
theorem loopCount_strip (s : Drv) : loopCount s.strip = loopCount s := rfl
theorem isPlaying_strip (s : Drv) : isPlaying s.strip = isPlaying s := rfl
theorem stopCond_strip (s : Drv) : stopCond s.strip ↔ stopCond s := Iff.rfl
theorem loopQuiet_strip (s : Drv) : LoopQuiet s.strip ↔ LoopQuiet s := Iff.rfl

theorem stopCond_of_strip {a b : Drv} (h : a.strip = b.strip) : stopCond a ↔ stopCond b := by
  rw [← stopCond_strip a, ← stopCond_strip b, h]

theorem seqUpdate_strip (d : Data) (song : Song) (s : Drv) :
    (seqUpdate d song s).1.strip = (seqUpdate d song s.strip).1 ∧ (seqUpdate d song s).2 = (seqUpdate d song s.strip).2 := by
  simp [seqUpdate, Drv.strip]

theorem stepLoop_strip (s : Drv) : (stepLoop s).1.strip = (stepLoop s.strip).1 ∧ (stepLoop s).2 = (stepLoop s.strip).2 := by
  unfold stepLoop
  rw [loopCount_strip]
  have : s.strip.g = s.g := rfl
  rw [this]
  split <;> exact ⟨rfl, rfl⟩

theorem stepLoop_quiet (s : Drv) : LoopQuiet (stepLoop s).1 := by
  unfold stepLoop LoopQuiet
  split
  · simp
  · assumption

theorem stepLoop_of_quiet (s : Drv) (h : LoopQuiet s) : stepLoop s = (s, []) := by
  unfold stepLoop; rw [if_neg h]

theorem stepPcm_strip (s : Drv) : (stepPcm s).strip = s.strip := by
  unfold stepPcm; split <;> rfl

theorem updStep_strip (d : Data) (song : Song) (s : Drv) :
    (updStep d song s).1.strip = (updStep d song s.strip).1 ∧ (updStep d song s).2 = (updStep d song s.strip).2 := by
  unfold updStep
  simp only
  rw [(stepLoop_strip _).1, (stepLoop_strip _).2, (seqUpdate_strip d song s).1, (seqUpdate_strip d song s).2]
  exact ⟨rfl, rfl⟩

theorem updStep_strip_id (d : Data) (song : Song) (s : Drv) (h : s.strip = s) : (updStep d song s).1.strip = (updStep d song s).1 := by
  rw [(updStep_strip d song s).1, h]

theorem updRun_strip (d : Data) (song : Song) (s0 : Drv) (h : s0.strip = s0) : ∀ k, (updRun d song k s0).strip = updRun d song k s0
  | 0 => h
  | k + 1 => by simp only [updRun]; exact updStep_strip_id d song _ (updRun_strip d song s0 h k)

theorem playStep_fields (d : Data) (song : Song) (s : Drv) :
    (playStep d song s).1.chans = (stepLoop (stepPcm (stepSeq d song s).1)).1.chans ∧
    (playStep d song s).1.tempoCounter = (stepLoop (stepPcm (stepSeq d song s).1)).1.tempoCounter ∧
    (playStep d song s).1.ticks = (stepLoop (stepPcm (stepSeq d song s).1)).1.ticks ∧
    (playStep d song s).2.1 = (stepSeq d song s).2.flatMap Wr.toOps ++ (stepLoop (stepPcm (stepSeq d song s).1)).2 := by
  simp only [playStep]
  split <;> exact ⟨rfl, rfl, rfl, rfl⟩

theorem strip_ext {a b : Drv} (h1 : a.chans = b.chans) (h2 : a.g = b.g) (h3 : a.tempoCounter = b.tempoCounter)
    (h4 : a.ticks = b.ticks) : a.strip = b.strip := by
  cases a; cases b; simp only [Drv.strip] at *; simp [h1, h2, h3, h4]

/-- one call of `play_step` in a reachable clock state: with the sequence update it is `updStep`,
without it nothing but the clock changes -/
theorem playStep_upd (d : Data) (song : Song) (s : Drv) (t : Int) (k : Nat)
    (h : ClockInv (t, s.seqCounter, s.pcmCounter)) (hk : Counted t k) (hq : LoopQuiet s) :
    LoopQuiet (playStep d song s).1 ∧
    (s.seqCounter ≥ 0 → (playStep d song s).1.strip = (updStep d song s.strip).1 ∧ (playStep d song s).2.1 = (updStep d song s.strip).2) ∧
    (¬ s.seqCounter ≥ 0 → (playStep d song s).1.strip = s.strip ∧ (playStep d song s).2.1 = []) := by
  obtain ⟨f1, f2, f3, f4⟩ := playStep_fields d song s
  have hg := (playStep_inv d song s t k h hk).2.2.2.2.2.2
  have hstrip : (playStep d song s).1.strip = (stepLoop (stepPcm (stepSeq d song s).1)).1.strip := strip_ext f1 hg f2 f3
  refine ⟨?_, ?_, ?_⟩
  · rw [← loopQuiet_strip, hstrip, loopQuiet_strip]; exact stepLoop_quiet _
  · intro hs
    have hseq : stepSeq d song s = seqUpdate d song { s with seqCounter := s.seqCounter - seqDelta } := by
      unfold stepSeq; rw [if_pos hs]
    have e1 : (stepPcm (stepSeq d song s).1).strip = (seqUpdate d song s.strip).1 := by
      rw [stepPcm_strip, hseq, (seqUpdate_strip d song _).1]; rfl
    have e2 : (stepSeq d song s).2 = (seqUpdate d song s.strip).2 := by
      rw [hseq, (seqUpdate_strip d song _).2]; rfl
    constructor
    · rw [hstrip, (stepLoop_strip _).1, e1]
      rfl
    · rw [f4, e2, (stepLoop_strip _).2, e1]
      rfl
  · intro hs
    have hseq : stepSeq d song s = (s, []) := by unfold stepSeq; rw [if_neg hs]
    have hq' : LoopQuiet (stepPcm s) := by rw [← loopQuiet_strip, stepPcm_strip, loopQuiet_strip]; exact hq
    constructor
    · rw [hstrip, hseq, stepLoop_of_quiet _ hq', stepPcm_strip]
    · rw [f4, hseq, stepLoop_of_quiet _ hq']; rfl

theorem G.fail_ne_none (g : G) (e : DErr) : (g.fail e).err ≠ none := by
  unfold G.fail
  split
  · rename_i h; intro hh; rw [hh] at h; cases h
  · simp

/-- **The export loop, update by update.**  From a reachable state in which `k` sequence updates
have run, a run of the export loop that ends without an error ends right after some update
`K ≥ k`: its operation list carries exactly the operations of the updates `0 … K`, those of
update `j` at sample time `735·j`; its waits sum to `735·K`; after update `K` no channel plays
or the loop count is reached, and this was not so after any earlier update. -/
theorem exportLoop_log (d : Data) (song : Song) (s0 : Drv) :
    ∀ (fuel : Nat) (s : Drv) (elapsed delta : Int) (acc : List Vgm.Op) (k : Nat),
    ClockInv (elapsed, s.seqCounter, s.pcmCounter) → Counted elapsed k → 0 ≤ delta →
    (delaySum acc : Int) + delta = elapsed →
    s.strip = updRun d song k s0 → LoopQuiet s → (s.seqCounter ≥ 0 ∨ ¬ stopCond s) →
    (∀ j, 1 ≤ j → j ≤ k → ¬ stopCond (updRun d song j s0)) →
    (∀ j, j ≤ k → (updRun d song j s0).g.err = none) →
    stamps 0 acc = schedLog d song s0 k →
    (exportLoop d song fuel s elapsed delta acc).1.g.err = none →
    ∃ K, k ≤ K ∧ stamps 0 (exportLoop d song fuel s elapsed delta acc).2 = schedLog d song s0 (K + 1) ∧
      delaySum (exportLoop d song fuel s elapsed delta acc).2 = 735 * K ∧
      (exportLoop d song fuel s elapsed delta acc).1.strip = updRun d song (K + 1) s0 ∧
      stopCond (updRun d song (K + 1) s0) ∧ (∀ j, 1 ≤ j → j ≤ K → ¬ stopCond (updRun d song j s0)) ∧
      (∀ j, j ≤ K + 1 → (updRun d song j s0).g.err = none) := by
  intro fuel
  induction fuel with
  | zero =>
    intro s elapsed delta acc k _ _ _ _ _ _ _ _ _ _ herr
    simp only [exportLoop] at herr
    exact absurd herr (G.fail_ne_none _ _)
  | succ fuel ih =>
    intro s elapsed delta acc k hinv hk hd hsum hst hq hent hmin herrs hacc herr
    unfold exportLoop at herr ⊢
    by_cases hmax : elapsed ≥ maxTime
    · rw [if_pos hmax] at herr
      exact absurd herr (G.fail_ne_none _ _)
    · rw [if_neg hmax] at herr ⊢
      have hp := playStep_inv d song s elapsed k hinv hk
      have hu := playStep_upd d song s elapsed k hinv hk hq
      have hops := playStep_ops d song s
      generalize hps : playStep d song s = r at hp hu hops herr
      obtain ⟨s', o, dl⟩ := r
      simp only at hp hu hops herr ⊢
      obtain ⟨hinv', hdl1, _, _, hfire, hk', _⟩ := hp
      obtain ⟨hq', hyes, hno⟩ := hu
      have hnd := stamps_noDelay (0 + delaySum acc + delta.toNat) o hops.1
      have hstamps : stamps 0 (acc ++ Vgm.Op.delay delta.toNat :: o) =
          stamps 0 acc ++ o.map (fun x => (0 + delaySum acc + delta.toNat, x)) := by
        rw [stamps_append]
        simp only [stamps]
        rw [hnd.1]
      have hds : delaySum (acc ++ Vgm.Op.delay delta.toNat :: o) = delaySum acc + delta.toNat := by
        rw [delaySum_append]
        simp [delaySum, hnd.2]
      have hdt : ((delaySum acc + delta.toNat : Nat) : Int) = elapsed := by
        have : (delta.toNat : Int) = delta := Int.toNat_of_nonneg hd
        push_cast; omega
      by_cases he : s'.g.err.isSome = true
      · rw [if_pos he] at herr
        simp only at herr
        rw [herr] at he; cases he
      rw [if_neg he] at herr ⊢
      have he' : s'.g.err = none := by
        cases hh : s'.g.err with
        | none => rfl
        | some e => rw [hh] at he; exact absurd rfl he
      -- the two kinds of step
      by_cases hs : s.seqCounter ≥ 0
      · obtain ⟨y1, y2⟩ := hyes hs
        have hel : elapsed = 735 * (k : Int) := hfire hs
        have hnat : delaySum acc + delta.toNat = 735 * k := by
          have := hdt; rw [hel] at this; omega
        have hs' : s'.strip = updRun d song (k + 1) s0 := by rw [y1, hst]; rfl
        have ho : o = updOps d song s0 k := by rw [y2, hst]; rfl
        have hacc' : stamps 0 (acc ++ Vgm.Op.delay delta.toNat :: o) = schedLog d song s0 (k + 1) := by
          rw [hstamps, hacc, schedLog_succ, ho]
          congr 2
          funext x
          rw [Nat.zero_add, hnat]
        have hk1 : Counted (elapsed + dl) (k + 1) := by simpa [hs] using hk'
        have herr1 : (updRun d song (k + 1) s0).g.err = none := by
          have : s'.strip.g = s'.g := rfl
          rw [← hs', this]; exact he'
        have herrs' : ∀ j, j ≤ k + 1 → (updRun d song j s0).g.err = none := by
          intro j hj
          rcases Nat.lt_or_ge j (k + 1) with h | h
          · exact herrs j (by omega)
          · have : j = k + 1 := by omega
            rw [this]; exact herr1
        by_cases hstop : (!isPlaying s') = true ∨ loopCount s' ≥ (vgm_export_num_loops : Int)
        · rw [if_pos hstop]
          refine ⟨k, Nat.le_refl _, hacc', by rw [hds]; exact hnat, hs', ?_, hmin, herrs'⟩
          rw [← hs']; exact (stopCond_strip s').mpr hstop
        · rw [if_neg hstop] at herr ⊢
          have hmin' : ∀ j, 1 ≤ j → j ≤ k + 1 → ¬ stopCond (updRun d song j s0) := by
            intro j h1 hj
            rcases Nat.lt_or_ge j (k + 1) with h | h
            · exact hmin j h1 (by omega)
            · have : j = k + 1 := by omega
              rw [this, ← hs']; exact fun hh => hstop ((stopCond_strip s').mp hh)
          obtain ⟨K, hK, r1, r2, r3, r4, r5, r6⟩ := ih s' (elapsed + dl) dl _ (k + 1) hinv' hk1 (by omega)
            (by rw [hds, hdt]) hs' hq' (Or.inr hstop) hmin' herrs' hacc' herr
          exact ⟨K, by omega, r1, r2, r3, r4, r5, r6⟩
      · obtain ⟨n1, n2⟩ := hno hs
        have hs' : s'.strip = updRun d song k s0 := by rw [n1, hst]
        have hacc' : stamps 0 (acc ++ Vgm.Op.delay delta.toNat :: o) = schedLog d song s0 k := by
          rw [hstamps, hacc, n2]; simp
        have hk1 : Counted (elapsed + dl) k := by simpa [hs] using hk'
        have hnostop : ¬ stopCond s := by
          rcases hent with h | h
          · exact absurd h hs
          · exact h
        have hnostop' : ¬ ((!isPlaying s') = true ∨ loopCount s' ≥ (vgm_export_num_loops : Int)) := by
          intro hh
          exact hnostop ((stopCond_of_strip n1).mp hh)
        rw [if_neg hnostop'] at herr ⊢
        exact ih s' (elapsed + dl) dl _ k hinv' hk1 (by omega) (by rw [hds, hdt]) hs' hq' (Or.inr hnostop') hmin herrs hacc' herr

/-- **A successful export, update by update.**  The operation list of a successful export is
the header pokes, the initial writes of `play_song`, the export loop `L`, `stop` and the tag;
`L` carries exactly the operations of the updates `0 … K` — those of update `k` at sample time
`735·k` — its waits sum to `735·K`; update `K` is the first after which no channel plays or the
loop count is reached; no error arises up to then. -/
theorem exportOps_log (d : Data) (song : Song) (tags : Vgm.Tags) (ops : List Vgm.Op)
    (h : exportOps d song tags = .ok ops) :
    ∃ K L, ops = ctorPokes ++ (playSong d song).2 ++ L ++ [Vgm.Op.stop, Vgm.Op.writeTag tags] ∧
      stamps 0 L = schedLog d song (playSong d song).1 (K + 1) ∧ delaySum L = 735 * K ∧
      stopCond (updRun d song (K + 1) (playSong d song).1) ∧
      (∀ j, 1 ≤ j → j ≤ K → ¬ stopCond (updRun d song j (playSong d song).1)) ∧
      (∀ j, j ≤ K + 1 → (updRun d song j (playSong d song).1).g.err = none) := by
  unfold exportOps at h
  generalize hps : playSong d song = ps at h ⊢
  obtain ⟨s0, o0⟩ := ps
  simp only at h ⊢
  have hs0 : s0 = (playSong d song).1 := by rw [hps]
  have hc : s0.seqCounter = 0 ∧ s0.pcmCounter = 0 ∧ s0.g.err = none ∧ s0.g.loopTrigger = false := by
    rw [hs0]; simp [playSong]
  have hstrip : s0.strip = s0 := by
    cases s0; simp only [Drv.strip] at hc ⊢; simp [hc.1, hc.2.1]
  have hinv : ClockInv (0, s0.seqCounter, s0.pcmCounter) := by rw [hc.1, hc.2.1]; exact clockInv_init
  have hlog := exportLoop_log d song s0 exportFuel s0 0 0 [] 0 hinv (by unfold Counted; simp) (Int.le_refl 0)
    (by simp [delaySum]) hstrip (by unfold LoopQuiet; rw [hc.2.2.2]; simp) (Or.inl (by rw [hc.1]; exact Int.le_refl 0))
    (by intro j h1 h2; omega) (by intro j hj; have : j = 0 := by omega
                                  rw [this]; exact hc.2.2.1) (by simp [stamps, schedLog])
  generalize hel : exportLoop d song exportFuel s0 0 0 [] = el at h hlog
  obtain ⟨s1, o1⟩ := el
  simp only at h hlog
  split at h
  · exact absurd h (by simp)
  · rename_i herr
    injection h with h
    subst h
    obtain ⟨K, _, r1, r2, _, r4, r5, r6⟩ := hlog herr
    exact ⟨K, o1, rfl, r1, r2, r4, r5, r6⟩

end Ctrmml.MdDriver
