/- C08 helper lemmas: the exporter invariant (header facts, stream, loop bookkeeping) per operation. No property statements. -/
import Ctrmml.Proofs.VgmHdr
namespace Ctrmml.Vgm
open Ctrmml Ctrmml.VgmSpec

/-- header ranges a caller may poke (chip clocks and attributes): everything except magic,
EOF offset, GD3 offset, sample counts, loop fields and the data offset -/
def SafeOff (H a n : Nat) : Prop :=
  (0x08 ≤ a ∧ a + n ≤ 0x14) ∨ (0x24 ≤ a ∧ a + n ≤ 0x34) ∨ (0x38 ≤ a ∧ a + n ≤ H)

/-- the ranges the writer itself pokes (0x04, 0x14, 0x18, 0x1c, 0x20) -/
def OwnOff (a n : Nat) : Prop := 4 ≤ a ∧ (a + n ≤ 8 ∨ (0x14 ≤ a ∧ a + n ≤ 0x24))

structure HdrOk (H : Nat) (hdr0 pre : Bytes) : Prop where
  plen : pre.length = H
  h38 : 0x38 ≤ H
  hA : H ≤ initialAlloc
  magic : pre.take 4 = [0x56, 0x67, 0x6d, 0x20]
  f34 : rdLe32 pre 0x34 = some (H - 0x34)
  keep : ∀ a, SafeOff H a 4 → rdLe32 pre a = rdLe32 hdr0 a

theorem HdrOk.own {H : Nat} {hdr0 pre : Bytes} (h : HdrOk H hdr0 pre) (off : Nat) (bs : Bytes) (ho : OwnOff off bs.length) :
    HdrOk H hdr0 (setL pre off bs) := by
  have hl : off + bs.length ≤ pre.length := by have := h.plen; have := h.h38; unfold OwnOff at ho; omega
  unfold OwnOff at ho
  refine ⟨by rw [setL_length _ _ _ hl]; exact h.plen, h.h38, h.hA, ?_, ?_, ?_⟩
  · rw [take4_setL _ _ _ hl ho.1]; exact h.magic
  · rw [rdLe32_setL_other _ _ _ _ hl (by omega)]; exact h.f34
  · intro a ha
    rw [rdLe32_setL_other _ _ _ _ hl (by unfold SafeOff at ha; omega)]; exact h.keep a ha

theorem poke_hdr (s : W) (pre : Bytes) (rest : List Cell) (hm : s.mem = pre.map some ++ rest) (off : Nat) (bs : Bytes)
    (h : off + bs.length ≤ pre.length) :
    poke s off bs = .ok { s with mem := (setL pre off bs).map some ++ rest } := by
  unfold poke
  have : off + bs.length ≤ s.pos := by unfold W.pos; rw [hm]; simp; omega
  simp only [this, if_true]
  rw [hm, setCells_pre' _ _ _ _ h]; rfl

def M32 : Nat := 4294967296

/-- loop bookkeeping: `none` = no loop point so far; `some (k, D)` = the loop point is the
boundary before command `k`, `D` samples into the song -/
def LoopInv (H : Nat) (s : W) (pre : Bytes) (cs : List (Nat × Cmd)) : Option (Nat × Nat) → Prop
  | none => s.loopSet = false ∧ rdLe32 pre 0x1c = some 0
  | some (k, D) => s.loopSet = true ∧ k ≤ cs.length ∧
      rdLe32 pre 0x1c = some ((H + sizes (cs.take k) - 0x1c) % 4294967296) ∧
      waits (cs.take k) = D ∧ s.loopSample = D % 4294967296

structure XInv (H : Nat) (hdr0 : Bytes) (s : W) (pre body : Bytes) (cs : List (Nat × Cmd)) (lk : Option (Nat × Nat)) : Prop where
  mem : s.mem = pre.map some ++ body.map some
  hdr : HdrOk H hdr0 pre
  emits : Emits body cs
  sz : sizes cs = body.length
  samp : s.samples = waits cs % 4294967296
  safe : Safe s
  ncomp : s.completed = false
  z20 : rdLe32 pre 0x20 = some 0
  loop : LoopInv H s pre cs lk

theorem LoopInv.mono {H : Nat} {s s' : W} {pre : Bytes} {cs c : List (Nat × Cmd)} {lk}
    (h : LoopInv H s pre cs lk) (h1 : s'.loopSet = s.loopSet) (h2 : s'.loopSample = s.loopSample) :
    LoopInv H s' pre (cs ++ c) lk := by
  cases lk with
  | none => exact ⟨by rw [h1]; exact h.1, h.2⟩
  | some p =>
    obtain ⟨k, D⟩ := p
    obtain ⟨a, b, c', d, e⟩ := h
    refine ⟨by rw [h1]; exact a, by simp; omega, ?_, ?_, by rw [h2]; exact e⟩
    · rw [List.take_append_of_le_length b]; exact c'
    · rw [List.take_append_of_le_length b]; exact d

theorem sizes_replicate (k n : Nat) (c : Cmd) : sizes (List.replicate k (n, c)) = k * n := by
  induction k with
  | zero => simp [sizes]
  | succ k ih =>
    rw [List.replicate_succ]
    have : sizes ((n, c) :: List.replicate k (n, c)) = n + sizes (List.replicate k (n, c)) := by simp [sizes]
    rw [this, ih, Nat.succ_mul]; omega

theorem sizes_delayCmds (d : Nat) : sizes (delayCmds d) = (delayBytes d).length := by
  unfold delayCmds delayBytes
  have hc : delayChunk = 65535 := rfl
  have hm : delayShortMax = 16 := rfl
  rw [sizes_append, sizes_replicate, List.length_append, flatten_replicate_length, hc, hm]
  split
  · simp [sizes, le16]
  · split <;> simp [sizes]

/-- an emitting operation (`write`, `dac_*`, `datablock`) on an invariant state -/
theorem emit_x {H : Nat} {hdr0 : Bytes} {s : W} {pre body : Bytes} {cs lk} (inv : XInv H hdr0 s pre body cs lk)
    (hp : s.pending < 2147483648) (n : Nat) (bs : Bytes) (c : List (Nat × Cmd))
    (he : Emits bs c) (hw : waits c = 0) (hsz : sizes c = bs.length) (hl : bs.length ≤ n) :
    ∃ s', emit s n bs = .ok s' ∧ s'.pending = 0 ∧
      XInv H hdr0 s' pre (body ++ (delayBytes s.pending ++ bs)) (cs ++ (delayCmds s.pending ++ c)) lk := by
  rcases emit_spec s n bs inv.safe.1 inv.safe.2 hl with ⟨_, h2⟩ | ⟨s2, he', g, p0, m, sm, l1, l2, c1⟩
  · omega
  · refine ⟨s2, he', p0, ⟨?_, inv.hdr, inv.emits.append ((emits_delay _).append he), ?_, ?_, ⟨g, ?_⟩, ?_, inv.z20, ?_⟩⟩
    · rw [m, inv.mem]; simp
    · rw [sizes_append, sizes_append, sizes_delayCmds, hsz, inv.sz]; simp
    · rw [sm, inv.samp, waits_append, waits_append, waits_delayCmds, hw]; omega
    · rw [sm]; omega
    · rw [c1]; exact inv.ncomp
    · exact inv.loop.mono l1 l2

/-- `add_delay` alone (as in `set_loop` and `stop`) -/
theorem addDelay_x {H : Nat} {hdr0 : Bytes} {s : W} {pre body : Bytes} {cs lk} (inv : XInv H hdr0 s pre body cs lk)
    (hp : s.pending < 2147483648) :
    ∃ s', addDelay s = .ok s' ∧ s'.pending = 0 ∧
      XInv H hdr0 s' pre (body ++ delayBytes s.pending) (cs ++ delayCmds s.pending) lk := by
  rcases addDelay_spec s inv.safe.1 inv.safe.2 with ⟨_, h2⟩ | ⟨s2, he', g, p0, m, sm, l1, l2, c1⟩
  · omega
  · refine ⟨s2, he', p0, ⟨?_, inv.hdr, inv.emits.append (emits_delay _), ?_, ?_, ⟨g, ?_⟩, ?_, inv.z20, ?_⟩⟩
    · rw [m, inv.mem]; simp
    · rw [sizes_append, sizes_delayCmds, inv.sz]; simp
    · rw [sm, inv.samp, waits_append, waits_delayCmds]; omega
    · rw [sm]; omega
    · rw [c1]; exact inv.ncomp
    · exact inv.loop.mono l1 l2

theorem XInv.pos {H : Nat} {hdr0 : Bytes} {s : W} {pre body : Bytes} {cs lk} (inv : XInv H hdr0 s pre body cs lk) :
    s.pos = H + body.length := by
  unfold W.pos; rw [inv.mem]; simp [inv.hdr.plen]

/-- `set_loop` -/
theorem setLoop_x {H : Nat} {hdr0 : Bytes} {s : W} {pre body : Bytes} {cs lk} (inv : XInv H hdr0 s pre body cs lk)
    (hp : s.pending < 2147483648) :
    ∃ s' pre', setLoop s = .ok s' ∧ s'.pending = 0 ∧
      XInv H hdr0 s' pre' (body ++ delayBytes s.pending) (cs ++ delayCmds s.pending)
        (some ((cs ++ delayCmds s.pending).length, waits cs + s.pending)) := by
  obtain ⟨s1, h1, p1, inv1⟩ := addDelay_x inv hp
  have hpl := inv1.hdr.plen
  have h38 := inv1.hdr.h38
  unfold setLoop
  simp only [h1, bind, Except.bind, poke32]
  have hm : ({ s1 with loopSample := s1.samples, loopSet := true } : W).mem = pre.map some ++ (body ++ delayBytes s.pending).map some := inv1.mem
  rw [poke_hdr _ pre _ hm 0x1c _ (by simp; omega)]
  refine ⟨_, _, rfl, p1, ⟨rfl, inv1.hdr.own _ _ (by unfold OwnOff; simp), inv1.emits, inv1.sz, inv1.samp, ?_, inv1.ncomp, ?_, ?_⟩⟩
  · have := inv1.safe
    refine ⟨⟨?_, this.1.2⟩, this.2⟩
    show (List.map some (setL pre 0x1c _) ++ _).length ≤ s1.alloc
    have hg := this.1.1
    unfold W.pos at hg; rw [inv1.mem] at hg
    simp [setL_length _ _ _ (show 0x1c + (le32 (s1.pos - 0x1c)).length ≤ pre.length by simp; omega)] at hg ⊢
    exact hg
  · rw [rdLe32_setL_other _ _ _ _ (by simp; omega) (by simp)]; exact inv1.z20
  · refine ⟨rfl, Nat.le_refl _, ?_, ?_, ?_⟩
    · rw [rdLe32_setL_same _ _ _ (by omega), List.take_length, inv1.sz, inv1.pos]
    · rw [List.take_length, waits_append, waits_delayCmds]
    · show s1.samples = _
      rw [inv1.samp, waits_append, waits_delayCmds]

/-- the command list a VGM reader must see for an exporter operation sequence that starts
with `p` pending samples and ends with `stop` -/
def expected : Nat → List XOp → List (Nat × Cmd)
  | p, [] => delayCmds p
  | p, x :: r =>
    match x with
    | .delay n => expected (p + n) r
    | x => delayCmds p ++ x.cmds ++ expected 0 r

def loopD1 (T : Nat) (cur : Option Nat) : XOp → Option Nat
  | .setLoop => some T
  | _ => cur

/-- samples before the last loop point (`T` = samples so far) -/
def loopD : Nat → Option Nat → List XOp → Option Nat
  | _, cur, [] => cur
  | T, cur, x :: r => loopD (T + x.delayOf) (loopD1 T cur x) r


/-- one exporter operation -/
theorem xstep_x {H : Nat} {hdr0 : Bytes} {s : W} {pre body : Bytes} {cs lk} (x : XOp) (hv : x.valid)
    (inv : XInv H hdr0 s pre body cs lk) (hp : s.pending + x.delayOf < 2147483648) :
    ∃ s' pre' body' cs' lk', step s x.toOp = .ok s' ∧ XInv H hdr0 s' pre' body' cs' lk' ∧
      (∀ r, cs' ++ expected s'.pending r = cs ++ expected s.pending (x :: r)) ∧
      lk'.map Prod.snd = loopD1 (waits cs + s.pending) (lk.map Prod.snd) x ∧
      waits cs' + s'.pending = waits cs + s.pending + x.delayOf ∧ s'.pending ≤ s.pending + x.delayOf := by
  have hp' : s.pending < 2147483648 := by omega
  have fin : ∀ (n : Nat) (bs : Bytes) (c : List (Nat × Cmd)) (hx : x.cmds = c) (hd : x.delayOf = 0)
      (hne : ∀ r, expected s.pending (x :: r) = delayCmds s.pending ++ x.cmds ++ expected 0 r)
      (hl1 : ∀ T cur, loopD1 T cur x = cur),
      Emits bs c → waits c = 0 → sizes c = bs.length → bs.length ≤ n → step s x.toOp = emit s n bs →
      ∃ s' pre' body' cs' lk', step s x.toOp = .ok s' ∧ XInv H hdr0 s' pre' body' cs' lk' ∧
        (∀ r, cs' ++ expected s'.pending r = cs ++ expected s.pending (x :: r)) ∧
        lk'.map Prod.snd = loopD1 (waits cs + s.pending) (lk.map Prod.snd) x ∧
        waits cs' + s'.pending = waits cs + s.pending + x.delayOf ∧ s'.pending ≤ s.pending + x.delayOf := by
    intro n bs c hx hd hne hl1 he hw hsz hl hst
    obtain ⟨s', h1, p0, inv'⟩ := emit_x inv hp' n bs c he hw hsz hl
    refine ⟨s', _, _, _, lk, by rw [hst]; exact h1, inv', ?_, by rw [hl1], ?_, ?_⟩
    · intro r; rw [p0, hne, hx]; simp
    · rw [p0, hd, waits_append, waits_append, waits_delayCmds, hw]; omega
    · omega
  cases x with
  | psg d =>
    exact fin _ _ _ rfl rfl (fun _ => rfl) (fun _ _ => rfl) (emits_psg d) (waits_cmds _) (by simp [XOp.cmds, sizes, writeBytes, byteOf])
      (writeBytes_length _ _ _ _) rfl
  | ym p r d =>
    exact fin _ _ _ rfl rfl (fun _ => rfl) (fun _ _ => rfl) (emits_ym (if p then 1 else 0) r d (by split <;> omega))
      (waits_cmds _) (by simp [XOp.cmds, sizes, writeBytes]) (writeBytes_length _ _ _ _) rfl
  | delay n =>
    refine ⟨delay s n, pre, body, cs, lk, rfl, ⟨inv.mem, inv.hdr, inv.emits, inv.sz, inv.samp, inv.safe, inv.ncomp, inv.z20, ?_⟩, ?_, rfl, ?_, ?_⟩
    · have := inv.loop
      cases lk with
      | none => exact this
      | some p => exact this
    · intro r; rfl
    · simp [delay, XOp.delayOf]; omega
    · simp [delay, XOp.delayOf]
  | setLoop =>
    obtain ⟨s', pre', h1, p0, inv'⟩ := setLoop_x inv hp'
    refine ⟨s', pre', _, _, _, h1, inv', ?_, rfl, ?_, by omega⟩
    · intro r; rw [p0]; simp [expected, XOp.cmds]
    · rw [p0, waits_append, waits_delayCmds]; simp [XOp.delayOf]
  | dacSetup a b c d e =>
    exact fin _ _ _ rfl rfl (fun _ => rfl) (fun _ _ => rfl) (emits_dacSetup a b c d e) (waits_cmds _) (by simp [XOp.cmds, sizes, dacSetupBytes])
      (by simp [dacSetupBytes, Tables.vgm_reserve_dac_setup]) rfl
  | dacStart a b c d =>
    exact fin _ _ _ rfl rfl (fun _ => rfl) (fun _ _ => rfl) (emits_dacStart a b c d) (waits_cmds _) (by simp [XOp.cmds, sizes, dacStartBytes])
      (by simp [dacStartBytes, Tables.vgm_reserve_dac_start]) rfl
  | dacStop a =>
    exact fin _ _ _ rfl rfl (fun _ => rfl) (fun _ _ => rfl) (emits_dacStop a) (waits_cmds _) (by simp [XOp.cmds, sizes])
      (by simp [Tables.vgm_reserve_dac_stop]) rfl
  | datablock t p m o =>
    have hr : isRomDump t = false := by have := hv.1; simp [isRomDump]; omega
    exact fin _ _ _ rfl rfl (fun _ => rfl) (fun _ _ => rfl) (emits_datablock t p m o hv.1 hv.2) (waits_cmds _)
      (by simp [XOp.cmds, sizes, datablockBytes, hr]; omega)
      (by simp [datablockBytes, hr, Tables.vgm_reserve_datablock_extra]; omega) rfl

theorem steps_append (s : W) (a b : List Op) :
    steps s (a ++ b) = match steps s a with | .ok s' => steps s' b | .error e => .error e := by
  induction a generalizing s with
  | nil => rfl
  | cons o os ih =>
    simp only [List.cons_append, steps]
    cases step s o with
    | error e => rfl
    | ok s' => exact ih s'

/-- a whole exporter operation sequence -/
theorem xsteps_x {H : Nat} {hdr0 : Bytes} (xs : List XOp) {s : W} {pre body : Bytes} {cs lk} (hv : ∀ x ∈ xs, x.valid)
    (inv : XInv H hdr0 s pre body cs lk) (hp : s.pending + (xs.map XOp.delayOf).sum < 2147483648) :
    ∃ s' pre' body' cs' lk', steps s (xs.map XOp.toOp) = .ok s' ∧ XInv H hdr0 s' pre' body' cs' lk' ∧
      cs' ++ delayCmds s'.pending = cs ++ expected s.pending xs ∧
      lk'.map Prod.snd = loopD (waits cs + s.pending) (lk.map Prod.snd) xs ∧
      waits cs' + s'.pending = waits cs + s.pending + (xs.map XOp.delayOf).sum := by
  induction xs generalizing s pre body cs lk with
  | nil => exact ⟨s, pre, body, cs, lk, rfl, inv, rfl, rfl, by simp⟩
  | cons x xs ih =>
    simp only [List.map_cons, List.sum_cons] at hp
    obtain ⟨s1, p1, b1, c1, l1, h1, inv1, e1, k1, w1, q1⟩ := xstep_x x (hv x (by simp)) inv (by omega)
    obtain ⟨s2, p2, b2, c2, l2, h2, inv2, e2, k2, w2⟩ := ih (fun y hy => hv y (by simp [hy])) inv1 (by omega)
    refine ⟨s2, p2, b2, c2, l2, ?_, inv2, ?_, ?_, ?_⟩
    · simp only [List.map_cons, steps, h1]; exact h2
    · rw [e2, e1]
    · rw [k2, k1, w1]; rfl
    · simp only [List.map_cons, List.sum_cons]; omega


theorem initialAlloc_eq : initialAlloc = 100000 := rfl

/-- the header bytes the constructor produces -/
def ctorHdr (version H : Nat) : Bytes :=
  setL (setL (setL (List.replicate H 0) 0 [0x56, 0x67, 0x6d, 0x20]) 8 [byteOf version, 0x01]) 0x34 (le32 (H - 0x34))

/-- the constructed state satisfies the exporter invariant with an empty stream -/
theorem ctor_x (version H : Nat) (h1 : 0x38 ≤ H) (h2 : H ≤ initialAlloc) :
    ∃ s pre, ctor version H = .ok s ∧ XInv H pre s pre [] [] none ∧ s.pending = 0 ∧ pre = ctorHdr version H := by
  unfold ctor
  simp only [show ¬ H < 0x38 from by omega, show ¬ H > initialAlloc from by omega, if_false]
  have h0 : (List.range H).map fresh = (List.replicate H (0 : UInt8)).map some ++ [] := by
    rw [List.append_nil]
    apply List.ext_getElem
    · simp
    · intro i hi1 hi2
      simp at hi1
      simp [fresh]; omega
  have hA := initialAlloc_eq
  let p0 : Bytes := List.replicate H 0
  have l0 : p0.length = H := by simp [p0]
  have e1 := setCells_pre' p0 [0x56, 0x67, 0x6d, 0x20] [] 0 (by simp [p0]; omega)
  have l1 : (setL p0 0 [0x56, 0x67, 0x6d, 0x20]).length = H := by rw [setL_length _ _ _ (by simp [p0]; omega)]; exact l0
  have e2 := setCells_pre' (setL p0 0 [0x56, 0x67, 0x6d, 0x20]) [byteOf version, 0x01] [] 8 (by rw [l1]; simp; omega)
  have l2 : (setL (setL p0 0 [0x56, 0x67, 0x6d, 0x20]) 8 [byteOf version, 0x01]).length = H := by
    rw [setL_length _ _ _ (by rw [l1]; simp; omega)]; exact l1
  have e3 := setCells_pre' (setL (setL p0 0 [0x56, 0x67, 0x6d, 0x20]) 8 [byteOf version, 0x01]) (le32 (H - 0x34)) [] 0x34
    (by rw [l2]; simp; omega)
  have l3 : (setL (setL (setL p0 0 [0x56, 0x67, 0x6d, 0x20]) 8 [byteOf version, 0x01]) 0x34 (le32 (H - 0x34))).length = H := by
    rw [setL_length _ _ _ (by rw [l2]; simp; omega)]; exact l2
  change setCells (List.map some p0 ++ []) 0 _ = List.map some (setL p0 0 _) ++ [] at e1
  change setCells _ 8 _ = List.map some (setL _ 8 _) ++ [] at e2
  change setCells _ 0x34 _ = List.map some (setL _ 0x34 _) ++ [] at e3
  rw [h0, e1, e2, e3]
  generalize hp3 : setL (setL (setL p0 0 [0x56, 0x67, 0x6d, 0x20]) 8 [byteOf version, 0x01]) 0x34 (le32 (H - 0x34)) = p3 at l3
  have rd : ∀ a, a + 4 ≤ H → 0x0c ≤ a → (a + 4 ≤ 0x34 ∨ 0x38 ≤ a) → rdLe32 p3 a = some 0 := by
    intro a ha hb hc
    rw [← hp3, rdLe32_setL_other _ _ _ _ (by rw [l2]; simp; omega) (by simp; omega),
      rdLe32_setL_other _ _ _ _ (by rw [l1]; simp; omega) (by simp; omega),
      rdLe32_setL_other _ _ _ _ (by rw [l0]; simp; omega) (by simp; omega)]
    exact rdLe32_replicate_zero H a ha
  refine ⟨_, p3, rfl, ⟨by simp, ⟨l3, h1, h2, ?_, ?_, fun _ _ => rfl⟩, Emits.nil, by simp [sizes], by simp [waits], ⟨⟨?_, ?_⟩, ?_⟩, rfl,
    rd 0x20 (by omega) (by omega) (by omega), ⟨rfl, rd 0x1c (by omega) (by omega) (by omega)⟩⟩, rfl, hp3.symm⟩
  · rw [← hp3, take4_setL _ _ _ (by rw [l2]; simp; omega) (by omega), take4_setL _ _ _ (by rw [l1]; simp; omega) (by omega)]
    simp [setL, p0]
  · rw [← hp3, rdLe32_setL_same _ _ _ (by rw [l2]; omega)]
    congr 1; omega
  · show (List.map some p3 ++ []).length ≤ initialAlloc
    simp; omega
  · show 0 < initialAlloc
    omega
  · show (0 : Nat) < 4294967296
    omega

/-- a caller's header poke in the safe ranges, before any command is written -/
theorem poke_x {H : Nat} {s : W} {pre : Bytes} (inv : XInv H pre s pre [] [] none) (off : Nat) (bs : Bytes)
    (hs : SafeOff H off bs.length) :
    ∃ s' pre', poke s off bs = .ok s' ∧ XInv H pre' s' pre' [] [] none ∧ s'.pending = s.pending ∧
      pre' = setL pre off bs := by
  have hpl := inv.hdr.plen
  have h38 := inv.hdr.h38
  have hl : off + bs.length ≤ pre.length := by unfold SafeOff at hs; omega
  unfold SafeOff at hs
  refine ⟨_, setL pre off bs, poke_hdr s pre _ inv.mem off bs hl, ⟨rfl, ⟨?_, h38, inv.hdr.hA, ?_, ?_, fun _ _ => rfl⟩, Emits.nil, inv.sz,
    inv.samp, ?_, inv.ncomp, ?_, ⟨inv.loop.1, ?_⟩⟩, rfl, rfl⟩
  · rw [setL_length _ _ _ hl]; exact hpl
  · rw [take4_setL _ _ _ hl (by omega)]; exact inv.hdr.magic
  · rw [rdLe32_setL_other _ _ _ _ hl (by omega)]; exact inv.hdr.f34
  · have := inv.safe
    refine ⟨⟨?_, this.1.2⟩, this.2⟩
    have hg := this.1.1
    unfold W.pos at hg ⊢; rw [inv.mem] at hg
    simp [setL_length _ _ _ hl] at hg ⊢
    exact hg
  · rw [rdLe32_setL_other _ _ _ _ hl (by omega)]; exact inv.z20
  · rw [rdLe32_setL_other _ _ _ _ hl (by omega)]; exact inv.loop.2

def pokeOps (pokes : List (Nat × Bytes)) : List Op := pokes.map fun p => Op.poke p.1 p.2

theorem pokes_x {H : Nat} (pokes : List (Nat × Bytes)) {s : W} {pre : Bytes} (inv : XInv H pre s pre [] [] none)
    (hs : ∀ p ∈ pokes, SafeOff H p.1 p.2.length) :
    ∃ s' pre', steps s (pokeOps pokes) = .ok s' ∧ XInv H pre' s' pre' [] [] none ∧ s'.pending = s.pending ∧
      pre' = pokes.foldl (fun h p => setL h p.1 p.2) pre := by
  induction pokes generalizing s pre with
  | nil => exact ⟨s, pre, rfl, inv, rfl, rfl⟩
  | cons p ps ih =>
    obtain ⟨s1, p1, h1, inv1, q1, e1⟩ := poke_x inv p.1 p.2 (hs p (by simp))
    obtain ⟨s2, p2, h2, inv2, q2, e2⟩ := ih inv1 (fun q hq => hs q (by simp [hq]))
    refine ⟨s2, p2, ?_, inv2, by rw [q2, q1], ?_⟩
    · show steps s (Op.poke p.1 p.2 :: pokeOps ps) = _
      simp only [steps, step, h1]; exact h2
    · rw [e2, e1]; rfl

/-- loop fields after `stop` -/
def LoopFin (H : Nat) (pre : Bytes) (cs : List (Nat × Cmd)) : Option (Nat × Nat) → Prop
  | none => rdLe32 pre 0x1c = some 0 ∧ rdLe32 pre 0x20 = some 0
  | some (k, D) => k ≤ cs.length ∧
      rdLe32 pre 0x1c = some ((H + sizes (cs.take k) - 0x1c) % 4294967296) ∧
      waits (cs.take k) = D ∧ rdLe32 pre 0x20 = some ((waits cs - D) % 4294967296)

/-- state after `stop`: `rest` is what follows the end marker -/
structure SInv (H : Nat) (hdr0 : Bytes) (s : W) (pre body rest : Bytes) (cs : List (Nat × Cmd)) (lk : Option (Nat × Nat)) : Prop where
  mem : s.mem = pre.map some ++ (body ++ 0x66 :: rest).map some
  hdr : HdrOk H hdr0 pre
  emits : Emits body cs
  sz : sizes cs = body.length
  f18 : rdLe32 pre 0x18 = some (waits cs % 4294967296)
  safe : Safe s
  comp : s.completed = true
  loop : LoopFin H pre cs lk

theorem waits_take_le (cs : List (Nat × Cmd)) (k : Nat) : waits (cs.take k) ≤ waits cs := by
  have := waits_append (cs.take k) (cs.drop k)
  rw [List.take_append_drop] at this; omega

theorem Safe_of_len {s s' : W} (h : Safe s) (hl : s'.mem.length = s.mem.length) (ha : s'.alloc = s.alloc)
    (hs : s'.samples = s.samples) : Safe s' := by
  unfold Safe Good W.pos at *; rw [hl, ha, hs]; exact h

/-- `stop` -/
theorem stop_x {H : Nat} {hdr0 : Bytes} {s : W} {pre body : Bytes} {cs lk} (inv : XInv H hdr0 s pre body cs lk)
    (hp : s.pending < 2147483648) :
    ∃ s' pre', stop s = .ok s' ∧
      SInv H hdr0 s' pre' (body ++ delayBytes s.pending) [] (cs ++ delayCmds s.pending) lk := by
  obtain ⟨s1, h1, p1, inv1⟩ := addDelay_x inv hp
  generalize body ++ delayBytes s.pending = body1 at inv1 ⊢
  generalize cs ++ delayCmds s.pending = cs1 at inv1 ⊢
  have hpl := inv1.hdr.plen
  have h38 := inv1.hdr.h38
  obtain ⟨s2, h2, g2, m2⟩ := reserve_put s1 Tables.vgm_reserve_stop [0x66] inv1.safe.1 (by simp [Tables.vgm_reserve_stop])
  have e2 : s2.samples = s1.samples ∧ s2.loopSet = s1.loopSet ∧ s2.loopSample = s1.loopSample := by
    unfold put at h2; split at h2 <;> cases h2; exact ⟨rfl, rfl, rfl⟩
  have hm2 : s2.mem = pre.map some ++ (body1 ++ [0x66]).map some := by rw [m2, inv1.mem]; simp
  unfold stop
  simp only [h1, h2, bind, Except.bind, poke32]
  rw [poke_hdr s2 pre _ hm2 0x18 _ (by simp; omega)]
  have l18 : (setL pre 0x18 (le32 s2.samples)).length = pre.length := setL_length _ _ _ (by simp; omega)
  have hd18 := inv1.hdr.own 0x18 (le32 s2.samples) (by unfold OwnOff; simp)
  have f18 : rdLe32 (setL pre 0x18 (le32 s2.samples)) 0x18 = some (waits cs1 % 4294967296) := by
    rw [rdLe32_setL_same _ _ _ (by omega), e2.1, inv1.samp]; congr 1; omega
  have sf2 : Safe s2 := ⟨g2, by rw [e2.1]; exact inv1.safe.2⟩
  cases lk with
  | none =>
    obtain ⟨ls, l1c⟩ := inv1.loop
    have : s2.loopSet = false := by rw [e2.2.1]; exact ls
    simp only [this]
    refine ⟨_, _, rfl, ⟨rfl, hd18, inv1.emits, inv1.sz, f18, ?_, rfl, ?_, ?_⟩⟩
    · exact Safe_of_len sf2 (by show (List.map some _ ++ _).length = _; rw [hm2]; simp [l18]) rfl rfl
    · rw [rdLe32_setL_other _ _ _ _ (by simp; omega) (by simp)]; exact l1c
    · rw [rdLe32_setL_other _ _ _ _ (by simp; omega) (by simp)]; exact inv1.z20
  | some p =>
    obtain ⟨k, D⟩ := p
    obtain ⟨ls, hk, l1c, hD, hls⟩ := inv1.loop
    have : s2.loopSet = true := by rw [e2.2.1]; exact ls
    simp only [this, if_true]
    rw [poke_hdr _ (setL pre 0x18 (le32 s2.samples)) _ rfl 0x20 _ (by rw [l18]; simp; omega)]
    have l20 : ∀ v, (setL (setL pre 0x18 (le32 s2.samples)) 0x20 (le32 v)).length = pre.length := by
      intro v; rw [setL_length _ _ _ (by rw [l18]; simp; omega), l18]
    refine ⟨_, _, rfl, ⟨rfl, hd18.own 0x20 _ (by unfold OwnOff; simp), inv1.emits, inv1.sz, ?_, ?_, rfl, hk, ?_, hD, ?_⟩⟩
    · rw [rdLe32_setL_other _ _ _ _ (by rw [l18]; simp; omega) (by simp)]; exact f18
    · exact Safe_of_len sf2 (by show (List.map some _ ++ _).length = _; rw [hm2]; simp [l20]) rfl rfl
    · rw [rdLe32_setL_other _ _ _ _ (by rw [l18]; simp; omega) (by simp),
        rdLe32_setL_other _ _ _ _ (by simp; omega) (by simp)]
      exact l1c
    · rw [rdLe32_setL_same _ _ _ (by rw [l18]; omega)]
      show some ((s2.samples + 4294967296 - s2.loopSample) % 4294967296 % 4294967296) = _
      rw [e2.1, e2.2.2, inv1.samp, hls]
      have := waits_take_le cs1 k
      rw [hD] at this
      congr 1; omega


/-- the code units `add_gd3` stores for a tag: decoded, cut at 256 units -/
def gd3Units (t : Bytes) : List Nat :=
  match utf8ToUtf16 (cstr t) with
  | .ok us => us.take gd3MaxUnits
  | .error _ => []

/-- the GD3 string area for a list of tags -/
def gd3Body : List Bytes → Bytes
  | [] => []
  | t :: ts => (unitsBytes (gd3Units t) ++ [0, 0]) ++ gd3Body ts

def Decodable (t : Bytes) : Prop := ∃ us, utf8ToUtf16 (cstr t) = .ok us

theorem gd3Units_length (t : Bytes) : (gd3Units t).length ≤ 256 := by
  unfold gd3Units
  split
  · rw [List.length_take]; exact Nat.min_le_left _ _
  · simp

theorem addGd3All_eq (ts : List Bytes) (s : W) (hd : ∀ t ∈ ts, Decodable t) (hk : s.pos + ts.length * 514 ≤ s.alloc) :
    addGd3All s ts = .ok { s with mem := s.mem ++ (gd3Body ts).map some } := by
  induction ts generalizing s with
  | nil => simp [addGd3All, gd3Body]
  | cons t ts ih =>
    rw [List.length_cons] at hk
    have hk1 : s.pos + 514 ≤ s.alloc := by omega
    have hk2 : s.pos + 514 + ts.length * 514 ≤ s.alloc := by omega
    clear hk
    obtain ⟨us, hu⟩ := hd t (by simp)
    have hgu : gd3Units t = us.take gd3MaxUnits := by unfold gd3Units; rw [hu]
    have hl : (unitsBytes (gd3Units t) ++ [0, 0]).length ≤ 514 := by
      have := gd3Units_length t
      rw [List.length_append, unitsBytes_length]
      simp only [List.length_cons, List.length_nil]; omega
    unfold addGd3All addGd3
    simp only [hu]
    rw [← hgu, put_ok s _ (by omega)]
    simp only []
    rw [ih _ (fun q hq => hd q (by simp [hq]))]
    · simp [gd3Body]
    · show (s.mem ++ _).length + _ ≤ s.alloc
      unfold W.pos at hk2
      rw [List.length_append, List.length_map]
      generalize (unitsBytes (gd3Units t) ++ [0, 0]).length = n at hl ⊢
      omega

theorem skip_ok (s : W) (k : Nat) (hk : s.pos + k ≤ s.alloc) :
    skip s k = .ok { s with mem := s.mem ++ (List.range k).map fun i => fresh (s.pos + i) } := by
  unfold skip; simp [hk]

theorem poke_mid (s : W) (A X B : List Cell) (bs : Bytes) (hm : s.mem = A ++ X ++ B) (hx : X.length = bs.length) :
    poke s A.length bs = .ok { s with mem := A ++ bs.map some ++ B } := by
  unfold poke
  have : A.length + bs.length ≤ s.pos := by unfold W.pos; rw [hm]; simp; omega
  simp only [this, if_true]
  congr 2
  unfold setCells
  have h1 : List.take A.length (A ++ X ++ B) = A := by simp
  have h2 : List.drop (A.length + bs.length) (A ++ X ++ B) = B := by
    rw [← hx, ← List.length_append]; simp
  rw [hm, h1, h2]

theorem gd3Body_length (ts : List Bytes) : (gd3Body ts).length ≤ ts.length * 514 := by
  induction ts with
  | nil => simp [gd3Body]
  | cons t ts ih =>
    have := gd3Units_length t
    simp only [gd3Body, List.length_append, unitsBytes_length, List.length_cons, List.length_nil]
    omega

/-- state after `write_tag` -/
theorem writeTag_x {H : Nat} {hdr0 : Bytes} {s : W} {pre body : Bytes} {cs lk} (inv : SInv H hdr0 s pre body [] cs lk)
    (t : Tags) (hd : ∀ x ∈ t.toList, Decodable x) :
    ∃ s' pre', writeTag s t = .ok s' ∧
      SInv H hdr0 s' pre' body (gd3Magic ++ le32 (gd3Body t.toList).length ++ gd3Body t.toList) cs lk ∧
      rdLe32 pre' 0x14 = some ((H + body.length + 1 - 0x14) % 4294967296) := by
  have hpl := inv.hdr.plen
  have h38 := inv.hdr.h38
  obtain ⟨hroom, hg0⟩ := reserve_room s Tables.vgm_reserve_write_tag inv.safe.1
  have hN : Tables.vgm_reserve_write_tag = 5666 := rfl
  rw [hN] at hroom
  have hpos : s.pos = H + body.length + 1 := by unfold W.pos; rw [inv.mem]; simp [hpl]; omega
  unfold writeTag
  rw [hN]
  have hm0 : (reserve s 5666).mem = pre.map some ++ (body ++ [0x66]).map some := inv.mem
  simp only [bind, Except.bind, poke32]
  rw [poke_hdr _ pre _ hm0 0x14 _ (by simp; omega)]
  have l14 : (setL pre 0x14 (le32 ((reserve s 5666).pos - 0x14))).length = pre.length := setL_length _ _ _ (by simp; omega)
  generalize hp1 : setL pre 0x14 (le32 ((reserve s 5666).pos - 0x14)) = p1 at l14
  simp only []
  have hpos1 : ∀ (w : W), w.mem = p1.map some ++ (body ++ [0x66]).map some → w.pos = s.pos := by
    intro w hw; unfold W.pos; rw [hw, inv.mem]; simp [l14]
  rw [reserve_pos] at hroom
  rw [put_ok _ gd3Magic (by rw [hpos1 _ rfl]; simp [gd3Magic]; show s.pos + 8 ≤ (reserve s 5666).alloc; omega)]
  simp only []
  have hpos2 : (W.pos { reserve s 5666 with mem := p1.map some ++ (body ++ [0x66]).map some ++ gd3Magic.map some }) = s.pos + 8 := by
    unfold W.pos; rw [inv.mem] ; simp [l14, gd3Magic]; omega
  rw [skip_ok _ 4 (by rw [hpos2]; show s.pos + 8 + 4 ≤ (reserve s 5666).alloc; omega)]
  simp only []
  rw [addGd3All_eq t.toList _ hd (by
    show (List.length _) + _ ≤ (reserve s 5666).alloc
    simp [Tags.toList, l14, gd3Magic, hpl]; omega)]
  simp only []
  generalize hX : (List.range 4).map (fun i => fresh (W.pos { reserve s 5666 with mem := p1.map some ++ (body ++ [0x66]).map some ++ gd3Magic.map some } + i)) = X
  have hXl : X.length = 4 := by rw [← hX]; simp
  rw [hpos2]
  have hA : s.pos + 8 = (p1.map some ++ (body ++ [0x66]).map some ++ gd3Magic.map some).length := by
    simp [l14, gd3Magic, hpl]; omega
  rw [hA]
  generalize hAd : (p1.map some ++ (body ++ [0x66]).map some ++ gd3Magic.map some : List Cell) = A at hA ⊢
  rw [poke_mid _ A X ((gd3Body t.toList).map some) _ rfl (by simp [hXl])]
  refine ⟨_, p1, rfl, ⟨?_, ?_, inv.emits, inv.sz, ?_, ?_, inv.comp, ?_⟩, ?_⟩
  · show _ ++ List.map some (le32 _) ++ _ = _
    have : W.pos { reserve s 5666 with mem := A ++ X ++ (gd3Body t.toList).map some } - A.length - 4 = (gd3Body t.toList).length := by
      unfold W.pos; simp [hXl]
    rw [this, ← hAd]; simp
  · rw [← hp1]; exact inv.hdr.own _ _ (by unfold OwnOff; simp)
  · rw [← hp1, rdLe32_setL_other _ _ _ _ (by simp; omega) (by simp)]; exact inv.f18
  · have := inv.safe
    have hb := gd3Body_length t.toList
    refine ⟨⟨?_, hg0.2⟩, this.2⟩
    show (List.length _) ≤ (reserve s 5666).alloc
    have hb' : (gd3Body t.toList).length ≤ 5654 := by simpa [Tags.toList] using hb
    simp [← hA]; omega
  · have := inv.loop
    cases lk with
    | none =>
      exact ⟨by rw [← hp1, rdLe32_setL_other _ _ _ _ (by simp; omega) (by simp)]; exact this.1,
        by rw [← hp1, rdLe32_setL_other _ _ _ _ (by simp; omega) (by simp)]; exact this.2⟩
    | some p =>
      obtain ⟨k, D⟩ := p
      obtain ⟨a, b, c, d⟩ := this
      exact ⟨a, by rw [← hp1, rdLe32_setL_other _ _ _ _ (by simp; omega) (by simp)]; exact b, c,
        by rw [← hp1, rdLe32_setL_other _ _ _ _ (by simp; omega) (by simp)]; exact d⟩
  · rw [← hp1, rdLe32_setL_same _ _ _ (by omega), reserve_pos, hpos]


theorem cellsToBytes_map (l : Bytes) : cellsToBytes (l.map some) = .ok l := by
  induction l with
  | nil => rfl
  | cons a l ih => simp [cellsToBytes, ih, Except.map]

/-- `get_buffer` on a completed state -/
theorem getBuffer_x {H : Nat} {hdr0 : Bytes} {s : W} {pre body rest : Bytes} {cs lk} (inv : SInv H hdr0 s pre body rest cs lk) :
    getBuffer s = .ok (setL pre 4 (le32 (s.pos - 4)) ++ (body ++ 0x66 :: rest)) := by
  have hpl := inv.hdr.plen
  have h38 := inv.hdr.h38
  unfold getBuffer
  simp only [inv.comp, if_true, bind, Except.bind, poke32]
  rw [poke_hdr s pre _ inv.mem 4 _ (by simp; omega)]
  simp only []
  rw [← List.map_append, cellsToBytes_map]

theorem splitStrings_units (us : List Nat) (rest : Bytes) (acc : List Nat)
    (hu : ∀ u ∈ us, 0 < u ∧ u < 65536) :
    splitStrings (unitsBytes us ++ 0 :: 0 :: rest) acc =
      (splitStrings rest []).map ((acc.reverse ++ us) :: ·) := by
  induction us generalizing acc with
  | nil => simp [unitsBytes, splitStrings]
  | cons u us ih =>
    have h := hu u (by simp)
    have hv : (byteOf u).toNat + 256 * (byteOf (u / 256)).toNat = u := by
      rw [byteOf_toNat, byteOf_toNat]; omega
    have : unitsBytes (u :: us) = byteOf u :: byteOf (u / 256) :: unitsBytes us := by simp [unitsBytes, le16]
    rw [this]
    simp only [List.cons_append, splitStrings, hv]
    rw [if_neg (by omega), ih (u :: acc) (fun x hx => hu x (by simp [hx]))]
    simp

theorem splitStrings_gd3Body (ts : List Bytes) (hu : ∀ t ∈ ts, ∀ u ∈ gd3Units t, 0 < u ∧ u < 65536) :
    splitStrings (gd3Body ts) [] = some (ts.map gd3Units) := by
  induction ts with
  | nil => simp [gd3Body, splitStrings]
  | cons t ts ih =>
    simp only [gd3Body, List.append_assoc, List.cons_append, List.nil_append]
    rw [splitStrings_units _ _ _ (hu t (by simp)), ih (fun q hq => hu q (by simp [hq]))]
    simp

theorem isCont_iff (c : UInt8) : isCont c = true ↔ 128 ≤ c.toNat ∧ c.toNat < 192 := by
  unfold isCont
  have := c.toNat_lt
  simp; omega

theorem toNat_pos (c : UInt8) (h : c ≠ 0) : 0 < c.toNat :=
  Nat.pos_of_ne_zero fun h0 => h (UInt8.toNat_inj.mp h0)

theorem mem_unitsOf (cp u : Nat) (h : u ∈ unitsOf cp) (h1 : 0 < cp) (h2 : cp < 0x110000) : 0 < u ∧ u < 65536 := by
  unfold unitsOf at h
  split at h
  · simp at h; omega
  · simp at h; omega

/-- the decoder only produces non-zero 16-bit code units from NUL-free input -/
theorem utf8_units (b : Bytes) (us : List Nat) (h : utf8ToUtf16 b = .ok us) (hz : ∀ x ∈ b, x ≠ 0) :
    ∀ u ∈ us, 0 < u ∧ u < 65536 := by
  fun_induction utf8ToUtf16 b generalizing us <;> simp_all [Except.map]
  case case2 =>
    rename_i c1 rest n1 hlt ih
    have hn1 : n1 = c1.toNat := rfl
    have hpos := toNat_pos c1 hz.1
    cases hv : utf8ToUtf16 rest with
    | error e => simp only [hv] at h; cases h
    | ok v =>
      simp only [hv] at h
      intro u hu
      rw [← Except.ok.inj h] at hu
      rcases List.mem_cons.mp hu with h0 | hm
      · rw [h0]; omega
      · exact ih v hv u hm
  case case5 =>
    rename_i c1 n1 c2 r h1 h2 h3 hc2 ih
    have hn1 : n1 = c1.toNat := rfl
    have b2 := (isCont_iff c2).mp hc2
    cases hv : utf8ToUtf16 r with
    | error e => simp only [hv] at h; cases h
    | ok v =>
      simp only [hv] at h
      intro u hu
      rw [← Except.ok.inj h] at hu
      rcases List.mem_cons.mp hu with h0 | hm
      · rw [h0]; omega
      · exact ih v hv u hm
  case case10 =>
    rename_i c1 n1 c2 c3 r h1 h2 h3 h4 hc2 he0 hc3 ih
    have hn1 : n1 = c1.toNat := rfl
    have b2 := (isCont_iff c2).mp hc2
    have b3 := (isCont_iff c3).mp hc3
    cases hv : utf8ToUtf16 r with
    | error e => simp only [hv] at h; cases h
    | ok v =>
      simp only [hv] at h
      intro u hu
      rw [← Except.ok.inj h] at hu
      rcases List.mem_cons.mp hu with h0 | hm
      · rw [h0]; omega
      · exact ih v hv u hm
  case case17 =>
    rename_i c1 n1 c2 c3 c4 r h1 h2 h3 h4 h5 hc2 hf0 hf4 hc3 hc4 ih
    have hn1 : n1 = c1.toNat := rfl
    have b2 := (isCont_iff c2).mp hc2
    have b3 := (isCont_iff c3).mp hc3
    have b4 := (isCont_iff c4).mp hc4
    cases hv : utf8ToUtf16 r with
    | error e => simp only [hv] at h; cases h
    | ok v =>
      simp only [hv] at h
      intro u hu
      rw [← Except.ok.inj h] at hu
      rcases List.mem_append.mp hu with h0 | hm
      · exact mem_unitsOf _ u h0 (by omega) (by omega)
      · exact ih v hv u hm

theorem expected_nil (p : Nat) : expected p [] = delayCmds p := rfl
theorem expected_delay (p n : Nat) (r : List XOp) : expected p (.delay n :: r) = expected (p + n) r := rfl

theorem expected_cons (p : Nat) (x : XOp) (r : List XOp) :
    expected p (x :: r) = match x with
      | .delay n => expected (p + n) r
      | x => delayCmds p ++ x.cmds ++ expected 0 r := by
  cases x <;> rfl

/-- a property of all commands of `expected`, from the same property of waits and of each
operation's own commands -/
theorem expected_forall (P : Nat × Cmd → Prop) (hw : ∀ n k, P (k, .wait n))
    (xs : List XOp) (hx : ∀ x ∈ xs, ∀ c ∈ x.cmds, P c) (p : Nat) : ∀ c ∈ expected p xs, P c := by
  have hd : ∀ q, ∀ c ∈ delayCmds q, P c := by
    intro q c hc
    obtain ⟨n, h, _⟩ := delayCmds_all_waits q c hc
    have : c = (c.1, .wait n) := by rw [← h]
    rw [this]; exact hw n c.1
  induction xs generalizing p with
  | nil => exact hd p
  | cons x r ih =>
    have ihr := ih (fun y hy => hx y (by simp [hy]))
    have hxc := hx x (by simp)
    intro c hc
    cases x with
    | delay n => exact ihr _ c hc
    | psg d => simp only [expected, List.mem_append] at hc; rcases hc with (h | h) | h; exact hd _ c h; exact hxc c h; exact ihr _ c h
    | ym a b d => simp only [expected, List.mem_append] at hc; rcases hc with (h | h) | h; exact hd _ c h; exact hxc c h; exact ihr _ c h
    | setLoop => simp only [expected, List.mem_append] at hc; rcases hc with (h | h) | h; exact hd _ c h; exact hxc c h; exact ihr _ c h
    | dacSetup a b e d f => simp only [expected, List.mem_append] at hc; rcases hc with (h | h) | h; exact hd _ c h; exact hxc c h; exact ihr _ c h
    | dacStart a b e d => simp only [expected, List.mem_append] at hc; rcases hc with (h | h) | h; exact hd _ c h; exact hxc c h; exact ihr _ c h
    | dacStop a => simp only [expected, List.mem_append] at hc; rcases hc with (h | h) | h; exact hd _ c h; exact hxc c h; exact ihr _ c h
    | datablock a b e d => simp only [expected, List.mem_append] at hc; rcases hc with (h | h) | h; exact hd _ c h; exact hxc c h; exact ihr _ c h

/-- the only clock fields the exporter's commands need are SN76489 (0x0c) and YM2612 (0x2c) -/
theorem expected_clock (xs : List XOp) (p : Nat) :
    ∀ c ∈ expected p xs, ∀ off, clockField c.2 = some off → off = 0x0c ∨ off = 0x2c := by
  apply expected_forall (fun c => ∀ off, clockField c.2 = some off → off = 0x0c ∨ off = 0x2c)
  · intro n k off h; simp [clockField] at h
  · intro x _ c hc off h
    cases x with
    | psg d => simp [XOp.cmds] at hc; subst hc; simp [clockField] at h; omega
    | ym a b d =>
      simp [XOp.cmds] at hc; subst hc
      have hn : (byteOf (0x52 + if a then 1 else 0)).toNat = 0x52 + if a then 1 else 0 := by rw [byteOf_toNat]; split <;> omega
      unfold clockField at h
      simp only [hn] at h
      cases a <;> simp at h <;> omega
    | delay n => simp [XOp.cmds] at hc
    | setLoop => simp [XOp.cmds] at hc
    | dacSetup a b e d f =>
      simp [XOp.cmds] at hc
      rcases hc with rfl | rfl
      · unfold clockField at h; simp only [] at h; split at h
        · cases h; right; rfl
        · split at h
          · cases h; left; rfl
          · cases h
      · simp [clockField] at h
    | dacStart a b e d => simp [XOp.cmds] at hc; rcases hc with rfl | rfl <;> simp [clockField] at h
    | dacStop a => simp [XOp.cmds] at hc; subst hc; simp [clockField] at h
    | datablock a b e d => simp [XOp.cmds] at hc; subst hc; simp [clockField] at h

/-- writer-level PCM condition: every `dac_start` addresses bytes of the type-0 data blocks
written before it -/
def xsPcm : Nat → List XOp → Bool
  | _, [] => true
  | bank, .datablock t p _ _ :: r => xsPcm (if t = 0 then bank + p.length else bank) r
  | bank, .dacStart _ st len _ :: r => decide (st % 4294967296 + len % 4294967296 ≤ bank) && xsPcm bank r
  | bank, _ :: r => xsPcm bank r

theorem pcmScan_waits (bank : Nat) (a r : List (Nat × Cmd)) (h : ∀ c ∈ a, ∃ n, c.2 = .wait n) :
    pcmScan bank (a ++ r) = pcmScan bank r := by
  induction a with
  | nil => rfl
  | cons c a ih =>
    obtain ⟨n, hn⟩ := h c (by simp)
    obtain ⟨k, cmd⟩ := c
    simp only at hn; subst hn
    simp only [List.cons_append, pcmScan]
    exact ih (fun q hq => h q (by simp [hq]))

theorem pcmScan_delay (bank q : Nat) (r : List (Nat × Cmd)) : pcmScan bank (delayCmds q ++ r) = pcmScan bank r :=
  pcmScan_waits bank _ r fun c hc => by
    obtain ⟨n, h, _⟩ := delayCmds_all_waits q c hc; exact ⟨n, h⟩

theorem pcm_expected (xs : List XOp) (bank p : Nat) (hv : ∀ x ∈ xs, x.valid) (h : xsPcm bank xs = true) :
    pcmScan bank (expected p xs) = true := by
  induction xs generalizing bank p with
  | nil => rw [expected_nil, ← List.append_nil (delayCmds p), pcmScan_delay]; rfl
  | cons x r ih =>
    have hvr : ∀ y ∈ r, y.valid := fun y hy => hv y (by simp [hy])
    cases x with
    | delay n => exact ih _ _ hvr h
    | psg d => simp only [expected, List.append_assoc, pcmScan_delay, XOp.cmds, List.cons_append, List.nil_append, pcmScan]; exact ih _ _ hvr h
    | ym a b d => simp only [expected, List.append_assoc, pcmScan_delay, XOp.cmds, List.cons_append, List.nil_append, pcmScan]; exact ih _ _ hvr h
    | setLoop => simp only [expected, List.append_assoc, pcmScan_delay, XOp.cmds, List.nil_append]; exact ih _ _ hvr h
    | dacSetup a b e d f => simp only [expected, List.append_assoc, pcmScan_delay, XOp.cmds, List.cons_append, List.nil_append, pcmScan]; exact ih _ _ hvr h
    | dacStop a => simp only [expected, List.append_assoc, pcmScan_delay, XOp.cmds, List.cons_append, List.nil_append, pcmScan]; exact ih _ _ hvr h
    | dacStart a b e d =>
      simp only [xsPcm, Bool.and_eq_true, decide_eq_true_eq] at h
      simp only [expected, List.append_assoc, pcmScan_delay, XOp.cmds, List.cons_append, List.nil_append, pcmScan]
      simp [h.1, ih _ _ hvr h.2]
    | datablock t pl m o =>
      have ht := (hv (.datablock t pl m o) (by simp)).1
      have hb : (byteOf t = 0) ↔ t = 0 := by
        constructor
        · intro hh
          have := congrArg UInt8.toNat hh
          rw [byteOf_toNat] at this
          simp at this; omega
        · intro hh; subst hh; rfl
      simp only [xsPcm] at h
      simp only [expected, List.append_assoc, pcmScan_delay, XOp.cmds, List.cons_append, List.nil_append, pcmScan]
      by_cases h0 : t = 0
      · simp only [h0, if_true] at h
        simp only [hb.mpr h0, if_true]; exact ih _ _ hvr h
      · simp only [h0, if_false] at h
        simp only [show ¬ byteOf t = 0 from fun hh => h0 (hb.mp hh), if_false]; exact ih _ _ hvr h


theorem waits_expected (xs : List XOp) (p : Nat) : waits (expected p xs) = p + (xs.map XOp.delayOf).sum := by
  induction xs generalizing p with
  | nil => simp [expected_nil, waits_delayCmds]
  | cons x r ih =>
    cases x with
    | delay n => rw [expected_delay, ih]; simp [XOp.delayOf]; omega
    | psg d => simp only [expected, waits_append, waits_delayCmds, waits_cmds, ih]; simp [XOp.delayOf]
    | ym a b d => simp only [expected, waits_append, waits_delayCmds, waits_cmds, ih]; simp [XOp.delayOf]
    | setLoop => simp only [expected, waits_append, waits_delayCmds, waits_cmds, ih]; simp [XOp.delayOf]
    | dacSetup a b e d f => simp only [expected, waits_append, waits_delayCmds, waits_cmds, ih]; simp [XOp.delayOf]
    | dacStart a b e d => simp only [expected, waits_append, waits_delayCmds, waits_cmds, ih]; simp [XOp.delayOf]
    | dacStop a => simp only [expected, waits_append, waits_delayCmds, waits_cmds, ih]; simp [XOp.delayOf]
    | datablock a b e d => simp only [expected, waits_append, waits_delayCmds, waits_cmds, ih]; simp [XOp.delayOf]

/-- the operation list of one export -/
def exportOps (pokes : List (Nat × Bytes)) (xs : List XOp) (tags : Tags) : List Op :=
  pokeOps pokes ++ xs.map XOp.toOp ++ [.stop, .writeTag tags]

def gd3Tail (tags : Tags) : Bytes :=
  gd3Magic ++ le32 (gd3Body tags.toList).length ++ gd3Body tags.toList

/-- everything the proofs know about an exported file -/
structure Exported (version H : Nat) (pokes : List (Nat × Bytes)) (xs : List XOp) (tags : Tags) (f : Bytes) : Prop where
  shape : ∃ (pre body : Bytes) (lk : Option (Nat × Nat)),
    f = pre ++ (body ++ 0x66 :: gd3Tail tags) ∧
    HdrOk H (pokes.foldl (fun h p => setL h p.1 p.2) (ctorHdr version H)) pre ∧
    Emits body (expected 0 xs) ∧ sizes (expected 0 xs) = body.length ∧
    rdLe32 pre 4 = some ((f.length - 4) % 4294967296) ∧
    rdLe32 pre 0x14 = some ((H + body.length + 1 - 0x14) % 4294967296) ∧
    rdLe32 pre 0x18 = some (waits (expected 0 xs) % 4294967296) ∧
    LoopFin H pre (expected 0 xs) lk ∧ lk.map Prod.snd = loopD 0 none xs

structure ExportHyps (H : Nat) (pokes : List (Nat × Bytes)) (xs : List XOp) (tags : Tags) : Prop where
  h38 : 0x38 ≤ H
  hA : H ≤ initialAlloc
  pokes : ∀ p ∈ pokes, SafeOff H p.1 p.2.length
  valid : ∀ x ∈ xs, x.valid
  delays : (xs.map XOp.delayOf).sum < 2147483648
  tags : ∀ t ∈ tags.toList, Decodable t

theorem export_all (version H : Nat) (pokes : List (Nat × Bytes)) (xs : List XOp) (tags : Tags)
    (hy : ExportHyps H pokes xs tags) :
    ∃ f, run version H (exportOps pokes xs tags) = .ok f ∧ Exported version H pokes xs tags f := by
  obtain ⟨s0, pre0, hc, inv0, q0, e0⟩ := ctor_x version H hy.h38 hy.hA
  obtain ⟨s1, pre1, h1, inv1, q1, e1⟩ := pokes_x pokes inv0 hy.pokes
  obtain ⟨s2, pre2, body2, cs2, lk2, h2, inv2, ex2, l2, w2⟩ := xsteps_x xs hy.valid inv1 (by rw [q1, q0]; simpa using hy.delays)
  have hp2 : s2.pending < 2147483648 := by
    have := hy.delays; simp [waits, q1, q0] at w2; omega
  obtain ⟨s3, pre3, h3, inv3⟩ := stop_x inv2 hp2
  rw [ex2, q1, q0, List.nil_append] at inv3
  obtain ⟨s4, pre4, h4, inv4, f14⟩ := writeTag_x inv3 tags hy.tags
  have hg := getBuffer_x inv4
  have hpl := inv4.hdr.plen
  have h38 := hy.h38
  have hl4 : 4 + (le32 (s4.pos - 4)).length ≤ pre4.length := by simp; omega
  have hsteps : steps s0 (exportOps pokes xs tags) = .ok s4 := by
    unfold exportOps
    rw [steps_append, steps_append, h1]
    simp only [h2, steps, step, h3, h4]
  refine ⟨_, by unfold run; rw [hc]; simp only [hsteps]; exact hg, ⟨setL pre4 4 (le32 (s4.pos - 4)), body2 ++ delayBytes s2.pending, lk2, rfl, ?_, inv4.emits, inv4.sz, ?_, ?_, ?_, ?_, ?_⟩⟩
  · have := inv4.hdr.own 4 (le32 (s4.pos - 4)) (by unfold OwnOff; simp)
    rw [← e0, ← e1]; exact this
  · rw [rdLe32_setL_same _ _ _ (by omega)]
    congr 2
    have hlv : ∀ v, (setL pre4 4 (le32 v)).length = pre4.length := fun v => setL_length _ _ _ (by simp; omega)
    have hposlen : s4.pos = pre4.length + (body2 ++ delayBytes s2.pending ++ 0x66 :: gd3Tail tags).length := by
      unfold W.pos; rw [inv4.mem]; simp [gd3Tail]
    have : s4.pos = (setL pre4 4 (le32 (s4.pos - 4)) ++ (body2 ++ delayBytes s2.pending ++ 0x66 :: gd3Tail tags)).length := by
      rw [List.length_append, hlv, ← hposlen]
    omega
  · rw [rdLe32_setL_other _ _ _ _ hl4 (by simp)]; exact f14
  · rw [rdLe32_setL_other _ _ _ _ hl4 (by simp)]; exact inv4.f18
  · have := inv4.loop
    cases lk2 with
    | none =>
      exact ⟨by rw [rdLe32_setL_other _ _ _ _ hl4 (by simp)]; exact this.1,
        by rw [rdLe32_setL_other _ _ _ _ hl4 (by simp)]; exact this.2⟩
    | some p =>
      obtain ⟨k, D⟩ := p
      obtain ⟨a, b, c, d⟩ := this
      exact ⟨a, by rw [rdLe32_setL_other _ _ _ _ hl4 (by simp)]; exact b, c,
        by rw [rdLe32_setL_other _ _ _ _ hl4 (by simp)]; exact d⟩
  · rw [l2]; simp [waits, q1, q0]


theorem exported_of_run {version H : Nat} {pokes : List (Nat × Bytes)} {xs : List XOp} {tags : Tags} {f : Bytes}
    (hy : ExportHyps H pokes xs tags) (h : run version H (exportOps pokes xs tags) = .ok f) :
    Exported version H pokes xs tags f := by
  obtain ⟨f', h', e⟩ := export_all version H pokes xs tags hy
  rw [h'] at h; cases h; exact e

theorem foldl_setL_length (ps : List (Nat × Bytes)) (h : Bytes) (hb : ∀ q ∈ ps, q.1 + q.2.length ≤ h.length) :
    (ps.foldl (fun h p => setL h p.1 p.2) h).length = h.length := by
  induction ps generalizing h with
  | nil => rfl
  | cons p ps ih =>
    have hl := setL_length h p.1 p.2 (hb p (by simp))
    simp only [List.foldl_cons]
    rw [ih _ (fun q hq => by rw [hl]; exact hb q (by simp [hq])), hl]

theorem foldl_setL_keep (ps : List (Nat × Bytes)) (h : Bytes) (a : Nat) (hb : ∀ q ∈ ps, q.1 + q.2.length ≤ h.length)
    (hd : ∀ q ∈ ps, a + 4 ≤ q.1 ∨ q.1 + q.2.length ≤ a) :
    rdLe32 (ps.foldl (fun h p => setL h p.1 p.2) h) a = rdLe32 h a := by
  induction ps generalizing h with
  | nil => rfl
  | cons p ps ih =>
    have hl := setL_length h p.1 p.2 (hb p (by simp))
    simp only [List.foldl_cons]
    rw [ih _ (fun q hq => by rw [hl]; exact hb q (by simp [hq])) (fun q hq => hd q (by simp [hq])),
      rdLe32_setL_other _ _ _ _ (hb p (by simp)) (hd p (by simp))]

/-- the caller declared the clock at header offset `a`: some poke stores a non-zero 32-bit
value there and no later poke touches those four bytes -/
def ClockPoked (pokes : List (Nat × Bytes)) (a : Nat) : Prop :=
  ∃ p1 c p2, pokes = p1 ++ (a, le32 c) :: p2 ∧ c % 4294967296 ≠ 0 ∧
    ∀ q ∈ p2, a + 4 ≤ q.1 ∨ q.1 + q.2.length ≤ a

theorem clock_poked (pokes : List (Nat × Bytes)) (h : Bytes) (a : Nat) (hb : ∀ q ∈ pokes, q.1 + q.2.length ≤ h.length)
    (hc : ClockPoked pokes a) : ∃ c, rdLe32 (pokes.foldl (fun h p => setL h p.1 p.2) h) a = some c ∧ c ≠ 0 := by
  obtain ⟨p1, c, p2, rfl, hne, hd⟩ := hc
  refine ⟨c % 4294967296, ?_, hne⟩
  rw [List.foldl_append, List.foldl_cons]
  have l1 := foldl_setL_length p1 h (fun q hq => hb q (by simp [hq]))
  have hba := hb (a, le32 c) (by simp)
  simp only [le32_length] at hba
  have l2 : (setL (p1.foldl (fun h p => setL h p.1 p.2) h) a (le32 c)).length = h.length := by
    rw [setL_length _ _ _ (by rw [l1]; simpa using hba), l1]
  rw [foldl_setL_keep p2 _ a (fun q hq => by rw [l2]; exact hb q (by simp [hq])) hd]
  exact rdLe32_setL_same _ _ _ (by rw [l1]; exact hba)

theorem Exported.dataStart_eq {version H : Nat} {pokes : List (Nat × Bytes)} {xs : List XOp} {tags : Tags} {f : Bytes}
    (e : Exported version H pokes xs tags f) : dataStart f = H := by
  obtain ⟨pre, body, lk, rfl, hd, _⟩ := e.shape
  have h38 := hd.h38
  have hA := hd.hA
  have := initialAlloc_eq
  unfold dataStart field32
  rw [rdLe32_append_left _ _ _ (by rw [hd.plen]; omega), hd.f34]
  simp only [Option.getD_some]
  rw [if_neg (by omega)]; omega



theorem sizes_take_le (cs : List (Nat × Cmd)) (k : Nat) : sizes (cs.take k) ≤ sizes cs := by
  have := sizes_append (cs.take k) (cs.drop k)
  rw [List.take_append_drop] at this; omega

theorem ctorHdr_length (version H : Nat) (h : 0x38 ≤ H) : (ctorHdr version H).length = H := by
  unfold ctorHdr
  have l0 : (List.replicate H (0 : UInt8)).length = H := by simp
  have l1 : (setL (List.replicate H (0 : UInt8)) 0 [0x56, 0x67, 0x6d, 0x20]).length = H := by
    rw [setL_length _ _ _ (by rw [l0]; simp; omega)]; exact l0
  have l2 : (setL (setL (List.replicate H (0 : UInt8)) 0 [0x56, 0x67, 0x6d, 0x20]) 8 [byteOf version, 0x01]).length = H := by
    rw [setL_length _ _ _ (by rw [l1]; simp; omega)]; exact l1
  rw [setL_length _ _ _ (by rw [l2]; simp; omega)]; exact l2

theorem mem_cstr (t : Bytes) : ∀ x ∈ cstr t, x ≠ 0 := by
  induction t with
  | nil => intro x hx; simp [cstr] at hx
  | cons a t ih =>
    intro x hx
    unfold cstr at hx
    rw [List.takeWhile_cons] at hx
    split at hx
    · rename_i hd
      rcases List.mem_cons.mp hx with rfl | hm
      · simpa using hd
      · exact ih x hm
    · simp at hx

end Ctrmml.Vgm
