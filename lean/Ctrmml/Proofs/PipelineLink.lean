/-
  Helper lemmas for Properties/C15 about the link stage, which runs C10's model:

    * link (`linkStage`, Model/Linker): the header generation never hangs
      (`C10_identifiers_unique_valid`), so every `foreign` outcome of the stage is the image of a
      `Linker.Err` raised by `add_song` or `get_seq_data`;
-/
import Ctrmml.Proofs.PipelineCompose
import Ctrmml.Properties.C10
namespace Ctrmml.Pipeline
open Ctrmml

/-! ### link -/

/-- the link stage without the header step -/
def linkCore (mds : Bytes) : Out Unit :=
  match Linker.runOps [.add (Linker.ascii "in") mds] Linker.Linker.new with
  | .error e => linkErrOut e
  | .ok l =>
    match Linker.getSeqData l with
    | .error e => linkErrOut e
    | .ok _ => .ok ()

/-- **The header generation of the link stage never fails**: the stage is `add_song` followed by
`get_seq_data`; `get_asm_header` / `get_c_header` always return (`unique_string` terminates). -/
theorem linkStage_eq_core (mds : Bytes) : linkStage mds = linkCore mds := by
  unfold linkStage linkCore
  cases Linker.runOps [.add (Linker.ascii "in") mds] Linker.Linker.new with
  | error e => rfl
  | ok l =>
    simp only
    cases Linker.getSeqData l with
    | error e => rfl
    | ok b =>
      simp only
      obtain ⟨ds, hds, _⟩ := Linker.C10_identifiers_unique_valid l
      simp [Linker.asmHeader, Linker.cHeader, hds]

/-- the foreign outcomes of the link stage are images of the linker's own errors -/
theorem linkStage_foreign (mds : Bytes) (k : String) (h : linkStage mds = .foreign k) :
    ∃ e : Linker.Err, (linkErrOut e : Out Unit) = .foreign k ∧
      (Linker.runOps [.add (Linker.ascii "in") mds] Linker.Linker.new = .error e ∨
       ∃ l, Linker.runOps [.add (Linker.ascii "in") mds] Linker.Linker.new = .ok l ∧ Linker.getSeqData l = .error e) := by
  rw [linkStage_eq_core] at h
  unfold linkCore at h
  cases hr : Linker.runOps [.add (Linker.ascii "in") mds] Linker.Linker.new with
  | error e =>
    rw [hr] at h
    exact ⟨e, h, Or.inl rfl⟩
  | ok l =>
    rw [hr] at h
    simp only at h
    cases hq : Linker.getSeqData l with
    | error e =>
      rw [hq] at h
      exact ⟨e, h, Or.inr ⟨l, rfl, hq⟩⟩
    | ok b => rw [hq] at h; cases h

end Ctrmml.Pipeline
