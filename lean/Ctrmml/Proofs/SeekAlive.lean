/-
  C12, round 2: `alive` is downward closed along play ticks; a stopped player only changes its
  three time counters; `skip n = play_tick^n` up to those counters past the end of the track;
  evaluation of `settle` with a small step budget.
-/
import Ctrmml.Proofs.Seek
namespace Ctrmml.PlayerCh
open Ctrmml Player

theorem iter_succ' {α : Type} (f : α → α) (k : Nat) (x : α) : iter f (k + 1) x = f (iter f k x) := by
  rw [iter_add]; rfl

section
variable (song : Song) (root : List Event) (pd : Int → Bool)

theorem playTickS_err (s : PS) (h : s.err.isSome = true) : playTickS song root pd s = s := by
  unfold playTickS; simp [h]

/-- the three time counters replaced -/
def setTimes (s : PS) (on off t : Nat) : PS :=
  { s with acc := { s.acc with onTime := on, offTime := off, playTime := t } }

/-- one tick from a stopped state (ended normally) only changes the time counters -/
theorem playTickS_dead (s : PS) (he : s.err = none) (hd : s.acc.enabled = false) :
    ∃ on off t, playTickS song root pd s = setTimes s on off t := by
  unfold playTickS
  have hs' : s.err.isSome = false := by simp [he]
  simp only [hs', Bool.false_eq_true, if_false]
  split
  · refine ⟨s.acc.onTime - 1, s.acc.offTime, s.acc.playTime + 1, ?_⟩
    rw [settle_fix]
    · rfl
    · simp [isSettled, hd]
  · split
    · refine ⟨s.acc.onTime, s.acc.offTime - 1, s.acc.playTime + 1, ?_⟩
      rw [settle_fix]
      · rfl
      · simp [isSettled, hd]
    · refine ⟨s.acc.onTime, s.acc.offTime, s.acc.playTime, ?_⟩
      rw [settle_fix]
      · rfl
      · simp [isSettled, hd]

theorem iter_dead : ∀ (k : Nat) (s : PS), s.err = none → s.acc.enabled = false →
    ∃ on off t, iter (playTickS song root pd) k s = setTimes s on off t
  | 0, s, _, _ => ⟨s.acc.onTime, s.acc.offTime, s.acc.playTime, rfl⟩
  | k + 1, s, he, hd => by
    obtain ⟨on, off, t, h1⟩ := playTickS_dead song root pd s he hd
    obtain ⟨on', off', t', h2⟩ := iter_dead k (setTimes s on off t) (by simpa [setTimes] using he)
      (by simpa [setTimes] using hd)
    refine ⟨on', off', t', ?_⟩
    simp only [iter, h1, h2]
    rfl

/-- **`alive` is downward closed**: a player that is not alive (error, or stopped) is not alive
after the next tick either -/
theorem not_alive_playTickS (s : PS) (h : ¬ alive s) : ¬ alive (playTickS song root pd s) := by
  by_cases he : s.err = none
  · have hd : s.acc.enabled = false := by
      unfold alive at h
      simp only [he, and_true] at h
      simpa using h
    obtain ⟨on, off, t, h1⟩ := playTickS_dead song root pd s he hd
    rw [h1]
    unfold alive
    simp [setTimes, hd]
  · have hs : s.err.isSome = true := by
      cases h' : s.err with
      | none => exact absurd h' he
      | some _ => rfl
    rw [playTickS_err song root pd s hs]
    exact h

theorem alive_antitoneS (k : Nat) (s : PS) (h : alive (iter (playTickS song root pd) (k + 1) s)) :
    alive (iter (playTickS song root pd) k s) := by
  rw [iter_succ'] at h
  exact Classical.byContradiction fun hn => not_alive_playTickS song root pd _ hn h

theorem alive_of_leS (n : Nat) (s : PS) (h : alive (iter (playTickS song root pd) n s)) :
    ∀ k, k ≤ n → alive (iter (playTickS song root pd) k s) := by
  induction n with
  | zero => intro k hk; have : k = 0 := by omega
            subst this; exact h
  | succ n ih =>
    intro k hk
    by_cases hk' : k = n + 1
    · subst hk'; exact h
    · exact ih (alive_antitoneS song root pd n s h) k (by omega)

/-- the error is sticky -/
theorem err_antitoneS (k : Nat) (s : PS) (h : (iter (playTickS song root pd) (k + 1) s).err = none) :
    (iter (playTickS song root pd) k s).err = none := by
  rw [iter_succ'] at h
  cases h' : (iter (playTickS song root pd) k s).err with
  | none => rfl
  | some e =>
    have hs : (iter (playTickS song root pd) k s).err.isSome = true := by simp [h']
    rw [playTickS_err song root pd _ hs, h'] at h
    exact absurd h (by simp)

theorem err_of_leS (n : Nat) (s : PS) (h : (iter (playTickS song root pd) n s).err = none) :
    ∀ k, k ≤ n → (iter (playTickS song root pd) k s).err = none := by
  induction n with
  | zero => intro k hk; have : k = 0 := by omega
            subst this; exact h
  | succ n ih =>
    intro k hk
    by_cases hk' : k = n + 1
    · subst hk'; exact h
    · exact ih (err_antitoneS song root pd n s h) k (by omega)

/-- What C12 observes of a state: everything while the track plays; once the track has ended
(`enabled = false`) everything except the three time counters `play_time`, `on_time`,
`off_time` (`skip_ticks` adds the remaining distance to `play_time` of a stopped player and
leaves a residual duration carried by the `END` event alone, `play_tick` counts such a residual
duration down and otherwise leaves `play_time` alone). -/
def obs (s : PS) : PS := if s.acc.enabled = true then s else setTimes s 0 0 0

theorem obs_of_enabled {s : PS} (h : s.acc.enabled = true) : obs s = s := by simp [obs, h]

theorem obs_setTimes_dead (s : PS) (hd : s.acc.enabled = false) (on off t : Nat) :
    obs (setTimes s on off t) = setTimes s 0 0 0 := by
  simp [obs, setTimes, hd]

/-- **the loop of `skip_ticks` is `ticks` single ticks up to `obs`**, from any settled state, as
long as no error occurs at an earlier tick -/
theorem skip_obs_play : ∀ (fuel ticks : Nat) (s : PS), fuel > ticks → isSettled s = true →
    (∀ k, k < ticks → (iter (playTickS song root pd) k s).err = none) →
    obs (skipLoopS song root pd fuel ticks s) = obs (iter (playTickS song root pd) ticks s)
  | 0, ticks, s, hf, _, _ => by omega
  | fuel + 1, ticks, s, hf, hs, hen => by
    by_cases ht : ticks = 0
    · subst ht
      unfold skipLoopS
      have : ({ s with acc := { s.acc with playTime := s.acc.playTime + 0 } } : PS) = s := by simp
      by_cases he : s.err.isSome
      · simp [he, iter]
      · simp [he, iter]
    · have herr0 : s.err = none := by simpa [iter] using hen 0 (by omega)
      have herr0' : s.err.isSome = false := by simp [herr0]
      by_cases hen0 : s.acc.enabled = true
      · unfold skipLoopS
        have hc : ¬ (ticks = 0 ∨ s.acc.enabled = false) := by simp [ht, hen0]
        simp only [herr0', Bool.false_eq_true, if_false, hc]
        by_cases hon : s.acc.onTime > 0
        · simp only [hon, if_true]
          by_cases hgt : s.acc.onTime > ticks
          · simp only [hgt, if_true]
            exact congrArg obs (play_on song root pd ticks s herr0 hgt).symm
          · simp only [hgt, if_false]
            have hsplit : ticks = s.acc.onTime + (ticks - s.acc.onTime) := by omega
            rw [hsplit, iter_add, play_on_exact song root pd s herr0 hon]
            have : s.acc.onTime + (ticks - s.acc.onTime) - s.acc.onTime = ticks - s.acc.onTime := by omega
            rw [this]
            apply skip_obs_play fuel (ticks - s.acc.onTime) _ (by omega) (settle_settled song root pd _)
            intro k hk
            have := hen (s.acc.onTime + k) (by omega)
            rwa [iter_add, play_on_exact song root pd s herr0 hon] at this
        · simp only [hon, if_false]
          have hon0 : s.acc.onTime = 0 := by omega
          by_cases hoff : s.acc.offTime > 0
          · simp only [hoff, if_true]
            by_cases hgt : s.acc.offTime > ticks
            · simp only [hgt, if_true]
              exact congrArg obs (play_off song root pd ticks s herr0 hon0 hgt).symm
            · simp only [hgt, if_false]
              have hsplit : ticks = s.acc.offTime + (ticks - s.acc.offTime) := by omega
              rw [hsplit, iter_add, play_off_exact song root pd s herr0 hon0 hoff]
              have : s.acc.offTime + (ticks - s.acc.offTime) - s.acc.offTime = ticks - s.acc.offTime := by omega
              rw [this]
              apply skip_obs_play fuel (ticks - s.acc.offTime) _ (by omega) (settle_settled song root pd _)
              intro k hk
              have := hen (s.acc.offTime + k) (by omega)
              rwa [iter_add, play_off_exact song root pd s herr0 hon0 hoff] at this
          · exfalso
            simp [isSettled, hen0, herr0] at hs
            omega
      · have hd : s.acc.enabled = false := by simpa using hen0
        unfold skipLoopS
        have hc : (ticks = 0 ∨ s.acc.enabled = false) := Or.inr hd
        simp only [herr0', Bool.false_eq_true, if_false, hc, if_true]
        obtain ⟨on, off, t, h1⟩ := iter_dead song root pd ticks s herr0 hd
        rw [h1, obs_setTimes_dead s hd]
        exact obs_setTimes_dead s hd s.acc.onTime s.acc.offTime (s.acc.playTime + ticks)

/-! ### evaluating `settle` with a small step budget -/

/-- more fuel does not change a run of the fetch loop that did not run out of fuel -/
theorem settleO_more (skip : Bool) : ∀ (f g : Nat) (s : PS),
    (settleO song root pd skip f s).1.err ≠ some .fuel →
    settleO song root pd skip (f + g) s = settleO song root pd skip f s
  | 0, g, s, h => by
    simp only [settleO] at h
    split at h
    · rename_i hs; rw [Nat.zero_add, settleO_fix song root pd skip g s hs, settleO_fix song root pd skip 0 s hs]
    · exact absurd rfl h
  | f + 1, g, s, h => by
    rw [Nat.add_right_comm]
    simp only [settleO] at h ⊢
    split
    · rfl
    · rename_i hs
      simp only [hs, Bool.false_eq_true, if_false] at h
      cases hp : pstep song root pd skip s with
      | mk s1 w =>
        rw [hp] at h
        simp only [] at h ⊢
        have ih := settleO_more skip f g s1 (by
          cases hq : settleO song root pd skip f s1 with
          | mk s2 w2 => rw [hq] at h; simpa using h)
        rw [ih]

theorem settleFuel_ge (f : Nat) (h : f ≤ 100000) : settleFuel = f + (100000 - f) := by
  unfold settleFuel; omega

/-- `settle` computed with any budget `f ≤ 100000` that suffices -/
theorem settle_small (f : Nat) (hf : f ≤ 100000) (s : PS)
    (h : (settleO song root pd false f s).1.err ≠ some .fuel) :
    settle song root pd s = (settleO song root pd false f s).1 := by
  unfold settle
  rw [settleFuel_ge f hf, settleO_more song root pd false f _ s h]

end
end Ctrmml.PlayerCh
