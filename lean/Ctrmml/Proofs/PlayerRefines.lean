/-
  Master refinement: the flat bracket machine `Player.coreStep` simulates the structural
  expansion `Expand.expL` of the parsed forest — for every song, every track, every stack,
  including every way of failing.  Helper lemmas only; the property statements are in
  Properties/C04.lean.
-/
import Ctrmml.Model.Player
import Ctrmml.Spec.Expand
import Ctrmml.Proofs.Tree
namespace Ctrmml.Refine
open Ctrmml Player Tree Expand

section
variable (song : Song) (root : List Event)

/-- `k` control steps, collecting what each reports -/
def stepsCore : Nat → Core → Except PErr (Core × List Out)
  | 0, c => .ok (c, [])
  | k + 1, c =>
    match coreStep song root c with
    | .error e => .error e
    | .ok (c', o) =>
      match stepsCore k c' with
      | .error e => .error e
      | .ok (c'', os) => .ok (c'', o :: os)

def isRoot : Out → Bool
  | .rootEnd _ => true
  | _ => false

/-- `c` reaches `c'` in some number of steps reporting `outs`, none of which is a root `END` -/
def Runs (c c' : Core) (outs : List Out) : Prop :=
  ∃ k, stepsCore song root k c = .ok (c', outs) ∧ ∀ o ∈ outs, isRoot o = false

theorem stepsCore_add (a b : Nat) (c : Core) :
    stepsCore song root (a + b) c =
      match stepsCore song root a c with
      | .error e => .error e
      | .ok (c', os) =>
        match stepsCore song root b c' with
        | .error e => .error e
        | .ok (c'', os') => .ok (c'', os ++ os') := by
  induction a generalizing c with
  | zero =>
    simp only [Nat.zero_add, stepsCore]
    cases stepsCore song root b c with
    | error e => rfl
    | ok p => rfl
  | succ a ih =>
    have : a + 1 + b = (a + b) + 1 := by omega
    rw [this]
    simp only [stepsCore]
    cases h : coreStep song root c with
    | error e => rfl
    | ok p =>
      obtain ⟨c', o⟩ := p
      simp only [ih]
      cases h2 : stepsCore song root a c' with
      | error e => rfl
      | ok p2 =>
        obtain ⟨c2, os⟩ := p2
        simp only []
        cases h3 : stepsCore song root b c2 with
        | error e => rfl
        | ok p3 => rfl

/-- `c` reaches, without passing a root `END`, a state in which the next step is an error -/
def Fails (c : Core) : Prop := ∃ c' outs e, Runs song root c c' outs ∧ coreStep song root c' = .error e

theorem Runs.refl (c : Core) : Runs song root c c [] := ⟨0, rfl, by simp⟩

theorem Runs.trans {c1 c2 c3 : Core} {o1 o2 : List Out}
    (h1 : Runs song root c1 c2 o1) (h2 : Runs song root c2 c3 o2) : Runs song root c1 c3 (o1 ++ o2) := by
  obtain ⟨k1, h1, g1⟩ := h1; obtain ⟨k2, h2, g2⟩ := h2
  refine ⟨k1 + k2, by rw [stepsCore_add, h1]; simp only [h2], ?_⟩
  intro o ho
  rcases List.mem_append.mp ho with h | h
  · exact g1 o h
  · exact g2 o h

theorem Runs.one {c c' : Core} {o : Out} (h : coreStep song root c = .ok (c', o)) (ho : isRoot o = false) :
    Runs song root c c' [o] := ⟨1, by simp [stepsCore, h], by simpa using ho⟩

theorem Fails.one {c : Core} {e : PErr} (h : coreStep song root c = .error e) : Fails song root c :=
  ⟨c, [], e, Runs.refl song root c, h⟩

theorem Fails.of_runs {c c' : Core} {os : List Out} (h1 : Runs song root c c' os) (h2 : Fails song root c') :
    Fails song root c := by
  obtain ⟨c2, o2, e, hr, he⟩ := h2
  exact ⟨c2, os ++ o2, e, Runs.trans song root h1 hr, he⟩

def itemOfOut : Out → Option Item
  | .hook v f => some { ev := v, src := f }
  | _ => none

def itemsOf (outs : List Out) : List Item := outs.filterMap itemOfOut

theorem itemsOf_append (a b : List Out) : itemsOf (a ++ b) = itemsOf a ++ itemsOf b := by
  simp [itemsOf, List.filterMap_append]

/-- the machine, started in `c`, does what the expansion result `r` says: reaches `c'` having
called the hook with exactly the items of `r`, or fails when `r` is an error -/
def Sim (c c' : Core) : Except SErr (List Item) → Prop
  | .ok items => ∃ outs, Runs song root c c' outs ∧ itemsOf outs = items
  | .error _ => Fails song root c

theorem Sim.seq {c1 c2 c3 : Core} {ra rb : Except SErr (List Item)}
    (h1 : Sim song root c1 c2 ra) (h2 : Sim song root c2 c3 rb) : Sim song root c1 c3 (seq ra rb) := by
  cases ra with
  | error x => exact h1
  | ok a =>
    obtain ⟨o1, hr1, hi1⟩ := h1
    cases rb with
    | error y => exact Fails.of_runs song root hr1 h2
    | ok b =>
      obtain ⟨o2, hr2, hi2⟩ := h2
      exact ⟨o1 ++ o2, Runs.trans song root hr1 hr2, by simp [itemsOf_append, hi1, hi2]⟩

theorem Sim.of_step_hook {c c' : Core} {v f : Event} (h : coreStep song root c = .ok (c', .hook v f)) :
    Sim song root c c' (.ok [{ ev := v, src := f }]) :=
  ⟨[.hook v f], Runs.one song root h rfl, rfl⟩

theorem Sim.of_step_ret {c c' : Core} {f : Event} (h : coreStep song root c = .ok (c', .ret f)) :
    Sim song root c c' (.ok []) :=
  ⟨[.ret f], Runs.one song root h rfl, rfl⟩

theorem Sim.of_fail {c c' : Core} {e : PErr} {x : SErr} (h : coreStep song root c = .error e) :
    Sim song root c c' (.error x) := Fails.one song root h

/-- prefix an ok-result with more items -/
theorem Sim.cons_ok {c1 c2 c3 : Core} {a : List Item} {rb : Except SErr (List Item)}
    (h1 : Sim song root c1 c2 (.ok a)) (h2 : Sim song root c2 c3 rb) :
    Sim song root c1 c3 (match rb with | .error x => .error x | .ok b => .ok (a ++ b)) := by
  have := Sim.seq song root h1 h2
  cases rb <;> simpa [Expand.seq] using this


/-! ### one-step lemmas: what `coreStep` does at a position holding a given event -/

theorem fetch_of_get {code : List Event} {pos : Nat} {e : Event} (h : code[pos]? = some e) :
    fetch code pos = e := by simp [fetch, h]

theorem get_mid (pre : List Event) (e : Event) (post : List Event) :
    (pre ++ e :: post)[pre.length]? = some e := by simp

theorem step_other {tr : TRef} {pos : Nat} {σ : List Frame} {e : Event}
    (hc : (codeOf song root tr)[pos]? = some e)
    (hk : e.kind = .segno ∨ e.kind = .other) :
    coreStep song root ⟨tr, pos, σ⟩ = .ok (⟨tr, pos + 1, σ⟩, .hook e e) := by
  unfold coreStep
  simp only [fetch_of_get hc]
  rcases hk with hk | hk <;> simp [hk]

theorem step_loopStart {tr : TRef} {pos : Nat} {σ : List Frame} {e : Event}
    (hc : (codeOf song root tr)[pos]? = some e) (hk : e.kind = .loopStart) (hl : σ.length < limit) :
    coreStep song root ⟨tr, pos, σ⟩
      = .ok (⟨tr, pos + 1, { type := .loop, track := tr, position := pos + 1, endPosition := 0, loopCount := 0 } :: σ⟩,
             .hook e e) := by
  unfold coreStep
  have : ¬ (σ.length ≥ maxStack) := by simp [maxStack, limit] at *; omega
  simp [fetch_of_get hc, hk, push, this]

theorem step_loopStart_full {tr : TRef} {pos : Nat} {σ : List Frame} {e : Event}
    (hc : (codeOf song root tr)[pos]? = some e) (hk : e.kind = .loopStart) (hl : σ.length ≥ limit) :
    coreStep song root ⟨tr, pos, σ⟩ = .error .stackOverflow := by
  unfold coreStep
  have : σ.length ≥ maxStack := by simp [maxStack, limit] at *; omega
  simp [fetch_of_get hc, hk, push, this]

theorem step_break_pass {tr : TRef} {pos : Nat} {fr : Frame} {r : List Frame} {e : Event}
    (hc : (codeOf song root tr)[pos]? = some e) (hk : e.kind = .loopBreak)
    (ht : fr.type = .loop) (hn : fr.loopCount ≠ 1) :
    coreStep song root ⟨tr, pos, fr :: r⟩ = .ok (⟨tr, pos + 1, fr :: r⟩, .hook e e) := by
  unfold coreStep
  simp [fetch_of_get hc, hk, stackTop, ht, hn]

theorem step_break_last {tr : TRef} {pos : Nat} {fr : Frame} {r : List Frame} {e le : Event}
    (hc : (codeOf song root tr)[pos]? = some e) (hk : e.kind = .loopBreak)
    (ht : fr.type = .loop) (hn : fr.loopCount = 1)
    (hle : (codeOf song root tr)[fr.endPosition - 1]? = some le) :
    coreStep song root ⟨tr, pos, fr :: r⟩ = .ok (⟨tr, fr.endPosition, r⟩, .hook le e) := by
  unfold coreStep
  simp [fetch_of_get hc, hk, stackTop, ht, hn, hle]

theorem step_break_err {tr : TRef} {pos : Nat} {σ : List Frame} {e : Event}
    (hc : (codeOf song root tr)[pos]? = some e) (hk : e.kind = .loopBreak)
    (ht : ∀ fr r, σ = fr :: r → fr.type ≠ .loop) :
    ∃ err, coreStep song root ⟨tr, pos, σ⟩ = .error err := by
  unfold coreStep
  cases σ with
  | nil => exact ⟨underflowErr .loop, by simp [fetch_of_get hc, hk, stackTop]⟩
  | cons fr r =>
    have := ht fr r rfl
    exact ⟨underflowErr fr.type, by simp [fetch_of_get hc, hk, stackTop, this]⟩

theorem step_loopEnd_err {tr : TRef} {pos : Nat} {σ : List Frame} {e : Event}
    (hc : (codeOf song root tr)[pos]? = some e) (hk : e.kind = .loopEnd)
    (ht : ∀ fr r, σ = fr :: r → fr.type ≠ .loop) :
    ∃ err, coreStep song root ⟨tr, pos, σ⟩ = .error err := by
  unfold coreStep
  cases σ with
  | nil => exact ⟨underflowErr .loop, by simp [fetch_of_get hc, hk, stackTop]⟩
  | cons fr r =>
    have := ht fr r rfl
    exact ⟨underflowErr fr.type, by simp [fetch_of_get hc, hk, stackTop, this]⟩

/-- `LOOP_END` reached with remaining count `cnt` (already resolved: the frame's count, or the
event's parameter on first arrival) -/
theorem step_loopEnd {tr : TRef} {pos : Nat} {fr : Frame} {r : List Frame} {e : Event}
    (hc : (codeOf song root tr)[pos]? = some e) (hk : e.kind = .loopEnd) (ht : fr.type = .loop) :
    coreStep song root ⟨tr, pos, fr :: r⟩ =
      (let cnt := if fr.loopCount = 0 then e.param else fr.loopCount
       if cnt < 0 then .error .invalidLoopCount
       else if cnt - 1 > 0 then
         .ok (⟨tr, fr.position, { fr with endPosition := pos + 1, loopCount := cnt - 1 } :: r⟩, .hook e e)
       else .ok (⟨tr, pos + 1, r⟩, .hook e e)) := by
  unfold coreStep
  simp [fetch_of_get hc, hk, stackTop, ht]

theorem step_end_ret {tr : TRef} {pos : Nat} {fr : Frame} {r : List Frame}
    (hc : (codeOf song root tr)[pos]? = none) (ht : fr.type = .jump) :
    coreStep song root ⟨tr, pos, fr :: r⟩ = .ok (⟨fr.track, fr.position, r⟩, .ret endEvent) := by
  unfold coreStep
  have hk : endEvent.kind = .fin := by decide
  simp [fetch, hc, hk, stackTop, ht]

theorem step_end_err {tr : TRef} {pos : Nat} {fr : Frame} {r : List Frame}
    (hc : (codeOf song root tr)[pos]? = none) (ht : fr.type ≠ .jump) :
    ∃ err, coreStep song root ⟨tr, pos, fr :: r⟩ = .error err := by
  unfold coreStep
  have hk : endEvent.kind = .fin := by decide
  exact ⟨underflowErr fr.type, by simp [fetch, hc, hk, stackTop, ht]⟩

theorem step_jump_missing {tr : TRef} {pos : Nat} {σ : List Frame} {e : Event}
    (hc : (codeOf song root tr)[pos]? = some e) (hk : e.kind = .jump)
    (hm : song.track? (trackIdOfParam e.param) = none) :
    coreStep song root ⟨tr, pos, σ⟩ = .error .jumpMissing := by
  unfold coreStep
  simp [fetch_of_get hc, hk, hm]

theorem step_jump_full {tr : TRef} {pos : Nat} {σ : List Frame} {e : Event}
    (hc : (codeOf song root tr)[pos]? = some e) (hk : e.kind = .jump) (hl : σ.length ≥ limit) :
    coreStep song root ⟨tr, pos, σ⟩ = .error .jumpMissing := by
  unfold coreStep
  have : σ.length ≥ maxStack := by simp [maxStack, limit] at *; omega
  cases hm : song.track? (trackIdOfParam e.param) <;> simp [fetch_of_get hc, hk, hm, push, this]

theorem step_jump {tr : TRef} {pos : Nat} {σ : List Frame} {e : Event} {evs : List Event}
    (hc : (codeOf song root tr)[pos]? = some e) (hk : e.kind = .jump) (hl : σ.length < limit)
    (hm : song.track? (trackIdOfParam e.param) = some evs) :
    coreStep song root ⟨tr, pos, σ⟩
      = .ok (⟨.id (trackIdOfParam e.param), 0,
              { type := .jump, track := tr, position := pos + 1, endPosition := 0, loopCount := 0 } :: σ⟩, .hook e e) := by
  unfold coreStep
  have : ¬ (σ.length ≥ maxStack) := by simp [maxStack, limit] at *; omega
  simp [fetch_of_get hc, hk, hm, push, this]


/-! ### the simulation for closed forests -/

/-- what a `JUMP` event does, for a call semantics `call` that is valid on stacks with
`σ.length + k ≥ limit` -/
def CallSpec (call : Nat → Nat → Except SErr (List Item)) (k : Nat) : Prop :=
  ∀ (tr : TRef) (pre : List Event) (e : Event) (post : List Event) (σ : List Frame),
    codeOf song root tr = pre ++ e :: post → e.kind = .jump → σ.length + k ≥ limit →
    Sim song root ⟨tr, pre.length, σ⟩ ⟨tr, pre.length + 1, σ⟩
      (Expand.seq (.ok [item e]) (call σ.length (trackIdOfParam e.param)))

/-- what the top of the stack has to look like for a forest to be executed in pass mode -/
def TopOK (inLoop : Bool) (f : List Node) (σ : List Frame) : Prop :=
  match inLoop with
  | true => ∃ fr r, σ = fr :: r ∧ fr.type = .loop ∧ (hasTopBreak f = false ∨ fr.loopCount ≠ 1)
  | false => ∀ fr r, σ = fr :: r → fr.type ≠ .loop

theorem TopOK.head {b : Bool} {n : Node} {ns : List Node} {σ : List Frame}
    (h : TopOK b (n :: ns) σ) : TopOK b [n] σ := by
  cases b with
  | false => exact h
  | true =>
    obtain ⟨fr, r, h1, h2, h3⟩ := h
    refine ⟨fr, r, h1, h2, ?_⟩
    rcases h3 with h3 | h3
    · left; cases n <;> simp_all [hasTopBreak]
    · right; exact h3

theorem TopOK.tail {b : Bool} {n : Node} {ns : List Node} {σ : List Frame}
    (h : TopOK b (n :: ns) σ) : TopOK b ns σ := by
  cases b with
  | false => exact h
  | true =>
    obtain ⟨fr, r, h1, h2, h3⟩ := h
    refine ⟨fr, r, h1, h2, ?_⟩
    rcases h3 with h3 | h3
    · left; cases n <;> simp_all [hasTopBreak]
    · right; exact h3

theorem repeatItems_succ' (n : Nat) (l : List Item) :
    repeatItems (n + 1) l = repeatItems n l ++ l := by
  induction n with
  | zero => simp [repeatItems]
  | succ n ih =>
    conv => lhs; rw [repeatItems, ih]
    show _ = (l ++ repeatItems n l) ++ l
    simp [List.append_assoc]

/-- iterating a loop body whose full pass is known to succeed with items `full` -/
theorem loop_iter (tr : TRef) (P Q : Nat) (σ : List Frame) (le : Event) (full : List Item)
    (hasB : Bool) (lastR : Except SErr (List Item))
    (hle : (codeOf song root tr)[Q]? = some le) (hlk : le.kind = .loopEnd)
    (hpass : ∀ fr : Frame, fr.type = .loop → (hasB = false ∨ fr.loopCount ≠ 1) →
        Sim song root ⟨tr, P, fr :: σ⟩ ⟨tr, Q, fr :: σ⟩ (.ok full))
    (hlast : hasB = true → ∀ fr : Frame, fr.type = .loop → fr.loopCount = 1 → fr.endPosition = Q + 1 →
        Sim song root ⟨tr, P, fr :: σ⟩ ⟨tr, Q + 1, σ⟩ lastR)
    (hlastR : hasB = false → lastR = .ok (full ++ [item le])) :
    ∀ j : Nat, j ≥ 1 → ∀ fr : Frame, fr.type = .loop → fr.position = P → fr.endPosition = Q + 1 →
      fr.loopCount = (j : Int) →
      Sim song root ⟨tr, P, fr :: σ⟩ ⟨tr, Q + 1, σ⟩
        (Expand.seq (.ok (repeatItems (j - 1) (full ++ [item le]))) lastR) := by
  intro j
  induction j with
  | zero => intro h; omega
  | succ j ih =>
    intro _ fr hft hfp hfe hfc
    cases j with
    | zero =>
      -- last iteration
      have hc1 : fr.loopCount = 1 := by simpa using hfc
      have hz : Sim song root ⟨tr, P, fr :: σ⟩ ⟨tr, P, fr :: σ⟩ (.ok (repeatItems (0 + 1 - 1) (full ++ [item le]))) :=
        ⟨[], Runs.refl song root _, by simp [itemsOf, repeatItems]⟩
      cases hb : hasB with
      | true => exact Sim.seq song root hz (hlast hb fr hft hc1 hfe)
      | false =>
        have h1 := hpass fr hft (Or.inl hb)
        have hs := step_loopEnd song root (tr := tr) (pos := Q) (fr := fr) (r := σ) hle hlk hft
        have hne : fr.loopCount ≠ 0 := by omega
        have h2 : coreStep song root ⟨tr, Q, fr :: σ⟩ = .ok (⟨tr, Q + 1, σ⟩, .hook le le) := by
          rw [hs]; simp [hne, hc1]
        have h3 := Sim.seq song root h1 (Sim.of_step_hook song root h2)
        rw [hlastR hb]
        have : Sim song root ⟨tr, P, fr :: σ⟩ ⟨tr, Q + 1, σ⟩ (.ok (full ++ [item le])) := by
          simpa [Expand.seq, item] using h3
        exact Sim.seq song root hz this
    | succ j =>
      have hcj : fr.loopCount = (j : Int) + 2 := by omega
      have hne1 : fr.loopCount ≠ 1 := by omega
      have hne0 : fr.loopCount ≠ 0 := by omega
      have h1 := hpass fr hft (Or.inr hne1)
      have hs := step_loopEnd song root (tr := tr) (pos := Q) (fr := fr) (r := σ) hle hlk hft
      have h2 : coreStep song root ⟨tr, Q, fr :: σ⟩
          = .ok (⟨tr, P, { fr with endPosition := Q + 1, loopCount := fr.loopCount - 1 } :: σ⟩, .hook le le) := by
        rw [hs]
        have a : ¬ (fr.loopCount < 0) := by omega
        have b : fr.loopCount - 1 > 0 := by omega
        simp [hne0, a, hfp]; omega
      have h3 := ih (by omega) { fr with endPosition := Q + 1, loopCount := fr.loopCount - 1 }
        hft hfp rfl (by simp; omega)
      have h12 := Sim.seq song root h1 (Sim.of_step_hook song root h2)
      have h123 := Sim.seq song root h12 h3
      have e1 : repeatItems (j + 1 + 1 - 1) (full ++ [item le])
          = (full ++ [item le]) ++ repeatItems (j + 1 - 1) (full ++ [item le]) := by
        simp [repeatItems]
      rw [e1]
      cases lastR with
      | error x => simpa [Expand.seq] using h123
      | ok l => simpa [Expand.seq, item, List.append_assoc] using h123


theorem expL_cons (call : Nat → Nat → Except SErr (List Item)) (d : Nat) (b : Bool) (n : Node) (ns : List Node) :
    expL call d b (n :: ns) = Expand.seq (expN call d b n) (expL call d b ns) := by
  simp [expL]

theorem len_flattenN_pos (n : Node) : 0 < (flattenN n).length := by
  cases n <;> simp [flattenN]

mutual
theorem simN (call : Nat → Nat → Except SErr (List Item)) (k : Nat) (hcall : CallSpec song root call k) :
    ∀ (n : Node), Node.closed n → ∀ (pre post : List Event) (tr : TRef) (σ : List Frame) (inLoop : Bool),
    codeOf song root tr = pre ++ flattenN n ++ post → TopOK inLoop [n] σ → σ.length + k ≥ limit →
    Sim song root ⟨tr, pre.length, σ⟩ ⟨tr, pre.length + (flattenN n).length, σ⟩
      (expN call σ.length inLoop n)
  | .ev e, hcl, pre, post, tr, σ, inLoop, hcode, htop, hbud => by
    have hc : (codeOf song root tr)[pre.length]? = some e := by
      rw [hcode]; simp [flattenN]
    rcases hcl with hk | hk | hk
    · have := Sim.of_step_hook song root (step_other song root (σ := σ) hc (Or.inl hk))
      simpa [expN, hk, flattenN, item] using this
    · have := hcall tr pre e post σ (by simpa [flattenN] using hcode) hk hbud
      simpa [expN, hk, flattenN] using this
    · have := Sim.of_step_hook song root (step_other song root (σ := σ) hc (Or.inr hk))
      simpa [expN, hk, flattenN, item] using this
  | .brk e, hcl, pre, post, tr, σ, inLoop, hcode, htop, hbud => by
    have hc : (codeOf song root tr)[pre.length]? = some e := by
      rw [hcode]; simp [flattenN]
    have hk : e.kind = .loopBreak := hcl
    cases inLoop with
    | true =>
      obtain ⟨fr, r, rfl, hft, hcnt⟩ := htop
      have hne : fr.loopCount ≠ 1 := by
        rcases hcnt with h | h
        · simp [hasTopBreak] at h
        · exact h
      have := Sim.of_step_hook song root (step_break_pass song root (r := r) hc hk hft hne)
      simpa [expN, flattenN, item] using this
    | false =>
      obtain ⟨err, herr⟩ := step_break_err song root (σ := σ) hc hk htop
      have hx : expN call σ.length false (.brk e) = .error .structure := by simp [expN]
      rw [hx]; exact Fails.one song root herr
  | .strayEnd e, hcl, _, _, _, _, _, _, _, _ => by exact absurd hcl (by simp [Node.closed])
  | .openLoop ls b, hcl, _, _, _, _, _, _, _, _ => by exact absurd hcl (by simp [Node.closed])
  | .loop ls b le, hcl, pre, post, tr, σ, inLoop, hcode, htop, hbud => by
    obtain ⟨hlsk, hbcl, hlek⟩ := hcl
    -- layout
    obtain ⟨P, hP⟩ : ∃ P, P = pre.length + 1 := ⟨_, rfl⟩
    obtain ⟨Q, hQ⟩ : ∃ Q, Q = P + (flattenL b).length := ⟨_, rfl⟩
    have hcode2 : codeOf song root tr = (pre ++ [ls]) ++ flattenL b ++ (le :: post) := by
      rw [hcode]; simp [flattenN, List.append_assoc]
    have hPl : (pre ++ [ls]).length = P := by simp [hP]
    have hcls : (codeOf song root tr)[pre.length]? = some ls := by
      rw [hcode]; simp [flattenN]
    have hcle : (codeOf song root tr)[Q]? = some le := by
      have : Q = ((pre ++ [ls]) ++ flattenL b).length := by simp [hQ, hP]; omega
      rw [this, hcode2]; exact get_mid _ _ _
    have hlen : pre.length + (flattenN (.loop ls b le)).length = Q + 1 := by
      simp [flattenN, hQ, hP]; omega
    rw [hlen]
    by_cases hfull : σ.length ≥ limit
    · -- no room for the loop frame
      have hx : expN call σ.length inLoop (.loop ls b le) = .error .depth := by simp [expN, hfull]
      rw [hx]; exact Fails.one song root (step_loopStart_full song root (σ := σ) hcls hlsk hfull)
    · have hlt : σ.length < limit := by omega
      obtain ⟨fr0, hfr0⟩ : ∃ fr0 : Frame, fr0 = { type := .loop, track := tr, position := P, endPosition := 0, loopCount := 0 } := ⟨_, rfl⟩
      have hstep0 : coreStep song root ⟨tr, pre.length, σ⟩ = .ok (⟨tr, P, fr0 :: σ⟩, .hook ls ls) := by
        rw [step_loopStart song root hcls hlsk hlt, hfr0, hP]
      have hS0 := Sim.of_step_hook song root hstep0
      -- one full pass of the body under any loop frame in pass mode
      have hpassG : ∀ fr : Frame, fr.type = .loop → (hasTopBreak b = false ∨ fr.loopCount ≠ 1) →
          Sim song root ⟨tr, P, fr :: σ⟩ ⟨tr, Q, fr :: σ⟩ (expL call (σ.length + 1) true b) := by
        intro fr hft hc
        have := simL call k hcall b hbcl (pre ++ [ls]) (le :: post) tr (fr :: σ) true hcode2
          ⟨fr, σ, rfl, hft, hc⟩ (by simp; omega)
        simpa [hPl, hQ] using this
      have hfirst := hpassG fr0 (by simp [hfr0]) (Or.inr (by simp [hfr0]))
      simp only [expN, hfull, if_false]
      cases hfullR : expL call (σ.length + 1) true b with
      | error x =>
        rw [hfullR] at hfirst
        exact Fails.of_runs song root (Runs.one song root hstep0 rfl) hfirst
      | ok full =>
        rw [hfullR] at hfirst
        simp only []
        have hsle := step_loopEnd song root (tr := tr) (pos := Q) (fr := fr0) (r := σ) hcle hlek (by simp [hfr0])
        have hfr0c : fr0.loopCount = 0 := by simp [hfr0]
        by_cases hneg : le.param < 0
        · have : coreStep song root ⟨tr, Q, fr0 :: σ⟩ = .error .invalidLoopCount := by
            rw [hsle]; simp [hfr0c, hneg]
          have hF := Fails.of_runs song root (Runs.one song root hstep0 rfl)
            (by obtain ⟨o, hr, _⟩ := hfirst; exact Fails.of_runs song root hr (Fails.one song root this))
          simp only [hneg, if_true]; exact hF
        · simp only [hneg, if_false]
          by_cases hn1 : le.param.toNat ≤ 1
          · -- count 0 or 1: the body is played once
            have : coreStep song root ⟨tr, Q, fr0 :: σ⟩ = .ok (⟨tr, Q + 1, σ⟩, .hook le le) := by
              rw [hsle]
              have : ¬ (le.param - 1 > 0) := by omega
              simp [hfr0c, hneg, this] <;> omega
            have h := Sim.seq song root (Sim.seq song root hS0 hfirst) (Sim.of_step_hook song root this)
            simpa [hn1, Expand.seq, item] using h
          · simp only [hn1, if_false]
            obtain ⟨n, hn⟩ : ∃ n : Nat, n = le.param.toNat := ⟨_, rfl⟩
            have hnp : le.param = (n : Int) := by omega
            obtain ⟨fr1, hfr1⟩ : ∃ fr1 : Frame, fr1 = { fr0 with endPosition := Q + 1, loopCount := le.param - 1 } := ⟨_, rfl⟩
            have hstepE : coreStep song root ⟨tr, Q, fr0 :: σ⟩ = .ok (⟨tr, P, fr1 :: σ⟩, .hook le le) := by
              rw [hsle]
              have : le.param - 1 > 0 := by omega
              simp [hfr0c, hneg, this, hfr1, hfr0] <;> omega
            have hhead := Sim.seq song root (Sim.seq song root hS0 hfirst) (Sim.of_step_hook song root hstepE)
            -- remaining n-1 iterations
            have hpassF : ∀ fr : Frame, fr.type = .loop → (hasTopBreak b = false ∨ fr.loopCount ≠ 1) →
                Sim song root ⟨tr, P, fr :: σ⟩ ⟨tr, Q, fr :: σ⟩ (.ok full) := by
              intro fr hft hc; have := hpassG fr hft hc; rwa [hfullR] at this
            obtain ⟨lastR, hlastR⟩ : ∃ lastR : Except SErr (List Item), lastR =
                (if hasTopBreak b then Expand.seq (expPre call (σ.length + 1) b) (.ok [{ ev := le, src := topBreakEv b }])
                 else .ok (full ++ [item le])) := ⟨_, rfl⟩
            have hlast : hasTopBreak b = true → ∀ fr : Frame, fr.type = .loop → fr.loopCount = 1 →
                fr.endPosition = Q + 1 → Sim song root ⟨tr, P, fr :: σ⟩ ⟨tr, Q + 1, σ⟩ lastR := by
              intro hb fr hft hc he
              have hle' : (codeOf song root tr)[fr.endPosition - 1]? = some le := by
                rw [he]; simpa using hcle
              have := lastL call k hcall b hbcl hb (pre ++ [ls]) (le :: post) tr fr σ le hcode2 hft hc hle'
                (by simp; omega)
              rw [hlastR, hb]
              simpa [hPl, he] using this
            have hiter := loop_iter song root tr P Q σ le full (hasTopBreak b) lastR hcle hlek hpassF hlast
              (by intro hb; rw [hlastR, hb]; simp) (n - 1) (by omega) fr1 (by simp [hfr1, hfr0])
              (by simp [hfr1, hfr0]) (by simp [hfr1]) (by simp [hfr1]; omega)
            have hall := Sim.seq song root hhead hiter
            -- reshape the result
            rw [← hn]
            cases hb : hasTopBreak b with
            | true =>
              rw [hlastR, hb] at hall
              simp only [if_true] at hall ⊢
              cases hpre : expPre call (σ.length + 1) b with
              | error x => rw [hpre] at hall; simpa [Expand.seq] using hall
              | ok pre' =>
                rw [hpre] at hall
                have e1 : repeatItems (n - 1) (full ++ [item le])
                    = (full ++ [item le]) ++ repeatItems (n - 1 - 1) (full ++ [item le]) := by
                  have : n - 1 = (n - 1 - 1) + 1 := by omega
                  rw [this]; simp [repeatItems]
                rw [e1]
                simpa [Expand.seq, item, List.append_assoc] using hall
            | false =>
              rw [hlastR, hb] at hall
              simp only [Bool.false_eq_true, if_false] at hall ⊢
              have e1 : repeatItems n (full ++ [item le])
                  = (full ++ [item le]) ++ (repeatItems (n - 1 - 1) (full ++ [item le]) ++ (full ++ [item le])) := by
                have : n = (n - 1 - 1) + 1 + 1 := by omega
                rw [this, repeatItems, repeatItems_succ']; simp
              rw [e1]
              simpa [Expand.seq, item, List.append_assoc] using hall
theorem simL (call : Nat → Nat → Except SErr (List Item)) (k : Nat) (hcall : CallSpec song root call k) :
    ∀ (f : List Node), closedL f → ∀ (pre post : List Event) (tr : TRef) (σ : List Frame) (inLoop : Bool),
    codeOf song root tr = pre ++ flattenL f ++ post → TopOK inLoop f σ → σ.length + k ≥ limit →
    Sim song root ⟨tr, pre.length, σ⟩ ⟨tr, pre.length + (flattenL f).length, σ⟩
      (expL call σ.length inLoop f)
  | [], _, pre, post, tr, σ, inLoop, _, _, _ => by
    simpa [flattenL, expL, Sim, itemsOf] using (⟨[], Runs.refl song root _, rfl⟩ : ∃ outs, Runs song root ⟨tr, pre.length, σ⟩ ⟨tr, pre.length, σ⟩ outs ∧ itemsOf outs = [])
  | n :: ns, hcl, pre, post, tr, σ, inLoop, hcode, htop, hbud => by
    have h1 := simN call k hcall n hcl.1 pre (flattenL ns ++ post) tr σ inLoop
      (by rw [hcode]; simp [flattenL_cons, List.append_assoc]) htop.head hbud
    have h2 := simL call k hcall ns hcl.2 (pre ++ flattenN n) post tr σ inLoop
      (by rw [hcode]; simp [flattenL_cons, List.append_assoc]) htop.tail hbud
    have := Sim.seq song root h1 (by simpa using h2)
    rw [expL_cons]
    simpa [flattenL_cons, Nat.add_assoc] using this
theorem lastL (call : Nat → Nat → Except SErr (List Item)) (k : Nat) (hcall : CallSpec song root call k) :
    ∀ (f : List Node), closedL f → hasTopBreak f = true →
    ∀ (pre post : List Event) (tr : TRef) (fr : Frame) (r : List Frame) (le : Event),
    codeOf song root tr = pre ++ flattenL f ++ post → fr.type = .loop → fr.loopCount = 1 →
    (codeOf song root tr)[fr.endPosition - 1]? = some le → (fr :: r).length + k ≥ limit →
    Sim song root ⟨tr, pre.length, fr :: r⟩ ⟨tr, fr.endPosition, r⟩
      (Expand.seq (expPre call (r.length + 1) f) (.ok [{ ev := le, src := topBreakEv f }]))
  | [], _, hb, _, _, _, _, _, _, _, _, _, _, _ => by simp [hasTopBreak] at hb
  | .brk e :: ns, hcl, _, pre, post, tr, fr, r, le, hcode, hft, hc, hle, _ => by
    have hcg : (codeOf song root tr)[pre.length]? = some e := by
      rw [hcode]; simp [flattenL_cons, flattenN]
    have hk : e.kind = .loopBreak := hcl.1
    have := Sim.of_step_hook song root (step_break_last song root (r := r) hcg hk hft hc hle)
    simpa [expPre, Expand.seq, topBreakEv] using this
  | .ev e :: ns, hcl, hb, pre, post, tr, fr, r, le, hcode, hft, hc, hle, hbud => by
    have h1 := simN call k hcall (.ev e) hcl.1 pre (flattenL ns ++ post) tr (fr :: r) true
      (by rw [hcode]; simp [flattenL_cons, List.append_assoc])
      ⟨fr, r, rfl, hft, Or.inl (by simp [hasTopBreak])⟩ hbud
    have h2 := lastL call k hcall ns hcl.2 (by simpa [hasTopBreak] using hb) (pre ++ flattenN (.ev e)) post tr fr r le
      (by rw [hcode]; simp [flattenL_cons, List.append_assoc]) hft hc hle hbud
    have := Sim.seq song root h1 (by simpa using h2)
    have e2 : topBreakEv (Node.ev e :: ns) = topBreakEv ns := by simp [topBreakEv]
    rw [e2]
    cases h3 : expN call (r.length + 1) true (Node.ev e) with
    | error x => simpa [expPre, Expand.seq, h3] using this
    | ok a =>
      cases h4 : expPre call (r.length + 1) ns with
      | error y => simpa [expPre, Expand.seq, h3, h4] using this
      | ok c => simpa [expPre, Expand.seq, h3, h4, List.append_assoc] using this
  | .loop ls b le' :: ns, hcl, hb, pre, post, tr, fr, r, le, hcode, hft, hc, hle, hbud => by
    have h1 := simN call k hcall (.loop ls b le') hcl.1 pre (flattenL ns ++ post) tr (fr :: r) true
      (by rw [hcode]; simp [flattenL_cons, List.append_assoc])
      ⟨fr, r, rfl, hft, Or.inl (by simp [hasTopBreak])⟩ hbud
    have h2 := lastL call k hcall ns hcl.2 (by simpa [hasTopBreak] using hb) (pre ++ flattenN (.loop ls b le')) post tr fr r le
      (by rw [hcode]; simp [flattenL_cons, List.append_assoc]) hft hc hle hbud
    have := Sim.seq song root h1 (by simpa using h2)
    have e2 : topBreakEv (Node.loop ls b le' :: ns) = topBreakEv ns := by simp [topBreakEv]
    rw [e2]
    cases h3 : expN call (r.length + 1) true (Node.loop ls b le') with
    | error x => simpa [expPre, Expand.seq, h3] using this
    | ok a =>
      cases h4 : expPre call (r.length + 1) ns with
      | error y => simpa [expPre, Expand.seq, h3, h4] using this
      | ok c => simpa [expPre, Expand.seq, h3, h4, List.append_assoc] using this
  | .strayEnd e :: ns, hcl, _, _, _, _, _, _, _, _, _, _, _, _ => by exact absurd hcl.1 (by simp [Node.closed])
  | .openLoop ls b :: ns, hcl, _, _, _, _, _, _, _, _, _, _, _, _ => by exact absurd hcl.1 (by simp [Node.closed])
end


/-! ### whole tracks: the spine of a parsed track, calls, and the top level -/

def TopS (inLoop : Bool) (σ : List Frame) : Prop :=
  match inLoop with
  | true => ∃ fr r, σ = fr :: r ∧ fr.type = .loop ∧ fr.loopCount ≠ 1
  | false => ∀ fr r, σ = fr :: r → fr.type ≠ .loop

theorem TopS.topOK {b : Bool} {σ : List Frame} (h : TopS b σ) (f : List Node) : TopOK b f σ := by
  cases b with
  | false => exact h
  | true => obtain ⟨fr, r, h1, h2, h3⟩ := h; exact ⟨fr, r, h1, h2, Or.inr h3⟩

theorem simSpine (call : Nat → Nat → Except SErr (List Item)) (k : Nat) (hcall : CallSpec song root call k)
    {b : Bool} {f : List Node} (hs : Spine b f) :
    ∀ (pre : List Event) (tr : TRef) (σ : List Frame),
    codeOf song root tr = pre ++ flattenL f → TopS b σ → σ.length + k ≥ limit →
    Sim song root ⟨tr, pre.length, σ⟩ ⟨tr, (codeOf song root tr).length, σ⟩ (expL call σ.length b f) := by
  induction hs with
  | nil =>
    intro pre tr σ hcode _ _
    have : (codeOf song root tr).length = pre.length := by rw [hcode]; simp [flattenL]
    rw [this]
    exact ⟨[], Runs.refl song root _, by simp [expL, itemsOf]⟩
  | @closed b n ns hn _ ih =>
    intro pre tr σ hcode htop hbud
    have h1 := simN song root call k hcall n hn pre (flattenL ns) tr σ b
      (by rw [hcode]; simp [flattenL_cons]) ((htop.topOK (n :: ns)).head) hbud
    have h2 := ih (pre ++ flattenN n) tr σ (by rw [hcode]; simp [flattenL_cons]) htop hbud
    rw [expL_cons]
    exact Sim.seq song root h1 (by simpa using h2)
  | @stray e ns hk =>
    intro pre tr σ hcode htop _
    have hc : (codeOf song root tr)[pre.length]? = some e := by
      rw [hcode]; simp [flattenL_cons, flattenN]
    obtain ⟨err, herr⟩ := step_loopEnd_err song root (σ := σ) hc hk htop
    have hx : expL call σ.length false (Node.strayEnd e :: ns) = .error .structure := by
      simp [expL, expN, Expand.seq]
    rw [hx]; exact Fails.one song root herr
  | @opened b ls body hk _ ih =>
    intro pre tr σ hcode _ hbud
    have hc : (codeOf song root tr)[pre.length]? = some ls := by
      rw [hcode]; simp [flattenL_cons, flattenN]
    have hx : expL call σ.length b [Node.openLoop ls body] = .error .structure := by
      simp [expL, expN, Expand.seq]
    rw [hx]
    by_cases hfull : σ.length ≥ limit
    · exact Fails.one song root (step_loopStart_full song root (σ := σ) hc hk hfull)
    · have hlt : σ.length < limit := by omega
      have hstep := step_loopStart song root (σ := σ) hc hk hlt
      have hcode2 : codeOf song root tr = (pre ++ [ls]) ++ flattenL body := by
        rw [hcode]; simp [flattenL_cons, flattenN, flattenL]
      have h2 := ih (pre ++ [ls]) tr
        ({ type := .loop, track := tr, position := pre.length + 1, endPosition := 0, loopCount := 0 } :: σ)
        hcode2 ⟨_, _, rfl, rfl, by simp⟩ (by simp; omega)
      apply Fails.of_runs song root (Runs.one song root hstep rfl)
      have hpl : (pre ++ [ls]).length = pre.length + 1 := by simp
      rw [hpl] at h2
      cases hb : expL call ({ type := FType.loop, track := tr, position := pre.length + 1, endPosition := 0, loopCount := 0 } :: σ : List Frame).length true body with
      | error x => rw [hb] at h2; exact h2
      | ok items =>
        rw [hb] at h2
        obtain ⟨outs, hr, _⟩ := h2
        have hnone : (codeOf song root tr)[(codeOf song root tr).length]? = none := by simp
        obtain ⟨err, herr⟩ := step_end_err song root (tr := tr) (pos := (codeOf song root tr).length)
          (fr := { type := .loop, track := tr, position := pre.length + 1, endPosition := 0, loopCount := 0 }) (r := σ)
          hnone (by simp)
        exact Fails.of_runs song root hr (Fails.one song root herr)

/-- no track of the song contains an explicit `END` event (the MML front end never produces
one; `END` is what the player synthesises past the last event) -/
def SongNoEnd (song : Song) : Prop := ∀ id evs, song.track? id = some evs → NoEnd evs

theorem callK_spec (hne : SongNoEnd song) : ∀ k, CallSpec song root (callK song k) k
  | 0 => by
    intro tr pre e post σ hcode hk hbud
    have hc : (codeOf song root tr)[pre.length]? = some e := by rw [hcode]; simp
    have hx : Expand.seq (.ok [item e]) (callK song 0 σ.length (trackIdOfParam e.param)) = .error .depth := by
      simp [callK, Expand.seq]
    rw [hx]
    exact Fails.one song root (step_jump_full song root (σ := σ) hc hk (by omega))
  | k + 1 => by
    intro tr pre e post σ hcode hk hbud
    have hc : (codeOf song root tr)[pre.length]? = some e := by rw [hcode]; simp
    by_cases hfull : σ.length ≥ limit
    · have hx : Expand.seq (.ok [item e]) (callK song (k + 1) σ.length (trackIdOfParam e.param)) = .error .depth := by
        simp [callK, Expand.seq, hfull]
      rw [hx]
      exact Fails.one song root (step_jump_full song root (σ := σ) hc hk hfull)
    · cases hm : song.track? (trackIdOfParam e.param) with
      | none =>
        have hx : Expand.seq (.ok [item e]) (callK song (k + 1) σ.length (trackIdOfParam e.param)) = .error .missing := by
          simp [callK, Expand.seq, hfull, hm]
        rw [hx]
        exact Fails.one song root (step_jump_missing song root (σ := σ) hc hk hm)
      | some evs =>
        have hlt : σ.length < limit := by omega
        have hstep := step_jump song root (σ := σ) hc hk hlt hm
        obtain ⟨frJ, hfrJ⟩ : ∃ frJ : Frame, frJ = { type := .jump, track := tr, position := pre.length + 1, endPosition := 0, loopCount := 0 } := ⟨_, rfl⟩
        rw [← hfrJ] at hstep
        have hcodeC : codeOf song root (.id (trackIdOfParam e.param)) = [] ++ flattenL (parse evs) := by
          simp [codeOf, hm, flatten_parse]
        have hsp := simSpine song root (callK song k) k (callK_spec hne k)
          (spine_parse evs (hne _ _ hm)) [] (.id (trackIdOfParam e.param)) (frJ :: σ) hcodeC
          (by intro fr r h; cases h; simp [hfrJ]) (by simp; omega)
        have hlenC : (codeOf song root (.id (trackIdOfParam e.param))).length = evs.length := by
          simp [codeOf, hm]
        rw [hlenC] at hsp
        have hnone : (codeOf song root (.id (trackIdOfParam e.param)))[evs.length]? = none := by
          simp [codeOf, hm]
        have hret := step_end_ret song root (tr := .id (trackIdOfParam e.param)) (pos := evs.length)
          (fr := frJ) (r := σ) hnone (by simp [hfrJ])
        have hall := Sim.seq song root (Sim.seq song root (Sim.of_step_hook song root hstep) hsp)
          (Sim.of_step_ret song root hret)
        have hx : callK song (k + 1) σ.length (trackIdOfParam e.param)
            = expL (callK song k) (σ.length + 1) false (parse evs) := by
          simp [callK, hfull, hm]
        rw [hx]
        have hfl : (frJ :: σ).length = σ.length + 1 := by simp
        rw [hfl] at hall
        have hfp : frJ.position = pre.length + 1 := by simp [hfrJ]
        have hft : frJ.track = tr := by simp [hfrJ]
        rw [hfp, hft] at hall
        cases hr : expL (callK song k) (σ.length + 1) false (parse evs) with
        | error x => rw [hr] at hall; simpa [Expand.seq] using hall
        | ok items => rw [hr] at hall; simpa [Expand.seq, item] using hall

/-- the control machine started on a track simulates `perf` up to the end of the track -/
theorem perf_sim (hne : SongNoEnd song) (hr : NoEnd root) :
    Sim song root ⟨.root, 0, []⟩ ⟨.root, root.length, []⟩ (perf song root) := by
  have := simSpine song root (callK song limit) limit (callK_spec song root hne limit)
    (spine_parse root hr) [] .root [] (by simp [codeOf, flatten_parse])
    (by intro fr r h; cases h) (by simp)
  simpa [codeOf, perf] using this

end
end Ctrmml.Refine
