/-
  C12 round 3, part 1: seeks on a player that is not fresh.  Every state left by `play_tick` is
  settled; from a settled state `skip_ticks(n)` is exactly `n` single ticks (no extra fetch tick).
-/
import Ctrmml.Proofs.SeekAlive
namespace Ctrmml.PlayerCh
open Ctrmml Player

section
variable (song : Song) (root : List Event) (pd : Int → Bool)

/-- whatever `play_tick` leaves is settled (a duration is pending, or the track has stopped, or
an error is recorded) -/
theorem playTickS_settled (s : PS) : isSettled (playTickS song root pd s) = true := by
  unfold playTickS
  by_cases he : s.err.isSome = true
  · simp only [he, if_true]
    simp [isSettled, he]
  · simp only [he]
    exact settle_settled song root pd _

/-- every state reached by at least one `play_tick` from anywhere is settled -/
theorem iter_succ_settled (m : Nat) (s : PS) :
    isSettled (iter (playTickS song root pd) (m + 1) s) = true := by
  rw [iter_succ']
  exact playTickS_settled song root pd _

/-- from a settled alive state `skip_ticks(n)` is the loop run with budget `n+2` -/
theorem skipTicks_alive (n : Nat) (s : PS) (hal : alive s) :
    skipTicks song root pd n s = skipLoopS song root pd (n + 2) n s := by
  obtain ⟨hen, herr⟩ := hal
  unfold skipTicks skipTicksO
  have e1 : s.err.isSome = false := by simp [herr]
  have e2 : ¬ (s.acc.enabled = false) := by simp [hen]
  simp only [e1, Bool.false_eq_true, if_false, e2]
  exact skipLoopO_state song root pd (n + 2) n s

/-- **seek = play from any settled state**: `n` ticks, no off-by-one -/
theorem skipTicks_eq_iter_of_settled (n : Nat) (s : PS) (hs : isSettled s = true) (hal0 : alive s)
    (hal : ∀ k, k < n → alive (iter (playTickS song root pd) k s)) :
    skipTicks song root pd n s = iter (playTickS song root pd) n s := by
  rw [skipTicks_alive song root pd n s hal0]
  exact skip_eq_play song root pd (n + 2) n s (by omega) hs hal

/-- up to `obs`, with only "no error" at the earlier ticks -/
theorem skipTicks_obs_iter_of_settled (n : Nat) (s : PS) (hs : isSettled s = true) (hal0 : alive s)
    (hne : ∀ k, k < n → (iter (playTickS song root pd) k s).err = none) :
    obs (skipTicks song root pd n s) = obs (iter (playTickS song root pd) n s) := by
  rw [skipTicks_alive song root pd n s hal0]
  exact skip_obs_play song root pd (n + 2) n s (by omega) hs hne

end
end Ctrmml.PlayerCh
