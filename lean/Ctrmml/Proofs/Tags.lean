/-
  Helper lemmas for C18 (no property statements here): one-step behaviour of the
  `add_tag_list` loop, quoted-string reader vs. `unescape`, separator runs, tag-map lookups.
-/
import Ctrmml.Model.Tags
import Ctrmml.Spec.TagRender
namespace Ctrmml.Tags
open Ctrmml Ctrmml.TagSpec
@[simp] theorem QUOTE_eq : QUOTE = 34 := by decide
@[simp] theorem COMMA_eq : COMMA = 44 := by decide
@[simp] theorem SEMI_eq : SEMI = 59 := by decide
@[simp] theorem ESC_eq : ESC = 92 := by decide
@[simp] theorem ENDQUOTE_eq : ENDQUOTE = 34 := by decide

theorem escByte_eq (c : UInt8) : escByte c = escOf c := by
  unfold escByte escOf
  by_cases h1 : c = 110
  · subst h1; rfl
  · by_cases h2 : c = 116
    · subst h2; rfl
    · have e1 : ((110 : UInt8) == c) = false := by
        simp only [beq_eq_false_iff_ne]; exact fun h => h1 h.symm
      have e2 : ((116 : UInt8) == c) = false := by
        simp only [beq_eq_false_iff_ne]; exact fun h => h2 h.symm
      simp [Tables.tags_escapes, List.find?, e1, e2, h1, h2]

theorem loop_nil (lc : UInt8) (acc : List Bytes) : tagListLoop [] lc acc = acc := by
  unfold tagListLoop; simp

theorem dropWhile_all (p : UInt8 → Bool) (l : Bytes) (h : ∀ b ∈ l, p b = true) : l.dropWhile p = [] := by
  induction l with
  | nil => rfl
  | cons a t ih =>
    simp only [List.dropWhile, h a (by simp)]
    exact ih (fun b hb => h b (by simp [hb]))

theorem loop_sep_cons (c : UInt8) (t : Bytes) (lc : UInt8) (acc : List Bytes) (hc : isSepByte c = true) :
    tagListLoop (c :: t) lc acc =
      if c == 34 then tagListLoop (enclosed t).2 c (acc ++ [(enclosed t).1])
      else if c == 44 then (if lc == c then tagListLoop t lc (acc ++ [[]]) else tagListLoop t c acc)
      else if c == 59 then acc
      else tagListLoop t lc acc := by
  rw [tagListLoop]
  have hd : List.dropWhile notSep (c :: t) = c :: t := by simp [List.dropWhile, notSep, hc]
  have ht : List.takeWhile notSep (c :: t) = [] := by simp [List.takeWhile, notSep, hc]
  rw [dif_neg (List.cons_ne_nil _ _)]
  split
  · rename_i hh; rw [hd] at hh; cases hh
  · rename_i c' rest hh; rw [hd] at hh; cases hh; simp [ht]

theorem loop_plain_end (tok : Bytes) (lc : UInt8) (acc : List Bytes) (h0 : tok ≠ [])
    (hp : ∀ b ∈ tok, isSepByte b = false) : tagListLoop tok lc acc = acc ++ [tok] := by
  rw [tagListLoop]
  have hd : List.dropWhile notSep tok = [] :=
    dropWhile_all _ _ (by intro b hb; simp [notSep, hp b hb])
  rw [dif_neg h0]
  split
  · rfl
  · rename_i c rest hh; rw [hd] at hh; cases hh

theorem loop_plain_sep (tok : Bytes) (c : UInt8) (t : Bytes) (lc : UInt8) (acc : List Bytes) (h0 : tok ≠ [])
    (hp : ∀ b ∈ tok, isSepByte b = false) (hc : isSepByte c = true) (hq : c ≠ 34) :
    tagListLoop (tok ++ c :: t) lc acc =
      if c == 59 then acc ++ [tok] else tagListLoop t c (acc ++ [tok]) := by
  rw [tagListLoop]
  have hp' : ∀ b ∈ tok, notSep b = true := by intro b hb; simp [notSep, hp b hb]
  have hd : List.dropWhile notSep (tok ++ c :: t) = c :: t := by
    rw [List.dropWhile_append_of_pos hp']; simp [List.dropWhile, notSep, hc]
  have ht : List.takeWhile notSep (tok ++ c :: t) = tok := by
    rw [List.takeWhile_append_of_pos hp']; simp [List.takeWhile, notSep, hc]
  rw [dif_neg (by simp)]
  split
  · rename_i hh; rw [hd] at hh; cases hh
  · rename_i c' rest hh
    rw [hd] at hh
    cases hh
    simp [ht, h0, hq]
theorem isSepByte_iff (b : UInt8) :
    isSepByte b = true ↔ (b = 32 ∨ b = 9 ∨ b = 13 ∨ b = 10 ∨ b = 34 ∨ b = 44 ∨ b = 59) := by
  simp [isSepByte, sepSet, ofNats, Tables.tags_sepSet]

theorem isSepChar_iff (b : UInt8) : isSepChar b = true ↔ (b = 32 ∨ b = 9 ∨ b = 13 ∨ b = 10 ∨ b = 44) := by
  simp [isSepChar, isBlank, or_assoc]

theorem isSpecial_false (b : UInt8) : isSpecial b = false ↔ (b ≠ 0 ∧ b ≠ 32 ∧ b ≠ 9 ∧ b ≠ 13 ∧ b ≠ 10 ∧ b ≠ 34 ∧ b ≠ 44 ∧ b ≠ 59) := by
  simp [isSpecial, isBlank, and_assoc]

theorem sepByte_of_sepChar (b : UInt8) (h : isSepChar b = true) : isSepByte b = true := by
  rw [isSepByte_iff]; rw [isSepChar_iff] at h; rcases h with h | h | h | h | h <;> simp [h]

theorem notSepByte_of_plain (b : UInt8) (h : isSpecial b = false) : isSepByte b = false := by
  rw [isSpecial_false] at h
  cases hb : isSepByte b
  · rfl
  · rw [isSepByte_iff] at hb
    obtain ⟨_, h1, h2, h3, h4, h5, h6, h7⟩ := h
    rcases hb with e | e | e | e | e | e | e <;> contradiction

theorem enclosed_quote (t : Bytes) : enclosed (34 :: t) = ([], t) := by
  rw [enclosed.eq_def]; simp

theorem enclosed_unescape_aux : ∀ (n : Nat) (raw : Bytes), raw.length ≤ n → ∀ v t,
    unescape raw = some v → enclosed (raw ++ 34 :: t) = (v, t) := by
  intro n
  induction n with
  | zero =>
    intro raw hl v t h
    have : raw = [] := List.length_eq_zero_iff.mp (by omega)
    subst this
    simp [unescape] at h; subst h
    exact enclosed_quote t
  | succ n ih =>
    intro raw hl v t h
    cases raw with
    | nil => simp [unescape] at h; subst h; exact enclosed_quote t
    | cons b rest =>
      by_cases hb : b = 92
      · subst hb
        cases rest with
        | nil => simp [unescape] at h
        | cons c rest' =>
          by_cases hc : c = 0
          · simp [unescape, hc] at h
          · simp [unescape, hc] at h
            obtain ⟨w, hw, rfl⟩ := h
            have := ih rest' (by simp at hl; omega) w t hw
            simp only [List.cons_append]
            rw [enclosed.eq_def]
            simp [this, escByte_eq]
      · by_cases hq : b = 34 ∨ b = 0
        · rw [unescape.eq_def] at h; simp [hb, hq] at h
        · rw [unescape.eq_def] at h; simp [hb, hq] at h
          obtain ⟨w, hw, rfl⟩ := h
          have := ih rest (by simp at hl; omega) w t hw
          simp only [List.cons_append]
          rw [enclosed.eq_def]
          have hq' : b ≠ 34 := fun e => hq (Or.inl e)
          simp [this, hb, hq']

/-- the quoted-string reader decodes exactly what the spec's `unescape` denotes and stops
right after the closing quote -/
theorem enclosed_unescape (raw v t : Bytes) (h : unescape raw = some v) :
    enclosed (raw ++ 34 :: t) = (v, t) :=
  enclosed_unescape_aux raw.length raw (Nat.le_refl _) v t h
/-- a run of separator characters: blanks do nothing, the first comma (when the previous
token did not end in one) only sets `last_char`, every further comma pushes an empty item -/
theorem sepRun (sp : Bytes) (hs : isSep sp) : ∀ (rest : Bytes) (lc : UInt8) (acc : List Bytes),
    tagListLoop (sp ++ rest) lc acc =
      tagListLoop rest (if sp.count 44 = 0 then lc else 44)
        (acc ++ List.replicate (if lc = 44 then sp.count 44 else sp.count 44 - 1) []) := by
  induction sp with
  | nil => intro rest lc acc; simp
  | cons b t ih =>
    intro rest lc acc
    have hb : isSepChar b = true := hs b (by simp)
    have ht : isSep t := fun x hx => hs x (by simp [hx])
    rw [List.cons_append, loop_sep_cons b _ lc acc (sepByte_of_sepChar b hb)]
    rw [isSepChar_iff] at hb
    by_cases hc : b = 44
    · subst hc
      by_cases hl : lc = 44
      · subst hl
        simp [ih ht, List.replicate_succ', List.append_assoc]
        have e : ([] : Bytes) :: List.replicate (List.count 44 t) [] = List.replicate (List.count 44 t) [] ++ [[]] := by
          rw [← List.replicate_succ, List.replicate_succ']
        rw [e]
      · simp [hl, ih ht]
    · have h34 : b ≠ 34 := by rcases hb with h | h | h | h | h <;> simp [h]
      have h59 : b ≠ 59 := by rcases hb with h | h | h | h | h <;> simp [h]
      simp [hc, h34, h59, ih ht]

def itemsText (items : List (Item × Bytes)) : Bytes := items.flatMap fun p => p.1.text ++ p.2
def itemsDen (items : List (Item × Bytes)) : List Bytes := items.flatMap fun p => p.1.value :: empties p.2

/-- what follows the last separator: nothing or a comment -/
def isTail (tail : Bytes) : Prop := tail = [] ∨ ∃ c, tail = 59 :: c

theorem loop_tail (tail : Bytes) (h : isTail tail) (lc : UInt8) (acc : List Bytes) :
    tagListLoop tail lc acc = acc := by
  rcases h with rfl | ⟨c, rfl⟩
  · exact loop_nil lc acc
  · rw [loop_sep_cons 59 c lc acc (by decide)]; simp

theorem itemsRun (items : List (Item × Bytes)) : (∀ p ∈ items, p.1.wf ∧ isSep p.2) → sepsOk items →
    ∀ (tail : Bytes), isTail tail → ∀ (lc : UInt8) (acc : List Bytes),
    tagListLoop (itemsText items ++ tail) lc acc = acc ++ itemsDen items := by
  induction items with
  | nil => intro _ _ tail ht lc acc; simp [itemsText, itemsDen, loop_tail tail ht]
  | cons p rest ih =>
    intro hw hso tail ht lc acc
    obtain ⟨it, sp⟩ := p
    have hwp := hw (it, sp) (by simp)
    have hwr : ∀ q ∈ rest, q.1.wf ∧ isSep q.2 := fun q hq => hw q (by simp [hq])
    have hsor : sepsOk rest := by
      cases rest with
      | nil => trivial
      | cons q r => exact hso.2
    have hsp : isSep sp := hwp.2
    have ihr := ih hwr hsor tail ht
    have etext : itemsText ((it, sp) :: rest) ++ tail = it.text ++ (sp ++ (itemsText rest ++ tail)) := by
      simp [itemsText, List.append_assoc]
    have eden : itemsDen ((it, sp) :: rest) = it.value :: (empties sp ++ itemsDen rest) := by
      simp [itemsDen]
    rw [etext, eden]
    cases it with
    | quoted raw =>
      have hv : ∃ v, unescape raw = some v := Option.isSome_iff_exists.mp hwp.1
      obtain ⟨v, hv⟩ := hv
      simp only [Item.text, Item.value, hv, Option.getD_some, List.cons_append, List.append_assoc]
      rw [loop_sep_cons 34 _ lc acc (by decide)]
      simp only [beq_self_eq_true, if_true]
      rw [enclosed_unescape raw v _ hv]
      simp only [List.nil_append]
      rw [sepRun sp hsp, ihr]
      simp [empties, List.append_assoc]
    | plain v =>
      obtain ⟨hne, hpl⟩ := hwp.1
      have hpl' : ∀ b ∈ v, isSepByte b = false := fun b hb => notSepByte_of_plain b (hpl b hb)
      simp only [Item.text, Item.value]
      cases sp with
      | nil =>
        have hr : rest = [] := by
          cases rest with
          | nil => rfl
          | cons q r => exact absurd rfl hso.1
        subst hr
        simp only [itemsText, itemsDen, List.flatMap_nil, List.nil_append, empties, List.count_nil]
        rcases ht with rfl | ⟨c, rfl⟩
        · simp [loop_plain_end v lc acc hne hpl']
        · rw [loop_plain_sep v 59 c lc acc hne hpl' (by decide) (by decide)]; simp
      | cons b sp' =>
        have hb : isSepChar b = true := hsp b (by simp)
        have hsp' : isSep sp' := fun x hx => hsp x (by simp [hx])
        have hb' := (isSepChar_iff b).mp hb
        have h34 : b ≠ 34 := by rcases hb' with h | h | h | h | h <;> simp [h]
        have h59 : b ≠ 59 := by rcases hb' with h | h | h | h | h <;> simp [h]
        rw [List.cons_append, loop_plain_sep v b _ lc acc hne hpl' (sepByte_of_sepChar b hb) h34]
        simp only [h59, beq_iff_eq, if_false]
        rw [sepRun sp' hsp', ihr]
        by_cases hc : b = 44
        · subst hc; simp [empties, List.append_assoc]
        · simp [empties, hc, List.append_assoc]
theorem commentTail (c : Option Bytes) : isTail (commentText c) := by
  cases c with
  | none => exact Or.inl rfl
  | some c => exact Or.inr ⟨c, rfl⟩

theorem line_loop (l : Line) (hw : l.wf) (acc : List Bytes) :
    tagListLoop l.render 0 acc = acc ++ l.denote := by
  obtain ⟨hlead, hitems, hso, _⟩ := hw
  have e : l.render = l.lead ++ (itemsText l.items ++ commentText l.comment) := by
    simp [Line.render, itemsText, List.append_assoc]
  rw [e, sepRun l.lead hlead, itemsRun l.items hitems hso _ (commentTail _)]
  simp [Line.denote, itemsDen, empties, List.append_assoc]

theorem takeWhile_all (p : UInt8 → Bool) (l : Bytes) (h : ∀ b ∈ l, p b = true) : l.takeWhile p = l := by
  induction l with
  | nil => rfl
  | cons a t ih =>
    simp only [List.takeWhile, h a (by simp)]
    rw [ih (fun b hb => h b (by simp [hb]))]

theorem unescape_no_nul : ∀ (n : Nat) (raw : Bytes), raw.length ≤ n → (unescape raw).isSome → ∀ b ∈ raw, b ≠ 0 := by
  intro n
  induction n with
  | zero =>
    intro raw hl _ b hb
    have : raw = [] := List.length_eq_zero_iff.mp (by omega)
    subst this; simp at hb
  | succ n ih =>
    intro raw hl h
    cases raw with
    | nil => intro b hb; simp at hb
    | cons a rest =>
      rw [unescape.eq_def] at h
      by_cases ha : a = 92
      · subst ha
        cases rest with
        | nil => simp at h
        | cons c rest' =>
          by_cases hc : c = 0
          · simp [hc] at h
          · simp [hc] at h
            have := ih rest' (by simp at hl; omega) (by simpa [Option.isSome_iff_exists] using h)
            intro b hb
            simp at hb
            rcases hb with rfl | rfl | hb
            · decide
            · exact hc
            · exact this b hb
      · by_cases hq : a = 34 ∨ a = 0
        · simp [ha, hq] at h
        · simp [ha, hq] at h
          have := ih rest (by simp at hl; omega) (by simpa [Option.isSome_iff_exists] using h)
          intro b hb
          simp at hb
          rcases hb with rfl | hb
          · exact fun e => hq (Or.inr e)
          · exact this b hb

theorem render_no_nul (l : Line) (hw : l.wf) : ∀ b ∈ l.render, b ≠ 0 := by
  obtain ⟨hlead, hitems, _, hcom⟩ := hw
  intro b hb
  simp only [Line.render, List.mem_append, List.mem_flatMap] at hb
  have sepnz : ∀ (s : Bytes), isSep s → ∀ x ∈ s, x ≠ 0 := by
    intro s hs x hx
    have := (isSepChar_iff x).mp (hs x hx)
    rcases this with h | h | h | h | h <;> simp [h]
  rcases hb with (hb | ⟨p, hp, hb⟩) | hb
  · exact sepnz _ hlead b hb
  · obtain ⟨hwf, hsp⟩ := hitems p hp
    rcases hb with hb | hb
    · cases hit : p.1 with
      | plain v =>
        rw [hit] at hb hwf
        have := (isSpecial_false b).mp (hwf.2 b hb)
        exact this.1
      | quoted raw =>
        rw [hit] at hb hwf
        simp [Item.text] at hb
        rcases hb with rfl | hb | rfl
        · decide
        · exact unescape_no_nul raw.length raw (Nat.le_refl _) hwf b hb
        · decide
    · exact sepnz _ hsp b hb
  · cases hc : l.comment with
    | none => rw [hc] at hb; simp [commentText] at hb
    | some c =>
      rw [hc] at hb
      simp [commentText] at hb
      rcases hb with rfl | hb
      · decide
      · exact hcom c hc b hb

theorem cstr_render (l : Line) (hw : l.wf) : cstr l.render = l.render :=
  takeWhile_all _ _ (fun b hb => by simp [render_no_nul l hw b hb])
abbrev TagMap := List (Bytes × List Bytes)

/-- the values of a tag; an absent tag has none -/
def values (s : Song) (k : Bytes) : List Bytes := (lookupTag s.tags k).getD []

def keysOf (t : TagMap) : List Bytes := t.map (·.1)

theorem lookup_nil (k : Bytes) : lookupTag [] k = none := rfl

theorem lookup_cons (k k' : Bytes) (v : List Bytes) (t : TagMap) :
    lookupTag ((k', v) :: t) k = if k = k' then some v else lookupTag t k := by
  simp only [lookupTag, List.lookup_cons]
  by_cases h : k = k'
  · simp [h]
  · have : (k == k') = false := by simp [h]
    simp [h, this]

theorem lookup_isSome_iff (t : TagMap) (k : Bytes) : (lookupTag t k).isSome = true ↔ k ∈ keysOf t := by
  induction t with
  | nil => simp [lookup_nil, keysOf]
  | cons kv t ih =>
    obtain ⟨k', v⟩ := kv
    rw [lookup_cons]
    by_cases h : k = k'
    · simp [h, keysOf]
    · simp [h, keysOf] at ih ⊢; exact ih

theorem lookup_append (t u : TagMap) (k : Bytes) :
    lookupTag (t ++ u) k = (lookupTag t k).orElse (fun _ => lookupTag u k) := by
  induction t with
  | nil => simp [lookup_nil]
  | cons kv t ih =>
    obtain ⟨k', v⟩ := kv
    rw [List.cons_append, lookup_cons, lookup_cons]
    by_cases h : k = k'
    · simp [h]
    · simp [h, ih]

theorem lookup_modify (t : TagMap) (k k' : Bytes) (f : List Bytes → List Bytes) :
    lookupTag (modifyTag t k f) k' = if k' = k then (lookupTag t k').map f else lookupTag t k' := by
  induction t with
  | nil => simp [modifyTag, lookup_nil]
  | cons kv t ih =>
    obtain ⟨k0, v⟩ := kv
    simp only [modifyTag, List.map_cons] at ih ⊢
    by_cases h0 : k0 = k
    · subst h0
      simp only [beq_self_eq_true, if_true]
      rw [lookup_cons, lookup_cons]
      by_cases h : k' = k0
      · simp [h]
      · simp [h]; simpa [h] using ih
    · have : (k0 == k) = false := by simp [h0]
      simp only [this, Bool.false_eq_true, if_false]
      rw [lookup_cons, lookup_cons]
      by_cases h : k' = k0
      · subst h; simp [h0]
      · simp only [h, if_false]; exact ih

theorem keys_modify (t : TagMap) (k : Bytes) (f : List Bytes → List Bytes) : keysOf (modifyTag t k f) = keysOf t := by
  induction t with
  | nil => rfl
  | cons kv t ih =>
    simp only [modifyTag, keysOf, List.map_cons] at ih ⊢
    rw [ih]
    by_cases h : (kv.1 == k) = true <;> simp [h]

theorem lookup_ensure (t : TagMap) (k k' : Bytes) :
    lookupTag (ensureTag t k) k' = if k' = k then some ((lookupTag t k).getD []) else lookupTag t k' := by
  unfold ensureTag
  cases hk : lookupTag t k with
  | some v =>
    simp only [Option.isSome_some, if_true, Option.getD_some]
    by_cases h : k' = k
    · subst h; simp [hk]
    · simp [h]
  | none =>
    simp only [Option.isSome_none, Bool.false_eq_true, if_false, Option.getD_none]
    rw [lookup_append, lookup_cons, lookup_nil]
    by_cases h : k' = k
    · subst h; simp [hk]
    · simp [h]

theorem keys_ensure (t : TagMap) (k : Bytes) :
    keysOf (ensureTag t k) = if k ∈ keysOf t then keysOf t else keysOf t ++ [k] := by
  unfold ensureTag
  by_cases h : k ∈ keysOf t
  · simp [(lookup_isSome_iff t k).mpr h, h]
  · have : (lookupTag t k).isSome = false := by
      cases hh : (lookupTag t k).isSome
      · rfl
      · exact absurd ((lookup_isSome_iff t k).mp hh) h
    rw [if_neg h]
    simp [this, keysOf]
/-- get_or_make_tag followed by an update of that tag: the shape of set_tag/add_tag/add_tag_list -/
def touch (s : Song) (k : Bytes) (f : List Bytes → List Bytes) : Song :=
  { getOrMake s k with tags := modifyTag (getOrMake s k).tags k f }

theorem setTag_touch (s : Song) (k v : Bytes) : setTag s k v = touch s k (fun _ => [rtrim v]) := rfl
theorem addTag_touch (s : Song) (k v : Bytes) : addTag s k v = touch s k (· ++ [rtrim v]) := rfl
theorem addTagList_touch (s : Song) (k v : Bytes) :
    addTagList s k v = touch s k (fun old => tagListLoop (cstr v) 0 old) := rfl

theorem lookup_getOrMake_self (s : Song) (k : Bytes) (hk : k ≠ orderKey) :
    lookupTag (getOrMake s k).tags k = some (values s k) := by
  unfold getOrMake values
  cases h : lookupTag s.tags k with
  | some v => simp [h]
  | none =>
    simp only [Option.isSome_none, Bool.false_eq_true, if_false, Option.getD_none]
    rw [lookup_ensure]; simp
    rw [lookup_modify, if_neg hk, lookup_ensure, if_neg hk, h]; rfl

theorem lookup_getOrMake_other (s : Song) (k k' : Bytes) (h1 : k' ≠ k) (h2 : k' ≠ orderKey) :
    lookupTag (getOrMake s k).tags k' = lookupTag s.tags k' := by
  unfold getOrMake
  cases h : (lookupTag s.tags k).isSome with
  | true => simp
  | false =>
    simp only [Bool.false_eq_true, if_false]
    rw [lookup_ensure, if_neg h1, lookup_modify, if_neg h2, lookup_ensure, if_neg h2]

theorem cmdIndex_getOrMake (s : Song) (k : Bytes) : (getOrMake s k).cmdIndex = s.cmdIndex := by
  unfold getOrMake; split <;> rfl

theorem lookup_touch_self (s : Song) (k : Bytes) (f : List Bytes → List Bytes) (hk : k ≠ orderKey) :
    lookupTag (touch s k f).tags k = some (f (values s k)) := by
  simp [touch, lookup_modify, lookup_getOrMake_self s k hk]

theorem lookup_touch_other (s : Song) (k k' : Bytes) (f : List Bytes → List Bytes) (h1 : k' ≠ k) (h2 : k' ≠ orderKey) :
    lookupTag (touch s k f).tags k' = lookupTag s.tags k' := by
  simp [touch, lookup_modify, h1, lookup_getOrMake_other s k k' h1 h2]

/-- keys that were defined, in map insertion order, without the bookkeeping key itself -/
def defined (s : Song) : List Bytes := (keysOf s.tags).filter (· != orderKey)

def addNew (seen : List Bytes) (k : Bytes) : List Bytes := if seen.contains k then seen else seen ++ [k]

theorem mem_defined (s : Song) (k : Bytes) (hk : k ≠ orderKey) : k ∈ defined s ↔ k ∈ keysOf s.tags := by
  simp [defined, hk]

theorem defined_getOrMake (s : Song) (k : Bytes) (hk : k ≠ orderKey) :
    defined (getOrMake s k) = addNew (defined s) k := by
  unfold getOrMake addNew
  by_cases h : k ∈ keysOf s.tags
  · have h1 := (lookup_isSome_iff s.tags k).mpr h
    have hm : k ∈ defined s := (mem_defined s k hk).mpr h
    simp [h1, hm]
  · have h1 : (lookupTag s.tags k).isSome = false := by
      cases hh : (lookupTag s.tags k).isSome
      · rfl
      · exact absurd ((lookup_isSome_iff s.tags k).mp hh) h
    have h2 : (defined s).contains k = false := by
      cases hh : (defined s).contains k
      · rfl
      · exact absurd ((mem_defined s k hk).mp (by simpa using hh)) h
    simp only [h1, h2, Bool.false_eq_true, if_false]
    simp only [defined, keys_ensure, keys_modify]
    have hk' : k ∉ (if orderKey ∈ keysOf s.tags then keysOf s.tags else keysOf s.tags ++ [orderKey]) := by
      split
      · exact h
      · simp [h, hk]
    rw [if_neg hk']
    split
    · simp [List.filter_append, hk]
    · simp [List.filter_append, hk]

theorem order_getOrMake (s : Song) (k : Bytes) (hk : k ≠ orderKey) :
    values (getOrMake s k) orderKey = if k ∈ keysOf s.tags then values s orderKey else values s orderKey ++ [k] := by
  unfold getOrMake values
  by_cases h : k ∈ keysOf s.tags
  · simp [(lookup_isSome_iff s.tags k).mpr h, h]
  · have h1 : (lookupTag s.tags k).isSome = false := by
      cases hh : (lookupTag s.tags k).isSome
      · rfl
      · exact absurd ((lookup_isSome_iff s.tags k).mp hh) h
    simp only [h1, Bool.false_eq_true, if_false, h]
    rw [lookup_ensure, if_neg (Ne.symm hk), lookup_modify, if_pos rfl, lookup_ensure, if_pos rfl]
    simp

/-- `tag_order` lists exactly the defined keys -/
def OrdInv (s : Song) : Prop := values s orderKey = defined s

theorem ordInv_getOrMake (s : Song) (k : Bytes) (hk : k ≠ orderKey) (hi : OrdInv s) : OrdInv (getOrMake s k) := by
  unfold OrdInv at *
  rw [order_getOrMake s k hk, defined_getOrMake s k hk, hi]
  unfold addNew
  by_cases h : k ∈ keysOf s.tags
  · have hm : k ∈ defined s := (mem_defined s k hk).mpr h
    simp [h, hm]
  · have hm : k ∉ defined s := fun e => h ((mem_defined s k hk).mp e)
    simp [h, hm]

theorem defined_touch (s : Song) (k : Bytes) (f : List Bytes → List Bytes) (hk : k ≠ orderKey) :
    defined (touch s k f) = addNew (defined s) k := by
  rw [← defined_getOrMake s k hk]
  simp [touch, defined, keys_modify]

theorem ordInv_touch (s : Song) (k : Bytes) (f : List Bytes → List Bytes) (hk : k ≠ orderKey) (hi : OrdInv s) :
    OrdInv (touch s k f) := by
  have := ordInv_getOrMake s k hk hi
  unfold OrdInv at *
  rw [defined_touch s k f hk, ← defined_getOrMake s k hk, ← this]
  simp [values, touch, lookup_modify, Ne.symm hk]
/-- one `add_tag_list` call on a documented line -/
theorem addTagList_line (s : Song) (k : Bytes) (l : Line) (hw : l.wf) (hk : k ≠ orderKey) :
    values (addTagList s k l.render) k = values s k ++ l.denote := by
  rw [addTagList_touch]
  simp only [values, lookup_touch_self s k _ hk, Option.getD_some]
  rw [cstr_render l hw, line_loop l hw]

theorem addTagList_other (s : Song) (k k' v : Bytes) (h1 : k' ≠ k) (h2 : k' ≠ orderKey) :
    values (addTagList s k v) k' = values s k' := by
  rw [addTagList_touch]; simp [values, lookup_touch_other s k k' _ h1 h2]

def addLines (s : Song) (k : Bytes) (ls : List Line) : Song := ls.foldl (fun s l => addTagList s k l.render) s

theorem addLines_values (ls : List Line) : ∀ (s : Song) (k : Bytes), (∀ l ∈ ls, l.wf) → k ≠ orderKey →
    values (addLines s k ls) k = values s k ++ denoteLines ls := by
  induction ls with
  | nil => intro s k _ _; simp [addLines, denoteLines]
  | cons l ls ih =>
    intro s k hw hk
    have := ih (addTagList s k l.render) k (fun x hx => hw x (by simp [hx])) hk
    simp only [addLines, List.foldl_cons] at this ⊢
    rw [this, addTagList_line s k l (hw l (by simp)) hk]
    simp [denoteLines, List.append_assoc]

theorem unescape_escape (v : Bytes) (h : ∀ b ∈ v, b ≠ 0) : unescape (escape v) = some v := by
  induction v with
  | nil => simp [escape, unescape]
  | cons a t ih =>
    have ha : a ≠ 0 := h a (by simp)
    have iht := ih (fun b hb => h b (by simp [hb]))
    simp only [escape, List.flatMap_cons] at iht ⊢
    by_cases hq : a = 92 ∨ a = 34
    · have : escapeByte a = [92, a] := by
        unfold escapeByte; rcases hq with h | h <;> simp [h]
      rw [this]
      simp only [List.cons_append, List.nil_append]
      rw [unescape.eq_def]
      have he : escOf a = a := by
        unfold escOf; rcases hq with h | h <;> simp [h]
      simp [ha, iht, he]
    · have h92 : a ≠ 92 := fun e => hq (Or.inl e)
      have h34 : a ≠ 34 := fun e => hq (Or.inr e)
      have : escapeByte a = [a] := by unfold escapeByte; simp [h92, h34]
      rw [this]
      simp only [List.cons_append, List.nil_append]
      rw [unescape.eq_def]
      simp [h92, h34, ha, iht]

theorem canon_wf (vals : List Bytes) (h : ∀ v ∈ vals, ∀ b ∈ v, b ≠ 0) : (canonLine vals).wf := by
  refine ⟨by intro b hb; simp [canonLine] at hb, ?_, ?_, by intro c hc; simp [canonLine] at hc⟩
  · intro p hp
    simp only [canonLine, List.mem_map] at hp
    obtain ⟨v, hv, rfl⟩ := hp
    refine ⟨?_, ?_⟩
    · simp [Item.wf, unescape_escape v (h v hv)]
    · intro b hb; simp at hb; subst hb; decide
  · simp only [canonLine]
    induction vals with
    | nil => trivial
    | cons v t ih =>
      cases t with
      | nil => trivial
      | cons w u =>
        refine ⟨by simp, ?_⟩
        exact ih (fun x hx => h x (by simp [hx]))

theorem canon_denote (vals : List Bytes) (h : ∀ v ∈ vals, ∀ b ∈ v, b ≠ 0) : (canonLine vals).denote = vals := by
  simp only [Line.denote, canonLine, empties, List.count_nil]
  induction vals with
  | nil => rfl
  | cons v t ih =>
    have := ih (fun x hx => h x (by simp [hx]))
    simp at this ⊢
    simp [Item.value, unescape_escape v (h v (by simp))]
    exact this
/-- the tag-defining operations of the Song API -/
inductive TagOp
  | set (k v : Bytes) | add (k v : Bytes) | list (k v : Bytes) | make (k : Bytes)

def TagOp.key : TagOp → Bytes
  | .set k _ | .add k _ | .list k _ | .make k => k

def applyOp (s : Song) : TagOp → Song
  | .set k v => setTag s k v
  | .add k v => addTag s k v
  | .list k v => addTagList s k v
  | .make k => getOrMake s k

def runOps (s : Song) (ops : List TagOp) : Song := ops.foldl applyOp s

theorem applyOp_inv (s : Song) (op : TagOp) (hk : op.key ≠ orderKey) (hi : OrdInv s) :
    OrdInv (applyOp s op) ∧ defined (applyOp s op) = addNew (defined s) op.key := by
  cases op with
  | set k v => exact ⟨ordInv_touch s k _ hk hi, defined_touch s k _ hk⟩
  | add k v => exact ⟨ordInv_touch s k _ hk hi, defined_touch s k _ hk⟩
  | list k v => exact ⟨ordInv_touch s k _ hk hi, defined_touch s k _ hk⟩
  | make k => exact ⟨ordInv_getOrMake s k hk hi, defined_getOrMake s k hk⟩

theorem runOps_inv (ops : List TagOp) : ∀ (s : Song), (∀ op ∈ ops, op.key ≠ orderKey) → OrdInv s →
    OrdInv (runOps s ops) ∧ defined (runOps s ops) = (ops.map TagOp.key).foldl addNew (defined s) := by
  induction ops with
  | nil => intro s _ hi; exact ⟨hi, rfl⟩
  | cons op ops ih =>
    intro s hk hi
    obtain ⟨h1, h2⟩ := applyOp_inv s op (hk op (by simp)) hi
    have := ih (applyOp s op) (fun o ho => hk o (by simp [ho])) h1
    simp only [runOps, List.foldl_cons, List.map_cons] at this ⊢
    rw [← h2]; exact this

theorem ordInv_empty : OrdInv Song.empty := by
  simp [OrdInv, values, defined, Song.empty, lookupTag, keysOf]

/-! platform commands -/
theorem wrap16_range (x : Int) : -32768 ≤ wrap16 x ∧ wrap16 x < 32768 := by
  unfold wrap16; omega

def idAt (c : Int) (i : Nat) : Int := wrap16 (c + i)

theorem idAt_zero (c : Int) (h : -32768 ≤ c ∧ c < 32768) : idAt c 0 = c := by
  unfold idAt wrap16; omega

theorem idAt_succ (c : Int) (i : Nat) : idAt (wrap16 (c + 1)) i = idAt c (i + 1) := by
  unfold idAt wrap16; omega

theorem idAt_inj (c : Int) (i j : Nat) (hi : i < 65536) (hj : j < 65536) (h : idAt c i = idAt c j) : i = j := by
  unfold idAt wrap16 at h; omega

theorem idAt_wrap (c : Int) (i : Nat) : idAt c (i + 65536) = idAt c i := by
  unfold idAt wrap16; omega

/-- register the values one after the other with sequential ids -/
def regAll : Song → List Bytes → List Int × Song
  | s, [] => ([], s)
  | s, v :: vs =>
    let r := registerCmd s Tables.tags_cmdAuto v
    let rs := regAll r.2 vs
    (r.1 :: rs.1, rs.2)
def valRev : Bytes → Nat
  | [] => 0
  | d :: ds => (d.toNat - 48) + 10 * valRev ds

theorem valRev_decRev : ∀ (f n : Nat), n < f → valRev (decRev f n) = n := by
  intro f
  induction f with
  | zero => intro n h; omega
  | succ f ih =>
    intro n h
    have hd : (UInt8.ofNat (48 + n % 10)).toNat = 48 + n % 10 := by
      simp [UInt8.toNat_ofNat]; omega
    simp only [decRev, valRev, hd]
    split
    · simp [valRev]; omega
    · rename_i h0
      rw [ih (n / 10) (by omega)]; omega

theorem decRev_digits : ∀ (f n : Nat), ∀ d ∈ decRev f n, 48 ≤ d.toNat := by
  intro f
  induction f with
  | zero => intro n d hd; simp [decRev] at hd
  | succ f ih =>
    intro n d hd
    simp only [decRev, List.mem_cons] at hd
    rcases hd with rfl | hd
    · simp [UInt8.toNat_ofNat]; omega
    · split at hd
      · simp at hd
      · exact ih _ d hd

theorem natDec_inj (a b : Nat) (h : natDec a = natDec b) : a = b := by
  unfold natDec at h
  have h' := List.reverse_inj.mp h
  have := congrArg valRev h'
  rwa [valRev_decRev _ _ (Nat.lt_succ_self a), valRev_decRev _ _ (Nat.lt_succ_self b)] at this

theorem natDec_no_minus (n : Nat) : (45 : UInt8) ∉ natDec n := by
  intro h
  unfold natDec at h
  have := decRev_digits _ _ 45 (List.mem_reverse.mp h)
  simp at this

theorem intDec_inj (p q : Int) (h : intDec p = intDec q) : p = q := by
  unfold intDec at h
  by_cases hp : p < 0 <;> by_cases hq : q < 0 <;> simp only [hp, hq, if_true, if_false] at h
  · have := natDec_inj _ _ (List.cons.inj h).2; omega
  · exact absurd (h ▸ List.mem_cons_self) (natDec_no_minus _)
  · exact absurd (h ▸ List.mem_cons_self) (natDec_no_minus _)
  · have := natDec_inj _ _ h; omega

theorem cmdKey_inj (p q : Int) (h : cmdKey p = cmdKey q) : p = q :=
  intDec_inj p q (List.append_cancel_left h)

theorem cmdKey_ne_order (p : Int) : cmdKey p ≠ orderKey := by
  intro h
  have := congrArg List.head? h
  simp [cmdKey, cmdPrefix, orderKey, ofNats, Tables.tags_cmdPrefix, Tables.tags_orderKey] at this

def inRange16 (c : Int) : Prop := -32768 ≤ c ∧ c < 32768

theorem registerCmd_auto (s : Song) (v : Bytes) :
    registerCmd s Tables.tags_cmdAuto v =
      (s.cmdIndex, touch { s with cmdIndex := wrap16 (s.cmdIndex + 1) } (cmdKey s.cmdIndex)
        (fun old => tagListLoop (cstr v) 0 old)) := by
  simp [registerCmd, addTagList_touch]

theorem cmdIndex_touch (s : Song) (k : Bytes) (f : List Bytes → List Bytes) : (touch s k f).cmdIndex = s.cmdIndex := by
  simp [touch, cmdIndex_getOrMake]

theorem regAll_other (vs : List Bytes) : ∀ (s : Song) (k : Bytes), k ≠ orderKey →
    (∀ j, j < vs.length → cmdKey (idAt s.cmdIndex j) ≠ k) → inRange16 s.cmdIndex →
    lookupTag (regAll s vs).2.tags k = lookupTag s.tags k := by
  induction vs with
  | nil => intro s k _ _ _; rfl
  | cons v vs ih =>
    intro s k hk hj hr
    simp only [regAll, registerCmd_auto]
    rw [ih _ k hk]
    · have h0 := hj 0 (by simp)
      rw [idAt_zero _ hr] at h0
      rw [lookup_touch_other _ _ k _ (Ne.symm h0) hk]
    · intro j hjl
      rw [cmdIndex_touch]; simp only []
      rw [idAt_succ]; exact hj (j + 1) (by simp; omega)
    · rw [cmdIndex_touch]; exact wrap16_range _

theorem regAll_retrievable (vs : List Bytes) : ∀ (s : Song) (i : Nat) (hi : i < vs.length), vs.length ≤ 65536 →
    inRange16 s.cmdIndex → lookupTag s.tags (cmdKey (idAt s.cmdIndex i)) = none →
    lookupTag (regAll s vs).2.tags (cmdKey (idAt s.cmdIndex i)) = some (tagListLoop (cstr vs[i]) 0 []) := by
  induction vs with
  | nil => intro s i hi; simp at hi
  | cons v vs ih =>
    intro s i hi hl hr hnone
    simp only [regAll, registerCmd_auto]
    simp only [List.length_cons] at hi hl
    cases i with
    | zero =>
      rw [idAt_zero _ hr] at hnone ⊢
      rw [regAll_other vs _ _ (cmdKey_ne_order _)]
      · rw [lookup_touch_self _ _ _ (cmdKey_ne_order _)]
        simp [values, hnone]
      · intro j hj
        rw [cmdIndex_touch]; simp only []
        rw [idAt_succ]
        intro e
        have e' := cmdKey_inj _ _ e
        have := idAt_inj s.cmdIndex (j + 1) 0 (by omega) (by omega) (by rw [e', idAt_zero _ hr])
        omega
      · rw [cmdIndex_touch]; exact wrap16_range _
    | succ i =>
      have hne : cmdKey (idAt s.cmdIndex (i + 1)) ≠ cmdKey s.cmdIndex := by
        intro e
        have e' := cmdKey_inj _ _ e
        have := idAt_inj s.cmdIndex (i + 1) 0 (by omega) (by omega) (by rw [e', idAt_zero _ hr])
        omega
      have := ih (touch { s with cmdIndex := wrap16 (s.cmdIndex + 1) } (cmdKey s.cmdIndex)
        (fun old => tagListLoop (cstr v) 0 old)) i (by omega) (by omega)
        (by rw [cmdIndex_touch]; exact wrap16_range _)
      rw [cmdIndex_touch] at this
      simp only [idAt_succ] at this
      rw [lookup_touch_other _ _ _ _ hne (cmdKey_ne_order _)] at this
      simpa using this hnone

theorem regAll_ids (vs : List Bytes) : ∀ (s : Song), inRange16 s.cmdIndex →
    (regAll s vs).1 = (List.range vs.length).map (idAt s.cmdIndex) := by
  induction vs with
  | nil => intro s _; rfl
  | cons v vs ih =>
    intro s hr
    simp only [regAll, registerCmd_auto, List.length_cons]
    rw [ih _ (by rw [cmdIndex_touch]; exact wrap16_range _), cmdIndex_touch]
    simp only []
    rw [List.range_succ_eq_map, List.map_cons, idAt_zero _ hr, List.map_map]
    congr 1
    apply List.map_congr_left
    intro j _
    simp [idAt_succ]
/-- a tag key as written on a line: no white space, no NUL -/
def keyOk (key : Bytes) : Prop := ∀ b ∈ key, isSpaceC b = false ∧ b ≠ 0

/-- what follows the key: end of line or a white-space byte -/
def afterKey (rest : Bytes) : Prop := rest = [] ∨ ∃ b t, rest = b :: t ∧ isSpaceC b = true

theorem contains_zero_false (l : Bytes) (h : ∀ b ∈ l, b ≠ 0) : l.contains 0 = false := by
  cases hc : l.contains 0
  · rfl
  · simp at hc; exact absurd rfl (h 0 hc)

theorem key_split (key rest : Bytes) (hk : keyOk key) (hr : afterKey rest) :
    (key ++ rest).takeWhile (fun b => !isSpaceC b) = key ∧
    (key ++ rest).dropWhile (fun b => !isSpaceC b) = rest := by
  have hp : ∀ b ∈ key, (fun b => !isSpaceC b) b = true := by intro b hb; simp [(hk b hb).1]
  rw [List.takeWhile_append_of_pos hp, List.dropWhile_append_of_pos hp]
  rcases hr with rfl | ⟨b, t, rfl, hb⟩
  · simp
  · simp [List.takeWhile, List.dropWhile, hb]

/-- a `#`/`@` line up to the dispatch: the key is lower-cased and remembered -/
theorem parseLine_tag (st : Inp) (c : UInt8) (key rest : Bytes) (hc : c = 35 ∨ c = 64) (hk : keyOk key)
    (hr : afterKey rest) (hz : ∀ b ∈ rest, b ≠ 0) :
    parseLine st (c :: key ++ rest) =
      dispatch { st with tagKey := toLowerC c :: key.map toLowerC, lastCmd := .tag } rest := by
  have hnz : (c :: (key ++ rest)).contains 0 = false := by
    apply contains_zero_false
    intro b hb
    simp at hb
    rcases hb with rfl | hb | hb
    · rcases hc with h | h <;> simp [h]
    · exact (hk b hb).2
    · exact hz b hb
  obtain ⟨h1, h2⟩ := key_split key rest hk hr
  rw [List.cons_append]
  unfold parseLine
  rw [hnz]
  simp only [Bool.false_eq_true, if_false]
  rcases hc with rfl | rfl
  · simp [trackIdOf, isDigitC, ofNats, Tables.tags_prefixes, h1, h2]
  · simp [trackIdOf, isDigitC, ofNats, Tables.tags_prefixes, h1, h2]

theorem lower_eq (b : UInt8) : toLowerC b = lower b := rfl
theorem rtrim_eq (v : Bytes) : rtrim v = trimRight v := rfl

/-- leading blanks are skipped by the tokeniser itself, so `get_token` before `get_line` changes nothing -/
theorem loop_dropBlanks (t : Bytes) (lc : UInt8) (acc : List Bytes) :
    tagListLoop (t.dropWhile isBlankC) lc acc = tagListLoop t lc acc := by
  induction t with
  | nil => rfl
  | cons b t ih =>
    simp only [List.dropWhile]
    cases hb : isBlankC b with
    | false => rfl
    | true =>
      simp only []
      have : b = 32 ∨ b = 9 := by simpa [isBlankC] using hb
      rw [ih]
      rcases this with rfl | rfl
      · rw [loop_sep_cons 32 t lc acc (by decide)]; simp
      · rw [loop_sep_cons 9 t lc acc (by decide)]; simp

theorem dropWhile_mem (p : UInt8 → Bool) (l : Bytes) : ∀ b ∈ l.dropWhile p, b ∈ l := by
  induction l with
  | nil => intro b hb; simpa using hb
  | cons a t ih =>
    intro b hb
    simp only [List.dropWhile] at hb
    split at hb
    · exact List.mem_cons_of_mem _ (ih b hb)
    · exact hb

/-- the tail of `parse_line` on an `@` key: the rest of the line goes to `add_tag_list` -/
theorem dispatch_at (st : Inp) (k : Bytes) (b : UInt8) (l : Line) (hl : st.lastCmd = .tag) (hkey : st.tagKey = 64 :: k)
    (hb : isBlankC b = true) (hw : l.wf) :
    (dispatch st (b :: l.render)).2 = .ok ∧
    (dispatch st (b :: l.render)).1.lastCmd = .tag ∧ (dispatch st (b :: l.render)).1.tagKey = st.tagKey ∧
    values (dispatch st (b :: l.render)).1.song st.tagKey = values st.song st.tagKey ++ l.denote := by
  have hko : st.tagKey ≠ orderKey := by
    rw [hkey]; intro h
    have := congrArg List.head? h
    simp [orderKey, ofNats, Tables.tags_orderKey] at this
  have hnz : ∀ x ∈ l.render.dropWhile isBlankC, x ≠ 0 := fun x hx => render_no_nul l hw x (dropWhile_mem _ _ x hx)
  have hloop : ∀ acc, tagListLoop (cstr (l.render.dropWhile isBlankC)) 0 acc = acc ++ l.denote := by
    intro acc
    have : cstr (l.render.dropWhile isBlankC) = l.render.dropWhile isBlankC :=
      takeWhile_all _ _ (fun x hx => by simp [hnz x hx])
    rw [this, loop_dropBlanks, line_loop l hw]
  unfold dispatch
  simp only [hb, if_true]
  by_cases he : l.render.dropWhile isBlankC = []
  · have hd : l.denote = [] := by
      have := hloop []
      rw [he] at this
      simpa [cstr, loop_nil] using this.symm
    simp [he, hd, hl]
  · simp only [he, if_false, hl]
    refine ⟨trivial, ?_, ?_, ?_⟩
    · simp [parseTag, hkey, Tables.tags_singlePrefix, hl]
    · simp [parseTag, hkey, Tables.tags_singlePrefix]
    · simp only [parseTag, hkey, List.head?_cons, Tables.tags_singlePrefix]
      simp only [show (some (64 : UInt8) == some (UInt8.ofNat 35)) = false by decide, Bool.false_eq_true, if_false]
      rw [← hkey, addTagList_touch]
      simp only [values, lookup_touch_self _ _ _ hko, Option.getD_some]
      exact hloop _

theorem parseLine_blank (st : Inp) (b : UInt8) (rest : Bytes) (hb : isBlankC b = true) (hz : ∀ x ∈ rest, x ≠ 0) :
    parseLine st (b :: rest) = dispatch st (b :: rest) := by
  have hb' : b = 32 ∨ b = 9 := by simpa [isBlankC] using hb
  have hnz : (b :: rest).contains 0 = false := by
    apply contains_zero_false
    intro x hx
    simp at hx
    rcases hx with rfl | hx
    · rcases hb' with h | h <;> simp [h]
    · exact hz x hx
  unfold parseLine
  rw [hnz]
  rcases hb' with rfl | rfl <;>
    simp [trackIdOf, isDigitC, ofNats, Tables.tags_prefixes, isBlankC]
end Ctrmml.Tags
