/-
  Helper lemmas for the reader part of C14 (no property statements): every read of
  `Wave_File::read` / `parse_chunk` stays inside the file buffer and both loops terminate
  within their fuel.
-/
import Ctrmml.Proofs.Wave
namespace Ctrmml.Wave
open Ctrmml Ctrmml.Alloc

theorem rdLe16_isSome_of_long (d : Bytes) (pos : Nat) (h : pos + 2 ≤ d.length) : ∃ v, rdLe16 d pos = some v ∧ v < 65536 := by
  unfold rdLe16
  have : 2 ≤ (d.drop pos).length := by simp; omega
  match hd : d.drop pos with
  | [] => simp [hd] at this
  | [_] => simp [hd] at this
  | b0 :: b1 :: _ =>
    have := b0.toNat_lt; have := b1.toNat_lt
    exact ⟨_, rfl, by omega⟩

theorem rd32_ok (f : Bytes) (p : Nat) (h : p + 4 ≤ f.length) : ∃ v, rd32 f p = .ok v ∧ v < 4294967296 := by
  have hs := rdLe32_isSome_of_long f p h
  unfold rd32
  match hv : rdLe32 f p with
  | some v => exact ⟨v, rfl, rdLe32_lt f p v hv⟩
  | none => rw [hv] at hs; cases hs

theorem rd16_ok (f : Bytes) (p : Nat) (h : p + 2 ≤ f.length) : ∃ v, rd16 f p = .ok v ∧ v < 65536 := by
  obtain ⟨v, hv, hlt⟩ := rdLe16_isSome_of_long f p h
  exact ⟨v, by simp [rd16, hv], hlt⟩

/-- what `fmt` leaves behind: either no usable format yet (`step = 0`) or 8/16-bit samples
with a frame of at least one sample -/
def WaveFile.Ok (w : WaveFile) : Prop :=
  w.step = 0 ∨ (w.sbits = 8 ∧ 1 ≤ w.step) ∨ (w.sbits = 16 ∧ 2 ≤ w.step)

theorem decodeFrames_total (sbits step : Nat) (hfmt : (sbits = 8 ∧ 1 ≤ step) ∨ (sbits = 16 ∧ 2 ≤ step))
    (fuel : Nat) (rest : Bytes) (remaining : Nat) (acc : List Nat)
    (hlen : remaining ≤ rest.length) (hfuel : remaining < fuel * step) :
    ∃ l, decodeFrames sbits step fuel rest remaining acc = .ok l ∧ l.length ≤ acc.length + remaining := by
  induction fuel generalizing rest remaining acc with
  | zero => simp at hfuel
  | succ fuel ih =>
    have hmul : (fuel + 1) * step = fuel * step + step := Nat.succ_mul _ _
    unfold decodeFrames
    by_cases hr : remaining < step
    · exact ⟨acc.reverse, by simp [hr], by simp⟩
    · simp only [hr, if_false]
      have hstep : 1 ≤ step := by rcases hfmt with h | h <;> omega
      have hdrop : rest.drop (step - 1) = rest[step - 1]'(by omega) :: rest.drop (step - 1 + 1) :=
        List.drop_eq_getElem_cons (by omega)
      rcases hfmt with ⟨rfl, _⟩ | ⟨rfl, h2⟩
      · simp only [if_true]
        match rest, hlen, hdrop with
        | [], hlen, _ => simp at hlen; omega
        | v :: tl, hlen, hdrop =>
          rw [hdrop]
          obtain ⟨l, hl, hb⟩ := ih ((v :: tl).drop (step - 1 + 1)) (remaining - step) ((v.toNat ^^^ 0x80) * 256 % 65536 :: acc)
            (by simp at hlen ⊢; omega) (by omega)
          exact ⟨l, hl, by simp only [List.length_cons] at hb; omega⟩
      · rw [if_neg (by decide), if_pos rfl]
        match rest, hlen, hdrop with
        | [], hlen, _ => simp at hlen; omega
        | [_], hlen, _ => simp at hlen; omega
        | b0 :: b1 :: tl, hlen, hdrop =>
          rw [hdrop]
          obtain ⟨l, hl, hb⟩ := ih ((b0 :: b1 :: tl).drop (step - 1 + 1)) (remaining - step) ((b0.toNat + 256 * b1.toNat) :: acc)
            (by simp at hlen ⊢; omega) (by omega)
          exact ⟨l, hl, by simp only [List.length_cons] at hb; omega⟩

theorem parseFmt_total (f : Bytes) (pos cs : Nat) (w : WaveFile) (hin : pos + 8 + cs ≤ f.length) :
    ∃ r, parseFmt f pos cs w = .ok r ∧ ∀ w', r = some w' → w'.Ok ∧ w'.data0.length ≤ w.data0.length + cs := by
  unfold parseFmt
  by_cases hc : cs < Tables.wave_fmtMin
  · exact ⟨none, by simp [hc], by intro _ h; cases h⟩
  · simp only [hc, if_false]
    simp only [Tables.wave_fmtMin] at hc
    obtain ⟨st, h1, _⟩ := rd16_ok f (pos + 0x08) (by omega)
    obtain ⟨ch, h2, _⟩ := rd16_ok f (pos + 0x0a) (by omega)
    obtain ⟨sb, h3, _⟩ := rd16_ok f (pos + 0x16) (by omega)
    obtain ⟨sr, h4, _⟩ := rd32_ok f (pos + 0x0c) (by omega)
    simp only [h1, h2, h3, h4]
    split
    · exact ⟨none, rfl, by intro _ h; cases h⟩
    · rename_i hok
      refine ⟨_, rfl, ?_⟩
      intro w' hw'
      cases hw'
      refine ⟨?_, by simp⟩
      have hch : ch ≤ 2 := by omega
      have hsb : sb = 8 ∨ sb = 16 := by omega
      simp only [WaveFile.Ok]
      rcases hsb with rfl | rfl
      · have : 8 * ch / 8 % 65536 = ch := by omega
        right; left; exact ⟨rfl, by omega⟩
      · have : 16 * ch / 8 % 65536 = 2 * ch := by omega
        right; right; exact ⟨rfl, by omega⟩

theorem parseData_total (f : Bytes) (pos cs : Nat) (w : WaveFile) (hin : pos + 8 + cs ≤ f.length) (hw : w.Ok) :
    ∃ r, parseData f pos cs w = .ok r ∧ ∀ w', r = some w' → w'.Ok ∧ w'.data0.length ≤ w.data0.length + cs := by
  unfold parseData
  by_cases hs : w.step = 0
  · exact ⟨none, by simp [hs], by intro _ h; cases h⟩
  · simp only [hs, if_false]
    have hfmt : (w.sbits = 8 ∧ 1 ≤ w.step) ∨ (w.sbits = 16 ∧ 2 ≤ w.step) := by
      rcases hw with h | h
      · exact absurd h hs
      · exact h
    have hpos : 0 < w.step := by omega
    obtain ⟨l, hl, hlb⟩ := decodeFrames_total w.sbits w.step hfmt (cs / w.step + 1) (f.drop (pos + 8)) cs []
      (by simp; omega) (by have := Nat.lt_mul_div_succ cs hpos; rw [Nat.mul_comm]; exact this)
    rw [hl]
    refine ⟨_, rfl, ?_⟩
    intro w' hw'
    cases hw'
    exact ⟨hw, by simp at hlb ⊢; omega⟩

theorem parseSmpl_total (f : Bytes) (pos cs : Nat) (w : WaveFile) (hin : pos + 8 + cs ≤ f.length) (hw : w.Ok) :
    ∃ r, parseSmpl f pos cs w = .ok r ∧ ∀ w', r = some w' → w'.Ok ∧ w'.data0.length ≤ w.data0.length + cs := by
  unfold parseSmpl
  have key : ∀ w2 : WaveFile, w2.Ok → w2.data0 = w.data0 →
      ∃ r, (if cs ≥ 0x34 then
        match rd32 f (pos + 0x24) with
        | .error e => .error e
        | .ok nloops =>
          if nloops ≠ 0 then
            match rd32 f (pos + 0x2c + 8), rd32 f (pos + 0x2c + 12) with
            | .ok ls, .ok le => .ok (some { w2 with lstart := ls, lend := u32 (le + 1), slength := u32 (le + 1) })
            | _, _ => .error .oob
          else .ok (some w2)
      else .ok (some w2) : Except Err (Option WaveFile)) = .ok r ∧ ∀ w', r = some w' → w'.Ok ∧ w'.data0.length ≤ w.data0.length + cs := by
    intro w2 hw2 hd2
    by_cases hc : cs ≥ 0x34
    · simp only [hc, if_true]
      obtain ⟨nl, h1, _⟩ := rd32_ok f (pos + 0x24) (by omega)
      obtain ⟨ls, h2, _⟩ := rd32_ok f (pos + 0x2c + 8) (by omega)
      obtain ⟨le, h3, _⟩ := rd32_ok f (pos + 0x2c + 12) (by omega)
      simp only [h1, h2, h3]
      split
      · exact ⟨_, rfl, by intro w' h; cases h; exact ⟨hw2, by simp [hd2]⟩⟩
      · exact ⟨_, rfl, by intro w' h; cases h; exact ⟨hw2, by simp [hd2]⟩⟩
    · simp only [hc, if_false]
      exact ⟨_, rfl, by intro w' h; cases h; exact ⟨hw2, by simp [hd2]⟩⟩
  by_cases hc : cs ≥ 0x10
  · simp only [hc, if_true]
    obtain ⟨t, h1, _⟩ := rd32_ok f (pos + 0x14) (by omega)
    simp only [h1, Except.map]
    exact key _ hw rfl
  · simp only [hc, if_false]
    exact key _ hw rfl

theorem parseChunk_total (f : Bytes) (pos cs : Nat) (w : WaveFile) (hcs : rd32 f (pos + 4) = .ok cs)
    (hin : pos + 8 + cs ≤ f.length) (hw : w.Ok) :
    ∃ r, parseChunk f pos w = .ok r ∧ ∀ w', r = some w' → w'.Ok ∧ w'.data0.length ≤ w.data0.length + cs := by
  unfold parseChunk
  obtain ⟨id, h1, _⟩ := rd32_ok f pos (by omega)
  simp only [h1, hcs]
  split
  · exact parseFmt_total f pos cs w hin
  · split
    · exact parseData_total f pos cs w hin hw
    · split
      · exact parseSmpl_total f pos cs w hin hw
      · exact ⟨_, rfl, by intro w' h; cases h; exact ⟨hw, by omega⟩⟩

/-- the chunk loop needs at most one unit of fuel per 8 bytes that are left -/
theorem readChunks_total (f : Bytes) (wavesize : Nat) (hf : f.length < 4294967295)
    (fuel pos : Nat) (w : WaveFile) (hw : w.Ok) (hpos : pos ≤ f.length + 1) (hfuel : f.length + 8 ≤ pos + 8 * fuel)
    (hdata : w.data0.length ≤ pos) :
    ∃ r, readChunks f wavesize fuel pos w = .ok r ∧ ∀ w', r = some w' → w'.data0.length ≤ f.length + 1 := by
  induction fuel generalizing pos w with
  | zero => omega
  | succ fuel ih =>
    unfold readChunks
    by_cases hc : pos < wavesize ∧ pos < f.length ∧ f.length - pos ≥ 8
    · simp only [hc, and_self, if_true]
      obtain ⟨cs, h1, _⟩ := rd32_ok f (pos + 4) (by omega)
      simp only [h1]
      by_cases hbig : cs > f.length - pos - 8
      · exact ⟨none, by simp [hbig], by intro _ h; cases h⟩
      · simp only [hbig, if_false]
        obtain ⟨r, hr, hok⟩ := parseChunk_total f pos cs w h1 (by omega) hw
        rw [hr]
        match r, hok with
        | none, _ => exact ⟨none, rfl, by intro _ h; cases h⟩
        | some w', hok =>
          have e1 : u32 (pos + (cs + 8)) = pos + (cs + 8) := u32_small (by omega)
          simp only [e1]
          have hdw := (hok w' rfl).2
          apply ih _ _ (hok w' rfl).1
          · split
            · rw [u32_small (by omega)]; omega
            · omega
          · split
            · rw [u32_small (by omega)]; omega
            · omega
          · split
            · rw [u32_small (by omega)]; omega
            · omega
    · exact ⟨some w, by simp [hc], by intro w' h; cases h; omega⟩

theorem readWav_total' (f : Bytes) :
    ∃ r, readWav f = .ok r ∧ ∀ w', r = some w' → w'.data0.length ≤ f.length + 1 ∧ f.length ≤ 2147483647 := by
  unfold readWav
  split
  · exact ⟨_, rfl, by intro _ h; cases h⟩
  rename_i hmax
  simp only [Tables.wave_maxFileSize] at hmax
  have hf : f.length < 4294967295 := by omega
  split
  · exact ⟨_, rfl, by intro _ h; cases h⟩
  · rename_i hlen
    simp only [Tables.wave_minFileSize] at hlen
    split
    · exact ⟨_, rfl, by intro _ h; cases h⟩
    · obtain ⟨sz, h1, _⟩ := rd32_ok f 4 (by omega)
      simp only [h1]
      split
      · exact ⟨_, rfl, by intro _ h; cases h⟩
      · obtain ⟨r, hr, hb⟩ := readChunks_total f (u32 (sz + 8)) hf (f.length / 8 + 1) 12 {} (Or.inl rfl) (by omega) (by omega)
          (by simp)
        rw [hr]
        match r, hb with
        | none, _ => exact ⟨_, rfl, by intro _ h; cases h⟩
        | some w, hb =>
          simp only
          split
          · exact ⟨_, rfl, by intro _ h; cases h⟩
          · exact ⟨_, rfl, by intro w' h; cases h; exact ⟨hb w rfl, by omega⟩⟩

theorem readWav_total (f : Bytes) : ∃ r, readWav f = .ok r := by
  obtain ⟨r, hr, _⟩ := readWav_total' f
  exact ⟨r, hr⟩

theorem readWav_data_le (f : Bytes) (wf : WaveFile) (hr : readWav f = .ok (some wf)) :
    wf.data0.length ≤ f.length + 1 := by
  obtain ⟨r, hr', hb⟩ := readWav_total' f
  rw [hr] at hr'
  cases hr'
  exact (hb wf rfl).1

/-! ### add_sample never runs into undefined behaviour -/

theorem applyArgs_err (args : List String) (h0 : Sample) (e : Err) (h : applyArgs args h0 = .error e) : e = .offsetTooBig := by
  induction args generalizing h0 with
  | nil => simp [applyArgs] at h
  | cons a as ih =>
    unfold applyArgs at h
    split at h
    · exact ih _ h
    · split at h
      · split at h
        · cases h; rfl
        · exact ih _ h
      · exact ih _ h

theorem addSample_total (b : Bank) (rs : List Win) (inv : Inv b rs) (h : Sample) (data : Bytes) (hd : data.length < 1073741824) :
    (∃ r, addSample b h data = .ok r) ∨ addSample b h data = .error .noFit ∨ addSample b h data = .error .tooLong := by
  unfold addSample
  by_cases hl : h.start + h.size > data.length
  · simp [hl]
  · have hb0 : ¬ b.bankSize = 0 := by have := inv.bankPos; omega
    simp only [hl, hb0, if_false]
    split
    · split <;> exact Or.inl ⟨_, rfl⟩
    · unfold addFresh
      simp only
      split
      · simp
      · rename_i hfit
        obtain ⟨_, _, p3, p4, _⟩ := placeFresh_spec b rs h.size inv (by omega) hfit
        have hrl := inv.romLen
        have : ¬ (data.length < h.start + h.size ∨ b.rom.length < (placeFresh b h.size).2.1 + h.size) := by
          omega
        simp only [this, if_false]
        exact Or.inl ⟨_, rfl⟩

theorem addSampleTag_total (b : Bank) (rs : List Win) (inv : Inv b rs) (file : Option Bytes) (tag : List String)
    (hf : ∀ f, file = some f → f.length < 1073741823) :
    (∃ r, addSampleTag b file tag = .ok r) ∨ addSampleTag b file tag = .error .incomplete ∨
    addSampleTag b file tag = .error .notFound ∨ addSampleTag b file tag = .error .offsetTooBig ∨
    addSampleTag b file tag = .error .noFit ∨ addSampleTag b file tag = .error .tooLong := by
  unfold addSampleTag
  match tag, file with
  | [], _ => simp
  | _ :: args, none => simp
  | _ :: args, some f =>
    have hfl := hf f rfl
    obtain ⟨r, hr⟩ := readWav_total f
    simp only [hr]
    match r, hr with
    | none, _ => simp
    | some wf, hr =>
      simp only
      have hd := readWav_data_le f wf hr
      obtain ⟨h0, hh0⟩ : ∃ h0 : Sample, h0 = ⟨0, 0, wf.slength, wf.lstart, wf.lend, wf.srate, wf.transpose, 0⟩ := ⟨_, rfl⟩
      rw [← hh0]
      match happ : applyArgs args h0 with
      | .error e =>
        have := applyArgs_err args h0 e happ
        subst this; simp
      | .ok h =>
        simp only
        have hdl : (encodeSample wf.data0).length < 1073741824 := by
          simp only [encodeSample, List.length_map]; omega
        rcases addSample_total b rs inv h (encodeSample wf.data0) hdl with ⟨r, hr⟩ | hr | hr
        · exact Or.inl ⟨r, hr⟩
        · rw [hr]; simp
        · rw [hr]; simp

/-- the overrides only move the start: `start + size` and everything but `rate` are kept -/
theorem applyArgs_sum (args : List String) (h0 h : Sample) (hb : h0.start + h0.size < 4294967296)
    (hok : applyArgs args h0 = .ok h) : h.start + h.size = h0.start + h0.size := by
  induction args generalizing h0 with
  | nil => simp [applyArgs] at hok; rw [← hok]
  | cons a as ih =>
    unfold applyArgs at hok
    split at hok
    · rename_i p _
      have := ih { h0 with rate := p } (by simpa using hb) hok
      simpa using this
    · split at hok
      · rename_i p _
        split at hok
        · cases hok
        · rename_i hle
          have e : u32 (h0.start + p) = h0.start + p := u32_small (by omega)
          have := ih { h0 with start := u32 (h0.start + p), size := h0.size - p } (by simp only [e]; omega) hok
          rw [this]; simp only [e]; omega
      · exact ih _ hb hok

end Ctrmml.Wave
