/-
  Helper lemmas for the reader part of C14 (no property statements): every read of
  `Wave_File::read` / `parse_chunk` stays inside the file buffer and both loops terminate
  within their fuel.
-/
import Ctrmml.Proofs.Wave
namespace Ctrmml.Wave
open Ctrmml

theorem rdLe16_isSome_of_long (d : Bytes) (pos : Nat) (h : pos + 2 ≤ d.length) : ∃ v, rdLe16 d pos = some v ∧ v < 65536 := by
  unfold rdLe16
  have : 2 ≤ (d.drop pos).length := by simp; omega
  match hd : d.drop pos with
  | [] => simp [hd] at this
  | [_] => simp [hd] at this
  | b0 :: b1 :: _ =>
    have := b0.toNat_lt; have := b1.toNat_lt
    exact ⟨_, rfl, by omega⟩

theorem rd32_ok (f : Bytes) (p : Nat) (h : p + 4 ≤ f.length) : ∃ v, rd32 f p = .ok v ∧ v < 4294967296 := by
  have hs := rdLe32_isSome_of_long f p h
  unfold rd32
  match hv : rdLe32 f p with
  | some v => exact ⟨v, rfl, rdLe32_lt f p v hv⟩
  | none => rw [hv] at hs; cases hs

theorem rd16_ok (f : Bytes) (p : Nat) (h : p + 2 ≤ f.length) : ∃ v, rd16 f p = .ok v ∧ v < 65536 := by
  obtain ⟨v, hv, hlt⟩ := rdLe16_isSome_of_long f p h
  exact ⟨v, by simp [rd16, hv], hlt⟩

/-- what `fmt` leaves behind: either no usable format yet (`step = 0`) or 8/16-bit samples
with a frame of at least one sample -/
def WaveFile.Ok (w : WaveFile) : Prop :=
  w.step = 0 ∨ (w.sbits = 8 ∧ 1 ≤ w.step) ∨ (w.sbits = 16 ∧ 2 ≤ w.step)

theorem decodeFrames_total (sbits step : Nat) (hfmt : (sbits = 8 ∧ 1 ≤ step) ∨ (sbits = 16 ∧ 2 ≤ step))
    (fuel : Nat) (rest : Bytes) (remaining : Nat) (acc : List Nat)
    (hlen : remaining ≤ rest.length) (hfuel : remaining < fuel * step) :
    ∃ l, decodeFrames sbits step fuel rest remaining acc = .ok l := by
  induction fuel generalizing rest remaining acc with
  | zero => simp at hfuel
  | succ fuel ih =>
    have hmul : (fuel + 1) * step = fuel * step + step := Nat.succ_mul _ _
    unfold decodeFrames
    by_cases hr : remaining < step
    · exact ⟨acc.reverse, by simp [hr]⟩
    · simp only [hr, if_false]
      have hstep : 1 ≤ step := by rcases hfmt with h | h <;> omega
      have hdrop : rest.drop (step - 1) = rest[step - 1]'(by omega) :: rest.drop (step - 1 + 1) :=
        List.drop_eq_getElem_cons (by omega)
      rcases hfmt with ⟨rfl, _⟩ | ⟨rfl, h2⟩
      · simp only [if_true]
        match rest, hlen, hdrop with
        | [], hlen, _ => simp at hlen; omega
        | v :: tl, hlen, hdrop =>
          rw [hdrop]
          exact ih ((v :: tl).drop (step - 1 + 1)) (remaining - step) _ (by simp at hlen ⊢; omega) (by omega)
      · rw [if_neg (by decide), if_pos rfl]
        match rest, hlen, hdrop with
        | [], hlen, _ => simp at hlen; omega
        | [_], hlen, _ => simp at hlen; omega
        | b0 :: b1 :: tl, hlen, hdrop =>
          rw [hdrop]
          exact ih ((b0 :: b1 :: tl).drop (step - 1 + 1)) (remaining - step) _ (by simp at hlen ⊢; omega) (by omega)

theorem parseFmt_total (f : Bytes) (pos cs : Nat) (w : WaveFile) (hin : pos + 8 + cs ≤ f.length) :
    ∃ r, parseFmt f pos cs w = .ok r ∧ ∀ w', r = some w' → w'.Ok := by
  unfold parseFmt
  by_cases hc : cs < Tables.wave_fmtMin
  · exact ⟨none, by simp [hc], by intro _ h; cases h⟩
  · simp only [hc, if_false]
    simp only [Tables.wave_fmtMin] at hc
    obtain ⟨st, h1, _⟩ := rd16_ok f (pos + 0x08) (by omega)
    obtain ⟨ch, h2, _⟩ := rd16_ok f (pos + 0x0a) (by omega)
    obtain ⟨sb, h3, _⟩ := rd16_ok f (pos + 0x16) (by omega)
    obtain ⟨sr, h4, _⟩ := rd32_ok f (pos + 0x0c) (by omega)
    simp only [h1, h2, h3, h4]
    split
    · exact ⟨none, rfl, by intro _ h; cases h⟩
    · rename_i hok
      refine ⟨_, rfl, ?_⟩
      intro w' hw'
      cases hw'
      have hch : ch ≤ 2 := by omega
      have hsb : sb = 8 ∨ sb = 16 := by omega
      simp only [WaveFile.Ok]
      rcases hsb with rfl | rfl
      · have : 8 * ch / 8 % 65536 = ch := by omega
        right; left; exact ⟨rfl, by omega⟩
      · have : 16 * ch / 8 % 65536 = 2 * ch := by omega
        right; right; exact ⟨rfl, by omega⟩

theorem parseData_total (f : Bytes) (pos cs : Nat) (w : WaveFile) (hin : pos + 8 + cs ≤ f.length) (hw : w.Ok) :
    ∃ r, parseData f pos cs w = .ok r ∧ ∀ w', r = some w' → w'.Ok := by
  unfold parseData
  by_cases hs : w.step = 0
  · exact ⟨none, by simp [hs], by intro _ h; cases h⟩
  · simp only [hs, if_false]
    have hfmt : (w.sbits = 8 ∧ 1 ≤ w.step) ∨ (w.sbits = 16 ∧ 2 ≤ w.step) := by
      rcases hw with h | h
      · exact absurd h hs
      · exact h
    have hpos : 0 < w.step := by omega
    obtain ⟨l, hl⟩ := decodeFrames_total w.sbits w.step hfmt (cs / w.step + 1) (f.drop (pos + 8)) cs []
      (by simp; omega) (by have := Nat.lt_mul_div_succ cs hpos; rw [Nat.mul_comm]; exact this)
    rw [hl]
    refine ⟨_, rfl, ?_⟩
    intro w' hw'
    cases hw'
    exact hw

theorem parseSmpl_total (f : Bytes) (pos cs : Nat) (w : WaveFile) (hin : pos + 8 + cs ≤ f.length) (hw : w.Ok) :
    ∃ r, parseSmpl f pos cs w = .ok r ∧ ∀ w', r = some w' → w'.Ok := by
  unfold parseSmpl
  have key : ∀ w2 : WaveFile, w2.Ok →
      ∃ r, (if cs ≥ 0x34 then
        match rd32 f (pos + 0x24) with
        | .error e => .error e
        | .ok nloops =>
          if nloops ≠ 0 then
            match rd32 f (pos + 0x2c + 8), rd32 f (pos + 0x2c + 12) with
            | .ok ls, .ok le => .ok (some { w2 with lstart := ls, lend := u32 (le + 1), slength := u32 (le + 1) })
            | _, _ => .error .oob
          else .ok (some w2)
      else .ok (some w2) : Except Err (Option WaveFile)) = .ok r ∧ ∀ w', r = some w' → w'.Ok := by
    intro w2 hw2
    by_cases hc : cs ≥ 0x34
    · simp only [hc, if_true]
      obtain ⟨nl, h1, _⟩ := rd32_ok f (pos + 0x24) (by omega)
      obtain ⟨ls, h2, _⟩ := rd32_ok f (pos + 0x2c + 8) (by omega)
      obtain ⟨le, h3, _⟩ := rd32_ok f (pos + 0x2c + 12) (by omega)
      simp only [h1, h2, h3]
      split
      · exact ⟨_, rfl, by intro w' h; cases h; exact hw2⟩
      · exact ⟨_, rfl, by intro w' h; cases h; exact hw2⟩
    · simp only [hc, if_false]
      exact ⟨_, rfl, by intro w' h; cases h; exact hw2⟩
  by_cases hc : cs ≥ 0x10
  · simp only [hc, if_true]
    obtain ⟨t, h1, _⟩ := rd32_ok f (pos + 0x14) (by omega)
    simp only [h1, Except.map]
    exact key _ hw
  · simp only [hc, if_false]
    exact key _ hw

theorem parseChunk_total (f : Bytes) (pos cs : Nat) (w : WaveFile) (hcs : rd32 f (pos + 4) = .ok cs)
    (hin : pos + 8 + cs ≤ f.length) (hw : w.Ok) :
    ∃ r, parseChunk f pos w = .ok r ∧ ∀ w', r = some w' → w'.Ok := by
  unfold parseChunk
  obtain ⟨id, h1, _⟩ := rd32_ok f pos (by omega)
  simp only [h1, hcs]
  split
  · exact parseFmt_total f pos cs w hin
  · split
    · exact parseData_total f pos cs w hin hw
    · split
      · exact parseSmpl_total f pos cs w hin hw
      · exact ⟨_, rfl, by intro w' h; cases h; exact hw⟩

/-- the chunk loop needs at most one unit of fuel per 8 bytes that are left -/
theorem readChunks_total (f : Bytes) (wavesize : Nat) (hf : f.length < 4294967295)
    (fuel pos : Nat) (w : WaveFile) (hw : w.Ok) (hpos : pos ≤ f.length + 1) (hfuel : f.length + 8 ≤ pos + 8 * fuel) :
    ∃ r, readChunks f wavesize fuel pos w = .ok r := by
  induction fuel generalizing pos w with
  | zero => omega
  | succ fuel ih =>
    unfold readChunks
    by_cases hc : pos < wavesize ∧ pos < f.length ∧ f.length - pos ≥ 8
    · simp only [hc, and_self, if_true]
      obtain ⟨cs, h1, _⟩ := rd32_ok f (pos + 4) (by omega)
      simp only [h1]
      by_cases hbig : cs > f.length - pos - 8
      · exact ⟨none, by simp [hbig]⟩
      · simp only [hbig, if_false]
        obtain ⟨r, hr, hok⟩ := parseChunk_total f pos cs w h1 (by omega) hw
        rw [hr]
        match r, hok with
        | none, _ => exact ⟨none, rfl⟩
        | some w', hok =>
          have e1 : u32 (pos + (cs + 8)) = pos + (cs + 8) := u32_small (by omega)
          simp only [e1]
          apply ih _ _ (hok w' rfl)
          · split
            · rw [u32_small (by omega)]; omega
            · omega
          · split
            · rw [u32_small (by omega)]; omega
            · omega
    · exact ⟨some w, by simp [hc]⟩

theorem readWav_total (f : Bytes) (hf : f.length < 4294967295) : ∃ r, readWav f = .ok r := by
  unfold readWav
  split
  · exact ⟨_, rfl⟩
  · rename_i hlen
    simp only [Tables.wave_minFileSize] at hlen
    split
    · exact ⟨_, rfl⟩
    · obtain ⟨sz, h1, _⟩ := rd32_ok f 4 (by omega)
      simp only [h1]
      split
      · exact ⟨_, rfl⟩
      · obtain ⟨r, hr⟩ := readChunks_total f (u32 (sz + 8)) hf (f.length / 8 + 1) 12 {} (Or.inl rfl) (by omega) (by omega)
        rw [hr]
        match r with
        | none => exact ⟨_, rfl⟩
        | some w => simp only; split <;> exact ⟨_, rfl⟩

end Ctrmml.Wave
