/-
  Helper lemmas for C06 about Model/Lexer and Model/Mml (no property statements here):
  * the frame calculus `Keeps a m`: a parser action run while the current track is not `a`
    leaves track `a` of the song (and the current track id) untouched — proved for every
    primitive and, compositionally, for every command parser of Model/Mml;
  * lexer lemmas (blank runs, write-back of the character just read);
  * scan lemmas for the conditional block.
-/
import Ctrmml.Model.Mml
namespace Ctrmml.Mml
open Ctrmml.Tables Ctrmml.Lexer Ctrmml.TrackBuilder

/-! ### the song map -/

theorem lookup_insertTrack_ne (a id : Nat) (t : Track) (l : List (Nat × Track)) (h : a ≠ id) :
    (insertTrack id t l).lookup a = l.lookup a := by
  induction l with
  | nil =>
    simp only [insertTrack, List.lookup]
    have : (a == id) = false := by simpa using h
    simp [this]
  | cons kv rest ih =>
    obtain ⟨k, v⟩ := kv
    unfold insertTrack
    split
    · have : (a == id) = false := by simpa using h
      simp [List.lookup, this]
    · split
      · rename_i h1 h2
        subst h2
        have : (a == id) = false := by simpa using h
        simp [List.lookup, this]
      · simp only [List.lookup]
        split
        · rfl
        · exact ih

theorem lookup_makeTrack_ne (a id : Nat) (s : SongB) (h : a ≠ id) : (s.makeTrack id).tracks.lookup a = s.tracks.lookup a := by
  unfold SongB.makeTrack
  split
  · rfl
  · exact lookup_insertTrack_ne a id _ _ h

/-! ### the frame calculus -/

def Res.state {α} : Res α → MmlState
  | .ok _ s => s
  | .err _ s => s

/-- `s'` has the same current track and the same track `a` as `s` -/
def FrameRel (a : Nat) (s s' : MmlState) : Prop :=
  s'.trackId = s.trackId ∧ s'.song.tracks.lookup a = s.song.tracks.lookup a ∧ s'.trackList = s.trackList

theorem FrameRel.refl (a : Nat) (s : MmlState) : FrameRel a s s := ⟨rfl, rfl, rfl⟩
theorem FrameRel.trans {a : Nat} {s1 s2 s3 : MmlState} (h1 : FrameRel a s1 s2) (h2 : FrameRel a s2 s3) : FrameRel a s1 s3 :=
  ⟨h2.1.trans h1.1, h2.2.1.trans h1.2.1, h2.2.2.trans h1.2.2⟩

/-- run from any state whose current track is not `a`, `m` ends (normally or with an error) in
a state with the same current track and the same track `a` -/
structure Keeps {α} (a : Nat) (m : P α) : Prop where
  frame : ∀ s, s.trackId ≠ a → FrameRel a s (m s).state

theorem keeps_pure {α} (a : Nat) (x : α) : Keeps a (pure x : P α) := ⟨fun s _ => FrameRel.refl a s⟩

theorem keeps_bind {α β} {a : Nat} {m : P α} {f : α → P β} (hm : Keeps a m) (hf : ∀ x, Keeps a (f x)) : Keeps a (m >>= f) := by
  constructor
  intro s hs
  have h1 := hm.frame s hs
  show FrameRel a s (P.bind m f s).state
  unfold P.bind
  cases hms : m s with
  | ok x s1 =>
    rw [hms] at h1
    simp only [Res.state] at h1
    have h2 := (hf x).frame s1 (by rw [h1.1]; exact hs)
    exact h1.trans h2
  | err e s1 =>
    rw [hms] at h1
    exact h1

theorem keeps_fail {α} (a : Nat) (e : Err) : Keeps a (fail e : P α) := ⟨fun s _ => FrameRel.refl a s⟩
theorem keeps_parseError {α} (a : Nat) (msg : String) : Keeps a (parseError msg : P α) := ⟨fun s _ => FrameRel.refl a s⟩
theorem keeps_getS (a : Nat) : Keeps a getS := ⟨fun s _ => FrameRel.refl a s⟩
theorem keeps_tellC (a : Nat) : Keeps a tellC := ⟨fun s _ => FrameRel.refl a s⟩
theorem keeps_track (a : Nat) : Keeps a track := ⟨fun s _ => FrameRel.refl a s⟩
theorem keeps_getC (a : Nat) : Keeps a getC := ⟨fun _ _ => ⟨rfl, rfl, rfl⟩⟩
theorem keeps_getTokenC (a : Nat) : Keeps a getTokenC := ⟨fun _ _ => ⟨rfl, rfl, rfl⟩⟩
theorem keeps_seekC (a : Nat) (p : Nat) : Keeps a (seekC p) := ⟨fun _ _ => ⟨rfl, rfl, rfl⟩⟩
theorem keeps_parseWarning (a : Nat) (msg : String) : Keeps a (parseWarning msg) := ⟨fun _ _ => ⟨rfl, rfl, rfl⟩⟩

theorem keeps_ungetC (a : Nat) (c : Int) : Keeps a (ungetC c) := by
  constructor
  intro s _
  unfold ungetC
  split <;> exact ⟨rfl, rfl, rfl⟩

theorem keeps_getNumC (a : Nat) : Keeps a getNumC := by
  constructor
  intro s _
  unfold getNumC
  split <;> exact ⟨rfl, rfl, rfl⟩

theorem keeps_scanC (a : Nat) (stop : Int → Bool) : Keeps a (scanC stop) := ⟨fun _ _ => ⟨rfl, rfl, rfl⟩⟩

theorem frame_setTrack (a : Nat) (s : MmlState) (t : Track) (h : s.trackId ≠ a) : FrameRel a s (setTrack s t) :=
  ⟨rfl, lookup_insertTrack_ne a s.trackId t _ (Ne.symm h), rfl⟩

theorem keeps_modifyTrack (a : Nat) (f : Track → Track) : Keeps a (modifyTrack f) := ⟨fun s hs => frame_setTrack a s _ hs⟩

theorem keeps_trackOp (a : Nat) (op : Track.Op) : Keeps a (trackOp op) := by
  constructor
  intro s hs
  unfold trackOp
  split
  · exact frame_setTrack a s _ hs
  · exact FrameRel.refl a s

/-- a state update that touches neither the current track id nor the track map -/
theorem keeps_modifyS (a : Nat) (f : MmlState → MmlState)
    (h : ∀ s, (f s).trackId = s.trackId ∧ (f s).song.tracks = s.song.tracks ∧ (f s).trackList = s.trackList) :
    Keeps a (modifyS f) := ⟨fun s _ => ⟨(h s).1, by show (f s).song.tracks.lookup a = _; rw [(h s).2.1], (h s).2.2⟩⟩

theorem keeps_ite {α} (a : Nat) (c : Prop) [Decidable c] (m1 m2 : P α) (h1 : Keeps a m1) (h2 : Keeps a m2) : Keeps a (if c then m1 else m2) := by
  split <;> assumption

/-- the work-horse: decompose a `do` block along `>>=`, `pure`, `if`, `match` -/
macro "keeps_step" : tactic => `(tactic| first
  | exact keeps_pure _ _ | exact keeps_fail _ _ | exact keeps_parseError _ _ | exact keeps_getS _ | exact keeps_tellC _
  | exact keeps_track _ | exact keeps_getC _ | exact keeps_getTokenC _ | exact keeps_seekC _ _ | exact keeps_parseWarning _ _
  | exact keeps_ungetC _ _ | exact keeps_getNumC _ | exact keeps_scanC _ _ | exact keeps_modifyTrack _ _
  | exact keeps_trackOp _ _
  | (apply keeps_modifyS; intro _; exact ⟨rfl, rfl, rfl⟩)
  | assumption
  | apply keeps_bind
  | apply keeps_ite
  | intro _
  | split
  | dsimp only)

macro "keeps" : tactic => `(tactic| repeat' keeps_step)

theorem keeps_dotsLoop (a : Nat) : ∀ (k : Nat) (d dot : Int), Keeps a (dotsLoop k d dot)
  | 0, d, dot => by unfold dotsLoop; keeps
  | k + 1, d, dot => by
    unfold dotsLoop
    have ih := keeps_dotsLoop a k
    keeps
    exact ih _ _

theorem keeps_readDuration (a : Nat) : Keeps a readDuration := by
  have hd := keeps_dotsLoop a
  unfold readDuration
  keeps
  all_goals exact hd _ _ _

theorem keeps_readParameter (a : Nat) (d : Int) : Keeps a (readParameter d) := by unfold readParameter; keeps
theorem keeps_expectParameter (a : Nat) : Keeps a expectParameter := by unfold expectParameter; keeps
theorem keeps_expectSigned (a : Nat) : Keeps a expectSigned := keeps_expectParameter a
theorem keeps_keySigOf (a : Nat) (c : Int) : Keeps a (keySigOf c) := by unfold keySigOf; keeps

theorem keeps_readNote (a : Nat) (c : Int) : Keeps a (readNote c) := by
  have h1 := keeps_keySigOf a
  unfold readNote
  keeps
  all_goals exact h1 _


macro "keeps_step2" : tactic => `(tactic| first
  | exact keeps_readDuration _ | exact keeps_readParameter _ _ | exact keeps_expectParameter _ | exact keeps_expectSigned _
  | exact keeps_readNote _ _ | keeps_step)
macro "keeps2" : tactic => `(tactic| repeat' keeps_step2)

theorem keeps_platformExclusive (a : Nat) : Keeps a platformExclusive := by
  constructor
  intro s hs
  simp only [platformExclusive, bind, P.bind, scanC, getS, modifyS, parseError, pure, P.pure]
  split
  · exact ⟨rfl, rfl, rfl⟩
  · simp only [P.bind, getS, modifyS]
    exact FrameRel.trans ⟨rfl, rfl, rfl⟩ ((keeps_trackOp a _).frame _ hs)

theorem keeps_mmlSlur (a : Nat) : Keeps a mmlSlur := by unfold mmlSlur; keeps2
theorem keeps_mmlReverseRest (a : Nat) (d : Nat) : Keeps a (mmlReverseRest d) := by unfold mmlReverseRest; keeps2

macro "keeps_step3" : tactic => `(tactic| first
  | exact keeps_platformExclusive _ | exact keeps_mmlSlur _ | exact keeps_mmlReverseRest _ _ | keeps_step2)
macro "keeps3" : tactic => `(tactic| repeat' keeps_step3)

theorem keeps_mmlGrace (a : Nat) : Keeps a mmlGrace := by unfold mmlGrace; keeps3
theorem keeps_mmlTranspose (a : Nat) : Keeps a mmlTranspose := by unfold mmlTranspose; keeps3
theorem keeps_mmlEcho (a : Nat) : Keeps a mmlEcho := by unfold mmlEcho; keeps3
theorem keeps_eventRelative (a : Nat) (t : Nat) (st : Option Nat) : Keeps a (eventRelative t st) := by unfold eventRelative; keeps3

macro "keeps_step4" : tactic => `(tactic| first
  | exact keeps_mmlGrace _ | exact keeps_mmlTranspose _ | exact keeps_mmlEcho _ | exact keeps_eventRelative _ _ _ | keeps_step3)
macro "keeps4" : tactic => `(tactic| repeat' keeps_step4)

theorem keeps_mmlBasic (a : Nat) : Keeps a mmlBasic := by unfold mmlBasic; keeps4
theorem keeps_mmlControl (a : Nat) : Keeps a mmlControl := by unfold mmlControl; keeps4
theorem keeps_mmlEnvelope (a : Nat) : Keeps a mmlEnvelope := by unfold mmlEnvelope; keeps4
theorem keeps_scanTokenC (a : Nat) (stop : Int → Bool) : Keeps a (scanTokenC stop) := by unfold scanTokenC; keeps4

theorem keeps_cbGo (a : Nat) : ∀ k, Keeps a (conditionalBlockBegin.go k)
  | 0 => by unfold conditionalBlockBegin.go; keeps
  | k + 1 => by
    have ih := keeps_cbGo a k
    unfold conditionalBlockBegin.go
    keeps4

theorem keeps_conditionalBlockBegin (a : Nat) : Keeps a conditionalBlockBegin := by
  unfold conditionalBlockBegin
  repeat' (first | exact keeps_cbGo _ _ | keeps_step4)

theorem keeps_conditionalBlockEnd (a : Nat) (c : Int) : Keeps a (conditionalBlockEnd c) := by
  unfold conditionalBlockEnd
  keeps4

macro "keeps_step5" : tactic => `(tactic| first
  | exact keeps_mmlBasic _ | exact keeps_mmlControl _ | exact keeps_mmlEnvelope _ | exact keeps_conditionalBlockBegin _
  | exact keeps_conditionalBlockEnd _ _ | keeps_step4)
macro "keeps5" : tactic => `(tactic| repeat' keeps_step5)

theorem keeps_parseMmlTrackF (a : Nat) : ∀ fuel, Keeps a (parseMmlTrackF fuel)
  | 0 => by unfold parseMmlTrackF; keeps
  | fuel + 1 => by
    have ih := keeps_parseMmlTrackF a fuel
    unfold parseMmlTrackF
    keeps5

theorem keeps_parseMmlTrack (a : Nat) : Keeps a parseMmlTrack := by
  unfold parseMmlTrack
  apply keeps_bind (keeps_getS a)
  intro s
  exact keeps_parseMmlTrackF a _


/-! ### the line level: the current track changes, so the relation drops it -/

/-- track `a` and the remembered track list are the same in `s'` as in `s` -/
def LineRel (a : Nat) (s s' : MmlState) : Prop :=
  s'.song.tracks.lookup a = s.song.tracks.lookup a ∧ s'.trackList = s.trackList

theorem LineRel.trans {a : Nat} {s1 s2 s3 : MmlState} (h1 : LineRel a s1 s2) (h2 : LineRel a s2 s3) : LineRel a s1 s3 :=
  ⟨h2.1.trans h1.1, h2.2.trans h1.2⟩

theorem FrameRel.line {a : Nat} {s s' : MmlState} (h : FrameRel a s s') : LineRel a s s' := ⟨h.2.1, h.2.2⟩

theorem parseMmlLoop_cons (col i id : Nat) (rest : List Nat) (s : MmlState) :
    parseMmlLoop col i (id :: rest) s =
      match parseMmlTrack { setLb s (s.inp.lb.seek col) with trackId := id, trackOffset := i % 65536, song := (setLb s (s.inp.lb.seek col)).song.makeTrack id, conditionalBlock := false } with
      | .ok _ s2 =>
        if s2.conditionalBlock then .err (.input "unterminated conditional block" s2.inp.getReference) s2
        else parseMmlLoop col (i + 1) rest s2
      | .err e s2 => .err e s2 := by
  conv => lhs; unfold parseMmlLoop
  simp only [bind, P.bind, seekC, modifyS, getS]
  cases parseMmlTrack { setLb s (s.inp.lb.seek col) with trackId := id, trackOffset := i % 65536, song := (setLb s (s.inp.lb.seek col)).song.makeTrack id, conditionalBlock := false } with
  | err e s2 => rfl
  | ok u s2 =>
    simp only []
    cases s2.conditionalBlock <;> rfl


theorem frame_parseMmlLoop (a col : Nat) : ∀ (l : List Nat) (i : Nat) (s : MmlState), a ∉ l → LineRel a s (parseMmlLoop col i l s).state
  | [], _, s, _ => ⟨rfl, rfl⟩
  | id :: rest, i, s, h => by
    have ha : a ≠ id := fun e => h (by simp [e])
    have hr : a ∉ rest := fun e => h (by simp [e])
    rw [parseMmlLoop_cons]
    have h1 : LineRel a s { setLb s (s.inp.lb.seek col) with trackId := id, trackOffset := i % 65536, song := (setLb s (s.inp.lb.seek col)).song.makeTrack id, conditionalBlock := false } :=
      ⟨lookup_makeTrack_ne a id s.song ha, rfl⟩
    have h2 := (keeps_parseMmlTrack a).frame { setLb s (s.inp.lb.seek col) with trackId := id, trackOffset := i % 65536, song := (setLb s (s.inp.lb.seek col)).song.makeTrack id, conditionalBlock := false }
      (fun e => ha e.symm)
    cases hp : parseMmlTrack { setLb s (s.inp.lb.seek col) with trackId := id, trackOffset := i % 65536, song := (setLb s (s.inp.lb.seek col)).song.makeTrack id, conditionalBlock := false } with
    | err e s2 =>
      rw [hp] at h2
      exact h1.trans h2.line
    | ok u s2 =>
      rw [hp] at h2
      simp only []
      split
      · exact h1.trans h2.line
      · exact (h1.trans h2.line).trans (frame_parseMmlLoop a col rest (i + 1) s2 hr)

/-- actions that do not touch the track map at all -/
structure Lex {α} (m : P α) : Prop where
  same : ∀ s, (m s).state.song.tracks = s.song.tracks

theorem lex_pure {α} (x : α) : Lex (pure x : P α) := ⟨fun _ => rfl⟩
theorem lex_bind {α β} {m : P α} {f : α → P β} (hm : Lex m) (hf : ∀ x, Lex (f x)) : Lex (m >>= f) := by
  constructor
  intro s
  have h1 := hm.same s
  show (P.bind m f s).state.song.tracks = _
  unfold P.bind
  cases hms : m s with
  | ok x s1 =>
    rw [hms] at h1
    simp only [Res.state] at h1
    exact ((hf x).same s1).trans h1
  | err e s1 =>
    rw [hms] at h1
    exact h1
theorem lex_ite {α} (c : Prop) [Decidable c] (m1 m2 : P α) (h1 : Lex m1) (h2 : Lex m2) : Lex (if c then m1 else m2) := by
  split <;> assumption
theorem lex_fail {α} (e : Err) : Lex (fail e : P α) := ⟨fun _ => rfl⟩
theorem lex_parseError {α} (msg : String) : Lex (parseError msg : P α) := ⟨fun _ => rfl⟩
theorem lex_getS : Lex getS := ⟨fun _ => rfl⟩
theorem lex_getC : Lex getC := ⟨fun _ => rfl⟩
theorem lex_getTokenC : Lex getTokenC := ⟨fun _ => rfl⟩
theorem lex_ungetC (c : Int) : Lex (ungetC c) := by
  constructor; intro s; unfold ungetC; split <;> rfl
theorem lex_getNumC : Lex getNumC := by
  constructor; intro s; unfold getNumC; split <;> rfl
theorem lex_modifyS (f : MmlState → MmlState) (h : ∀ s, (f s).song.tracks = s.song.tracks) : Lex (modifyS f) := ⟨fun s => h s⟩

macro "lex_step" : tactic => `(tactic| first
  | exact lex_pure _ | exact lex_fail _ | exact lex_parseError _ | exact lex_getS | exact lex_getC | exact lex_getTokenC
  | exact lex_ungetC _ | exact lex_getNumC
  | (apply lex_modifyS; intro _; rfl)
  | assumption
  | apply lex_bind
  | apply lex_ite
  | intro _
  | split
  | dsimp only)
macro "lex" : tactic => `(tactic| repeat' lex_step)

theorem lex_getTrackId : Lex getTrackId := by unfold getTrackId; lex

theorem lex_trackListLoop : ∀ (fuel : Nat) (c : Int) (acc : List Nat), Lex (trackListLoop fuel c acc)
  | 0, _, _ => by unfold trackListLoop; lex
  | fuel + 1, c, acc => by
    have ih := lex_trackListLoop fuel
    unfold trackListLoop
    repeat' (first | exact lex_getTrackId | exact ih _ _ | lex_step)

theorem lex_parseTag : Lex parseTag := by unfold parseTag; lex

/-- `m` does not change track `a` unless `a` is in the track list it ends with -/
structure Tame {α} (a : Nat) (m : P α) : Prop where
  frame : ∀ s, a ∉ (m s).state.trackList → (m s).state.song.tracks.lookup a = s.song.tracks.lookup a

theorem tame_of_lex {α} (a : Nat) {m : P α} (h : Lex m) : Tame a m := ⟨fun s _ => by rw [h.same s]⟩

theorem tame_bind {α β} {a : Nat} {m : P α} {f : α → P β} (hm : Lex m) (hf : ∀ x, Tame a (f x)) : Tame a (m >>= f) := by
  constructor
  intro s
  have h1 := hm.same s
  show a ∉ (P.bind m f s).state.trackList → (P.bind m f s).state.song.tracks.lookup a = _
  unfold P.bind
  cases hms : m s with
  | ok x s1 =>
    rw [hms] at h1
    simp only [Res.state] at h1
    intro hn
    rw [(hf x).frame s1 hn, h1]
  | err e s1 =>
    rw [hms] at h1
    simp only [Res.state] at h1
    intro _
    show s1.song.tracks.lookup a = _
    rw [h1]

theorem tame_ite {α} (a : Nat) (c : Prop) [Decidable c] (m1 m2 : P α) (h1 : Tame a m1) (h2 : Tame a m2) : Tame a (if c then m1 else m2) := by
  split <;> assumption

theorem trackList_parseMmlLoop (col : Nat) : ∀ (l : List Nat) (i : Nat) (s : MmlState), (parseMmlLoop col i l s).state.trackList = s.trackList
  | [], _, s => rfl
  | id :: rest, i, s => by
    rw [parseMmlLoop_cons]
    have h2 := (keeps_parseMmlTrack (id + 1)).frame { setLb s (s.inp.lb.seek col) with trackId := id, trackOffset := i % 65536, song := (setLb s (s.inp.lb.seek col)).song.makeTrack id, conditionalBlock := false }
      (by show id ≠ id + 1; omega)
    cases hp : parseMmlTrack { setLb s (s.inp.lb.seek col) with trackId := id, trackOffset := i % 65536, song := (setLb s (s.inp.lb.seek col)).song.makeTrack id, conditionalBlock := false } with
    | err e s2 =>
      rw [hp] at h2
      exact h2.2.2
    | ok u s2 =>
      rw [hp] at h2
      simp only []
      split
      · exact h2.2.2
      · exact (trackList_parseMmlLoop col rest (i + 1) s2).trans h2.2.2

theorem tame_parseMml (a : Nat) : Tame a parseMml := by
  constructor
  intro s
  show a ∉ (P.bind tellC (fun col => P.bind getS fun s => parseMmlLoop col 0 s.trackList) s).state.trackList → _
  simp only [P.bind, tellC, getS]
  intro hn
  rw [trackList_parseMmlLoop] at hn
  exact (frame_parseMmlLoop a _ s.trackList 0 s hn).1

theorem tame_runLastCmd (a : Nat) : Tame a runLastCmd := by
  unfold runLastCmd
  apply tame_bind lex_getS
  intro s
  split
  · exact tame_of_lex a (lex_pure _)
  · exact tame_parseMml a
  · exact tame_of_lex a lex_parseTag

theorem tame_lineTail (a : Nat) (b : Bool) :
    Tame a (if b = true then (do
        let c ← getC
        if isBlank c then do
          let c ← getTokenC
          ungetC c
          if c == 0 then pure ()
          else runLastCmd) else pure ()) := by
  apply tame_ite
  · apply tame_bind lex_getC
    intro c
    apply tame_ite
    · apply tame_bind lex_getTokenC
      intro c
      apply tame_bind (lex_ungetC _)
      intro _
      apply tame_ite
      · exact tame_of_lex a (lex_pure _)
      · exact tame_runLastCmd a
    · exact tame_of_lex a (lex_pure _)
  · exact tame_of_lex a (lex_pure _)

macro "tame_step" : tactic => `(tactic| first
  | exact tame_lineTail _ _
  | exact lex_trackListLoop _ _ _
  | lex_step
  | apply tame_ite
  | split
  | apply tame_bind)

theorem tame_parseLine (a : Nat) : Tame a parseLine := by
  unfold parseLine
  apply tame_bind lex_getTrackId
  intro c
  dsimp only
  repeat' tame_step

theorem tame_readLine (a : Nat) (text : List Nat) (n : Nat) : Tame a (readLine text n) := by
  unfold readLine
  apply tame_bind
  · lex
  · intro _
    exact tame_parseLine a

end Ctrmml.Mml

/-! ### lexer and scan lemmas -/
namespace Ctrmml.Lexer

theorem countBlanks_append (bl rest : List Nat) (h : ∀ c ∈ bl, isBlank (schar c) = true) :
    LineBuffer.countBlanks (bl ++ rest) = bl.length + LineBuffer.countBlanks rest := by
  induction bl with
  | nil => simp
  | cons c cs ih =>
    have hc : isBlank (schar c) = true := h c (by simp)
    have := ih (fun x hx => h x (by simp [hx]))
    simp only [List.cons_append, LineBuffer.countBlanks, hc, if_true, this, List.length_cons]
    omega

theorem countBlanks_nonblank (c : Nat) (rest : List Nat) (h : isBlank (schar c) = false) : LineBuffer.countBlanks (c :: rest) = 0 := by
  simp [LineBuffer.countBlanks, h]

end Ctrmml.Lexer

namespace Ctrmml.Mml
open Ctrmml.Tables Ctrmml.Lexer Ctrmml.TrackBuilder

theorem bind_apply {α β} (m : P α) (f : α → P β) (s : MmlState) :
    (m >>= f) s = match m s with | .ok a s' => f a s' | .err e s' => .err e s' := rfl

/-- `get_token()` from a cursor in front of a blank run = `get_token()` from behind it -/
theorem getTokenC_skip (s : MmlState) (pre bl rest : List Nat) (hbl : ∀ c ∈ bl, isBlank (schar c) = true)
    (hb : s.inp.lb = { buf := pre ++ bl ++ rest, column := pre.length }) :
    getTokenC s = getTokenC (setLb s { buf := pre ++ bl ++ rest, column := pre.length + bl.length }) := by
  unfold getTokenC LineBuffer.getToken
  rw [hb]
  simp only [setLb, List.append_assoc, List.drop_left', List.drop_append_of_le_length, List.length_append]
  have h2 : List.drop (pre.length + bl.length) (pre ++ (bl ++ rest)) = rest := by
    rw [← List.append_assoc, ← List.length_append]; simp
  rw [h2, countBlanks_append bl rest hbl]
  simp [Nat.add_assoc]

theorem scanUntil_stop (stop : Int → Bool) (xs : List Nat) (c : Nat) (rest : List Nat)
    (hxs : ∀ x ∈ xs, (schar x == 0 || stop (schar x)) = false) (hc : (schar c == 0 || stop (schar c)) = true) :
    scanUntil stop (xs ++ c :: rest) = (xs, xs.length + 1, schar c) := by
  induction xs with
  | nil => simp [scanUntil, hc]
  | cons x xs ih =>
    have hx := hxs x (by simp)
    have := ih (fun y hy => hxs y (by simp [hy]))
    simp only [List.cons_append, scanUntil, hx, this, List.length_cons]
    simp

/-- a scan that meets no stopping character ends at the end of the line with 0 -/
theorem scanUntil_none (stop : Int → Bool) (xs : List Nat) (hxs : ∀ x ∈ xs, (schar x == 0 || stop (schar x)) = false) :
    scanUntil stop xs = (xs, xs.length + 1, 0) := by
  induction xs with
  | nil => simp [scanUntil]
  | cons x xs ih =>
    have hx := hxs x (by simp)
    have := ih (fun y hy => hxs y (by simp [hy]))
    simp only [scanUntil, hx, this, List.length_cons]
    simp

end Ctrmml.Mml
