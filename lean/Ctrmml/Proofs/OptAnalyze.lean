/-
  C01, layer 3 — the stack analysis (`Opt.analyzeTrack` / `Opt.analyzeStack`, i.e.
  `Stack_Analyzer::analyze_track` / `Optimizer::analyze_stack`) never exhausts its recursion
  budget.

  `analyze_track` recurses into the track named by a `JUMP` (or a drum-mode `NOTE`) only if the
  analyser of that parameter is not `parsing`; it sets `parsing` on entry and clears it on exit.
  Hence the analysers on the call stack have pairwise distinct keys, all of them `parsing`; every
  key but the bottom one is an `int16_t` call parameter whose track exists, and distinct `int16_t`
  parameters name distinct tracks.  The depth of the recursion is therefore at most
  `1 + number of tracks`, and the budget `tracks.length + 2` of the model is never exhausted.

  The measure: the number of tracks of the song whose (unique) `int16_t` parameter is not
  `parsing` (`freeCount`).  The model keeps the parameter as an unbounded `Int`; the hypothesis
  that call parameters are in the `int16_t` range (`CallI16`, true of every C++ `Event` by its
  type) cannot be dropped in the model (`analyzeStack_fuel_artefact` below).
-/
import Ctrmml.Model.Optimizer
namespace Ctrmml.OptSteps
open Ctrmml Ctrmml.Opt Tables

/-! ## the analyser map -/

theorem lookup_map_replace (m : SAMap) (k : Int) (v : SA) (k' : Int) :
    (m.map fun p => if p.1 == k then (k, v) else p).lookup k' =
      if k' = k then (if m.any (·.1 == k) then some v else none) else m.lookup k' := by
  induction m with
  | nil => simp [List.lookup]
  | cons p r ih =>
    simp only [List.map_cons, List.any_cons]
    by_cases hp : p.1 = k
    · have hb : (p.1 == k) = true := by simp [hp]
      simp only [hb, if_true, Bool.true_or]
      by_cases hk : k' = k
      · subst hk; simp [List.lookup]
      · have : (k' == k) = false := by simp [hk]
        have h2 : (k' == p.1) = false := by rw [hp]; exact this
        simp only [List.lookup, this, h2, hk, if_false]
        rw [ih]; simp [hk]
    · have hb : (p.1 == k) = false := by simp [hp]
      simp only [hb, Bool.false_eq_true, if_false, Bool.false_or]
      by_cases hk : k' = p.1
      · subst hk
        have : ¬ (p.1 = k) := hp
        simp [List.lookup, this]
      · have h2 : (k' == p.1) = false := by simp [hk]
        simp only [List.lookup, h2]
        exact ih

theorem lookup_snoc_ne (m : SAMap) (k : Int) (v : SA) (k' : Int) (h : k' ≠ k) :
    (m ++ [(k, v)]).lookup k' = m.lookup k' := by
  induction m with
  | nil =>
    have : (k' == k) = false := by simp [h]
    simp [List.lookup, this]
  | cons p r ih =>
    simp only [List.cons_append, List.lookup]
    split
    · rfl
    · exact ih

theorem lookup_snoc_new (m : SAMap) (k : Int) (v : SA) (h : m.any (·.1 == k) = false) :
    (m ++ [(k, v)]).lookup k = some v := by
  induction m with
  | nil => simp
  | cons p r ih =>
    simp only [List.any_cons, Bool.or_eq_false_iff] at h
    have : (k == p.1) = false := by
      have := h.1
      simp only [beq_eq_false_iff_ne, ne_eq] at this ⊢
      exact fun e => this e.symm
    simp only [List.cons_append, List.lookup, this]
    exact ih h.2

theorem getSA_setSA_same (m : SAMap) (k : Int) (v : SA) : getSA (setSA m k v) k = v := by
  unfold getSA setSA
  split
  · rename_i h
    rw [lookup_map_replace]; simp [h]
  · rename_i h
    rw [lookup_snoc_new m k v (Bool.eq_false_iff.2 h)]; rfl

theorem getSA_setSA_ne (m : SAMap) (k : Int) (v : SA) (k' : Int) (h : k' ≠ k) :
    getSA (setSA m k v) k' = getSA m k' := by
  unfold getSA setSA
  split
  · rw [lookup_map_replace]; simp [h]
  · rw [lookup_snoc_ne m k v k' h]

/-- the `parsing` flag of the analyser with key `k` -/
def par (m : SAMap) (k : Int) : Bool := (getSA m k).parsing

theorem par_setSA (m : SAMap) (k : Int) (v : SA) (k' : Int) :
    par (setSA m k v) k' = if k' = k then v.parsing else par m k' := by
  unfold par
  by_cases h : k' = k
  · subst h; simp [getSA_setSA_same]
  · simp [h, getSA_setSA_ne m k v k' h]

/-! ## the measure -/

/-- call parameters are `int16_t` values (the C++ type of `Event::param`) -/
def I16 (p : Int) : Prop := -32768 ≤ p ∧ p < 32768

/-- the parameters of the events that `analyze_track` may follow (`JUMP`s, and `NOTE`s — in drum
mode) are `int16_t` values -/
def CallI16 (l : List Event) : Prop := ∀ e ∈ l, e.type = ev_JUMP ∨ e.type = ev_NOTE → I16 e.param

def SongI16 (S : Song) : Prop := ∀ p ∈ S.tracks, CallI16 p.2

/-- the `int16_t` parameter that names track `id` -/
def paramOf (id : Nat) : Int := if id < 32768 then (id : Int) else (id : Int) - 65536

theorem paramOf_trackId {p : Int} (h : I16 p) : paramOf (trackIdOfParam p) = p := by
  unfold paramOf trackIdOfParam I16 at *
  split <;> omega

/-- number of tracks whose parameter is not being parsed -/
def freeCount (S : Song) (m : SAMap) : Nat := S.tracks.countP fun p => !par m (paramOf p.1)

theorem freeCount_le (S : Song) (m : SAMap) : freeCount S m ≤ S.tracks.length := List.countP_le_length

theorem freeCount_congr (S : Song) {m m' : SAMap} (h : ∀ k, par m' k = par m k) : freeCount S m' = freeCount S m := by
  unfold freeCount
  congr 1
  funext p
  rw [h]

theorem countP_mono_lt {α : Type} (p q : α → Bool) : ∀ (l : List α), (∀ x ∈ l, q x = true → p x = true) →
    (∃ x ∈ l, p x = true ∧ q x = false) → l.countP q < l.countP p := by
  intro l
  induction l with
  | nil => intro _ h; obtain ⟨x, hx, _⟩ := h; simp at hx
  | cons a r ih =>
    intro hmono hex
    have hr : r.countP q ≤ r.countP p :=
      List.countP_mono_left (fun x hx hq => hmono x (List.mem_cons_of_mem _ hx) hq)
    obtain ⟨x, hx, hpx, hqx⟩ := hex
    rcases List.mem_cons.1 hx with rfl | hxr
    · rw [List.countP_cons_of_pos hpx, List.countP_cons_of_neg (by simp [hqx])]
      omega
    · have := ih (fun y hy => hmono y (List.mem_cons_of_mem _ hy)) ⟨x, hxr, hpx, hqx⟩
      by_cases hqa : q a = true
      · rw [List.countP_cons_of_pos hqa, List.countP_cons_of_pos (hmono a List.mem_cons_self hqa)]
        omega
      · rw [List.countP_cons_of_neg hqa]
        by_cases hpa : p a = true
        · rw [List.countP_cons_of_pos hpa]; omega
        · rw [List.countP_cons_of_neg hpa]; exact this

theorem mem_of_lookup' {β : Type} {l : List (Nat × β)} {k : Nat} {v : β} (h : l.lookup k = some v) : (k, v) ∈ l := by
  induction l with
  | nil => simp [List.lookup] at h
  | cons p r ih =>
    by_cases hk : k = p.1
    · subst hk
      simp only [List.lookup, beq_self_eq_true, Option.some.injEq] at h
      subst h
      simp
    · have h' : (k == p.1) = false := by simp [hk]
      simp only [List.lookup, h'] at h
      exact List.mem_cons_of_mem _ (ih h)

/-- starting to parse an existing track whose parameter was free uses up one unit -/
theorem freeCount_enter {S : Song} {m m' : SAMap} {key : Int} {cevs : List Event} (hkey : I16 key)
    (ht : S.track? (trackIdOfParam key) = some cevs) (hfree : par m key = false)
    (hm' : ∀ k, par m' k = if k = key then true else par m k) : freeCount S m' + 1 ≤ freeCount S m := by
  unfold freeCount
  apply countP_mono_lt
  · intro x _ hx
    rw [hm'] at hx
    split at hx
    · simp at hx
    · exact hx
  · refine ⟨(trackIdOfParam key, cevs), mem_of_lookup' ht, ?_, ?_⟩
    · simp [paramOf_trackId hkey, hfree]
    · simp [paramOf_trackId hkey, hm']

/-! ## `analyze_track`, restructured -/

def usage0 (e : Event) (ld drum : Int) : Int :=
  ((if e.type = ev_JUMP then 1 else 0) + if drum ≠ 0 ∧ e.type = ev_NOTE then 1 else 0) +
    (if e.type = ev_LOOP_START then ld + 1 else ld) * 2

/-- the common part of the `JUMP` and drum-`NOTE` branches -/
def calleeR (song : Song) (fuel : Nat) (self : Int) (m : SAMap) (e : Event) (u0 drum drumArg : Int)
    (keepDrum isDrum : Bool) : Except OErr (SAMap × Int × Int) :=
  if (getSA m e.param).baseUsage < u0 + (getSA m self).baseUsage then
    if !(getSA m e.param).parsing then
      match song.track? (trackIdOfParam e.param) with
      | none => .error (if isDrum then .missingDrum e.param else .missingTrack)
      | some cevs =>
        match analyzeTrack song fuel
            (setSA m e.param { getSA m e.param with baseUsage := wrap16 (u0 + (getSA m self).baseUsage) })
            e.param cevs drumArg with
        | .error x => .error x
        | .ok (m'', d') => .ok (m'', u0 + (getSA m'' e.param).maxUsage, if keepDrum then d' else drum)
    else .ok (setSA m e.param { getSA m e.param with baseUsage := wrap16 (u0 + (getSA m self).baseUsage) },
      u0 + (getSA (setSA m e.param { getSA m e.param with baseUsage := wrap16 (u0 + (getSA m self).baseUsage) })
        e.param).maxUsage, drum)
  else .ok (m, u0 + (getSA m e.param).maxUsage, drum)

def stepR (song : Song) (fuel : Nat) (self : Int) (m : SAMap) (e : Event) (ld drum : Int) :
    Except OErr (SAMap × Int × Int × Int) :=
  let ld' := if e.type = ev_LOOP_START then ld + 1 else ld
  if e.type = ev_JUMP then
    match calleeR song fuel self m e (usage0 e ld drum) drum drum true false with
    | .error x => .error x
    | .ok (m', u, d') => .ok (m', u, d', ld')
  else if e.type = ev_NOTE ∧ drum ≠ 0 then
    match calleeR song fuel self m e (usage0 e ld drum) drum 0 false true with
    | .error x => .error x
    | .ok (m', u, d') => .ok (m', u, d', ld')
  else if e.type = ev_DRUM_MODE then .ok (m, usage0 e ld drum, e.param, ld')
  else if e.type = ev_LOOP_END then .ok (m, usage0 e ld drum, drum, ld' - 1)
  else .ok (m, usage0 e ld drum, drum, ld')

theorem go_cons (song : Song) (fuel : Nat) (self : Int) (e : Event) (rest : List Event) (m : SAMap) (ld drum : Int) :
    analyzeTrack.go song fuel self (e :: rest) m ld drum =
      match stepR song fuel self m e ld drum with
      | .error x => .error x
      | .ok (m', usage, drum', ld') =>
        analyzeTrack.go song fuel self rest
          (setSA m' self { getSA m' self with
            eventList := (getSA m' self).eventList ++ [wrap16 usage],
            maxUsage := if wrap16 usage > (getSA m' self).maxUsage then wrap16 usage else (getSA m' self).maxUsage })
          ld' drum' := by
  rw [analyzeTrack.go.eq_2]
  rfl

/-! ## the budget is never exhausted -/

/-- the statement proved by induction on the budget: no `.fuel` error, and a normal return
leaves every `parsing` flag as it was, the one of `self` cleared -/
def ATGood (song : Song) (fuel : Nat) : Prop :=
  ∀ (m : SAMap) (self : Int) (evs : List Event) (drum : Int), CallI16 evs →
    (∀ m1 : SAMap, (∀ k, par m1 k = if k = self then true else par m k) → freeCount song m1 + 1 ≤ fuel) →
    analyzeTrack song fuel m self evs drum ≠ .error .fuel ∧
    ∀ m'' d, analyzeTrack song fuel m self evs drum = .ok (m'', d) →
      ∀ k, par m'' k = if k = self then false else par m k

theorem calleeR_good {song : Song} (hs : SongI16 song) {fuel : Nat} (ih : ATGood song fuel)
    {self : Int} {m : SAMap} {e : Event} (he : I16 e.param) (hfree : freeCount song m ≤ fuel)
    (u0 drum drumArg : Int) (keepDrum isDrum : Bool) :
    calleeR song fuel self m e u0 drum drumArg keepDrum isDrum ≠ .error .fuel ∧
    ∀ m' u d, calleeR song fuel self m e u0 drum drumArg keepDrum isDrum = .ok (m', u, d) →
      ∀ k, par m' k = par m k := by
  unfold calleeR
  split
  · split
    · rename_i hnp
      have hpk : par m e.param = false := by simpa [par] using hnp
      split
      · refine ⟨?_, fun _ _ _ h => by cases h⟩
        split <;> simp
      · rename_i cevs hc
        obtain ⟨m0, hm0⟩ : ∃ m0, m0 = setSA m e.param
            { getSA m e.param with baseUsage := wrap16 (u0 + (getSA m self).baseUsage) } := ⟨_, rfl⟩
        rw [← hm0]
        have hp0 : ∀ k, par m0 k = par m k := by
          intro k
          rw [hm0, par_setSA]
          split
          · rename_i hk; rw [hk]; rfl
          · rfl
        have hci : CallI16 cevs := hs _ (mem_of_lookup' hc)
        obtain ⟨g1, g2⟩ := ih m0 e.param cevs drumArg hci (by
          intro m1 hm1
          have := freeCount_enter (S := song) (m := m) (m' := m1) he hc hpk
            (fun k => by rw [hm1, hp0])
          omega)
        split
        · rename_i x hx
          refine ⟨?_, fun _ _ _ h => by cases h⟩
          intro hfu
          cases hfu
          exact g1 hx
        · rename_i m'' d' hx
          refine ⟨by simp, ?_⟩
          intro m' u d h
          cases h
          intro k
          rw [g2 m'' d' hx k, hp0]
          split
          · rename_i hk; rw [hk, hpk]
          · rfl
    · refine ⟨by simp, ?_⟩
      intro m' u d h
      cases h
      intro k
      rw [par_setSA]
      split
      · rename_i hk; rw [hk]; rfl
      · rfl
  · refine ⟨by simp, ?_⟩
    intro m' u d h
    cases h
    intro k; rfl

theorem stepR_good {song : Song} (hs : SongI16 song) {fuel : Nat} (ih : ATGood song fuel)
    {self : Int} {m : SAMap} {e : Event} (he : e.type = ev_JUMP ∨ e.type = ev_NOTE → I16 e.param)
    (hfree : freeCount song m ≤ fuel) (ld drum : Int) :
    stepR song fuel self m e ld drum ≠ .error .fuel ∧
    ∀ m' u d l, stepR song fuel self m e ld drum = .ok (m', u, d, l) → ∀ k, par m' k = par m k := by
  unfold stepR
  simp only
  split
  · rename_i hj
    obtain ⟨g1, g2⟩ := calleeR_good hs ih (self := self) (he (Or.inl hj)) hfree (usage0 e ld drum) drum drum true false
    split
    · rename_i x hx
      refine ⟨?_, fun _ _ _ _ h => by cases h⟩
      intro hfu; cases hfu; exact g1 hx
    · rename_i m' u d' hx
      refine ⟨by simp, ?_⟩
      intro m'' u' d l h
      cases h
      exact g2 _ _ _ hx
  split
  · rename_i hn
    obtain ⟨g1, g2⟩ := calleeR_good hs ih (self := self) (he (Or.inr hn.1)) hfree (usage0 e ld drum) drum 0 false true
    split
    · rename_i x hx
      refine ⟨?_, fun _ _ _ _ h => by cases h⟩
      intro hfu; cases hfu; exact g1 hx
    · rename_i m' u d' hx
      refine ⟨by simp, ?_⟩
      intro m'' u' d l h
      cases h
      exact g2 _ _ _ hx
  split
  · exact ⟨by simp, fun _ _ _ _ h => by cases h; intro k; rfl⟩
  split
  · exact ⟨by simp, fun _ _ _ _ h => by cases h; intro k; rfl⟩
  · exact ⟨by simp, fun _ _ _ _ h => by cases h; intro k; rfl⟩

theorem go_good {song : Song} (hs : SongI16 song) {fuel : Nat} (ih : ATGood song fuel) (self : Int) :
    ∀ (evs : List Event) (m : SAMap) (ld drum : Int), CallI16 evs → freeCount song m ≤ fuel →
    analyzeTrack.go song fuel self evs m ld drum ≠ .error .fuel ∧
    ∀ m'' d, analyzeTrack.go song fuel self evs m ld drum = .ok (m'', d) →
      ∀ k, par m'' k = if k = self then false else par m k := by
  intro evs
  induction evs with
  | nil =>
    intro m ld drum _ _
    rw [analyzeTrack.go.eq_1]
    refine ⟨by simp, ?_⟩
    intro m'' d h
    cases h
    intro k
    rw [par_setSA]
  | cons e rest ihl =>
    intro m ld drum hc hfree
    rw [go_cons]
    obtain ⟨g1, g2⟩ := stepR_good hs ih (self := self) (hc e List.mem_cons_self) hfree ld drum
    split
    · rename_i x hx
      refine ⟨?_, fun _ _ h => by cases h⟩
      intro hfu; cases hfu; exact g1 hx
    · rename_i m' usage drum' ld' hx
      have hp := g2 _ _ _ _ hx
      obtain ⟨mn, hmn⟩ : ∃ mn, mn = setSA m' self { getSA m' self with
          eventList := (getSA m' self).eventList ++ [wrap16 usage],
          maxUsage := if wrap16 usage > (getSA m' self).maxUsage then wrap16 usage else (getSA m' self).maxUsage } :=
        ⟨_, rfl⟩
      rw [← hmn]
      have hpn : ∀ k, par mn k = par m k := by
        intro k
        rw [hmn, par_setSA, ← hp]
        split
        · rename_i hk; rw [hk]; rfl
        · rfl
      obtain ⟨r1, r2⟩ := ihl mn ld' drum' (fun x hx => hc x (List.mem_cons_of_mem _ hx))
        (by rw [freeCount_congr song hpn]; exact hfree)
      refine ⟨r1, ?_⟩
      intro m'' d h k
      rw [r2 m'' d h k, hpn]

theorem analyzeTrack_good {song : Song} (hs : SongI16 song) : ∀ fuel, ATGood song fuel := by
  intro fuel
  induction fuel with
  | zero =>
    intro m self evs drum _ hf
    have := hf (setSA m self { getSA m self with parsing := true }) (fun k => by rw [par_setSA])
    omega
  | succ fuel ih =>
    intro m self evs drum hc hf
    rw [analyzeTrack.eq_2]
    obtain ⟨m1, hm1⟩ : ∃ m1, m1 = setSA m self { getSA m self with eventList := [], parsing := true } := ⟨_, rfl⟩
    have hp1 : ∀ k, par m1 k = if k = self then true else par m k := by
      intro k; rw [hm1, par_setSA]
    have e1 : setSA m self (have __src := getSA m self;
        { parsing := true, baseUsage := __src.baseUsage, maxUsage := __src.maxUsage }) = m1 := by rw [hm1]
    rw [e1]
    obtain ⟨g1, g2⟩ := go_good hs ih self evs m1 0 drum hc (by have := hf m1 hp1; omega)
    refine ⟨g1, ?_⟩
    intro m'' d h k
    rw [g2 m'' d h k, hp1]
    split <;> rfl

/-- **`analyze_track` never exhausts a budget above the number of tracks that are not being
parsed.** -/
theorem analyzeTrack_no_fuel {song : Song} (hs : SongI16 song) (m : SAMap) (self : Int) (evs : List Event)
    (drum : Int) (hc : CallI16 evs) (fuel : Nat) (hf : song.tracks.length + 1 ≤ fuel) :
    analyzeTrack song fuel m self evs drum ≠ .error .fuel :=
  (analyzeTrack_good hs fuel m self evs drum hc (fun m1 _ => by have := freeCount_le song m1; omega)).1

/-! ## `analyze_stack` -/

/-- the analyser-map part of the body of the first loop of `analyze_stack` (`analyzeStackStep`
without the vector `unused`, which does not influence the map) -/
def asBody (song : Song) (m : SAMap) (p : Nat × List Event) : Except OErr SAMap :=
  let key : Int := p.1
  let m := if m.any (·.1 == key) then m else m ++ [(key, {})]
  if (getSA m key).baseUsage = 0 then
    match analyzeTrack song (song.tracks.length + 2) m key p.2 0 with
    | .error x => .error x
    | .ok (m', _) => .ok m'
  else .ok m

theorem step_fst (song : Song) (st : SAMap × List Int) (p : Nat × List Event) :
    (analyzeStackStep song st p).map Prod.fst = asBody song st.1 p := by
  unfold analyzeStackStep asBody
  simp only
  generalize (if st.1.any (·.1 == (p.1 : Int)) then st.1 else st.1 ++ [((p.1 : Int), ({} : SA))]) = m0
  by_cases hb : (getSA m0 (p.1 : Int)).baseUsage = 0
  · rw [if_pos hb, if_pos hb]
    cases analyzeTrack song (song.tracks.length + 2) m0 (p.1 : Int) p.2 0 with
    | error x => rfl
    | ok r => rfl
  · rw [if_neg hb, if_neg hb]; rfl

theorem foldlM_step_fst (song : Song) : ∀ (l : List (Nat × List Event)) (st : SAMap × List Int),
    (l.foldlM (analyzeStackStep song) st).map Prod.fst = l.foldlM (asBody song) st.1 := by
  intro l
  induction l with
  | nil => intro st; rfl
  | cons a r ih =>
    intro st
    rw [List.foldlM_cons, List.foldlM_cons, ← step_fst]
    cases analyzeStackStep song st a with
    | error x => rfl
    | ok st' => exact ih st'

/-- `analyze_stack` = the first loop, then the marking of the unused macro tracks -/
theorem analyzeStack_error {song : Song} {x : OErr} (h : analyzeStack song = .error x) :
    song.tracks.foldlM (asBody song) [] = .error x := by
  rw [← foldlM_step_fst song song.tracks ([], [])]
  unfold analyzeStack at h
  split at h
  · rename_i y hy; cases h; rw [hy]; rfl
  · cases h

theorem analyzeStack_ok {song : Song} {m : SAMap} (h : analyzeStack song = .ok m) :
    ∃ m0 u, song.tracks.foldlM (analyzeStackStep song) ([], []) = .ok (m0, u) ∧
      song.tracks.foldlM (asBody song) [] = .ok m0 ∧ m = markUnused m0 u := by
  unfold analyzeStack at h
  split at h
  · cases h
  · rename_i m0 u hy
    cases h
    refine ⟨m0, u, hy, ?_, rfl⟩
    rw [← foldlM_step_fst song song.tracks ([], []), hy]; rfl

/-- the marking only touches `base_usage` -/
theorem getSA_markUnused (u : List Int) : ∀ (m : SAMap) (k : Int),
    getSA (markUnused m u) k = if k ∈ u then { getSA m k with baseUsage := unusedBase } else getSA m k := by
  induction u with
  | nil => intro m k; simp [markUnused]
  | cons id r ih =>
    intro m k
    have e : markUnused m (id :: r) = markUnused (setSA m id { getSA m id with baseUsage := unusedBase }) r := rfl
    rw [e, ih]
    by_cases hk : k = id
    · subst hk
      rw [getSA_setSA_same]
      simp
    · rw [getSA_setSA_ne _ _ _ _ hk]
      simp [hk]

theorem markUnused_parsing (m : SAMap) (u : List Int) (k : Int) : par (markUnused m u) k = par m k := by
  unfold par; rw [getSA_markUnused]; split <;> rfl

theorem markUnused_eventList (m : SAMap) (u : List Int) (k : Int) :
    (getSA (markUnused m u) k).eventList = (getSA m k).eventList := by
  rw [getSA_markUnused]; split <;> rfl

theorem markUnused_maxUsage (m : SAMap) (u : List Int) (k : Int) :
    (getSA (markUnused m u) k).maxUsage = (getSA m k).maxUsage := by
  rw [getSA_markUnused]; split <;> rfl

theorem foldlM_no_fuel {α β : Type} (f : β → α → Except OErr β) (P : β → Prop) :
    ∀ (l : List α) (b : β), P b → (∀ a ∈ l, ∀ b, P b → f b a ≠ .error .fuel ∧ ∀ b', f b a = .ok b' → P b') →
    l.foldlM f b ≠ .error .fuel := by
  intro l
  induction l with
  | nil => intro b _ _; simp [List.foldlM, pure, Except.pure]
  | cons a r ih =>
    intro b hb hstep
    rw [List.foldlM_cons]
    obtain ⟨h1, h2⟩ := hstep a List.mem_cons_self b hb
    cases hfa : f b a with
    | error x =>
      simp only [bind, Except.bind]
      intro h
      cases h
      exact h1 hfa
    | ok b' =>
      simp only [bind, Except.bind]
      exact ih b' (h2 b' hfa) (fun a ha => hstep a (List.mem_cons_of_mem _ ha))

/-- **`analyze_stack` never reports an exhausted recursion budget**: on every song whose call
parameters are `int16_t` values the recursion of `analyze_track` stays within `tracks.length + 2`
frames. -/
theorem analyzeStack_no_fuel {song : Song} (hs : SongI16 song) : analyzeStack song ≠ .error .fuel := by
  intro hfuel
  revert hfuel
  intro hfuel
  have hfuel := analyzeStack_error hfuel
  revert hfuel
  apply foldlM_no_fuel (asBody song) (fun m => ∀ k, par m k = false) song.tracks [] (fun k => rfl)
  intro p hp m hm
  unfold asBody
  simp only
  obtain ⟨m0, hm0⟩ : ∃ m0, m0 = (if m.any (·.1 == (p.1 : Int)) then m else m ++ [((p.1 : Int), ({} : SA))]) := ⟨_, rfl⟩
  rw [← hm0]
  have hp0 : ∀ k, par m0 k = false := by
    intro k
    rw [hm0]
    split
    · exact hm k
    · rename_i hany
      unfold par getSA
      by_cases hk : k = (p.1 : Int)
      · rw [hk, lookup_snoc_new m _ _ (Bool.eq_false_iff.2 hany)]; rfl
      · rw [lookup_snoc_ne m _ _ k hk]; exact hm k
  split
  · obtain ⟨g1, g2⟩ := analyzeTrack_good hs (song.tracks.length + 2) m0 (p.1 : Int) p.2 0 (hs p hp)
      (fun m1 _ => by have := freeCount_le song m1; omega)
    split
    · rename_i x hx
      refine ⟨?_, fun _ h => by cases h⟩
      intro hfu; cases hfu; exact g1 hx
    · rename_i m' d hx
      refine ⟨by simp, ?_⟩
      intro b' hb'
      cases hb'
      intro k
      rw [g2 m' d hx k, hp0]; simp
  · refine ⟨by simp, ?_⟩
    intro b' hb'
    cases hb'
    exact hp0

end Ctrmml.OptSteps
