/-
  Helper lemmas for C07: the per-update theorem for slurred FM notes composed over the whole
  export of a song with one channel track.  The slur flag and the "instrument change pending"
  flag of the channel before update `k` are read off the driver state (`slurOf`, `insOf`); the
  theorem gives their evolution from update to update together with the key writes.
-/
import Ctrmml.Proofs.MdSched
import Ctrmml.Proofs.MdSlur
import Ctrmml.Proofs.TickTimes
namespace Ctrmml.MdDriver
open Ctrmml Player PlayerCh Tables TickStream

section
variable (d : Data) (song : Song) (root : List Event)

/-- `single_update` with the channel before and after the update exposed -/
theorem single_update_ch (id : Nat) (hsingle : SingleTrack song id root)
    (cEnd : Core) (B : Nat) (hend : EndOK song root cEnd) (hB : 2 * B + 2 ≤ settleFuel)
    (CI : Ch → Prop) (hreset : ∀ c, CI c → CI (resetLoopCh c)) (P : Ch → List (List Event) → Ch → List Wr → Prop)
    (hupd : ∀ n g c s' ws, CI c → g.err = none → ctRun song root n ⟨c.ps.core, c.ps.acc⟩ = some (s', ws) →
      (chUpdate d song n g c).1.err.isSome = true ∨
        ((chUpdate d song n g c).2.1.ps.core = s'.core ∧ (chUpdate d song n g c).2.1.ps.acc = s'.acc ∧ CI (chUpdate d song n g c).2.1 ∧
          P c ws (chUpdate d song n g c).2.1 (chUpdate d song n g c).2.2))
    (hinit : CI (mkCh d id root).1) (m0 : LX)
    (hrel0 : RelX song root cEnd B ⟨(mkCh d id root).1.ps.core, (mkCh d id root).1.ps.acc⟩ m0)
    (k : Nat) (herr : ∀ j, j ≤ k + 1 → (updRun d song j (playSong d song).1).g.err = none) :
    ∃ c, (updRun d song k (playSong d song).1).chans = [c] ∧ CI c ∧
      ((lxAfter (updRun d song k (playSong d song).1).ticks m0).enabled = true →
        ∃ c1, P c (lxRun (updTicks d song (playSong d song).1 k) (lxAfter (updRun d song k (playSong d song).1).ticks m0)) c1
            (updWrs d song (playSong d song).1 k) ∧
          ((updRun d song (k + 1) (playSong d song).1).chans = [c1] ∨
           (updRun d song (k + 1) (playSong d song).1).chans = [resetLoopCh c1])) ∧
      ((lxAfter (updRun d song k (playSong d song).1).ticks m0).enabled = false →
        updWrs d song (playSong d song).1 k = [] ∧
          ((updRun d song (k + 1) (playSong d song).1).chans = [c] ∨
           (updRun d song (k + 1) (playSong d song).1).chans = [resetLoopCh c])) := by
  obtain ⟨c, hc, hci, hrel⟩ := single_inv d song root id hsingle cEnd B hend hB CI hreset
    (fun n g c s' ws a b cc => by
      rcases hupd n g c s' ws a b cc with h | ⟨h1, h2, h3, _⟩
      · exact Or.inl h
      · exact Or.inr ⟨h1, h2, h3⟩) hinit m0 hrel0 k (fun j hj => herr j (by omega))
  refine ⟨c, hc, hci, ?_⟩
  obtain ⟨s0, hs0⟩ : ∃ s0, s0 = (playSong d song).1 := ⟨_, rfl⟩
  rw [← hs0] at hc hrel herr ⊢
  obtain ⟨s, hs⟩ : ∃ s, s = updRun d song k s0 := ⟨_, rfl⟩
  have hg : s.g.err = none := by rw [hs]; exact herr k (by omega)
  have hg' : (updStep d song s).1.g.err = none := by rw [hs]; exact herr (k + 1) (Nat.le_refl _)
  have hw0 : updWrs d song s0 k = (seqUpdate d song s).2 := by rw [hs]; rfl
  have hnn : updTicks d song s0 k = (tempoStep s.tempoCounter s.g.tempoDelta).1 := by rw [hs]; rfl
  have hnext : (updRun d song (k + 1) s0).chans = (stepLoop (seqUpdate d song s).1).1.chans := by rw [hs]; rfl
  rw [hnext]
  rw [← hs] at hc hrel ⊢
  obtain ⟨n, hn⟩ : ∃ n, n = updTicks d song s0 k := ⟨_, rfl⟩
  rw [← hn]
  have hn' : n = (tempoStep s.tempoCounter s.g.tempoDelta).1 := by rw [hn, hnn]
  have hseq : (seqUpdate d song s).2 = (updateAll d song n s.g [c]).2.2 ∧
      (seqUpdate d song s).1.g = (updateAll d song n s.g [c]).1 ∧
      (seqUpdate d song s).1.chans = (updateAll d song n s.g [c]).2.1 := by
    simp [seqUpdate, hc, hn']
  have hg1 : (updateAll d song n s.g [c]).1.err = none := by
    rw [← hseq.2.1, ← (stepLoop_g _).1]; exact hg'
  have hen : c.enabled = (lxAfter s.ticks m0).enabled := hrel.1
  have hch := stepLoop_chans (seqUpdate d song s).1
  rw [hseq.2.2] at hch
  rw [hw0, hseq.1]
  rw [updateAll_single] at hg1 hch ⊢
  constructor
  · intro h
    rw [← hen] at h
    rw [if_pos h] at hg1 hch ⊢
    obtain ⟨s', hrun, _⟩ := lx_sim_run song root cEnd B hend hB n _ _ hrel
    rcases hupd n s.g c s' _ hci hg hrun with he | ⟨_, _, _, u4⟩
    · simp only at hg1; rw [hg1] at he; cases he
    · exact ⟨_, u4, hch⟩
  · intro h
    rw [← hen] at h
    have : ¬ c.enabled = true := by rw [h]; simp
    rw [if_neg this] at hch ⊢
    exact ⟨rfl, hch⟩

end

/-- the slur flag / the "instrument change pending" flag of the one channel of the driver -/
def slurOf (s : Drv) : Bool := match s.chans with | [c] => c.slur | _ => false
def insOf (s : Drv) : Bool := match s.chans with | [c] => c.flag ev_INS | _ => false

/-- the key-register writes `ks` of one update of an FM channel whose track may hold slurs, for an
update that plays the ticks `T … T'−1` of the list machine `m0`; `sl` / `sl'` = the channel's slur
flag before / after the update, `ins` = an instrument change is pending before it -/
structure SlurSched (b i : Nat) (m0 : LX) (T T' : Nat) (sl sl' ins : Bool) (ks : List Nat) : Prop where
  own : ∀ x ∈ ks, x = koff b i ∨ x = kon b i
  /-- no key-on in an update that starts slurred or reads a `SLUR` -/
  noOn : kon b i ∈ ks → sl = false ∧ ¬ DeliveredIn m0 T T' (fun e => e.type = ev_SLUR) ∧
    DeliveredIn m0 T T' (fun e => e.type = ev_NOTE ∨ e.type = ev_TIE)
  on : DeliveredIn m0 T T' (fun e => e.type = ev_NOTE) → sl = false → ¬ DeliveredIn m0 T T' (fun e => e.type = ev_SLUR) →
    ks.getLast? = some (kon b i) ∧ koff b i ∈ ks
  offIf : DeliveredIn m0 T T' (fun e => e.type = ev_REST ∨ e.type = ev_END) → koff b i ∈ ks
  /-- a slurred note writes no key-off (unless an instrument is loaded at it) -/
  offOnly : koff b i ∈ ks → DeliveredIn m0 T T' (fun e => e.type = ev_TIE ∨ e.type = ev_REST ∨ e.type = ev_END) ∨
    (DeliveredIn m0 T T' (fun e => e.type = ev_NOTE) ∧
      (sl = false ∨ ins = true ∨ DeliveredIn m0 T T' (fun e => e.type = ev_INS)))
  nextNote : DeliveredIn m0 T T' (fun e => e.type = ev_NOTE) → sl' = false
  nextKeep : ¬ DeliveredIn m0 T T' (fun e => e.type = ev_NOTE ∨ e.type = ev_TIE) →
    (DeliveredIn m0 T T' (fun e => e.type = ev_SLUR) → sl' = true) ∧
    (¬ DeliveredIn m0 T T' (fun e => e.type = ev_SLUR) → sl' = sl)

theorem slurIn_false_iff (c : Ch) (evs : List Event) :
    slurIn c evs = false ↔ c.slur = false ∧ ¬ ∃ e ∈ evs, e.type = ev_SLUR := by
  simp only [slurIn, Bool.or_eq_false_iff, List.any_eq_false, beq_iff_eq]
  constructor
  · rintro ⟨h1, h2⟩; exact ⟨h1, fun ⟨e, he, ht⟩ => h2 e he ht⟩
  · rintro ⟨h1, h2⟩; exact ⟨h1, fun e he ht => h2 ⟨e, he, ht⟩⟩

section
variable (d : Data) (song : Song) (root : List Event)

/-- **The key register of the one FM channel, update by update, slurs allowed.** -/
theorem single_fm_slur_keys (id : Nat) (hid : id < 6) (hsingle : SingleTrack song id root)
    (cEnd : Core) (B : Nat) (hend : EndOK song root cEnd) (hB : 2 * B + 2 ≤ settleFuel)
    (hpl : PlainHooks song root) (m0 : LX)
    (hrel0 : RelX song root cEnd B ⟨⟨.root, 0, []⟩, {}⟩ m0)
    (k : Nat) (herr : ∀ j, j ≤ k + 1 → (updRun d song j (playSong d song).1).g.err = none) :
    SlurSched (id / 3) (id % 3) m0 (updRun d song k (playSong d song).1).ticks
      (updRun d song (k + 1) (playSong d song).1).ticks
      (slurOf (updRun d song k (playSong d song).1)) (slurOf (updRun d song (k + 1) (playSong d song).1))
      (insOf (updRun d song k (playSong d song).1)) (keysV (updOps d song (playSong d song).1 k)) := by
  have hcid : id % 3 < 3 := Nat.mod_lt _ (by decide)
  have hbank : id / 3 < 2 := by omega
  have hmk : (mkCh d id root).1.kind = .fm (id / 3) (id % 3) ∧ (mkCh d id root).1.root = root ∧
      (mkCh d id root).1.ps.err = none ∧ (mkCh d id root).1.keyOn = false ∧
      (mkCh d id root).1.ps.core = ⟨.root, 0, []⟩ ∧ (mkCh d id root).1.ps.acc = {} ∧ drumOff (mkCh d id root).1.ps.ch := by
    have hd : drumOff
        ({ trackState := ((List.replicate ev_CHANNEL_CMD_COUNT (0 : Int)).set (chIdx ev_VOL_FINE) md_initial_vol).set
            (chIdx ev_PAN) md_initial_pan, mask := [VOL_BIT] } : Chan) := by
      unfold drumOff; decide
    unfold mkCh
    rw [if_pos hid]
    exact ⟨rfl, rfl, rfl, rfl, rfl, rfl, hd⟩
  obtain ⟨b, hbdef⟩ : ∃ b, b = id / 3 := ⟨_, rfl⟩
  obtain ⟨i, hidef⟩ : ∃ i, i = id % 3 := ⟨_, rfl⟩
  rw [← hbdef] at hmk hbank ⊢
  rw [← hidef] at hmk hcid ⊢
  obtain ⟨P, hP⟩ : ∃ P : Ch → List (List Event) → Ch → List Wr → Prop, P = fun c ws c1 wrs =>
      (∀ x ∈ keys wrs, x = koff b i ∨ x = kon b i) ∧
      (kon b i ∈ keys wrs → slurIn c ws.flatten = false ∧ ∃ e ∈ ws.flatten, e.type = ev_NOTE ∨ e.type = ev_TIE) ∧
      ((∃ e ∈ ws.flatten, e.type = ev_NOTE) → slurIn c ws.flatten = false →
        (keys wrs).getLast? = some (kon b i) ∧ koff b i ∈ keys wrs) ∧
      ((∃ e ∈ ws.flatten, e.type = ev_REST ∨ e.type = ev_END) → koff b i ∈ keys wrs) ∧
      (koff b i ∈ keys wrs → ∃ e ∈ ws.flatten, e.type = ev_TIE ∨ e.type = ev_REST ∨ e.type = ev_END ∨
        (e.type = ev_NOTE ∧ (c.slur = false ∨ c.flag ev_INS = true ∨ ∃ e' ∈ ws.flatten, e'.type = ev_INS))) ∧
      ((∃ e ∈ ws.flatten, e.type = ev_NOTE) → c1.slur = false) ∧
      ((¬ ∃ e ∈ ws.flatten, e.type = ev_NOTE ∨ e.type = ev_TIE) → c1.slur = slurIn c ws.flatten) := ⟨_, rfl⟩
  obtain ⟨c, hc, hci, hen1, hen0⟩ := single_update_ch d song root id hsingle cEnd B hend hB
    (fun c => Base root c ∧ c.kind = .fm b i ∧ c.keyOn = false)
    (fun c hc => by
      obtain ⟨r1, r2, r3, r4, r5, r6, r7, _⟩ := resetLoopCh_same c
      exact ⟨⟨r2.trans hc.1.root, r4.trans hc.1.err, by rw [r5]; exact hc.1.drum⟩, r1.trans hc.2.1, r7.trans hc.2.2⟩)
    P
    (fun n g c s' ws hc hg hrun => by
      rcases chUpdate_slur_keys d song root hpl b i hcid hbank n g c hc.1 hc.2.1 hg hc.2.2 s' ws hrun with h | h
      · exact Or.inl h
      · obtain ⟨a1, a2, a3, a4, a5, a6, a7, a8, a9, a10, a11, a12⟩ := h
        refine Or.inr ⟨a1, a2, ⟨a3, a4, a5⟩, ?_⟩
        rw [hP]; exact ⟨a6, a7, a8, a9, a10, a11, a12⟩)
    ⟨⟨hmk.2.1, hmk.2.2.1, hmk.2.2.2.2.2.2⟩, hmk.1, hmk.2.2.2.1⟩ m0
    (by rw [hmk.2.2.2.2.1, hmk.2.2.2.2.2.1]; exact hrel0) k herr
  obtain ⟨s0, hs0⟩ : ∃ s0, s0 = (playSong d song).1 := ⟨_, rfl⟩
  rw [← hs0] at hc hen1 hen0 herr ⊢
  have hT := (updRun_ticks d song s0 k).1
  rw [hT]
  have hkv : keysV (updOps d song s0 k) = keys (updWrs d song s0 k) := by
    rw [updOps_eq, keysV_append, keysV_toOps, keysV_updMark, List.append_nil]
  rw [hkv]
  have hsl : slurOf (updRun d song k s0) = c.slur := by simp [slurOf, hc]
  have hins : insOf (updRun d song k s0) = c.flag ev_INS := by simp [insOf, hc]
  rw [hsl, hins]
  -- the facts, for an enabled and for a stopped channel
  obtain ⟨evs, hevs⟩ : ∃ evs, evs = (lxRun (updTicks d song s0 k) (lxAfter (updRun d song k s0).ticks m0)).flatten := ⟨_, rfl⟩
  have hD : ∀ p : Event → Prop, DeliveredIn m0 (updRun d song k s0).ticks ((updRun d song k s0).ticks + updTicks d song s0 k) p ↔
      ∃ e ∈ evs, p e := by
    intro p; rw [hevs]; exact deliveredIn_iff _ _ _ _
  have hfacts : ∃ c1 : Ch, slurOf (updRun d song (k + 1) s0) = c1.slur ∧
      P c (lxRun (updTicks d song s0 k) (lxAfter (updRun d song k s0).ticks m0)) c1 (updWrs d song s0 k) := by
    cases hen : (lxAfter (updRun d song k s0).ticks m0).enabled with
    | true =>
      obtain ⟨c1, hp, hch⟩ := hen1 hen
      refine ⟨c1, ?_, hp⟩
      rcases hch with h | h
      · simp [slurOf, h]
      · simp [slurOf, h, (resetLoopCh_same c1).2.2.2.2.2.1]
    | false =>
      obtain ⟨hw, hch⟩ := hen0 hen
      refine ⟨c, ?_, ?_⟩
      · rcases hch with h | h
        · simp [slurOf, h]
        · simp [slurOf, h, (resetLoopCh_same c).2.2.2.2.2.1]
      · rw [hw, hP]
        have hnil := lxRun_disabled (updTicks d song s0 k) _ hen
        simp [hnil, slurIn]
  obtain ⟨c1, hsl1, hp⟩ := hfacts
  rw [hsl1]
  rw [hP] at hp
  rw [← hevs] at hp
  obtain ⟨f1, f2, f3, f4, f5, f6, f7⟩ := hp
  have hS := slurIn_false_iff c evs
  refine ⟨f1, ?_, ?_, ?_, ?_, ?_, ?_⟩
  · intro h
    obtain ⟨q1, q2⟩ := f2 h
    obtain ⟨r1, r2⟩ := hS.mp q1
    exact ⟨r1, fun hh => r2 ((hD _).mp hh), (hD _).mpr q2⟩
  · intro hN hs hns
    exact f3 ((hD _).mp hN) (hS.mpr ⟨hs, fun hh => hns ((hD _).mpr hh)⟩)
  · intro h; exact f4 ((hD _).mp h)
  · intro h
    obtain ⟨e, he, ht⟩ := f5 h
    rcases ht with t | t | t | ⟨t, hh⟩
    · exact Or.inl ((hD _).mpr ⟨e, he, Or.inl t⟩)
    · exact Or.inl ((hD _).mpr ⟨e, he, Or.inr (Or.inl t)⟩)
    · exact Or.inl ((hD _).mpr ⟨e, he, Or.inr (Or.inr t)⟩)
    · refine Or.inr ⟨(hD _).mpr ⟨e, he, t⟩, ?_⟩
      rcases hh with a | a | a
      · exact Or.inl a
      · exact Or.inr (Or.inl a)
      · exact Or.inr (Or.inr ((hD _).mpr a))
  · intro h; exact f6 ((hD _).mp h)
  · intro hno
    have hno' : ¬ ∃ e ∈ evs, e.type = ev_NOTE ∨ e.type = ev_TIE := fun hh => hno ((hD _).mpr hh)
    have h7 := f7 hno'
    constructor
    · intro hsl
      rw [h7]
      obtain ⟨e, he, ht⟩ := (hD _).mp hsl
      simp only [slurIn, Bool.or_eq_true, List.any_eq_true, beq_iff_eq]
      exact Or.inr ⟨e, he, ht⟩
    · intro hns
      rw [h7]
      cases hcs : c.slur with
      | true => simp [slurIn, hcs]
      | false => exact hS.mpr ⟨hcs, fun hh => hns ((hD _).mpr hh)⟩

theorem resetLoopCh_env (c : Ch) : (resetLoopCh c).envData = c.envData ∧ (resetLoopCh c).envPos = c.envPos ∧
    (resetLoopCh c).envDelay = c.envDelay ∧ (resetLoopCh c).coarse = c.coarse ∧
    (resetLoopCh c).var ev_VOL_FINE = c.var ev_VOL_FINE ∧ (resetLoopCh c).enabled = c.enabled := by
  unfold resetLoopCh
  simp only
  split <;> exact ⟨rfl, rfl, rfl, rfl, rfl, rfl⟩

/-- **The attenuation of the one PSG melody channel, update by update.** -/
theorem single_psg (id : Nat) (hid6 : 6 ≤ id) (hid9 : id < 9) (hsingle : SingleTrack song id root)
    (cEnd : Core) (B : Nat) (hend : EndOK song root cEnd) (hB : 2 * B + 2 ≤ settleFuel)
    (hpl : PlainHooks song root) (m0 : LX)
    (hrel0 : RelX song root cEnd B ⟨⟨.root, 0, []⟩, {}⟩ m0)
    (k : Nat) (herr : ∀ j, j ≤ k + 1 → (updRun d song j (playSong d song).1).g.err = none) :
    ∃ c', (updRun d song (k + 1) (playSong d song).1).chans = [c'] ∧
      (DeliveredIn m0 (updRun d song k (playSong d song).1).ticks (updRun d song (k + 1) (playSong d song).1).ticks
          (fun e => e.type = ev_NOTE) →
        slurOf (updRun d song k (playSong d song).1) = false →
        ¬ DeliveredIn m0 (updRun d song k (playSong d song).1).ticks (updRun d song (k + 1) (playSong d song).1).ticks
          (fun e => e.type = ev_SLUR) →
        (lxAfter (updRun d song (k + 1) (playSong d song).1).ticks m0).enabled = true →
        ∀ d0, c'.envData[0]? = some d0 → d0 > 0x0f →
          (atts (id - 6) (updWrs d song (playSong d song).1 k)).getLast? =
            some (psgAtt c'.coarse (c'.var ev_VOL_FINE) d0 % 16) ∧ c'.envPos = 1 ∧ c'.envDelay = d0) ∧
      ((lxAfter (updRun d song k (playSong d song).1).ticks m0).enabled = true →
        (lxAfter (updRun d song (k + 1) (playSong d song).1).ticks m0).enabled = false →
        (atts (id - 6) (updWrs d song (playSong d song).1 k)).getLast? = some 15) := by
  obtain ⟨i, hidef⟩ : ∃ i, i = id - 6 := ⟨_, rfl⟩
  have hi : i < 3 := by omega
  rw [← hidef]
  have hmk : (mkCh d id root).1.kind = .psg i ∧ (mkCh d id root).1.root = root ∧
      (mkCh d id root).1.ps.err = none ∧ (mkCh d id root).1.keyOn = false ∧
      (mkCh d id root).1.ps.core = ⟨.root, 0, []⟩ ∧ (mkCh d id root).1.ps.acc = {} ∧ drumOff (mkCh d id root).1.ps.ch := by
    have hd : drumOff
        ({ trackState := ((List.replicate ev_CHANNEL_CMD_COUNT (0 : Int)).set (chIdx ev_VOL_FINE) md_initial_vol).set
            (chIdx ev_PAN) md_initial_pan, mask := [VOL_BIT] } : Chan) := by
      unfold drumOff; decide
    have h6 : ¬ id < 6 := by omega
    have hmod : (id - 6) % 4 = i := by omega
    unfold mkCh
    rw [if_neg h6, if_pos hid9]
    exact ⟨by simp [hmod], rfl, rfl, rfl, rfl, rfl, hd⟩
  obtain ⟨P, hP⟩ : ∃ P : Ch → List (List Event) → Ch → List Wr → Prop, P = fun c ws c1 wrs =>
      ((∃ e ∈ ws.flatten, e.type = ev_NOTE) → slurIn c ws.flatten = false → c1.enabled = true →
        ∀ d0, c1.envData[0]? = some d0 → d0 > 0x0f →
          (atts i wrs).getLast? = some (psgAtt c1.coarse (c1.var ev_VOL_FINE) d0 % 16) ∧ c1.envPos = 1 ∧ c1.envDelay = d0) ∧
      (∀ e, ws.flatten.getLast? = some e → e.type = ev_END → c1.enabled = false → (atts i wrs).getLast? = some 15) := ⟨_, rfl⟩
  have hCIr : ∀ c, (Base root c ∧ c.kind = .psg i ∧ c.keyOn = false) → (Base root (resetLoopCh c) ∧ (resetLoopCh c).kind = .psg i ∧ (resetLoopCh c).keyOn = false) := by
    intro c hc
    obtain ⟨r1, r2, r3, r4, r5, r6, r7, _⟩ := resetLoopCh_same c
    exact ⟨⟨r2.trans hc.1.root, r4.trans hc.1.err, by rw [r5]; exact hc.1.drum⟩, r1.trans hc.2.1, r7.trans hc.2.2⟩
  have hCIu : ∀ n g c s' ws, (Base root c ∧ c.kind = .psg i ∧ c.keyOn = false) → g.err = none →
      ctRun song root n ⟨c.ps.core, c.ps.acc⟩ = some (s', ws) →
      (chUpdate d song n g c).1.err.isSome = true ∨
        ((chUpdate d song n g c).2.1.ps.core = s'.core ∧ (chUpdate d song n g c).2.1.ps.acc = s'.acc ∧
          (Base root (chUpdate d song n g c).2.1 ∧ (chUpdate d song n g c).2.1.kind = .psg i ∧ (chUpdate d song n g c).2.1.keyOn = false) ∧
          P c ws (chUpdate d song n g c).2.1 (chUpdate d song n g c).2.2) := by
    intro n g c s' ws hc hg hrun
    rcases chUpdate_psg d song root hpl i hi n g c hc.1 hc.2.1 hg hc.2.2 s' ws hrun with h | ⟨a1, a2, a3, a4, a5, a6⟩
    · exact Or.inl h
    · have hen : (chUpdate d song n g c).2.1.enabled = s'.acc.enabled := by
        show (chUpdate d song n g c).2.1.ps.acc.enabled = _; rw [a2]
      rcases chUpdate_keyOn_false d song n g c with h | hko
      · exact Or.inl h
      refine Or.inr ⟨a1, a2, ⟨a3, a4, hko⟩, ?_⟩
      rw [hP]
      exact ⟨fun h1 h2 h3 d0 h4 h5 => by
          obtain ⟨q1, q2, q3, _, _⟩ := a5 h1 h2 (hen ▸ h3) d0 h4 h5
          exact ⟨q1, q2, q3⟩,
        fun e h1 h2 h3 => a6 e h1 h2 (hen ▸ h3)⟩
  have hinit : Base root (mkCh d id root).1 ∧ (mkCh d id root).1.kind = .psg i ∧ (mkCh d id root).1.keyOn = false :=
    ⟨⟨hmk.2.1, hmk.2.2.1, hmk.2.2.2.2.2.2⟩, hmk.1, hmk.2.2.2.1⟩
  have hrel0' : RelX song root cEnd B ⟨(mkCh d id root).1.ps.core, (mkCh d id root).1.ps.acc⟩ m0 := by
    rw [hmk.2.2.2.2.1, hmk.2.2.2.2.2.1]; exact hrel0
  obtain ⟨c, hc, hci, hen1, hen0⟩ := single_update_ch d song root id hsingle cEnd B hend hB
    (fun c => Base root c ∧ c.kind = .psg i ∧ c.keyOn = false) hCIr P hCIu hinit m0 hrel0' k herr
  -- the channel after the update, related to the machine
  obtain ⟨c', hc', _, hrel'⟩ := single_inv d song root id hsingle cEnd B hend hB
    (fun c => Base root c ∧ c.kind = .psg i ∧ c.keyOn = false) hCIr
    (fun n g c s' ws a b cc => by
      rcases hCIu n g c s' ws a b cc with h | ⟨h1, h2, h3, _⟩
      · exact Or.inl h
      · exact Or.inr ⟨h1, h2, h3⟩) hinit m0 hrel0' (k + 1) herr
  have hen' : c'.enabled = (lxAfter (updRun d song (k + 1) (playSong d song).1).ticks m0).enabled := hrel'.1
  obtain ⟨s0, hs0⟩ : ∃ s0, s0 = (playSong d song).1 := ⟨_, rfl⟩
  rw [← hs0] at hc hen1 hen0 herr hc' hen' ⊢
  refine ⟨c', hc', ?_, ?_⟩
  · intro hN hsl hns hen d0 h0 hd0
    have hT := (updRun_ticks d song s0 k).1
    rw [hT] at hN hns
    have hN' := (deliveredIn_iff _ _ _ _).mp hN
    have hns' : ¬ ∃ e ∈ (lxRun (updTicks d song s0 k) (lxAfter (updRun d song k s0).ticks m0)).flatten, e.type = ev_SLUR :=
      fun hh => hns ((deliveredIn_iff _ _ _ _).mpr hh)
    have hsl' : c.slur = false := by simpa [slurOf, hc] using hsl
    cases hek : (lxAfter (updRun d song k s0).ticks m0).enabled with
    | false =>
      exfalso
      obtain ⟨e, he, _⟩ := hN'
      rw [lxRun_disabled _ _ hek] at he; cases he
    | true =>
      obtain ⟨c1, hp, hch⟩ := hen1 hek
      rw [hP] at hp
      have hc1 : c'.envData = c1.envData ∧ c'.envPos = c1.envPos ∧ c'.envDelay = c1.envDelay ∧ c'.coarse = c1.coarse ∧
          c'.var ev_VOL_FINE = c1.var ev_VOL_FINE ∧ c'.enabled = c1.enabled := by
        rcases hch with h | h
        · rw [hc'] at h
          simp only [List.cons.injEq, and_true] at h
          rw [h]; exact ⟨rfl, rfl, rfl, rfl, rfl, rfl⟩
        · rw [hc'] at h
          simp only [List.cons.injEq, and_true] at h
          rw [h]; exact resetLoopCh_env c1
      obtain ⟨e1, e2, e3, e4, e5, e6⟩ := hc1
      rw [e1] at h0
      obtain ⟨q1, q2, q3⟩ := hp.1 hN' ((slurIn_false_iff c _).mpr ⟨hsl', hns'⟩) (by rw [← e6, hen']; exact hen) d0 h0 hd0
      rw [e4, e5, e2, e3]
      exact ⟨q1, q2, q3⟩
  · intro hek hdis
    obtain ⟨c1, hp, hch⟩ := hen1 hek
    rw [hP] at hp
    have he6 : c'.enabled = c1.enabled := by
      rcases hch with h | h
      · rw [hc'] at h
        simp only [List.cons.injEq, and_true] at h
        rw [h]
      · rw [hc'] at h
        simp only [List.cons.injEq, and_true] at h
        rw [h]; exact (resetLoopCh_env c1).2.2.2.2.2
    have hT := (updRun_ticks d song s0 k).1
    rw [hT, lxAfter_add] at hdis
    have hlast := lxRun_stop_last (updTicks d song s0 k) _ hek hdis
    exact hp.2 endEvent hlast (by decide) (by rw [← he6, hen', hT, lxAfter_add]; exact hdis)

end

end Ctrmml.MdDriver
