/-
  Helper lemmas for C08 at song level: every operation `Platform::vgm_export` + `MD_Driver`
  (Model/MdDriver.lean) perform on the `VGM_Writer` is an exporter operation in the sense of
  Proofs/Vgm.lean (`XOp`): PSG / YM2612 writes on ports 0 and 1, delays, loop points, one
  type-0 data block, the DAC stream setup, and stream start / stop commands whose windows lie
  inside that block when the wave bank's sample headers do.  No property statements here.
-/
import Ctrmml.Proofs.MdDriver
import Ctrmml.Proofs.VgmInv
import Ctrmml.Proofs.VgmPcm
import Ctrmml.Proofs.Wave
import Ctrmml.Proofs.WaveReader
namespace Ctrmml.MdDriver
open Ctrmml Player PlayerCh Tables

/-- length of the data block `play_song` writes: the used part of the wave rom -/
def used (d : Data) : Nat := d.bank.rom.length - d.bank.freeBytes

/-- the data block `play_song` writes -/
def pcmBlock (d : Data) : Bytes := d.bank.rom.take (used d)

theorem pcmBlock_length (d : Data) : (pcmBlock d).length = used d := by
  unfold pcmBlock used
  rw [List.length_take]
  omega

/-- FM channels live on port 0 or 1 -/
def KindOK : Kind → Prop
  | .fm bank _ => bank ≤ 1
  | _ => True

/-- `s` is the sample header of a PCM instrument of the song: `wave_map` sends a PCM instrument
id to it -/
def IsPcmSample (d : Data) (s : Wave.Sample) : Prop :=
  ∃ ins, (d.get ins).type = mdsdrv_INS_PCM ∧ d.bank.samples[(d.waveMap.lookup ins).getD 0]? = some s

/-- a channel write is a PSG write or a YM2612 write on port 0/1, and a stream start that rides
on it plays the window of a PCM instrument's sample header at that sample's rate -/
def WrOK (d : Data) (w : Wr) : Prop :=
  ((w.cmd = 0x50 ∧ w.port = 0 ∧ w.reg = 0) ∨ (w.cmd = 0x52 ∧ w.port ≤ 1)) ∧
  (∀ p l r, w.dac = .start p l r →
    ∃ s, IsPcmSample d s ∧ p = Wave.u32 (s.position + s.start) ∧ l = s.size ∧ r = s.rate)

def AllOK (d : Data) (o : List Wr) : Prop := ∀ w ∈ o, WrOK d w

theorem AllOK.nil (d : Data) : AllOK d [] := by intro w hw; cases hw

theorem AllOK.append {d : Data} {a b : List Wr} (ha : AllOK d a) (hb : AllOK d b) : AllOK d (a ++ b) := by
  intro w hw
  rcases List.mem_append.mp hw with h | h
  · exact ha w h
  · exact hb w h

theorem ymW_ok (d : Data) (bank reg ch op data : Nat) (hb : bank ≤ 1) : AllOK d (ymW bank reg ch op data) := by
  intro w hw
  unfold ymW at hw
  split at hw
  · simp at hw; subst hw; exact ⟨Or.inr ⟨rfl, by simp⟩, by intro p l r h; cases h⟩
  · split at hw
    · simp at hw; subst hw; exact ⟨Or.inr ⟨rfl, hb⟩, by intro p l r h; cases h⟩
    · split at hw
      · simp at hw
        rcases hw with rfl | rfl <;> exact ⟨Or.inr ⟨rfl, hb⟩, by intro p l r h; cases h⟩
      · split at hw
        · simp at hw; subst hw; exact ⟨Or.inr ⟨rfl, hb⟩, by intro p l r h; cases h⟩
        · simp at hw; subst hw; exact ⟨Or.inr ⟨rfl, by simp⟩, by intro p l r h; cases h⟩

theorem snW_ok (d : Data) (reg ch data : Nat) : AllOK d (snW reg ch data) := by
  intro w hw
  unfold snW at hw
  split at hw
  · simp only [List.mem_append, List.mem_singleton] at hw
    rcases hw with rfl | hw
    · exact ⟨Or.inl ⟨rfl, rfl, rfl⟩, by intro p l r h; cases h⟩
    · split at hw
      · simp at hw; subst hw; exact ⟨Or.inl ⟨rfl, rfl, rfl⟩, by intro p l r h; cases h⟩
      · cases hw
  · split at hw
    · simp at hw; subst hw; exact ⟨Or.inl ⟨rfl, rfl, rfl⟩, by intro p l r h; cases h⟩
    · cases hw

/-! ### channel functions: the kind never changes, the writes are admissible -/

theorem mkCh_ok (d : Data) (id : Nat) (root : List Event) :
    KindOK (mkCh d id root).1.kind ∧ AllOK d (mkCh d id root).2 := by
  unfold mkCh
  simp only
  split
  · rename_i h
    have hb : id / 3 ≤ 1 := by omega
    refine ⟨hb, ?_⟩
    repeat (first | apply AllOK.append | exact ymW_ok d _ _ _ _ _ hb)
  · split
    · exact ⟨trivial, by dsimp only; exact snW_ok d _ _ _⟩
    · split
      · exact ⟨trivial, by dsimp only; exact snW_ok d _ _ _⟩
      · exact ⟨trivial, AllOK.nil d⟩

theorem vSetVol_ok (d : Data) (c : Ch) (hk : KindOK c.kind) : AllOK d (vSetVol c) := by
  unfold vSetVol
  cases h : c.kind with
  | fm bank id =>
    rw [h] at hk
    simp only
    intro w hw
    obtain ⟨op, _, hw⟩ := List.mem_flatMap.mp hw
    exact ymW_ok d _ _ _ _ _ hk w hw
  | psg id => exact snW_ok d _ _ _
  | noise => exact snW_ok d _ _ _
  | dummy => exact AllOK.nil d

theorem clearFlag_kind (c : Ch) (t : Nat) : (c.clearFlag t).kind = c.kind := rfl

theorem setVol_ok (d : Data) (c : Ch) (hk : KindOK c.kind) : (setVol c).1.kind = c.kind ∧ AllOK d (setVol c).2 :=
  ⟨rfl, vSetVol_ok d c hk⟩

theorem vSetIns_ok (d : Data) (c : Ch) (hk : KindOK c.kind) :
    (vSetIns d c).1.kind = c.kind ∧ AllOK d (vSetIns d c).2 := by
  unfold vSetIns
  cases h : c.kind with
  | fm bank id =>
    rw [h] at hk
    simp only
    split
    · exact ⟨h, AllOK.nil d⟩
    · refine ⟨rfl, ?_⟩
      dsimp only
      repeat (first | apply AllOK.append | exact ymW_ok d _ _ _ _ _ hk)
  | psg id => simp only; split; exact ⟨h, AllOK.nil d⟩; exact ⟨rfl, AllOK.nil d⟩
  | noise => simp only; split; exact ⟨h, AllOK.nil d⟩; exact ⟨rfl, AllOK.nil d⟩
  | dummy => exact ⟨h, AllOK.nil d⟩

theorem setIns_ok (d : Data) (g : G) (c : Ch) (hk : KindOK c.kind) :
    (setIns d g c).2.1.kind = c.kind ∧ AllOK d (setIns d g c).2.2 := by
  unfold setIns
  obtain ⟨k1, o1⟩ := vSetIns_ok d c hk
  obtain ⟨k2, o2⟩ := setVol_ok d (vSetIns d c).1 (by rw [k1]; exact hk)
  exact ⟨by simp only [clearFlag_kind]; rw [k2, k1], AllOK.append o1 o2⟩

theorem keyOffPcm_ok (d : Data) (g : G) (c : Ch) : AllOK d (keyOffPcm g c).2 := by
  unfold keyOffPcm
  split
  · intro w hw
    simp at hw; subst hw
    exact ⟨Or.inr ⟨rfl, by simp⟩, by intro p l r h; cases h⟩
  · exact AllOK.nil d

/-- every sample header of the wave bank addresses bytes inside the used part of the rom (and
the rom is smaller than 2 GiB, as every `Wave_Bank` the program constructs is) -/
structure BankOK (d : Data) : Prop where
  windows : ∀ s ∈ d.bank.samples, s.position + s.start + s.size ≤ used d
  small : d.bank.rom.length < 2147483648

theorem keyOnPcm_ok (d : Data) (g : G) (c : Ch) : AllOK d (keyOnPcm d g c).2 := by
  unfold keyOnPcm
  split
  · rename_i hty
    split
    · exact AllOK.nil d
    · rename_i s hs
      intro w hw
      simp at hw; subst hw
      refine ⟨Or.inr ⟨rfl, by simp⟩, ?_⟩
      intro p l r h
      simp only [Dac.start.injEq] at h
      obtain ⟨rfl, rfl, rfl⟩ := h
      exact ⟨s, ⟨_, hty, hs⟩, rfl, rfl, rfl⟩
  · exact AllOK.nil d

theorem keyOff_ok (d : Data) (c : Ch) (hk : KindOK c.kind) : (keyOff c).1.kind = c.kind ∧ AllOK d (keyOff c).2 := by
  unfold keyOff
  cases h : c.kind with
  | fm bank id =>
    rw [h] at hk
    dsimp only
    exact ⟨h, ymW_ok d _ _ _ _ _ hk⟩
  | psg id =>
    dsimp only
    refine ⟨rfl, ?_⟩
    split
    · exact snW_ok d _ _ _
    · exact AllOK.nil d
  | noise =>
    dsimp only
    refine ⟨rfl, ?_⟩
    split
    · exact snW_ok d _ _ _
    · exact AllOK.nil d
  | dummy => exact ⟨h, AllOK.nil d⟩

theorem vSetPan_ok (d : Data) (g : G) (c : Ch) (hk : KindOK c.kind) : AllOK d (vSetPan g c).2 := by
  unfold vSetPan
  cases h : c.kind with
  | fm bank id =>
    rw [h] at hk
    dsimp only
    split
    · dsimp only; exact ymW_ok d _ _ _ _ _ hk
    · exact AllOK.nil d
  | psg id => exact AllOK.nil d
  | noise => exact AllOK.nil d
  | dummy => exact AllOK.nil d

theorem noteStart_ok (d : Data) (g : G) (c : Ch) (e : Event) (hk : KindOK c.kind) :
    (noteStart g c e).2.1.kind = c.kind ∧ AllOK d (noteStart g c e).2.2 := by
  unfold noteStart
  simp only
  split
  · have hk1 : KindOK ({ c with notePitch := u16 ((e.param + c.var ev_TRANSPOSE) * 256 + c.var ev_DETUNE), keyOn := true } : Ch).kind := hk
    obtain ⟨k, o⟩ := keyOff_ok d _ hk1
    exact ⟨k, AllOK.append (keyOffPcm_ok d _ _) o⟩
  · exact ⟨rfl, AllOK.nil d⟩

theorem insOrVol_ok (d : Data) (g : G) (c : Ch) (hk : KindOK c.kind) :
    (insOrVol d g c).2.1.kind = c.kind ∧ AllOK d (insOrVol d g c).2.2 := by
  unfold insOrVol
  split
  · obtain ⟨k, o⟩ := setIns_ok d g c hk
    exact ⟨k, o⟩
  · split
    · exact setVol_ok d c hk
    · exact ⟨rfl, AllOK.nil d⟩

theorem writeEvent_ok (d : Data) (g : G) (c : Ch) (e : Event) (hk : KindOK c.kind) :
    (writeEvent d g c e).2.1.kind = c.kind ∧ AllOK d (writeEvent d g c e).2.2 := by
  unfold writeEvent
  simp only
  split
  · exact ⟨rfl, AllOK.nil d⟩
  split
  · obtain ⟨k1, o1⟩ := noteStart_ok d g c e hk
    obtain ⟨k2, o2⟩ := insOrVol_ok d (noteStart g c e).1 (noteStart g c e).2.1 (by rw [k1]; exact hk)
    exact ⟨by rw [k2, k1], AllOK.append o1 o2⟩
  split
  · exact insOrVol_ok d g c hk
  split
  · obtain ⟨k, o⟩ := keyOff_ok d c hk
    exact ⟨k, AllOK.append (keyOffPcm_ok d _ _) o⟩
  split
  · obtain ⟨k, o⟩ := keyOff_ok d c hk
    exact ⟨k, AllOK.append (keyOffPcm_ok d _ _) o⟩
  split
  · exact ⟨rfl, AllOK.nil d⟩
  split
  · exact ⟨by unfold updateTempo; rfl, AllOK.nil d⟩
  split
  · exact ⟨rfl, AllOK.nil d⟩
  split
  · exact ⟨rfl, vSetPan_ok d g c hk⟩
  split
  · split <;> exact ⟨rfl, AllOK.nil d⟩
  · exact ⟨rfl, AllOK.nil d⟩

theorem chStep_ok (d : Data) (song : Song) (g : G) (c : Ch) (hk : KindOK c.kind) :
    (chStep d song g c).2.1.kind = c.kind ∧ AllOK d (chStep d song g c).2.2 := by
  unfold chStep
  simp only
  split
  · exact ⟨rfl, AllOK.nil d⟩
  · split
    · exact ⟨rfl, AllOK.nil d⟩
    · exact writeEvent_ok d g _ _ hk

theorem chSettle_ok (d : Data) (song : Song) : ∀ (f : Nat) (g : G) (c : Ch), KindOK c.kind →
    (chSettle d song f g c).2.1.kind = c.kind ∧ AllOK d (chSettle d song f g c).2.2
  | 0, g, c, _ => by
    unfold chSettle
    split <;> exact ⟨rfl, AllOK.nil d⟩
  | f + 1, g, c, hk => by
    unfold chSettle
    split
    · exact ⟨rfl, AllOK.nil d⟩
    · obtain ⟨k1, o1⟩ := chStep_ok d song g c hk
      cases h1 : chStep d song g c with
      | mk g1 r1 =>
        obtain ⟨c1, w1⟩ := r1
        rw [h1] at k1 o1
        simp only at k1 o1 ⊢
        obtain ⟨k2, o2⟩ := chSettle_ok d song f g1 c1 (by rw [k1]; exact hk)
        cases h2 : chSettle d song f g1 c1 with
        | mk g2 r2 =>
          obtain ⟨c2, w2⟩ := r2
          rw [h2] at k2 o2
          simp only at k2 o2 ⊢
          exact ⟨by rw [k2, k1], AllOK.append o1 o2⟩

theorem chDec_ok (d : Data) (g : G) (c : Ch) (hk : KindOK c.kind) :
    (chDec d g c).2.1.kind = c.kind ∧ AllOK d (chDec d g c).2.2 := by
  unfold chDec
  split
  · split
    · exact writeEvent_ok d g _ _ hk
    · exact ⟨rfl, AllOK.nil d⟩
  · split <;> exact ⟨rfl, AllOK.nil d⟩

theorem chTick_ok (d : Data) (song : Song) (g : G) (c : Ch) (hk : KindOK c.kind) :
    (chTick d song g c).2.1.kind = c.kind ∧ AllOK d (chTick d song g c).2.2 := by
  unfold chTick
  split
  · exact ⟨rfl, AllOK.nil d⟩
  · obtain ⟨k1, o1⟩ := chDec_ok d g c hk
    obtain ⟨k2, o2⟩ := chSettle_ok d song settleFuel (chDec d g c).1 (chDec d g c).2.1 (by rw [k1]; exact hk)
    exact ⟨by simp only; rw [k2, k1], AllOK.append o1 o2⟩

theorem chTicks_ok (d : Data) (song : Song) : ∀ (n : Nat) (g : G) (c : Ch), KindOK c.kind →
    (chTicks d song n g c).2.1.kind = c.kind ∧ AllOK d (chTicks d song n g c).2.2
  | 0, g, c, _ => ⟨rfl, AllOK.nil d⟩
  | n + 1, g, c, hk => by
    unfold chTicks
    obtain ⟨k1, o1⟩ := chTick_ok d song g c hk
    cases h1 : chTick d song g c with
    | mk g1 r1 =>
      obtain ⟨c1, w1⟩ := r1
      rw [h1] at k1 o1
      simp only at k1 o1 ⊢
      obtain ⟨k2, o2⟩ := chTicks_ok d song n g1 c1 (by rw [k1]; exact hk)
      cases h2 : chTicks d song n g1 c1 with
      | mk g2 r2 =>
        obtain ⟨c2, w2⟩ := r2
        rw [h2] at k2 o2
        simp only at k2 o2 ⊢
        exact ⟨by rw [k2, k1], AllOK.append o1 o2⟩

theorem psgEnvCmd_kind (c c' : Ch) (d0 : Nat) (h : psgEnvCmd c d0 = some c') : c'.kind = c.kind := by
  unfold psgEnvCmd at h
  split at h
  · cases h; rfl
  · split at h
    · split at h
      · cases h
      · cases h; rfl
    · cases h; rfl

theorem psgEnvValue_ok (d : Data) (g : G) (c : Ch) (id : Nat) (hk : KindOK c.kind) :
    (psgEnvValue g c id).2.1.kind = c.kind ∧ AllOK d (psgEnvValue g c id).2.2 := by
  unfold psgEnvValue
  split
  · exact ⟨rfl, AllOK.nil d⟩
  · split
    · exact ⟨rfl, vSetVol_ok d _ hk⟩
    · split
      · exact ⟨rfl, by dsimp only; exact snW_ok d _ _ _⟩
      · exact ⟨rfl, AllOK.nil d⟩

theorem psgEnvBody_ok (d : Data) (g : G) (c : Ch) (id : Nat) (hk : KindOK c.kind) :
    (psgEnvBody g c id).2.1.kind = c.kind ∧ AllOK d (psgEnvBody g c id).2.2 := by
  unfold psgEnvBody
  split
  · split
    · exact ⟨rfl, AllOK.nil d⟩
    · split
      · exact ⟨rfl, AllOK.nil d⟩
      · split
        · exact ⟨rfl, AllOK.nil d⟩
        · rename_i c' hc'
          have hkc := psgEnvCmd_kind _ _ _ hc'
          obtain ⟨k, o⟩ := psgEnvValue_ok d g c' id (by rw [hkc]; exact hk)
          exact ⟨by rw [k, hkc], o⟩
  · exact ⟨rfl, AllOK.nil d⟩

theorem psgEnvelope_ok (d : Data) (g : G) (c : Ch) (id : Nat) (hk : KindOK c.kind) :
    (psgEnvelope g c id).2.1.kind = c.kind ∧ AllOK d (psgEnvelope g c id).2.2 := by
  unfold psgEnvelope
  split
  · exact ⟨rfl, AllOK.nil d⟩
  · have hr : (psgEnvRestart c).kind = c.kind := by unfold psgEnvRestart; split <;> rfl
    obtain ⟨k, o⟩ := psgEnvBody_ok d g (psgEnvRestart c) id (by rw [hr]; exact hk)
    exact ⟨by rw [k, hr], o⟩

theorem vSetPitch_ok (d : Data) (c : Ch) (hk : KindOK c.kind) : AllOK d (vSetPitch c) := by
  unfold vSetPitch
  cases h : c.kind with
  | fm bank id => rw [h] at hk; exact ymW_ok d _ _ _ _ _ hk
  | psg id => exact snW_ok d _ _ _
  | noise => exact snW_ok d _ _ _
  | dummy => exact AllOK.nil d

theorem vKeyOn_ok (d : Data) (c : Ch) (hk : KindOK c.kind) : AllOK d (vKeyOn c) := by
  unfold vKeyOn
  cases h : c.kind with
  | fm bank id => rw [h] at hk; exact ymW_ok d _ _ _ _ _ hk
  | psg id => exact AllOK.nil d
  | noise => exact AllOK.nil d
  | dummy => exact AllOK.nil d

theorem chEnv_ok (d : Data) (g : G) (c : Ch) (hk : KindOK c.kind) :
    (chEnv g c).2.1.kind = c.kind ∧ AllOK d (chEnv g c).2.2 := by
  unfold chEnv
  split
  · exact psgEnvelope_ok d g c _ hk
  · exact ⟨rfl, AllOK.nil d⟩

theorem chPitch_ok (d : Data) (c : Ch) (hk : KindOK c.kind) :
    (chPitch c).1.kind = c.kind ∧ AllOK d (chPitch c).2 := by
  unfold chPitch
  refine ⟨rfl, ?_⟩
  dsimp only
  split
  · exact vSetPitch_ok d _ hk
  · exact AllOK.nil d

theorem chKeyOn_ok (d : Data) (c : Ch) (hk : KindOK c.kind) :
    (chKeyOn c).1.kind = c.kind ∧ AllOK d (chKeyOn c).2 := by
  unfold chKeyOn
  refine ⟨by dsimp only; split <;> rfl, ?_⟩
  dsimp only
  split
  · exact vKeyOn_ok d c hk
  · exact AllOK.nil d

theorem chKeyOnPcm_ok (d : Data) (g : G) (c : Ch) : AllOK d (chKeyOnPcm d g c).2 := by
  unfold chKeyOnPcm
  split
  · exact keyOnPcm_ok d g c
  · exact AllOK.nil d

theorem chAfter_ok (d : Data) (g : G) (c : Ch) (hk : KindOK c.kind) :
    (chAfter d g c).2.1.kind = c.kind ∧ AllOK d (chAfter d g c).2.2 := by
  unfold chAfter
  split
  · exact ⟨rfl, AllOK.nil d⟩
  · obtain ⟨k1, o1⟩ := chEnv_ok d g c hk
    obtain ⟨k2, o2⟩ := chPitch_ok d (chEnv g c).2.1 (by rw [k1]; exact hk)
    obtain ⟨k3, o3⟩ := chKeyOn_ok d (chPitch (chEnv g c).2.1).1 (by rw [k2, k1]; exact hk)
    exact ⟨by dsimp only; rw [k3, k2, k1],
      AllOK.append (AllOK.append (AllOK.append o1 o2) (chKeyOnPcm_ok d _ _)) o3⟩

theorem chUpdate_ok (d : Data) (song : Song) (n : Nat) (g : G) (c : Ch) (hk : KindOK c.kind) :
    (chUpdate d song n g c).2.1.kind = c.kind ∧ AllOK d (chUpdate d song n g c).2.2 := by
  unfold chUpdate
  obtain ⟨k1, o1⟩ := chTicks_ok d song n g c hk
  obtain ⟨k2, o2⟩ := chAfter_ok d (chTicks d song n g c).1 (chTicks d song n g c).2.1 (by rw [k1]; exact hk)
  exact ⟨by dsimp only; rw [k2, k1], AllOK.append o1 o2⟩

/-! ### the driver -/

def ChansOK (cs : List Ch) : Prop := ∀ c ∈ cs, KindOK c.kind

theorem updateAll_ok (d : Data) (song : Song) (n : Nat) : ∀ (g : G) (cs : List Ch), ChansOK cs →
    ChansOK (updateAll d song n g cs).2.1 ∧ AllOK d (updateAll d song n g cs).2.2
  | g, [], _ => ⟨(by intro c hc; cases hc), AllOK.nil d⟩
  | g, c :: cs, h => by
    unfold updateAll
    have hk := h c (by simp)
    have hcs : ChansOK cs := fun x hx => h x (by simp [hx])
    have h1 : ∀ (r : G × Ch × List Op), r = (if c.enabled then chUpdate d song n g c else (g, c, [])) →
        r.2.1.kind = c.kind ∧ AllOK d r.2.2 := by
      intro r hr
      split at hr
      · rw [hr]; exact chUpdate_ok d song n g c hk
      · rw [hr]; exact ⟨rfl, AllOK.nil d⟩
    cases hr : (if c.enabled then chUpdate d song n g c else (g, c, [])) with
    | mk g1 r1 =>
      obtain ⟨c1, w1⟩ := r1
      obtain ⟨k1, o1⟩ := h1 _ hr.symm
      simp only at k1 o1 ⊢
      obtain ⟨k2, o2⟩ := updateAll_ok d song n g1 cs hcs
      cases h2 : updateAll d song n g1 cs with
      | mk g2 r2 =>
        obtain ⟨cs2, w2⟩ := r2
        rw [h2] at k2 o2
        simp only at k2 o2 ⊢
        refine ⟨?_, AllOK.append o1 o2⟩
        intro x hx
        rcases List.mem_cons.mp hx with rfl | hx
        · rw [k1]; exact hk
        · exact k2 x hx

theorem seqUpdate_ok (d : Data) (song : Song) (s : Drv) (hc : ChansOK s.chans) :
    ChansOK (seqUpdate d song s).1.chans ∧ AllOK d (seqUpdate d song s).2 := by
  unfold seqUpdate
  simp only
  exact updateAll_ok d song _ s.g s.chans hc

theorem stepSeq_ok (d : Data) (song : Song) (s : Drv) (hc : ChansOK s.chans) :
    ChansOK (stepSeq d song s).1.chans ∧ AllOK d (stepSeq d song s).2 := by
  unfold stepSeq
  split
  · exact seqUpdate_ok d song _ hc
  · exact ⟨hc, AllOK.nil d⟩

theorem stepPcm_chans (s : Drv) : (stepPcm s).chans = s.chans := by
  unfold stepPcm; split <;> rfl

theorem resetLoopCh_kind (c : Ch) : (resetLoopCh c).kind = c.kind := by
  unfold resetLoopCh; simp only; split <;> rfl

theorem stepLoop_ok (s : Drv) (hc : ChansOK s.chans) :
    ChansOK (stepLoop s).1.chans ∧ ((stepLoop s).2 = [] ∨ (stepLoop s).2 = [Vgm.Op.setLoop]) := by
  unfold stepLoop
  split
  · refine ⟨?_, Or.inr rfl⟩
    intro c hcm
    obtain ⟨c0, h0, rfl⟩ := List.mem_map.mp hcm
    rw [resetLoopCh_kind]; exact hc c0 h0
  · exact ⟨hc, Or.inl rfl⟩

/-- operations the export loop may perform: PSG / YM2612 (port 0, 1) writes, delays, loop
points, stream stops, and stream starts over the window of a PCM instrument's sample -/
def OpOK (d : Data) : Vgm.Op → Prop
  | .write c p r _ => (c = 0x50 ∧ p = 0 ∧ r = 0) ∨ (c = 0x52 ∧ p ≤ 1)
  | .dacStart _ st len rate => ∃ s, IsPcmSample d s ∧ st = Wave.u32 (s.position + s.start) ∧ len = s.size ∧ rate = s.rate
  | .dacStop _ => True
  | .setLoop => True
  | .delay _ => True
  | _ => False

theorem toOps_ok (d : Data) (w : Wr) (h : WrOK d w) : ∀ o ∈ w.toOps, OpOK d o := by
  intro o ho
  unfold Wr.toOps at ho
  rcases List.mem_cons.mp ho with rfl | ho
  · exact h.1
  · cases hd : w.dac with
    | none => rw [hd] at ho; cases ho
    | start p l r => rw [hd] at ho; simp at ho; subst ho; exact h.2 p l r hd
    | stop => rw [hd] at ho; simp at ho; subst ho; trivial

theorem flatMap_toOps_ok (d : Data) (o : List Wr) (h : AllOK d o) : ∀ x ∈ o.flatMap Wr.toOps, OpOK d x := by
  intro x hx
  obtain ⟨w, hw, hx⟩ := List.mem_flatMap.mp hx
  exact toOps_ok d w (h w hw) x hx

theorem playStep_ok (d : Data) (song : Song) (s : Drv) (hc : ChansOK s.chans) :
    ChansOK (playStep d song s).1.chans ∧ ∀ x ∈ (playStep d song s).2.1, OpOK d x := by
  obtain ⟨c1, o1⟩ := stepSeq_ok d song s hc
  obtain ⟨c3, o3⟩ := stepLoop_ok (stepPcm (stepSeq d song s).1) (by rw [stepPcm_chans]; exact c1)
  have hout : (playStep d song s).2.1 =
      (stepSeq d song s).2.flatMap Wr.toOps ++ (stepLoop (stepPcm (stepSeq d song s).1)).2 := by
    unfold playStep
    simp only
    split <;> rfl
  have hch : (playStep d song s).1.chans = (stepLoop (stepPcm (stepSeq d song s).1)).1.chans := by
    unfold playStep
    simp only
    split <;> rfl
  refine ⟨by rw [hch]; exact c3, ?_⟩
  rw [hout]
  intro x hx
  rcases List.mem_append.mp hx with h | h
  · exact flatMap_toOps_ok d _ o1 x h
  · rcases o3 with e | e <;> rw [e] at h
    · cases h
    · simp at h; subst h; trivial

theorem exportLoop_ok (d : Data) (song : Song) : ∀ (fuel : Nat) (s : Drv) (elapsed delta : Int) (acc : List Vgm.Op),
    ChansOK s.chans → (∀ x ∈ acc, OpOK d x) → ∀ x ∈ (exportLoop d song fuel s elapsed delta acc).2, OpOK d x
  | 0, s, elapsed, delta, acc, _, ha => by simpa [exportLoop] using ha
  | fuel + 1, s, elapsed, delta, acc, hc, ha => by
    unfold exportLoop
    split
    · exact ha
    · obtain ⟨c1, o1⟩ := playStep_ok d song s hc
      cases hps : playStep d song s with
      | mk s' r =>
        obtain ⟨o, dl⟩ := r
        rw [hps] at c1 o1
        simp only at c1 o1 ⊢
        have hnew : ∀ x ∈ acc ++ Vgm.Op.delay delta.toNat :: o, OpOK d x := by
          intro x hx
          rcases List.mem_append.mp hx with h | h
          · exact ha x h
          · rcases List.mem_cons.mp h with rfl | h
            · trivial
            · exact o1 x h
        split
        · exact hnew
        · split
          · exact hnew
          · exact exportLoop_ok d song fuel s' _ _ _ c1 hnew

/-- the delays the export loop hands to the writer sum to less than one hour and one update -/
theorem exportLoop_delays (d : Data) (song : Song) : ∀ (fuel : Nat) (s : Drv) (elapsed delta : Int) (acc : List Vgm.Op),
    ClockInv (elapsed, s.seqCounter, s.pcmCounter) → 0 ≤ delta → (delaySum acc : Int) + delta = elapsed →
    elapsed < maxTime + 736 → (delaySum (exportLoop d song fuel s elapsed delta acc).2 : Int) < maxTime + 736
  | 0, s, elapsed, delta, acc, _, hd, hs, hm => by simp only [exportLoop]; omega
  | fuel + 1, s, elapsed, delta, acc, hinv, hd, hs, hm => by
    unfold exportLoop
    split
    · simp only; omega
    · rename_i hmax
      obtain ⟨k, hk⟩ := counted_exists elapsed hinv.1
      have hp := playStep_inv d song s elapsed k hinv hk
      have hops := playStep_ops d song s
      cases hps : playStep d song s with
      | mk s' r =>
        obtain ⟨o, dl⟩ := r
        rw [hps] at hp hops
        simp only at hp hops ⊢
        have hnd := stamps_noDelay 0 o hops.1
        have hds : delaySum (acc ++ Vgm.Op.delay delta.toNat :: o) = delaySum acc + delta.toNat := by
          rw [delaySum_append]
          simp [delaySum, hnd.2]
        have hbound : (delaySum (acc ++ Vgm.Op.delay delta.toNat :: o) : Int) < maxTime + 736 := by
          rw [hds]; push_cast; omega
        split
        · exact hbound
        · split
          · exact hbound
          · exact exportLoop_delays d song fuel s' (elapsed + dl) dl _ hp.1 (by omega) (by rw [hds]; push_cast; omega) (by omega)

/-! ### from writer operations to exporter operations (`Vgm.XOp`) -/
open Ctrmml.Vgm in
/-- the exporter operation a writer call stands for -/
def toX : Vgm.Op → XOp
  | .write c p r dt => if c = 0x50 then .psg dt else .ym (decide (p = 1)) r dt
  | .dacSetup a b c d e => .dacSetup a b c d e
  | .dacStart a b c d => .dacStart a b c d
  | .dacStop a => .dacStop a
  | .setLoop => .setLoop
  | .datablock t p m _ o => .datablock t p m o
  | .delay n => .delay n
  | _ => .delay 0

theorem toX_toOp (d : Data) (o : Vgm.Op) (h : OpOK d o) : (toX o).toOp = o := by
  cases o with
  | write c p r dt =>
    rcases h with ⟨rfl, rfl, rfl⟩ | ⟨rfl, hp⟩
    · rfl
    · simp only [toX, Vgm.XOp.toOp]
      rcases Nat.lt_or_ge p 1 with h0 | h1
      · have : p = 0 := by omega
        subst this; rfl
      · have : p = 1 := by omega
        subst this; rfl
  | dacStart a b c d => rfl
  | dacStop a => rfl
  | setLoop => rfl
  | delay n => rfl
  | dacSetup a b c d e => exact absurd h (by simp [OpOK])
  | datablock t p m f o => exact absurd h (by simp [OpOK])
  | stop => exact absurd h (by simp [OpOK])
  | poke a b => exact absurd h (by simp [OpOK])
  | writeTag t => exact absurd h (by simp [OpOK])

theorem map_toX (d : Data) (ops : List Vgm.Op) (h : ∀ o ∈ ops, OpOK d o) :
    (ops.map toX).map Vgm.XOp.toOp = ops ∧ (∀ x ∈ ops.map toX, x.valid) ∧
    ((ops.map toX).map Vgm.XOp.delayOf).sum = delaySum ops ∧
    (BankOK d → ∀ bank, used d ≤ bank → Vgm.xsPcm bank (ops.map toX) = true) := by
  induction ops with
  | nil => exact ⟨rfl, (by intro x hx; cases hx), rfl, fun _ _ _ => rfl⟩
  | cons o r ih =>
    have ho := h o (by simp)
    obtain ⟨i1, i2, i3, i4⟩ := ih (fun x hx => h x (by simp [hx]))
    refine ⟨by simp only [List.map_cons]; rw [toX_toOp d o ho, i1], ?_, ?_, ?_⟩
    · intro x hx
      rcases List.mem_cons.mp hx with rfl | hx
      · cases o with
        | write c p r dt => simp only [toX]; split <;> trivial
        | dacStart a b c d' => trivial
        | dacStop a => trivial
        | setLoop => trivial
        | delay n => trivial
        | dacSetup a b c d e => trivial
        | datablock t p m f o => exact absurd ho (by simp [OpOK])
        | stop => trivial
        | poke a b => trivial
        | writeTag t => trivial
      · exact i2 x hx
    · simp only [List.map_cons, List.sum_cons, i3]
      cases o with
      | write c p r dt => simp only [toX, delaySum]; split <;> simp [Vgm.XOp.delayOf]
      | dacStart a b c d' => simp [toX, delaySum, Vgm.XOp.delayOf]
      | dacStop a => simp [toX, delaySum, Vgm.XOp.delayOf]
      | setLoop => simp [toX, delaySum, Vgm.XOp.delayOf]
      | delay n => simp [toX, delaySum, Vgm.XOp.delayOf]
      | dacSetup a b c d e => simp [toX, delaySum, Vgm.XOp.delayOf]
      | datablock t p m f o => simp [toX, delaySum, Vgm.XOp.delayOf]
      | stop => simp [toX, delaySum, Vgm.XOp.delayOf]
      | poke a b => simp [toX, delaySum, Vgm.XOp.delayOf]
      | writeTag t => simp [toX, delaySum, Vgm.XOp.delayOf]
    · intro hb bank hbk
      have i4 := i4 hb
      cases o with
      | write c p r dt => simp only [List.map_cons, toX]; split <;> exact i4 bank hbk
      | dacStart a b c d' =>
        simp only [List.map_cons, toX, Vgm.xsPcm, Bool.and_eq_true, decide_eq_true_eq]
        refine ⟨?_, i4 bank hbk⟩
        obtain ⟨s, ⟨ins, _, hs⟩, rfl, rfl, _⟩ := ho
        have := hb.windows s (List.mem_of_getElem? hs)
        have h1 : Wave.u32 (s.position + s.start) % 4294967296 ≤ s.position + s.start := by
          unfold Wave.u32
          exact Nat.le_trans (Nat.mod_le _ _) (Nat.mod_le _ _)
        have h2 : s.size % 4294967296 ≤ s.size := Nat.mod_le _ _
        omega
      | dacStop a => exact i4 bank hbk
      | setLoop => exact i4 bank hbk
      | delay n => exact i4 bank hbk
      | dacSetup a b c d e => exact absurd ho (by simp [OpOK])
      | datablock t p m f o => exact absurd ho (by simp [OpOK])
      | stop => exact absurd ho (by simp [OpOK])
      | poke a b => exact absurd ho (by simp [OpOK])
      | writeTag t => exact absurd ho (by simp [OpOK])

/-- no data block among the translated operations; every stream start is the window of a PCM
instrument's sample header -/
theorem pcm_toX (d : Data) (ops : List Vgm.Op) (h : ∀ o ∈ ops, OpOK d o) :
    Vgm.xBank (ops.map toX) = [] ∧
    ∀ q ∈ Vgm.xStarts (ops.map toX), ∃ s, IsPcmSample d s ∧
      q = (Wave.u32 (s.position + s.start) % 4294967296, s.size % 4294967296) := by
  induction ops with
  | nil => exact ⟨rfl, by intro q hq; cases hq⟩
  | cons o r ih =>
    have ho := h o (by simp)
    obtain ⟨i1, i2⟩ := ih (fun x hx => h x (by simp [hx]))
    cases o with
    | write c p r' dt => simp only [List.map_cons, toX]; split <;> exact ⟨i1, i2⟩
    | dacStart a b c d' =>
      refine ⟨i1, ?_⟩
      intro q hq
      simp only [List.map_cons, toX, Vgm.xStarts, List.mem_cons] at hq
      rcases hq with rfl | hq
      · obtain ⟨s, hs, rfl, rfl, _⟩ := ho
        exact ⟨s, hs, rfl⟩
      · exact i2 q hq
    | dacStop a => exact ⟨i1, i2⟩
    | setLoop => exact ⟨i1, i2⟩
    | delay n => exact ⟨i1, i2⟩
    | dacSetup a b c d e => exact absurd ho (by simp [OpOK])
    | datablock t p m f o => exact absurd ho (by simp [OpOK])
    | stop => exact absurd ho (by simp [OpOK])
    | poke a b => exact absurd ho (by simp [OpOK])
    | writeTag t => exact absurd ho (by simp [OpOK])

/-- reading a sample window out of the data block is reading it out of the rom -/
theorem window_in_block (d : Data) (hb : BankOK d) (s : Wave.Sample) (hs : s ∈ d.bank.samples) :
    ((pcmBlock d).drop (Wave.u32 (s.position + s.start) % 4294967296)).take (s.size % 4294967296) =
      (d.bank.rom.drop (s.position + s.start)).take s.size := by
  have hw := hb.windows s hs
  have hsm := hb.small
  have hu : used d ≤ d.bank.rom.length := by unfold used; omega
  have e1 : Wave.u32 (s.position + s.start) % 4294967296 = s.position + s.start := by
    unfold Wave.u32; omega
  have e2 : s.size % 4294967296 = s.size := by omega
  rw [e1, e2]
  unfold pcmBlock
  rw [List.drop_take, List.take_take]
  congr 1
  omega

/-! ### the whole export -/

/-- the header pokes of the `MD_Driver` constructor as (offset, bytes) pairs -/
def hdrPokes : List (Nat × Bytes) :=
  md_vgm_pokes.map fun p => (p.2.1, if p.1 = 4 then le32 p.2.2 else if p.1 = 2 then le16 p.2.2 else [byteOf p.2.2])

theorem ctorPokes_eq : ctorPokes = Vgm.pokeOps hdrPokes := by
  unfold ctorPokes Vgm.pokeOps hdrPokes
  rw [List.map_map]
  rfl

theorem mkChans_ok (d : Data) : ∀ (tracks : List (Nat × List Event)) (acc : List Ch × List Op),
    ChansOK acc.1 → AllOK d acc.2 →
    ChansOK (tracks.foldl (fun (acc : List Ch × List Op) (t : Nat × List Event) =>
      if t.1 < 16 then
        let (c, o) := mkCh d t.1 t.2
        (acc.1 ++ [c], acc.2 ++ o)
      else acc) acc).1 ∧
    AllOK d (tracks.foldl (fun (acc : List Ch × List Op) (t : Nat × List Event) =>
      if t.1 < 16 then
        let (c, o) := mkCh d t.1 t.2
        (acc.1 ++ [c], acc.2 ++ o)
      else acc) acc).2
  | [], acc, h1, h2 => ⟨h1, h2⟩
  | t :: ts, acc, h1, h2 => by
    simp only [List.foldl_cons]
    apply mkChans_ok d ts
    · split
      · obtain ⟨k, _⟩ := mkCh_ok d t.1 t.2
        intro c hc
        rcases List.mem_append.mp hc with h | h
        · exact h1 c h
        · simp at h; subst h; exact k
      · exact h1
    · split
      · obtain ⟨_, o⟩ := mkCh_ok d t.1 t.2
        exact AllOK.append h2 o
      · exact h2

theorem playSong_ok (d : Data) (song : Song) :
    ChansOK (playSong d song).1.chans ∧ (playSong d song).1.seqCounter = 0 ∧ (playSong d song).1.pcmCounter = 0 ∧
    ∃ w, AllOK d w ∧ (playSong d song).2 =
      [Vgm.Op.datablock 0 (pcmBlock d) d.bank.rom.length 0 0,
       Vgm.Op.dacSetup (tab md_dac_setup_args 0) (tab md_dac_setup_args 1) (tab md_dac_setup_args 2)
         (tab md_dac_setup_args 3) (tab md_dac_setup_args 4)] ++ w.flatMap Wr.toOps := by
  obtain ⟨h1, h2⟩ := mkChans_ok d song.tracks ([], []) (by intro c hc; cases hc) (AllOK.nil d)
  unfold playSong
  exact ⟨h1, rfl, rfl, _, h2, rfl⟩

theorem maxTime_eq : maxTime = 158760000 := by decide

open Ctrmml.Vgm in
/-- **Every successful run of the model's `vgm_export` performs, on the writer, exactly an
exporter operation sequence**: the `MD_Driver` header pokes, then the type-0 data block with the
used part of the wave rom, the DAC stream setup, and operations `rest` that are PSG / YM2612
(port 0, 1) writes, delays, loop points and stream start / stop commands; every stream start
addresses bytes of the data block; the delays sum to less than 2^31 samples. -/
theorem exportOps_x (d : Data) (song : Song) (tags : Vgm.Tags) (ops : List Vgm.Op) (hb : BankOK d)
    (h : MdDriver.exportOps d song tags = .ok ops) :
    ∃ rest : List XOp,
      ops = Vgm.exportOps hdrPokes
        (XOp.datablock 0 (pcmBlock d) d.bank.rom.length 0 ::
         XOp.dacSetup (tab md_dac_setup_args 0) (tab md_dac_setup_args 1) (tab md_dac_setup_args 2)
           (tab md_dac_setup_args 3) (tab md_dac_setup_args 4) :: rest) tags ∧
      (∀ x ∈ rest, x.valid) ∧ (rest.map XOp.delayOf).sum < 2147483648 ∧ xsPcm (used d) rest = true ∧
      (∀ x ∈ rest, ∀ t p m o, x ≠ XOp.datablock t p m o) ∧
      xBank rest = [] ∧
      (∀ q ∈ xStarts rest, ∃ s, IsPcmSample d s ∧
        q = (Wave.u32 (s.position + s.start) % 4294967296, s.size % 4294967296)) := by
  unfold MdDriver.exportOps at h
  obtain ⟨c0, hs0, hp0, w, hw, ho0⟩ := playSong_ok d song
  generalize hps : playSong d song = ps at h c0 hs0 hp0 ho0
  obtain ⟨s0, o0⟩ := ps
  simp only at h c0 hs0 hp0 ho0
  have hloopok := exportLoop_ok d song exportFuel s0 0 0 [] c0 (by intro x hx; cases hx)
  have hloopd := exportLoop_delays d song exportFuel s0 0 0 []
    (by rw [hs0, hp0]; exact clockInv_init) (by omega) (by simp [delaySum]) (by rw [maxTime_eq]; omega)
  generalize hel : exportLoop d song exportFuel s0 0 0 [] = el at h hloopok hloopd
  obtain ⟨s1, o1⟩ := el
  simp only at h hloopok hloopd
  split at h
  · exact absurd h (by simp)
  · injection h with h
    subst h
    -- the body after the data block and the stream setup
    have hbody : ∀ x ∈ w.flatMap Wr.toOps ++ o1, OpOK d x := by
      intro x hx
      rcases List.mem_append.mp hx with hx | hx
      · exact flatMap_toOps_ok d w hw x hx
      · exact hloopok x hx
    obtain ⟨m1, m2, m3, m4⟩ := map_toX d _ hbody
    obtain ⟨n1, n2⟩ := pcm_toX d _ hbody
    refine ⟨(w.flatMap Wr.toOps ++ o1).map toX, ?_, m2, ?_, m4 hb (used d) (Nat.le_refl _), ?_, n1, n2⟩
    · unfold Vgm.exportOps
      rw [ctorPokes_eq, ho0]
      simp only [List.map_cons, m1, XOp.toOp, List.append_assoc, List.cons_append, List.nil_append]
    · rw [m3, delaySum_append]
      have hnd : delaySum (w.flatMap Wr.toOps) = 0 :=
        (stamps_noDelay 0 _ (by
          intro x hx
          obtain ⟨ww, _, hx⟩ := List.mem_flatMap.mp hx
          exact toOps_noDelay ww x hx)).2
      rw [hnd, maxTime_eq] at *
      omega
    · intro x hx t p m o hxe
      obtain ⟨op, hop, rfl⟩ := List.mem_map.mp hx
      have := hbody op hop
      cases op <;> simp [toX] at hxe <;> first | exact this | (split at hxe <;> cases hxe)

/-- the allocator invariant of the wave bank (C14: it holds for every bank reachable from a new
bank by admissible additions) puts every sample window inside the data block -/
theorem bankOK_of_inv (d : Data) (rs : List Alloc.Win) (inv : Wave.Inv d.bank rs) : BankOK d := by
  have hu : used d = d.bank.currentSize := by
    unfold used Wave.Bank.freeBytes Wave.u32
    have := inv.romLen
    have := inv.curLe
    have := inv.small.1
    omega
  refine ⟨?_, by have := inv.romLen; have := inv.small.1; omega⟩
  intro s hs
  obtain ⟨r, hr, _, h2⟩ := inv.housed s hs
  have := inv.regWf r hr
  omega

/-- wave banks `MDSDRV_Data::read_song` builds: `add_sample(Tag)` calls (one per `@n pcm` tag) on the
new 2 MiB bank, each on a file of less than 1 GiB (the size bound of C14's bank theorems) -/
inductive BankBuilt : Wave.Bank → Prop
  | new : BankBuilt (Wave.Bank.new mds_dataWaveRom 0)
  | add {b b' : Wave.Bank} (file : Option Bytes) (tag : List String) (idx : Nat) :
      BankBuilt b → (∀ f, file = some f → f.length < 1073741823) →
      Wave.addSampleTag b file tag = .ok (b', idx) → BankBuilt b'

/-- one successful `add_sample(Tag)` keeps the allocator invariant -/
theorem addSampleTag_inv (b : Wave.Bank) (rs : List Alloc.Win) (inv : Wave.Inv b rs) (file : Option Bytes)
    (tag : List String) (hf : ∀ f, file = some f → f.length < 1073741823) (b' : Wave.Bank) (idx : Nat)
    (hok : Wave.addSampleTag b file tag = .ok (b', idx)) : ∃ rs', Wave.Inv b' rs' := by
  unfold Wave.addSampleTag at hok
  match tag, file with
  | [], _ => simp at hok
  | _ :: args, none => simp at hok
  | _ :: args, some f =>
    have hfl := hf f rfl
    simp only at hok
    match hr : Wave.readWav f with
    | .error e => rw [hr] at hok; cases hok
    | .ok none => rw [hr] at hok; cases hok
    | .ok (some wf) =>
      rw [hr] at hok
      simp only at hok
      have hd := Wave.readWav_data_le f wf hr
      match happ : Wave.applyArgs args ⟨0, 0, wf.slength, wf.lstart, wf.lend, wf.srate, wf.transpose, 0⟩ with
      | .error e => rw [happ] at hok; cases hok
      | .ok h =>
        rw [happ] at hok
        simp only at hok
        have hdl : (Wave.encodeSample wf.data0).length < 1073741824 := by
          simp only [Wave.encodeSample, List.length_map]; omega
        exact ⟨_, (Wave.addSample_step b rs h (Wave.encodeSample wf.data0) b' idx inv ⟨hdl⟩ hok).inv⟩

/-- every bank `read_song` builds satisfies the allocator invariant -/
theorem bankBuilt_inv (b : Wave.Bank) (h : BankBuilt b) : ∃ rs, Wave.Inv b rs := by
  induction h with
  | new => exact ⟨[], Wave.inv_new mds_dataWaveRom 0 (by decide) (by decide) (by decide)⟩
  | add file tag idx _ hf hok ih =>
    obtain ⟨rs, inv⟩ := ih
    exact addSampleTag_inv _ rs inv file tag hf _ idx hok

end Ctrmml.MdDriver
