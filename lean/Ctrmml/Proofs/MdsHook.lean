/-
  C09 helper: one case analysis of `MDSDRV_Track_Writer::event_hook` (`Mds.hook`), exposing what a
  successful hook call does to the conversion state and to the writer's event list.
-/
import Ctrmml.Model.MdsConv
namespace Ctrmml.Mds
open Ctrmml Ctrmml.Player Tables

/-- the writer state after the rest bookkeeping at the top of a visible hook call -/
def prep (w : WState) (it : TraceItem) : WState :=
  let w := if it.ev.type ≠ ev_REST then flushRest w else w
  let w := if w.restTime + it.off > 0xffff then flushRest w else w
  { w with restTime := (w.restTime + it.off) % 65536 }

/-- the `switch` of a visible hook call, on the prepared writer state (same text as `Mds.hook`) -/
def hookVis (song : Song) (d : DataInfo) (fuel : Nat) (c : Conv) (w : WState) (it : TraceItem) :
    Except WErr (Conv × WState) :=
  if it.ev.type = ev_TIE then .ok (c, push w mds_TIE it.on)
  else if it.ev.type = ev_NOTE then
    let r : Except WErr (Conv × Int) :=
      if w.drumEnabled then
        match getSubroutine song d fuel c it.ev.param true false with
        | .error x => .error x
        | .ok (c', id) => .ok (c', wrap16 id)
      else .ok (c, it.ev.param)
    match r with
    | .error x => .error x
    | .ok (c, param) =>
      let param := if param < 0 then 0 else param
      if w.inDrum then
        if it.topLoop then .error .drumNoteInLoop
        else if param > 255 then .error .noteRange
        else .ok (c, { (push w mds_DMFINISH param) with disabled := true })
      else if param ≥ (mds_SLR - mds_NOTE : Nat) then .error .noteRange
      else .ok (c, push w (mds_NOTE + param.toNat) it.on)
  else if it.ev.type = ev_LOOP_START then .ok (c, push w mds_LP 0)
  else if it.ev.type = ev_LOOP_BREAK then .ok (c, push w mds_LPB 0)
  else if it.ev.type = ev_LOOP_END then .ok (c, push w mds_LPF it.ev.param)
  else if it.ev.type = ev_SEGNO then .ok (c, { (push w mds_SEGNO 0) with inLoop := true })
  else if it.ev.type = ev_JUMP then
    match getSubroutine song d fuel c it.ev.param false w.drumEnabled with
    | .error x => .error x
    | .ok (c', id) => .ok (c', push w mds_PAT id)
  else if it.ev.type = ev_SLUR then .ok (c, push w mds_SLR 0)
  else if it.ev.type = ev_PLATFORM then
    match d.platform.lookup it.ev.param with
    | none => .error .platformMissing
    | some none => .error .platformBad
    | some (some evs) => .ok (c, { w with out := w.out ++ evs })
  else if it.ev.type = ev_TRANSPOSE_REL then .ok (c, push w mds_TRSM it.ev.param)
  else if it.ev.type = ev_VOL then .ok (c, push w mds_VOL (Int.ofNat (u16 it.ev.param ||| 0x80)))
  else if it.ev.type = ev_VOL_REL ∨ it.ev.type = ev_VOL_FINE_REL then .ok (c, push w mds_VOLM it.ev.param)
  else if it.ev.type = ev_TEMPO_BPM then .ok (c, push w mds_TEMPO (bpmToDelta (u16 it.ev.param)))
  else if it.ev.type = ev_INS then
    match checkInstrument d w.trackId it.ev.param with
    | .error x => .error x
    | .ok _ =>
      match d.insType.lookup it.ev.param, d.envelopeMap.lookup it.ev.param with
      | some ty, some idx =>
        if ty ≠ mdsIns_INS_PCM then
          let (c', i) := getEnvelope c idx
          .ok (c', push w mds_INS i)
        else
          let (c', i) := getEnvelope c (0x20000 + idx)
          .ok (c', push w mds_PCM i)
      | _, _ => .error .insMissing
  else if it.ev.type = ev_TRANSPOSE then .ok (c, push w mds_TRS it.ev.param)
  else if it.ev.type = ev_DETUNE then .ok (c, push w mds_DTN it.ev.param)
  else if it.ev.type = ev_VOL_FINE then .ok (c, push w mds_VOL (Int.ofNat (u16 it.ev.param &&& 0x7f)))
  else if it.ev.type = ev_PAN then .ok (c, push w mds_PAN (it.ev.param * 64))
  else if it.ev.type = ev_PAN_ENVELOPE then
    if it.ev.param ≠ 0 then
      match getMacroTrack song d fuel c it.ev.param with
      | .error x => .error x
      | .ok (c', id) => .ok (c', push w mds_MTAB (wrap16 (id + 1)))
    else .ok (c, push w mds_MTAB 0)
  else if it.ev.type = ev_PITCH_ENVELOPE then
    if it.ev.param ≠ 0 then
      match d.pitchMap.lookup it.ev.param with
      | none => .error .pitchMissing
      | some idx =>
        let (c', i) := getEnvelope c (if d.pitchExtend.contains it.ev.param then 0x10000 + idx else idx)
        .ok (c', push w mds_PEG (wrap16 (i + 1)))
    else .ok (c, push w mds_PEG 0)
  else if it.ev.type = ev_PORTAMENTO then .ok (c, push w mds_PTA it.ev.param)
  else if it.ev.type = ev_DRUM_MODE then
    .ok (c, { (push w mds_FLG (if it.ev.param ≠ 0 then 8 else 0)) with drumEnabled := it.ev.param ≠ 0 })
  else if it.ev.type = ev_TEMPO then .ok (c, push w mds_TEMPO it.ev.param)
  else .ok (c, w)

theorem hook_succ_eq (song : Song) (d : DataInfo) (n : Nat) (c : Conv) (w : WState) (it : TraceItem) :
    hook song d (n + 1) c w it =
      if it.insideLoop ∨ it.insideJump then
        (if it.ev.type = ev_INS then
          match checkInstrument d w.trackId it.ev.param with
          | .error x => .error x
          | .ok _ => .ok (c, w)
        else .ok (c, w))
      else hookVis song d n c (prep w it) it := by
  simp only [hook]
  rfl


/-- an event whose operand needs no index space -/
def Plain (ev : MEv) : Prop :=
  ev.type ≠ mds_PAT ∧ ev.type ≠ mds_INS ∧ ev.type ≠ mds_PCM ∧ (ev.type = mds_PEG → ev.arg = 0) ∧ (ev.type = mds_MTAB → ev.arg = 0)

/-- platform commands inject no index-bearing opcode (`cmd` with a raw PAT/INS/PCM/PEG/MTAB is
outside the property: the song then names no instrument / track for that operand) -/
def PlatformClean (d : DataInfo) : Prop :=
  ∀ k evs, d.platform.lookup k = some (some evs) → ∀ ev ∈ evs, Plain ev

/-- the clamped routine number a drum-mode note carries -/
def drumArg (id : Int) : Int := if wrap16 id < 0 then 0 else wrap16 id

/-- `ev` is the note / DMFINISH event that calls drum routine `id` -/
def DrumRef (ev : MEv) (id : Int) : Prop :=
  (ev.type = mds_NOTE + (drumArg id).toNat ∧ drumArg id < 94) ∨ (ev.type = mds_DMFINISH ∧ ev.arg = u16 (drumArg id))

theorem flushRest_out (w : WState) : ∃ pre, (flushRest w).out = w.out ++ pre ∧ (∀ x ∈ pre, x.type = mds_REST) ∧
    (flushRest w).drumEnabled = w.drumEnabled ∧ (flushRest w).inDrum = w.inDrum ∧ (flushRest w).trackId = w.trackId := by
  unfold flushRest
  split
  · exact ⟨[⟨mds_REST, w.restTime⟩], rfl, by simp, rfl, rfl, rfl⟩
  · exact ⟨[], by simp, by simp, rfl, rfl, rfl⟩

theorem prep_out (w : WState) (it : TraceItem) : ∃ pre, (prep w it).out = w.out ++ pre ∧ (∀ x ∈ pre, x.type = mds_REST) ∧
    (prep w it).drumEnabled = w.drumEnabled ∧ (prep w it).inDrum = w.inDrum ∧ (prep w it).trackId = w.trackId := by
  obtain ⟨w1, hw1⟩ : ∃ w1, w1 = (if it.ev.type ≠ ev_REST then flushRest w else w) := ⟨_, rfl⟩
  have h1 : ∃ pre, w1.out = w.out ++ pre ∧ (∀ x ∈ pre, x.type = mds_REST) ∧ w1.drumEnabled = w.drumEnabled ∧ w1.inDrum = w.inDrum
      ∧ w1.trackId = w.trackId := by
    rw [hw1]; split
    · exact flushRest_out w
    · exact ⟨[], by simp, by simp, rfl, rfl, rfl⟩
  obtain ⟨w2, hw2⟩ : ∃ w2, w2 = (if w1.restTime + it.off > 0xffff then flushRest w1 else w1) := ⟨_, rfl⟩
  have h2 : ∃ pre, w2.out = w.out ++ pre ∧ (∀ x ∈ pre, x.type = mds_REST) ∧ w2.drumEnabled = w.drumEnabled ∧ w2.inDrum = w.inDrum
      ∧ w2.trackId = w.trackId := by
    obtain ⟨p1, e1, r1, d1, i1, t1⟩ := h1
    rw [hw2]; split
    · obtain ⟨p2, e2, r2, d2, i2, t2⟩ := flushRest_out w1
      refine ⟨p1 ++ p2, by rw [e2, e1, List.append_assoc], ?_, by rw [d2, d1], by rw [i2, i1], by rw [t2, t1]⟩
      intro x hx; rcases List.mem_append.mp hx with h | h
      · exact r1 x h
      · exact r2 x h
    · exact ⟨p1, e1, r1, d1, i1, t1⟩
  have : prep w it = { w2 with restTime := (w2.restTime + it.off) % 65536 } := by
    unfold prep; simp only [hw2, hw1]
  rw [this]
  exact h2

theorem plain_of_rest {x : MEv} (h : x.type = mds_REST) : Plain x := by
  refine ⟨?_, ?_, ?_, ?_, ?_⟩
  · rw [h]; decide
  · rw [h]; decide
  · rw [h]; decide
  · rw [h]; intro hc; exact absurd hc (by decide)
  · rw [h]; intro hc; exact absurd hc (by decide)

/-- which song event a data operand comes from: `key` is the `used_data_map` key the event's id
maps to (data-bank index, tagged 0x20000 for a PCM instrument, 0x10000 for an extended envelope) -/
def DataProv (d : DataInfo) (it : TraceItem) (key ty : Nat) : Prop :=
  (it.ev.type = ev_INS ∧ ∃ idx tyI, d.envelopeMap.lookup it.ev.param = some idx ∧ d.insType.lookup it.ev.param = some tyI ∧
    ((tyI ≠ mdsIns_INS_PCM ∧ key = idx ∧ ty = mds_INS) ∨ (tyI = mdsIns_INS_PCM ∧ key = 0x20000 + idx ∧ ty = mds_PCM))) ∨
  (it.ev.type = ev_PITCH_ENVELOPE ∧ it.ev.param ≠ 0 ∧ ∃ idx, d.pitchMap.lookup it.ev.param = some idx ∧
    key = (if d.pitchExtend.contains it.ev.param then 0x10000 + idx else idx) ∧ ty = mds_PEG)

/-- what a successful hook call does -/
inductive HookStep (song : Song) (d : DataInfo) (n : Nat) (c : Conv) (w : WState) (it : TraceItem) : Conv → WState → Prop
  | plain (w' : WState) (evs : List MEv) : w'.out = w.out ++ evs → (∀ ev ∈ evs, Plain ev) → HookStep song d n c w it c w'
  | drum (c' : Conv) (id : Int) (w' : WState) (pre : List MEv) (ev : MEv) :
      it.ev.type = ev_NOTE → w.drumEnabled = true →
      getSubroutine song d n c it.ev.param true false = .ok (c', id) →
      w'.out = w.out ++ pre ++ [ev] → (∀ x ∈ pre, Plain x) → DrumRef ev id → Plain ev → HookStep song d n c w it c' w'
  | jump (c' : Conv) (id : Int) (w' : WState) (pre : List MEv) :
      it.ev.type = ev_JUMP → getSubroutine song d n c it.ev.param false w.drumEnabled = .ok (c', id) →
      w'.out = w.out ++ pre ++ [⟨mds_PAT, u16 id⟩] → (∀ x ∈ pre, Plain x) → HookStep song d n c w it c' w'
  | data (key : Nat) (ty : Nat) (arg : Nat) (w' : WState) (pre : List MEv) :
      -- `ty`/`arg`: INS i | PCM i | PEG (i+1)
      ((ty = mds_INS ∨ ty = mds_PCM) ∧ arg = u16 (getEnvelope c key).2 ∨ ty = mds_PEG ∧ arg = u16 (wrap16 ((getEnvelope c key).2 + 1))) →
      w'.out = w.out ++ pre ++ [⟨ty, arg⟩] → (∀ x ∈ pre, Plain x) → DataProv d it key ty →
      HookStep song d n c w it (getEnvelope c key).1 w'
  | mtab (c' : Conv) (id : Int) (w' : WState) (pre : List MEv) :
      it.ev.type = ev_PAN_ENVELOPE → it.ev.param ≠ 0 → getMacroTrack song d n c it.ev.param = .ok (c', id) →
      w'.out = w.out ++ pre ++ [⟨mds_MTAB, u16 (wrap16 (id + 1))⟩] → (∀ x ∈ pre, Plain x) → HookStep song d n c w it c' w'

theorem plain_push (ty : Nat) (h : ty ≠ mds_PAT ∧ ty ≠ mds_INS ∧ ty ≠ mds_PCM ∧ ty ≠ mds_PEG ∧ ty ≠ mds_MTAB) (hlt : ty < 256) (a : Nat) :
    Plain ⟨ty % 256, a⟩ := by
  rw [Nat.mod_eq_of_lt hlt]
  exact ⟨h.1, h.2.1, h.2.2.1, fun x => absurd x h.2.2.2.1, fun x => absurd x h.2.2.2.2⟩


theorem plain_note (k a : Nat) (hk : k < 94) : Plain ⟨(mds_NOTE + k) % 256, a⟩ := by
  have e : (mds_NOTE + k) % 256 = 130 + k := by show (130 + k) % 256 = 130 + k; omega
  unfold Plain
  simp only [e, mds_PAT, mds_INS, mds_PCM, mds_PEG, mds_MTAB]
  refine ⟨by omega, by omega, by omega, fun hc => by omega, fun hc => by omega⟩

theorem plain_dmfinish (a : Nat) : Plain ⟨mds_DMFINISH % 256, a⟩ := by
  refine ⟨?_, ?_, ?_, ?_, ?_⟩
  · show mds_DMFINISH % 256 ≠ mds_PAT; decide
  · show mds_DMFINISH % 256 ≠ mds_INS; decide
  · show mds_DMFINISH % 256 ≠ mds_PCM; decide
  · intro hc; exact absurd (show mds_DMFINISH % 256 = mds_PEG from hc) (by decide)
  · intro hc; exact absurd (show mds_DMFINISH % 256 = mds_MTAB from hc) (by decide)

set_option hygiene false in
/-- a branch `.ok (c, push w1 ty arg)` (possibly with another field updated) with a plain opcode -/
macro "plain_case" : tactic => `(tactic| (
  simp only [Except.ok.injEq, Prod.mk.injEq] at h
  obtain ⟨rfl, rfl⟩ := h
  refine HookStep.plain _ (pre ++ [_]) (by simp [push, hpre]; rfl) ?_
  intro ev hev
  rcases List.mem_append.mp hev with hm | hm
  · exact plain_of_rest (hrest _ hm)
  · rw [List.mem_singleton] at hm; subst hm
    exact plain_push _ (by decide) (by decide) _))

theorem hook_step {song : Song} {d : DataInfo} (hpc : PlatformClean d) {n : Nat} {c c' : Conv} {w w' : WState} {it : TraceItem}
    (h : hook song d (n + 1) c w it = .ok (c', w')) : HookStep song d n c w it c' w' := by
  rw [hook_succ_eq] at h
  split at h
  · have hcw : c' = c ∧ w' = w := by
      split at h
      · split at h
        · simp at h
        · simp at h; exact ⟨h.1.symm, h.2.symm⟩
      · simp at h; exact ⟨h.1.symm, h.2.symm⟩
    obtain ⟨rfl, rfl⟩ := hcw
    exact HookStep.plain _ [] (by simp) (by simp)
  · obtain ⟨pre, hpre, hrest, hde, hid, _⟩ := prep_out w it
    generalize prep w it = w1 at *
    unfold hookVis at h
    by_cases t1 : it.ev.type = ev_TIE
    · rw [if_pos t1] at h; plain_case
    rw [if_neg t1] at h
    by_cases t2 : it.ev.type = ev_NOTE
    · rw [if_pos t2] at h
      by_cases hd : w1.drumEnabled = true
      · simp only [hd, if_true] at h
        cases hg : getSubroutine song d n c it.ev.param true false with
        | error x => rw [hg] at h; simp at h
        | ok p =>
          obtain ⟨c2, id⟩ := p
          rw [hg] at h
          simp only at h
          rw [show (if wrap16 id < 0 then 0 else wrap16 id) = drumArg id from rfl] at h
          have hwd : w.drumEnabled = true := by rw [← hde]; exact hd
          by_cases hin : w1.inDrum = true
          · rw [if_pos hin] at h
            by_cases htl : it.topLoop = true
            · rw [if_pos htl] at h; simp at h
            rw [if_neg htl] at h
            by_cases hgt : drumArg id > 255
            · rw [if_pos hgt] at h; simp at h
            · rw [if_neg hgt] at h
              simp only [Except.ok.injEq, Prod.mk.injEq] at h
              obtain ⟨rfl, rfl⟩ := h
              exact HookStep.drum _ id _ pre ⟨mds_DMFINISH % 256, u16 (drumArg id)⟩ t2 hwd hg (by simp [push, hpre])
                (fun x hx => plain_of_rest (hrest x hx)) (Or.inr ⟨(by decide : mds_DMFINISH % 256 = mds_DMFINISH), rfl⟩) (plain_dmfinish _)
          · rw [if_neg hin] at h
            by_cases hgt : drumArg id ≥ ((mds_SLR - mds_NOTE : Nat) : Int)
            · rw [if_pos hgt] at h; simp at h
            · rw [if_neg hgt] at h
              simp only [Except.ok.injEq, Prod.mk.injEq] at h
              obtain ⟨rfl, rfl⟩ := h
              have h94 : drumArg id < 94 := by
                have : ((mds_SLR - mds_NOTE : Nat) : Int) = 94 := by decide
                rw [this] at hgt; omega
              have h0 : 0 ≤ drumArg id := by unfold drumArg; split <;> omega
              have hk : (drumArg id).toNat < 94 := by omega
              refine HookStep.drum _ id _ pre ⟨(mds_NOTE + (drumArg id).toNat) % 256, u16 it.on⟩ t2 hwd hg (by simp [push, hpre])
                (fun x hx => plain_of_rest (hrest x hx)) (Or.inl ⟨?_, h94⟩) (plain_note _ _ hk)
              show (130 + (drumArg id).toNat) % 256 = 130 + (drumArg id).toNat
              omega
      · simp only [hd, Bool.false_eq_true, if_false] at h
        obtain ⟨q, hq⟩ : ∃ q, q = (if it.ev.param < 0 then 0 else it.ev.param) := ⟨_, rfl⟩
        have hq0 : 0 ≤ q := by rw [hq]; split <;> omega
        rw [← hq] at h
        by_cases hin : w1.inDrum = true
        · rw [if_pos hin] at h
          by_cases htl : it.topLoop = true
          · rw [if_pos htl] at h; simp at h
          rw [if_neg htl] at h
          by_cases hgt : q > 255
          · rw [if_pos hgt] at h; simp at h
          · rw [if_neg hgt] at h
            simp only [Except.ok.injEq, Prod.mk.injEq] at h
            obtain ⟨rfl, rfl⟩ := h
            refine HookStep.plain _ (pre ++ [_]) (by simp [push, hpre]; rfl) ?_
            intro ev hev
            rcases List.mem_append.mp hev with hm | hm
            · exact plain_of_rest (hrest _ hm)
            · rw [List.mem_singleton] at hm; subst hm; exact plain_dmfinish _
        · rw [if_neg hin] at h
          by_cases hgt : q ≥ ((mds_SLR - mds_NOTE : Nat) : Int)
          · rw [if_pos hgt] at h; simp at h
          · rw [if_neg hgt] at h
            simp only [Except.ok.injEq, Prod.mk.injEq] at h
            obtain ⟨rfl, rfl⟩ := h
            refine HookStep.plain _ (pre ++ [_]) (by simp [push, hpre]; rfl) ?_
            intro ev hev
            rcases List.mem_append.mp hev with hm | hm
            · exact plain_of_rest (hrest _ hm)
            · rw [List.mem_singleton] at hm; subst hm
              apply plain_note
              have : ((mds_SLR - mds_NOTE : Nat) : Int) = 94 := by decide
              rw [this] at hgt
              omega
    rw [if_neg t2] at h
    by_cases t3 : it.ev.type = ev_LOOP_START
    · rw [if_pos t3] at h; plain_case
    rw [if_neg t3] at h
    by_cases t4 : it.ev.type = ev_LOOP_BREAK
    · rw [if_pos t4] at h; plain_case
    rw [if_neg t4] at h
    by_cases t5 : it.ev.type = ev_LOOP_END
    · rw [if_pos t5] at h; plain_case
    rw [if_neg t5] at h
    by_cases t6 : it.ev.type = ev_SEGNO
    · rw [if_pos t6] at h; plain_case
    rw [if_neg t6] at h
    by_cases t7 : it.ev.type = ev_JUMP
    · rw [if_pos t7] at h
      cases hg : getSubroutine song d n c it.ev.param false w1.drumEnabled with
      | error x => rw [hg] at h; simp at h
      | ok p =>
        obtain ⟨c2, id⟩ := p
        rw [hg] at h
        simp only [Except.ok.injEq, Prod.mk.injEq] at h
        obtain ⟨rfl, rfl⟩ := h
        rw [hde] at hg
        exact HookStep.jump _ id _ pre t7 hg (by simp [push, hpre]; first | rfl | decide) (fun x hx => plain_of_rest (hrest x hx))
    rw [if_neg t7] at h
    by_cases t8 : it.ev.type = ev_SLUR
    · rw [if_pos t8] at h; plain_case
    rw [if_neg t8] at h
    by_cases t9 : it.ev.type = ev_PLATFORM
    · rw [if_pos t9] at h
      cases hl : d.platform.lookup it.ev.param with
      | none => rw [hl] at h; simp at h
      | some o =>
        cases o with
        | none => rw [hl] at h; simp at h
        | some evs =>
          rw [hl] at h
          simp only [Except.ok.injEq, Prod.mk.injEq] at h
          obtain ⟨rfl, rfl⟩ := h
          refine HookStep.plain _ (pre ++ evs) (by simp [hpre]) ?_
          intro ev hev
          rcases List.mem_append.mp hev with hm | hm
          · exact plain_of_rest (hrest _ hm)
          · exact hpc _ _ hl ev hm
    rw [if_neg t9] at h
    by_cases t10 : it.ev.type = ev_TRANSPOSE_REL
    · rw [if_pos t10] at h; plain_case
    rw [if_neg t10] at h
    by_cases t11 : it.ev.type = ev_VOL
    · rw [if_pos t11] at h; plain_case
    rw [if_neg t11] at h
    by_cases t12 : it.ev.type = ev_VOL_REL ∨ it.ev.type = ev_VOL_FINE_REL
    · rw [if_pos t12] at h; plain_case
    rw [if_neg t12] at h
    by_cases t13 : it.ev.type = ev_TEMPO_BPM
    · rw [if_pos t13] at h; plain_case
    rw [if_neg t13] at h
    by_cases t14 : it.ev.type = ev_INS
    · rw [if_pos t14] at h
      cases hc : checkInstrument d w1.trackId it.ev.param with
      | error x => rw [hc] at h; simp at h
      | ok u =>
        rw [hc] at h
        cases h1 : d.insType.lookup it.ev.param with
        | none => rw [h1] at h; simp at h
        | some ty =>
          cases h2 : d.envelopeMap.lookup it.ev.param with
          | none => rw [h1, h2] at h; simp at h
          | some idx =>
            rw [h1, h2] at h
            by_cases hp : ty ≠ mdsIns_INS_PCM
            · simp only [if_pos hp, Except.ok.injEq, Prod.mk.injEq] at h
              obtain ⟨rfl, rfl⟩ := h
              exact HookStep.data idx mds_INS _ _ pre (Or.inl ⟨Or.inl rfl, rfl⟩) (by simp [push, hpre]; first | rfl | decide)
                (fun x hx => plain_of_rest (hrest x hx)) (Or.inl ⟨t14, idx, ty, h2, h1, Or.inl ⟨hp, rfl, rfl⟩⟩)
            · simp only [if_neg hp, Except.ok.injEq, Prod.mk.injEq] at h
              obtain ⟨rfl, rfl⟩ := h
              exact HookStep.data (0x20000 + idx) mds_PCM _ _ pre (Or.inl ⟨Or.inr rfl, rfl⟩) (by simp [push, hpre]; first | rfl | decide)
                (fun x hx => plain_of_rest (hrest x hx)) (Or.inl ⟨t14, idx, ty, h2, h1, Or.inr ⟨Decidable.not_not.mp hp, rfl, rfl⟩⟩)
    rw [if_neg t14] at h
    by_cases t15 : it.ev.type = ev_TRANSPOSE
    · rw [if_pos t15] at h; plain_case
    rw [if_neg t15] at h
    by_cases t16 : it.ev.type = ev_DETUNE
    · rw [if_pos t16] at h; plain_case
    rw [if_neg t16] at h
    by_cases t17 : it.ev.type = ev_VOL_FINE
    · rw [if_pos t17] at h; plain_case
    rw [if_neg t17] at h
    by_cases t18 : it.ev.type = ev_PAN
    · rw [if_pos t18] at h; plain_case
    rw [if_neg t18] at h
    by_cases t19 : it.ev.type = ev_PAN_ENVELOPE
    · rw [if_pos t19] at h
      by_cases hp : it.ev.param ≠ 0
      · rw [if_pos hp] at h
        cases hg : getMacroTrack song d n c it.ev.param with
        | error x => rw [hg] at h; simp at h
        | ok p =>
          obtain ⟨c2, id⟩ := p
          rw [hg] at h
          simp only [Except.ok.injEq, Prod.mk.injEq] at h
          obtain ⟨rfl, rfl⟩ := h
          exact HookStep.mtab _ id _ pre t19 hp hg (by simp [push, hpre]; first | rfl | decide) (fun x hx => plain_of_rest (hrest x hx))
      · rw [if_neg hp] at h
        simp only [Except.ok.injEq, Prod.mk.injEq] at h
        obtain ⟨rfl, rfl⟩ := h
        refine HookStep.plain _ (pre ++ [_]) (by simp [push, hpre]; first | rfl | decide) ?_
        intro ev hev
        rcases List.mem_append.mp hev with hm | hm
        · exact plain_of_rest (hrest _ hm)
        · rw [List.mem_singleton] at hm; subst hm
          exact ⟨by decide, by decide, by decide, fun _ => rfl, fun _ => rfl⟩
    rw [if_neg t19] at h
    by_cases t20 : it.ev.type = ev_PITCH_ENVELOPE
    · rw [if_pos t20] at h
      by_cases hp : it.ev.param ≠ 0
      · rw [if_pos hp] at h
        cases hl : d.pitchMap.lookup it.ev.param with
        | none => rw [hl] at h; simp at h
        | some idx =>
          rw [hl] at h
          simp only [Except.ok.injEq, Prod.mk.injEq] at h
          obtain ⟨rfl, rfl⟩ := h
          exact HookStep.data (if d.pitchExtend.contains it.ev.param then 0x10000 + idx else idx) mds_PEG _ _ pre
            (Or.inr ⟨rfl, rfl⟩) (by simp [push, hpre]; first | rfl | decide) (fun x hx => plain_of_rest (hrest x hx))
            (Or.inr ⟨t20, hp, idx, hl, rfl, rfl⟩)
      · rw [if_neg hp] at h
        simp only [Except.ok.injEq, Prod.mk.injEq] at h
        obtain ⟨rfl, rfl⟩ := h
        refine HookStep.plain _ (pre ++ [_]) (by simp [push, hpre]; first | rfl | decide) ?_
        intro ev hev
        rcases List.mem_append.mp hev with hm | hm
        · exact plain_of_rest (hrest _ hm)
        · rw [List.mem_singleton] at hm; subst hm
          exact ⟨by decide, by decide, by decide, fun _ => rfl, fun _ => rfl⟩
    rw [if_neg t20] at h
    by_cases t21 : it.ev.type = ev_PORTAMENTO
    · rw [if_pos t21] at h; plain_case
    rw [if_neg t21] at h
    by_cases t22 : it.ev.type = ev_DRUM_MODE
    · rw [if_pos t22] at h; plain_case
    rw [if_neg t22] at h
    by_cases t23 : it.ev.type = ev_TEMPO
    · rw [if_pos t23] at h; plain_case
    rw [if_neg t23] at h
    simp only [Except.ok.injEq, Prod.mk.injEq] at h
    obtain ⟨rfl, rfl⟩ := h
    exact HookStep.plain _ pre hpre (fun x hx => plain_of_rest (hrest x hx))

end Ctrmml.Mds
