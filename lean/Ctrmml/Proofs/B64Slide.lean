/-
  C11, PSG slides in IEEE binary64: helper lemmas for `C11_psg_slide_binary64`
  (`SlideOK Arith.b64`).  No property statements.

  Plan.  All values of a slide are multiples of 2^-60 (`fix` = value * 2^60):
  * `round_small` / `round_big`: `B64.round` of an integer (den = 1) is exact below 2^53 and
    otherwise within half a unit of the last kept bit;
  * `add_fix`: a sum whose exact value X lies in [1/2, 16) is returned within 2^11 * 2^-60 of X;
  * the per-frame step `delta = fl(d / m)` is known by kernel evaluation for all 31 * 254 pairs
    (`deltaTable`), the start `initial + 0.5` for the 16 initial levels (`startTable`);
  * `chain_up` / `chain_down`: by induction over the frames the counter stays within
    `k * 2^11` of `initial + 0.5 + k * delta`, which keeps every truncated frame between the two
    levels and the sequence monotone.
-/
import Ctrmml.Proofs.MdsData
namespace Ctrmml.MdsData
open Ctrmml.MdsSpec
namespace B64

/-! ## `round` on integers -/

theorem log2_one : Nat.log2 1 = 0 := by decide

theorem scale_one_small (n : Nat) (hn : n ≠ 0) (hL : Nat.log2 n ≤ 52) :
    scale n 1 = ((52 - Nat.log2 n : Nat) : Int) := by
  have h1 : 2 ^ Nat.log2 n ≤ n := Nat.log2_self_le hn
  unfold scale
  simp only [log2_one]
  have hk0 : (52 : Int) - ((Nat.log2 n : Int) - ((0 : Nat) : Int)) = ((52 - Nat.log2 n : Nat) : Int) := by omega
  rw [hk0]
  have e1 : (((52 - Nat.log2 n : Nat) : Int)).toNat = 52 - Nat.log2 n := by omega
  have e2 : (-((52 - Nat.log2 n : Nat) : Int)).toNat = 0 := by omega
  rw [e1, e2]
  have : ¬ (n <<< (52 - Nat.log2 n) / 1 <<< 0 < p52) := by
    simp only [Nat.shiftLeft_eq, Nat.pow_zero, Nat.mul_one, Nat.div_one]
    have : 2 ^ Nat.log2 n * 2 ^ (52 - Nat.log2 n) ≤ n * 2 ^ (52 - Nat.log2 n) := Nat.mul_le_mul_right _ h1
    rw [← Nat.pow_add] at this
    have e : Nat.log2 n + (52 - Nat.log2 n) = 52 := by omega
    rw [e] at this
    simp only [p52]
    omega
  rw [if_neg this]

theorem scale_one_big (n : Nat) (hn : n ≠ 0) (hL : 53 ≤ Nat.log2 n) :
    scale n 1 = -((Nat.log2 n - 52 : Nat) : Int) := by
  have h1 : 2 ^ Nat.log2 n ≤ n := Nat.log2_self_le hn
  unfold scale
  simp only [log2_one]
  have hk0 : (52 : Int) - ((Nat.log2 n : Int) - ((0 : Nat) : Int)) = -((Nat.log2 n - 52 : Nat) : Int) := by omega
  rw [hk0]
  have e1 : (-((Nat.log2 n - 52 : Nat) : Int)).toNat = 0 := by omega
  have e2 : (- -((Nat.log2 n - 52 : Nat) : Int)).toNat = Nat.log2 n - 52 := by omega
  rw [e1, e2]
  have : ¬ (n <<< 0 / 1 <<< (Nat.log2 n - 52) < p52) := by
    simp only [Nat.shiftLeft_eq, Nat.pow_zero, Nat.mul_one, Nat.one_mul]
    have e : Nat.log2 n = 52 + (Nat.log2 n - 52) := by omega
    rw [e, Nat.pow_add] at h1
    have hp : 0 < 2 ^ (Nat.log2 n - 52) := Nat.pow_pos (by decide)
    have : 2 ^ 52 ≤ n / 2 ^ (Nat.log2 n - 52) := (Nat.le_div_iff_mul_le hp).mpr (by simpa using h1)
    simp only [p52]
    omega
  rw [if_neg this]

/-- below 2^53 an integer is returned exactly (shifted to 53 bits) -/
theorem round_small (neg : Bool) (n : Nat) (ex : Int) (hn : n ≠ 0) (hL : Nat.log2 n ≤ 52) :
    round neg n 1 ex = ⟨neg, n * 2 ^ (52 - Nat.log2 n), ex - ((52 - Nat.log2 n : Nat) : Int)⟩ := by
  have h2 : n < 2 ^ (Nat.log2 n + 1) := Nat.lt_log2_self
  unfold round
  have h0 : ¬ (n = 0 ∨ 1 = 0) := by omega
  rw [if_neg h0]
  simp only [scale_one_small n hn hL]
  have e1 : (((52 - Nat.log2 n : Nat) : Int)).toNat = 52 - Nat.log2 n := by omega
  have e2 : (-((52 - Nat.log2 n : Nat) : Int)).toNat = 0 := by omega
  rw [e1, e2]
  simp only [Nat.shiftLeft_eq, Nat.pow_zero, Nat.mul_one, Nat.div_one, Nat.mod_one]
  have hr : rne (n * 2 ^ (52 - Nat.log2 n)) 0 1 = n * 2 ^ (52 - Nat.log2 n) := by
    simp [rne]
  rw [hr]
  have hlt : n * 2 ^ (52 - Nat.log2 n) < p53 := by
    have : n * 2 ^ (52 - Nat.log2 n) < 2 ^ (Nat.log2 n + 1) * 2 ^ (52 - Nat.log2 n) :=
      Nat.mul_lt_mul_of_lt_of_le h2 (Nat.le_refl _) (Nat.pow_pos (by decide))
    rw [← Nat.pow_add] at this
    have e : Nat.log2 n + 1 + (52 - Nat.log2 n) = 53 := by omega
    rw [e] at this
    simpa [p53] using this
  unfold pack
  rw [if_neg (by omega)]

/-- nearest-even keeps the quotient within half a divisor -/
theorem rne_bound (n P : Nat) (hP : 0 < P) :
    2 * (P * rne (n / P) (n % P) P) ≤ 2 * n + P ∧ 2 * n ≤ 2 * (P * rne (n / P) (n % P) P) + P := by
  have h1 := Nat.div_add_mod n P
  have h2 := Nat.mod_lt n hP
  have h3 : P * (n / P + 1) = P * (n / P) + P := Nat.mul_succ _ _
  unfold rne
  split
  · rw [h3]; omega
  · split
    · split
      · omega
      · rw [h3]; omega
    · omega

/-- from 2^53 on an integer is rounded at the bit `L - 52`: the result is `q' * 2^(L-52)` with
`q'` within half a unit of `n / 2^(L-52)` -/
theorem round_big (neg : Bool) (n : Nat) (ex : Int) (hn : n ≠ 0) (hL : 53 ≤ Nat.log2 n) :
    ∃ r : B64, round neg n 1 ex = r ∧ r.neg = neg ∧
      ∃ j : Nat, r.e = ex + ((Nat.log2 n - 52 : Nat) : Int) + (j : Int) ∧
        2 * (2 ^ (Nat.log2 n - 52) * (r.m * 2 ^ j)) ≤ 2 * n + 2 ^ (Nat.log2 n - 52) ∧
        2 * n ≤ 2 * (2 ^ (Nat.log2 n - 52) * (r.m * 2 ^ j)) + 2 ^ (Nat.log2 n - 52) := by
  unfold round
  have h0 : ¬ (n = 0 ∨ 1 = 0) := by omega
  rw [if_neg h0]
  simp only [scale_one_big n hn hL]
  have e1 : (-((Nat.log2 n - 52 : Nat) : Int)).toNat = 0 := by omega
  have e2 : (- -((Nat.log2 n - 52 : Nat) : Int)).toNat = Nat.log2 n - 52 := by omega
  rw [e1, e2]
  simp only [Nat.shiftLeft_eq, Nat.pow_zero, Nat.mul_one, Nat.one_mul]
  have hP : 0 < 2 ^ (Nat.log2 n - 52) := Nat.pow_pos (by decide)
  obtain ⟨b1, b2⟩ := rne_bound n (2 ^ (Nat.log2 n - 52)) hP
  generalize rne (n / 2 ^ (Nat.log2 n - 52)) (n % 2 ^ (Nat.log2 n - 52)) (2 ^ (Nat.log2 n - 52)) = q at b1 b2
  unfold pack
  by_cases hq : q = p53
  · rw [if_pos hq]
    refine ⟨_, rfl, rfl, 1, by simp only []; omega, ?_, ?_⟩
    · have : p52 * 2 ^ 1 = q := by rw [hq]; decide
      simp only [this]; exact b1
    · have : p52 * 2 ^ 1 = q := by rw [hq]; decide
      simp only [this]; exact b2
  · rw [if_neg hq]
    refine ⟨_, rfl, rfl, 0, by simp only []; omega, ?_, ?_⟩
    · simpa using b1
    · simpa using b2

/-! ## fixed point view: value * 2^60 -/

/-- `|c| * 2^60` (an integer when `-60 ≤ c.e`) -/
def fix (c : B64) : Nat := c.m * 2 ^ (c.e + 60).toNat

theorem two_pow_lt {a b : Nat} (h : 2 ^ a < 2 ^ b) : a < b := (Nat.pow_lt_pow_iff_right (by decide)).mp h

/-- an integer `n` at exponent `ex ≥ -60` whose value lies in [1/2, 16): the rounded result is
non-negative-exponent-safe (`-60 ≤ e`) and within 2^11 units of 2^-60 of the exact value -/
theorem round_fix (neg : Bool) (n : Nat) (ex : Int) (hex : -60 ≤ ex)
    (hlo : 2 ^ 59 ≤ n * 2 ^ (ex + 60).toNat) (hhi : n * 2 ^ (ex + 60).toNat < 2 ^ 64) :
    (round neg n 1 ex).neg = neg ∧ -60 ≤ (round neg n 1 ex).e ∧
      fix (round neg n 1 ex) ≤ n * 2 ^ (ex + 60).toNat + 2 ^ 11 ∧
      n * 2 ^ (ex + 60).toNat ≤ fix (round neg n 1 ex) + 2 ^ 11 := by
  have hn : n ≠ 0 := by
    intro h; rw [h] at hlo; simp at hlo
  have h1 : 2 ^ Nat.log2 n ≤ n := Nat.log2_self_le hn
  have h2 : n < 2 ^ (Nat.log2 n + 1) := Nat.lt_log2_self
  generalize hs : (ex + 60).toNat = s at hlo hhi
  have hT : 0 < 2 ^ s := Nat.pow_pos (by decide)
  -- L + s < 64
  have hLs : Nat.log2 n + s < 64 := by
    have : 2 ^ Nat.log2 n * 2 ^ s ≤ n * 2 ^ s := Nat.mul_le_mul_right _ h1
    rw [← Nat.pow_add] at this
    exact two_pow_lt (Nat.lt_of_le_of_lt this hhi)
  -- 59 ≤ L + s
  have hLs' : 59 ≤ Nat.log2 n + s := by
    have : n * 2 ^ s < 2 ^ (Nat.log2 n + 1) * 2 ^ s := Nat.mul_lt_mul_of_lt_of_le h2 (Nat.le_refl _) hT
    rw [← Nat.pow_add] at this
    have := two_pow_lt (Nat.lt_of_le_of_lt hlo this)
    omega
  by_cases hL : Nat.log2 n ≤ 52
  · rw [round_small neg n ex hn hL]
    refine ⟨rfl, by simp only []; omega, ?_⟩
    have hfx : fix ⟨neg, n * 2 ^ (52 - Nat.log2 n), ex - ((52 - Nat.log2 n : Nat) : Int)⟩ = n * 2 ^ s := by
      unfold fix
      simp only []
      have e : (ex - ((52 - Nat.log2 n : Nat) : Int) + 60).toNat = s - (52 - Nat.log2 n) := by omega
      rw [e, Nat.mul_assoc, ← Nat.pow_add]
      have e' : 52 - Nat.log2 n + (s - (52 - Nat.log2 n)) = s := by omega
      rw [e']
    rw [hfx]
    omega
  · have hL' : 53 ≤ Nat.log2 n := by omega
    obtain ⟨r, hr, hneg, j, he, b1, b2⟩ := round_big neg n ex hn hL'
    rw [hr]
    refine ⟨hneg, by omega, ?_⟩
    have hfx : fix r = 2 ^ (Nat.log2 n - 52) * (r.m * 2 ^ j) * 2 ^ s := by
      unfold fix
      have e : (r.e + 60).toNat = j + ((Nat.log2 n - 52) + s) := by omega
      rw [e, Nat.pow_add, Nat.pow_add]
      ac_rfl
    have hPT : 2 ^ (Nat.log2 n - 52) * 2 ^ s ≤ 2 ^ 11 := by
      rw [← Nat.pow_add]
      exact Nat.pow_le_pow_right (by decide) (by omega)
    have c1 := Nat.mul_le_mul_right (2 ^ s) b1
    have c2 := Nat.mul_le_mul_right (2 ^ s) b2
    rw [Nat.add_mul, Nat.mul_assoc 2, Nat.mul_assoc 2] at c1 c2
    rw [hfx]
    generalize 2 ^ (Nat.log2 n - 52) * (r.m * 2 ^ j) * 2 ^ s = W at c1 c2 ⊢
    generalize 2 ^ (Nat.log2 n - 52) * 2 ^ s = PT at c1 c2 hPT
    generalize n * 2 ^ s = X at c1 c2 hlo hhi ⊢
    omega

/-- alignment: a significand shifted to a smaller exponent has the same fixed point value -/
theorem fix_align (m : Nat) (e em : Int) (h1 : em ≤ e) (h2 : -60 ≤ em) :
    m <<< (e - em).toNat * 2 ^ (em + 60).toNat = m * 2 ^ (e + 60).toNat := by
  rw [Nat.shiftLeft_eq, Nat.mul_assoc, ← Nat.pow_add]
  have : (e - em).toNat + (em + 60).toNat = (e + 60).toNat := by omega
  rw [this]

/-- `c + d` for non-negative `c`, `d` at exponents ≥ -60 with the exact sum in [1/2, 16) -/
theorem add_fix_pos (a b : B64) (ha : a.neg = false) (hb : b.neg = false) (hae : -60 ≤ a.e) (hbe : -60 ≤ b.e)
    (hlo : 2 ^ 59 ≤ fix a + fix b) (hhi : fix a + fix b < 2 ^ 64) :
    (add a b).neg = false ∧ -60 ≤ (add a b).e ∧
      fix (add a b) ≤ fix a + fix b + 2 ^ 11 ∧ fix a + fix b ≤ fix (add a b) + 2 ^ 11 := by
  unfold add
  simp only [ha, hb, beq_self_eq_true, if_true]
  generalize hem : (if a.e ≤ b.e then a.e else b.e) = em
  have hm1 : em ≤ a.e := by rw [← hem]; split <;> omega
  have hm2 : em ≤ b.e := by rw [← hem]; split <;> omega
  have hm3 : -60 ≤ em := by rw [← hem]; split <;> omega
  have hX : (a.m <<< (a.e - em).toNat + b.m <<< (b.e - em).toNat) * 2 ^ (em + 60).toNat = fix a + fix b := by
    rw [Nat.add_mul, fix_align _ _ _ hm1 hm3, fix_align _ _ _ hm2 hm3]
    rfl
  have := round_fix false (a.m <<< (a.e - em).toNat + b.m <<< (b.e - em).toNat) em hm3 (by rw [hX]; exact hlo) (by rw [hX]; exact hhi)
  rw [hX] at this
  exact this

/-- `c - |d|` for `c ≥ 0`, `d < 0` at exponents ≥ -60 with the exact difference in [1/2, 16) -/
theorem add_fix_neg (a b : B64) (ha : a.neg = false) (hb : b.neg = true) (hae : -60 ≤ a.e) (hbe : -60 ≤ b.e)
    (hlo : 2 ^ 59 + fix b ≤ fix a) (hhi : fix a < 2 ^ 64 + fix b) :
    (add a b).neg = false ∧ -60 ≤ (add a b).e ∧
      fix (add a b) + fix b ≤ fix a + 2 ^ 11 ∧ fix a ≤ fix (add a b) + fix b + 2 ^ 11 := by
  unfold add
  have hne : (a.neg == b.neg) = false := by rw [ha, hb]; rfl
  simp only [hne, Bool.false_eq_true, if_false]
  generalize hem : (if a.e ≤ b.e then a.e else b.e) = em
  have hm1 : em ≤ a.e := by rw [← hem]; split <;> omega
  have hm2 : em ≤ b.e := by rw [← hem]; split <;> omega
  have hm3 : -60 ≤ em := by rw [← hem]; split <;> omega
  have hxa : a.m <<< (a.e - em).toNat * 2 ^ (em + 60).toNat = fix a := fix_align _ _ _ hm1 hm3
  have hxb : b.m <<< (b.e - em).toNat * 2 ^ (em + 60).toNat = fix b := fix_align _ _ _ hm2 hm3
  have hT : 0 < 2 ^ (em + 60).toNat := Nat.pow_pos (by decide)
  have hge : a.m <<< (a.e - em).toNat ≥ b.m <<< (b.e - em).toNat := by
    apply Nat.le_of_mul_le_mul_right _ hT
    rw [hxa, hxb]; omega
  rw [if_pos hge]
  have hX : (a.m <<< (a.e - em).toNat - b.m <<< (b.e - em).toNat) * 2 ^ (em + 60).toNat = fix a - fix b := by
    rw [Nat.sub_mul, hxa, hxb]
  have := round_fix a.neg (a.m <<< (a.e - em).toNat - b.m <<< (b.e - em).toNat) em hm3
    (by rw [hX]; omega) (by rw [hX]; omega)
  rw [hX, ha] at this
  rw [ha]
  obtain ⟨t1, t2, t3, t4⟩ := this
  exact ⟨t1, t2, by omega, by omega⟩

/-- `(int)c` of a non-negative `c` at an exponent ≥ -60 is the integer part of the fixed point value -/
theorem trunc_fix (c : B64) (hn : c.neg = false) (he : -60 ≤ c.e) (hhi : fix c < 2 ^ 64) :
    trunc c = ((fix c / 2 ^ 60 : Nat) : Int) := by
  have ht : truncNat c = fix c / 2 ^ 60 := by
    unfold truncNat fix
    by_cases h0 : c.e ≥ 0
    · rw [if_pos h0, Nat.shiftLeft_eq]
      have e : (c.e + 60).toNat = c.e.toNat + 60 := by omega
      rw [e, Nat.pow_add, ← Nat.mul_assoc, Nat.mul_div_cancel _ (Nat.pow_pos (by decide))]
    · rw [if_neg h0, Nat.shiftRight_eq_div_pow]
      have e : 60 = (c.e + 60).toNat + (-c.e).toNat := by omega
      have e60 : (2 : Nat) ^ 60 = 2 ^ (c.e + 60).toNat * 2 ^ (-c.e).toNat := by rw [← Nat.pow_add, ← e]
      rw [e60, Nat.mul_comm c.m, Nat.mul_div_mul_left _ _ (Nat.pow_pos (by decide))]
  unfold trunc
  simp only [hn, Bool.false_eq_true, if_false, ht]
  have : fix c / 2 ^ 60 < 16 := by omega
  split
  · omega
  · split <;> omega

/-! ## the finite tables: start values and per-frame steps (kernel evaluation) -/

/-- `initial + 0.5` -/
def start (i : Nat) : B64 := Arith.b64.add (Arith.b64.ofInt (i : Int)) Arith.b64.half

def startOk (i : Nat) : Bool :=
  (start i).neg == false && decide (-60 ≤ (start i).e) && decide (fix (start i) = i * 2 ^ 60 + 2 ^ 59) &&
    (Arith.b64.add (start i) zero == start i)

theorem startTable : (List.range 16).all startOk = true := by decide +kernel

theorem start_spec (i : Nat) (hi : i ≤ 15) :
    (start i).neg = false ∧ -60 ≤ (start i).e ∧ fix (start i) = i * 2 ^ 60 + 2 ^ 59 ∧
      B64.add (start i) zero = start i := by
  have h := List.all_eq_true.mp startTable i (List.mem_range.mpr (by omega))
  simp only [startOk, Bool.and_eq_true, beq_iff_eq, decide_eq_true_eq] at h
  exact ⟨h.1.1.1, h.1.1.2, h.1.2, h.2⟩

/-- `(double)(±d) / m` -/
def stepUp (d m : Nat) : B64 := Arith.b64.divNat (Arith.b64.ofInt (d : Int)) m
def stepDown (d m : Nat) : B64 := Arith.b64.divNat (Arith.b64.ofInt (-(d : Int))) m

/-- the step is non-negative, a multiple of 2^-60, at least 2^-8, within `2^11 * 2^-60` of `d/m`
(multiplied through by `m`), and the step of `-d` is its negation -/
def stepOk (d m : Nat) : Bool :=
  (stepUp d m).neg == false && decide (-60 ≤ (stepUp d m).e) && decide (2 ^ 52 ≤ fix (stepUp d m)) &&
    decide (m * fix (stepUp d m) ≤ d * 2 ^ 60 + m * 2 ^ 11) && decide (d * 2 ^ 60 ≤ m * fix (stepUp d m) + m * 2 ^ 11) &&
    (stepDown d m == ⟨true, (stepUp d m).m, (stepUp d m).e⟩)

theorem stepTable : ((List.range' 1 15).all fun d => (List.range' 1 254).all fun m => stepOk d m) = true := by
  decide +kernel

theorem step_spec (d m : Nat) (hd1 : 1 ≤ d) (hd : d ≤ 15) (hm1 : 1 ≤ m) (hm : m ≤ 254) :
    (stepUp d m).neg = false ∧ -60 ≤ (stepUp d m).e ∧ 2 ^ 52 ≤ fix (stepUp d m) ∧
      m * fix (stepUp d m) ≤ d * 2 ^ 60 + m * 2 ^ 11 ∧ d * 2 ^ 60 ≤ m * fix (stepUp d m) + m * 2 ^ 11 ∧
      (stepDown d m).neg = true ∧ (stepDown d m).e = (stepUp d m).e ∧ fix (stepDown d m) = fix (stepUp d m) := by
  have h := List.all_eq_true.mp stepTable d (List.mem_range'_1.mpr (by omega))
  have h := List.all_eq_true.mp h m (List.mem_range'_1.mpr (by omega))
  simp only [stepOk, Bool.and_eq_true, beq_iff_eq, decide_eq_true_eq] at h
  obtain ⟨⟨⟨⟨⟨h1, h2⟩, h3⟩, h4⟩, h5⟩, h6⟩ := h
  refine ⟨h1, h2, h3, h4, h5, ?_, ?_, ?_⟩
  · rw [h6]
  · rw [h6]
  · rw [h6]; rfl

/-! ## monotone frame lists -/

/-- `l` is non-decreasing, starts at `p` or above and ends with `hi` -/
def UpFrom (hi : Nat) : Nat → List Nat → Prop
  | _, [] => False
  | p, [x] => x = hi ∧ p ≤ x
  | p, x :: y :: r => p ≤ x ∧ UpFrom hi x (y :: r)

/-- `l` is non-increasing, starts at `p` or below and ends with `lo` -/
def DownFrom (lo : Nat) : Nat → List Nat → Prop
  | _, [] => False
  | p, [x] => x = lo ∧ x ≤ p
  | p, x :: y :: r => x ≤ p ∧ DownFrom lo x (y :: r)

theorem up_props (hi : Nat) (l : List Nat) (p : Nat) (h : UpFrom hi p l) :
    l.getLast? = some hi ∧ (∀ v ∈ l, p ≤ v ∧ v ≤ hi) ∧ (l.zip (l.drop 1)).all (fun q => decide (q.1 ≤ q.2)) = true := by
  induction l generalizing p with
  | nil => exact absurd h (by simp [UpFrom])
  | cons x r ih =>
    cases r with
    | nil =>
      simp only [UpFrom] at h
      obtain ⟨rfl, h2⟩ := h
      simp; omega
    | cons y r' =>
      simp only [UpFrom] at h
      obtain ⟨h1, h2⟩ := h
      obtain ⟨i1, i2, i3⟩ := ih x h2
      refine ⟨by simpa using i1, ?_, ?_⟩
      · intro v hv
        rcases List.mem_cons.mp hv with rfl | hv
        · have := i2 y (by simp)
          omega
        · have := i2 v hv
          omega
      · have := (i2 y (by simp)).1
        simp only [List.drop_succ_cons, List.drop_zero, List.zip_cons_cons, List.all_cons, Bool.and_eq_true,
          decide_eq_true_eq]
        refine ⟨this, ?_⟩
        simpa using i3

theorem down_props (lo : Nat) (l : List Nat) (p : Nat) (h : DownFrom lo p l) :
    l.getLast? = some lo ∧ (∀ v ∈ l, lo ≤ v ∧ v ≤ p) ∧ (l.zip (l.drop 1)).all (fun q => decide (q.1 ≥ q.2)) = true := by
  induction l generalizing p with
  | nil => exact absurd h (by simp [DownFrom])
  | cons x r ih =>
    cases r with
    | nil =>
      simp only [DownFrom] at h
      obtain ⟨rfl, h2⟩ := h
      simp; omega
    | cons y r' =>
      simp only [DownFrom] at h
      obtain ⟨h1, h2⟩ := h
      obtain ⟨i1, i2, i3⟩ := ih x h2
      refine ⟨by simpa using i1, ?_, ?_⟩
      · intro v hv
        rcases List.mem_cons.mp hv with rfl | hv
        · have := i2 y (by simp)
          omega
        · have := i2 v hv
          omega
      · have := (i2 y (by simp)).2
        simp only [List.drop_succ_cons, List.drop_zero, List.zip_cons_cons, List.all_cons, Bool.and_eq_true,
          decide_eq_true_eq]
        refine ⟨this, ?_⟩
        simpa using i3

theorem shape_of_up (i t n : Nat) (l : List Nat) (hit : i ≤ t) (hlen : l.length = n)
    (hhead : 2 ≤ n → l.head? = some i) (h : UpFrom t i l) : slideShape i t n l = true := by
  obtain ⟨h1, h2, h3⟩ := up_props t l i h
  simp only [slideShape, monotone, Bool.and_eq_true, beq_iff_eq, Bool.or_eq_true, decide_eq_true_eq, List.all_eq_true]
  refine ⟨⟨⟨⟨hlen, ?_⟩, h1⟩, Or.inl (by simpa [List.all_eq_true] using h3)⟩, ?_⟩
  · by_cases hn : n < 2
    · exact Or.inl hn
    · exact Or.inr (hhead (by omega))
  · intro v hv
    have := h2 v hv
    rw [Nat.min_def, Nat.max_def]
    split <;> omega

theorem shape_of_down (i t n : Nat) (l : List Nat) (hit : t ≤ i) (hlen : l.length = n)
    (hhead : 2 ≤ n → l.head? = some i) (h : DownFrom t i l) : slideShape i t n l = true := by
  obtain ⟨h1, h2, h3⟩ := down_props t l i h
  simp only [slideShape, monotone, Bool.and_eq_true, beq_iff_eq, Bool.or_eq_true, decide_eq_true_eq, List.all_eq_true]
  refine ⟨⟨⟨⟨hlen, ?_⟩, h1⟩, Or.inr (by simpa [List.all_eq_true] using h3)⟩, ?_⟩
  · by_cases hn : n < 2
    · exact Or.inl hn
    · exact Or.inr (hhead (by omega))
  · intro v hv
    have := h2 v hv
    rw [Nat.min_def, Nat.max_def]
    split <;> omega

/-! ## the frames of a slide -/

theorem slideVals_length {α} (A : Arith α) (t : Nat) (d : α) (n : Nat) (c : α) : (slideVals A t d n c).length = n := by
  induction n generalizing c with
  | zero => rfl
  | succ n ih => simp [slideVals, ih]

theorem slideVals_one {α} (A : Arith α) (t : Nat) (d c : α) : slideVals A t d 1 c = [t] := by
  simp [slideVals, frameVal]

/-- a frame that is not the last one is the integer part of the counter -/
theorem frame_fix (t n : Nat) (c : B64) (hn : n ≠ 0) (hneg : c.neg = false) (he : -60 ≤ c.e) (hhi : fix c < 2 ^ 64) :
    frameVal Arith.b64 t n c = fix c / 2 ^ 60 := by
  unfold frameVal
  rw [if_pos hn]
  show u8 (B64.trunc c) = _
  rw [trunc_fix c hneg he hhi]
  exact u8_small _ (by omega)

/-- upward slide: with the counter at frame `k` within `k * 2^11` of `start + k * step`, the
remaining frames rise monotonically to the target -/
theorem chain_up (i t m : Nat) (δ : B64) (hδn : δ.neg = false) (hδe : -60 ≤ δ.e) (hδlo : 2 ^ 52 ≤ fix δ)
    (hm : m ≤ 254) (hit : i < t) (ht : t ≤ 15) (hmδ : m * fix δ ≤ (t - i) * 2 ^ 60 + m * 2 ^ 11) :
    ∀ (n k : Nat) (c : B64) (p : Nat), k + n = m + 1 → 1 ≤ n → c.neg = false → -60 ≤ c.e →
      i * 2 ^ 60 + 2 ^ 59 + k * fix δ ≤ fix c + k * 2 ^ 11 →
      fix c ≤ i * 2 ^ 60 + 2 ^ 59 + k * fix δ + k * 2 ^ 11 → p ≤ i → 
      UpFrom t p (slideVals Arith.b64 t δ n c) := by
  intro n
  induction n with
  | zero => intro k c p _ h; omega
  | succ n ih =>
    intro k c p hk _ hcn hce hlo hhi hp
    cases n with
    | zero =>
      rw [slideVals_one]
      exact ⟨rfl, by omega⟩
    | succ n' =>
      -- k ≤ m - 1: the frame is the integer part of the counter
      have hkm : (k + 1) * fix δ ≤ m * fix δ := Nat.mul_le_mul_right _ (by omega)
      rw [Nat.succ_mul] at hkm
      have hc64 : fix c < 2 ^ 64 := by omega
      have hx1 : i ≤ fix c / 2 ^ 60 := by omega
      have hx2 : fix c / 2 ^ 60 ≤ t := by omega
      show UpFrom t p (frameVal Arith.b64 t (n' + 1) c :: slideVals Arith.b64 t δ (n' + 1) (Arith.b64.add c δ))
      rw [frame_fix t (n' + 1) c (by omega) hcn hce hc64]
      cases n' with
      | zero =>
        rw [slideVals_one]
        exact ⟨by omega, rfl, hx2⟩
      | succ n'' =>
        have hk2 : (k + 1 + 1) * fix δ ≤ m * fix δ := Nat.mul_le_mul_right _ (by omega)
        rw [Nat.succ_mul, Nat.succ_mul] at hk2
        obtain ⟨a1, a2, a3, a4⟩ := add_fix_pos c δ hcn hδn hce hδe (by omega) (by omega)
        have hnext := ih (k + 1) (B64.add c δ) i (by omega) (by omega) a1 a2
          (by rw [Nat.succ_mul]; omega) (by rw [Nat.succ_mul]; omega) (Nat.le_refl i)
        have hmono : fix c / 2 ^ 60 ≤ fix (B64.add c δ) / 2 ^ 60 := Nat.div_le_div_right (by omega)
        -- the next list starts with the next frame, which is not below this one
        have hne : slideVals Arith.b64 t δ (n'' + 1 + 1) (B64.add c δ) =
            frameVal Arith.b64 t (n'' + 1) (B64.add c δ) :: slideVals Arith.b64 t δ (n'' + 1) (Arith.b64.add (B64.add c δ) δ) := rfl
        show UpFrom t p (fix c / 2 ^ 60 :: slideVals Arith.b64 t δ (n'' + 1 + 1) (B64.add c δ))
        rw [hne] at hnext ⊢
        refine ⟨by omega, ?_⟩
        -- strengthen the start of the tail from `i`-based to this frame
        have hc64' : fix (B64.add c δ) < 2 ^ 64 := by omega
        rw [frame_fix t (n'' + 1) _ (by omega) a1 a2 hc64'] at hnext ⊢
        cases hrest : slideVals Arith.b64 t δ (n'' + 1) (Arith.b64.add (B64.add c δ) δ) with
        | nil =>
          have := slideVals_length Arith.b64 t δ (n'' + 1) (Arith.b64.add (B64.add c δ) δ)
          rw [hrest] at this; simp at this
        | cons y r =>
          rw [hrest] at hnext
          simp only [UpFrom] at hnext ⊢
          exact ⟨hmono, hnext.2⟩

/-- downward slide, the mirror image of `chain_up` -/
theorem chain_down (i t m : Nat) (δ : B64) (hδn : δ.neg = true) (hδe : -60 ≤ δ.e) (hδlo : 2 ^ 52 ≤ fix δ)
    (hm : m ≤ 254) (hit : t < i) (hi : i ≤ 15) (hmδ : m * fix δ ≤ (i - t) * 2 ^ 60 + m * 2 ^ 11) :
    ∀ (n k : Nat) (c : B64) (p : Nat), k + n = m + 1 → 1 ≤ n → c.neg = false → -60 ≤ c.e →
      fix c + k * fix δ ≤ i * 2 ^ 60 + 2 ^ 59 + k * 2 ^ 11 →
      i * 2 ^ 60 + 2 ^ 59 ≤ fix c + k * fix δ + k * 2 ^ 11 → i ≤ p →
      DownFrom t p (slideVals Arith.b64 t δ n c) := by
  intro n
  induction n with
  | zero => intro k c p _ h; omega
  | succ n ih =>
    intro k c p hk _ hcn hce hlo hhi hp
    cases n with
    | zero =>
      rw [slideVals_one]
      exact ⟨rfl, by omega⟩
    | succ n' =>
      have hkm : (k + 1) * fix δ ≤ m * fix δ := Nat.mul_le_mul_right _ (by omega)
      rw [Nat.succ_mul] at hkm
      have hc64 : fix c < 2 ^ 64 := by omega
      have hx1 : fix c / 2 ^ 60 ≤ i := by omega
      have hx2 : t ≤ fix c / 2 ^ 60 := by omega
      show DownFrom t p (frameVal Arith.b64 t (n' + 1) c :: slideVals Arith.b64 t δ (n' + 1) (Arith.b64.add c δ))
      rw [frame_fix t (n' + 1) c (by omega) hcn hce hc64]
      cases n' with
      | zero =>
        rw [slideVals_one]
        exact ⟨by omega, rfl, hx2⟩
      | succ n'' =>
        have hk2 : (k + 1 + 1) * fix δ ≤ m * fix δ := Nat.mul_le_mul_right _ (by omega)
        rw [Nat.succ_mul, Nat.succ_mul] at hk2
        obtain ⟨a1, a2, a3, a4⟩ := add_fix_neg c δ hcn hδn hce hδe (by omega) (by omega)
        have hnext := ih (k + 1) (B64.add c δ) i (by omega) (by omega) a1 a2
          (by rw [Nat.succ_mul]; omega) (by rw [Nat.succ_mul]; omega) (Nat.le_refl i)
        have hmono : fix (B64.add c δ) / 2 ^ 60 ≤ fix c / 2 ^ 60 := Nat.div_le_div_right (by omega)
        have hne : slideVals Arith.b64 t δ (n'' + 1 + 1) (B64.add c δ) =
            frameVal Arith.b64 t (n'' + 1) (B64.add c δ) :: slideVals Arith.b64 t δ (n'' + 1) (Arith.b64.add (B64.add c δ) δ) := rfl
        show DownFrom t p (fix c / 2 ^ 60 :: slideVals Arith.b64 t δ (n'' + 1 + 1) (B64.add c δ))
        rw [hne] at hnext ⊢
        refine ⟨by omega, ?_⟩
        have hc64' : fix (B64.add c δ) < 2 ^ 64 := by omega
        rw [frame_fix t (n'' + 1) _ (by omega) a1 a2 hc64'] at hnext ⊢
        cases hrest : slideVals Arith.b64 t δ (n'' + 1) (Arith.b64.add (B64.add c δ) δ) with
        | nil =>
          have := slideVals_length Arith.b64 t δ (n'' + 1) (Arith.b64.add (B64.add c δ) δ)
          rw [hrest] at this; simp at this
        | cons y r =>
          rw [hrest] at hnext
          simp only [DownFrom] at hnext ⊢
          exact ⟨hmono, hnext.2⟩

/-- no slide (`initial = target`): the step is zero, the counter never changes -/
theorem chain_const (i : Nat) (hi : i ≤ 15) :
    ∀ (n : Nat) (p : Nat), 1 ≤ n → p ≤ i → UpFrom i p (slideVals Arith.b64 i zero n (start i)) := by
  obtain ⟨s1, s2, s3, s4⟩ := start_spec i hi
  intro n
  induction n with
  | zero => intro p h; omega
  | succ n ih =>
    intro p _ hp
    cases n with
    | zero =>
      rw [slideVals_one]
      exact ⟨rfl, hp⟩
    | succ n' =>
      show UpFrom i p (frameVal Arith.b64 i (n' + 1) (start i) :: slideVals Arith.b64 i zero (n' + 1) (B64.add (start i) zero))
      rw [s4, frame_fix i (n' + 1) (start i) (by omega) s1 s2 (by omega), s3]
      have hx : (i * 2 ^ 60 + 2 ^ 59) / 2 ^ 60 = i := by omega
      rw [hx]
      have hnext := ih i (by omega) (Nat.le_refl i)
      cases hrest : slideVals Arith.b64 i zero (n' + 1) (start i) with
      | nil =>
        have := slideVals_length Arith.b64 i zero (n' + 1) (start i)
        rw [hrest] at this; simp at this
      | cons y r =>
        rw [hrest] at hnext
        simp only [UpFrom]
        exact ⟨hp, hnext⟩

theorem ofInt_zero : Arith.b64.ofInt 0 = zero := by decide

theorem divNat_zero (m : Nat) : Arith.b64.divNat zero m = zero := by
  show round false 0 m 0 = zero
  simp [round]

/-- the first of at least two frames is the initial level -/
theorem head_start (i t : Nat) (δ : B64) (n : Nat) (hi : i ≤ 15) (hn : 2 ≤ n) :
    (slideVals Arith.b64 t δ n (start i)).head? = some i := by
  obtain ⟨s1, s2, s3, _⟩ := start_spec i hi
  obtain ⟨n', rfl⟩ : ∃ n', n = n' + 1 + 1 := ⟨n - 2, by omega⟩
  show (frameVal Arith.b64 t (n' + 1) (start i) :: _).head? = some i
  rw [frame_fix t (n' + 1) (start i) (by omega) s1 s2 (by omega), s3]
  have hx : (i * 2 ^ 60 + 2 ^ 59) / 2 ^ 60 = i := by omega
  simp [hx]

/-- every single in-range PSG slide has the slide shape in binary64 -/
theorem slideOK_b64 : SlideOK Arith.b64 := by
  intro i t n hi ht hn1 hn2
  obtain ⟨s1, s2, s3, _⟩ := start_spec i hi
  unfold slideOf
  have hn0 : (if n = 0 then 1 else n) = n := by rw [if_neg (by omega)]
  simp only [hn0]
  show slideShape i t n (slideVals Arith.b64 t _ n (start i)) = true
  by_cases h1 : n = 1
  · subst h1
    rw [slideVals_one]
    by_cases hle : i ≤ t
    · exact shape_of_up i t 1 [t] hle rfl (by omega) ⟨rfl, hle⟩
    · exact shape_of_down i t 1 [t] (by omega) rfl (by omega) ⟨rfl, by omega⟩
  · have hgt : n > 1 := by omega
    rw [if_pos hgt]
    have hlen := fun δ => slideVals_length Arith.b64 t δ n (start i)
    have e0 : ∀ Δ : Nat, i * 2 ^ 60 + 2 ^ 59 + 0 * Δ ≤ fix (start i) + 0 * 2 ^ 11 := by intro Δ; rw [s3]; omega
    have e1 : ∀ Δ : Nat, fix (start i) ≤ i * 2 ^ 60 + 2 ^ 59 + 0 * Δ + 0 * 2 ^ 11 := by intro Δ; rw [s3]; omega
    have e2 : ∀ Δ : Nat, fix (start i) + 0 * Δ ≤ i * 2 ^ 60 + 2 ^ 59 + 0 * 2 ^ 11 := by intro Δ; rw [s3]; omega
    have e3 : ∀ Δ : Nat, i * 2 ^ 60 + 2 ^ 59 ≤ fix (start i) + 0 * Δ + 0 * 2 ^ 11 := by intro Δ; rw [s3]; omega
    have hhead := fun δ => head_start i t δ n hi (by omega)
    rcases Nat.lt_trichotomy i t with hlt | heq | hgt'
    · -- upward
      have hd : ((t : Nat) : Int) - ((i : Nat) : Int) = ((t - i : Nat) : Int) := by omega
      rw [hd]
      obtain ⟨p1, p2, p3, p4, _, _, _, _⟩ := step_spec (t - i) (n - 1) (by omega) (by omega) (by omega) (by omega)
      have hc := chain_up i t (n - 1) (stepUp (t - i) (n - 1)) p1 p2 p3 (by omega) hlt ht p4 n 0 (start i) i
        (by omega) (by omega) s1 s2 (e0 _) (e1 _) (Nat.le_refl i)
      exact shape_of_up i t n _ (by omega) (hlen _) (fun _ => hhead _) hc
    · -- no slide
      subst heq
      have hd : ((i : Nat) : Int) - ((i : Nat) : Int) = 0 := by omega
      rw [hd, ofInt_zero, divNat_zero]
      exact shape_of_up i i n _ (Nat.le_refl i) (hlen _) (fun _ => hhead _) (chain_const i hi n i (by omega) (Nat.le_refl i))
    · -- downward
      have hd : ((t : Nat) : Int) - ((i : Nat) : Int) = -((i - t : Nat) : Int) := by omega
      rw [hd]
      obtain ⟨_, p2, p3, p4, _, q1, q2, q3⟩ := step_spec (i - t) (n - 1) (by omega) (by omega) (by omega) (by omega)
      have hc := chain_down i t (n - 1) (stepDown (i - t) (n - 1)) q1 (by rw [q2]; exact p2) (by rw [q3]; exact p3)
        (by omega) hgt' hi (by rw [q3]; exact p4) n 0 (start i) i
        (by omega) (by omega) s1 s2 (e2 _) (e3 _) (Nat.le_refl i)
      exact shape_of_down i t n _ (by omega) (hlen _) (fun _ => hhead _) hc

end B64
end Ctrmml.MdsData
