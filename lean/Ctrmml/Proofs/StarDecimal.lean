/-
  Helper for C06 (no property statements here): `get_num()` on a decimal digit string (leading
  zeros allowed), directly on the line buffer — no assumption that the line holds bytes only.
-/
import Ctrmml.Proofs.Mml
import Ctrmml.Proofs.ReaderNum
namespace Ctrmml.Mml
open Ctrmml.Tables Ctrmml.Lexer Ctrmml.TrackBuilder

theorem strtol_dec (d : Nat) (ds rest : List Nat) (hds : ∀ x ∈ d :: ds, x < 10)
    (hrest : ∀ c, rest.head? = some c → digitVal 10 c = none) :
    strtol (decChars (d :: ds) ++ rest) 10 = some (clampPos (digitsValue 10 (d :: ds)), (d :: ds).length) := by
  have hd : d < 10 := hds d (by simp)
  have h0 : decChars (d :: ds) ++ rest = (d + 48) :: (decChars ds ++ rest) := by simp [decChars]
  have hsp : isSpace (schar (d + 48)) = false := by
    rw [schar_dec d hd]; unfold isSpace
    simp only [Bool.or_eq_false_iff, beq_eq_false_iff_ne, ne_eq, Bool.and_eq_false_iff, decide_eq_false_iff_not]
    constructor <;> omega
  rw [h0, strtol_pos 10 (d + 48) _ hsp (by omega) (by omega) (by omega), ← h0, takeDigits_dec (d :: ds) rest hds hrest]
  simp

theorem getNum_dec (pre : List Nat) (ds rest : List Nat) (hne : ds ≠ []) (hds : ∀ x ∈ ds, x < 10)
    (hv : digitsValue 10 ds < 2147483648) (hrest : ∀ c, rest.head? = some c → digitVal 10 c = none) :
    LineBuffer.getNum { buf := pre ++ decChars ds ++ rest, column := pre.length } =
      .ok (some (digitsValue 10 ds : Int), { buf := pre ++ decChars ds ++ rest, column := pre.length + ds.length }) := by
  cases ds with
  | nil => exact absurd rfl hne
  | cons d ds' =>
    have hd : d < 10 := hds d (by simp)
    have hdrop : List.drop pre.length (pre ++ decChars (d :: ds') ++ rest) = (d + 48) :: (decChars ds' ++ rest) := by
      simp [decChars, List.append_assoc]
    have hnb : isBlank (schar (d + 48)) = false := by
      rw [schar_dec d hd]; unfold isBlank
      simp only [Bool.or_eq_false_iff, beq_eq_false_iff_ne, ne_eq]
      constructor <;> omega
    have hget : (pre ++ decChars (d :: ds') ++ rest)[pre.length]? = some (d + 48) := by
      simp [decChars, List.append_assoc]
    have hlen : pre.length < (pre ++ decChars (d :: ds') ++ rest).length := by simp [decChars]
    have hset : (pre ++ decChars (d :: ds') ++ rest).set pre.length (ucharOf (schar (d + 48))) = pre ++ decChars (d :: ds') ++ rest := by
      have hu : ucharOf (schar (d + 48)) = d + 48 := by rw [schar_dec d hd]; unfold ucharOf; omega
      rw [hu]
      apply List.ext_getElem?
      intro i
      by_cases hi : i = pre.length
      · subst hi; rw [List.getElem?_set_self hlen, hget]
      · rw [List.getElem?_set_ne (fun e => hi e.symm)]
    have hc36 : (schar (d + 48) == 36 || schar (d + 48) == 120) = false := by
      rw [schar_dec d hd]
      simp only [Bool.or_eq_false_iff, beq_eq_false_iff_ne, ne_eq]
      constructor <;> omega
    have hc0 : ¬ schar (d + 48) = 0 := by rw [schar_dec d hd]; omega
    have hst := strtol_dec d ds' rest hds hrest
    have hcl : wrapS32 (clampPos (digitsValue 10 (d :: ds'))) = (digitsValue 10 (d :: ds') : Int) := by
      unfold clampPos longMax
      have : ¬ ((digitsValue 10 (d :: ds') : Int) > 9223372036854775807) := by omega
      simp only [this, if_false]
      exact wrapS32_id _ (by omega) (by omega)
    have hdrop2 : List.drop pre.length (pre ++ decChars (d :: ds') ++ rest) = decChars (d :: ds') ++ rest := by
      simp [List.append_assoc]
    unfold LineBuffer.getNum LineBuffer.getToken LineBuffer.get
    simp only [hdrop, LineBuffer.countBlanks, hnb, Bool.false_eq_true, if_false, Nat.add_zero, hget, hc36]
    simp only [LineBuffer.unget, Nat.add_one_ne_zero, if_false, hc0, Nat.add_sub_cancel, hlen, if_true, hset, bind, Except.bind, pure, Except.pure]
    have hne1 : ¬ pre.length = (pre ++ decChars (d :: ds') ++ rest).length := by omega
    have hne2 : ¬ pre.length > (pre ++ decChars (d :: ds') ++ rest).length := by omega
    simp only [hne1, hne2, if_false, hdrop2, hst, hcl]

end Ctrmml.Mml
