/-
  C01, layers 2–3 — the `for` loops of `find_best_match` and `find_match`
  (`Model/Optimizer.lean`): what the returned match satisfies.
-/
import Ctrmml.Proofs.OptSteps
namespace Ctrmml.OptSteps
open Ctrmml Ctrmml.Tree Ctrmml.Expand Ctrmml.Rewrite Ctrmml.Opt Tables

/-! ## loops in the `Except` monad -/

theorem bind_ok {ε α β : Type} {x : Except ε α} {f : α → Except ε β} {r : β} (h : x >>= f = .ok r) :
    ∃ a, x = .ok a ∧ f a = .ok r := by
  cases x with
  | error e => simp [bind, Except.bind] at h
  | ok a => exact ⟨a, rfl, h⟩

/-- invariant rule for a `for` loop without `break`: `P done state` -/
theorem forIn_inv {α β ε : Type} (f : α → β → Except ε (ForInStep β)) (P : List α → β → Prop) (l0 : List α) :
    ∀ (l done : List α) (b : β), done ++ l = l0 → P done b →
    (∀ pre a post b, l0 = pre ++ a :: post → P pre b → ∀ r, f a b = .ok r →
      ∃ b', r = .yield b' ∧ P (pre ++ [a]) b') →
    ∀ r, forIn l b f = .ok r → P l0 r := by
  intro l
  induction l with
  | nil =>
    intro done b hd hP _ r hr
    simp only [List.forIn_nil, pure, Except.pure, Except.ok.injEq] at hr
    subst hr
    simpa [← hd] using hP
  | cons a as ih =>
    intro done b hd hP hstep r hr
    rw [List.forIn_cons] at hr
    obtain ⟨x, hx, hr⟩ := bind_ok hr
    obtain ⟨b', hb', hP'⟩ := hstep done a as b hd.symm hP x hx
    subst hb'
    exact ih (done ++ [a]) b' (by simp [← hd]) hP' hstep r hr

/-- the same with an invariant that does not depend on the position -/
theorem forIn_inv' {α β ε : Type} (f : α → β → Except ε (ForInStep β)) (P : β → Prop) (l : List α) (b : β)
    (h0 : P b)
    (hstep : ∀ a, a ∈ l → ∀ b, P b → ∀ r, f a b = .ok r → ∃ b', r = .yield b' ∧ P b')
    (r : β) (hr : forIn l b f = .ok r) : P r :=
  forIn_inv f (fun _ b => P b) l l [] b rfl h0
    (fun pre a post b hl hP r hr => hstep a (by rw [hl]; simp) b hP r hr) r hr

/-! ## `find_best_match` -/

theorem findBestMatch_spec {song : Song} {m : SAMap} {subId : Int} {s' : Song} {best : Match} {subId' : Int}
    (h : findBestMatch song m subId = .ok (s', best, subId')) :
    (best.bestScore = 0 ∧ s' = song ∧ subId' = subId) ∨
    (best.bestScore ≠ 0 ∧ (∃ srcT srcPos, findMatch song m srcT srcPos = .ok best) ∧
      ∃ m', applyMatch song m best subId = .ok (s', m', subId')) := by
  unfold findBestMatch at h
  obtain ⟨b, hloop, h⟩ := bind_ok h
  have hinv : b = {} ∨ ∃ srcT srcPos, findMatch song m srcT srcPos = .ok b := by
    refine forIn_inv' _ (fun b => b = {} ∨ ∃ srcT srcPos, findMatch song m srcT srcPos = .ok b) _ _
      (Or.inl rfl) ?_ b hloop
    intro a _ b0 hb0 r hr
    obtain ⟨srcT, src⟩ := a
    obtain ⟨b1, hin, hr⟩ := bind_ok hr
    simp only [pure, Except.pure, Except.ok.injEq] at hr
    refine ⟨b1, hr.symm, ?_⟩
    refine forIn_inv' _ (fun b => b = {} ∨ ∃ srcT srcPos, findMatch song m srcT srcPos = .ok b) _ _
      hb0 ?_ b1 hin
    intro srcPos _ b2 hb2 r2 hr2
    obtain ⟨mt, hmt, hr2⟩ := bind_ok hr2
    split at hr2
    · simp only [pure, Except.pure, Except.ok.injEq] at hr2
      exact ⟨mt, hr2.symm, Or.inr ⟨srcT, srcPos, hmt⟩⟩
    · simp only [pure, Except.pure, Except.ok.injEq] at hr2
      exact ⟨b2, hr2.symm, hb2⟩
  simp only at h
  split at h
  · rename_i hne
    obtain ⟨x, hx, h⟩ := bind_ok h
    obtain ⟨s1, m1, id1⟩ := x
    simp only [pure, Except.pure, Except.ok.injEq, Prod.mk.injEq] at h
    obtain ⟨rfl, rfl, rfl⟩ := h
    right
    refine ⟨hne, ?_, m1, hx⟩
    rcases hinv with h0 | h0
    · rw [h0] at hne; exact absurd (by decide) hne
    · exact h0
  · rename_i he
    simp only [pure, Except.pure, Except.ok.injEq, Prod.mk.injEq] at h
    obtain ⟨rfl, rfl, rfl⟩ := h
    left
    exact ⟨by simpa using he, rfl, rfl⟩

/-! ## `find_match`, restructured: the bodies of its loops as named functions

`findMatch_eq` (by `rfl`) shows that `Opt.findMatch` is literally these functions composed. -/

def innerSame (isBal : Nat → Bool) (dstPos length : Nat) (subCount last : Counter) :
    Except OErr (Counter × Counter × Nat) :=
  forIn (List.range length) (subCount, last, length) fun _ __s =>
    if __s.2.2 > minSubScore then
      if isBal __s.2.2 = true ∧ dstPos - cGet __s.2.1 __s.2.2 ≥ __s.2.2 then
        pure (ForInStep.yield (cSet __s.1 __s.2.2 (cGet __s.1 __s.2.2 + 1), cSet __s.2.1 __s.2.2 dstPos, __s.2.2 - 1))
      else pure (ForInStep.yield (__s.1, __s.2.1, __s.2.2 - 1))
    else pure (ForInStep.yield (__s.1, __s.2.1, __s.2.2))

def jp2Same (isBal : Nat → Bool) (srcStart dstPos length0 : Nat) (subCount last : Counter) (loopDepth : Int)
    (loopValid : Bool) (mt : Match) : Except OErr (ForInStep (Match × Counter × Counter × Int × Bool)) :=
  innerSame isBal dstPos (if length0 > dstPos - srcStart then dstPos - srcStart else length0) subCount last
    >>= fun s => pure (ForInStep.yield (mt, s.1, s.2.1, loopDepth, loopValid))

def jpSame (song : Song) (m : SAMap) (srcT srcStart dstT : Nat) (isBal : Nat → Bool) (dstPos : Nat) (mt : Match)
    (subCount last : Counter) (loopDepth : Int) (loopValid : Bool) :
    Except OErr (ForInStep (Match × Counter × Counter × Int × Bool)) :=
  findMatchLength song m srcT srcStart dstT dstPos true >>= fun x =>
    if x.1 = 0 then pure (ForInStep.yield (mt, subCount, last, loopDepth, loopValid))
    else if loopValid = true ∧ loopDepth = 0 ∧ x.2 ≥ minLoopScore ∧ x.2 > mt.loopLength then
      jp2Same isBal srcStart dstPos x.1 subCount last loopDepth loopValid
        { mt with loopLength := x.2, loopPosition := dstPos }
    else jp2Same isBal srcStart dstPos x.1 subCount last loopDepth loopValid mt

def midBody (song : Song) (m : SAMap) (srcT srcStart dstT : Nat) (dst : List Event) (isBal : Nat → Bool)
    (dstPos : Nat) (s : Match × Counter × Counter × Int × Bool) :
    Except OErr (ForInStep (Match × Counter × Counter × Int × Bool)) :=
  let ty := (Option.map (fun x => x.type) dst[dstPos]?).getD 0
  let J := jpSame song m srcT srcStart dstT isBal dstPos s.1 s.2.1 s.2.2.1
  if ty = ev_SEGNO then J s.2.2.2.1 false
  else if (ty = ev_LOOP_END ∨ ty = ev_LOOP_BREAK) ∧ s.2.2.2.1 = 0 then J s.2.2.2.1 false
  else if ty = ev_LOOP_END then J (s.2.2.2.1 - 1) s.2.2.2.2
  else if ty = ev_LOOP_START then J (s.2.2.2.1 + 1) s.2.2.2.2
  else J s.2.2.2.1 s.2.2.2.2

/-- the body of the same-track loop: the stack test on the event before `dstPos` (repair of D18: the
new loop would enclose every event of `[srcStart, dstPos)`), then `midBody` -/
def midBodyS (song : Song) (m : SAMap) (sa : SA) (srcT srcStart dstT : Nat) (dst : List Event) (isBal : Nat → Bool)
    (dstPos : Nat) (s : Match × Counter × Counter × Int × Bool) :
    Except OErr (ForInStep (Match × Counter × Counter × Int × Bool)) :=
  match sa.eventList[dstPos - 1]? with
  | none => .error .stackListOOB
  | some u =>
    if u + sa.baseUsage ≥ maxLoopStack then
      midBody song m srcT srcStart dstT dst isBal dstPos (s.1, s.2.1, s.2.2.1, s.2.2.2.1, false)
    else midBody song m srcT srcStart dstT dst isBal dstPos s

/-- `midBodyS` is `midBody` on a state that differs at most in `loop_valid` (cleared by the stack test) -/
theorem midBodyS_cases {song : Song} {m : SAMap} {sa : SA} {srcT srcStart dstT : Nat} {dst : List Event}
    {isBal : Nat → Bool} {dstPos : Nat} {s : Match × Counter × Counter × Int × Bool}
    {r : ForInStep (Match × Counter × Counter × Int × Bool)}
    (hr : midBodyS song m sa srcT srcStart dstT dst isBal dstPos s = .ok r) :
    ∃ lv, midBody song m srcT srcStart dstT dst isBal dstPos (s.1, s.2.1, s.2.2.1, s.2.2.2.1, lv) = .ok r := by
  unfold midBodyS at hr
  split at hr
  · cases hr
  split at hr
  · exact ⟨false, hr⟩
  · exact ⟨s.2.2.2.2, hr⟩

def otherBody (song : Song) (m : SAMap) (srcT srcStart dstT : Nat) (isBal : Nat → Bool)
    (dstPos : Nat) (s : Counter × Counter) : Except OErr (ForInStep (Counter × Counter)) :=
  findMatchLength song m srcT srcStart dstT dstPos false >>= fun x =>
    (forIn (List.range x.1) (s.1, s.2, x.1) fun _ __s =>
      if __s.2.2 ≥ minSubScore then
        if isBal __s.2.2 = true ∧ (cGet __s.2.1 __s.2.2 = 0 ∨ dstPos - cGet __s.2.1 __s.2.2 ≥ __s.2.2 + 1) then
          pure (ForInStep.yield (cSet __s.1 __s.2.2 (cGet __s.1 __s.2.2 + 1), cSet __s.2.1 __s.2.2 (dstPos + 1), __s.2.2 - 1))
        else pure (ForInStep.yield (__s.1, __s.2.1, __s.2.2 - 1))
      else pure (ForInStep.yield (__s.1, __s.2.1, __s.2.2))) >>= fun r =>
    pure (ForInStep.yield (r.1, r.2.1))

def trackBody (song : Song) (m : SAMap) (sa : SA) (srcT srcStart : Nat) (isBal : Nat → Bool)
    (x : Nat × List Event) (s : Match × Counter) : Except OErr (ForInStep (Match × Counter)) :=
  if x.1 < srcT then pure (ForInStep.yield (s.1, s.2))
  else if x.1 = srcT then
    forIn (List.range' (srcStart + 1) (x.2.length - (srcStart + 1))) (s.1, s.2, ([] : Counter), (0 : Int), true)
      (midBodyS song m sa srcT srcStart x.1 x.2 isBal) >>= fun r => pure (ForInStep.yield (r.1, r.2.1))
  else
    forIn (List.range x.2.length) (s.2, ([] : Counter)) (otherBody song m srcT srcStart x.1 isBal)
      >>= fun r => pure (ForInStep.yield (s.1, r.1))

def finalBody (x : Nat × Nat) (mt : Match) : Except OErr (ForInStep Match) :=
  if ((x.1 : Int) - 1) * x.2 - 1 > mt.subScore then
    pure (ForInStep.yield { mt with subLength := x.1, subScore := ((x.1 : Int) - 1) * x.2 - 1, subRepeats := x.2 })
  else pure (ForInStep.yield mt)

theorem findMatch_eq (song : Song) (m : SAMap) (srcT srcStart : Nat) (src : List Event)
    (hsrc : song.track? srcT = some src) :
    findMatch song m srcT srcStart =
      (sourcePrefixes (getSA m srcT) src srcStart >>= fun bal =>
       forIn song.tracks (({} : Match), ([] : Counter))
        (trackBody song m (getSA m srcT) srcT srcStart (fun len => (bal[len]?).getD false)) >>= fun s =>
       forIn ((s.2.toArray.qsort (fun a b => a.1 < b.1)).toList) { s.1 with trackId := srcT, position := srcStart }
        finalBody >>= fun r => pure r) := by
  unfold findMatch
  rw [hsrc]
  rfl


/-! ## the loop candidate of `find_match` -/

/-- what `find_match` maintains about its loop candidate -/
def LoopInv (song : Song) (m : SAMap) (srcT srcStart : Nat) (mt : Match) : Prop :=
  mt.loopLength = 0 ∨ (srcStart < mt.loopPosition ∧ minLoopScore ≤ mt.loopLength ∧
    (∃ len0, findMatchLength song m srcT srcStart srcT mt.loopPosition true = .ok (len0, mt.loopLength)) ∧
    (∀ src, song.track? srcT = some src →
      scan ((src.drop (srcStart + 1)).take (mt.loopPosition - srcStart)) 0 = some 0) ∧
    ∀ i, srcStart ≤ i → i < mt.loopPosition → LoopRoom (getSA m srcT) i)

theorem jp2Same_spec {isBal : Nat → Bool} {srcStart dstPos length0 : Nat} {subCount last : Counter}
    {ld : Int} {lv : Bool} {mt : Match} {r : ForInStep (Match × Counter × Counter × Int × Bool)}
    (h : jp2Same isBal srcStart dstPos length0 subCount last ld lv mt = .ok r) :
    ∃ sc' last', r = .yield (mt, sc', last', ld, lv) := by
  unfold jp2Same at h
  obtain ⟨s, _, h⟩ := bind_ok h
  simp only [pure, Except.pure, Except.ok.injEq] at h
  exact ⟨s.1, s.2.1, h.symm⟩

theorem jpSame_spec {song : Song} {m : SAMap} {srcT srcStart dstT : Nat} {isBal : Nat → Bool} {dstPos : Nat}
    {mt : Match} {subCount last : Counter} {ld : Int} {lv : Bool}
    {r : ForInStep (Match × Counter × Counter × Int × Bool)}
    (h : jpSame song m srcT srcStart dstT isBal dstPos mt subCount last ld lv = .ok r) :
    ∃ mt' sc' last', r = .yield (mt', sc', last', ld, lv) ∧
      (mt' = mt ∨ (lv = true ∧ ld = 0 ∧ ∃ len0 L, findMatchLength song m srcT srcStart dstT dstPos true = .ok (len0, L) ∧
        L > mt.loopLength ∧ minLoopScore ≤ L ∧ mt' = { mt with loopLength := L, loopPosition := dstPos })) := by
  unfold jpSame at h
  obtain ⟨x, hx, h⟩ := bind_ok h
  split at h
  · simp only [pure, Except.pure, Except.ok.injEq] at h
    exact ⟨mt, subCount, last, h.symm, Or.inl rfl⟩
  · split at h
    · rename_i hc
      obtain ⟨sc', last', hr⟩ := jp2Same_spec h
      exact ⟨_, sc', last', hr, Or.inr ⟨hc.1, hc.2.1, x.1, x.2, hx, hc.2.2.2, hc.2.2.1, rfl⟩⟩
    · obtain ⟨sc', last', hr⟩ := jp2Same_spec h
      exact ⟨mt, sc', last', hr, Or.inl rfl⟩

theorem range'_split {s n : Nat} {pre post : List Nat} {a : Nat} (h : List.range' s n = pre ++ a :: post) :
    a = s + pre.length ∧ pre.length < n := by
  have hl := congrArg List.length h
  simp only [List.length_range', List.length_append, List.length_cons] at hl
  have h2 := congrArg (fun l => l[pre.length]?) h
  simp only [List.getElem?_append_right (Nat.le_refl _), Nat.sub_self, List.getElem?_cons_zero] at h2
  rw [List.getElem?_range' (by omega)] at h2
  simp only [Nat.one_mul, Option.some.injEq] at h2
  exact ⟨h2.symm, by omega⟩

theorem lookup_of_mem_nodup {β : Type} {l : List (Nat × β)} (hnd : (l.map (·.1)).Nodup) {k : Nat} {v : β}
    (h : (k, v) ∈ l) : l.lookup k = some v := by
  induction l with
  | nil => simp at h
  | cons p r ih =>
    simp only [List.map_cons, List.nodup_cons] at hnd
    rcases List.mem_cons.1 h with h | h
    · subst h; simp [List.lookup]
    · have hne : k ≠ p.1 := by
        intro hk
        apply hnd.1
        rw [← hk]
        exact List.mem_map.2 ⟨(k, v), h, rfl⟩
      have : (k == p.1) = false := by simp [hne]
      simp only [List.lookup, this]
      exact ih hnd.2 h

/-- while `loop_valid` holds, the first `n` events from `srcStart` have passed the stack test -/
def RoomInv (sa : SA) (srcStart n : Nat) (lv : Bool) : Prop :=
  lv = true → ∀ i, srcStart ≤ i → i < srcStart + n → LoopRoom sa i

/-- the loop-validity bookkeeping of the same-track loop -/
def MidInv (song : Song) (m : SAMap) (srcT srcStart : Nat) (dst : List Event) (pre : List Nat)
    (s : Match × Counter × Counter × Int × Bool) : Prop :=
  (LoopInv song m srcT srcStart s.1 ∧ s.1.subScore = 0) ∧
  (s.2.2.2.2 = true → ∃ dn : Nat, s.2.2.2.1 = (dn : Int) ∧
    scan ((dst.drop (srcStart + 1)).take pre.length) 0 = some dn) ∧
  RoomInv (getSA m srcT) srcStart pre.length s.2.2.2.2

/-- `midBody` (the part of the loop body after the stack test): `hroom` is what the stack test of
this iteration has established -/
theorem midBody_step {song : Song} {m : SAMap} {srcT srcStart : Nat} {dst : List Event} {isBal : Nat → Bool}
    (hdst : song.track? srcT = some dst) {pre post : List Nat} {a : Nat}
    (hl : List.range' (srcStart + 1) (dst.length - (srcStart + 1)) = pre ++ a :: post)
    {s : Match × Counter × Counter × Int × Bool} (hinv : MidInv song m srcT srcStart dst pre s)
    (hroom : RoomInv (getSA m srcT) srcStart (pre.length + 1) s.2.2.2.2)
    {r : ForInStep (Match × Counter × Counter × Int × Bool)}
    (hr : midBody song m srcT srcStart srcT dst isBal a s = .ok r) :
    ∃ b', r = .yield b' ∧ MidInv song m srcT srcStart dst (pre ++ [a]) b' := by
  obtain ⟨ha, hlt⟩ := range'_split hl
  obtain ⟨mt, sc, last, ld, lv⟩ := s
  obtain ⟨⟨hLI, hss⟩, hsc, _⟩ := hinv
  simp only at hLI hss hsc hroom
  have halt : a < dst.length := by omega
  obtain ⟨y, hy⟩ : ∃ y, dst[a]? = some y := ⟨dst[a], List.getElem?_eq_getElem halt⟩
  have hy' : dst[srcStart + 1 + pre.length]? = some y := by rw [← ha]; exact hy
  have htake := take_succ_of_get hy'
  -- the bookkeeping for the five cases
  have key : ∀ (ld' : Int) (lv' : Bool),
      (lv' = true → ∃ dn' : Nat, ld' = (dn' : Int) ∧ scan [y] (ld.toNat) = some dn' ∧ lv = true) →
      jpSame song m srcT srcStart srcT isBal a mt sc last ld' lv' = .ok r →
      ∃ b', r = .yield b' ∧ MidInv song m srcT srcStart dst (pre ++ [a]) b' := by
    intro ld' lv' hnew hj
    obtain ⟨mt', sc', last', hr', hmt⟩ := jpSame_spec hj
    refine ⟨_, hr', ⟨?_, ?_⟩, ?_, ?_⟩
    · rcases hmt with h | ⟨h1, h2, len0, L, hf, _, hml, h3⟩
      · rw [h]; exact hLI
      · right
        obtain ⟨dn', hd', hs', hlv⟩ := hnew h1
        obtain ⟨dn, hdn, hsn⟩ := hsc hlv
        have hz : dn' = 0 := by omega
        subst hz
        rw [h3]
        refine ⟨by show srcStart < a; omega, hml, ⟨len0, hf⟩, ?_, ?_⟩
        rotate_left
        · intro i h1i h2i
          exact hroom hlv i h1i (by show i < srcStart + (pre.length + 1); have : i < a := h2i; omega)
        intro src hsrc
        rw [hdst] at hsrc
        cases hsrc
        have e : a - srcStart = pre.length + 1 := by omega
        simp only [e, htake, scan_append, hsn, Option.bind_some]
        rw [hdn] at hs'
        simpa using hs'
    · rcases hmt with h | ⟨_, _, _, _, _, _, _, h3⟩
      · rw [h]; exact hss
      · rw [h3]; exact hss
    · intro hlv'
      obtain ⟨dn', hd', hs', hlv⟩ := hnew hlv'
      obtain ⟨dn, hdn, hsn⟩ := hsc hlv
      refine ⟨dn', hd', ?_⟩
      simp only [List.length_append, List.length_cons, List.length_nil, htake, scan_append, hsn,
        Option.bind_some]
      rw [hdn] at hs'
      simpa using hs'
    · intro hlv'
      obtain ⟨_, _, _, hlv⟩ := hnew hlv'
      simpa using hroom hlv
  unfold midBody at hr
  simp only [hy, Option.map_some, Option.getD_some] at hr
  split at hr
  · exact key _ _ (by simp) hr
  split at hr
  · exact key _ _ (by simp) hr
  rename_i hns hnb
  split at hr
  · rename_i hle
    refine key _ _ ?_ hr
    intro hlv
    obtain ⟨dn, hdn, _⟩ := hsc hlv
    have hd0 : dn ≠ 0 := by
      intro h0; apply hnb; exact ⟨Or.inl hle, by rw [hdn, h0]; rfl⟩
    have hls : y.type ≠ ev_LOOP_START := by rw [hle]; decide
    refine ⟨dn - 1, by omega, ?_, hlv⟩
    rw [scan_single, if_neg hls, if_pos hle]
    simp only [hdn, Int.toNat_natCast, hd0, if_false]
  split at hr
  · rename_i hnle hls
    refine key _ _ ?_ hr
    intro hlv
    obtain ⟨dn, hdn, _⟩ := hsc hlv
    refine ⟨dn + 1, by omega, ?_, hlv⟩
    rw [scan_single, if_pos hls]
    simp only [hdn, Int.toNat_natCast]
  · rename_i hnle hnls
    refine key _ _ ?_ hr
    intro hlv
    obtain ⟨dn, hdn, _⟩ := hsc hlv
    refine ⟨dn, hdn, ?_, hlv⟩
    rw [scan_single, if_neg hnls, if_neg hnle]
    simp only [hdn, Int.toNat_natCast]
    split
    · rename_i hlb
      have hd0 : dn ≠ 0 := by
        intro h0; apply hnb; exact ⟨Or.inr hlb, by rw [hdn, h0]; rfl⟩
      simp [hd0]
    · rfl

/-- the whole body of the same-track loop: the stack test on the event at `a - 1`, then `midBody` -/
theorem midBodyS_step {song : Song} {m : SAMap} {srcT srcStart : Nat} {dst : List Event} {isBal : Nat → Bool}
    (hdst : song.track? srcT = some dst) {pre post : List Nat} {a : Nat}
    (hl : List.range' (srcStart + 1) (dst.length - (srcStart + 1)) = pre ++ a :: post)
    {s : Match × Counter × Counter × Int × Bool} (hinv : MidInv song m srcT srcStart dst pre s)
    {r : ForInStep (Match × Counter × Counter × Int × Bool)}
    (hr : midBodyS song m (getSA m srcT) srcT srcStart srcT dst isBal a s = .ok r) :
    ∃ b', r = .yield b' ∧ MidInv song m srcT srcStart dst (pre ++ [a]) b' := by
  obtain ⟨ha, _⟩ := range'_split hl
  unfold midBodyS at hr
  split at hr
  · cases hr
  rename_i u hu
  split at hr
  · -- the stack test fails: `loop_valid = false`
    have hf : ∀ (P : Prop), (false = true → P) := fun _ h => by cases h
    exact midBody_step (s := (s.1, s.2.1, s.2.2.1, s.2.2.2.1, false)) hdst hl
      ⟨hinv.1, hf _, hf _⟩ (hf _) hr
  · rename_i hlt
    refine midBody_step hdst hl hinv ?_ hr
    intro hlv i h1 h2
    by_cases hi : i < srcStart + pre.length
    · exact hinv.2.2 hlv i h1 hi
    · have : i = a - 1 := by omega
      subst this
      exact ⟨u, hu, by omega⟩

theorem finalBody_spec {x : Nat × Nat} {mt : Match} {r : ForInStep Match} (h : finalBody x mt = .ok r) :
    ∃ mt', r = .yield mt' ∧ mt'.trackId = mt.trackId ∧ mt'.position = mt.position ∧
      mt'.loopPosition = mt.loopPosition ∧ mt'.loopLength = mt.loopLength ∧ (0 ≤ mt.subScore → 0 ≤ mt'.subScore) := by
  unfold finalBody at h
  split at h
  · rename_i hc
    simp only [pure, Except.pure, Except.ok.injEq] at h
    refine ⟨_, h.symm, rfl, rfl, rfl, rfl, fun h0 => ?_⟩
    show 0 ≤ ((x.1 : Int) - 1) * x.2 - 1
    omega
  · simp only [pure, Except.pure, Except.ok.injEq] at h
    exact ⟨_, h.symm, rfl, rfl, rfl, rfl, id⟩

/-- **`find_match`**: the returned match is for the phrase it was asked about, its subroutine
score is not negative, and its loop candidate (if any) satisfies `LoopOK`. -/
theorem findMatch_spec {song : Song} {m : SAMap} {srcT srcStart : Nat} {mt : Match}
    (hnd : (song.tracks.map (·.1)).Nodup) (h : findMatch song m srcT srcStart = .ok mt) :
    mt.trackId = srcT ∧ mt.position = srcStart ∧ 0 ≤ mt.subScore ∧ (mt.loopLength ≠ 0 → LoopOK song m mt) := by
  cases hsrc : song.track? srcT with
  | none => unfold findMatch at h; rw [hsrc] at h; simp [bind, Except.bind, throw, throwThe, MonadExceptOf.throw] at h
  | some src =>
    rw [findMatch_eq song m srcT srcStart src hsrc] at h
    obtain ⟨bal, _, h⟩ := bind_ok h
    obtain ⟨s, hs, h⟩ := bind_ok h
    obtain ⟨mt2, h2, h⟩ := bind_ok h
    simp only [pure, Except.pure, Except.ok.injEq] at h
    subst h
    -- the track loop
    have hQ : LoopInv song m srcT srcStart s.1 ∧ s.1.subScore = 0 := by
      refine forIn_inv' _ (fun s => LoopInv song m srcT srcStart s.1 ∧ s.1.subScore = 0) _ _
        ⟨Or.inl rfl, rfl⟩ ?_ s hs
      intro x hx b hb r hr
      unfold trackBody at hr
      split at hr
      · simp only [pure, Except.pure, Except.ok.injEq] at hr
        exact ⟨_, hr.symm, hb⟩
      split at hr
      · rename_i _ heq
        obtain ⟨r1, hr1, hr⟩ := bind_ok hr
        simp only [pure, Except.pure, Except.ok.injEq] at hr
        refine ⟨_, hr.symm, ?_⟩
        have hdst : song.track? srcT = some x.2 := by
          rw [← heq]; exact lookup_of_mem_nodup hnd (by simpa using hx)
        rw [heq] at hr1
        have := forIn_inv _ (MidInv song m srcT srcStart x.2) _ _ [] _ rfl
          (⟨hb, fun _ => ⟨0, rfl, rfl⟩, fun _ i h1 h2 => by simp at h2; omega⟩ :
            MidInv song m srcT srcStart x.2 [] (b.1, b.2, [], 0, true))
          (fun pre a post b hl hP r hr => midBodyS_step hdst hl hP hr) r1 hr1
        exact this.1
      · obtain ⟨r1, hr1, hr⟩ := bind_ok hr
        simp only [pure, Except.pure, Except.ok.injEq] at hr
        exact ⟨_, hr.symm, hb⟩
    -- the final loop
    have hF := forIn_inv' finalBody (fun mt' : Match => mt'.trackId = srcT ∧ mt'.position = srcStart ∧
        mt'.loopPosition = s.1.loopPosition ∧ mt'.loopLength = s.1.loopLength ∧ 0 ≤ mt'.subScore) _
      { s.1 with trackId := srcT, position := srcStart }
      ⟨rfl, rfl, rfl, rfl, by show 0 ≤ s.1.subScore; omega⟩
      (fun a _ b hb r hr => by
        obtain ⟨mt', h1, h2, h3, h4, h5, h6⟩ := finalBody_spec hr
        exact ⟨mt', h1, h2 ▸ hb.1, h3 ▸ hb.2.1, h4 ▸ hb.2.2.1, h5 ▸ hb.2.2.2.1, h6 hb.2.2.2.2⟩) mt2 h2
    obtain ⟨f1, f2, f3, f4, f5⟩ := hF
    refine ⟨f1, f2, f5, ?_⟩
    intro hne
    rcases hQ.1 with h0 | ⟨g1, gm, g2, g3, g4⟩
    · rw [f4] at hne; exact absurd h0 hne
    · exact ⟨by rw [f2, f3]; exact g1, by omega, by rw [f4]; exact gm,
        by rw [f1, f2, f3, f4]; exact g2, by rw [f1, f2, f3]; exact g3, by rw [f1, f2, f3]; exact g4⟩

end Ctrmml.OptSteps
