/-
  C01, layer 3 — a pass that extracts a subroutine keeps the song well formed and the next
  subroutine id fresh.
-/
import Ctrmml.Proofs.OptValid
namespace Ctrmml.OptSteps
open Ctrmml Ctrmml.Tree Ctrmml.Expand Ctrmml.Rewrite Ctrmml.Opt Tables

theorem NRel.mem {Xl : List Event} {j : Event} {evs evs' : List Event} (h : NRel Xl j evs evs') :
    ∀ e ∈ evs', e ∈ evs ∨ e = j := by
  induction h with
  | nil => intro e he; simp at he
  | cons x _ ih =>
    intro e he
    rcases List.mem_cons.1 he with rfl | he
    · left; exact List.mem_cons_self
    · rcases ih e he with h | h
      · left; exact List.mem_cons_of_mem _ h
      · right; exact h
  | repl seg _ _ ih =>
    intro e he
    rcases List.mem_cons.1 he with rfl | he
    · right; rfl
    · rcases ih e he with h | h
      · left; exact List.mem_append_right _ h
      · right; exact h

theorem NRel.length_le {Xl : List Event} {j : Event} (hX : 1 ≤ Xl.length) {evs evs' : List Event}
    (h : NRel Xl j evs evs') : evs'.length ≤ evs.length := by
  induction h with
  | nil => exact Nat.le_refl _
  | cons x _ ih => simp only [List.length_cons]; omega
  | repl seg hn _ ih =>
    have : seg.length = Xl.length := by
      have := congrArg List.length hn
      simpa [normL] using this
    simp only [List.length_cons, List.length_append]; omega

/-! ## the track ids -/

theorem replaceWithSub_keys (s : Song) (m : SAMap) (subId : Int) (t pos len : Nat) :
    (replaceWithSub s m subId t pos len).1.tracks.map (·.1) = s.tracks.map (·.1) := by
  unfold replaceWithSub
  split
  · rfl
  · rename_i evs hevs
    simp only
    rw [setTrack_tracks hevs, List.map_map]
    congr 1
    funext p
    simp only [Function.comp]
    split
    · rename_i hp; exact (beq_iff_eq.1 hp).symm
    · rfl

theorem findSubroutines_keys {s2 : Song} {m2 : SAMap} {bm : Match} {subId : Int} {s3 : Song} {m3 : SAMap}
    (h : findSubroutines s2 m2 bm subId = .ok (s3, m3)) :
    s3.tracks.map (·.1) = s2.tracks.map (·.1) := by
  rw [findSubroutines_eq] at h
  obtain ⟨r, hr, h⟩ := bind_ok h
  simp only [pure, Except.pure, Except.ok.injEq, Prod.mk.injEq] at h
  rw [← h.1]
  refine forIn_inv' _ (fun s : Song × SAMap => s.1.tracks.map (·.1) = s2.tracks.map (·.1)) _ _ rfl ?_ r hr
  intro x _ b hb r1 hr1
  unfold fsOuter at hr1
  split at hr1
  · simp only [pure, Except.pure, Except.ok.injEq] at hr1
    exact ⟨_, hr1.symm, hb⟩
  · obtain ⟨r2, hr2, hr1⟩ := bind_ok hr1
    simp only [pure, Except.pure, Except.ok.injEq] at hr1
    refine ⟨_, hr1.symm, ?_⟩
    refine forIn_inv' _ (fun s : Song × SAMap × Nat => s.1.tracks.map (·.1) = s2.tracks.map (·.1)) _ _ hb ?_ r2 hr2
    intro _ _ c hc r hr
    unfold fsInner at hr
    split at hr
    · obtain ⟨y, _, hr⟩ := bind_ok hr
      split at hr
      · simp only [pure, Except.pure, Except.ok.injEq] at hr
        refine ⟨_, hr.symm, ?_⟩
        simp only [replaceWithSub_keys]
        exact hc
      · simp only [pure, Except.pure, Except.ok.injEq] at hr
        exact ⟨_, hr.symm, hc⟩
    · simp only [pure, Except.pure, Except.ok.injEq] at hr
      exact ⟨_, hr.symm, hc⟩

theorem applyMatch_sub_keys (hq : QSortPerm) {song : Song} {m : SAMap} {bm : Match} {subId : Int}
    {src : List Event} (hbr : bm.loopScore < bm.subScore) (hsrc : song.track? bm.trackId = some src)
    (hfresh : song.track? (trackIdOfParam subId) = none)
    {s3 : Song} {m3 : SAMap} {subId' : Int} (h : applyMatch song m bm subId = .ok (s3, m3, subId')) :
    (s3.tracks.map (·.1)).Perm (song.tracks.map (·.1) ++ [trackIdOfParam subId]) := by
  unfold applyMatch at h
  simp only [hsrc, hbr, if_true, hfresh, Option.getD_none, List.nil_append, bind, Except.bind, pure,
    Except.pure] at h
  split at h
  · simp at h
  · rename_i v hv
    simp only [Except.ok.injEq, Prod.mk.injEq] at h
    rw [← h.1]
    have hk := findSubroutines_keys (s3 := v.1) (m3 := v.2) (by rw [hv])
    rw [hk, replaceWithSub_keys, setTrack_fresh_tracks hfresh]
    have := (hq (song.tracks ++ [(trackIdOfParam subId, (src.drop bm.position).take bm.subLength)])).map (·.1)
    simpa using this

/-! ## freshness of the subroutine id -/

/-- the next subroutine id is above every track id and within `int16_t` -/
structure FreshInv (song : Song) (subId : Int) : Prop where
  lo : 15000 ≤ subId
  hi : subId < 32768
  above : ∀ p ∈ song.tracks, (p.1 : Int) < subId

theorem trackIdOfParam_small {x : Int} (h0 : 0 ≤ x) (h1 : x < 65536) : trackIdOfParam x = x.toNat := by
  unfold trackIdOfParam
  rw [Int.emod_eq_of_lt h0 h1]

theorem FreshInv.track_none {song : Song} {subId : Int} (h : FreshInv song subId) :
    song.track? (trackIdOfParam subId) = none := by
  rw [trackIdOfParam_small (by have := h.lo; omega) (by have := h.hi; omega)]
  apply (lookup_none_iff _ _).2
  intro p hp he
  have := h.above p hp
  have h0 := h.lo
  omega

theorem initialSubId_fresh {song : Song} (hs : (song.tracks.map (·.1)).Pairwise (· < ·))
    (hid : ∀ p ∈ song.tracks, p.1 < 32767) : FreshInv song (initialSubId song) := by
  unfold initialSubId
  cases hl : song.tracks.getLast? with
  | none =>
    have : song.tracks = [] := List.getLast?_eq_none_iff.1 hl
    simp only
    exact ⟨by decide, by decide, by rw [this]; simp⟩
  | some p =>
    obtain ⟨id, evs⟩ := p
    simp only
    obtain ⟨ys, hys⟩ : ∃ ys, song.tracks = ys ++ [(id, evs)] := by
      have := List.getLast?_eq_some_iff.1 hl
      exact this
    have hmax : ∀ p ∈ song.tracks, p.1 ≤ id := by
      intro p hp
      rw [hys] at hp hs
      rcases List.mem_append.1 hp with h | h
      · simp only [List.map_append, List.map_cons, List.map_nil, List.pairwise_append] at hs
        exact Nat.le_of_lt (hs.2.2 p.1 (List.mem_map.2 ⟨p, h, rfl⟩) id (by simp))
      · simp at h; rw [h]; exact Nat.le_refl _
    have hidlt : id < 32767 := hid (id, evs) (by rw [hys]; simp)
    have h15 : (Tables.opt_sub_id : Int) = 15000 := rfl
    split
    · rename_i hge
      rw [h15] at hge
      have hw : wrap16 ((id : Int) + 1) = (id : Int) + 1 := wrap16_small (by omega) (by omega)
      rw [hw]
      exact ⟨by omega, by omega, fun p hp => by have := hmax p hp; omega⟩
    · rename_i hlt
      rw [h15] at hlt ⊢
      exact ⟨by omega, by omega, fun p hp => by have := hmax p hp; omega⟩

/-! ## well-formedness after a subroutine extraction -/

theorem jumpEvent_nofin (subId : Int) : (jumpEvent subId).kind ≠ .fin := by
  show kindOfType ev_JUMP ≠ .fin
  decide

theorem subPass_wf (hq : QSortPerm) {song : Song} {m : SAMap} {bm : Match} {subId : Int} {src : List Event}
    (hwf : SongWF song) (hfr : FreshInv song subId) (hnext : subId + 1 < 32768)
    (hbr : bm.loopScore < bm.subScore) (hsrc : song.track? bm.trackId = some src)
    (hlen : bm.position + bm.subLength ≤ src.length) (hsl : 1 ≤ bm.subLength)
    {s3 : Song} {m3 : SAMap} {subId' : Int} (h : applyMatch song m bm subId = .ok (s3, m3, subId'))
    (hinv : SubInv song ((src.drop bm.position).take bm.subLength) (jumpEvent subId) (trackIdOfParam subId) s3) :
    SongWF s3 ∧ FreshInv s3 (subId + 1) := by
  have hfresh := hfr.track_none
  have hperm := applyMatch_sub_keys hq hbr hsrc hfresh h
  have hnd : (s3.tracks.map (·.1)).Nodup := by
    refine hperm.nodup_iff.2 ?_
    have := nodup_keys_snoc hwf.nodup hfresh []
    simpa using this
  obtain ⟨w1, w2, w3⟩ := hwf.track hsrc
  have hXlen : ((src.drop bm.position).take bm.subLength).length = bm.subLength := by
    rw [List.length_take, List.length_drop]; omega
  constructor
  · refine ⟨hnd, ?_⟩
    intro p hp
    have hlk : s3.track? p.1 = some p.2 := lookup_of_mem_nodup hnd (by simpa using hp)
    by_cases hpid : p.1 = trackIdOfParam subId
    · rw [hpid, hinv.sub] at hlk
      have hp2 : p.2 = (src.drop bm.position).take bm.subLength := (Option.some.inj hlk).symm
      rw [hp2]
      exact ⟨noEnd_take (noEnd_drop w1 _) _, brkZero_take (brkZero_drop w2 _) _, by rw [hXlen]; omega⟩
    · rcases hinv.rel p.1 hpid with ⟨_, h2⟩ | ⟨evs, evs', h1, h2, h3, h4⟩
      · rw [hlk] at h2; cases h2
      · rw [hlk] at h2
        have hp2 : p.2 = evs' := Option.some.inj h2
        rw [hp2]
        obtain ⟨v1, _, v3⟩ := hwf.track h1
        refine ⟨?_, h4, ?_⟩
        · intro e he
          rcases h3.mem e he with h | h
          · exact v1 e h
          · rw [h]; exact jumpEvent_nofin subId
        · have := h3.length_le (by rw [hXlen]; exact hsl)
          omega
  · refine ⟨by have := hfr.lo; omega, hnext, ?_⟩
    intro p hp
    have : p.1 ∈ song.tracks.map (·.1) ++ [trackIdOfParam subId] :=
      hperm.mem_iff.1 (List.mem_map.2 ⟨p, hp, rfl⟩)
    rcases List.mem_append.1 this with h | h
    · obtain ⟨q, hq', hqe⟩ := List.mem_map.1 h
      have := hfr.above q hq'
      rw [← hqe]
      omega
    · simp only [List.mem_singleton] at h
      rw [h, trackIdOfParam_small (by have := hfr.lo; omega) (by have := hfr.hi; omega)]
      have := hfr.lo
      omega

theorem FreshInv.setTrack {song : Song} {subId : Int} (h : FreshInv song subId) {id : Nat} {x : List Event}
    (hx : song.track? id = some x) (evs : List Event) : FreshInv (setTrack song id evs) subId := by
  refine ⟨h.lo, h.hi, ?_⟩
  intro p hp
  rw [setTrack_tracks hx] at hp
  obtain ⟨q, hq, rfl⟩ := List.mem_map.1 hp
  split
  · rename_i hqid
    have := h.above q hq
    rw [← beq_iff_eq.1 hqid]; exact this
  · exact h.above q hq

theorem findMatch_track {song : Song} {m : SAMap} {srcT srcStart : Nat} {mt : Match}
    (h : findMatch song m srcT srcStart = .ok mt) : ∃ src, song.track? srcT = some src := by
  cases hsrc : song.track? srcT with
  | none =>
    unfold findMatch at h; rw [hsrc] at h
    simp [bind, Except.bind, throw, throwThe, MonadExceptOf.throw] at h
  | some src => exact ⟨src, rfl⟩

end Ctrmml.OptSteps
