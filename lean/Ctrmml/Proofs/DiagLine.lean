/-
  Helper lemmas for C17 (no property statements): the loop of `parse_mml_track` cut into
  iterations, the column specification of one iteration, of the whole loop, and of
  `parse_mml` / `parse_line` / `read_line`.
-/
import Ctrmml.Proofs.DiagCmd
namespace Ctrmml.DiagCol
open Ctrmml.Lexer Ctrmml.Mml Ctrmml.TrackBuilder Ctrmml.Tables

variable {ln L lo : Nat}

/-! ### monad laws of `P` (as equations of functions) -/

theorem P_bind_assoc {α β γ : Type} (m : P α) (f : α → P β) (g : β → P γ) :
    (m >>= f) >>= g = m >>= fun a => f a >>= g := by
  funext s
  show P.bind (P.bind m f) g s = P.bind m (fun a => P.bind (f a) g) s
  unfold P.bind
  cases m s <;> rfl

theorem P_pure_bind {α β : Type} (a : α) (f : α → P β) : (pure a : P α) >>= f = f a := rfl

theorem P_ite_bind {α β : Type} (c : Prop) [Decidable c] (a b : P α) (f : α → P β) :
    (if c then a else b) >>= f = if c then a >>= f else b >>= f := by
  split <;> rfl

theorem P_parseError_bind {α β : Type} (msg : String) (f : α → P β) : (parseError msg : P α) >>= f = parseError msg := rfl

/-- what one round of the `while(1)` of `parse_mml_track` does after its `get_token()` returned
`c`; `true` = go round again -/
def iterBody (c : Int) : P Bool := do
  let s ← getS
  if c == 124 then pure true
  else if c == 59 then pure false
  else if (c == 47 || c == 125) && s.conditionalBlock then do
    conditionalBlockEnd c
    pure true
  else if c == 123 && !s.conditionalBlock then do
    conditionalBlockBegin
    pure true
  else if c == 37 then do
    ungetC c
    let s ← getS
    trackOp (.setReference (some s.inp.getReference))
    let _ ← getC
    trackOp (.addEvent ev_PLATFORM (← expectParameter) 0 0)
    pure true
  else if c == 0 then pure false
  else do
    ungetC c
    let s ← getS
    trackOp (.setReference (some s.inp.getReference))
    if (← mmlBasic) == false then pure true
    else if (← mmlControl) == false then pure true
    else if (← mmlEnvelope) == false then pure true
    else parseError "unknown MML command"

/-- the loop of the model is: `get_token()`, one `iterBody`, round again or return -/
theorem parseMmlTrackF_succ (fuel : Nat) :
    parseMmlTrackF (fuel + 1) = (do
      let c ← getTokenC
      let again ← iterBody c
      if again then parseMmlTrackF fuel else pure ()) := by
  conv => lhs; unfold parseMmlTrackF
  unfold iterBody
  simp only [P_bind_assoc, P_pure_bind, P_ite_bind, P_parseError_bind, ↓reduceIte, Bool.false_eq_true]

/-- one round, started behind the first character of the command (column `lo + 1`, `lo` = the
column of that character): every `parse_error` of the round is at a column in `[lo, L + 1]` -/
theorem iterBody_sp (ch : Int) : Sp ln L lo (iterBody ch)
    (fun c => c = lo + 1 ∧ c ≤ L + 1 ∧ (ch ≠ 0 → c ≤ L))
    (fun _ again c' => c' ≤ L + 1 ∧ (again = true → c' ≤ L) ∧ lo ≤ c') := by
  intro s hg hr
  unfold iterBody
  sp_run

/-- `get_token()` always returns; its column is that of the first non-blank character plus one -/
theorem getTokenC_run (s : MmlState) :
    getTokenC s = .ok s.inp.lb.getToken.1 (setLb s s.inp.lb.getToken.2) := rfl

theorem getTokenC_col (s : MmlState) :
    (setLb s s.inp.lb.getToken.2).inp.lb.column =
      s.inp.lb.column + LineBuffer.countBlanks (s.inp.lb.buf.drop s.inp.lb.column) + 1 := rfl

/-- the whole loop: bounds for every `parse_error` and for the column at the return -/
theorem parseMmlTrackF_sp (fuel : Nat) : Sp ln L lo (parseMmlTrackF fuel) (fun c => lo ≤ c ∧ c ≤ L)
    (fun _ _ c' => c' ≤ L + 1 ∧ lo ≤ c') := by
  induction fuel with
  | zero =>
    intro s hg hr
    unfold parseMmlTrackF
    exact Out.foreign
  | succ fuel ih =>
    intro s hg hr
    rw [parseMmlTrackF_succ]
    sp_step
    rename_i ch s₁ hg₁ hq₁
    simp only [] at hq₁
    refine Out.bind (Q := fun again c' => c' ≤ L + 1 ∧ (again = true → c' ≤ L) ∧ lo ≤ c') ?_ ?_
    · have := iterBody_sp (ln := ln) (L := L) (lo := s₁.inp.lb.column - 1) ch s₁ hg₁ (by simp only []; omega)
      refine Out.mono (Out.lo_mono (lo' := lo) (by omega) this) ?_
      intro _ _ h; exact ⟨h.1, h.2.1, by have := h.2.2; omega⟩
    · intro again s₂ hg₂ hq₂
      refine Out.ite ?_ ?_ <;> intro hag
      · refine Out.mono (ih s₂ hg₂ (by simp only [] at hq₂ ⊢; exact ⟨hq₂.2.2, hq₂.2.1 hag⟩)) ?_
        intro _ _ h; exact h
      · refine Out.pure hg₂ ?_
        exact ⟨hq₂.1, hq₂.2.2⟩

macro_rules | `(tactic| sp_atom) => `(tactic| (refine parseMmlTrackF_sp _ _ ?_ ?_ <;> sp_side))

theorem parseMmlTrack_sp : Sp ln L lo parseMmlTrack (fun c => lo ≤ c ∧ c ≤ L) (fun _ _ c' => c' ≤ L + 1 ∧ lo ≤ c') := by
  intro s hg hr
  unfold parseMmlTrack
  sp_run

macro_rules | `(tactic| sp_atom) => `(tactic| (refine parseMmlTrack_sp _ ?_ ?_ <;> sp_side))

/-! ### the failing round -/

/-- `s₀` is a state at the head of the loop of `parse_mml_track` started in `s`: reached by whole
rounds that returned normally and went round again -/
inductive CmdHead : MmlState → MmlState → Prop
  | here (s : MmlState) : CmdHead s s
  | next (s s₁ s₂ s₀ : MmlState) (ch : Int) : getTokenC s = .ok ch s₁ → iterBody ch s₁ = .ok true s₂ →
      CmdHead s₂ s₀ → CmdHead s s₀

/-- an `InputError` of the loop is the `InputError` of one round, started at a loop head -/
theorem track_error_round (fuel : Nat) (s s' : MmlState) (msg : String) (r : Ref)
    (h : parseMmlTrackF fuel s = .err (.input msg r) s') :
    ∃ s₀, CmdHead s s₀ ∧
      iterBody s₀.inp.lb.getToken.1 (setLb s₀ s₀.inp.lb.getToken.2) = .err (.input msg r) s' := by
  induction fuel generalizing s with
  | zero =>
    unfold parseMmlTrackF at h
    cases h
  | succ fuel ih =>
    rw [parseMmlTrackF_succ] at h
    change P.bind getTokenC _ s = _ at h
    unfold P.bind at h
    rw [getTokenC_run] at h
    simp only [] at h
    change P.bind (iterBody _) _ _ = _ at h
    unfold P.bind at h
    cases hi : iterBody s.inp.lb.getToken.1 (setLb s s.inp.lb.getToken.2) with
    | err e s'' =>
      rw [hi] at h
      cases h
      exact ⟨s, .here s, hi⟩
    | ok again s₂ =>
      rw [hi] at h
      simp only [] at h
      cases again with
      | false => cases h
      | true =>
        simp only [if_true] at h
        obtain ⟨s₀, hh, he⟩ := ih s₂ h
        exact ⟨s₀, .next s _ s₂ s₀ _ (getTokenC_run s) hi hh, he⟩

/-- loop heads stay on the line, inside it, and never move backwards -/
theorem cmdHead_geo (s s₀ : MmlState) (h : CmdHead s s₀) (hg : Geo ln L s) (hc : s.inp.lb.column ≤ L) :
    Geo ln L s₀ ∧ s.inp.lb.column ≤ s₀.inp.lb.column ∧ s₀.inp.lb.column ≤ L := by
  induction h with
  | here s => exact ⟨hg, Nat.le_refl _, hc⟩
  | next s s₁ s₂ s₀ ch hget hiter _ ih =>
    have h1 := getTokenC_sp (ln := ln) (L := L) (lo := 0) s hg trivial
    unfold run at h1
    rw [hget] at h1
    obtain ⟨hg₁, hq₁⟩ := h1
    have h2 := iterBody_sp (ln := ln) (L := L) (lo := s₁.inp.lb.column - 1) ch s₁ hg₁ (by simp only []; omega)
    unfold run at h2
    rw [hiter] at h2
    obtain ⟨hg₂, hq₂⟩ := h2
    have := ih hg₂ (hq₂.2.1 rfl)
    exact ⟨this.1, by omega, this.2.2⟩

/-! ### `parse_mml`, `parse_line`, `read_line` -/

theorem parseMmlLoop_sp (col : Nat) (hcol : lo ≤ col ∧ col ≤ L) (i : Nat) (l : List Nat) :
    Sp ln L lo (parseMmlLoop col i l) (fun c => c ≤ L + 1) (fun _ _ c' => c' ≤ L + 1) := by
  induction l generalizing i with
  | nil =>
    intro s hg hr
    unfold parseMmlLoop
    sp_run
  | cons id rest ih =>
    intro s hg hr
    unfold parseMmlLoop
    sp_step
    sp_step
    sp_step
    sp_step
    simp only []
    refine Out.ite ?_ ?_ <;> intro _
    · sp_run
    · refine Out.mono (ih _ _ (by assumption) (by sp_side)) ?_
      intro _ _ h; exact h

theorem parseMml_sp : Sp ln L lo parseMml (fun c => lo ≤ c ∧ c ≤ L) (fun _ _ c' => c' ≤ L + 1) := by
  intro s hg hr
  unfold parseMml
  sp_step
  sp_step
  rename_i v s₁ hg₁ hq₁ sv s₂ hg₂ hq₂
  simp only [] at hq₁ hq₂
  refine Out.mono (parseMmlLoop_sp v (by omega) _ _ _ hg₂ (by simp only []; omega)) ?_
  intro _ _ h; exact h

theorem getLine_err (b : LineBuffer) (e : Err) (h : b.getLine = .error e) : ∃ k, e = .foreign k := by
  unfold LineBuffer.getLine at h
  split at h
  · cases h
  · cases h; exact ⟨_, rfl⟩

theorem parseTag_sp : Sp ln L lo parseTag (fun _ => True) (fun c _ c' => c' = c) := by
  intro s hg hr
  unfold parseTag
  sp_step
  rename_i sv s₁ hg₁ hq₁
  cases hgl : sv.inp.lb.getLine with
  | ok l =>
    simp only []
    sp_run
  | error e =>
    obtain ⟨k, rfl⟩ := getLine_err _ _ hgl
    simp only []
    sp_run

theorem runLastCmd_sp : Sp ln L lo runLastCmd (fun c => lo ≤ c ∧ c ≤ L) (fun _ _ c' => c' ≤ L + 1) := by
  intro s hg hr
  unfold runLastCmd
  sp_step
  split
  · sp_run
  · refine Out.mono (parseMml_sp _ (by assumption) (by sp_side)) ?_
    intro _ _ h; exact h
  · refine Out.mono (parseTag_sp _ (by assumption) (by sp_side)) ?_
    intro _ _ h; sp_fin

theorem getTrackId_sp : Sp ln L lo getTrackId (fun c => lo ≤ c ∧ c ≤ L) (fun c _ c' => c ≤ c' ∧ c' ≤ L) := by
  intro s hg hr
  unfold getTrackId
  sp_run

macro_rules | `(tactic| sp_atom) => `(tactic| (refine getTrackId_sp _ ?_ ?_ <;> sp_side))

theorem trackListLoop_sp (fuel : Nat) (c : Int) (acc : List Nat) :
    Sp ln L lo (trackListLoop fuel c acc) (fun c => lo ≤ c ∧ c ≤ L) (fun c _ c' => c ≤ c' ∧ c' ≤ L) := by
  induction fuel generalizing c acc with
  | zero =>
    intro s hg hr
    unfold trackListLoop
    exact Out.foreign
  | succ fuel ih =>
    intro s hg hr
    unfold trackListLoop
    simp only []
    sp_step
    refine Out.ite ?_ ?_ <;> intro _
    · refine Out.mono (ih _ _ _ (by assumption) (by sp_side)) ?_
      intro _ _ _; sp_fin
    · sp_run

macro_rules | `(tactic| sp_atom) => `(tactic| (refine trackListLoop_sp _ _ _ _ ?_ ?_ <;> sp_side))
macro_rules | `(tactic| sp_atom) => `(tactic| (refine runLastCmd_sp _ ?_ ?_ <;> sp_side))

theorem tagKeyScan_len (c : Int) (l : List Nat) :
    1 ≤ (tagKeyScan c l).2.1 ∧ (tagKeyScan c l).2.1 ≤ l.length + 1 := by
  induction l generalizing c with
  | nil => simp [tagKeyScan]
  | cons d ds ih =>
    unfold tagKeyScan
    simp only []
    split
    · obtain ⟨k, n, e, hsc⟩ : ∃ k n e, tagKeyScan (schar d) ds = (k, n, e) := ⟨_, _, _, rfl⟩
      have := ih (schar d)
      simp only [hsc, List.length_cons] at this ⊢
      omega
    · simp

/-- the assignment of the tag key and of the column behind it in `parse_line` -/
theorem tagModify_sp (sv : MmlState) (c : Int) :
    Sp ln L lo (modifyS fun s =>
        { setLb s { sv.inp.lb with column := sv.inp.lb.column + (tagKeyScan c (sv.inp.lb.buf.drop sv.inp.lb.column)).2.1 } with
          tagKey := (tagKeyScan c (sv.inp.lb.buf.drop sv.inp.lb.column)).1, lastCmd := .parseTag })
      (fun _ => sv.inp.lb.buf.length = L)
      (fun _ _ c' => sv.inp.lb.column + 1 ≤ c' ∧ (sv.inp.lb.column ≤ L → c' ≤ L + 1)) := by
  intro s hg hr
  have := tagKeyScan_len c (sv.inp.lb.buf.drop sv.inp.lb.column)
  simp only [List.length_drop] at this
  have hr' : sv.inp.lb.buf.length = L := hr
  refine ⟨⟨hg.1, hr'⟩, ?_, ?_⟩
  · show sv.inp.lb.column + 1 ≤ sv.inp.lb.column + (tagKeyScan c (sv.inp.lb.buf.drop sv.inp.lb.column)).2.1
    omega
  · intro hc
    show sv.inp.lb.column + (tagKeyScan c (sv.inp.lb.buf.drop sv.inp.lb.column)).2.1 ≤ L + 1
    omega

macro_rules | `(tactic| sp_atom) => `(tactic| (refine tagModify_sp _ _ _ ?_ ?_ <;> sp_side))

attribute [local irreducible] runLastCmd getTrackId trackListLoop in
theorem parseLine_sp : Sp ln L 0 parseLine (fun c => c = 0) (fun _ _ c' => c' ≤ L + 1) := by
  intro s hg hr
  unfold parseLine
  sp_run

/-! ### statements about results (no `run`, no `Out`) -/

theorem readLine_error (text : List Nat) (n : Nat) (s s' : MmlState) (msg : String) (r : Ref)
    (h : readLine text n s = .err (.input msg r) s') : r.line = n ∧ r.column ≤ text.length + 1 := by
  have h' : parseLine { s with inp := s.inp.readLine text n } = .err (.input msg r) s' := h
  have := parseLine_sp (ln := n) (L := text.length) { s with inp := s.inp.readLine text n } ⟨rfl, rfl⟩ rfl
  unfold run at this
  rw [h'] at this
  exact ⟨this.1, this.2.2⟩

theorem readLines_error : ∀ (ls : List (List Nat)) (n : Nat) (s s' : MmlState) (msg : String) (r : Ref),
    readLines n ls s = .err (.input msg r) s' →
    ∃ i, ∃ hi : i < ls.length, r.line = n + i ∧ r.column ≤ (ls[i]'hi).length + 1
  | [], n, s, s', msg, r, h => by
    unfold readLines at h
    cases h
  | l :: ls, n, s, s', msg, r, h => by
    unfold readLines at h
    change P.bind (readLine l n) _ s = _ at h
    unfold P.bind at h
    cases hl : readLine l n s with
    | err e s'' =>
      rw [hl] at h
      cases h
      have := readLine_error l n s s' msg r hl
      exact ⟨0, by simp, by simpa using this⟩
    | ok a s₁ =>
      rw [hl] at h
      obtain ⟨i, hi, h1, h2⟩ := readLines_error ls (n + 1) s₁ s' msg r h
      refine ⟨i + 1, by simp; omega, by omega, ?_⟩
      simpa using h2

theorem getToken_past (b : LineBuffer) (h : b.buf.length < b.column) : b.getToken.1 = 0 := by
  have hd : b.buf.drop b.column = [] := List.drop_eq_nil_of_le (by omega)
  have hn : b.buf[b.column]? = none := by simp; omega
  simp [LineBuffer.getToken, LineBuffer.get, hd, LineBuffer.countBlanks, hn]

/-- started behind the end of the line the loop returns at once -/
theorem parseMmlTrackF_past (fuel : Nat) (s : MmlState) (h : s.inp.lb.buf.length < s.inp.lb.column)
    (e : Err) (s' : MmlState) (he : parseMmlTrackF fuel s = .err e s') : ∃ k, e = .foreign k := by
  cases fuel with
  | zero =>
    unfold parseMmlTrackF at he
    cases he; exact ⟨_, rfl⟩
  | succ fuel =>
    exfalso
    rw [parseMmlTrackF_succ] at he
    change P.bind getTokenC _ s = _ at he
    unfold P.bind at he
    rw [getTokenC_run] at he
    simp only [getToken_past _ h] at he
    revert he
    simp [iterBody, bind, P.bind, getS, pure, P.pure]

/-- every `InputError` of the loop: on the line being read, at or after the column where the loop
started, at most one past the column `get()` reaches behind the end of the line -/
theorem track_error_bounds (fuel : Nat) (s s' : MmlState) (msg : String) (r : Ref)
    (h : parseMmlTrackF fuel s = .err (.input msg r) s') :
    r.line = s.inp.line ∧ s.inp.lb.column ≤ r.column ∧ r.column ≤ s.inp.lb.buf.length + 1 := by
  by_cases hc : s.inp.lb.column ≤ s.inp.lb.buf.length
  · have := parseMmlTrackF_sp (ln := s.inp.line) (L := s.inp.lb.buf.length) (lo := s.inp.lb.column) fuel s ⟨rfl, rfl⟩
      ⟨Nat.le_refl _, hc⟩
    unfold run at this
    rw [h] at this
    exact this
  · obtain ⟨k, hk⟩ := parseMmlTrackF_past fuel s (by omega) _ _ h
    cases hk

/-- the failing round: its first character is at `k`, a loop head's first non-blank column; the
error is on the line, in `[k, L + 1]` -/
theorem track_error_command (fuel : Nat) (s s' : MmlState) (msg : String) (r : Ref)
    (hc : s.inp.lb.column ≤ s.inp.lb.buf.length)
    (h : parseMmlTrackF fuel s = .err (.input msg r) s') :
    ∃ s₀, CmdHead s s₀ ∧ s₀.inp.line = s.inp.line ∧ s₀.inp.lb.buf.length = s.inp.lb.buf.length ∧
      s.inp.lb.column ≤ s₀.inp.lb.column ∧
      s₀.inp.lb.column + LineBuffer.countBlanks (s₀.inp.lb.buf.drop s₀.inp.lb.column) < s.inp.lb.buf.length ∧
      r.line = s.inp.line ∧
      s₀.inp.lb.column + LineBuffer.countBlanks (s₀.inp.lb.buf.drop s₀.inp.lb.column) ≤ r.column ∧
      r.column ≤ s.inp.lb.buf.length + 1 := by
  obtain ⟨s₀, hh, he⟩ := track_error_round fuel s s' msg r h
  obtain ⟨hg₀, hlo, hhi⟩ := cmdHead_geo (ln := s.inp.line) (L := s.inp.lb.buf.length) s s₀ hh ⟨rfl, rfl⟩ hc
  have hg₁ : Geo s.inp.line s.inp.lb.buf.length (setLb s₀ s₀.inp.lb.getToken.2) := ⟨hg₀.1, hg₀.2⟩
  have hb := countBlanks_le (s₀.inp.lb.buf.drop s₀.inp.lb.column)
  simp only [List.length_drop] at hb
  have hL := hg₀.2
  -- the character `get_token()` returned: 0 would end the loop without an error
  have hnz : s₀.inp.lb.getToken.1 ≠ 0 := by
    intro h0
    rw [h0] at he
    revert he
    simp [iterBody, bind, P.bind, getS, pure, P.pure]
  have hin := getToken_nonzero _ hnz
  have := iterBody_sp (ln := s.inp.line) (L := s.inp.lb.buf.length)
    (lo := s₀.inp.lb.column + LineBuffer.countBlanks (s₀.inp.lb.buf.drop s₀.inp.lb.column))
    s₀.inp.lb.getToken.1 (setLb s₀ s₀.inp.lb.getToken.2) hg₁
    (by
      refine ⟨getTokenC_col s₀, ?_, ?_⟩
      · rw [getTokenC_col]; omega
      · intro _; rw [getTokenC_col]; omega)
  unfold run at this
  rw [he] at this
  exact ⟨s₀, hh, hg₀.1, hg₀.2, hlo, by omega, this.1, this.2.1, this.2.2⟩

end Ctrmml.DiagCol
