/-
  C01, layer 3 — a song all of whose tracks validate calls only tracks that exist; hence a fresh
  subroutine id is not called anywhere.
-/
import Ctrmml.Proofs.OptSubCount
namespace Ctrmml.OptSteps
open Ctrmml Ctrmml.Tree Ctrmml.Expand Ctrmml.Rewrite Ctrmml.Opt Tables

/-- a forest that expands without error and has the shape of a parsed track is closed -/
theorem closed_of_spine_ok {c : CallFn} {b : Bool} {f : List Node} (hs : Spine b f) :
    ∀ {d : Nat} {il : Bool} {x : List Item}, expL c d il f = .ok x → closedL f := by
  induction hs with
  | nil => intro d il x _; simp [closedL]
  | closed hn _ ih =>
    intro d il x h
    rw [expL_cons] at h
    obtain ⟨_, _, _, h2, _⟩ := seq_ok h
    exact ⟨hn, ih h2⟩
  | stray hk =>
    intro d il x h
    rw [expL_cons] at h
    obtain ⟨_, _, h1, _, _⟩ := seq_ok h
    simp [expN] at h1
  | opened hk _ _ =>
    intro d il x h
    rw [expL_cons] at h
    obtain ⟨_, _, h1, _, _⟩ := seq_ok h
    simp [expN] at h1

mutual
theorem jumps_okN {c : CallFn} : ∀ (n : Node), Node.closed n → ∀ {d : Nat} {il : Bool} {x : List Item},
    expN c d il n = .ok x → ∀ e ∈ flattenN n, e.kind = .jump → ∃ d' y, c d' (trackIdOfParam e.param) = .ok y
  | .ev e0, _, d, il, x, h, e, he, hk => by
    simp only [flattenN, List.mem_singleton] at he
    subst he
    simp only [expN, hk] at h
    obtain ⟨_, y, _, h2, _⟩ := seq_ok h
    exact ⟨d, y, h2⟩
  | .brk e0, hc, d, il, x, h, e, he, hk => by
    simp only [flattenN, List.mem_singleton] at he
    subst he
    have : e.kind = .loopBreak := hc
    rw [this] at hk; cases hk
  | .strayEnd _, hc, _, _, _, _, _, _, _ => by simp [Node.closed] at hc
  | .openLoop _ _, hc, _, _, _, _, _, _, _ => by simp [Node.closed] at hc
  | .loop ls body le, hc, d, il, x, h, e, he, hk => by
    have hc' : ls.kind = .loopStart ∧ closedL body ∧ le.kind = .loopEnd := by simpa [Node.closed] using hc
    simp only [flattenN, List.mem_cons, List.mem_append, List.not_mem_nil, or_false] at he
    rcases he with rfl | he | rfl
    · rw [hc'.1] at hk; cases hk
    · rw [expN_loop] at h
      split at h
      · cases h
      · split at h
        · cases h
        · rename_i full hfull
          exact jumps_okL body hc'.2.1 hfull e he hk
    · rw [hc'.2.2] at hk; cases hk
theorem jumps_okL {c : CallFn} : ∀ (f : List Node), closedL f → ∀ {d : Nat} {il : Bool} {x : List Item},
    expL c d il f = .ok x → ∀ e ∈ flattenL f, e.kind = .jump → ∃ d' y, c d' (trackIdOfParam e.param) = .ok y
  | [], _, _, _, _, _, e, he, _ => by simp [flattenL] at he
  | n :: ns, hc, d, il, x, h, e, he, hk => by
    have hc' : Node.closed n ∧ closedL ns := by simpa [closedL] using hc
    rw [expL_cons] at h
    obtain ⟨_, _, h1, h2, _⟩ := seq_ok h
    simp only [flattenL, List.mem_append] at he
    rcases he with he | he
    · exact jumps_okN n hc'.1 h1 e he hk
    · exact jumps_okL ns hc'.2 h2 e he hk
end

theorem callK_ok_track {S : Song} {k d id : Nat} {y : List Item} (h : callK S k d id = .ok y) :
    S.track? id ≠ none := by
  cases k with
  | zero => simp [callK] at h
  | succ k =>
    simp only [callK] at h
    split at h
    · cases h
    · split at h
      · cases h
      · rename_i evs hevs; rw [hevs]; simp

/-- **A validating track calls only tracks that exist.** -/
theorem jump_target_exists {S : Song} {t : List Event} {x : List Item} (hne : NoEnd t) (h : perf S t = .ok x)
    {e : Event} (he : e ∈ t) (hk : e.kind = .jump) : S.track? (trackIdOfParam e.param) ≠ none := by
  have hs := spine_parse t hne
  have hc := closed_of_spine_ok hs h
  have he' : e ∈ flattenL (parse t) := by rw [flatten_parse]; exact he
  obtain ⟨d', y, hy⟩ := jumps_okL (parse t) hc h e he' hk
  exact callK_ok_track hy

end Ctrmml.OptSteps
