/-
  C09 helper: the invariant of the conversion state carried through the mutually recursive
  `hook` / `runWriter` / `getSubroutine` / `getMacroTrack` (no property statements).
-/
import Ctrmml.Proofs.MdsHook
namespace Ctrmml.Mds
open Ctrmml Ctrmml.Player Tables

/-! ## association lists -/

theorem lookup_none_not_mem {α β} [BEq α] [LawfulBEq α] : ∀ (l : List (α × β)) (k : α), l.lookup k = none → k ∉ l.map (·.1)
  | [], _, _ => by simp
  | (a, b) :: l, k, h => by
    simp only [List.lookup] at h
    split at h
    · simp at h
    · rename_i hne
      simp only [List.map_cons, List.mem_cons, not_or]
      exact ⟨by intro hc; subst hc; simp at hne, lookup_none_not_mem l k h⟩

theorem lookup_some_mem {α β} [BEq α] [LawfulBEq α] : ∀ (l : List (α × β)) (k : α) (v : β), l.lookup k = some v → (k, v) ∈ l
  | [], _, _, h => by simp at h
  | (a, b) :: l, k, v, h => by
    simp only [List.lookup] at h
    split at h
    · rename_i heq
      have : k = a := by simpa using heq
      simp at h; subst h; subst this; simp
    · exact List.mem_cons_of_mem _ (lookup_some_mem l k v h)

/-- the three maps number their keys 0,1,2,… in insertion order, keys are distinct, and the
subroutine / macro maps are as long as their lists -/
structure MapsOk (c : Conv) : Prop where
  used : c.usedData.map (·.2) = List.range c.usedData.length
  usedKeys : (c.usedData.map (·.1)).Nodup
  sub : c.subMap.map (·.2) = List.range c.subMap.length
  subKeys : (c.subMap.map (·.1)).Nodup
  subLen : c.subMap.length = c.subList.length
  mac : c.macroMap.map (·.2) = List.range c.macroMap.length
  macKeys : (c.macroMap.map (·.1)).Nodup
  macLen : c.macroMap.length = c.macroList.length

theorem mapsOk_empty : MapsOk {} := ⟨rfl, List.nodup_nil, rfl, List.nodup_nil, rfl, rfl, List.nodup_nil, rfl⟩

theorem range_snoc_ok {α} (m : List (α × Nat)) (k : α) (h : m.map (·.2) = List.range m.length) :
    (m ++ [(k, m.length)]).map (·.2) = List.range (m ++ [(k, m.length)]).length := by
  simp [h, List.range_succ]

theorem nodup_snoc {α} [DecidableEq α] (l : List α) (a : α) (h : l.Nodup) (ha : a ∉ l) : (l ++ [a]).Nodup := by
  rw [List.nodup_append]
  refine ⟨h, by simp, ?_⟩
  intro x hx y hy
  rw [List.mem_singleton] at hy
  subst hy
  intro hxy; subst hxy; exact ha hx

theorem getEnvelope_cases (c : Conv) (m : Nat) :
    ((getEnvelope c m).1 = c ∧ (m, (getEnvelope c m).2) ∈ c.usedData) ∨
    ((getEnvelope c m).1 = { c with usedData := c.usedData ++ [(m, c.usedData.length)] } ∧ (getEnvelope c m).2 = c.usedData.length ∧
      m ∉ c.usedData.map (·.1)) := by
  unfold getEnvelope
  cases h : c.usedData.lookup m with
  | some i => exact Or.inl ⟨rfl, lookup_some_mem _ _ _ h⟩
  | none => exact Or.inr ⟨rfl, rfl, lookup_none_not_mem _ _ h⟩

theorem mapsOk_getEnvelope (c : Conv) (m : Nat) (h : MapsOk c) : MapsOk (getEnvelope c m).1 := by
  rcases getEnvelope_cases c m with ⟨e, _⟩ | ⟨e, _, hn⟩
  · rw [e]; exact h
  · rw [e]
    exact { h with used := range_snoc_ok _ _ h.used, usedKeys := by simpa using nodup_snoc _ _ h.usedKeys hn }


/-! ## events in play -/

/-- `ev` occurs in a finished or in-progress event list: subroutines, macro tracks, or the
writers' lists `L` (innermost writer first, then the callers', then the finished channel tracks) -/
def AllEv (c : Conv) (L : List (List MEv)) (ev : MEv) : Prop :=
  (∃ l ∈ c.subList, ev ∈ l) ∨ (∃ l ∈ c.macroList, ev ∈ l) ∨ (∃ l ∈ L, ev ∈ l)

theorem allEv_head (c : Conv) (o : List MEv) (L : List (List MEv)) (ev : MEv) :
    AllEv c (o :: L) ev ↔ AllEv c L ev ∨ ev ∈ o := by
  unfold AllEv
  constructor
  · rintro (h | h | ⟨l, hl, he⟩)
    · exact Or.inl (Or.inl h)
    · exact Or.inl (Or.inr (Or.inl h))
    · rcases List.mem_cons.mp hl with rfl | hl'
      · exact Or.inr he
      · exact Or.inl (Or.inr (Or.inr ⟨l, hl', he⟩))
  · rintro ((h | h | ⟨l, hl, he⟩) | h)
    · exact Or.inl h
    · exact Or.inr (Or.inl h)
    · exact Or.inr (Or.inr ⟨l, List.mem_cons_of_mem _ hl, he⟩)
    · exact Or.inr (Or.inr ⟨o, List.mem_cons_self, h⟩)

theorem mem_snoc_nil {ev : MEv} {ls : List (List MEv)} : (∃ l ∈ ls ++ [[]], ev ∈ l) ↔ ∃ l ∈ ls, ev ∈ l := by
  constructor
  · rintro ⟨l, hl, he⟩
    rcases List.mem_append.mp hl with h | h
    · exact ⟨l, h, he⟩
    · simp at h; subst h; simp at he
  · rintro ⟨l, hl, he⟩; exact ⟨l, List.mem_append_left _ hl, he⟩

/-- replacing a placeholder `[]` by `o` adds exactly the events of `o` -/
theorem mem_set_placeholder {ev : MEv} {ls : List (List MEv)} {k : Nat} {o : List MEv} (hk : ls[k]? = some []) :
    (∃ l ∈ ls.set k o, ev ∈ l) ↔ (∃ l ∈ ls, ev ∈ l) ∨ ev ∈ o := by
  have hlt : k < ls.length := by
    rcases Nat.lt_or_ge k ls.length with h | h
    · exact h
    · rw [List.getElem?_eq_none h] at hk; cases hk
  constructor
  · rintro ⟨l, hl, he⟩
    rcases List.mem_or_eq_of_mem_set hl with h | h
    · exact Or.inl ⟨l, h, he⟩
    · subst h; exact Or.inr he
  · rintro (⟨l, hl, he⟩ | he)
    · obtain ⟨j, hj, rfl⟩ := List.mem_iff_getElem.mp hl
      have hne : j ≠ k := by
        intro hjk; subst hjk
        rw [List.getElem?_eq_getElem hlt] at hk
        have : ls[j] = [] := Option.some.inj hk
        rw [this] at he; simp at he
      refine ⟨ls[j], ?_, he⟩
      apply List.mem_iff_getElem.mpr
      refine ⟨j, by simpa using hj, ?_⟩
      rw [List.getElem_set_ne (Ne.symm hne)]
    · exact ⟨o, List.mem_iff_getElem.mpr ⟨k, by simpa using hlt, by simp⟩, he⟩

/-! ## scoping -/

def Scoped (nS nM nD : Nat) (ev : MEv) : Prop :=
  (ev.type = mds_PAT → ev.arg < nS) ∧ (ev.type = mds_INS ∨ ev.type = mds_PCM → ev.arg < nD) ∧
  (ev.type = mds_PEG → ev.arg ≤ nD) ∧ (ev.type = mds_MTAB → ev.arg ≤ nM)

abbrev ScopedC (c : Conv) (ev : MEv) : Prop := Scoped c.subList.length c.macroList.length c.usedData.length ev

theorem Scoped.mono {a b e a' b' e' : Nat} {ev : MEv} (h : Scoped a b e ev) (h1 : a ≤ a') (h2 : b ≤ b') (h3 : e ≤ e') :
    Scoped a' b' e' ev :=
  ⟨fun t => Nat.lt_of_lt_of_le (h.1 t) h1, fun t => Nat.lt_of_lt_of_le (h.2.1 t) h3,
   fun t => Nat.le_trans (h.2.2.1 t) h3, fun t => Nat.le_trans (h.2.2.2 t) h2⟩

theorem scoped_of_plain {ev : MEv} (h : Plain ev) (a b e : Nat) : Scoped a b e ev :=
  ⟨fun t => absurd t h.1, fun t => t.elim (fun x => absurd x h.2.1) (fun x => absurd x h.2.2.1),
   fun t => by rw [h.2.2.2.1 t]; exact Nat.zero_le _, fun t => by rw [h.2.2.2.2 t]; exact Nat.zero_le _⟩

theorem u16_nat (k : Nat) : u16 (k : Int) = k % 65536 := by unfold u16; omega

theorem u16_wrap16 (x : Int) : u16 (wrap16 x) = u16 x := by unfold u16 wrap16; omega

theorem u16_succ (k : Nat) : u16 (wrap16 ((k : Int) + 1)) = (k + 1) % 65536 := by
  rw [u16_wrap16]; unfold u16; omega


/-! ## the invariant -/

def subKey (t : Int) (inDrum en : Bool) : Int := t * 4 + (if inDrum then 2 else 0) + (if en then 1 else 0)

/-- `ev` is the operand-carrying event that refers to subroutine `k` registered under `key` -/
def SubRef (key : Int) (ev : MEv) (k : Nat) : Prop :=
  (key % 4 < 2 ∧ ev.type = mds_PAT ∧ ev.arg = u16 k) ∨ (2 ≤ key % 4 ∧ DrumRef ev k)

def CovSub (c : Conv) (L : List (List MEv)) (k : Nat) : Prop :=
  ∃ key, (key, k) ∈ c.subMap ∧ ∃ ev, AllEv c L ev ∧ SubRef key ev k

def CovMac (c : Conv) (L : List (List MEv)) (k : Nat) : Prop :=
  ∃ ev, AllEv c L ev ∧ ev.type = mds_MTAB ∧ ev.arg = u16 (wrap16 ((k : Int) + 1))

def DataRef (ev : MEv) (i : Nat) : Prop :=
  ((ev.type = mds_INS ∨ ev.type = mds_PCM) ∧ ev.arg = u16 i) ∨ (ev.type = mds_PEG ∧ ev.arg = u16 (wrap16 ((i : Int) + 1)))

def CovData (c : Conv) (L : List (List MEv)) (i : Nat) : Prop := ∃ ev, AllEv c L ev ∧ DataRef ev i

/-- `evs` is what the writer makes of the track that `key` names (track id and the two drum flags) -/
def SubNamed (song : Song) (d : DataInfo) (key : Int) (evs : List MEv) : Prop :=
  ∃ (t : Int) (inDrum en : Bool) (tevs : List Event) (n steps : Nat) (c0 c1 : Conv) (w : WState),
    key = subKey t inDrum en ∧ song.track? (trackIdOfParam t) = some tevs ∧
    runWriter song d tevs n steps c0 { drumEnabled := en, inDrum := inDrum, trackId := t } initState = .ok (c1, w) ∧
    evs = w.out

def MacNamed (song : Song) (d : DataInfo) (key : Int) (evs : List MEv) : Prop :=
  ∃ (tevs : List Event) (n steps : Nat) (c0 c1 : Conv) (w : WState),
    song.track? (trackIdOfParam key) = some tevs ∧
    runWriter song d tevs n steps c0 { drumEnabled := false, inDrum := false, trackId := key } initState = .ok (c1, w) ∧
    evs = w.out

/-- bookkeeping of the recursion: `xs`/`xm` = subroutines / macro tracks created by a call whose
operand has not been pushed yet (exempt from coverage), `hs`/`hm` = entries still holding the
placeholder `{}` because their conversion is in progress -/
structure Pend where
  xs : List Nat := []
  xm : List Nat := []
  hs : List Nat := []
  hm : List Nat := []

structure Inv (song : Song) (d : DataInfo) (c : Conv) (L : List (List MEv)) (P : Pend) : Prop where
  maps : MapsOk c
  scopedEv : ∀ ev, AllEv c L ev → ScopedC c ev
  covSub : ∀ k, k < c.subList.length → k ∉ P.xs → CovSub c L k
  covMac : ∀ k, k < c.macroList.length → k ∉ P.xm → CovMac c L k
  covData : ∀ i, i < c.usedData.length → CovData c L i
  holdS : ∀ k ∈ P.hs, c.subList[k]? = some []
  holdM : ∀ k ∈ P.hm, c.macroList[k]? = some []
  namedS : ∀ p ∈ c.subMap, p.2 ∉ P.hs → ∃ evs, c.subList[p.2]? = some evs ∧ SubNamed song d p.1 evs
  namedM : ∀ p ∈ c.macroMap, p.2 ∉ P.hm → ∃ evs, c.macroList[p.2]? = some evs ∧ MacNamed song d p.1 evs

theorem inv_empty (song : Song) (d : DataInfo) : Inv song d {} [] {} where
  maps := mapsOk_empty
  scopedEv := by intro ev h; rcases h with ⟨l, hl, _⟩ | ⟨l, hl, _⟩ | ⟨l, hl, _⟩ <;> simp at hl
  covSub := by intro k hk; simp at hk
  covMac := by intro k hk; simp at hk
  covData := by intro k hk; simp at hk
  holdS := by intro k hk; simp [Pend.hs] at hk
  holdM := by intro k hk; simp [Pend.hm] at hk
  namedS := by intro p hp; simp at hp
  namedM := by intro p hp; simp at hp

/-- more events in the innermost writer's list, all within scope -/
theorem inv_add {song : Song} {d : DataInfo} {c : Conv} {o : List MEv} {L : List (List MEv)} {P : Pend}
    (h : Inv song d c (o :: L) P) (evs : List MEv) (hs : ∀ ev ∈ evs, ScopedC c ev) : Inv song d c ((o ++ evs) :: L) P := by
  have up : ∀ ev, AllEv c (o :: L) ev → AllEv c ((o ++ evs) :: L) ev := by
    intro ev he
    rw [allEv_head] at he ⊢
    rcases he with he | he
    · exact Or.inl he
    · exact Or.inr (List.mem_append_left _ he)
  refine { h with scopedEv := ?_, covSub := ?_, covMac := ?_, covData := ?_ }
  · intro ev he
    rw [allEv_head] at he
    rcases he with he | he
    · exact h.scopedEv ev ((allEv_head ..).mpr (Or.inl he))
    · rcases List.mem_append.mp he with he | he
      · exact h.scopedEv ev ((allEv_head ..).mpr (Or.inr he))
      · exact hs ev he
  · intro k hk hx
    obtain ⟨key, hm, ev, he, hr⟩ := h.covSub k hk hx
    exact ⟨key, hm, ev, up ev he, hr⟩
  · intro k hk hx
    obtain ⟨ev, he, hr⟩ := h.covMac k hk hx
    exact ⟨ev, up ev he, hr⟩
  · intro i hi
    obtain ⟨ev, he, hr⟩ := h.covData i hi
    exact ⟨ev, up ev he, hr⟩

theorem val_lt_of_mem {α} {m : List (α × Nat)} (h : m.map (·.2) = List.range m.length) {p : α × Nat} (hp : p ∈ m) :
    p.2 < m.length := by
  have : p.2 ∈ m.map (·.2) := List.mem_map.mpr ⟨p, hp, rfl⟩
  rw [h] at this
  exact List.mem_range.mp this

theorem pair_eq_of_nodup_val {α} : ∀ (m : List (α × Nat)), (m.map (·.2)).Nodup → ∀ {p q : α × Nat}, p ∈ m → q ∈ m → p.2 = q.2 → p = q
  | [], _, _, _, hp, _, _ => by simp at hp
  | a :: m, h, p, q, hp, hq, hv => by
    simp only [List.map_cons, List.nodup_cons] at h
    rcases List.mem_cons.mp hp with rfl | hp'
    · rcases List.mem_cons.mp hq with rfl | hq'
      · rfl
      · exact absurd (List.mem_map.mpr ⟨q, hq', hv.symm⟩) h.1
    · rcases List.mem_cons.mp hq with rfl | hq'
      · exact absurd (List.mem_map.mpr ⟨p, hp', hv⟩) h.1
      · exact pair_eq_of_nodup_val m h.2 hp' hq' hv

theorem pair_eq_of_val {α} {m : List (α × Nat)} (h : m.map (·.2) = List.range m.length) {p q : α × Nat}
    (hp : p ∈ m) (hq : q ∈ m) (hv : p.2 = q.2) : p = q :=
  pair_eq_of_nodup_val m (by rw [h]; exact List.nodup_range) hp hq hv

/-- the operand for a pending subroutine has been pushed -/
theorem inv_cover_sub {song : Song} {d : DataInfo} {c : Conv} {o : List MEv} {L : List (List MEv)} {P : Pend} {k : Nat}
    (h : Inv song d c (o :: L) { P with xs := k :: P.xs }) (key : Int) (hm : (key, k) ∈ c.subMap)
    (ev : MEv) (he : ev ∈ o) (hr : SubRef key ev k) : Inv song d c (o :: L) P := by
  refine { h with covSub := ?_ }
  intro k' hk' hx
  by_cases hkk : k' = k
  · subst hkk
    exact ⟨key, hm, ev, (allEv_head ..).mpr (Or.inr he), hr⟩
  · exact h.covSub k' hk' (by simp [hkk, hx])

theorem inv_cover_mac {song : Song} {d : DataInfo} {c : Conv} {o : List MEv} {L : List (List MEv)} {P : Pend} {k : Nat}
    (h : Inv song d c (o :: L) { P with xm := k :: P.xm })
    (ev : MEv) (he : ev ∈ o) (ht : ev.type = mds_MTAB) (ha : ev.arg = u16 (wrap16 ((k : Int) + 1))) : Inv song d c (o :: L) P := by
  refine { h with covMac := ?_ }
  intro k' hk' hx
  by_cases hkk : k' = k
  · subst hkk
    exact ⟨ev, (allEv_head ..).mpr (Or.inr he), ht, ha⟩
  · exact h.covMac k' hk' (by simp [hkk, hx])


theorem allEv_congr {c c' : Conv} (hs : c'.subList = c.subList) (hm : c'.macroList = c.macroList) (L : List (List MEv)) (ev : MEv) :
    AllEv c' L ev ↔ AllEv c L ev := by unfold AllEv; rw [hs, hm]

theorem getEnvelope_spec (c : Conv) (key : Nat) (hmo : MapsOk c) :
    (getEnvelope c key).1.subList = c.subList ∧ (getEnvelope c key).1.macroList = c.macroList ∧
    (getEnvelope c key).1.subMap = c.subMap ∧ (getEnvelope c key).1.macroMap = c.macroMap ∧
    c.usedData.length ≤ (getEnvelope c key).1.usedData.length ∧
    (getEnvelope c key).2 < (getEnvelope c key).1.usedData.length ∧
    (∀ i, i < (getEnvelope c key).1.usedData.length → i < c.usedData.length ∨ i = (getEnvelope c key).2) ∧
    (key, (getEnvelope c key).2) ∈ (getEnvelope c key).1.usedData := by
  rcases getEnvelope_cases c key with ⟨e, hmem⟩ | ⟨e, e2, _⟩
  · rw [e]
    exact ⟨rfl, rfl, rfl, rfl, Nat.le_refl _, val_lt_of_mem hmo.used hmem, fun i hi => Or.inl hi, hmem⟩
  · rw [e, e2]
    refine ⟨rfl, rfl, rfl, rfl, by simp, by simp, ?_, by simp⟩
    intro i hi; simp at hi; omega

theorem scoped_dataRef {ty arg i a b e : Nat} (hi : i < e)
    (hf : ((ty = mds_INS ∨ ty = mds_PCM) ∧ arg = u16 i) ∨ (ty = mds_PEG ∧ arg = u16 (wrap16 ((i : Int) + 1)))) :
    Scoped a b e ⟨ty, arg⟩ := by
  have e1 : mds_INS = 225 := rfl
  have e2 : mds_PCM = 240 := rfl
  have e3 : mds_PEG = 232 := rfl
  have e4 : mds_PAT = 254 := rfl
  have e5 : mds_MTAB = 235 := rfl
  rcases hf with ⟨ht, ha⟩ | ⟨ht, ha⟩
  · rw [u16_nat] at ha
    refine ⟨?_, ?_, ?_, ?_⟩ <;> intro hx <;> simp only [e1, e2, e3, e4, e5] at * <;> omega
  · rw [u16_succ] at ha
    refine ⟨?_, ?_, ?_, ?_⟩ <;> intro hx <;> simp only [e1, e2, e3, e4, e5] at * <;> omega

/-- an instrument / envelope event: `get_envelope` then the operand is pushed -/
theorem inv_data {song : Song} {d : DataInfo} {c : Conv} {o : List MEv} {L : List (List MEv)} {P : Pend}
    (h : Inv song d c (o :: L) P) (key ty arg : Nat) (pre : List MEv) (hpre : ∀ x ∈ pre, Plain x)
    (hf : ((ty = mds_INS ∨ ty = mds_PCM) ∧ arg = u16 (getEnvelope c key).2) ∨
      (ty = mds_PEG ∧ arg = u16 (wrap16 (((getEnvelope c key).2 : Int) + 1)))) :
    Inv song d (getEnvelope c key).1 ((o ++ pre ++ [⟨ty, arg⟩]) :: L) P := by
  obtain ⟨hs, hm, hsm, hmm, hle, hlt, hall, _⟩ := getEnvelope_spec c key h.maps
  have hmaps := mapsOk_getEnvelope c key h.maps
  generalize (getEnvelope c key).1 = c' at *
  generalize (getEnvelope c key).2 = i at *
  have h1 := inv_add h pre (fun ev he => scoped_of_plain (hpre ev he) _ _ _)
  have up : ∀ ev, AllEv c ((o ++ pre) :: L) ev → AllEv c' ((o ++ pre ++ [⟨ty, arg⟩]) :: L) ev := by
    intro ev he
    rw [allEv_congr hs hm]
    rw [allEv_head] at he ⊢
    rcases he with he | he
    · exact Or.inl he
    · exact Or.inr (List.mem_append_left _ he)
  have hnew : AllEv c' ((o ++ pre ++ [⟨ty, arg⟩]) :: L) ⟨ty, arg⟩ := (allEv_head ..).mpr (Or.inr (by simp))
  refine ⟨hmaps, ?_, ?_, ?_, ?_, ?_, ?_, ?_, ?_⟩
  · intro ev he
    rw [allEv_congr hs hm, allEv_head] at he
    rcases he with he | he
    · have := h1.scopedEv ev ((allEv_head ..).mpr (Or.inl he))
      show Scoped _ _ _ ev
      rw [hs, hm]; exact this.mono (Nat.le_refl _) (Nat.le_refl _) hle
    · rcases List.mem_append.mp he with he | he
      · have := h1.scopedEv ev ((allEv_head ..).mpr (Or.inr he))
        show Scoped _ _ _ ev
        rw [hs, hm]; exact this.mono (Nat.le_refl _) (Nat.le_refl _) hle
      · rw [List.mem_singleton] at he; subst he
        exact scoped_dataRef hlt hf
  · intro k hk hx
    rw [hs] at hk
    obtain ⟨key', hmem, ev, he, hr⟩ := h1.covSub k hk hx
    exact ⟨key', by rw [hsm]; exact hmem, ev, up ev he, hr⟩
  · intro k hk hx
    rw [hm] at hk
    obtain ⟨ev, he, hr⟩ := h1.covMac k hk hx
    exact ⟨ev, up ev he, hr⟩
  · intro i' hi'
    rcases hall i' hi' with hlt' | rfl
    · obtain ⟨ev, he, hr⟩ := h1.covData i' hlt'
      exact ⟨ev, up ev he, hr⟩
    · exact ⟨⟨ty, arg⟩, hnew, hf⟩
  · intro k hk; rw [hs]; exact h1.holdS k hk
  · intro k hk; rw [hm]; exact h1.holdM k hk
  · intro p hp hn; rw [hsm] at hp; rw [hs]; exact h1.namedS p hp hn
  · intro p hp hn; rw [hmm] at hp; rw [hm]; exact h1.namedM p hp hn


theorem getElem?_append_some {α} {l m : List α} {k : Nat} {x : α} (h : l[k]? = some x) : (l ++ m)[k]? = some x := by
  have hlt : k < l.length := by
    rcases Nat.lt_or_ge k l.length with h' | h'
    · exact h'
    · rw [List.getElem?_eq_none h'] at h; cases h
  rw [List.getElem?_append_left hlt]; exact h

theorem covSub_transfer {c c' : Conv} {L L' : List (List MEv)} (up : ∀ ev, AllEv c L ev → AllEv c' L' ev)
    (hmap : ∀ p ∈ c.subMap, p ∈ c'.subMap) {k : Nat} (h : CovSub c L k) : CovSub c' L' k := by
  obtain ⟨key, hm, ev, he, hr⟩ := h
  exact ⟨key, hmap _ hm, ev, up ev he, hr⟩

theorem covMac_transfer {c c' : Conv} {L L' : List (List MEv)} (up : ∀ ev, AllEv c L ev → AllEv c' L' ev)
    (_hmap : ∀ p ∈ c.macroMap, p ∈ c'.macroMap) {k : Nat} (h : CovMac c L k) : CovMac c' L' k := by
  obtain ⟨ev, he, hr⟩ := h
  exact ⟨ev, up ev he, hr⟩

theorem covData_transfer {c c' : Conv} {L L' : List (List MEv)} (up : ∀ ev, AllEv c L ev → AllEv c' L' ev)
    {k : Nat} (h : CovData c L k) : CovData c' L' k := by
  obtain ⟨ev, he, hr⟩ := h
  exact ⟨ev, up ev he, hr⟩

--SUBSTART
/-- `get_subroutine` on a new key: map entry and placeholder are appended, a fresh writer starts -/
theorem inv_sub_new {song : Song} {d : DataInfo} {c : Conv} {L : List (List MEv)} {P : Pend}
    (h : Inv song d c L P) (mapped : Int) (hn : c.subMap.lookup mapped = none) :
    Inv song d { c with subMap := c.subMap ++ [(mapped, c.subList.length)], subList := c.subList ++ [[]] } ([] :: L)
      { P with xs := c.subList.length :: P.xs, hs := c.subList.length :: P.hs } := by
  have up : ∀ ev, AllEv c L ev ↔
      AllEv { c with subMap := c.subMap ++ [(mapped, c.subList.length)], subList := c.subList ++ [[]] } ([] :: L) ev := by
    intro ev
    rw [allEv_head]
    unfold AllEv
    simp only [mem_snoc_nil, List.not_mem_nil, or_false]
  refine { maps := ?maps, scopedEv := ?scopedEv, covSub := ?covSub, covMac := ?covMac, covData := ?covData, holdS := ?holdS, holdM := ?holdM, namedS := ?namedS, namedM := ?namedM }
  case maps =>
    have hmo := h.maps
    refine { hmo with sub := ?_, subKeys := ?_, subLen := ?_ }
    · show (c.subMap ++ [(mapped, c.subList.length)]).map (·.2) = List.range (c.subMap ++ [(mapped, c.subList.length)]).length
      rw [← hmo.subLen]; exact range_snoc_ok _ _ hmo.sub
    · show ((c.subMap ++ [(mapped, c.subList.length)]).map (·.1)).Nodup
      simpa using nodup_snoc _ _ hmo.subKeys (lookup_none_not_mem _ _ hn)
    · show (c.subMap ++ [(mapped, c.subList.length)]).length = (c.subList ++ [[]]).length
      simp [hmo.subLen]
  case scopedEv =>
    intro ev he
    have := h.scopedEv ev ((up ev).mpr he)
    exact this.mono (by simp) (by simp) (by simp)
  case covSub =>
    intro k hk hx
    have hk' : k < c.subList.length := by
      simp only [List.length_append, List.length_cons, List.length_nil] at hk
      simp only [List.mem_cons, not_or] at hx
      omega
    exact covSub_transfer (fun ev => (up ev).mp) (fun p hp => by simp [hp]) (h.covSub k hk' (by simp only [List.mem_cons, not_or] at hx; exact hx.2))
  case covMac =>
    intro k hk hx
    exact covMac_transfer (fun ev => (up ev).mp) (fun p hp => hp) (h.covMac k hk hx)
  case covData =>
    intro i hi
    exact covData_transfer (fun ev => (up ev).mp) (h.covData i hi)
  case holdS =>
    intro k hk
    rcases List.mem_cons.mp hk with rfl | hk'
    · show (c.subList ++ [[]])[c.subList.length]? = some []
      simp
    · exact getElem?_append_some (h.holdS k hk')
  case holdM =>
    exact h.holdM
  case namedS =>
    intro p hp hnh
    simp only [List.mem_cons, not_or] at hnh
    have hp' : p ∈ c.subMap := by
      rcases List.mem_append.mp hp with hp' | hp'
      · exact hp'
      · rw [List.mem_singleton] at hp'; subst hp'; exact absurd rfl hnh.1
    obtain ⟨evs, he, hnm⟩ := h.namedS p hp' hnh.2
    exact ⟨evs, getElem?_append_some he, hnm⟩
  case namedM =>
    exact h.namedM
--SUBEND


--SUBSTART
/-- the end of `get_subroutine` on a new key: the placeholder is replaced by the writer's list -/
theorem inv_sub_set {song : Song} {d : DataInfo} {c : Conv} {o : List MEv} {L : List (List MEv)} {P : Pend} {k : Nat}
    (h : Inv song d c (o :: L) { P with xs := k :: P.xs, hs := k :: P.hs }) (hk : k ∉ P.hs)
    (mapped : Int) (hmem : (mapped, k) ∈ c.subMap) (hnamed : SubNamed song d mapped o) :
    Inv song d { c with subList := c.subList.set k o } L { P with xs := k :: P.xs } := by
  have hph : c.subList[k]? = some [] := h.holdS k (by simp)
  have hlt : k < c.subList.length := by
    rcases Nat.lt_or_ge k c.subList.length with h' | h'
    · exact h'
    · rw [List.getElem?_eq_none h'] at hph; cases hph
  have up : ∀ ev, AllEv c (o :: L) ev ↔ AllEv { c with subList := c.subList.set k o } L ev := by
    intro ev
    rw [allEv_head]
    unfold AllEv
    simp only [mem_set_placeholder hph]
    simp only [or_assoc, or_comm, or_left_comm]
  refine { maps := ?maps, scopedEv := ?scopedEv, covSub := ?covSub, covMac := ?covMac, covData := ?covData, holdS := ?holdS, holdM := ?holdM, namedS := ?namedS, namedM := ?namedM }
  case maps =>
    have hmo := h.maps
    refine { hmo with subLen := ?_ }
    show c.subMap.length = (c.subList.set k o).length
    rw [List.length_set]; exact hmo.subLen
  case scopedEv =>
    intro ev he
    have := h.scopedEv ev ((up ev).mpr he)
    exact this.mono (by simp) (by simp) (by simp)
  case covSub =>
    intro k' hk' hx
    exact covSub_transfer (fun ev => (up ev).mp) (fun p hp => hp) (h.covSub k' (by simpa using hk') hx)
  case covMac =>
    intro k' hk' hx
    exact covMac_transfer (fun ev => (up ev).mp) (fun p hp => hp) (h.covMac k' (by simpa using hk') hx)
  case covData =>
    intro i hi
    exact covData_transfer (fun ev => (up ev).mp) (h.covData i hi)
  case holdS =>
    intro k' hk'
    have hne : k ≠ k' := by intro hc; subst hc; exact hk hk'
    show (c.subList.set k o)[k']? = some []
    rw [List.getElem?_set_ne hne]
    exact h.holdS k' (by simp [hk'])
  case holdM =>
    intro k' hk'
    first
      | exact h.holdM k' hk'
      | exact h.holdS k' hk'
  case namedS =>
    intro p hp hnh
    by_cases hpk : p.2 = k
    · have : p = (mapped, k) := pair_eq_of_val h.maps.sub hp hmem hpk
      subst this
      exact ⟨o, by show (c.subList.set k o)[k]? = some o; simp [hlt], hnamed⟩
    · obtain ⟨evs, he, hnm⟩ := h.namedS p hp (by simp [hpk, hnh])
      refine ⟨evs, ?_, hnm⟩
      show (c.subList.set k o)[p.2]? = some evs
      rw [List.getElem?_set_ne (Ne.symm hpk)]; exact he
  case namedM =>
    intro p hp hnh
    first
      | exact h.namedM p hp hnh
      | exact h.namedS p hp hnh
--SUBEND


/-- `get_macro_track` on a new key: map entry and placeholder are appended, a fresh writer starts -/
theorem inv_mac_new {song : Song} {d : DataInfo} {c : Conv} {L : List (List MEv)} {P : Pend}
    (h : Inv song d c L P) (mapped : Int) (hn : c.macroMap.lookup mapped = none) :
    Inv song d { c with macroMap := c.macroMap ++ [(mapped, c.macroList.length)], macroList := c.macroList ++ [[]] } ([] :: L)
      { P with xm := c.macroList.length :: P.xm, hm := c.macroList.length :: P.hm } := by
  have up : ∀ ev, AllEv c L ev ↔
      AllEv { c with macroMap := c.macroMap ++ [(mapped, c.macroList.length)], macroList := c.macroList ++ [[]] } ([] :: L) ev := by
    intro ev
    rw [allEv_head]
    unfold AllEv
    simp only [mem_snoc_nil, List.not_mem_nil, or_false]
  refine { maps := ?maps, scopedEv := ?scopedEv, covMac := ?covMac, covSub := ?covSub, covData := ?covData, holdM := ?holdM, holdS := ?holdS, namedM := ?namedM, namedS := ?namedS }
  case maps =>
    have hmo := h.maps
    refine { hmo with mac := ?_, macKeys := ?_, macLen := ?_ }
    · show (c.macroMap ++ [(mapped, c.macroList.length)]).map (·.2) = List.range (c.macroMap ++ [(mapped, c.macroList.length)]).length
      rw [← hmo.macLen]; exact range_snoc_ok _ _ hmo.mac
    · show ((c.macroMap ++ [(mapped, c.macroList.length)]).map (·.1)).Nodup
      simpa using nodup_snoc _ _ hmo.macKeys (lookup_none_not_mem _ _ hn)
    · show (c.macroMap ++ [(mapped, c.macroList.length)]).length = (c.macroList ++ [[]]).length
      simp [hmo.macLen]
  case scopedEv =>
    intro ev he
    have := h.scopedEv ev ((up ev).mpr he)
    exact this.mono (by simp) (by simp) (by simp)
  case covMac =>
    intro k hk hx
    have hk' : k < c.macroList.length := by
      simp only [List.length_append, List.length_cons, List.length_nil] at hk
      simp only [List.mem_cons, not_or] at hx
      omega
    exact covMac_transfer (fun ev => (up ev).mp) (fun p hp => by simp [hp]) (h.covMac k hk' (by simp only [List.mem_cons, not_or] at hx; exact hx.2))
  case covSub =>
    intro k hk hx
    exact covSub_transfer (fun ev => (up ev).mp) (fun p hp => hp) (h.covSub k hk hx)
  case covData =>
    intro i hi
    exact covData_transfer (fun ev => (up ev).mp) (h.covData i hi)
  case holdM =>
    intro k hk
    rcases List.mem_cons.mp hk with rfl | hk'
    · show (c.macroList ++ [[]])[c.macroList.length]? = some []
      simp
    · exact getElem?_append_some (h.holdM k hk')
  case holdS =>
    exact h.holdS
  case namedM =>
    intro p hp hnh
    simp only [List.mem_cons, not_or] at hnh
    have hp' : p ∈ c.macroMap := by
      rcases List.mem_append.mp hp with hp' | hp'
      · exact hp'
      · rw [List.mem_singleton] at hp'; subst hp'; exact absurd rfl hnh.1
    obtain ⟨evs, he, hnm⟩ := h.namedM p hp' hnh.2
    exact ⟨evs, getElem?_append_some he, hnm⟩
  case namedS =>
    exact h.namedS

/-- the end of `get_macro_track` on a new key: the placeholder is replaced by the writer's list -/
theorem inv_mac_set {song : Song} {d : DataInfo} {c : Conv} {o : List MEv} {L : List (List MEv)} {P : Pend} {k : Nat}
    (h : Inv song d c (o :: L) { P with xm := k :: P.xm, hm := k :: P.hm }) (hk : k ∉ P.hm)
    (mapped : Int) (hmem : (mapped, k) ∈ c.macroMap) (hnamed : MacNamed song d mapped o) :
    Inv song d { c with macroList := c.macroList.set k o } L { P with xm := k :: P.xm } := by
  have hph : c.macroList[k]? = some [] := h.holdM k (by simp)
  have hlt : k < c.macroList.length := by
    rcases Nat.lt_or_ge k c.macroList.length with h' | h'
    · exact h'
    · rw [List.getElem?_eq_none h'] at hph; cases hph
  have up : ∀ ev, AllEv c (o :: L) ev ↔ AllEv { c with macroList := c.macroList.set k o } L ev := by
    intro ev
    rw [allEv_head]
    unfold AllEv
    simp only [mem_set_placeholder hph]
    simp only [or_assoc, or_comm, or_left_comm]
  refine { maps := ?maps, scopedEv := ?scopedEv, covMac := ?covMac, covSub := ?covSub, covData := ?covData, holdM := ?holdM, holdS := ?holdS, namedM := ?namedM, namedS := ?namedS }
  case maps =>
    have hmo := h.maps
    refine { hmo with macLen := ?_ }
    show c.macroMap.length = (c.macroList.set k o).length
    rw [List.length_set]; exact hmo.macLen
  case scopedEv =>
    intro ev he
    have := h.scopedEv ev ((up ev).mpr he)
    exact this.mono (by simp) (by simp) (by simp)
  case covMac =>
    intro k' hk' hx
    exact covMac_transfer (fun ev => (up ev).mp) (fun p hp => hp) (h.covMac k' (by simpa using hk') hx)
  case covSub =>
    intro k' hk' hx
    exact covSub_transfer (fun ev => (up ev).mp) (fun p hp => hp) (h.covSub k' (by simpa using hk') hx)
  case covData =>
    intro i hi
    exact covData_transfer (fun ev => (up ev).mp) (h.covData i hi)
  case holdM =>
    intro k' hk'
    have hne : k ≠ k' := by intro hc; subst hc; exact hk hk'
    show (c.macroList.set k o)[k']? = some []
    rw [List.getElem?_set_ne hne]
    exact h.holdM k' (by simp [hk'])
  case holdS =>
    intro k' hk'
    first
      | exact h.holdS k' hk'
      | exact h.holdM k' hk'
  case namedM =>
    intro p hp hnh
    by_cases hpk : p.2 = k
    · have : p = (mapped, k) := pair_eq_of_val h.maps.mac hp hmem hpk
      subst this
      exact ⟨o, by show (c.macroList.set k o)[k]? = some o; simp [hlt], hnamed⟩
    · obtain ⟨evs, he, hnm⟩ := h.namedM p hp (by simp [hpk, hnh])
      refine ⟨evs, ?_, hnm⟩
      show (c.macroList.set k o)[p.2]? = some evs
      rw [List.getElem?_set_ne (Ne.symm hpk)]; exact he
  case namedS =>
    intro p hp hnh
    first
      | exact h.namedS p hp hnh
      | exact h.namedM p hp hnh

end Ctrmml.Mds
