/-
  The walker on counted loops (with and without break, nested): balanced loop start/end, every
  loop-break target equal to the position after its loop end.  Done on the structured encoder
  (Proofs/CodecStruct) and transferred to `convert_track` by `convert_structured_eq`.
-/
import Ctrmml.Proofs.CodecWalk
import Ctrmml.Proofs.CodecBreak
namespace Ctrmml.Codec
open Ctrmml.Mds Ctrmml.Seq Ctrmml.SeqWf Tables

variable {seq : List Nat} {start : Nat}

/-- the walker records the position as an instruction boundary when at loop depth 0 -/
def mark (w : W) : W := if w.depth = 0 then { w with bounds0 := w.pc :: w.bounds0 } else w

theorem mark_pc (w : W) : (mark w).pc = w.pc := by unfold mark; split <;> rfl
theorem mark_depth (w : W) : (mark w).depth = w.depth := by unfold mark; split <;> rfl
theorem mark_breaks (w : W) : (mark w).breaks = w.breaks := by unfold mark; split <;> rfl
theorem mark_mono (w : W) : ∀ x ∈ w.bounds0, x ∈ (mark w).bounds0 := by
  unfold mark; split
  · exact fun x hx => List.mem_cons_of_mem _ hx
  · exact fun _ h => h
theorem mark_here (w : W) (hd : w.depth = 0) : w.pc ∈ (mark w).bounds0 := by
  unfold mark; simp [hd]

theorem walk_lp {w : W} (fuel : Nat) (hb : seq[w.pc]? = some mds_LP) (hin : w.pc + 1 ≤ seq.length) :
    walk seq start (fuel + 1) w =
      walk seq start fuel { mark w with pc := w.pc + 1, depth := w.depth + 1, breaks := [] :: w.breaks } := by
  have hl : instrLen seq w.pc = some 1 := by simp [instrLen, rd, hb, mds_REST, mds_SLR, mds_FINISH, mds_LP]
  have hin' : ¬ w.pc + 1 > seq.length := by omega
  have n1 : ¬ (mds_LP = mds_FINISH ∨ mds_LP = mds_DMFINISH) := by decide
  have n2 : ¬ mds_LP = mds_JUMP := by decide
  rw [walk]
  simp only [rd, hb, hl, hin', if_false, n1, n2, if_true, mark]

theorem walk_lpf {w : W} {bs : List Nat} {rest : List (List Nat)} (fuel : Nat)
    (hb : seq[w.pc]? = some mds_LPF) (hin : w.pc + 2 ≤ seq.length)
    (hbr : w.breaks = bs :: rest) (hall : bs.all (· == w.pc + 2) = true) :
    walk seq start (fuel + 1) w =
      walk seq start fuel { mark w with pc := w.pc + 2, depth := w.depth - 1, breaks := rest } := by
  have hl : instrLen seq w.pc = some 2 := by
    simp [instrLen, rd, hb, mds_REST, mds_SLR, mds_FINISH, mds_LP, mds_JUMP, mds_LPBL, mds_LPF, twoArgOps]
    decide
  have hin' : ¬ w.pc + 2 > seq.length := by omega
  have n1 : ¬ (mds_LPF = mds_FINISH ∨ mds_LPF = mds_DMFINISH) := by decide
  have n2 : ¬ mds_LPF = mds_JUMP := by decide
  have n3 : ¬ mds_LPF = mds_LP := by decide
  have n4 : ¬ (mds_LPF = mds_LPB ∨ mds_LPF = mds_LPBL) := by decide
  rw [walk]
  simp only [rd, hb, hl, hin', if_false, n1, n2, n3, n4, if_true, hbr, hall, mark]

theorem walk_brk {w : W} {l r : List Nat} {off : Nat} {bs : List Nat} {rest : List (List Nat)} (fuel : Nat)
    (hp : l ++ (brkCmd off ++ r) <+: seq) (hpc : w.pc = l.length) (hbr : w.breaks = bs :: rest) :
    walk seq start (fuel + 1) w =
      walk seq start fuel { mark w with pc := w.pc + (brkCmd off).length,
                                        breaks := ((w.pc + (brkCmd off).length + off) :: bs) :: rest } := by
  have hlen := hp.length_le
  unfold brkCmd at hp hlen ⊢
  by_cases hc : off < 256
  · simp only [hc, if_true] at hp hlen ⊢
    have r0 : seq[w.pc]? = some mds_LPB := by rw [hpc]; exact rd_at hp
    have r1 : seq[w.pc + 1]? = some off := by rw [hpc]; exact rd_at1 hp
    have hl : instrLen seq w.pc = some 2 := by
      simp [instrLen, rd, r0, mds_REST, mds_SLR, mds_FINISH, mds_LP, mds_JUMP, mds_LPBL, mds_LPB, twoArgOps]
      decide
    have hin' : ¬ w.pc + 2 > seq.length := by simp at hlen; omega
    have n1 : ¬ (mds_LPB = mds_FINISH ∨ mds_LPB = mds_DMFINISH) := by decide
    have n2 : ¬ mds_LPB = mds_JUMP := by decide
    have n3 : ¬ mds_LPB = mds_LP := by decide
    rw [walk]
    simp only [rd, r0, r1, hl, hin', if_false, n1, n2, n3, true_or, if_true, hbr, mark, List.length_cons,
      List.length_nil]
  · simp only [hc, if_false] at hp hlen ⊢
    have r0 : seq[w.pc]? = some mds_LPBL := by rw [hpc]; exact rd_at hp
    have r1 : seq[w.pc + 1]? = some (off / 256) := by rw [hpc]; exact rd_at1 hp
    have r2 : seq[w.pc + 1 + 1]? = some (off % 256) := by rw [hpc]; exact rd_at2 hp
    have hl : instrLen seq w.pc = some 3 := by
      simp [instrLen, rd, r0, mds_REST, mds_SLR, mds_FINISH, mds_LP, mds_JUMP, mds_LPBL]
    have hin' : ¬ w.pc + 3 > seq.length := by simp at hlen; omega
    have n1 : ¬ (mds_LPBL = mds_FINISH ∨ mds_LPBL = mds_DMFINISH) := by decide
    have n2 : ¬ mds_LPBL = mds_JUMP := by decide
    have n3 : ¬ mds_LPBL = mds_LP := by decide
    have n4 : ¬ mds_LPBL = mds_LPB := by decide
    have hoff : off / 256 * 256 + off % 256 = off := by omega
    rw [walk]
    simp only [rd, rd16, r0, r1, r2, hl, hin', if_false, n1, n2, n3, n4, or_true, if_true, hbr, mark,
      List.length_cons, List.length_nil, bind, Option.bind, pure, hoff]

/-- walker progress with fuel accounting: at most one unit of fuel per byte -/
def WR (seq : List Nat) (start : Nat) (w w' : W) : Prop :=
  ∃ k, w.pc + k ≤ w'.pc ∧ ∀ fuel, walk seq start (fuel + k) w = walk seq start fuel w'

theorem WR.trans {a b c : W} (h1 : WR seq start a b) (h2 : WR seq start b c) : WR seq start a c := by
  obtain ⟨k1, p1, e1⟩ := h1
  obtain ⟨k2, p2, e2⟩ := h2
  exact ⟨k2 + k1, by omega, fun fuel => by rw [← Nat.add_assoc, e1, e2]⟩

theorem WR.ofLin {a b : W} (h : Lin seq a b) : WR seq start a b := h.fuel

theorem WR.one {a b : W} (h : ∀ fuel, walk seq start (fuel + 1) a = walk seq start fuel b) (hpc : a.pc + 1 ≤ b.pc) :
    WR seq start a b := ⟨1, hpc, h⟩

/-- what the walker does for an encoder function: progress, related states, same loop depth and
break lists, recorded boundaries only grow -/
def WOk (f : Enc → Except CErr Enc) (e : Enc) : Prop :=
  ∀ e', f e = .ok e' → ∀ (seq : List Nat) (start : Nat) (w : W), e'.out <+: seq → WGood e w →
    ∃ w', WR seq start w w' ∧ WGood e' w' ∧ WFrame w w'

/-- walker state after a loop-break instruction of length `len` with target `tgt` -/
def afterBrkW (w : W) (len tgt : Nat) (bs : List Nat) (rest : List (List Nat)) : W :=
  { mark w with pc := w.pc + len, breaks := (tgt :: bs) :: rest }

/-- entering a loop -/
theorem wenter {e : Enc} {w : W} {rest : List Nat} (g : WGood e w) (hp : e.out ++ mds_LP :: rest <+: seq) :
    ∃ w1, WR seq start w w1 ∧ WGood (afterLP e) w1 ∧ w1.depth = w.depth + 1 ∧ w1.breaks = [] :: w.breaks ∧
      (∀ x ∈ w.bounds0, x ∈ w1.bounds0) ∧ (w.depth = 0 → w.pc ∈ w1.bounds0) := by
  obtain ⟨w0, l0, hpc0⟩ := wresolve g (b := mds_LP) (by decide) hp
  have f0 := l0.frame
  have r0 : seq[w0.pc]? = some mds_LP := by rw [hpc0]; exact rd_at hp
  have hin : w0.pc + 1 ≤ seq.length := by have := hp.length_le; simp at this; omega
  refine ⟨{ mark w0 with pc := w0.pc + 1, depth := w0.depth + 1, breaks := [] :: w0.breaks },
    (WR.ofLin l0).trans (WR.one (fun fuel => walk_lp fuel r0 hin) (Nat.le_refl _)), ?_, ?_, ?_, ?_, ?_⟩
  · exact .inl ⟨needLenB_cmd (show mds_LP ≥ 0xe0 by decide), by simp [afterLP, hpc0]⟩
  · simp [f0.depth]
  · simp [f0.breaks]
  · intro x hx; exact mark_mono _ x (f0.mono x hx)
  · intro hd
    rcases f0.here hd with h | h
    · have := mark_here w0 (f0.depth.trans hd); rw [h] at this; exact this
    · exact mark_mono _ _ h

/-- leaving a loop at its end: all recorded break targets must be the position after the `LPF` -/
theorem wleave {e4 eF : Enc} {w : W} {n : Nat} {bs : List Nat} {rest : List (List Nat)} (g : WGood e4 w)
    (hF : eF.out = e4.out ++ [mds_LPF, n]) (hFt : eF.lastType ≥ 0xe0) (hp : eF.out <+: seq)
    (hbr : w.breaks = bs :: rest) (hall : bs.all (· == e4.out.length + 2) = true) :
    ∃ w1, WR seq start w w1 ∧ WGood eF w1 ∧ w1.depth = w.depth - 1 ∧ w1.breaks = rest ∧
      (∀ x ∈ w.bounds0, x ∈ w1.bounds0) := by
  rw [hF] at hp
  obtain ⟨w0, l0, hpc0⟩ := wresolve g (b := mds_LPF) (by decide) hp
  have f0 := l0.frame
  have r0 : seq[w0.pc]? = some mds_LPF := by rw [hpc0]; exact rd_at hp
  have hin : w0.pc + 2 ≤ seq.length := by have := hp.length_le; simp at this; omega
  have hbr0 : w0.breaks = bs :: rest := f0.breaks.trans hbr
  refine ⟨{ mark w0 with pc := w0.pc + 2, depth := w0.depth - 1, breaks := rest },
    (WR.ofLin l0).trans (WR.one (fun fuel => walk_lpf fuel r0 hin hbr0 (by rw [hpc0]; exact hall)) (by simp)),
    ?_, ?_, rfl, ?_⟩
  · exact .inl ⟨needLenB_cmd hFt, by simp [hF, hpc0]⟩
  · simp [f0.depth]
  · intro x hx; exact mark_mono _ x (f0.mono x hx)

theorem instrLen_pat {pc : Nat} (hb : seq[pc]? = some mds_PAT) : instrLen seq pc = some 2 := by
  simp [instrLen, rd, hb, mds_REST, mds_SLR, mds_FINISH, mds_LP, mds_JUMP, mds_LPBL, mds_LPF, mds_LPB, mds_PAT, twoArgOps]
  decide

theorem plain_pat : plainOp mds_PAT := by unfold plainOp; decide

mutual
theorem wencN (nS nM : Nat) : ∀ (t : Node), t.lin = true → ∀ e : Enc, WOk (encN nS nM t) e
  | .ev ev, hl, e => by
    intro e' he seq start w hp g
    simp only [encN] at he
    obtain ⟨w1, l1, g1⟩ := wencEv_lin nS nM (by simpa [Node.lin] using hl) he hp g
    exact ⟨w1, WR.ofLin l1, g1, l1.frame⟩
  | .xbrk, _, e => by
    intro e' he seq start w _ g
    simp only [encN, Except.ok.injEq] at he; subst he
    exact ⟨w, ⟨0, Nat.le_refl _, fun _ => rfl⟩, g, WFrame.rfl' w⟩
  | .call arg _, _, e => by
    intro e' he seq start w hp g
    simp only [encN, Except.ok.injEq] at he; subst he
    obtain ⟨w1, l1, g1⟩ := wcmd (e' := afterPAT e arg) (ops := [arg % 256]) g (show mds_PAT ≥ 0xe0 by decide) plain_pat
      (fun pc hb => instrLen_pat hb) rfl (show mds_PAT ≥ 0xe0 by decide) hp
    exact ⟨w1, WR.ofLin l1, g1, l1.frame⟩
  | .loop body n, hl, e => by
    have hl' : linL body = true := by simpa [Node.lin] using hl
    intro e' he seq start w hp g
    obtain ⟨e2, h2, p2, _, _⟩ := encL_total nS nM body hl' (afterLP e)
    simp only [encN, h2, Except.ok.injEq] at he
    subst he
    have pF : e2.out <+: (afterLPF e2 n e.breaks).out := List.prefix_append _ _
    have hp1 : e.out ++ mds_LP :: [] <+: seq := p2.trans (pF.trans hp)
    obtain ⟨w1, r1, g1, hd1, hb1, hm1, hh1⟩ := wenter (start := start) g hp1
    obtain ⟨w2, r2, g2, f2⟩ := wencL nS nM body hl' (afterLP e) e2 h2 seq start w1 (pF.trans hp) g1
    obtain ⟨w3, r3, g3, hd3, hb3, hm3⟩ := wleave (start := start) (eF := afterLPF e2 n e.breaks) (n := n % 256) g2 rfl
      (show mds_LPF ≥ 0xe0 by decide) hp (f2.breaks.trans hb1) (by simp)
    refine ⟨w3, r1.trans (r2.trans r3), g3, ⟨?_, hb3, fun x hx => hm3 x (f2.mono x (hm1 x hx)), fun hd => ?_⟩⟩
    · rw [hd3, f2.depth, hd1]; simp
    · exact .inr (hm3 _ (f2.mono _ (hh1 hd)))
  | .loopB body tail n, hl, e => by
    simp only [Node.lin, Bool.and_eq_true] at hl
    intro e' he seq start w hp g
    obtain ⟨e2, h2, p2, _, _⟩ := encL_total nS nM body hl.1 (afterLP e)
    obtain ⟨e4, h4, p4, _, _⟩ := encL_total nS nM tail hl.2 (afterLPB e2 [])
    obtain ⟨off, hoff⟩ : ∃ off, off = e4.out.length - e2.out.length + 2 := ⟨_, rfl⟩
    obtain ⟨e4', h4', p4', _, _⟩ := encL_total nS nM tail hl.2 (afterLPB e2 (brkCmd off))
    simp only [encN, h2, h4, ← hoff, h4', Except.ok.injEq] at he
    subst he
    obtain ⟨x, hx, q⟩ := encL_par nS nM tail hl.2 _ (afterLPB e2 (brkCmd off)) _
      (sim_afterLPB (e := e2) (e2 := e2) ⟨rfl, rfl, rfl, fun _ => rfl⟩ [] (brkCmd off)) h4
    rw [h4'] at hx; injection hx with hx; subst hx
    have htgt : e2.out.length + (brkCmd off).length + off = e4'.out.length + 2 := by
      have h1 := q.len
      have h2 := p4.length_le
      have h3 := p4'.length_le
      simp [afterLPB] at h1 h2 h3
      omega
    have pF : e4'.out <+: (afterLPFB e4' n e.breaks).out := List.prefix_append _ _
    have pC : e2.out <+: (afterLPB e2 (brkCmd off)).out := List.prefix_append _ _
    have hpC : e2.out ++ (brkCmd off ++ []) <+: seq := by
      have h : e2.out ++ brkCmd off <+: seq := p4'.trans (pF.trans hp)
      simpa using h
    have hp1 : e.out ++ mds_LP :: [] <+: seq := p2.trans (pC.trans (p4'.trans (pF.trans hp)))
    obtain ⟨w1, r1, g1, hd1, hb1, hm1, hh1⟩ := wenter (start := start) g hp1
    obtain ⟨w2, r2, g2, f2⟩ := wencL nS nM body hl.1 (afterLP e) e2 h2 seq start w1
      (pC.trans (p4'.trans (pF.trans hp))) g1
    -- the break instruction
    obtain ⟨b, rest, hbc, hge⟩ := brkCmd_cons off
    have hpb : e2.out ++ b :: (rest ++ []) <+: seq := by rw [hbc] at hpC; simpa using hpC
    obtain ⟨w3, l3, hpc3⟩ := wresolve g2 hge hpb
    have f3 := l3.frame
    have hb3 : w3.breaks = [] :: w.breaks := f3.breaks.trans (f2.breaks.trans hb1)
    obtain ⟨w4, hw4⟩ : ∃ w4 : W,
        w4 = afterBrkW w3 (brkCmd off).length (w3.pc + (brkCmd off).length + off) [] w.breaks := ⟨_, rfl⟩
    have r4 : WR seq start w3 w4 := by
      rw [hw4]
      exact WR.one (fun fuel => walk_brk fuel hpC hpc3 hb3) (by
        obtain ⟨b', rest', hbc', _⟩ := brkCmd_cons off
        simp [afterBrkW, hbc'])
    have g4 : WGood (afterLPB e2 (brkCmd off)) w4 :=
      .inl ⟨needLenB_cmd (show mds_LPB ≥ 0xe0 by decide), by rw [hw4]; simp [afterBrkW, afterLPB, hpc3]⟩
    obtain ⟨w5, r5, g5, f5⟩ := wencL nS nM tail hl.2 _ e4' h4' seq start w4 (pF.trans hp) g4
    have hb5 : w5.breaks = [e4'.out.length + 2] :: w.breaks := by
      rw [f5.breaks, hw4]; show [w3.pc + (brkCmd off).length + off] :: w.breaks = _; rw [hpc3, htgt]
    obtain ⟨w6, r6, g6, hd6, hb6, hm6⟩ := wleave (start := start) (eF := afterLPFB e4' n e.breaks) (n := n % 256) g5 rfl
      (show mds_LPF ≥ 0xe0 by decide) hp hb5 (by simp)
    have hm4 : ∀ x ∈ w3.bounds0, x ∈ w4.bounds0 := by rw [hw4]; exact fun x hx => mark_mono _ x hx
    have hd4 : w4.depth = w3.depth := by rw [hw4]; exact mark_depth w3
    refine ⟨w6, r1.trans (r2.trans ((WR.ofLin l3).trans (r4.trans (r5.trans r6)))), g6,
      ⟨?_, hb6, fun x hx => hm6 x (f5.mono x (hm4 x (f3.mono x (f2.mono x (hm1 x hx))))), fun hd => ?_⟩⟩
    · rw [hd6, f5.depth, hd4, f3.depth, f2.depth, hd1]; simp
    · exact .inr (hm6 _ (f5.mono _ (hm4 _ (f3.mono _ (f2.mono _ (hh1 hd))))))
theorem wencL (nS nM : Nat) : ∀ (ts : List Node), linL ts = true → ∀ e : Enc, WOk (encL nS nM ts) e
  | [], _, e => by
    intro e' he seq start w _ g
    simp only [encL, Except.ok.injEq] at he; subst he
    exact ⟨w, ⟨0, Nat.le_refl _, fun _ => rfl⟩, g, WFrame.rfl' w⟩
  | t :: ts, hl, e => by
    simp only [linL, Bool.and_eq_true] at hl
    intro e' he seq start w hp g
    obtain ⟨e1, h1, _, _, _⟩ := encN_total nS nM t hl.1 e
    obtain ⟨e2, h2, p2, _, _⟩ := encL_total nS nM ts hl.2 e1
    simp only [encL, h1, h2, Except.ok.injEq] at he
    subst he
    obtain ⟨w1, r1, g1, f1⟩ := wencN nS nM t hl.1 e e1 h1 seq start w (p2.trans hp) g
    obtain ⟨w2, r2, g2, f2⟩ := wencL nS nM ts hl.2 e1 e2 h2 seq start w1 hp g1
    exact ⟨w2, r1.trans r2, g2, f1.trans f2⟩
end

/-- **C03, walker: counted loops with and without break, nested** (stream < 64 KiB) -/
theorem walk_accepts_loops (nS nM : Nat) (ts : List Node) (hl : linL ts = true) (hk : brkOkL false ts = true)
    (farg : Nat) :
    ∃ e', encL nS nM ts {} = .ok e' ∧
      (e'.out.length + 1 < 65536 →
        convertTrack nS nM (flatL ts ++ [⟨mds_FINISH, farg⟩]) = .ok (e'.out ++ [mds_FINISH]) ∧
        ∀ fuel, fuel ≥ e'.out.length + 1 → walk (e'.out ++ [mds_FINISH]) 0 fuel { pc := 0 } = .ok (e'.out.length + 1)) := by
  obtain ⟨e1, he1, _, _, _⟩ := encL_total nS nM ts hl {}
  refine ⟨e1, he1, fun hb => ⟨?_, ?_⟩⟩
  · have := encL_eq nS nM ts false hl hk {} e1 (fun h => by cases h) he1 (by omega)
    simp [convertTrack, encAll_append, this, encAll, encEv_finish, Except.map]
  · intro fuel hf
    have hp : e1.out ++ [mds_FINISH] <+: e1.out ++ [mds_FINISH] := List.prefix_refl _
    obtain ⟨w1, r1, g1, f1⟩ := wencL nS nM ts hl {} e1 he1 (e1.out ++ [mds_FINISH]) 0 { pc := 0 }
      (List.prefix_append _ _) wgood_init
    obtain ⟨w2, l2, hpc2⟩ := wresolve g1 (b := mds_FINISH) (by decide) hp
    obtain ⟨k, hk, ek⟩ := r1.trans (WR.ofLin (start := 0) l2)
    have hd : w2.depth = 0 := l2.frame.depth.trans f1.depth
    have r0 : (e1.out ++ [mds_FINISH])[w2.pc]? = some mds_FINISH := by rw [hpc2]; exact rd_at hp
    simp only at hk
    obtain ⟨f, rfl⟩ : ∃ f, fuel = f + 1 + k := ⟨fuel - 1 - k, by omega⟩
    rw [ek, walk_finish f r0 (by simp; omega) hd, hpc2]

end Ctrmml.Codec
