/-
  Helper lemmas for C06, round 5 (no property statements here): Proofs/LayoutBlockLines replayed for
  the widened command set `L2.LCovered` (on top of Proofs/LayoutBlock2).  `BLine`, its text and
  commands, `leadOf`, `dropLead`, the header lemmas are those of Proofs/LayoutBlockLines; what depends
  on the command set (`BLineOk`, `BLinesOk`, `readLines_blayout`, …) is restated inside `Ctrmml.Mml.L2`,
  with the old ⇒ new transfer (`itemsOk_of_old`, `blineOk_of_old`, `blinesOk_of_old`) and the
  decidability instances used by the examples.
-/
import Ctrmml.Proofs.LayoutBlock2
import Ctrmml.Proofs.LayoutBlockLines
import Ctrmml.Proofs.LayoutTransfer
import Ctrmml.Proofs.LayoutDec2
namespace Ctrmml.Mml.L2
open Ctrmml.Tables Ctrmml.Lexer Ctrmml.TrackBuilder
open Ctrmml.MmlMeaning (Num Dur Acc Cmd)
open Ctrmml.Layout (Addr)

/-! ### the blanks behind the header -/

theorem lineTail_shape (s : MmlState) (hs : Sane s) (b : Nat) (hb : b = 32 ∨ b = 9) (bl rest : List Nat)
    (h3 : ∀ x ∈ bl, x = 32 ∨ x = 9) (h4 : rest = [] ∨ ∃ c r, rest = c :: r ∧ Stop c)
    (hsuf : suffix s = b :: (bl ++ rest)) (hl : s.lastCmd = .parseMml) :
    lineTail s =
      if rest = [] then .ok () (adv s (1 + bl.length))
      else parseMmlLoop (s.inp.lb.column + (1 + bl.length)) 0 s.trackList (adv s (1 + bl.length)) := by
  have hs1 : Sane (adv s 1) := sane_adv s hs 1 (by rw [hsuf]; simp)
  have hsuf1 : suffix (adv s 1) = bl ++ rest := by rw [suffix_adv, hsuf]; rfl
  have hs2 : Sane (adv (adv s 1) bl.length) := sane_adv _ hs1 _ (by rw [hsuf1]; simp)
  have hsuf2 : suffix (adv (adv s 1) bl.length) = rest := suffix_adv_append _ _ _ hsuf1
  unfold lineTail
  rw [bind_ok (getC_cons s b _ hsuf)]
  simp only [blank_isBlank b hb, if_true]
  rw [bind_apply, getTokenC_eq, hsuf1, countBlanks_shape bl rest h3 h4]
  rcases h4 with rfl | ⟨c, r, rfl, hc⟩
  · rw [getC_nil _ hsuf2]
    simp only []
    rw [bind_ok (ungetC_zero _)]
    simp only [adv_adv]
    rfl
  · have hrg := (stop_props c hc).1
    rw [getC_cons _ c r hsuf2]
    simp only []
    rw [bind_ok (ungetC_same _ hs2.bytes c r hsuf2), schar_small c hrg.2]
    have hc0 : ((c : Int) == 0) = false := by
      have : ¬ ((c : Int) = 0) := by omega
      simpa using this
    simp only [hc0, Bool.false_eq_true, if_false, reduceCtorEq]
    unfold runLastCmd
    rw [bind_ok (getS_run _)]
    simp only [adv_adv]
    have hl2 : (adv s (1 + bl.length)).lastCmd = .parseMml := hl
    simp only [hl2]
    rfl

theorem itemsOk_dropLead (j : Nat) (items : List Item) (e : List Nat) (h : ItemsOk j items e) : ItemsOk j (dropLead items) e := by
  cases items with
  | nil => exact h
  | cons it rest =>
    cases it with
    | toks ts => exact ⟨toksOk_drop ts _ h.1 _, h.2.1, h.2.2⟩
    | block alts => exact h

/-- the body behind the header's blank: its leading blanks, then the rest -/
theorem items_lead (items : List Item) (e : List Nat) (j : Nat) (hok : ItemsOk j items e)
    (hcov : ∀ c ∈ selCmds j items, LCovered c) (he : StopEnd e) :
    ∃ bl, itemsText items e = bl ++ itemsText (dropLead items) e ∧ bl.length = leadOf items ∧ (∀ x ∈ bl, x = 32 ∨ x = 9) ∧
      (itemsText (dropLead items) e = [] ∨ ∃ c r, itemsText (dropLead items) e = c :: r ∧ Stop c) := by
  cases items with
  | nil => exact ⟨[], rfl, rfl, fun x hx => by simp at hx, he⟩
  | cons it rest =>
    cases it with
    | toks ts =>
      have hcov' : ∀ c ∈ cmdsOf ts, LCovered c := fun c hc => hcov c (by rw [selCmds_cons]; simp [Item.sel, hc])
      obtain ⟨bl, rs, h1, h2, h3, h4⟩ := toks_shape ts (itemsText rest e) hok.1 hcov' hok.2.1
      have hd := (toks_drop_lead ts (itemsText rest e) (leadBlanks ts) (Nat.le_refl _)).1
      have hrs : rs = toksText (ts.drop (leadBlanks ts)) (itemsText rest e) := by
        rw [← hd, h1, ← h2]; simp
      refine ⟨bl, ?_, h2, h3, ?_⟩
      · show toksText ts (itemsText rest e) = bl ++ toksText (ts.drop (leadBlanks ts)) (itemsText rest e)
        rw [h1, hrs]
      · show toksText (ts.drop (leadBlanks ts)) (itemsText rest e) = [] ∨
            ∃ c r, toksText (ts.drop (leadBlanks ts)) (itemsText rest e) = c :: r ∧ Stop c
        rw [← hrs]; exact h4
    | block alts =>
      obtain ⟨r, hr⟩ := blockText_head alts (itemsText rest e)
      exact ⟨[], rfl, rfl, fun x hx => by simp at hx, Or.inr ⟨123, r, hr, by simp [Stop]⟩⟩

theorem itemsText_nil_sel (j : Nat) : ∀ (items : List Item) (e : List Nat), itemsText items e = [] →
    (∀ c ∈ selCmds j items, LCovered c) → selCmds j items = [] := by
  intro items
  induction items with
  | nil => intro _ _ _; rfl
  | cons it rest ih =>
    intro e h hcov
    cases it with
    | toks ts =>
      have h' : toksText ts (itemsText rest e) = [] := h
      rw [toksText_append] at h'
      have h1 : toksText ts [] = [] := List.append_eq_nil_iff.mp h' |>.1
      have h2 : itemsText rest e = [] := List.append_eq_nil_iff.mp h' |>.2
      have hc1 : cmdsOf ts = [] := toksText_nil_cmds ts [] h1 (fun c hc => hcov c (by rw [selCmds_cons]; simp [Item.sel, hc]))
      rw [selCmds_cons]
      simp only [Item.sel, hc1, List.nil_append]
      exact ih e h2 (fun c hc => hcov c (by rw [selCmds_cons]; simp [hc]))
    | block alts =>
      obtain ⟨r, hr⟩ := blockText_head alts (itemsText rest e)
      have : blockText alts (itemsText rest e) = [] := h
      rw [hr] at this
      cases this

/-! ### whole lines -/

/-- from the blank behind the header (or at the start of a continuation line) to the end of the line -/
theorem lineTail_run_items (ids : List Nat) (s : MmlState) (hs : Sane s) (b : Nat) (hb : b = 32 ∨ b = 9) (items : List Item) (e : List Nat)
    (he : EndOk e) (hsuf : suffix s = b :: itemsText items e) (hready : Ready ids s) (hnd : ids.Nodup) (hlen : ids.length ≤ 65536)
    (hcmds : ∀ j id, ids[j]? = some id → ItemsOk j items e ∧ CmdsOk (trackOf id s).strip (selCmds j items)) (hne : ids ≠ []) :
    ∃ s', lineTail s = .ok () s' ∧ LineResI ids (fun j => selCmds j items) s s' ∧ Ready ids s' := by
  obtain ⟨id0, hid0⟩ : ∃ id0, ids[0]? = some id0 := by
    cases ids with
    | nil => exact absurd rfl hne
    | cons a _ => exact ⟨a, rfl⟩
  have h0 := hcmds 0 id0 hid0
  have hcov0 : ∀ c ∈ selCmds 0 items, LCovered c := cmdsOk_covered _ _ h0.2
  obtain ⟨bl, h1, h2, h3, h4⟩ := items_lead items e 0 h0.1 hcov0 (stopEnd_of_endOk he)
  rw [lineTail_shape s hs b hb bl _ h3 h4 (by rw [hsuf, h1]) hready.2]
  by_cases hnil : itemsText (dropLead items) e = []
  · simp only [hnil, if_true]
    refine ⟨_, rfl, ⟨fun j id hid => ?_, fun _ _ => rfl, rfl⟩, hready⟩
    have hc := hcmds j id hid
    have : selCmds j items = [] := by
      rw [← selCmds_dropLead]
      exact itemsText_nil_sel j _ e hnil (by rw [selCmds_dropLead]; exact cmdsOk_covered _ _ hc.2)
    simp only [this]
    rfl
  · simp only [hnil, if_false]
    have hle : bl.length ≤ (itemsText items e).length := by rw [h1]; simp
    have hs4 : Sane (adv s (1 + bl.length)) := sane_adv s hs _ (by rw [hsuf]; simp; omega)
    have hsuf4 : suffix (adv s (1 + bl.length)) = itemsText (dropLead items) e := by
      rw [suffix_adv, hsuf, h1, Nat.add_comm]; simp
    obtain ⟨s', hp, hkeep, hall, hfr⟩ := parseMmlLoop_items (dropLead items) e (s.inp.lb.column + (1 + bl.length)) he
      s.trackList 0 (adv s (1 + bl.length)) hs4.bytes hs4.inl hsuf4
      (by rw [hready.1]; exact hnd) (by rw [hready.1]; omega)
      (fun j id hid => by
        rw [hready.1] at hid
        have := hcmds j id hid
        simp only [Nat.zero_add, selCmds_dropLead]
        exact ⟨itemsOk_dropLead j items e this.1, this.2⟩)
    rw [hready.1] at hall hfr
    refine ⟨s', hp, ⟨fun j id hid => ?_, hfr, hkeep.ppqn⟩, ⟨hkeep.trackList.trans hready.1, hkeep.lastCmd.trans hready.2⟩⟩
    have := hall j id hid
    simp only [Nat.zero_add, selCmds_dropLead] at this
    exact this

/-- a well-formed line addressed to the tracks `ids` -/
def BLineOk (ids : List Nat) : BLine → Prop
  | .hdr as b items e => as ≠ [] ∧ HeaderOk as ∧ as.map Addr.id = ids ∧ (b = 32 ∨ b = 9) ∧ (∀ j, j < ids.length → ItemsOk j items e) ∧
      EndOk e ∧ Bytes (headerBytes as ++ b :: itemsText items e)
  | .cont b items e => (b = 32 ∨ b = 9) ∧ (∀ j, j < ids.length → ItemsOk j items e) ∧ EndOk e ∧ Bytes (b :: itemsText items e)
  | .empty => True
  | .comment _ => True

def BLinesOk (ids : List Nat) : Bool → List BLine → Prop
  | _, [] => True
  | r, l :: ls => BLineOk ids l ∧ (l.isCont = true → r = true) ∧ BLinesOk ids (r || l.isHdr) ls

theorem readBLine (ids : List Nat) (hnd : ids.Nodup) (hne : ids ≠ []) (hlen : ids.length ≤ 65536) (l : BLine) (n : Nat) (s : MmlState) (r : Bool)
    (hline : BLineOk ids l) (hcont : l.isCont = true → r = true) (hready : r = true → Ready ids s)
    (hcmds : ∀ j id, ids[j]? = some id → CmdsOk (trackOf id s).strip (l.cmds j)) :
    ∃ s1, readLine l.text n s = .ok () s1 ∧ LineResI ids (fun j => l.cmds j) s s1 ∧ ((r || l.isHdr) = true → Ready ids s1) := by
  cases l with
  | hdr as b items e =>
    obtain ⟨hne', hhdr, hids, hb, hitems, he, hbytes⟩ := hline
    obtain ⟨s3, h1, h2, h3, h4, h5⟩ := readLine_hdr_tail as b (itemsText items e) n s hne' hhdr hb hbytes
    rw [hids] at h4
    have htr : ∀ id, trackOf id s3 = trackOf id s := by intro id; unfold trackOf; rw [h5]
    obtain ⟨s', hrun, hres, hready'⟩ := lineTail_run_items ids s3 h2 b hb items e he h3 h4 hnd hlen
      (fun j id hid => ⟨hitems j (getElem?_lt ids j id hid), by rw [htr id]; exact hcmds j id hid⟩) hne
    refine ⟨s', by show readLine (headerBytes as ++ b :: itemsText items e) n s = _; rw [h1]; exact hrun, ⟨?_, ?_, ?_⟩, fun _ => hready'⟩
    · intro j id hid; rw [hres.tracks j id hid, htr id]; rfl
    · intro b' hb'; rw [hres.others b' hb', h5]
    · rw [hres.ppqn, h5]
  | cont b items e =>
    obtain ⟨hb, hitems, he, hbytes⟩ := hline
    have hr : r = true := hcont rfl
    obtain ⟨s0, hs0⟩ : ∃ s0 : MmlState, s0 = { s with inp := { lb := { buf := b :: itemsText items e, column := 0 }, line := n } } := ⟨_, rfl⟩
    have hsane0 : Sane s0 := by rw [hs0]; exact ⟨hbytes, Nat.zero_le _⟩
    have htr : ∀ id, trackOf id s0 = trackOf id s := by intro id; subst hs0; rfl
    obtain ⟨s', hrun, hres, hready'⟩ := lineTail_run_items ids s0 hsane0 b hb items e he (by rw [hs0]; rfl) (by rw [hs0]; exact hready hr) hnd hlen
      (fun j id hid => ⟨hitems j (getElem?_lt ids j id hid), by rw [htr id]; exact hcmds j id hid⟩) hne
    refine ⟨s', ?_, ⟨?_, ?_, ?_⟩, fun _ => hready'⟩
    · show readLine (b :: itemsText items e) n s = _
      rw [readLine_cont_tail b _ n s hb hbytes, ← hs0]; exact hrun
    · intro j id hid; rw [hres.tracks j id hid, htr id]; rfl
    · intro b' hb'; rw [hres.others b' hb']; subst hs0; rfl
    · rw [hres.ppqn]; subst hs0; rfl
  | empty =>
    refine ⟨_, readLine_empty n s, ⟨fun _ _ _ => rfl, fun _ _ => rfl, rfl⟩, fun h => ?_⟩
    have hr : r = true := by simpa [BLine.isHdr] using h
    exact hready hr
  | comment c =>
    refine ⟨_, readLine_comment c n s, ⟨fun _ _ _ => rfl, fun _ _ => rfl, rfl⟩, fun h => ?_⟩
    have hr : r = true := by simpa [BLine.isHdr] using h
    exact hready hr

/-- a whole layout with conditional blocks: the track at position `j` of the track list receives
the builder calls of its own selection of the layout's commands, in order; no other track changes -/
theorem readLines_blayout (ids : List Nat) (hnd : ids.Nodup) (hne : ids ≠ []) (hlen : ids.length ≤ 65536) :
    ∀ (ls : List BLine) (n : Nat) (s : MmlState) (r : Bool),
    BLinesOk ids r ls → (r = true → Ready ids s) → (∀ j id, ids[j]? = some id → CmdsOk (trackOf id s).strip (blayoutCmds j ls)) →
    ∃ s', readLines n (ls.map BLine.text) s = .ok () s' ∧ LineResI ids (fun j => blayoutCmds j ls) s s' := by
  intro ls
  induction ls with
  | nil => intro n s r _ _ _; exact ⟨s, rfl, ⟨fun _ _ _ => rfl, fun _ _ => rfl, rfl⟩⟩
  | cons l ls ih =>
    intro n s r hok hready hcmds
    obtain ⟨hline, hcont, hrest⟩ := hok
    have hsplit : ∀ j id, ids[j]? = some id → CmdsOk (trackOf id s).strip (l.cmds j) ∧ CmdsOk (runCmds (trackOf id s).strip (l.cmds j)) (blayoutCmds j ls) := by
      intro j id hid
      have := hcmds j id hid
      simp only [blayoutCmds, List.flatMap_cons] at this
      exact (cmdsOk_append _ _ _).mp this
    obtain ⟨s1, h1, hres1, hready1⟩ := readBLine ids hnd hne hlen l n s r hline hcont hready (fun j id hid => (hsplit j id hid).1)
    obtain ⟨s', h2, hres2⟩ := ih (n + 1) s1 (r || l.isHdr) hrest hready1
      (fun j id hid => by rw [hres1.tracks j id hid]; exact (hsplit j id hid).2)
    refine ⟨s', ?_, ?_⟩
    · show readLines n (l.text :: ls.map BLine.text) s = _
      rw [readLines_cons n _ _ s s1 h1]; exact h2
    · have := hres1.trans hres2
      simpa [blayoutCmds] using this

/-! ### old ⇒ new -/

theorem stop_of_old (c : Nat) (h : Mml.Stop c) : Stop c := by
  rcases h with h | h | h | h | h | h
  · exact Or.inl h
  · exact Or.inr (Or.inl h)
  · exact Or.inr (Or.inr (Or.inl h))
  · exact Or.inr (Or.inr (Or.inr (Or.inl h)))
  · exact Or.inr (Or.inr (Or.inr (Or.inr (Or.inl h))))
  · exact Or.inr (Or.inr (Or.inr (Or.inr (Or.inr (Or.inl h)))))

theorem stopEnd_of_old (e : List Nat) (h : Mml.StopEnd e) : StopEnd e := by
  rcases h with rfl | ⟨c, r, rfl, hc⟩
  · exact Or.inl rfl
  · exact Or.inr ⟨c, r, rfl, stop_of_old c hc⟩

/-- `ItemsOk` ⇒ `L2.ItemsOk` for bodies whose selected commands are those of round 2 -/
theorem itemsOk_of_old (i : Nat) : ∀ (items : List Item) (e : List Nat), Mml.ItemsOk i items e →
    (∀ c ∈ selCmds i items, Mml.LCovered c) → ItemsOk i items e := by
  intro items
  induction items with
  | nil => intro _ _ _; trivial
  | cons it rest ih =>
    intro e h hcov
    have hc : ∀ c, c ∈ cmdsOf (it.sel i) ∨ c ∈ selCmds i rest → Mml.LCovered c := by
      intro c hc
      apply hcov c
      rw [selCmds_cons]
      exact List.mem_append.mpr hc
    cases it with
    | toks ts =>
      obtain ⟨h1, h2, h3⟩ := h
      exact ⟨toksOk_of_old ts _ h1 (fun c h => hc c (Or.inl h)), stopEnd_of_old _ h2, ih e h3 (fun c h => hc c (Or.inr h))⟩
    | block alts =>
      obtain ⟨h1, h2, h3, h4⟩ := h
      exact ⟨h1, h2, toksOk_of_old _ _ h3 (fun c h => hc c (Or.inl h)), ih e h4 (fun c h => hc c (Or.inr h))⟩

/-- `BLineOk` ⇒ `L2.BLineOk` -/
theorem blineOk_of_old (ids : List Nat) (l : BLine) (h : Mml.BLineOk ids l)
    (hcov : ∀ j, j < ids.length → ∀ c ∈ l.cmds j, Mml.LCovered c) : BLineOk ids l := by
  cases l with
  | hdr as b items e =>
    obtain ⟨h1, h2, h3, h4, h5, h6, h7⟩ := h
    exact ⟨h1, h2, h3, h4, fun j hj => itemsOk_of_old j items e (h5 j hj) (hcov j hj), h6, h7⟩
  | cont b items e =>
    obtain ⟨h1, h2, h3, h4⟩ := h
    exact ⟨h1, fun j hj => itemsOk_of_old j items e (h2 j hj) (hcov j hj), h3, h4⟩
  | empty => trivial
  | comment _ => trivial

/-- `BLinesOk` ⇒ `L2.BLinesOk` -/
theorem blinesOk_of_old (ids : List Nat) (ls : List BLine) : ∀ (r : Bool), Mml.BLinesOk ids r ls →
    (∀ j, j < ids.length → ∀ c ∈ blayoutCmds j ls, Mml.LCovered c) → BLinesOk ids r ls := by
  induction ls with
  | nil => intro r _ _; trivial
  | cons l ls ih =>
    intro r h hcov
    obtain ⟨h1, h2, h3⟩ := h
    have hc : ∀ j, j < ids.length → ∀ c, c ∈ l.cmds j ∨ c ∈ blayoutCmds j ls → Mml.LCovered c := by
      intro j hj c hc
      apply hcov j hj c
      simp only [blayoutCmds, List.flatMap_cons, List.mem_append]
      exact hc
    exact ⟨blineOk_of_old ids l h1 (fun j hj c h => hc j hj c (Or.inl h)), h2, ih _ h3 (fun j hj c h => hc j hj c (Or.inr h))⟩

/-! ### decidability -/

instance decLCmdStart2 (c : Nat) : Decidable (LCmdStart c) := inferInstanceAs (Decidable (_ ∨ _))
instance decStop2 (c : Nat) : Decidable (Stop c) := inferInstanceAs (Decidable (_ ∨ _))

instance decStopEnd2 : (e : List Nat) → Decidable (StopEnd e)
  | [] => isTrue (Or.inl rfl)
  | c :: r =>
    if h : Stop c then isTrue (Or.inr ⟨c, r, rfl, h⟩)
    else isFalse (fun hh => by
      rcases hh with hh | ⟨c', r', hh, hc⟩
      · cases hh
      · simp at hh; exact h (hh.1 ▸ hc))

instance decClean (l : List Nat) : Decidable (Clean l) :=
  inferInstanceAs (Decidable (∀ x ∈ l, x ≠ 0 ∧ x ≠ 47 ∧ x ≠ 59 ∧ x ≠ 125 ∧ x < 128))

instance decItemsOk (i : Nat) : (items : List Item) → (e : List Nat) → Decidable (ItemsOk i items e)
  | [], _ => isTrue trivial
  | .toks ts :: rest, e =>
    have := decItemsOk i rest e
    inferInstanceAs (Decidable (ToksOk ts (itemsText rest e) ∧ StopEnd (itemsText rest e) ∧ ItemsOk i rest e))
  | .block alts :: rest, e =>
    have := decItemsOk i rest e
    inferInstanceAs (Decidable (i < alts.length ∧ (∀ a ∈ alts, Clean (altText a)) ∧
      ToksOk (alts.getD i []) (afterText (alts.drop (i + 1)) (itemsText rest e)) ∧ ItemsOk i rest e))

instance decBLineOk (ids : List Nat) : (l : BLine) → Decidable (BLineOk ids l)
  | .hdr as b items e => inferInstanceAs (Decidable (as ≠ [] ∧ HeaderOk as ∧ as.map Addr.id = ids ∧ (b = 32 ∨ b = 9) ∧
      (∀ j, j < ids.length → ItemsOk j items e) ∧ EndOk e ∧ Bytes (headerBytes as ++ b :: itemsText items e)))
  | .cont b items e => inferInstanceAs (Decidable ((b = 32 ∨ b = 9) ∧ (∀ j, j < ids.length → ItemsOk j items e) ∧ EndOk e ∧
      Bytes (b :: itemsText items e)))
  | .empty => isTrue trivial
  | .comment _ => isTrue trivial

instance decBLinesOk (ids : List Nat) : (r : Bool) → (ls : List BLine) → Decidable (BLinesOk ids r ls)
  | _, [] => isTrue trivial
  | r, l :: ls =>
    have := decBLinesOk ids (r || l.isHdr) ls
    inferInstanceAs (Decidable (BLineOk ids l ∧ (l.isCont = true → r = true) ∧ BLinesOk ids (r || l.isHdr) ls))


end Ctrmml.Mml.L2
