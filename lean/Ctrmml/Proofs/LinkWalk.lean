/-
  Helper definitions and lemmas for C10: the two `while(!x.at_end()) RIFF(x.get_chunk())` loops of
  `add_song` written as "list the children, then fold over them" (`kids`, `foldTop`, `foldDblk`),
  and the state-free part of `add_song` (`readSong`: what the linker reads out of a file before
  it touches its banks).  No property statements here.
-/
import Ctrmml.Model.Linker
namespace Ctrmml.Linker
open Ctrmml

/-- the children a `while(!r.at_end()) RIFF(r.get_chunk())` loop visits, in order, and the error
that ends the loop early (`none` = the loop ran to the end of the list) -/
def kids : Nat → Riff.Riff → List Riff.Riff × Option Err
  | 0, _ => ([], some .hang)
  | fuel + 1, r =>
    if Riff.atEnd r then ([], none) else
    match Riff.getChunk r with
    | .error e => ([], some (ofRiffErr e))
    | .ok (cb, r') =>
      match Riff.ofBytes cb with
      | .error e => ([], some (ofRiffErr e))
      | .ok chunk => ((kids fuel r').1.cons chunk, (kids fuel r').2)

/-- the body of the first loop of `add_song` -/
def stepTop (chunk : Riff.Riff) (p : Parts) : Except Err Parts :=
  if chunk.type = Tables.link_cc_seq then .ok { p with seq := chunk.data }
  else if chunk.type = Tables.link_cc_pcmd then .ok { p with pcmd := chunk.data }
  else if chunk.type = Riff.TYPE_LIST then
    match Riff.getId chunk with
    | .error e => .error (ofRiffErr e)
    | .ok id => if id = Tables.link_cc_dblk then .ok { p with dblk := chunk } else .ok p
  else if chunk.type = Tables.link_cc_ver then .ok { p with ver := chunk.data }
  else if chunk.type = Tables.link_cc_grp then .ok { p with group := chunk.data }
  else .ok p

def foldTop : List Riff.Riff → Option Err → Parts → Except Err Parts
  | [], none, p => .ok p
  | [], some e, _ => .error e
  | c :: cs, oe, p =>
    match stepTop c p with
    | .error e => .error e
    | .ok p' => foldTop cs oe p'

theorem walkTop_fold (fuel : Nat) (r : Riff.Riff) (p : Parts) :
    walkTop fuel r p = foldTop (kids fuel r).1 (kids fuel r).2 p := by
  induction fuel generalizing r p with
  | zero => rfl
  | succ fuel ih =>
    unfold walkTop kids
    by_cases he : Riff.atEnd r = true
    · simp only [he, if_true, foldTop]
    · simp only [he, Bool.false_eq_true, if_false]
      cases hg : Riff.getChunk r with
      | error e => simp only [foldTop]
      | ok pr =>
        obtain ⟨cb, r'⟩ := pr
        simp only
        cases ho : Riff.ofBytes cb with
        | error e => simp only [foldTop]
        | ok chunk =>
          simp only [foldTop, stepTop]
          split
          · exact ih ..
          · split
            · exact ih ..
            · split
              · cases hid : Riff.getId chunk with
                | error e => rfl
                | ok id =>
                  simp only
                  split
                  · exact ih ..
                  · exact ih ..
              · split
                · exact ih ..
                · split
                  · exact ih ..
                  · exact ih ..

/-- the body of the second loop of `add_song` -/
def stepDblk (sdata seqLen : Nat) (pcmd : Bytes) (chunk : Riff.Riff) (a : Acc) : Except Err Acc :=
  if chunk.type = Tables.link_cc_glob then addGlob sdata seqLen chunk.data a
  else if chunk.type = Tables.link_cc_pcmh then addPcmh sdata seqLen pcmd chunk.data a
  else .ok a

def foldDblk (sdata seqLen : Nat) (pcmd : Bytes) : List Riff.Riff → Option Err → Acc → Except Err Acc
  | [], none, a => .ok a
  | [], some e, _ => .error e
  | c :: cs, oe, a =>
    match stepDblk sdata seqLen pcmd c a with
    | .error e => .error e
    | .ok a' => foldDblk sdata seqLen pcmd cs oe a'

theorem walkDblk_fold (sdata seqLen : Nat) (pcmd : Bytes) (fuel : Nat) (r : Riff.Riff) (a : Acc) :
    walkDblk sdata seqLen pcmd fuel r a = foldDblk sdata seqLen pcmd (kids fuel r).1 (kids fuel r).2 a := by
  induction fuel generalizing r a with
  | zero => rfl
  | succ fuel ih =>
    unfold walkDblk kids
    by_cases he : Riff.atEnd r = true
    · simp only [he, if_true, foldDblk]
    · simp only [he, Bool.false_eq_true, if_false]
      cases hg : Riff.getChunk r with
      | error e => simp only [foldDblk]
      | ok pr =>
        obtain ⟨cb, r'⟩ := pr
        simp only
        cases ho : Riff.ofBytes cb with
        | error e => simp only [foldDblk]
        | ok chunk =>
          simp only [foldDblk, stepDblk]
          split
          · cases addGlob sdata seqLen chunk.data a with
            | error e => rfl
            | ok a' => exact ih ..
          · split
            · cases addPcmh sdata seqLen pcmd chunk.data a with
              | error e => rfl
              | ok a' => exact ih ..
            · exact ih ..

/-- a successful fold ran over the whole list -/
theorem foldDblk_ok (sdata seqLen : Nat) (pcmd : Bytes) (cs : List Riff.Riff) (oe : Option Err) (a a' : Acc)
    (h : foldDblk sdata seqLen pcmd cs oe a = .ok a') : oe = none := by
  induction cs generalizing a with
  | nil => cases oe with
    | none => rfl
    | some e => cases h
  | cons c cs ih =>
    unfold foldDblk at h
    cases hs : stepDblk sdata seqLen pcmd c a with
    | error e => rw [hs] at h; cases h
    | ok a1 => rw [hs] at h; exact ih a1 h

theorem foldTop_ok (cs : List Riff.Riff) (oe : Option Err) (p p' : Parts)
    (h : foldTop cs oe p = .ok p') : oe = none := by
  induction cs generalizing p with
  | nil => cases oe with
    | none => rfl
    | some e => cases h
  | cons c cs ih =>
    unfold foldTop at h
    cases hs : stepTop c p with
    | error e => rw [hs] at h; cases h
    | ok p1 => rw [hs] at h; exact ih p1 h

/-! ### the state-free part of add_song -/

/-- what `add_song` has read when it starts to touch the banks -/
structure SongRead where
  group : Bytes          -- the `grp ` chunk as it is in the file
  seq : Bytes
  pcmd : Bytes
  chunks : List Riff.Riff  -- the children of `LIST dblk`, in file order

def SongRead.sdata (rd : SongRead) : Nat := (rd.seq.getD 0 0).toNat * 256 + (rd.seq.getD 1 0).toNat

/-- `add_song` up to `dblk.rewind()` plus the listing of the `dblk` children; `none` = one of the
errors that do not depend on the linker's state was raised there -/
def readSong (file : Bytes) : Option SongRead :=
  match Riff.ofBytes file with
  | .error _ => none
  | .ok mds0 =>
    let mds := { mds0 with position := Riff.rewindPos mds0.type }
    if mds.type ≠ Riff.TYPE_RIFF then none else
    match Riff.getId mds with
    | .error _ => none
    | .ok id =>
      if id ≠ Tables.link_cc_MDS0 then none else
      match walkTop (mds.data.length + 1) mds {} with
      | .error _ => none
      | .ok p =>
        if p.ver.length < 2 ∨ p.seq.length < 2 ∨ p.dblk.type ≠ Riff.TYPE_LIST then none else
        if !checkVersion (p.ver.getD 0 0).toNat (p.ver.getD 1 0).toNat then none else
        let dblk := { p.dblk with position := Riff.rewindPos p.dblk.type }
        match (kids (dblk.data.length + 1) dblk).2 with
        | some _ => none
        | none => some { group := p.group, seq := p.seq, pcmd := p.pcmd, chunks := (kids (dblk.data.length + 1) dblk).1 }

/-- a successful `add_song` is `readSong` followed by the fold over the `dblk` children -/
theorem addSong_read (l l' : Linker) (file : Bytes) (mds : Riff.Riff) (name : Bytes)
    (ho : Riff.ofBytes file = .ok mds) (h : addSong l mds name = .ok l') :
    ∃ rd a, readSong file = some rd ∧
      foldDblk rd.sdata rd.seq.length rd.pcmd rd.chunks none { bank := l.dataBank, wave := l.wave, patch := [] } = .ok a ∧
      l' = { dataBank := a.bank, wave := a.wave,
             seqBank := seqInsert l.seqBank (groupKey rd.group) { filename := name, data := rd.seq, patch := a.patch } } := by
  unfold addSong at h
  unfold readSong
  rw [ho]
  simp only at h ⊢
  split at h
  · cases h
  · rename_i hty
    rw [if_neg hty]
    cases hid : Riff.getId { mds with position := Riff.rewindPos mds.type } with
    | error e => rw [hid] at h; cases h
    | ok id =>
      rw [hid] at h
      simp only at h ⊢
      split at h
      · cases h
      · rename_i hid2
        rw [if_neg hid2]
        cases hw : walkTop (mds.data.length + 1) { mds with position := Riff.rewindPos mds.type } {} with
        | error e => rw [hw] at h; cases h
        | ok p =>
          rw [hw] at h
          simp only at h ⊢
          split at h
          · cases h
          · rename_i hsz
            rw [if_neg hsz]
            split at h
            · cases h
            · rename_i hv
              rw [if_neg hv]
              rw [walkDblk_fold] at h
              cases hf : foldDblk ((p.seq.getD 0 0).toNat * 256 + (p.seq.getD 1 0).toNat) p.seq.length p.pcmd
                  (kids (p.dblk.data.length + 1) { p.dblk with position := Riff.rewindPos p.dblk.type }).1
                  (kids (p.dblk.data.length + 1) { p.dblk with position := Riff.rewindPos p.dblk.type }).2
                  { bank := l.dataBank, wave := l.wave, patch := [] } with
              | error e => rw [hf] at h; cases h
              | ok a =>
                rw [hf] at h
                have hnone := foldDblk_ok _ _ _ _ _ _ _ hf
                rw [hnone] at hf
                simp only [hnone]
                simp only [Except.ok.injEq] at h
                exact ⟨_, a, rfl, hf, h.symm⟩

/-- … and conversely: once `readSong` has accepted the file, `add_song` on ANY linker state is exactly
the fold over the children `readSong` listed (its only remaining errors are those of the entries) -/
theorem addSong_of_read (l : Linker) (file : Bytes) (mds : Riff.Riff) (name : Bytes) (rd : SongRead)
    (ho : Riff.ofBytes file = .ok mds) (hr : readSong file = some rd) :
    addSong l mds name =
      match foldDblk rd.sdata rd.seq.length rd.pcmd rd.chunks none { bank := l.dataBank, wave := l.wave, patch := [] } with
      | .error e => .error e
      | .ok a => .ok { dataBank := a.bank, wave := a.wave,
                       seqBank := seqInsert l.seqBank (groupKey rd.group) { filename := name, data := rd.seq, patch := a.patch } } := by
  unfold readSong at hr
  rw [ho] at hr
  simp only at hr
  unfold addSong
  simp only
  split at hr
  · cases hr
  · rename_i hty
    rw [if_neg hty]
    cases hid : Riff.getId { mds with position := Riff.rewindPos mds.type } with
    | error e => rw [hid] at hr; cases hr
    | ok id =>
      rw [hid] at hr
      simp only at hr ⊢
      split at hr
      · cases hr
      · rename_i hid2
        rw [if_neg hid2]
        cases hw : walkTop (mds.data.length + 1) { mds with position := Riff.rewindPos mds.type } {} with
        | error e => rw [hw] at hr; cases hr
        | ok p =>
          rw [hw] at hr
          simp only at hr ⊢
          split at hr
          · cases hr
          · rename_i hsz
            rw [if_neg hsz]
            split at hr
            · cases hr
            · rename_i hv
              rw [if_neg hv]
              rw [walkDblk_fold]
              split at hr
              · cases hr
              · rename_i hnone
                simp only [Option.some.injEq] at hr
                subst hr
                simp only [hnone, SongRead.sdata]
                generalize foldDblk ((p.seq.getD 0 0).toNat * 256 + (p.seq.getD 1 0).toNat) p.seq.length p.pcmd
                  (kids (p.dblk.data.length + 1) { type := p.dblk.type, data := p.dblk.data, position := Riff.rewindPos p.dblk.type }).1
                  none { bank := l.dataBank, wave := l.wave, patch := [] } = r
                cases r <;> rfl

end Ctrmml.Linker
