/-
  C01, layer 3 — termination, the bookkeeping: the passes keep call parameters within `int16_t`
  (`SongI16`, the hypothesis of `analyzeStack_no_fuel`), and the arithmetic of the measure
  `(number of events, number of events that are not loop brackets)`.
-/
import Ctrmml.Proofs.OptNoFuel
namespace Ctrmml.OptSteps
open Ctrmml Ctrmml.Tree Ctrmml.Expand Ctrmml.Rewrite Ctrmml.Opt Tables

/-! ## call parameters stay within `int16_t` -/

theorem callI16_append {a b : List Event} (ha : CallI16 a) (hb : CallI16 b) : CallI16 (a ++ b) := by
  intro e he
  rcases List.mem_append.1 he with h | h
  · exact ha e h
  · exact hb e h

theorem callI16_take {l : List Event} (h : CallI16 l) (n : Nat) : CallI16 (l.take n) :=
  fun e he => h e (List.mem_of_mem_take he)

theorem callI16_drop {l : List Event} (h : CallI16 l) (n : Nat) : CallI16 (l.drop n) :=
  fun e he => h e (List.mem_of_mem_drop he)

theorem callI16_single {e : Event} (h : e.type = ev_JUMP ∨ e.type = ev_NOTE → I16 e.param) : CallI16 [e] := by
  intro x hx
  simp only [List.mem_singleton] at hx
  rw [hx]; exact h

theorem callI16_ins {l : List Event} (h : CallI16 l) (p : Nat) {e : Event}
    (he : e.type = ev_JUMP ∨ e.type = ev_NOTE → I16 e.param) : CallI16 (ins l p e) := by
  unfold ins
  exact callI16_append (callI16_append (callI16_take h _) (callI16_single he)) (callI16_drop h _)

theorem leEv_notcall (n : Int) : (leEv n).type = ev_JUMP ∨ (leEv n).type = ev_NOTE → I16 (leEv n).param := by
  intro hc
  have h1 : ev_LOOP_END ≠ ev_JUMP := by decide
  have h2 : ev_LOOP_END ≠ ev_NOTE := by decide
  rcases hc with hc | hc
  · exact absurd hc h1
  · exact absurd hc h2

/-- the loop fold inserts only loop brackets -/
theorem callI16_foldedTrack {src : List Event} (h : CallI16 src) (p q L : Nat) : CallI16 (foldedTrack src p q L) := by
  unfold foldedTrack
  simp only
  apply callI16_ins
  · split
    · apply callI16_ins
      · apply callI16_ins
        · exact callI16_append (callI16_take h _) (callI16_drop h _)
        · exact leEv_notcall _
      · intro hc; rcases hc with hc | hc <;> exact absurd hc (by decide)
    · apply callI16_ins
      · exact callI16_append (callI16_take h _) (callI16_drop h _)
      · exact leEv_notcall _
  · intro hc; rcases hc with hc | hc <;> exact absurd hc (by decide)

theorem songI16_setTrack {S : Song} {id : Nat} {x evs : List Event} (hs : SongI16 S) (hx : S.track? id = some x)
    (he : CallI16 evs) : SongI16 (setTrack S id evs) := by
  intro p hp
  rw [setTrack_tracks hx] at hp
  obtain ⟨q, hq, rfl⟩ := List.mem_map.1 hp
  split
  · exact he
  · exact hs q hq

/-- subroutine extraction: the new track is a segment of an old one, the other tracks get `JUMP`s
to the new id -/
theorem songI16_of_subInv {song s3 : Song} {Xl : List Event} {subId : Int} {subT : Nat}
    (hnd3 : (s3.tracks.map (·.1)).Nodup) (hinv : SubInv song Xl (jumpEvent subId) subT s3)
    (hs : SongI16 song) (hX : CallI16 Xl) (hid : I16 subId) : SongI16 s3 := by
  intro p hp
  have hlk : s3.track? p.1 = some p.2 := lookup_of_mem_nodup hnd3 (by simpa using hp)
  by_cases hsub : p.1 = subT
  · rw [hsub, hinv.sub] at hlk
    cases hlk
    exact hX
  · rcases hinv.rel p.1 hsub with ⟨_, h2⟩ | ⟨evs, evs', h1, h2, h3, _⟩
    · rw [h2] at hlk; cases hlk
    · rw [h2] at hlk
      cases hlk
      intro e he
      rcases h3.mem e he with h | h
      · exact hs _ (mem_of_lookup h1) e h
      · intro _; rw [h]; exact hid

/-! ## the measure -/

theorem wsum_le {w w' : Event → Nat} (h : ∀ e, w e ≤ w' e) (l : List Event) : wsum w l ≤ wsum w' l := by
  induction l with
  | nil => exact Nat.le_refl _
  | cons e r ih => rw [wsum_cons, wsum_cons]; have := h e; omega

theorem songW_le {w w' : Event → Nat} (h : ∀ e, w e ≤ w' e) (S : Song) : songW w S ≤ songW w' S := by
  unfold songW
  induction S.tracks with
  | nil => exact Nat.le_refl _
  | cons p r ih =>
    simp only [List.map_cons, List.sum_cons]
    have := wsum_le h p.2
    omega

theorem playedEvents_le (S : Song) : playedEvents S ≤ totalEvents S :=
  songW_le (fun e => by split <;> omega) S

/-- the lexicographic measure `(total, played)` as one number -/
def optMeasure (S : Song) : Nat := totalEvents S * (totalEvents S + 1) + playedEvents S

theorem measure_lt {t p t' p' : Nat} (hp' : p' ≤ t') (h : t' < t ∨ (t' = t ∧ p' < p)) :
    t' * (t' + 1) + p' < t * (t + 1) + p := by
  rcases h with h | ⟨h1, h2⟩
  · have h1 : (t' + 1) * (t' + 1) ≤ t * t := Nat.mul_le_mul h h
    rw [Nat.add_mul, Nat.one_mul] at h1
    rw [Nat.mul_add t t 1, Nat.mul_one]
    omega
  · subst h1; omega

theorem optMeasure_lt {S S' : Song}
    (h : totalEvents S' < totalEvents S ∨ (totalEvents S' = totalEvents S ∧ playedEvents S' < playedEvents S)) :
    optMeasure S' < optMeasure S :=
  measure_lt (playedEvents_le S') h

theorem optMeasure_bound (S : Song) : optMeasure S < (totalEvents S + 1) * (totalEvents S + 1) := by
  unfold optMeasure
  have := playedEvents_le S
  rw [Nat.add_mul, Nat.one_mul]; omega

end Ctrmml.OptSteps
