/-
  Rewrite soundness for the two rewrites of the optimiser (loop fold, subroutine extraction)
  against the structural expansion `Spec/Expand`.

  Plan (ported from notes/proto_fold_sound.lean):
  1. `obs` is a monoid homomorphism on item lists (`obs_append`), so "same observation"
     (`OEq`) is a congruence for `++` and `repeatItems`; silent items (zero-length brackets,
     breaks, calls) are neutral.
  2. `ResRel r r'` relates two expansion results: if the left one is `.ok`, the right one is
     `.ok` with the same observation or fails with `.depth` (the rewrites add one frame).
  3. `FEq c c' f f'` — semantic equivalence of forests under two call functions; congruence
     for `++`, loops; reflexive when the call functions are related (`CallRel`).
  4. parser congruence for the total matcher: `ERel X X' l l'` (flat lists equal up to
     replacing segments `flattenL X` by `flattenL X'`) gives `FEq (parse l) (parse l')`.
  5. songs: `callK_rel` (induction on the call budget).
-/
import Ctrmml.Spec.Played
import Ctrmml.Proofs.Tree
namespace Ctrmml.Rewrite
open Ctrmml Ctrmml.Tree Ctrmml.Expand

/-! ## 1. observations -/

/-- composition of observations -/
def obsApp (a b : Obs) : Obs :=
  (a.1 ++ b.1, a.2.1 + b.2.1,
    match b.2.2 with
    | some t => some (a.2.1 + t)
    | none => a.2.2)

def obsNil : Obs := ([], 0, none)

theorem obs_nil : obs [] = obsNil := rfl

theorem totalDur_cons (i : Item) (l : List Item) : totalDur (i :: l) = i.dur + totalDur l := by
  simp [totalDur]

theorem totalDur_append (a b : List Item) : totalDur (a ++ b) = totalDur a + totalDur b := by
  simp [totalDur]

theorem played_append (a b : List Item) : played (a ++ b) = played a ++ played b := by
  simp [played]

theorem loopTimeAux_eq (l : List Item) : ∀ (t : Nat) (acc : Option Nat),
    loopTimeAux t acc l = (match loopTimeAux 0 none l with
                           | some s => some (t + s)
                           | none => acc) := by
  induction l with
  | nil => intro t acc; simp [loopTimeAux]
  | cons i is ih =>
    intro t acc
    simp only [loopTimeAux]
    rw [ih (t + i.dur), ih (0 + i.dur)]
    cases loopTimeAux 0 none is with
    | some s => simp [Nat.add_assoc]
    | none => by_cases h : i.src.kind = .segno <;> simp [h]

theorem loopTimeAux_append (a b : List Item) (t : Nat) (acc : Option Nat) :
    loopTimeAux t acc (a ++ b) = loopTimeAux (t + totalDur a) (loopTimeAux t acc a) b := by
  induction a generalizing t acc with
  | nil => simp [loopTimeAux, totalDur]
  | cons i is ih => simp only [List.cons_append, loopTimeAux, ih, totalDur_cons, Nat.add_assoc]

theorem loopTime_append (a b : List Item) :
    loopTime (a ++ b) = (match loopTime b with
                         | some t => some (totalDur a + t)
                         | none => loopTime a) := by
  unfold loopTime
  rw [loopTimeAux_append, loopTimeAux_eq b]
  simp

theorem obs_append (a b : List Item) : obs (a ++ b) = obsApp (obs a) (obs b) := by
  simp only [obs, obsApp, played_append, totalDur_append, loopTime_append]

/-- same observation -/
def OEq (x y : List Item) : Prop := obs x = obs y

theorem OEq.refl (x : List Item) : OEq x x := rfl
theorem OEq.symm {x y : List Item} (h : OEq x y) : OEq y x := Eq.symm h
theorem OEq.trans {x y z : List Item} (h1 : OEq x y) (h2 : OEq y z) : OEq x z := Eq.trans h1 h2

theorem OEq.append {a a' b b' : List Item} (h1 : OEq a a') (h2 : OEq b b') : OEq (a ++ b) (a' ++ b') := by
  unfold OEq at *
  rw [obs_append, obs_append, h1, h2]

theorem OEq.cons (i : Item) {a a' : List Item} (h : OEq a a') : OEq (i :: a) (i :: a') :=
  OEq.append (OEq.refl [i]) h

theorem OEq.rep {l l' : List Item} (h : OEq l l') (n : Nat) : OEq (repeatItems n l) (repeatItems n l') := by
  induction n with
  | zero => exact OEq.refl _
  | succ n ih => exact OEq.append h ih

/-- an item that leaves no trace in the observation: a zero-length bracket, break or call -/
def Silent (i : Item) : Prop :=
  (i.ev.kind = .loopStart ∨ i.ev.kind = .loopEnd ∨ i.ev.kind = .loopBreak ∨ i.ev.kind = .jump) ∧
  i.src.on + i.src.off = 0 ∧ i.src.kind ≠ .segno

theorem obsApp_nil_left (o : Obs) : obsApp obsNil o = o := by
  obtain ⟨p, d, l⟩ := o
  cases l <;> simp [obsApp, obsNil]

theorem obs_silent {i : Item} (h : Silent i) : obs [i] = obsNil := by
  obtain ⟨hk, hd, hs⟩ := h
  simp [obs, obsNil, played, playedItem, hk, hd, totalDur, Item.dur, loopTime, loopTimeAux, hs]

theorem OEq.silent_cons {i : Item} (h : Silent i) (a : List Item) : OEq (i :: a) a := by
  show obs ([i] ++ a) = obs a
  rw [obs_append, obs_silent h, obsApp_nil_left]

theorem OEq.silent_cons_left {i : Item} (h : Silent i) {a b : List Item} (hab : OEq a b) : OEq (i :: a) b :=
  OEq.trans (OEq.silent_cons h a) hab

theorem OEq.silent_cons_right {i : Item} (h : Silent i) {a b : List Item} (hab : OEq a b) : OEq a (i :: b) :=
  OEq.trans hab (OEq.symm (OEq.silent_cons h b))

theorem OEq.silent_snoc {i : Item} (h : Silent i) (a : List Item) : OEq (a ++ [i]) a := by
  have := OEq.append (OEq.refl a) (OEq.silent_cons h [])
  simpa using this

theorem silent_item {e : Event}
    (hk : e.kind = .loopStart ∨ e.kind = .loopEnd ∨ e.kind = .loopBreak ∨ e.kind = .jump)
    (h0 : e.on = 0) (h1 : e.off = 0) : Silent (item e) := by
  refine ⟨hk, by simp [item, h0, h1], ?_⟩
  show e.kind ≠ .segno
  rcases hk with h | h | h | h <;> simp [h]


/-! ## 2. relating two expansion results -/

abbrev Res := Except SErr (List Item)

/-- if the left expansion succeeds, the right one succeeds with the same observation or runs
out of stack frames -/
def ResRel : Res → Res → Prop
  | .ok x, .ok y => OEq x y
  | .ok _, .error e => e = .depth
  | .error _, _ => True

theorem ResRel.refl (r : Res) : ResRel r r := by
  cases r <;> simp [ResRel, OEq.refl]

theorem ResRel.depth (r : Res) : ResRel r (.error .depth) := by
  cases r <;> simp [ResRel]

theorem ResRel.err (e : SErr) (r : Res) : ResRel (.error e) r := by
  simp [ResRel]

theorem ResRel.seq {a a' b b' : Res} (h1 : ResRel a a') (h2 : ResRel b b') :
    ResRel (seq a b) (seq a' b') := by
  cases a with
  | error e => simp [Expand.seq, ResRel]
  | ok x =>
    cases a' with
    | error e' =>
      have : e' = .depth := h1
      subst this
      simp only [Expand.seq]
      exact ResRel.depth _
    | ok x' =>
      cases b with
      | error e => simp [Expand.seq, ResRel]
      | ok y =>
        cases b' with
        | error e' =>
          have : e' = .depth := h2
          subst this
          simp only [Expand.seq]
          exact ResRel.depth _
        | ok y' =>
          simp only [Expand.seq]
          exact OEq.append h1 h2

theorem ResRel.ok_ok {x y : List Item} (h : ResRel (.ok x) (.ok y)) : OEq x y := h

theorem seq_nil_right (r : Res) : seq r (.ok []) = r := by
  cases r <;> simp [seq]

theorem seq_nil_left (r : Res) : seq (.ok []) r = r := by
  cases r <;> simp [seq]

theorem seq_assoc (a b c : Res) : seq (seq a b) c = seq a (seq b c) := by
  cases a <;> cases b <;> cases c <;> simp [seq]

theorem seq_ok {a b : Res} {z : List Item} (h : seq a b = .ok z) :
    ∃ x y, a = .ok x ∧ b = .ok y ∧ z = x ++ y := by
  cases a with
  | error e => simp [seq] at h
  | ok x =>
    cases b with
    | error e => simp [seq] at h
    | ok y =>
      simp only [seq, Except.ok.injEq] at h
      exact ⟨x, y, rfl, rfl, h.symm⟩

/-! ## algebra of the expansion -/

section alg
variable (c : Nat → Nat → Except SErr (List Item))

theorem expL_nil (d : Nat) (b : Bool) : expL c d b [] = .ok [] := by simp [expL]

theorem expL_cons (d : Nat) (b : Bool) (n : Node) (ns : List Node) :
    expL c d b (n :: ns) = seq (expN c d b n) (expL c d b ns) := by simp [expL]

theorem expL_single (d : Nat) (b : Bool) (n : Node) : expL c d b [n] = expN c d b n := by
  simp [expL, seq_nil_right]

theorem expL_append (d : Nat) (b : Bool) (f g : List Node) :
    expL c d b (f ++ g) = seq (expL c d b f) (expL c d b g) := by
  induction f with
  | nil => simp [expL, seq_nil_left]
  | cons n ns ih => simp only [List.cons_append, expL_cons, ih, seq_assoc]

theorem hasTopBreak_append (a b : List Node) : hasTopBreak (a ++ b) = (hasTopBreak a || hasTopBreak b) := by
  induction a with
  | nil => simp [hasTopBreak]
  | cons n ns ih => cases n <;> simp [hasTopBreak, ih]

theorem topBreakEv_append (a b : List Node) :
    topBreakEv (a ++ b) = if hasTopBreak a then topBreakEv a else topBreakEv b := by
  induction a with
  | nil => simp [hasTopBreak]
  | cons n ns ih => cases n <;> simp [hasTopBreak, topBreakEv, ih] <;> rfl

theorem expPre_cons_nobrk (d : Nat) (n : Node) (ns : List Node) (h : ∀ e, n ≠ .brk e) :
    expPre c d (n :: ns) = seq (expN c d true n) (expPre c d ns) := by
  cases n with
  | brk e => exact absurd rfl (h e)
  | _ => simp [expPre]

theorem expPre_append (d : Nat) (a b : List Node) :
    expPre c d (a ++ b) = if hasTopBreak a then expPre c d a else seq (expL c d true a) (expPre c d b) := by
  induction a with
  | nil => simp [hasTopBreak, expL, seq_nil_left]
  | cons n ns ih =>
    cases n with
    | brk e => simp [hasTopBreak, expPre]
    | ev e =>
      simp only [List.cons_append, expPre, hasTopBreak, ih, expL_cons]
      split <;> simp [seq_assoc]
    | loop ls bd le =>
      simp only [List.cons_append, expPre, hasTopBreak, ih, expL_cons]
      split <;> simp [seq_assoc]
    | strayEnd e =>
      simp only [List.cons_append, expPre, hasTopBreak, ih, expL_cons]
      split <;> simp [seq_assoc]
    | openLoop ls bd =>
      simp only [List.cons_append, expPre, hasTopBreak, ih, expL_cons]
      split <;> simp [seq_assoc]

/-- a node that is not a break expands the same inside and outside a loop body -/
theorem expN_inLoop (d : Nat) (b b' : Bool) (n : Node) (h : ∀ e, n ≠ .brk e) :
    expN c d b n = expN c d b' n := by
  cases n with
  | brk e => exact absurd rfl (h e)
  | _ => simp [expN]

/-- (b) for a forest without top-level break the `inLoop` flag is irrelevant -/
theorem expL_inLoop (d : Nat) (b b' : Bool) (f : List Node) (h : hasTopBreak f = false) :
    expL c d b f = expL c d b' f := by
  induction f with
  | nil => simp [expL]
  | cons n ns ih =>
    cases n with
    | brk e => simp [hasTopBreak] at h
    | ev e => simp only [expL_cons, ih (by simpa [hasTopBreak] using h)]; rw [expN_inLoop c d b b' _ (by simp)]
    | loop ls bd le => simp only [expL_cons, ih (by simpa [hasTopBreak] using h)]; rw [expN_inLoop c d b b' _ (by simp)]
    | strayEnd e => simp only [expL_cons, ih (by simpa [hasTopBreak] using h)]; rw [expN_inLoop c d b b' _ (by simp)]
    | openLoop ls bd => simp only [expL_cons, ih (by simpa [hasTopBreak] using h)]; rw [expN_inLoop c d b b' _ (by simp)]

theorem expPre_noBreak (d : Nat) (f : List Node) (h : hasTopBreak f = false) :
    expPre c d f = expL c d true f := by
  have := expPre_append c d f []
  simp only [List.append_nil, h] at this
  rw [this]
  simp [expPre, seq_nil_right]

/-- what a loop does with the expansion of its body -/
def loopOut (ls le : Event) (hb : Bool) (tb : Event) (full : List Item) (pre : Res) : Res :=
  if le.param < 0 then .error .count else
  if le.param.toNat ≤ 1 then .ok (item ls :: (full ++ [item le]))
  else if hb then
    match pre with
    | .error x => .error x
    | .ok pre =>
      .ok (item ls :: (repeatItems (le.param.toNat - 1) (full ++ [item le])
            ++ (pre ++ [{ ev := le, src := tb }])))
  else .ok (item ls :: repeatItems le.param.toNat (full ++ [item le]))

theorem expN_loop (d : Nat) (b : Bool) (ls le : Event) (body : List Node) :
    expN c d b (.loop ls body le) =
      if d ≥ limit then .error .depth else
      match expL c (d + 1) true body with
      | .error x => .error x
      | .ok full => loopOut ls le (hasTopBreak body) (topBreakEv body) full (expPre c (d + 1) body) := by
  simp only [expN, loopOut]
  rfl

end alg

theorem loopOut_rel (ls le : Event) (hb : Bool) (tb : Event) {full full' : List Item} {pre pre' : Res}
    (h1 : OEq full full') (h2 : ResRel pre pre') :
    ResRel (loopOut ls le hb tb full pre) (loopOut ls le hb tb full' pre') := by
  unfold loopOut
  have hfl : OEq (full ++ [item le]) (full' ++ [item le]) := OEq.append h1 (OEq.refl _)
  by_cases hn : le.param < 0
  · simp [hn, ResRel]
  · simp only [hn, if_false]
    by_cases h1' : le.param.toNat ≤ 1
    · simp only [h1', if_true]
      exact OEq.cons _ hfl
    · simp only [h1', if_false]
      cases hb with
      | false =>
        simp only [Bool.false_eq_true, if_false]
        exact OEq.cons _ (OEq.rep hfl _)
      | true =>
        simp only [if_true]
        cases pre with
        | error e => exact ResRel.err _ _
        | ok p =>
          cases pre' with
          | error e' =>
            have : e' = .depth := h2
            subst this
            exact ResRel.depth _
          | ok p' =>
            have hp : OEq p p' := h2
            exact OEq.cons _ (OEq.append (OEq.rep hfl _) (OEq.append hp (OEq.refl _)))


/-! ## 3. semantic equivalence of forests -/

abbrev CallFn := Nat → Nat → Except SErr (List Item)

/-- two call functions agree (up to `ResRel`) at all depths -/
def CallRel (c c' : CallFn) : Prop := ∀ d d' id, ResRel (c d id) (c' d' id)

/-- two forests mean the same under the call functions `c`, `c'`, at every pair of depths, as a
loop body or not -/
structure FEq (c c' : CallFn) (f f' : List Node) : Prop where
  l : ∀ d d' b, ResRel (expL c d b f) (expL c' d' b f')
  p : ∀ d d', ResRel (expPre c d f) (expPre c' d' f')
  b : hasTopBreak f = hasTopBreak f'
  t : topBreakEv f = topBreakEv f'

theorem FEq.nil (c c' : CallFn) : FEq c c' [] [] :=
  ⟨fun _ _ _ => by simp [expL, ResRel, OEq.refl], fun _ _ => by simp [expPre, ResRel, OEq.refl], rfl, rfl⟩

theorem FEq.append {c c' : CallFn} {a a' b b' : List Node} (h1 : FEq c c' a a') (h2 : FEq c c' b b') :
    FEq c c' (a ++ b) (a' ++ b') := by
  refine ⟨?_, ?_, ?_, ?_⟩
  · intro d d' bb
    rw [expL_append, expL_append]
    exact ResRel.seq (h1.l d d' bb) (h2.l d d' bb)
  · intro d d'
    rw [expPre_append, expPre_append, ← h1.b]
    split
    · exact h1.p d d'
    · exact ResRel.seq (h1.l d d' true) (h2.p d d')
  · rw [hasTopBreak_append, hasTopBreak_append, h1.b, h2.b]
  · rw [topBreakEv_append, topBreakEv_append, h1.b, h1.t, h2.t]

/-- a single node that is not a break, given the relation of its expansions -/
theorem FEq.single {c c' : CallFn} {n n' : Node} (hn : ∀ e, n ≠ .brk e) (hn' : ∀ e, n' ≠ .brk e)
    (h : ∀ d d' b, ResRel (expN c d b n) (expN c' d' b n')) : FEq c c' [n] [n'] := by
  refine ⟨?_, ?_, ?_, ?_⟩
  · intro d d' b
    rw [expL_single, expL_single]
    exact h d d' b
  · intro d d'
    rw [expPre_cons_nobrk c d n [] hn, expPre_cons_nobrk c' d' n' [] hn']
    simp only [expPre, seq_nil_right]
    exact h d d' true
  · cases n <;> cases n' <;> simp_all [hasTopBreak]
  · cases n <;> cases n' <;> simp_all [topBreakEv]

theorem loop_rel {c c' : CallFn} {body body' : List Node} (h : FEq c c' body body') (ls le : Event)
    (d d' : Nat) (b : Bool) :
    ResRel (expN c d b (.loop ls body le)) (expN c' d' b (.loop ls body' le)) := by
  rw [expN_loop, expN_loop]
  by_cases h1 : d ≥ limit
  · simp only [h1, if_true]; exact ResRel.err _ _
  · by_cases h2 : d' ≥ limit
    · simp only [h2, if_true]; exact ResRel.depth _
    · simp only [h1, h2, if_false]
      have hl := h.l (d + 1) (d' + 1) true
      have hp := h.p (d + 1) (d' + 1)
      rw [← h.b, ← h.t]
      cases hx : expL c (d + 1) true body with
      | error e => exact ResRel.err _ _
      | ok x =>
        cases hy : expL c' (d' + 1) true body' with
        | error e' =>
          rw [hx, hy] at hl
          have : e' = .depth := hl
          subst this
          exact ResRel.depth _
        | ok y =>
          rw [hx, hy] at hl
          exact loopOut_rel ls le _ _ hl hp

theorem FEq.loop {c c' : CallFn} {body body' : List Node} (h : FEq c c' body body') (ls le : Event) :
    FEq c c' [.loop ls body le] [.loop ls body' le] :=
  FEq.single (by simp) (by simp) (fun d d' b => loop_rel h ls le d d' b)

theorem FEq.openLoop (c c' : CallFn) (ls ls' : Event) (body body' : List Node) :
    FEq c c' [.openLoop ls body] [.openLoop ls' body'] :=
  FEq.single (by simp) (by simp) (fun d d' b => by simp [expN, ResRel])

theorem FEq.brk (c c' : CallFn) (e : Event) : FEq c c' [.brk e] [.brk e] := by
  refine ⟨?_, ?_, rfl, rfl⟩
  · intro d d' b
    rw [expL_single, expL_single]
    simp only [expN]
    exact ResRel.refl _
  · intro d d'
    simp only [expPre]
    exact ResRel.refl _

mutual
/-- (a) the expansion of a node does not depend on the depths, up to `ResRel`, when the calls
do not -/
theorem expN_rel {c c' : CallFn} (hc : CallRel c c') : ∀ (n : Node) (d d' : Nat) (b : Bool),
    ResRel (expN c d b n) (expN c' d' b n)
  | .ev e, d, d', b => by
    simp only [expN]
    split
    · exact ResRel.seq (ResRel.refl _) (hc d d' _)
    · exact ResRel.refl _
  | .brk e, d, d', b => by simp only [expN]; exact ResRel.refl _
  | .strayEnd e, d, d', b => by simp only [expN]; exact ResRel.err _ _
  | .openLoop ls body, d, d', b => by simp only [expN]; exact ResRel.err _ _
  | .loop ls body le, d, d', b => loop_rel (FEq.rfl' hc body) ls le d d' b
theorem FEq.rfl' {c c' : CallFn} (hc : CallRel c c') : ∀ (f : List Node), FEq c c' f f
  | [] => FEq.nil c c'
  | n :: ns => by
    have hn : FEq c c' [n] [n] := by
      cases n with
      | brk e => exact FEq.brk c c' e
      | ev e => exact FEq.single (by simp) (by simp) (fun d d' b => expN_rel hc (.ev e) d d' b)
      | strayEnd e => exact FEq.single (by simp) (by simp) (fun d d' b => expN_rel hc (.strayEnd e) d d' b)
      | openLoop ls bd => exact FEq.openLoop c c' ls ls bd bd
      | loop ls bd le => exact FEq.loop (FEq.rfl' hc bd) ls le
    exact FEq.append hn (FEq.rfl' hc ns)
end


/-! ## 4. parser congruence -/

abbrev PStack := List (Event × List Node)

theorem parseAux_loopStart {e : Event} (hk : e.kind = .loopStart) (st : PStack) (cur : List Node)
    (rest : List Event) : parseAux st cur (e :: rest) = parseAux ((e, cur) :: st) [] rest := by
  simp only [parseAux, hk]

theorem parseAux_loopEnd_nil {e : Event} (hk : e.kind = .loopEnd) (cur : List Node)
    (rest : List Event) : parseAux [] cur (e :: rest) = parseAux [] (Node.strayEnd e :: cur) rest := by
  simp only [parseAux, hk]

theorem parseAux_loopEnd_cons {e : Event} (hk : e.kind = .loopEnd) (ls : Event) (outer : List Node)
    (st : PStack) (cur : List Node) (rest : List Event) :
    parseAux ((ls, outer) :: st) cur (e :: rest) = parseAux st (Node.loop ls cur.reverse e :: outer) rest := by
  simp only [parseAux, hk]

theorem parseAux_break {e : Event} (hk : e.kind = .loopBreak) (st : PStack) (cur : List Node)
    (rest : List Event) : parseAux st cur (e :: rest) = parseAux st (Node.brk e :: cur) rest := by
  simp only [parseAux, hk]

theorem parseAux_other {e : Event} (h1 : e.kind ≠ .loopStart) (h2 : e.kind ≠ .loopEnd)
    (h3 : e.kind ≠ .loopBreak) (st : PStack) (cur : List Node)
    (rest : List Event) : parseAux st cur (e :: rest) = parseAux st (Node.ev e :: cur) rest := by
  cases hk : e.kind <;> simp_all [parseAux]

mutual
/-- (d) the matcher reads the flat form of a closed node as that node -/
theorem parseAux_flattenN : ∀ (n : Node), Node.closed n → ∀ (st : PStack) (cur : List Node) (rest : List Event),
    parseAux st cur (flattenN n ++ rest) = parseAux st (n :: cur) rest
  | .ev e, h, st, cur, rest => by
    have h' : e.kind = .segno ∨ e.kind = .jump ∨ e.kind = .other := h
    simp only [flattenN, List.singleton_append]
    apply parseAux_other <;> rcases h' with h | h | h <;> simp [h]
  | .brk e, h, st, cur, rest => by
    have h' : e.kind = .loopBreak := h
    simp only [flattenN, List.singleton_append]
    exact parseAux_break h' st cur rest
  | .strayEnd e, h, st, cur, rest => by simp [Node.closed] at h
  | .openLoop ls b, h, st, cur, rest => by simp [Node.closed] at h
  | .loop ls b le, h, st, cur, rest => by
    have h' : ls.kind = .loopStart ∧ closedL b ∧ le.kind = .loopEnd := by simpa [Node.closed] using h
    simp only [flattenN, List.cons_append, List.append_assoc]
    rw [parseAux_loopStart h'.1, parseAux_flattenL b h'.2.1, List.nil_append,
      parseAux_loopEnd_cons h'.2.2]
    simp
theorem parseAux_flattenL : ∀ (f : List Node), closedL f → ∀ (st : PStack) (cur : List Node) (rest : List Event),
    parseAux st cur (flattenL f ++ rest) = parseAux st (f.reverse ++ cur) rest
  | [], _, st, cur, rest => by simp [flattenL]
  | n :: ns, h, st, cur, rest => by
    have h' : Node.closed n ∧ closedL ns := by simpa [closedL] using h
    simp only [flattenL, List.append_assoc]
    rw [parseAux_flattenN n h'.1, parseAux_flattenL ns h'.2]
    simp
end

theorem parse_flattenL (f : List Node) (h : closedL f) : parse (flattenL f) = f := by
  have := parseAux_flattenL f h [] [] []
  simp only [List.append_nil] at this
  simp [parse, this, parseAux, closeAll]

/-- flat lists that are equal up to replacing segments `flattenL X` by `flattenL X'` -/
inductive ERel (X X' : List Node) : List Event → List Event → Prop
  | nil : ERel X X' [] []
  | cons (e : Event) {l l' : List Event} : ERel X X' l l' → ERel X X' (e :: l) (e :: l')
  | repl {l l' : List Event} : ERel X X' l l' → ERel X X' (flattenL X ++ l) (flattenL X' ++ l')

theorem ERel.refl (X X' : List Node) : ∀ l : List Event, ERel X X' l l
  | [] => ERel.nil
  | e :: l => ERel.cons e (ERel.refl X X' l)

theorem ERel.prepend (X X' : List Node) (pre : List Event) {l l' : List Event} (h : ERel X X' l l') :
    ERel X X' (pre ++ l) (pre ++ l') := by
  induction pre with
  | nil => exact h
  | cons e pre ih => exact ERel.cons e ih

/-- one occurrence replaced, in an arbitrary (not necessarily balanced) context -/
theorem ERel.ctx (X X' : List Node) (pre post : List Event) :
    ERel X X' (pre ++ flattenL X ++ post) (pre ++ flattenL X' ++ post) := by
  rw [List.append_assoc, List.append_assoc]
  exact ERel.prepend X X' pre (ERel.repl (ERel.refl X X' post))

/-- the open levels of the matcher are pairwise equivalent -/
def StRel (c c' : CallFn) : PStack → PStack → Prop
  | [], [] => True
  | (ls, o) :: st, (ls', o') :: st' => ls = ls' ∧ FEq c c' o.reverse o'.reverse ∧ StRel c c' st st'
  | _, _ => False

theorem StRel.refl {c c' : CallFn} (hc : CallRel c c') : ∀ st : PStack, StRel c c' st st
  | [] => trivial
  | (_, _) :: st => ⟨rfl, FEq.rfl' hc _, StRel.refl hc st⟩

theorem closeAll_cong {c c' : CallFn} : ∀ (st st' : PStack) (cur cur' : List Node),
    StRel c c' st st' → FEq c c' cur.reverse cur'.reverse → FEq c c' (closeAll st cur) (closeAll st' cur')
  | [], [], cur, cur', _, h => by simpa [closeAll] using h
  | [], _ :: _, _, _, hs, _ => by simp [StRel] at hs
  | _ :: _, [], _, _, hs, _ => by simp [StRel] at hs
  | (ls, o) :: st, (ls', o') :: st', cur, cur', hs, h => by
    obtain ⟨h1, h2, h3⟩ := hs
    subst h1
    simp only [closeAll]
    apply closeAll_cong st st' _ _ h3
    simp only [List.reverse_cons]
    exact FEq.append h2 (FEq.openLoop c c' ls ls _ _)

theorem parseAux_cong {c c' : CallFn} (hc : CallRel c c') {X X' : List Node}
    (hX : closedL X) (hX' : closedL X') (hXX : FEq c c' X X') :
    ∀ {l l' : List Event}, ERel X X' l l' → ∀ (st st' : PStack) (cur cur' : List Node),
    StRel c c' st st' → FEq c c' cur.reverse cur'.reverse →
    FEq c c' (parseAux st cur l) (parseAux st' cur' l') := by
  intro l l' h
  induction h with
  | nil =>
    intro st st' cur cur' hs hcur
    simpa [parseAux] using closeAll_cong st st' cur cur' hs hcur
  | repl _ ih =>
    intro st st' cur cur' hs hcur
    rw [parseAux_flattenL X hX, parseAux_flattenL X' hX']
    apply ih st st' _ _ hs
    simp only [List.reverse_append, List.reverse_reverse]
    exact FEq.append hcur hXX
  | cons e _ ih =>
    intro st st' cur cur' hs hcur
    have push : ∀ n : Node, FEq c c' (n :: cur).reverse (n :: cur').reverse := by
      intro n
      simp only [List.reverse_cons]
      exact FEq.append hcur (FEq.rfl' hc [n])
    cases hk : e.kind with
    | loopStart =>
      rw [parseAux_loopStart hk, parseAux_loopStart hk]
      exact ih _ _ _ _ ⟨rfl, hcur, hs⟩ (FEq.nil c c')
    | loopBreak =>
      rw [parseAux_break hk, parseAux_break hk]
      exact ih _ _ _ _ hs (push _)
    | loopEnd =>
      match st, st', hs with
      | [], [], _ =>
        rw [parseAux_loopEnd_nil hk, parseAux_loopEnd_nil hk]
        exact ih _ _ _ _ trivial (push _)
      | (ls, o) :: st, (ls', o') :: st', hs =>
        obtain ⟨h1, h2, h3⟩ := hs
        subst h1
        rw [parseAux_loopEnd_cons hk, parseAux_loopEnd_cons hk]
        apply ih _ _ _ _ h3
        simp only [List.reverse_cons]
        exact FEq.append h2 (FEq.loop hcur ls e)
      | [], _ :: _, hs => simp [StRel] at hs
      | _ :: _, [], hs => simp [StRel] at hs
    | segno =>
      rw [parseAux_other (by simp [hk]) (by simp [hk]) (by simp [hk]),
        parseAux_other (by simp [hk]) (by simp [hk]) (by simp [hk])]
      exact ih _ _ _ _ hs (push _)
    | jump =>
      rw [parseAux_other (by simp [hk]) (by simp [hk]) (by simp [hk]),
        parseAux_other (by simp [hk]) (by simp [hk]) (by simp [hk])]
      exact ih _ _ _ _ hs (push _)
    | fin =>
      rw [parseAux_other (by simp [hk]) (by simp [hk]) (by simp [hk]),
        parseAux_other (by simp [hk]) (by simp [hk]) (by simp [hk])]
      exact ih _ _ _ _ hs (push _)
    | other =>
      rw [parseAux_other (by simp [hk]) (by simp [hk]) (by simp [hk]),
        parseAux_other (by simp [hk]) (by simp [hk]) (by simp [hk])]
      exact ih _ _ _ _ hs (push _)

/-- (e) context lemma: tracks equal up to replacing `X` by an equivalent `X'` have equivalent
forests -/
theorem parse_cong {c c' : CallFn} (hc : CallRel c c') {X X' : List Node}
    (hX : closedL X) (hX' : closedL X') (hXX : FEq c c' X X') {l l' : List Event} (h : ERel X X' l l') :
    FEq c c' (parse l) (parse l') :=
  parseAux_cong hc hX hX' hXX h [] [] [] [] trivial (FEq.nil c c')


/-! ## 5. songs -/

/-- Generic soundness of a rewrite `X ↦ X'` applied at any number of places of any tracks of a
song: if the base equivalence of `X` and `X'` holds under related call functions (the premise
also offers the relation at every smaller budget of the rewritten song — subroutine extraction
needs it), then calls of the two songs are related at all budgets and depths. -/
theorem callK_rel (S S' : Song) {X X' : List Node} (hX : closedL X) (hX' : closedL X')
    (hbase : ∀ k k', (∀ j, j < k' → ∀ k, CallRel (callK S k) (callK S' j)) →
        CallRel (callK S k) (callK S' k') → FEq (callK S k) (callK S' k') X X')
    (htr : ∀ id evs, S.track? id = some evs → ∃ evs', S'.track? id = some evs' ∧ ERel X X' evs evs') :
    ∀ k' k, CallRel (callK S k) (callK S' k') := by
  intro k'
  induction k' using Nat.strongRecOn with
  | _ k' ih =>
    intro k d d' id
    cases k with
    | zero => simp only [callK]; exact ResRel.err _ _
    | succ k =>
      cases k' with
      | zero => simp only [callK]; exact ResRel.depth _
      | succ k' =>
        simp only [callK]
        by_cases h1 : d ≥ limit
        · simp only [h1, if_true]; exact ResRel.err _ _
        · by_cases h2 : d' ≥ limit
          · simp only [h2, if_true]; exact ResRel.depth _
          · simp only [h1, h2, if_false]
            cases ht : S.track? id with
            | none => exact ResRel.err _ _
            | some evs =>
              obtain ⟨evs', ht', hrel⟩ := htr id evs ht
              simp only [ht']
              have hc : CallRel (callK S k) (callK S' k') := ih k' (Nat.lt_succ_self _) k
              have hb := hbase k k' (fun j hj => ih j (Nat.lt_succ_of_lt hj)) hc
              exact (parse_cong hc hX hX' hb hrel).l _ _ false

/-- the performances of related root tracks in the two songs -/
theorem perf_rel (S S' : Song) {X X' : List Node} (hX : closedL X) (hX' : closedL X')
    (hbase : ∀ k k', (∀ j, j < k' → ∀ k, CallRel (callK S k) (callK S' j)) →
        CallRel (callK S k) (callK S' k') → FEq (callK S k) (callK S' k') X X')
    (htr : ∀ id evs, S.track? id = some evs → ∃ evs', S'.track? id = some evs' ∧ ERel X X' evs evs')
    {root root' : List Event} (hroot : ERel X X' root root') :
    ResRel (perf S root) (perf S' root') := by
  have hall := callK_rel S S' hX hX' hbase htr
  have hc := hall limit limit
  have hb := hbase limit limit (fun j _ k => hall j k) hc
  exact (parse_cong hc hX hX' hb hroot).l 0 0 false

theorem ResRel.sound {r r' : Res} (h : ResRel r r') {x y : List Item} (h1 : r = .ok x) (h2 : r' = .ok y) :
    obs y = obs x := by
  subst h1 h2
  exact (OEq.symm h : OEq y x)

theorem ResRel.accepts {r r' : Res} (h : ResRel r r') {x : List Item} (h1 : r = .ok x)
    (h2 : r' ≠ .error .depth) : ∃ y, r' = .ok y := by
  subst h1
  cases r' with
  | ok y => exact ⟨y, rfl⟩
  | error e =>
    have : e = .depth := h
    subst this
    exact absurd rfl h2

/-! ## the loop fold -/

theorem topBreakEv_noBreak : ∀ (f : List Node), hasTopBreak f = false → topBreakEv f = endEvent
  | [], _ => rfl
  | n :: ns, h => by
    cases n <;> simp_all [hasTopBreak, topBreakEv] <;> exact topBreakEv_noBreak ns (by assumption)

/-- forests without top-level break: the relation of their `expL` suffices -/
theorem FEq.of_noBreak {c c' : CallFn} {f f' : List Node} (h : hasTopBreak f = false)
    (h' : hasTopBreak f' = false) (hl : ∀ d d', ResRel (expL c d true f) (expL c' d' true f')) :
    FEq c c' f f' := by
  refine ⟨?_, ?_, by rw [h, h'], by rw [topBreakEv_noBreak f h, topBreakEv_noBreak f' h']⟩
  · intro d d' b
    rw [expL_inLoop c d b true f h, expL_inLoop c' d' b true f' h']
    exact hl d d'
  · intro d d'
    rw [expPre_noBreak c d f h, expPre_noBreak c' d' f' h']
    exact hl d d'

/-- `r` repeated `n` times -/
def repRes : Nat → Res → Res
  | 0, _ => .ok []
  | n + 1, r => Expand.seq r (repRes n r)

theorem repRes_ok (n : Nat) (x : List Item) : repRes n (.ok x) = .ok (repeatItems n x) := by
  induction n with
  | zero => rfl
  | succ n ih => simp [repRes, ih, Expand.seq, repeatItems]

theorem expL_replicate (c : CallFn) (d : Nat) (b : Bool) (f : List Node) (n : Nat) :
    expL c d b (List.replicate n f).flatten = repRes n (expL c d b f) := by
  induction n with
  | zero => simp [repRes, expL]
  | succ n ih => simp only [List.replicate_succ, List.flatten_cons, expL_append, ih, repRes]

theorem hasTopBreak_replicate (f : List Node) (h : hasTopBreak f = false) (n : Nat) :
    hasTopBreak (List.replicate n f).flatten = false := by
  induction n with
  | zero => simp [hasTopBreak]
  | succ n ih => simp [List.replicate_succ, hasTopBreak_append, h, ih]

theorem closedL_replicate (f : List Node) (h : closedL f) (n : Nat) :
    closedL (List.replicate n f).flatten := by
  induction n with
  | zero => simp [closedL]
  | succ n ih => simp [List.replicate_succ, closedL_append, h, ih]

/-- the phrase `A0 A1`, `k` more copies of it, and the prefix `A0` again -/
def foldSrc (A0 A1 : List Node) (k : Nat) : List Node :=
  (A0 ++ A1) ++ (List.replicate k (A0 ++ A1)).flatten ++ A0

/-- what the optimiser writes for it: `[ A0 / A1 ](k+2)` -/
def foldDst (A0 A1 : List Node) (ls lb le : Event) : List Node :=
  [.loop ls (A0 ++ .brk lb :: A1) le]

theorem foldSrc_noBreak {A0 A1 : List Node} (h0 : hasTopBreak A0 = false) (h1 : hasTopBreak A1 = false)
    (k : Nat) : hasTopBreak (foldSrc A0 A1 k) = false := by
  have hA : hasTopBreak (A0 ++ A1) = false := by simp [hasTopBreak_append, h0, h1]
  simp [foldSrc, hasTopBreak_append, h0, h1, hasTopBreak_replicate _ hA]

theorem foldSrc_closed {A0 A1 : List Node} (h0 : closedL A0) (h1 : closedL A1) (k : Nat) :
    closedL (foldSrc A0 A1 k) := by
  have hA : closedL (A0 ++ A1) := (closedL_append _ _).2 ⟨h0, h1⟩
  simp [foldSrc, closedL_append, h0, h1, closedL_replicate _ hA]

theorem foldDst_closed {A0 A1 : List Node} (h0 : closedL A0) (h1 : closedL A1) {ls lb le : Event}
    (hls : ls.kind = .loopStart) (hlb : lb.kind = .loopBreak) (hle : le.kind = .loopEnd) :
    closedL (foldDst A0 A1 ls lb le) := by
  simp [foldDst, closedL, Node.closed, closedL_append, h0, h1, hls, hlb, hle]

theorem fold_FEq {c c' : CallFn} (hc : CallRel c c') (A0 A1 : List Node) (k : Nat) (ls lb le : Event)
    (h0 : hasTopBreak A0 = false) (h1 : hasTopBreak A1 = false)
    (hls : ls.kind = .loopStart) (hlb : lb.kind = .loopBreak) (hle : le.kind = .loopEnd)
    (zls : ls.on = 0 ∧ ls.off = 0) (zlb : lb.on = 0 ∧ lb.off = 0) (zle : le.on = 0 ∧ le.off = 0)
    (hcount : le.param = (k : Int) + 2) :
    FEq c c' (foldSrc A0 A1 k) (foldDst A0 A1 ls lb le) := by
  apply FEq.of_noBreak (foldSrc_noBreak h0 h1 k) (by simp [foldDst, hasTopBreak])
  intro d d'
  have sls : Silent (item ls) := silent_item (Or.inl hls) zls.1 zls.2
  have slb : Silent (item lb) := silent_item (Or.inr (Or.inr (Or.inl hlb))) zlb.1 zlb.2
  have sle : Silent (item le) := silent_item (Or.inr (Or.inl hle)) zle.1 zle.2
  have slast : Silent { ev := le, src := lb } := by
    refine ⟨Or.inr (Or.inl hle), by simp [zlb.1, zlb.2], ?_⟩
    show lb.kind ≠ .segno
    simp [hlb]
  have hn : le.param.toNat = k + 2 := by rw [hcount]; omega
  have hnn : ¬ le.param < 0 := by rw [hcount]; omega
  have r0 := (FEq.rfl' hc A0).l d (d' + 1) true
  have r1 := (FEq.rfl' hc A1).l d (d' + 1) true
  -- right-hand side
  simp only [foldDst, expL_single, expN_loop]
  by_cases h2 : d' ≥ limit
  · simp only [h2, if_true]; exact ResRel.depth _
  simp only [h2, if_false]
  have hbody : hasTopBreak (A0 ++ Node.brk lb :: A1) = true := by simp [hasTopBreak_append, hasTopBreak]
  have htb : topBreakEv (A0 ++ Node.brk lb :: A1) = lb := by simp [topBreakEv_append, h0, topBreakEv]
  have hpre : expPre c' (d' + 1) (A0 ++ Node.brk lb :: A1) = expL c' (d' + 1) true A0 := by
    simp [expPre_append, h0, expPre, seq_nil_right]
  have hfull : expL c' (d' + 1) true (A0 ++ Node.brk lb :: A1)
      = Expand.seq (expL c' (d' + 1) true A0) (Expand.seq (.ok [item lb]) (expL c' (d' + 1) true A1)) := by
    simp [expL_append, expL_cons, expN]
  rw [hbody, htb, hpre, hfull]
  -- left-hand side
  simp only [foldSrc, expL_append, expL_replicate]
  cases hx0 : expL c d true A0 with
  | error e => simp only [Expand.seq]; exact ResRel.err _ _
  | ok a0 =>
    cases hx1 : expL c d true A1 with
    | error e => simp only [Expand.seq]; exact ResRel.err _ _
    | ok a1 =>
      rw [hx0] at r0
      rw [hx1] at r1
      cases hy0 : expL c' (d' + 1) true A0 with
      | error e' =>
        rw [hy0] at r0
        have : e' = .depth := r0
        subst this
        simp only [Expand.seq]
        exact ResRel.depth _
      | ok a0' =>
        cases hy1 : expL c' (d' + 1) true A1 with
        | error e' =>
          rw [hy1] at r1
          have : e' = .depth := r1
          subst this
          simp only [Expand.seq]
          exact ResRel.depth _
        | ok a1' =>
          rw [hy0] at r0
          rw [hy1] at r1
          have q0 : OEq a0 a0' := r0
          have q1 : OEq a1 a1' := r1
          simp only [Expand.seq, repRes_ok, loopOut, hnn, if_false, hn]
          have hk : ¬ (k + 2 ≤ 1) := by omega
          simp only [hk, if_false, if_true]
          have hk1 : k + 2 - 1 = k + 1 := by omega
          rw [hk1]
          show OEq _ _
          have hl : OEq (a0 ++ a1) (a0' ++ ([item lb] ++ a1') ++ [item le]) :=
            OEq.trans (OEq.append q0 (OEq.silent_cons_right slb q1)) (OEq.symm (OEq.silent_snoc sle _))
          apply OEq.silent_cons_right sls
          show OEq (a0 ++ a1 ++ repeatItems k (a0 ++ a1) ++ a0) _
          exact OEq.append (OEq.append hl (OEq.rep hl k))
            (OEq.trans q0 (OEq.symm (OEq.silent_snoc slast _)))

/-- the variant without remainder: `k+1` copies of `A` become `[ A ](k+1)` -/
theorem fold0_FEq {c c' : CallFn} (hc : CallRel c c') (A : List Node) (k : Nat) (ls le : Event)
    (h0 : hasTopBreak A = false)
    (hls : ls.kind = .loopStart) (hle : le.kind = .loopEnd)
    (zls : ls.on = 0 ∧ ls.off = 0) (zle : le.on = 0 ∧ le.off = 0)
    (hcount : le.param = (k : Int) + 1) :
    FEq c c' (List.replicate (k + 1) A).flatten [.loop ls A le] := by
  apply FEq.of_noBreak (hasTopBreak_replicate A h0 _) (by simp [hasTopBreak])
  intro d d'
  have sls : Silent (item ls) := silent_item (Or.inl hls) zls.1 zls.2
  have sle : Silent (item le) := silent_item (Or.inr (Or.inl hle)) zle.1 zle.2
  have hn : le.param.toNat = k + 1 := by rw [hcount]; omega
  have hnn : ¬ le.param < 0 := by rw [hcount]; omega
  have r0 := (FEq.rfl' hc A).l d (d' + 1) true
  simp only [expL_single, expN_loop, expL_replicate]
  by_cases h2 : d' ≥ limit
  · simp only [h2, if_true]; exact ResRel.depth _
  simp only [h2, if_false]
  cases hx : expL c d true A with
  | error e => simp only [repRes, Expand.seq]; exact ResRel.err _ _
  | ok a =>
    rw [hx] at r0
    cases hy : expL c' (d' + 1) true A with
    | error e' =>
      rw [hy] at r0
      have : e' = .depth := r0
      subst this
      exact ResRel.depth _
    | ok a' =>
      rw [hy] at r0
      have q : OEq a a' := r0
      have hl : OEq a (a' ++ [item le]) := OEq.trans q (OEq.symm (OEq.silent_snoc sle _))
      simp only [repRes_ok, loopOut, hnn, if_false, hn, h0]
      by_cases hk : k + 1 ≤ 1
      · have : k = 0 := by omega
        subst this
        simp only [hk, if_true]
        show OEq _ _
        apply OEq.silent_cons_right sls
        simpa [repeatItems] using hl
      · simp only [hk, if_false, Bool.false_eq_true]
        show OEq _ _
        apply OEq.silent_cons_right sls
        exact OEq.rep hl _

/-! ## subroutine extraction -/

theorem ResRel.silent_call {r r' : Res} {i : Item} (hi : Silent i) (h : ResRel r r') :
    ResRel r (Expand.seq (.ok [i]) r') := by
  cases r with
  | error e => exact ResRel.err _ _
  | ok x =>
    cases r' with
    | error e' =>
      have : e' = .depth := h
      subst this
      simp only [Expand.seq]
      exact ResRel.depth _
    | ok y =>
      simp only [Expand.seq]
      exact OEq.silent_cons_right hi h

theorem extract_FEq (S S' : Song) (X : List Node) (j : Event) (k k' : Nat)
    (hXc : closedL X) (hXb : hasTopBreak X = false)
    (hj : j.kind = .jump) (zj : j.on = 0 ∧ j.off = 0)
    (hnew : S'.track? (trackIdOfParam j.param) = some (flattenL X))
    (hlt : ∀ i, i < k' → ∀ k, CallRel (callK S k) (callK S' i)) :
    FEq (callK S k) (callK S' k') X [.ev j] := by
  apply FEq.of_noBreak hXb (by simp [hasTopBreak])
  intro d d'
  have sj : Silent (item j) := silent_item (Or.inr (Or.inr (Or.inr hj))) zj.1 zj.2
  simp only [expL_single, expN, hj]
  cases k' with
  | zero => simp only [callK, Expand.seq]; exact ResRel.depth _
  | succ k' =>
    simp only [callK]
    by_cases h2 : d' ≥ limit
    · simp only [h2, if_true, Expand.seq]; exact ResRel.depth _
    · simp only [h2, if_false, hnew, parse_flattenL X hXc]
      apply ResRel.silent_call sj
      have := (FEq.rfl' (hlt k' (Nat.lt_succ_self _) k) X).l d (d' + 1) false
      rwa [expL_inLoop _ d false true X hXb] at this


/-! ## 6. track maps -/

/-- every track of `S` is still a track of `S'`, equal up to replacing `X` by `X'` at any
number of places -/
def SongRel (X X' : List Node) (S S' : Song) : Prop :=
  ∀ id evs, S.track? id = some evs → ∃ evs', S'.track? id = some evs' ∧ ERel X X' evs evs'

abbrev Tracks := List (Nat × List Event)

/-- two track lists with the same ids in the same order and pairwise related event lists -/
inductive TracksRel (R : List Event → List Event → Prop) : Tracks → Tracks → Prop
  | nil : TracksRel R [] []
  | cons (id : Nat) {a b : List Event} {l l' : Tracks} : R a b → TracksRel R l l' →
      TracksRel R ((id, a) :: l) ((id, b) :: l')

theorem TracksRel.refl {R : List Event → List Event → Prop} (hR : ∀ l, R l l) : ∀ ts : Tracks, TracksRel R ts ts
  | [] => .nil
  | (id, a) :: l => .cons id (hR a) (TracksRel.refl hR l)

theorem TracksRel.append {R : List Event → List Event → Prop} {a a' b b' : Tracks}
    (h1 : TracksRel R a a') (h2 : TracksRel R b b') : TracksRel R (a ++ b) (a' ++ b') := by
  induction h1 with
  | nil => exact h2
  | cons id hr _ ih => exact .cons id hr ih

/-- one track replaced -/
theorem TracksRel.one {R : List Event → List Event → Prop} (hR : ∀ l, R l l) (l1 l2 : Tracks) (tid : Nat)
    {a b : List Event} (h : R a b) : TracksRel R (l1 ++ (tid, a) :: l2) (l1 ++ (tid, b) :: l2) :=
  TracksRel.append (TracksRel.refl hR l1) (.cons tid h (TracksRel.refl hR l2))

theorem TracksRel.lookup {R : List Event → List Event → Prop} {ts ts' : Tracks} (h : TracksRel R ts ts')
    (id : Nat) : (ts.lookup id = none ∧ ts'.lookup id = none) ∨
      ∃ a b, ts.lookup id = some a ∧ ts'.lookup id = some b ∧ R a b := by
  induction h with
  | nil => left; simp [List.lookup]
  | cons k hr _ ih =>
    by_cases hk : id = k
    · right; subst hk; exact ⟨_, _, by simp [List.lookup], by simp [List.lookup], hr⟩
    · have : (id == k) = false := by simpa using hk
      simpa [List.lookup, this] using ih

theorem lookup_insert_ne (m1 m2 : Tracks) (nid : Nat) (v : List Event) (id : Nat) (h : id ≠ nid) :
    (m1 ++ (nid, v) :: m2).lookup id = (m1 ++ m2).lookup id := by
  have : (id == nid) = false := by simpa using h
  simp [List.lookup_append, List.lookup, this]

theorem lookup_insert_eq (m1 m2 : Tracks) (nid : Nat) (v : List Event)
    (h : (m1 ++ m2).lookup nid = none) : (m1 ++ (nid, v) :: m2).lookup nid = some v := by
  rw [List.lookup_append] at h ⊢
  cases h1 : m1.lookup nid with
  | some x => simp [h1] at h
  | none => simp [List.lookup]

theorem SongRel.of_tracks {X X' : List Node} {S S' : Song}
    (h : TracksRel (ERel X X') S.tracks S'.tracks) : SongRel X X' S S' := by
  intro id evs he
  rcases h.lookup id with ⟨h1, _⟩ | ⟨a, b, h1, h2, hr⟩
  · simp [Song.track?, h1] at he
  · simp only [Song.track?, h1, Option.some.injEq] at he
    subst he
    exact ⟨b, h2, hr⟩

/-- the rewritten track list with a fresh track inserted anywhere -/
theorem SongRel.of_tracks_insert {X X' : List Node} {S S' : Song} {m1 m2 : Tracks} {nid : Nat} {v : List Event}
    (h : TracksRel (ERel X X') S.tracks (m1 ++ m2)) (hS' : S'.tracks = m1 ++ (nid, v) :: m2)
    (hfresh : S.track? nid = none) :
    SongRel X X' S S' ∧ S'.track? nid = some v := by
  constructor
  · intro id evs he
    have hne : id ≠ nid := by
      intro h; subst h; simp [hfresh] at he
    rcases h.lookup id with ⟨h1, _⟩ | ⟨a, b, h1, h2, hr⟩
    · simp [Song.track?, h1] at he
    · simp only [Song.track?, h1, Option.some.injEq] at he
      subst he
      exact ⟨b, by simp only [Song.track?, hS', lookup_insert_ne _ _ _ _ _ hne, h2], hr⟩
  · rcases h.lookup nid with ⟨_, h2⟩ | ⟨a, b, h1, _, _⟩
    · simp only [Song.track?, hS']
      exact lookup_insert_eq _ _ _ _ h2
    · simp [Song.track?, h1] at hfresh

end Ctrmml.Rewrite
