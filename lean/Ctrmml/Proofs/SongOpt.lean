/-
  Composition of C01 (optimisation preserves the observation `obs`) with C02 (the bytes play
  `Timeline.expected`): `Timeline.expected` depends on a performance only through its observation
  (`Spec/Played.obs`), given that the drum routines a note in drum mode names resolve alike.

  * `routineOf song pf p` = what `Timeline.ticksOf` computes for a drum-mode note with parameter `p`;
  * `ticksP`, `afterSegnoP`, `drumAtP`, `expectedP` = `Timeline.ticksOf`, `afterSegno`, `drumAt`,
    `expected` over the played projection;
  * `ticksOf_played`, `drumAt_played`, `afterSegno_played`, `expected_eq_expectedP`: the factorisations;
  * `perf_good`: in a performance an item reads a loop point iff the hook is shown one (needed for
    `afterSegno`, which looks at `src`, while `played` shows `ev`);
  * `expectedP_congr` / `expectedP_noDrum`: `expectedP` does not depend on the routine resolver beyond the
    `NOTE` parameters that occur / at all if no `DRUM_MODE` entry occurs; `DrumAlike` combines the two;
  * `expected_congr`: the result;
  * `track?_of_mem`: lookup in a song with ascending ids.
  Depends only on Spec/Expand, Spec/Played, Spec/Timeline.
-/
import Ctrmml.Spec.Timeline
import Ctrmml.Spec.Played
namespace Ctrmml.SongOpt
open Ctrmml Ctrmml.Tree Ctrmml.Expand Ctrmml.Seq Tables

/-- one entry of the played projection: event type, parameter, on time, off time -/
abbrev Q := Nat × Int × Nat × Nat

/-- what a note with parameter `p` met in drum mode resolves to (`Timeline.ticksOf`): the routine
track is expanded as a call from depth 1, its commands up to its first note and that note's number -/
def routineOf (song : Song) (pf : Timeline.Platform) (p : Int) : Except SErr (List Tk × Int) :=
  match callK song limit 1 (trackIdOfParam p) with
  | .error x => .error x
  | .ok ritems =>
    match Timeline.routineHead pf ritems with
    | none => .error .structure
    | some r => .ok r

/-- the ticks of one entry and the drum-mode state after it -/
def hereP (R : Int → Except SErr (List Tk × Int)) (pf : Timeline.Platform) (drum : Bool) (q : Q) :
    Except SErr (List Tk × Bool) :=
  if q.1 = ev_NOTE then
    if drum then
      match R q.2.1 with
      | .error x => .error x
      | .ok r => .ok (r.1 ++ Timeline.noteTicks r.2 q.2.2.1 q.2.2.2, drum)
    else .ok (Timeline.noteTicks q.2.1 q.2.2.1 q.2.2.2, drum)
  else if q.1 = ev_TIE then .ok (List.replicate q.2.2.1 Tk.hold ++ List.replicate q.2.2.2 Tk.off, drum)
  else if q.1 = ev_REST then .ok (List.replicate (q.2.2.1 + q.2.2.2) Tk.off, drum)
  else if q.1 = ev_DRUM_MODE then .ok (Timeline.cmdOf pf ⟨q.1, q.2.1, 0, 0⟩, q.2.1 ≠ 0)
  else .ok (Timeline.cmdOf pf ⟨q.1, q.2.1, 0, 0⟩ ++ List.replicate (q.2.2.1 + q.2.2.2) Tk.off, drum)

/-- `Timeline.ticksOf` over the played projection, drum routines resolved by `R` -/
def ticksP (R : Int → Except SErr (List Tk × Int)) (pf : Timeline.Platform) : Bool → List Q → Except SErr (List Tk)
  | _, [] => .ok []
  | drum, q :: qs =>
    match hereP R pf drum q with
    | .error x => .error x
    | .ok (t, drum') =>
      match ticksP R pf drum' qs with
      | .error x => .error x
      | .ok rest => .ok (t ++ rest)

/-- `Timeline.afterSegno` over the played projection -/
def afterSegnoP : List Q → Option (List Q)
  | [] => none
  | q :: qs =>
    match afterSegnoP qs with
    | some r => some r
    | none => if q.1 = ev_SEGNO then some qs else none

/-- `Timeline.drumAt` over the played projection -/
def drumAtP (d : Bool) : List Q → Bool
  | [] => d
  | q :: qs => drumAtP (if q.1 = ev_DRUM_MODE then q.2.1 ≠ 0 else d) qs

/-- `Timeline.expected` as a function of the observation -/
def expectedP (R : Int → Except SErr (List Tk × Int)) (pf : Timeline.Platform) (pl : List Q) (tot : Nat)
    (lt : Option Nat) : Except SErr (List Tk) :=
  match ticksP R pf false pl with
  | .error x => .error x
  | .ok all =>
    match afterSegnoP pl, lt with
    | some suffix, some t =>
      if tot = t then .ok all
      else
        match ticksP R pf (drumAtP false pl) suffix with
        | .error x => .error x
        | .ok again => .ok (all ++ [Tk.loopMark] ++ again)
    | _, _ => .ok all

/-! ### brackets, breaks and calls are silent -/

/-- the kinds `playedItem` hides -/
def Bracket (e : Event) : Prop :=
  e.kind = .loopStart ∨ e.kind = .loopEnd ∨ e.kind = .loopBreak ∨ e.kind = .jump

theorem bracket_type {e : Event} (h : Bracket e) :
    e.type = ev_LOOP_START ∨ e.type = ev_LOOP_END ∨ e.type = ev_LOOP_BREAK ∨ e.type = ev_JUMP := by
  unfold Bracket Event.kind kindOfType at h
  by_cases h1 : e.type = ev_LOOP_START
  · exact .inl h1
  by_cases h2 : e.type = ev_LOOP_BREAK
  · exact .inr (.inr (.inl h2))
  by_cases h3 : e.type = ev_LOOP_END
  · exact .inr (.inl h3)
  by_cases h5 : e.type = ev_JUMP
  · exact .inr (.inr (.inr h5))
  simp only [h1, h2, h3, h5, if_false] at h
  split at h
  · simp at h
  · split at h <;> simp at h

theorem segno_type {e : Event} : e.kind = .segno ↔ e.type = ev_SEGNO := by
  unfold Event.kind kindOfType
  constructor
  · intro h
    by_cases h4 : e.type = ev_SEGNO
    · exact h4
    · exfalso
      simp only [h4, if_false] at h
      repeat (split at h <;> try simp at h)
  · intro h
    rw [h]; decide

theorem not_bracket_of_segno {e : Event} (h : e.kind = .segno) : ¬ Bracket e := by
  unfold Bracket; rw [h]; simp

/-- what `Timeline.ticksOf` does with one item -/
def hereOf (song : Song) (pf : Timeline.Platform) (drum : Bool) (i : Item) : Except SErr (List Tk × Bool) :=
  hereP (routineOf song pf) pf drum (i.ev.type, i.ev.param, i.src.on, i.src.off)

theorem ticksOf_cons (song : Song) (pf : Timeline.Platform) (drum : Bool) (i : Item) (is : List Item) :
    Timeline.ticksOf song pf drum (i :: is) =
      match hereOf song pf drum i with
      | .error x => .error x
      | .ok (t, drum') =>
        match Timeline.ticksOf song pf drum' is with
        | .error x => .error x
        | .ok rest => .ok (t ++ rest) := by
  have : hereOf song pf drum i =
      (if i.ev.type = ev_NOTE then
        if drum then
          match callK song limit 1 (trackIdOfParam i.ev.param) with
          | .error x => .error x
          | .ok ritems =>
            match Timeline.routineHead pf ritems with
            | none => .error .structure
            | some (cmds, n) => .ok (cmds ++ Timeline.noteTicks n i.src.on i.src.off, drum)
        else .ok (Timeline.noteTicks i.ev.param i.src.on i.src.off, drum)
      else if i.ev.type = ev_TIE then .ok (List.replicate i.src.on Tk.hold ++ List.replicate i.src.off Tk.off, drum)
      else if i.ev.type = ev_REST then .ok (List.replicate (i.src.on + i.src.off) Tk.off, drum)
      else if i.ev.type = ev_DRUM_MODE then .ok (Timeline.cmdOf pf i.ev, i.ev.param ≠ 0)
      else .ok (Timeline.cmdOf pf i.ev ++ List.replicate (i.src.on + i.src.off) Tk.off, drum)) := by
    have hc : Timeline.cmdOf pf ⟨i.ev.type, i.ev.param, 0, 0⟩ = Timeline.cmdOf pf i.ev := rfl
    simp only [hereOf, hereP, routineOf, hc]
    by_cases h1 : i.ev.type = ev_NOTE
    · simp only [h1, if_true]
      cases drum
      · rfl
      · simp only [if_true]
        cases callK song limit 1 (trackIdOfParam i.ev.param) with
        | error x => rfl
        | ok ritems =>
          simp only
          cases Timeline.routineHead pf ritems with
          | none => rfl
          | some r => rfl
    · simp only [h1, if_false]
  rw [this]
  rfl

theorem hereOf_bracket (song : Song) (pf : Timeline.Platform) (drum : Bool) (i : Item) (h : Bracket i.ev) :
    hereOf song pf drum i = .ok (List.replicate (i.src.on + i.src.off) Tk.off, drum) := by
  rcases bracket_type h with t | t | t | t <;>
    simp +decide [hereOf, hereP, t, Timeline.cmdOf]

theorem hereP_nop (R : Int → Except SErr (List Tk × Int)) (pf : Timeline.Platform) (drum : Bool) (on off : Nat) :
    hereP R pf drum (ev_NOP, 0, on, off) = .ok (List.replicate (on + off) Tk.off, drum) := by
  simp +decide [hereP, Timeline.cmdOf]

theorem playedItem_bracket {i : Item} (h : Bracket i.ev) :
    playedItem i = if i.src.on + i.src.off = 0 then none else some (ev_NOP, 0, i.src.on, i.src.off) := by
  unfold Bracket at h
  simp only [playedItem, h, if_true]

theorem playedItem_other {i : Item} (h : ¬ Bracket i.ev) :
    playedItem i = some (i.ev.type, i.ev.param, i.src.on, i.src.off) := by
  unfold Bracket at h
  simp only [playedItem, h, if_false]

/-- **the ticks of a performance are a function of its played projection** -/
theorem ticksOf_played (song : Song) (pf : Timeline.Platform) : ∀ (items : List Item) (drum : Bool),
    Timeline.ticksOf song pf drum items = ticksP (routineOf song pf) pf drum (played items)
  | [], _ => rfl
  | i :: is, drum => by
    rw [ticksOf_cons]
    by_cases hb : Bracket i.ev
    · rw [hereOf_bracket song pf drum i hb]
      simp only [played, List.filterMap_cons, playedItem_bracket hb]
      by_cases h0 : i.src.on + i.src.off = 0
      · simp only [h0, if_true, List.replicate_zero, List.nil_append]
        rw [ticksOf_played song pf is drum]
        simp only [played]
        cases ticksP (routineOf song pf) pf drum (List.filterMap playedItem is) <;> rfl
      · simp only [h0, if_false, ticksP, hereP_nop]
        rw [ticksOf_played song pf is drum]
        rfl
    · simp only [played, List.filterMap_cons, playedItem_other hb, ticksP]
      have hh : hereP (routineOf song pf) pf drum (i.ev.type, i.ev.param, i.src.on, i.src.off) =
          hereOf song pf drum i := rfl
      rw [hh]
      cases hereOf song pf drum i with
      | error x => rfl
      | ok r =>
        obtain ⟨t, drum'⟩ := r
        simp only
        rw [ticksOf_played song pf is drum']
        rfl

theorem drumAt_played : ∀ (items : List Item) (d : Bool), Timeline.drumAt d items = drumAtP d (played items)
  | [], _ => rfl
  | i :: is, d => by
    by_cases hb : Bracket i.ev
    · have ht : ¬ i.ev.type = ev_DRUM_MODE := by
        rcases bracket_type hb with t | t | t | t <;> rw [t] <;> decide
      simp only [Timeline.drumAt, ht, if_false, played, List.filterMap_cons, playedItem_bracket hb]
      by_cases h0 : i.src.on + i.src.off = 0
      · simp only [h0, if_true]
        exact drumAt_played is d
      · have : ¬ ev_NOP = ev_DRUM_MODE := by decide
        simp only [h0, if_false, drumAtP, this]
        exact drumAt_played is d
    · simp only [Timeline.drumAt, played, List.filterMap_cons, playedItem_other hb, drumAtP]
      exact drumAt_played is _

/-- an item reads a loop point iff the hook is shown one -/
def Good (i : Item) : Prop := i.src.kind = .segno ↔ i.ev.kind = .segno

theorem afterSegno_played : ∀ (items : List Item), (∀ i ∈ items, Good i) →
    (Timeline.afterSegno items).map played = afterSegnoP (played items)
  | [], _ => rfl
  | i :: is, hg => by
    have ih := afterSegno_played is (fun j hj => hg j (List.mem_cons_of_mem _ hj))
    have hgi : Good i := hg i (List.mem_cons_self ..)
    simp only [Timeline.afterSegno]
    by_cases hb : Bracket i.ev
    · have hs : ¬ i.src.kind = .segno := fun h => not_bracket_of_segno (hgi.1 h) hb
      simp only [hs, if_false, played, List.filterMap_cons, playedItem_bracket hb]
      by_cases h0 : i.src.on + i.src.off = 0
      · simp only [h0, if_true]
        rw [← played, ← ih]
        cases Timeline.afterSegno is <;> rfl
      · have : ¬ ev_NOP = ev_SEGNO := by decide
        simp only [h0, if_false, afterSegnoP, this]
        rw [← played, ← ih]
        cases Timeline.afterSegno is <;> rfl
    · simp only [played, List.filterMap_cons, playedItem_other hb, afterSegnoP]
      rw [← played, ← ih]
      cases Timeline.afterSegno is with
      | some r => rfl
      | none =>
        simp only [Option.map_none]
        by_cases hs : i.src.kind = .segno
        · have : i.ev.type = ev_SEGNO := segno_type.1 (hgi.1 hs)
          simp only [hs, this, if_true, Option.map_some]
        · have : ¬ i.ev.type = ev_SEGNO := fun h => hs (hgi.2 (segno_type.2 h))
          simp only [hs, this, if_false, Option.map_none]

/-! ### in a performance, `src` is a loop point iff `ev` is -/

/-- the kinds the bracket matcher guarantees: a break node holds a `LOOP_BREAK`, a loop ends with a `LOOP_END` -/
def KN : Node → Prop
  | .ev _ => True
  | .brk e => e.kind = .loopBreak
  | .loop _ b le => (∀ n ∈ b, KN n) ∧ le.kind = .loopEnd
  | .strayEnd _ => True
  | .openLoop _ b => ∀ n ∈ b, KN n

def KL (l : List Node) : Prop := ∀ n ∈ l, KN n

theorem KN_ev (e : Event) : KN (.ev e) := by simp [KN]
theorem KN_stray (e : Event) : KN (.strayEnd e) := by simp [KN]
theorem KN_brk {e : Event} : KN (.brk e) ↔ e.kind = .loopBreak := by simp [KN]
theorem KN_loop {ls le : Event} {b : List Node} : KN (.loop ls b le) ↔ KL b ∧ le.kind = .loopEnd := by simp [KN, KL]
theorem KN_open {ls : Event} {b : List Node} : KN (.openLoop ls b) ↔ KL b := by simp [KN, KL]

theorem KL_nil : KL [] := fun _ h => by simp at h
theorem KL_cons {n : Node} {l : List Node} : KL (n :: l) ↔ KN n ∧ KL l := by simp [KL]
theorem KL_reverse {l : List Node} : KL l.reverse ↔ KL l := by simp [KL]

theorem closeAll_KL : ∀ (st : List (Event × List Node)) (cur : List Node), (∀ p ∈ st, KL p.2) → KL cur → KL (closeAll st cur)
  | [], cur, _, hc => by simpa [closeAll, KL_reverse] using hc
  | (ls, outer) :: st, cur, hs, hc => by
    simp only [closeAll]
    refine closeAll_KL st _ (fun p hp => hs p (List.mem_cons_of_mem _ hp)) (KL_cons.2 ⟨?_, hs (ls, outer) (List.mem_cons_self ..)⟩)
    exact KN_open.2 (KL_reverse.2 hc)

theorem parseAux_KL : ∀ (l : List Event) (st : List (Event × List Node)) (cur : List Node), (∀ p ∈ st, KL p.2) → KL cur →
    KL (parseAux st cur l)
  | [], st, cur, hs, hc => by simpa [parseAux] using closeAll_KL st cur hs hc
  | e :: rest, st, cur, hs, hc => by
    cases hk : e.kind <;> simp only [parseAux, hk]
    case loopStart =>
      refine parseAux_KL rest _ [] (fun p hp => ?_) KL_nil
      rcases List.mem_cons.mp hp with h | h
      · subst h; exact hc
      · exact hs p h
    case loopEnd =>
      cases st with
      | nil => exact parseAux_KL rest [] _ hs (KL_cons.2 ⟨KN_stray e, hc⟩)
      | cons p st' =>
        obtain ⟨ls, outer⟩ := p
        refine parseAux_KL rest st' _ (fun p hp => hs p (List.mem_cons_of_mem _ hp)) (KL_cons.2 ⟨?_, hs (ls, outer) (List.mem_cons_self ..)⟩)
        exact KN_loop.2 ⟨KL_reverse.2 hc, hk⟩
    case loopBreak => exact parseAux_KL rest st _ hs (KL_cons.2 ⟨KN_brk.2 hk, hc⟩)
    all_goals exact parseAux_KL rest st _ hs (KL_cons.2 ⟨KN_ev e, hc⟩)

theorem parse_KL (l : List Event) : KL (parse l) :=
  parseAux_KL l [] [] (fun _ h => by simp at h) KL_nil

theorem seq_ok {a b : Except SErr (List Item)} {z : List Item} (h : Expand.seq a b = .ok z) :
    ∃ x y, a = .ok x ∧ b = .ok y ∧ z = x ++ y := by
  cases a with
  | error e => simp [Expand.seq] at h
  | ok x =>
    cases b with
    | error e => simp [Expand.seq] at h
    | ok y => simp [Expand.seq] at h; exact ⟨x, y, rfl, rfl, h.symm⟩

theorem mem_repeatItems {k : Nat} {l : List Item} {i : Item} (h : i ∈ repeatItems k l) : i ∈ l := by
  induction k with
  | zero => simp [repeatItems] at h
  | succ k ih =>
    simp only [repeatItems, List.mem_append] at h
    rcases h with h | h
    · exact h
    · exact ih h

theorem good_item (e : Event) : Good (item e) := Iff.rfl

theorem topBreakEv_kind : ∀ (f : List Node), KL f → hasTopBreak f = true → (topBreakEv f).kind = .loopBreak
  | [], _, h => by simp [hasTopBreak] at h
  | .brk e :: ns, hk, _ => KN_brk.1 (KL_cons.1 hk).1
  | .ev e :: ns, hk, h => by simpa [topBreakEv] using topBreakEv_kind ns (KL_cons.1 hk).2 (by simpa [hasTopBreak] using h)
  | .loop ls b le :: ns, hk, h => by simpa [topBreakEv] using topBreakEv_kind ns (KL_cons.1 hk).2 (by simpa [hasTopBreak] using h)
  | .strayEnd e :: ns, hk, h => by simpa [topBreakEv] using topBreakEv_kind ns (KL_cons.1 hk).2 (by simpa [hasTopBreak] using h)
  | .openLoop ls b :: ns, hk, h => by simpa [topBreakEv] using topBreakEv_kind ns (KL_cons.1 hk).2 (by simpa [hasTopBreak] using h)

/-- every item a call yields is `Good` -/
def CallGood (call : Nat → Nat → Except SErr (List Item)) : Prop :=
  ∀ d id its, call d id = .ok its → ∀ i ∈ its, Good i

mutual
theorem good_N (call : Nat → Nat → Except SErr (List Item)) (hc : CallGood call) : ∀ (n : Node), KN n →
    ∀ (d : Nat) (il : Bool) (items : List Item), Expand.expN call d il n = .ok items → ∀ i ∈ items, Good i
  | .ev e, _, d, il, items, hx => by
    cases hk : e.kind <;> simp only [expN, hk] at hx
    case jump =>
      obtain ⟨x, y, hx1, hy, rfl⟩ := seq_ok hx
      simp only [Except.ok.injEq] at hx1; subst hx1
      intro i hi
      rcases List.mem_append.mp hi with h | h
      · simp at h; subst h; exact good_item e
      · exact hc _ _ y hy i h
    all_goals (simp only [Except.ok.injEq] at hx; subst hx; intro i hi; simp at hi; subst hi; exact good_item e)
  | .brk e, _, d, il, items, hx => by
    cases il <;> simp [expN] at hx
    subst hx; intro i hi; simp at hi; subst hi; exact good_item e
  | .strayEnd e, _, _, _, _, hx => by simp [expN] at hx
  | .openLoop ls b, _, _, _, _, hx => by simp [expN] at hx
  | .loop ls body le, hn, d, il, items, hx => by
    have hkb : KL body := (KN_loop.1 hn).1
    have hle : le.kind = .loopEnd := (KN_loop.1 hn).2
    simp only [expN] at hx
    by_cases hf : d ≥ limit
    · simp [hf] at hx
    simp only [hf, if_false] at hx
    cases hfull : Expand.expL call (d + 1) true body with
    | error x => rw [hfull] at hx; simp at hx
    | ok full =>
      rw [hfull] at hx
      simp only at hx
      have hfl := good_L call hc body hkb (d + 1) true full hfull
      by_cases hneg : le.param < 0
      · simp [hneg] at hx
      simp only [hneg, if_false] at hx
      have hstep : ∀ i ∈ full ++ [item le], Good i := by
        intro i hi
        rcases List.mem_append.mp hi with h | h
        · exact hfl i h
        · simp at h; subst h; exact good_item le
      by_cases hn1 : le.param.toNat ≤ 1
      · simp only [hn1, if_true, Except.ok.injEq] at hx
        subst hx
        intro i hi
        rcases List.mem_cons.mp hi with h | h
        · subst h; exact good_item ls
        · exact hstep i h
      simp only [hn1, if_false] at hx
      by_cases hb : hasTopBreak body = true
      · simp only [hb, if_true] at hx
        cases hpre : Expand.expPre call (d + 1) body with
        | error x => rw [hpre] at hx; simp at hx
        | ok pre =>
          rw [hpre] at hx
          simp only [Except.ok.injEq] at hx
          subst hx
          have hpl := good_P call hc body hkb (d + 1) pre hpre
          intro i hi
          rcases List.mem_cons.mp hi with h | h
          · subst h; exact good_item ls
          · rcases List.mem_append.mp h with h | h
            · exact hstep i (mem_repeatItems h)
            · rcases List.mem_append.mp h with h | h
              · exact hpl i h
              · simp at h; subst h
                have h1 := topBreakEv_kind body hkb hb
                unfold Good
                simp only [h1, hle]
                simp
      · simp only [hb, Bool.false_eq_true, if_false, Except.ok.injEq] at hx
        subst hx
        intro i hi
        rcases List.mem_cons.mp hi with h | h
        · subst h; exact good_item ls
        · exact hstep i (mem_repeatItems h)
theorem good_L (call : Nat → Nat → Except SErr (List Item)) (hc : CallGood call) : ∀ (f : List Node), KL f →
    ∀ (d : Nat) (il : Bool) (items : List Item), Expand.expL call d il f = .ok items → ∀ i ∈ items, Good i
  | [], _, _, _, items, hx => by
    simp only [expL, Except.ok.injEq] at hx; subst hx; intro i hi; simp at hi
  | n :: ns, hk, d, il, items, hx => by
    simp only [expL] at hx
    obtain ⟨x, y, hx1, hy, rfl⟩ := seq_ok hx
    intro i hi
    rcases List.mem_append.mp hi with h | h
    · exact good_N call hc n (KL_cons.1 hk).1 d il x hx1 i h
    · exact good_L call hc ns (KL_cons.1 hk).2 d il y hy i h
theorem good_P (call : Nat → Nat → Except SErr (List Item)) (hc : CallGood call) : ∀ (f : List Node), KL f →
    ∀ (d : Nat) (items : List Item), Expand.expPre call d f = .ok items → ∀ i ∈ items, Good i
  | [], _, _, items, hx => by
    simp only [expPre, Except.ok.injEq] at hx; subst hx; intro i hi; simp at hi
  | .brk e :: ns, _, _, items, hx => by
    simp only [expPre, Except.ok.injEq] at hx; subst hx; intro i hi; simp at hi
  | .ev e :: ns, hk, d, items, hx => by
    simp only [expPre] at hx
    obtain ⟨x, y, hx1, hy, rfl⟩ := seq_ok hx
    intro i hi
    rcases List.mem_append.mp hi with h | h
    · exact good_N call hc _ (KL_cons.1 hk).1 d true x hx1 i h
    · exact good_P call hc ns (KL_cons.1 hk).2 d y hy i h
  | .loop ls b le :: ns, hk, d, items, hx => by
    simp only [expPre] at hx
    obtain ⟨x, y, hx1, hy, rfl⟩ := seq_ok hx
    intro i hi
    rcases List.mem_append.mp hi with h | h
    · exact good_N call hc _ (KL_cons.1 hk).1 d true x hx1 i h
    · exact good_P call hc ns (KL_cons.1 hk).2 d y hy i h
  | .strayEnd e :: ns, hk, d, items, hx => by
    simp only [expPre] at hx
    obtain ⟨x, y, hx1, hy, rfl⟩ := seq_ok hx
    simp [expN] at hx1
  | .openLoop ls b :: ns, hk, d, items, hx => by
    simp only [expPre] at hx
    obtain ⟨x, y, hx1, hy, rfl⟩ := seq_ok hx
    simp [expN] at hx1
end

theorem callK_good (song : Song) : ∀ (k : Nat), CallGood (callK song k)
  | 0 => fun d id its h => by simp [callK] at h
  | k + 1 => fun d id its h => by
    simp only [callK] at h
    by_cases hf : d ≥ limit
    · simp [hf] at h
    simp only [hf, if_false] at h
    cases htr : song.track? id with
    | none => rw [htr] at h; simp at h
    | some evs =>
      rw [htr] at h
      exact good_L _ (callK_good song k) _ (parse_KL evs) _ _ _ h

/-- in a performance an item reads a loop point (`src`) iff the hook is shown one (`ev`) -/
theorem perf_good {song : Song} {root : List Event} {items : List Item} (h : perf song root = .ok items) :
    ∀ i ∈ items, Good i :=
  good_L _ (callK_good song limit) _ (parse_KL root) _ _ _ h

/-! ### the timeline as a function of the observation -/

/-- **`Timeline.expected` is a function of the observation of the performance** and of how drum
routines resolve -/
theorem expected_eq_expectedP (song : Song) (pf : Timeline.Platform) (root : List Event) :
    Timeline.expected song pf root =
      match perf song root with
      | .error x => .error x
      | .ok items => expectedP (routineOf song pf) pf (played items) (totalDur items) (loopTime items) := by
  unfold Timeline.expected
  cases h : perf song root with
  | error x => rfl
  | ok items =>
    simp only [expectedP]
    rw [← ticksOf_played, ← afterSegno_played items (perf_good h), ← drumAt_played]
    cases Timeline.ticksOf song pf false items with
    | error x => rfl
    | ok all =>
      simp only
      cases Timeline.afterSegno items with
      | none => rfl
      | some suffix =>
        simp only [Option.map_some]
        cases loopTime items with
        | none => rfl
        | some lt =>
          simp only
          rw [← ticksOf_played]
          rfl

/-- the drum routines the notes of a played projection name resolve alike under `R` and `R'` -/
def RoutinesAlike (R R' : Int → Except SErr (List Tk × Int)) (l : List Q) : Prop :=
  ∀ q ∈ l, q.1 = ev_NOTE → R' q.2.1 = R q.2.1

theorem ticksP_congr {R R' : Int → Except SErr (List Tk × Int)} (pf : Timeline.Platform) :
    ∀ (l : List Q) (d : Bool), RoutinesAlike R R' l → ticksP R' pf d l = ticksP R pf d l
  | [], _, _ => rfl
  | q :: qs, d, h => by
    have hq : hereP R' pf d q = hereP R pf d q := by
      unfold hereP
      by_cases h1 : q.1 = ev_NOTE
      · rw [h q (List.mem_cons_self ..) h1]
      · simp only [h1, if_false]
    simp only [ticksP, hq]
    cases hereP R pf d q with
    | error x => rfl
    | ok r =>
      simp only
      rw [ticksP_congr pf qs r.2 (fun q' hq' => h q' (List.mem_cons_of_mem _ hq'))]

theorem afterSegnoP_subset : ∀ (l : List Q) (s : List Q), afterSegnoP l = some s → ∀ q ∈ s, q ∈ l
  | [], _, h => by simp [afterSegnoP] at h
  | q :: qs, s, h => by
    simp only [afterSegnoP] at h
    cases hr : afterSegnoP qs with
    | some r =>
      rw [hr] at h
      simp only [Option.some.injEq] at h
      subst h
      exact fun q' hq' => List.mem_cons_of_mem _ (afterSegnoP_subset qs r hr q' hq')
    | none =>
      rw [hr] at h
      by_cases hs : q.1 = ev_SEGNO
      · simp only [hs, if_true, Option.some.injEq] at h
        subst h
        exact fun q' hq' => List.mem_cons_of_mem _ hq'
      · simp [hs] at h

theorem expectedP_congr {R R' : Int → Except SErr (List Tk × Int)} (pf : Timeline.Platform) (pl : List Q) (tot : Nat)
    (lt : Option Nat) (h : RoutinesAlike R R' pl) : expectedP R' pf pl tot lt = expectedP R pf pl tot lt := by
  unfold expectedP
  rw [ticksP_congr pf pl false h]
  cases ticksP R pf false pl with
  | error x => rfl
  | ok all =>
    simp only
    cases hs : afterSegnoP pl with
    | none => rfl
    | some suffix =>
      cases lt with
      | none => rfl
      | some t =>
        simp only
        rw [ticksP_congr pf suffix _ (fun q hq => h q (afterSegnoP_subset pl suffix hs q hq))]

/-! ### without drum mode the routines do not matter -/

/-- no drum-mode switch in a played projection -/
def NoDrum (l : List Q) : Prop := ∀ q ∈ l, q.1 ≠ ev_DRUM_MODE

theorem hereP_state {R : Int → Except SErr (List Tk × Int)} {pf : Timeline.Platform} {d : Bool} {q : Q}
    {r : List Tk × Bool} (hn : q.1 ≠ ev_DRUM_MODE) (h : hereP R pf d q = .ok r) : r.2 = d := by
  unfold hereP at h
  by_cases h1 : q.1 = ev_NOTE
  · simp only [h1, if_true] at h
    cases d with
    | false => simp at h; rw [← h]
    | true =>
      simp only [if_true] at h
      cases hr : R q.2.1 with
      | error x => rw [hr] at h; simp at h
      | ok x => rw [hr] at h; simp at h; rw [← h]
  · simp only [h1, hn, if_false] at h
    by_cases h2 : q.1 = ev_TIE
    · simp [h2] at h; rw [← h]
    · by_cases h3 : q.1 = ev_REST
      · have h4 : ¬ ev_REST = ev_TIE := by decide
        simp only [h3, h4, if_true, if_false, Except.ok.injEq] at h; rw [← h]
      · simp [h2, h3] at h; rw [← h]

theorem ticksP_noDrum {R R' : Int → Except SErr (List Tk × Int)} (pf : Timeline.Platform) :
    ∀ (l : List Q), NoDrum l → ticksP R' pf false l = ticksP R pf false l
  | [], _ => rfl
  | q :: qs, h => by
    have hq : hereP R' pf false q = hereP R pf false q := by
      unfold hereP
      simp
    simp only [ticksP, hq]
    cases hr : hereP R pf false q with
    | error x => rfl
    | ok r =>
      simp only
      have : r.2 = false := hereP_state (h q (List.mem_cons_self ..)) hr
      rw [this, ticksP_noDrum pf qs (fun q' hq' => h q' (List.mem_cons_of_mem _ hq'))]

theorem drumAtP_noDrum : ∀ (l : List Q), NoDrum l → drumAtP false l = false
  | [], _ => rfl
  | q :: qs, h => by
    have := h q (List.mem_cons_self ..)
    simp only [drumAtP, this, if_false]
    exact drumAtP_noDrum qs (fun q' hq' => h q' (List.mem_cons_of_mem _ hq'))

theorem expectedP_noDrum {R R' : Int → Except SErr (List Tk × Int)} (pf : Timeline.Platform) (pl : List Q) (tot : Nat)
    (lt : Option Nat) (h : NoDrum pl) : expectedP R' pf pl tot lt = expectedP R pf pl tot lt := by
  unfold expectedP
  rw [ticksP_noDrum pf pl h]
  cases ticksP R pf false pl with
  | error x => rfl
  | ok all =>
    simp only
    cases hs : afterSegnoP pl with
    | none => rfl
    | some suffix =>
      cases lt with
      | none => rfl
      | some t =>
        simp only
        rw [drumAtP_noDrum pl h, ticksP_noDrum pf suffix (fun q hq => h q (afterSegnoP_subset pl suffix hs q hq))]

/-- the drum routines resolve alike in `S` and `S'` as far as the played projection `pl` can tell: if
`pl` switches drum mode at all, every `NOTE` entry of `pl` names a routine that resolves
(`routineOf`) to the same in both songs.  (Vacuous for a track whose performance has no
`DRUM_MODE` event.) -/
def DrumAlike (S S' : Song) (pf : Timeline.Platform) (pl : List Q) : Prop :=
  (∃ q ∈ pl, q.1 = ev_DRUM_MODE) → ∀ q ∈ pl, q.1 = ev_NOTE → routineOf S' pf q.2.1 = routineOf S pf q.2.1

theorem drumAlike_of_all {S S' : Song} {pf : Timeline.Platform} (h : ∀ p, routineOf S' pf p = routineOf S pf p)
    (pl : List Q) : DrumAlike S S' pf pl := fun _ q _ _ => h q.2.1

open Classical in
/-- **Two performances with the same observation have the same expected tick string**, provided the
drum routines resolve alike (`DrumAlike`): if the performance switches drum mode at all, then for
every `NOTE` entry of the played projection (whether met in drum mode or not) the routine its
parameter names resolves (`routineOf`: expansion of the routine track as a call from depth 1,
commands up to its first note, that note) to the same in both songs. -/
theorem expected_congr {S S' : Song} {pf : Timeline.Platform} {t t' : List Event} {items items' : List Item}
    (h : perf S t = .ok items) (h' : perf S' t' = .ok items') (hobs : obs items' = obs items)
    (hR : DrumAlike S S' pf (played items)) :
    Timeline.expected S' pf t' = Timeline.expected S pf t := by
  rw [expected_eq_expectedP, expected_eq_expectedP, h, h']
  simp only [obs, Prod.mk.injEq] at hobs
  obtain ⟨h1, h2, h3⟩ := hobs
  simp only [h1, h2, h3]
  by_cases hd : ∃ q ∈ played items, q.1 = ev_DRUM_MODE
  · exact expectedP_congr pf _ _ _ (hR hd)
  · exact expectedP_noDrum pf _ _ _ (fun q hq hq' => hd ⟨q, hq, hq'⟩)

/-! ### track lookup in a song with ascending ids -/

theorem lookup_of_mem_sorted {β : Type} : ∀ (l : List (Nat × β)) (k : Nat) (v : β), (l.map (·.1)).Pairwise (· < ·) →
    (k, v) ∈ l → l.lookup k = some v
  | [], _, _, _, h => by simp at h
  | (a, b) :: l, k, v, hs, h => by
    simp only [List.map_cons, List.pairwise_cons] at hs
    rcases List.mem_cons.mp h with h' | h'
    · simp only [Prod.mk.injEq] at h'; obtain ⟨rfl, rfl⟩ := h'
      simp [List.lookup]
    · have hlt : a < k := hs.1 k (List.mem_map.mpr ⟨(k, v), h', rfl⟩)
      have : (k == a) = false := by simp; omega
      simp only [List.lookup, this]
      exact lookup_of_mem_sorted l k v hs.2 h'

theorem track?_of_mem {S : Song} (hs : (S.tracks.map (·.1)).Pairwise (· < ·)) {id : Nat} {t : List Event}
    (h : (id, t) ∈ S.tracks) : S.track? id = some t := lookup_of_mem_sorted _ _ _ hs h

end Ctrmml.SongOpt
