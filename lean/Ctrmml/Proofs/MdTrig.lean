/-
  Helper lemmas for C07 `export_extent`, the loop marker: `loop_trigger` as an instance of the
  generic chain of Proofs/MdChain (`trigChain`: the flag after an update is the flag before, or a
  `SEGNO` / `END` among the events delivered in the update), the loop counters between the loop
  point and the first jump back (`ZeroInv`), what the looping list machine delivers at a loop point
  and at the end of the track (`EvOK`), and their composition over the export of a song with one
  channel track (`single_marker`): the marker is written in exactly the updates in which a `SEGNO`
  is delivered and the channel goes on playing.
-/
import Ctrmml.Proofs.MdExtent
namespace Ctrmml.MdDriver
open Ctrmml Player PlayerCh Tables TickStream Expand

/-! ### `loop_trigger` along the `write_event` calls -/
/-- the events that set `loop_trigger` -/
def isTrig (e : Event) : Bool := e.type == ev_SEGNO || e.type == ev_END

/-- `loop_trigger` after a list of delivered events -/
def trigAfter (b : Bool) (evs : List Event) : Bool := b || evs.any isTrig

theorem trigAfter_append (b : Bool) (x y : List Event) : trigAfter b (x ++ y) = trigAfter (trigAfter b x) y := by
  simp [trigAfter, List.any_append, Bool.or_assoc]

theorem fail_trig (g : G) (e : DErr) : (g.fail e).loopTrigger = g.loopTrigger := by
  unfold G.fail; split <;> rfl

theorem keyOffPcm_trig (g : G) (c : Ch) : (keyOffPcm g c).1.loopTrigger = g.loopTrigger := by
  unfold keyOffPcm; split <;> rfl

theorem keyOnPcm_trig (d : Data) (g : G) (c : Ch) : (keyOnPcm d g c).1.loopTrigger = g.loopTrigger := by
  unfold keyOnPcm
  split
  · split
    · exact fail_trig _ _
    · rfl
  · rfl

theorem noteStart_trig (g : G) (c : Ch) (e : Event) : (noteStart g c e).1.loopTrigger = g.loopTrigger := by
  unfold noteStart
  simp only
  split
  · split
    · rw [fail_trig, keyOffPcm_trig]
    · rw [keyOffPcm_trig]
  · rfl

theorem insOrVol_trig (d : Data) (g : G) (c : Ch) : (insOrVol d g c).1.loopTrigger = g.loopTrigger := by
  unfold insOrVol
  split
  · rw [(setIns_ctl d g c).2]
  · split <;> rfl

theorem vSetPan_trig (g : G) (c : Ch) : (vSetPan g c).1.loopTrigger = g.loopTrigger := by
  unfold vSetPan
  split
  · simp only
    split
    · rfl
    · exact fail_trig _ _
  · exact fail_trig _ _
  · exact fail_trig _ _
  · rfl

/-- `write_event` sets `loop_trigger` at a `SEGNO` and at an `END`, and never clears it -/
theorem writeEvent_trig (d : Data) (g : G) (c : Ch) (e : Event) :
    (writeEvent d g c e).1.loopTrigger = (g.loopTrigger || (c.evType == ev_SEGNO || c.evType == ev_END)) := by
  unfold writeEvent
  simp only
  by_cases c1 : c.evType = ev_SEGNO
  · rw [if_pos c1]; simp [c1]
  by_cases c4 : c.evType = ev_END
  · have n2 : ¬ c.evType = ev_NOTE := by rw [c4]; decide
    have n3 : ¬ c.evType = ev_TIE := by rw [c4]; decide
    rw [if_neg c1, if_neg n2, if_neg n3, if_pos c4]; simp [c4]
  have hn : (c.evType == ev_SEGNO || c.evType == ev_END) = false := by simp [c1, c4]
  rw [hn, Bool.or_false, if_neg c1]
  by_cases c2 : c.evType = ev_NOTE
  · rw [if_pos c2]; simp only; rw [insOrVol_trig, noteStart_trig]
  rw [if_neg c2]
  by_cases c3 : c.evType = ev_TIE
  · rw [if_pos c3]; exact insOrVol_trig d g c
  rw [if_neg c3, if_neg c4]
  by_cases c5 : c.evType = ev_REST
  · rw [if_pos c5]; exact keyOffPcm_trig g c
  rw [if_neg c5]
  by_cases c6 : c.evType = ev_SLUR
  · rw [if_pos c6]
  rw [if_neg c6]
  by_cases c7 : c.evType = ev_TEMPO ∨ c.evType = ev_TEMPO_BPM
  · rw [if_pos c7]; rfl
  rw [if_neg c7]
  by_cases c8 : c.evType = ev_PLATFORM
  · rw [if_pos c8]; exact fail_trig _ _
  rw [if_neg c8]
  by_cases c9 : c.evType = ev_PAN
  · rw [if_pos c9]; exact vSetPan_trig g c
  rw [if_neg c9]
  by_cases c10 : c.evType = ev_PAN_ENVELOPE
  · rw [if_pos c10]
    split
    · exact fail_trig _ _
    · rfl
  rw [if_neg c10]

section
variable (d : Data) (song : Song)

/-- summary: `loop_trigger` after the events -/
def TrigS (g : G) (_ : Ch) (evs : List Event) (g' : G) (_ : Ch) (_ : List Wr) : Prop :=
  g'.loopTrigger = trigAfter g.loopTrigger evs

/-- the `loop_trigger` instance of the chain -/
theorem trigChain : Chain d song (fun _ => True) (fun _ => True) TrigS := by
  refine ⟨?_, ?_, ?_⟩
  · intro g c ps' t _ _ _
    exact ⟨trivial, by simp [TrigS, trigAfter]⟩
  · intro g c ps' e _ _ _
    right
    refine ⟨trivial, ?_⟩
    unfold TrigS
    rw [writeEvent_trig]
    simp [trigAfter, isTrig]
  · intro g1 g2 g3 a b c e1 e2 o1 o2 h1 h2
    unfold TrigS at *
    rw [h2, h1, trigAfter_append]

end

/-! ### the part of `MD_Channel::update` after the tick loop leaves the flag alone -/
theorem psgEnvValue_trig (g : G) (c : Ch) (id : Nat) : (psgEnvValue g c id).1.loopTrigger = g.loopTrigger := by
  unfold psgEnvValue
  split
  · exact fail_trig _ _
  · split
    · rfl
    · split <;> rfl

theorem psgEnvBody_trig (g : G) (c : Ch) (id : Nat) : (psgEnvBody g c id).1.loopTrigger = g.loopTrigger := by
  unfold psgEnvBody
  split
  · split
    · rfl
    · split
      · exact fail_trig _ _
      · split
        · exact fail_trig _ _
        · exact psgEnvValue_trig _ _ _
  · rfl

theorem chEnv_trig (g : G) (c : Ch) : (chEnv g c).1.loopTrigger = g.loopTrigger := by
  unfold chEnv
  split
  · unfold psgEnvelope
    split
    · rfl
    · exact psgEnvBody_trig _ _ _
  · rfl

theorem chAfter_trig (d : Data) (g : G) (c : Ch) : (chAfter d g c).1.loopTrigger = g.loopTrigger := by
  unfold chAfter
  split
  · rfl
  · have h1 := chEnv_trig g c
    simp only
    unfold chKeyOnPcm
    split
    · rw [keyOnPcm_trig]
      split
      · rw [fail_trig]; exact h1
      · exact h1
    · simp only
      split
      · rw [fail_trig]; exact h1
      · exact h1

section
variable (d : Data) (song : Song) (root : List Event)

/-- **`loop_trigger` after one update of any channel** (plain subset): set iff it was set before
or a `SEGNO` / `END` is among the events delivered in the ticks of the update. -/
theorem chUpdate_trig (hpl : PlainHooks song root) (n : Nat) (g : G) (c : Ch) (hb : Base root c)
    (hg : g.err = none) (s' : PState) (ws : List (List Event))
    (hrun : ctRun song root n ⟨c.ps.core, c.ps.acc⟩ = some (s', ws)) :
    (chUpdate d song n g c).1.err.isSome = true ∨
      (chUpdate d song n g c).1.loopTrigger = trigAfter g.loopTrigger ws.flatten := by
  have hf := chTicks_g d song root hpl (fun _ _ _ _ _ => trivial) (trigChain d song) n g c hb trivial hg s' ws hrun
  unfold chUpdate
  cases ht : chTicks d song n g c with
  | mk g1 r1 =>
    obtain ⟨c1, o1⟩ := r1
    rw [ht] at hf
    simp only
    rcases hf with herr | ⟨_, _, _, _, a5⟩
    · simp only at herr
      left
      simp [chAfter, herr]
    · simp only at a5
      right
      rw [chAfter_trig]; exact a5

end

/-! ### the loop counters between the loop point and the first jump back -/
/-- once a loop point has been read and as long as no jump back has happened, both loop counters
are 0 (so `get_loop_count()` of the channel is 0) -/
def ZeroInv (a : Acc) : Prop :=
  a.loopPosition ≠ -1 → a.lastLoopJump = -1 → a.loopCount = 0 ∧ a.loopResetCount = 0

section
variable (song : Song) (root : List Event)

theorem step_zeroInv (s s' : PState) (em : Emit) (h : step song root true s = .ok (s', em)) (hi : ZeroInv s.acc) :
    ZeroInv s'.acc := by
  unfold step at h
  cases hc : coreStep song root s.core with
  | error e => rw [hc] at h; simp at h
  | ok p =>
    obtain ⟨c', o⟩ := p
    rw [hc] at h
    simp only [Except.ok.injEq, Prod.mk.injEq] at h
    obtain ⟨rfl, _⟩ := h
    unfold ZeroInv at *
    unfold accStep
    cases o with
    | hook v f =>
      simp only
      split
      · intro _ _; exact ⟨rfl, rfl⟩
      · intro h1 h2
        simp only at h1 h2 ⊢
        obtain ⟨i1, i2⟩ := hi h1 h2
        refine ⟨i1, ?_⟩
        split
        · exact i1
        · exact i2
    | ret f =>
      intro h1 h2
      simp only at h1 h2 ⊢
      obtain ⟨i1, i2⟩ := hi h1 h2
      refine ⟨i1, ?_⟩
      split
      · exact i1
      · exact i2
    | rootEnd f =>
      simp only
      split
      · intro _ h2; simp only at h2; omega
      · intro h1 h2
        simp only at h1 h2 ⊢
        obtain ⟨i1, i2⟩ := hi h1 h2
        refine ⟨i1, ?_⟩
        split
        · exact i1
        · exact i2

theorem ctRun_zeroInv (n : Nat) (s s' : PState) (ws : List (List Event)) (h : ctRun song root n s = some (s', ws))
    (hi : ZeroInv s.acc) : ZeroInv s'.acc :=
  ctRun_accInv song root ZeroInv (step_zeroInv song root) (fun _ _ _ _ h => h) n s s' ws h hi

end

theorem resetLoopCh_zeroInv (c : Ch) (h : ZeroInv c.ps.acc) : ZeroInv (resetLoopCh c).ps.acc := by
  unfold resetLoopCh
  simp only
  split
  · intro _ _; exact ⟨rfl, rfl⟩
  · exact h

/-! ### the looping list machine at a loop point and at the end of the track -/
/-- what the hook is shown for an item: never an `END`, and a `SEGNO` only when a `SEGNO` was read
(true of every `perf` of a validated song — the hook sees the event read, or a loop's `LOOP_END` —
but not derived here) -/
def ItemOK (i : Item) : Prop := i.ev.type ≠ ev_END ∧ (i.ev.type = ev_SEGNO → i.src.kind = .segno)

instance (i : Item) : Decidable (ItemOK i) := by unfold ItemOK; infer_instance

/-- every item the machine may still deliver is `ItemOK` -/
def EvOK (m : LX) : Prop := (∀ i ∈ m.rest, ItemOK i) ∧ (∀ L, m.loop = some L → ∀ i ∈ L, ItemOK i)

theorem fetchPass_facts (t : Nat) : ∀ (items : List Item) (lp : Option (List Item)) (lt : Int),
    (∀ i ∈ items, ItemOK i) → (∀ L, lp = some L → ∀ i ∈ L, ItemOK i) →
    (∀ e ∈ (fetchPass t lp lt items).evs, e.type ≠ ev_END) ∧
    (∀ i ∈ (fetchPass t lp lt items).rest, ItemOK i) ∧
    (∀ L, (fetchPass t lp lt items).loop = some L → ∀ i ∈ L, ItemOK i) ∧
    (lp.isSome = true → (fetchPass t lp lt items).loop.isSome = true) ∧
    ((∃ e ∈ (fetchPass t lp lt items).evs, e.type = ev_SEGNO) → (fetchPass t lp lt items).loop.isSome = true)
  | [], lp, lt, _, hl => by
    simp only [fetchPass]
    exact ⟨by simp, by simp, hl, fun h => h, by simp⟩
  | i :: is, lp, lt, hi, hl => by
    have hi0 : ItemOK i := hi i (by simp)
    have his : ∀ x ∈ is, ItemOK x := fun x hx => hi x (by simp [hx])
    have hl' : ∀ L, (if i.src.kind = .segno then some is else lp) = some L → ∀ x ∈ L, ItemOK x := by
      intro L hL
      split at hL
      · cases hL; exact his
      · exact hl L hL
    have hsome : lp.isSome = true → (if i.src.kind = .segno then some is else lp).isSome = true := by
      intro h; split
      · rfl
      · exact h
    have hseg : i.ev.type = ev_SEGNO → (if i.src.kind = .segno then some is else lp).isSome = true := by
      intro h; rw [if_pos (hi0.2 h)]; rfl
    unfold fetchPass
    split
    · obtain ⟨a1, a2, a3, a4, a5⟩ := fetchPass_facts t is (if i.src.kind = .segno then some is else lp)
        (if i.src.kind = .segno then (t : Int) else lt) his hl'
      simp only
      refine ⟨?_, a2, a3, fun h => a4 (hsome h), ?_⟩
      · intro e he
        rcases List.mem_cons.mp he with rfl | he
        · exact hi0.1
        · exact a1 e he
      · rintro ⟨e, he, hs⟩
        rcases List.mem_cons.mp he with rfl | he
        · exact a4 (hseg hs)
        · exact a5 ⟨e, he, hs⟩
    · simp only
      refine ⟨?_, his, hl', hsome, ?_⟩
      · intro e he
        rw [List.mem_singleton.mp he]; exact hi0.1
      · rintro ⟨e, he, hs⟩
        rw [List.mem_singleton.mp he] at hs
        exact hseg hs

/-- one fetch loop of a playing machine: `EvOK` is kept; an `END` is delivered only when the
machine stops; a loop point, once known, stays known, and is known after a `SEGNO` was delivered -/
theorem lxFetch_facts (m : LX) (h : EvOK m) :
    EvOK (lxFetch m).1 ∧
    ((∃ e ∈ (lxFetch m).2, e.type = ev_END) → (lxFetch m).1.enabled = false) ∧
    (m.loop.isSome = true → (lxFetch m).1.loop.isSome = true) ∧
    ((∃ e ∈ (lxFetch m).2, e.type = ev_SEGNO) → (lxFetch m).1.loop.isSome = true) := by
  obtain ⟨f1, f2, f3, f4, f5⟩ := fetchPass_facts m.t m.rest m.loop m.loopT h.1 h.2
  have hEnd : endEvent.type ≠ ev_SEGNO := by decide
  unfold lxFetch
  simp only
  split
  · exact ⟨⟨f2, f3⟩, fun ⟨e, he, ht⟩ => absurd ht (f1 e he), f4, f5⟩
  · split
    · rename_i L hL
      have hLok : ∀ i ∈ L, ItemOK i := f3 L hL
      obtain ⟨g1, g2, g3, g4, g5⟩ := fetchPass_facts m.t L (fetchPass m.t m.loop m.loopT m.rest).loop
        (fetchPass m.t m.loop m.loopT m.rest).loopT hLok f3
      have hs1 : (fetchPass m.t m.loop m.loopT m.rest).loop.isSome = true := by rw [hL]; rfl
      split
      · split
        · refine ⟨⟨g2, g3⟩, ?_, fun _ => g4 hs1, fun _ => g4 hs1⟩
          rintro ⟨e, he, ht⟩
          rcases List.mem_append.mp he with he | he
          · exact absurd ht (f1 e he)
          · exact absurd ht (g1 e he)
        · exact ⟨⟨by simp [LX.finish], g3⟩, fun _ => rfl, fun _ => g4 hs1, fun _ => g4 hs1⟩
      · exact ⟨⟨by simp [LX.finish], f3⟩, fun _ => rfl, fun _ => hs1, fun _ => hs1⟩
    · rename_i hN
      refine ⟨⟨by simp [LX.finish], by simp [LX.finish]⟩, fun _ => rfl, ?_, ?_⟩
      · intro hs; have := f4 hs; rw [hN] at this; cases this
      · rintro ⟨e, he, ht⟩
        rcases List.mem_append.mp he with he | he
        · have := f5 ⟨e, he, ht⟩; rw [hN] at this; cases this
        · rw [List.mem_singleton.mp he] at ht; exact absurd ht hEnd

theorem lxTick_facts (m : LX) (h : EvOK m) :
    EvOK (lxTick m).1 ∧
    ((∃ e ∈ (lxTick m).2, e.type = ev_END) → (lxTick m).1.enabled = false) ∧
    (m.loop.isSome = true → (lxTick m).1.loop.isSome = true) ∧
    ((∃ e ∈ (lxTick m).2, e.type = ev_SEGNO) → (lxTick m).1.loop.isSome = true) ∧
    (m.enabled = false → (lxTick m).1.enabled = false) := by
  have hR1 : restEvent.type ≠ ev_END := by decide
  have hR2 : restEvent.type ≠ ev_SEGNO := by decide
  have hplain : ∀ (m' : LX) (evs : List Event), m'.rest = m.rest → m'.loop = m.loop → (∀ e ∈ evs, e = restEvent) →
      EvOK m' ∧ ((∃ e ∈ evs, e.type = ev_END) → m'.enabled = false) ∧
      (m.loop.isSome = true → m'.loop.isSome = true) ∧ ((∃ e ∈ evs, e.type = ev_SEGNO) → m'.loop.isSome = true) := by
    intro m' evs h1 h2 h3
    refine ⟨⟨by rw [h1]; exact h.1, by rw [h2]; exact h.2⟩, ?_, by rw [h2]; exact fun x => x, ?_⟩
    · rintro ⟨e, he, ht⟩; rw [h3 e he] at ht; exact absurd ht hR1
    · rintro ⟨e, he, ht⟩; rw [h3 e he] at ht; exact absurd ht hR2
  unfold lxTick
  split
  · rename_i hdis
    exact ⟨h, by simp, fun x => x, by simp, fun _ => by simpa using hdis⟩
  · rename_i hen
    have hen' : ¬ m.enabled = false := by simpa using hen
    split
    · split
      · obtain ⟨a, b, c, e⟩ := lxFetch_facts { m with on := 0, t := m.t + 1 } ⟨h.1, h.2⟩
        exact ⟨a, b, c, e, fun x => absurd x hen'⟩
      · obtain ⟨a, b, c, e⟩ := hplain { m with on := m.on - 1, t := m.t + 1 } (if m.on = 1 then [restEvent] else []) rfl rfl
          (by intro e he; split at he <;> simp_all)
        exact ⟨a, b, c, e, fun x => absurd x hen'⟩
    · split
      · split
        · obtain ⟨a, b, c, e⟩ := lxFetch_facts { m with off := 0, t := m.t + 1 } ⟨h.1, h.2⟩
          exact ⟨a, b, c, e, fun x => absurd x hen'⟩
        · obtain ⟨a, b, c, e⟩ := hplain { m with off := m.off - 1, t := m.t + 1 } [] rfl rfl (by simp)
          exact ⟨a, b, c, e, fun x => absurd x hen'⟩
      · obtain ⟨a, b, c, e⟩ := lxFetch_facts m h
        exact ⟨a, b, c, e, fun x => absurd x hen'⟩

theorem lxAfter_evOK : ∀ (n : Nat) (m : LX), EvOK m → EvOK (lxAfter n m)
  | 0, _, h => h
  | n + 1, m, h => lxAfter_evOK n _ (lxTick_facts m h).1

theorem lxAfter_stays_disabled : ∀ (n : Nat) (m : LX), m.enabled = false → (lxAfter n m).enabled = false
  | 0, _, h => h
  | n + 1, m, h => by
    have : lxTick m = (m, []) := by simp [lxTick, h]
    simp only [lxAfter, this]; exact lxAfter_stays_disabled n m h

theorem lxAfter_loop_stays : ∀ (n : Nat) (m : LX), EvOK m → m.loop.isSome = true → (lxAfter n m).loop.isSome = true
  | 0, _, _, h => h
  | n + 1, m, he, h => lxAfter_loop_stays n _ (lxTick_facts m he).1 ((lxTick_facts m he).2.2.1 h)

/-- an `END` delivered at a tick `τ < T` has stopped the machine by `T`; a `SEGNO` delivered at such
a tick has made the loop point known by `T` -/
theorem delivered_facts (m0 : LX) (h0 : EvOK m0) (T T' : Nat) :
    (DeliveredIn m0 T T' (fun e => e.type = ev_END) → (lxAfter T' m0).enabled = false) ∧
    (DeliveredIn m0 T T' (fun e => e.type = ev_SEGNO) → (lxAfter T' m0).loop.isSome = true) := by
  constructor
  · rintro ⟨τ, _, h2, e, he, ht⟩
    have hm := lxAfter_evOK τ m0 h0
    have := (lxTick_facts _ hm).2.1 ⟨e, he, ht⟩
    rw [← lxAfter_succ] at this
    obtain ⟨r, hr⟩ : ∃ r, T' = (τ + 1) + r := ⟨T' - (τ + 1), by omega⟩
    rw [hr, lxAfter_add]
    exact lxAfter_stays_disabled r _ this
  · rintro ⟨τ, _, h2, e, he, ht⟩
    have hm := lxAfter_evOK τ m0 h0
    have := (lxTick_facts _ hm).2.2.2.1 ⟨e, he, ht⟩
    rw [← lxAfter_succ] at this
    obtain ⟨r, hr⟩ : ∃ r, T' = (τ + 1) + r := ⟨T' - (τ + 1), by omega⟩
    rw [hr, lxAfter_add]
    exact lxAfter_loop_stays r _ (lxAfter_evOK (τ + 1) m0 h0) this

/-! ### the loop-marker test with one channel -/
theorem loopCount_one (s : Drv) (c : Ch) (hc : s.chans = [c]) :
    loopCount s = 0 ↔ (c.enabled = true ∧ loopCountOf c.ps = 0) := by
  unfold loopCount
  rw [hc]
  simp only [List.isEmpty_cons, Bool.false_eq_true, if_false, List.foldl_cons, List.foldl_nil]
  have hI : intMax = 2147483647 := rfl
  constructor
  · intro h
    split at h
    · rename_i hcond; exact ⟨hcond.1, h⟩
    · omega
  · rintro ⟨h1, h2⟩
    rw [if_pos ⟨h1, by omega⟩]; exact h2

/-- `stepLoop` on a driver that holds one channel afterwards -/
theorem stepLoop_one (s : Drv) (c' : Ch) (h : (stepLoop s).1.chans = [c']) :
    ∃ c1, s.chans = [c1] ∧ c1.enabled = c'.enabled ∧
      (((stepLoop s).2 = [Vgm.Op.setLoop] ∧ (stepLoop s).1.g.loopTrigger = false ∧ s.g.loopTrigger = true ∧
          c1.enabled = true ∧ loopCountOf c1.ps = 0) ∨
       ((stepLoop s).2 = [] ∧ (stepLoop s).1.g = s.g ∧ c' = c1 ∧
          ¬ (s.g.loopTrigger = true ∧ c1.enabled = true ∧ loopCountOf c1.ps = 0))) := by
  unfold stepLoop at h ⊢
  split
  · rename_i hcond
    rw [if_pos hcond] at h
    simp only at h
    cases hx : s.chans with
    | nil => rw [hx] at h; simp at h
    | cons c1 r =>
      rw [hx] at h
      simp only [List.map_cons, List.cons.injEq, List.map_eq_nil_iff] at h
      obtain ⟨hc1, hr⟩ := h
      subst hr
      have hlc := (loopCount_one s c1 hx).mp hcond.2
      refine ⟨c1, rfl, ?_, Or.inl ⟨rfl, rfl, hcond.1, hlc.1, hlc.2⟩⟩
      rw [← hc1]
      exact (resetLoopCh_same c1).2.2.2.2.2.2.2.1.symm
  · rename_i hcond
    rw [if_neg hcond] at h
    simp only at h
    refine ⟨c', h, rfl, Or.inr ⟨rfl, rfl, rfl, ?_⟩⟩
    rintro ⟨t1, t2, t3⟩
    exact hcond ⟨t1, (loopCount_one s c' h).mpr ⟨t2, t3⟩⟩

section
variable (d : Data) (song : Song) (root : List Event)

/-- **The loop marker, one channel track, one update.**  If before update `k` the flag
`loop_trigger` is clear or the channel has stopped, the same holds before update `k+1`, and update
`k` writes the loop marker iff a `SEGNO` is delivered in its ticks and the channel plays on —
provided no jump back happens in an update that delivers a `SEGNO` (`hlong`). -/
theorem single_marker_step (id : Nat) (hsingle : SingleTrack song id root)
    (cEnd : Core) (B : Nat) (hend : EndOK song root cEnd) (hB : 2 * B + 2 ≤ settleFuel)
    (hpl : PlainHooks song root) (m0 : LX) (hev : EvOK m0)
    (hrel0 : RelX song root cEnd B ⟨⟨.root, 0, []⟩, {}⟩ m0)
    (k : Nat) (herr : ∀ j, j ≤ k + 1 → (updRun d song j (playSong d song).1).g.err = none)
    (hlong : DeliveredIn m0 (updRun d song k (playSong d song).1).ticks (updRun d song (k + 1) (playSong d song).1).ticks
        (fun e => e.type = ev_SEGNO) →
      (lxAfter (updRun d song (k + 1) (playSong d song).1).ticks m0).lastJump = -1)
    (hinv : (updRun d song k (playSong d song).1).g.loopTrigger = false ∨
      (lxAfter (updRun d song k (playSong d song).1).ticks m0).enabled = false) :
    ((updRun d song (k + 1) (playSong d song).1).g.loopTrigger = false ∨
      (lxAfter (updRun d song (k + 1) (playSong d song).1).ticks m0).enabled = false) ∧
    ((DeliveredIn m0 (updRun d song k (playSong d song).1).ticks (updRun d song (k + 1) (playSong d song).1).ticks
        (fun e => e.type = ev_SEGNO) ∧
      (lxAfter (updRun d song (k + 1) (playSong d song).1).ticks m0).enabled = true) →
        updMark d song (playSong d song).1 k = [Vgm.Op.setLoop]) ∧
    (¬ (DeliveredIn m0 (updRun d song k (playSong d song).1).ticks (updRun d song (k + 1) (playSong d song).1).ticks
        (fun e => e.type = ev_SEGNO) ∧
      (lxAfter (updRun d song (k + 1) (playSong d song).1).ticks m0).enabled = true) →
        updMark d song (playSong d song).1 k = []) := by
  obtain ⟨b0, v0, c0, a0⟩ := mkCh_base d root id
  have hCIreset : ∀ c, (Base root c ∧ VarsOK c ∧ ZeroInv c.ps.acc) → (Base root (resetLoopCh c) ∧ VarsOK (resetLoopCh c) ∧
      ZeroInv (resetLoopCh c).ps.acc) := by
    intro c hc
    obtain ⟨r1, r2, r3, r4, r5, r6, r7, _⟩ := resetLoopCh_same c
    exact ⟨⟨r2.trans hc.1.root, r4.trans hc.1.err, by rw [r5]; exact hc.1.drum⟩,
      ⟨by rw [r5]; exact hc.2.1.1, by rw [r5]; exact hc.2.1.2⟩, resetLoopCh_zeroInv c hc.2.2⟩
  have hCI0 : Base root (mkCh d id root).1 ∧ VarsOK (mkCh d id root).1 ∧ ZeroInv (mkCh d id root).1.ps.acc :=
    ⟨b0, v0, by rw [a0]; intro h; exact absurd rfl h⟩
  -- the channel after update k
  obtain ⟨c', hc', ⟨_, _, hz'⟩, hrel'⟩ := single_inv d song root id hsingle cEnd B hend hB
      (fun c => Base root c ∧ VarsOK c ∧ ZeroInv c.ps.acc) hCIreset
      (fun n g c s' ws hc hg hrun => by
        rcases chUpdate_tempo d song root hpl n g c hc.1 hc.2.1 hg s' ws hrun with h | ⟨a1, a2, a3, a4, _⟩
        · exact Or.inl h
        · refine Or.inr ⟨a1, a2, a3, a4, ?_⟩
          rw [a2]; exact ctRun_zeroInv song root n _ s' ws hrun hc.2.2)
      hCI0 m0 (by rw [c0, a0]; exact hrel0) (k + 1) herr
  -- the flag after the sequence update
  have hu := single_update d song root id hsingle cEnd B hend hB
    (fun c => Base root c ∧ VarsOK c ∧ ZeroInv c.ps.acc) hCIreset
    (fun g ws g' _ => g'.loopTrigger = trigAfter g.loopTrigger ws.flatten)
    (fun n g c s' ws hc hg hrun => by
      rcases chUpdate_tempo d song root hpl n g c hc.1 hc.2.1 hg s' ws hrun with h | ⟨a1, a2, a3, a4, _⟩
      · exact Or.inl h
      · rcases chUpdate_trig d song root hpl n g c hc.1 hg s' ws hrun with h' | h'
        · exact Or.inl h'
        · exact Or.inr ⟨a1, a2, ⟨a3, a4, by rw [a2]; exact ctRun_zeroInv song root n _ s' ws hrun hc.2.2⟩, h'⟩)
    hCI0 m0 (by rw [c0, a0]; exact hrel0) k herr
  obtain ⟨s0, hs0⟩ : ∃ s0, s0 = (playSong d song).1 := ⟨_, rfl⟩
  rw [← hs0] at hc' hrel' hu hlong hinv ⊢
  have hT := (updRun_ticks d song s0 k).1
  obtain ⟨N, hN⟩ : ∃ N, N = (updRun d song k s0).ticks := ⟨_, rfl⟩
  obtain ⟨N', hN'⟩ : ∃ N', N' = (updRun d song (k + 1) s0).ticks := ⟨_, rfl⟩
  rw [← hN, ← hN'] at hT hlong
  rw [← hN] at hinv hu
  rw [← hN'] at hrel'
  rw [← hN, ← hN']
  obtain ⟨s1, hs1⟩ : ∃ s1, s1 = (seqUpdate d song (updRun d song k s0)).1 := ⟨_, rfl⟩
  have hnext : updRun d song (k + 1) s0 = (stepLoop s1).1 := by rw [hs1]; rfl
  have hmark : updMark d song s0 k = (stepLoop s1).2 := by rw [hs1]; rfl
  rw [← hs1] at hu
  rw [hnext] at hc' ⊢
  rw [hmark]
  -- the flag after the sequence update, as a function of the delivered events
  have hdel : ∀ p : Event → Prop, DeliveredIn m0 N N' p ↔
      ∃ e ∈ (lxRun (updTicks d song s0 k) (lxAfter N m0)).flatten, p e := by
    intro p; rw [hT]; exact deliveredIn_iff m0 N _ p
  have hflag : s1.g.loopTrigger = true → (lxAfter N' m0).enabled = true →
      DeliveredIn m0 N N' (fun e => e.type = ev_SEGNO) := by
    intro ht hen'
    cases hen : (lxAfter N m0).enabled with
    | false =>
      obtain ⟨r, hr⟩ : ∃ r, N' = N + r := ⟨updTicks d song s0 k, hT⟩
      rw [hr, lxAfter_add, lxAfter_stays_disabled r _ hen] at hen'
      cases hen'
    | true =>
      have h1 := hu.1 hen
      have h0 : (updRun d song k s0).g.loopTrigger = false := by
        rcases hinv with h | h
        · exact h
        · rw [hen] at h; cases h
      rw [h0] at h1
      rw [h1] at ht
      simp only [trigAfter, Bool.false_or, List.any_eq_true] at ht
      obtain ⟨e, he, htr⟩ := ht
      simp only [isTrig, Bool.or_eq_true, beq_iff_eq] at htr
      rcases htr with htr | htr
      · exact (hdel _).mpr ⟨e, he, htr⟩
      · have := (delivered_facts m0 hev N N').1 ((hdel _).mpr ⟨e, he, htr⟩)
        rw [this] at hen'; cases hen'
  have hflag' : DeliveredIn m0 N N' (fun e => e.type = ev_SEGNO) → s1.g.loopTrigger = true := by
    intro hd
    cases hen : (lxAfter N m0).enabled with
    | false =>
      obtain ⟨e, he, _⟩ := (hdel _).mp hd
      rw [lxRun_disabled _ _ hen] at he; cases he
    | true =>
      have h1 := hu.1 hen
      rw [h1]
      obtain ⟨e, he, ht⟩ := (hdel _).mp hd
      simp only [trigAfter, Bool.or_eq_true, List.any_eq_true]
      exact Or.inr ⟨e, he, by simp [isTrig, ht]⟩
  obtain ⟨c1, hc1, hen1, hcase⟩ := stepLoop_one s1 c' hc'
  have hen' : c'.ps.acc.enabled = (lxAfter N' m0).enabled := hrel'.1
  rcases hcase with ⟨m1, m2, m3, m4, _⟩ | ⟨m1, m2, m3, m4⟩
  · -- the marker is written
    have hE : (lxAfter N' m0).enabled = true := by rw [← hen', ← m4, hen1]; rfl
    refine ⟨Or.inl m2, fun _ => m1, fun hn => absurd ⟨hflag m3 hE, hE⟩ hn⟩
  · -- no marker
    have hno : ¬ (DeliveredIn m0 N N' (fun e => e.type = ev_SEGNO) ∧ (lxAfter N' m0).enabled = true) := by
      rintro ⟨hd, hE⟩
      apply m4
      subst m3
      have hce : c'.enabled = true := by show c'.ps.acc.enabled = true; rw [hen']; exact hE
      refine ⟨hflag' hd, hce, ?_⟩
      have hlp : c'.ps.acc.loopPosition ≠ -1 :=
        (loopRel_pos song root cEnd B _ _ hrel'.2.2.2.2.2.2.1).mpr ((delivered_facts m0 hev N N').2 hd)
      have hlj : c'.ps.acc.lastLoopJump = -1 := hrel'.2.2.2.2.2.1.trans (hlong hd)
      obtain ⟨z1, z2⟩ := hz' hlp hlj
      unfold loopCountOf
      rw [z1, z2]; rfl
    refine ⟨?_, fun h => absurd h hno, fun _ => m1⟩
    rw [m2]
    cases hE : (lxAfter N' m0).enabled with
    | false => exact Or.inr rfl
    | true =>
      left
      cases ht : s1.g.loopTrigger with
      | false => rfl
      | true => exact absurd ⟨hflag ht hE, hE⟩ hno

/-- **The loop marker over the whole export, one channel track**: by induction over the updates. -/
theorem single_marker (id : Nat) (hsingle : SingleTrack song id root)
    (cEnd : Core) (B : Nat) (hend : EndOK song root cEnd) (hB : 2 * B + 2 ≤ settleFuel)
    (hpl : PlainHooks song root) (m0 : LX) (hev : EvOK m0)
    (hrel0 : RelX song root cEnd B ⟨⟨.root, 0, []⟩, {}⟩ m0) :
    ∀ (k : Nat), (∀ j, j ≤ k + 1 → (updRun d song j (playSong d song).1).g.err = none) →
    (∀ j, j ≤ k → DeliveredIn m0 (updRun d song j (playSong d song).1).ticks (updRun d song (j + 1) (playSong d song).1).ticks
        (fun e => e.type = ev_SEGNO) →
      (lxAfter (updRun d song (j + 1) (playSong d song).1).ticks m0).lastJump = -1) →
    ((updRun d song (k + 1) (playSong d song).1).g.loopTrigger = false ∨
      (lxAfter (updRun d song (k + 1) (playSong d song).1).ticks m0).enabled = false) ∧
    ((DeliveredIn m0 (updRun d song k (playSong d song).1).ticks (updRun d song (k + 1) (playSong d song).1).ticks
        (fun e => e.type = ev_SEGNO) ∧
      (lxAfter (updRun d song (k + 1) (playSong d song).1).ticks m0).enabled = true) →
        updMark d song (playSong d song).1 k = [Vgm.Op.setLoop]) ∧
    (¬ (DeliveredIn m0 (updRun d song k (playSong d song).1).ticks (updRun d song (k + 1) (playSong d song).1).ticks
        (fun e => e.type = ev_SEGNO) ∧
      (lxAfter (updRun d song (k + 1) (playSong d song).1).ticks m0).enabled = true) →
        updMark d song (playSong d song).1 k = [])
  | 0, herr, hlong =>
    single_marker_step d song root id hsingle cEnd B hend hB hpl m0 hev hrel0 0 herr (hlong 0 (Nat.le_refl _))
      (Or.inl (playSong_single d song id root hsingle).2.2.1)
  | k + 1, herr, hlong =>
    single_marker_step d song root id hsingle cEnd B hend hB hpl m0 hev hrel0 (k + 1) herr (hlong (k + 1) (Nat.le_refl _))
      (single_marker id hsingle cEnd B hend hB hpl m0 hev hrel0 k (fun j hj => herr j (by omega))
        (fun j hj => hlong j (by omega))).1

end

end Ctrmml.MdDriver
