/-
  Helper lemmas for C06, round 5 (no property statements here): the block files of round 5
  (Proofs/LayoutBlock2, Proofs/LayoutBlockLines2) replayed over the look-ahead condition `L3.LCmdTail`
  (bare echo `\` before blanks or the end of the line included), namespace `Ctrmml.Mml.L2.W` as
  Proofs/LayoutLines3.  `LineResI`, `NoBreak`, `lineTail_shape`, `itemsText_nil_sel`, the block texts and
  scans are shared with `L2`.
-/
import Ctrmml.Proofs.LayoutLines3
namespace Ctrmml.Mml.L2.W
open Ctrmml.Tables Ctrmml.Lexer Ctrmml.TrackBuilder
open Ctrmml.MmlMeaning (Num Dur Acc Cmd Simple)
open Ctrmml.Layout (Addr)

/-- `L3.lcmd_step` without the hypothesis on the block flag, for a command other than the loop break -/
theorem lcmd_step_nb (f : Nat) (s : MmlState) (hs : Sane s) (cmd : Cmd) (tail : List Nat) (hc : LCovered cmd)
    (hnb : cmd ≠ .simple .loopBreak none)
    (hsuf : suffix s = cmd.bytes ++ tail) (hn : LCmdNums (getTrack s).strip cmd) (ht : Ctrmml.Mml.L3.LCmdTail cmd tail) :
    parseMmlTrackF (f + 1) s =
      parseMmlTrackF f (adv (setTrack s (lcmdTrack ((getTrack s).setReference (some { line := s.inp.line, column := s.inp.lb.column })) cmd))
        (cmd.bytes.length + lcmdSkip cmd tail)) := by
  cases cmd with
  | echo d =>
    rcases ht.2 with hh | ⟨rfl, hb⟩
    · exact L2.lcmd_step_nb f s hs (.echo d) tail hc hnb hsuf hn ⟨ht.1, hh⟩
    · obtain ⟨t1, ht1⟩ : ∃ t1, t1 = (getTrack s).setReference (some { line := s.inp.line, column := s.inp.lb.column }) := ⟨_, rfl⟩
      have hs0 : Sane (setTrack s t1) := sane_setTrack _ _ hs
      have hsuf0 : suffix (setTrack s t1) = 92 :: tail := by
        rw [suffix_setTrack]; simpa [Cmd.bytes, Dur.bytes, MmlMeaning.dotsBytes] using hsuf
      have hspan := Ctrmml.Mml.L3.bare_echo_span (setTrack s t1) hs0 tail hsuf0 hb
      rw [getTrack_setTrack, setTrack_setTrack] at hspan
      have hsuf' : suffix s = List.replicate 0 32 ++ 92 :: tail := by
        simpa [Cmd.bytes, Dur.bytes, MmlMeaning.dotsBytes] using hsuf
      have := step_basic f s hs 0 92 _ hsuf' (by omega) (by unfold NotLoopChar; omega) _ (by
        rw [adv_zero, Nat.add_zero, ← ht1]; exact hspan)
      rw [this, ht1]
      simp only [Cmd.bytes, L2.lcmdSkip, List.length_cons]
      have e : 1 + (Dur.dflt 0).bytes.length + durSkip (.dflt 0) tail = (Dur.dflt 0).bytes.length + 1 + durSkip (.dflt 0) tail := by omega
      rw [e]
      rfl
  | _ => exact L2.lcmd_step_nb f s hs _ tail hc hnb hsuf hn ht

/-- `L2.parse_seg` inside or outside a conditional block, for token lists without a loop break -/
theorem parse_seg_nb : ∀ (n : Nat) (ts : List Tok), ts.length ≤ n → ∀ (e : List Nat) (f : Nat) (s : MmlState), Sane s → StopEnd e → NoBreak (cmdsOf ts) →
    suffix s = toksText ts e → ToksOk ts e → CmdsOk (getTrack s).strip (cmdsOf ts) → (toksText ts e).length + 1 ≤ f →
    ∃ s' f', parseMmlTrackF f s = parseMmlTrackF f' s' ∧ e.length + 1 ≤ f' ∧ suffix s' = e ∧ Sane s' ∧ Moved s s' ∧
      (getTrack s').strip = runCmds (getTrack s).strip (cmdsOf ts) := by
  intro n
  induction n with
  | zero =>
    intro ts hlen e f s hs _ _ hsuf _ _ hf
    have : ts = [] := by cases ts <;> simp_all
    subst this
    exact ⟨s, f, rfl, hf, hsuf, hs, Moved.refl s, rfl⟩
  | succ n ih =>
    intro ts hlen e f s hs he hcb hsuf hok hcmds hf
    cases ts with
    | nil => exact ⟨s, f, rfl, hf, hsuf, hs, Moved.refl s, rfl⟩
    | cons t ts =>
      have hlen' : ts.length ≤ n := by simp at hlen; omega
      obtain ⟨f', rfl⟩ : ∃ f', f = f' + 1 := ⟨f - 1, by omega⟩
      cases t with
      | blank b =>
        have hsuf' : suffix s = b :: toksText ts e := hsuf
        have hs1 : Sane (adv s 1) := sane_adv s hs 1 (by rw [hsuf']; simp)
        obtain ⟨s', f2, h1, hf2, hsf, hsn, h2, h3⟩ := ih ts hlen' e (f' + 1) (adv s 1) hs1 he hcb (by rw [suffix_adv, hsuf']; rfl) hok.2 hcmds
          (by simp [toksText, Tok.bytes] at hf; omega)
        refine ⟨s', f2, ?_, hf2, hsf, hsn, Moved.trans ⟨1, Or.inl rfl⟩ h2, h3⟩
        rw [parseF_blank_step f' s b _ hsuf' (blank_isBlank b hok.1)]; exact h1
      | bar =>
        have hsuf' : suffix s = 124 :: toksText ts e := hsuf
        have hs1 : Sane (adv s 1) := sane_adv s hs 1 (by rw [hsuf']; simp)
        obtain ⟨s', f2, h1, hf2, hsf, hsn, h2, h3⟩ := ih ts hlen' e f' (adv s 1) hs1 he hcb (by rw [suffix_adv, hsuf']; rfl) hok hcmds
          (by simp [toksText, Tok.bytes] at hf; omega)
        refine ⟨s', f2, ?_, hf2, hsf, hsn, Moved.trans ⟨1, Or.inl rfl⟩ h2, h3⟩
        rw [parseF_bar_step f' s _ hsuf']; exact h1
      | cmd c =>
        obtain ⟨hcov, hnum, hrest⟩ : LCovered c ∧ LCmdNums (getTrack s).strip c ∧ CmdsOk (lcmdTrack (getTrack s).strip c) (cmdsOf ts) := hcmds
        obtain ⟨T, hT⟩ : ∃ T, T = toksText ts e := ⟨_, rfl⟩
        have hsuf' : suffix s = c.bytes ++ T := by rw [hT]; exact hsuf
        have htail : Ctrmml.Mml.L3.LCmdTail c T := by rw [hT]; exact hok.1
        have hstep := lcmd_step_nb f' s hs c T hcov (hcb c (by simp [cmdsOf])) hsuf' hnum htail
        obtain ⟨t2, ht2⟩ : ∃ t2, t2 = lcmdTrack ((getTrack s).setReference (some { line := s.inp.line, column := s.inp.lb.column })) c := ⟨_, rfl⟩
        rw [← ht2] at hstep
        have hst2 : t2.strip = lcmdTrack (getTrack s).strip c := by rw [ht2, strip_lcmdTrack _ _ hcov, Track.strip_setReference]
        have hcovs : ∀ x ∈ cmdsOf ts, LCovered x := cmdsOk_covered _ _ hrest
        have hns : numSpan T = (none, leadBlanks ts) := by rw [hT]; exact toks_numSpan ts e hok.2 hcovs he
        have hskip : lcmdSkip c T ≤ leadBlanks ts := by
          rcases lcmdSkip_cases c T hcov with h | h
          · omega
          · rw [h, hns]; exact Nat.le_refl _
        obtain ⟨hdrop, hcmdsdrop⟩ := toks_drop_lead ts e (lcmdSkip c T) hskip
        have hle : leadBlanks ts ≤ T.length := by rw [hT]; exact leadBlanks_le ts e
        obtain ⟨ch, r, hcr, _⟩ := lcovered_head c hcov
        have hcl : 1 ≤ c.bytes.length := by rw [hcr]; simp
        obtain ⟨s2, hs2⟩ : ∃ s2, s2 = adv (setTrack s t2) (c.bytes.length + lcmdSkip c T) := ⟨_, rfl⟩
        rw [← hs2] at hstep
        have hsane2 : Sane s2 := by
          rw [hs2]; exact sane_adv _ (sane_setTrack _ _ hs) _ (by rw [suffix_setTrack, hsuf']; simp; omega)
        have hsuf2 : suffix s2 = toksText (ts.drop (lcmdSkip c T)) e := by
          rw [hs2, suffix_adv, suffix_setTrack, hsuf', ← List.drop_drop, ← hdrop, hT]; simp
        have hgt2 : getTrack s2 = t2 := by rw [hs2, getTrack_adv]; exact getTrack_setTrack _ _
        obtain ⟨s', f2, h1, hf2, hsf, hsn, h2, h3⟩ := ih (ts.drop (lcmdSkip c T)) (by simp; omega) e f' s2 hsane2 he (by rw [hcmdsdrop]; exact fun x hx => hcb x (by simp [cmdsOf, hx])) hsuf2
          (toksOk_drop ts e hok.2 _) (by rw [hgt2, hst2, hcmdsdrop]; exact hrest)
          (by
            rw [← hdrop, ← hT]
            have : (toksText (Tok.cmd c :: ts) e).length = c.bytes.length + T.length := by simp [toksText, Tok.bytes, hT]
            rw [this] at hf
            simp only [List.length_drop]; omega)
        refine ⟨s', f2, by rw [hstep]; exact h1, hf2, hsf, hsn, Moved.trans ⟨c.bytes.length + lcmdSkip c T, Or.inr ⟨t2, hs2⟩⟩ h2, ?_⟩
        rw [h3, hgt2, hst2, hcmdsdrop]; rfl

/-! ### one block -/

/-- a whole block as track position `i` sees it (as `parse_block`, over `L2.LCovered`; the selected
alternative contains no loop break) -/
theorem parse_block (skipped : List (List Tok)) (a : List Tok) (after : List (List Tok)) (e : List Nat) (f : Nat) (s : MmlState)
    (hs : Sane s) (hflag : s.conditionalBlock = false) (hoff : s.trackOffset = skipped.length)
    (hcl : ∀ b ∈ skipped ++ after, Clean (altText b))
    (hsuf : suffix s = blockText (skipped ++ a :: after) e) (hok : ToksOk a (afterText after e))
    (hcmds : CmdsOk (getTrack s).strip (cmdsOf a)) (hnb : NoBreak (cmdsOf a)) (hf : (blockText (skipped ++ a :: after) e).length + 1 ≤ f) :
    ∃ s' f', parseMmlTrackF f s = parseMmlTrackF f' s' ∧ e.length + 1 ≤ f' ∧ suffix s' = e ∧ Sane s' ∧ Moved s s' ∧
      (getTrack s').strip = runCmds (getTrack s).strip (cmdsOf a) := by
  obtain ⟨f0, rfl⟩ : ∃ f0, f = f0 + 1 := ⟨f - 1, by omega⟩
  rw [blockText_split] at hsuf hf
  obtain ⟨E, hE⟩ : ∃ E, E = afterText after e := ⟨_, rfl⟩
  rw [← hE] at hsuf hf hok
  have hElen : e.length + 1 ≤ E.length := by
    rw [hE]; exact afterText_length after e
  have hstopE : StopEnd E := by
    rw [hE]
    cases after with
    | nil => exact Or.inr ⟨125, e, rfl, by simp [Stop]⟩
    | cons b bs => exact Or.inr ⟨47, _, rfl, by simp [Stop]⟩
  -- `{` and conditional_block_begin
  have hs1 : Sane (adv s 1) := sane_adv s hs 1 (by rw [hsuf]; simp)
  have hsuf1 : suffix (adv s 1) = skipText skipped ++ toksText a E := by rw [suffix_adv, hsuf]; rfl
  have hbegin := conditionalBlockBegin_skip (skipped.map altText) (toksText a E) (adv s 1)
    (fun b hb => by
      obtain ⟨x, hx, rfl⟩ := List.mem_map.mp hb
      exact hcl x (by simp [hx]))
    (by show s.trackOffset = (skipped.map altText).length; simpa using hoff) hsuf1
  obtain ⟨k0, hk0⟩ : ∃ k0, k0 = 1 + (skipText skipped).length := ⟨_, rfl⟩
  obtain ⟨s1, hs1def⟩ : ∃ s1 : MmlState, s1 = { adv s k0 with conditionalBlock := true } := ⟨_, rfl⟩
  have hbegin' : conditionalBlockBegin (adv s 1) = .ok () s1 := by
    rw [hbegin, hs1def, hk0, adv_adv]; rfl
  have hfl1 : (adv s 1).conditionalBlock = false := hflag
  have hstep1 : parseMmlTrackF (f0 + 1) s = parseMmlTrackF f0 s1 := by
    conv => lhs; unfold parseMmlTrackF
    rw [bind_ok (getTokenC_cons s 123 _ hsuf (by omega)), bind_ok (getS_run _)]
    have e1 : ((123 : Nat) : Int) = 123 := rfl
    rw [e1]
    simp (config := { decide := true }) only [hfl1, if_false, if_true, Bool.and_false, Bool.and_true, Bool.not_false]
    rw [bind_ok hbegin']
  have hsane1 : Sane s1 := by
    rw [hs1def]
    have := sane_adv s hs k0 (by rw [hsuf, hk0]; simp; omega)
    exact ⟨this.bytes, this.inl⟩
  have hsufs1 : suffix s1 = toksText a E := by
    rw [hs1def]
    show suffix (adv s k0) = _
    rw [hk0, ← adv_adv]
    exact suffix_adv_append _ _ _ hsuf1
  have hgt1 : getTrack s1 = getTrack s := by rw [hs1def]; rfl
  -- the selected alternative
  obtain ⟨s2, f2, hp2, hf2, hsuf2, hsane2, hmv2, hres2⟩ := parse_seg_nb a.length a (Nat.le_refl _) E f0 s1 hsane1 hstopE hnb hsufs1 hok
    (by rw [hgt1]; exact hcmds)
    (by simp only [List.length_cons, List.length_append] at hf; omega)
  obtain ⟨f3, rfl⟩ : ∃ f3, f2 = f3 + 1 := ⟨f2 - 1, by omega⟩
  have hflag2 : s2.conditionalBlock = true := hmv2.ctl.cond.trans (by subst hs1def; rfl)
  have hend := parseF_block_end f3 s2 after e (fun b hb => hcl b (by simp [hb])) (by rw [hsuf2, hE]) hflag2
  obtain ⟨k3, hk3⟩ : ∃ k3, k3 = (afterText after e).length - e.length := ⟨_, rfl⟩
  rw [← hk3] at hend
  obtain ⟨s3, hs3⟩ : ∃ s3 : MmlState, s3 = { adv s2 k3 with conditionalBlock := false } := ⟨_, rfl⟩
  rw [← hs3] at hend
  have hk3le : k3 ≤ (suffix s2).length := by rw [hsuf2, hE, hk3]; omega
  have hsane3 : Sane s3 := by
    rw [hs3]
    have := sane_adv s2 hsane2 k3 hk3le
    exact ⟨this.bytes, this.inl⟩
  have hsuf3 : suffix s3 = e := by
    rw [hs3]
    show suffix (adv s2 k3) = _
    rw [suffix_adv, hsuf2, hE]
    obtain ⟨xs, hx1, _⟩ := afterText_scan after e (fun b hb => hcl b (by simp [hb]))
    rw [hk3, hx1]
    have h1 : (xs ++ 125 :: e).length - e.length = (xs ++ [125]).length := by simp; omega
    have h2 : xs ++ 125 :: e = (xs ++ [125]) ++ e := by simp
    rw [h1, h2, List.drop_left]
  refine ⟨s3, f3, by rw [hstep1, hp2, hend], by omega, hsuf3, hsane3, ?_, ?_⟩
  · rw [hs3]; rw [hs1def] at hmv2; exact close_block s s2 k0 k3 hflag hmv2
  · have : getTrack s3 = getTrack s2 := by rw [hs3]; rfl
    rw [this, hres2, hgt1]

/-! ### bodies -/

/-- a body is well formed for track position `i` (followed by `e`): token runs satisfy `ToksOk`
and are followed by a byte at which no number starts; a block has an alternative for position `i`,
no alternative spells `/`, `;`, `}` or NUL, and the selected alternative satisfies `ToksOk` -/
def ItemsOk (i : Nat) : List Item → List Nat → Prop
  | [], _ => True
  | .toks ts :: rest, e => ToksOk ts (itemsText rest e) ∧ StopEnd (itemsText rest e) ∧ ItemsOk i rest e
  | .block alts :: rest, e => i < alts.length ∧ (∀ a ∈ alts, Clean (altText a)) ∧
      ToksOk (alts.getD i []) (afterText (alts.drop (i + 1)) (itemsText rest e)) ∧ ItemsOk i rest e

/-- `parse_mml_track` over a body with blocks, for track position `i` -/
theorem parse_items (i : Nat) : ∀ (items : List Item) (e : List Nat) (f : Nat) (s : MmlState), Sane s →
    s.conditionalBlock = false → s.trackOffset = i → suffix s = itemsText items e → ItemsOk i items e →
    CmdsOk (getTrack s).strip (selCmds i items) → (itemsText items e).length + 1 ≤ f →
    ∃ s' f', parseMmlTrackF f s = parseMmlTrackF f' s' ∧ e.length + 1 ≤ f' ∧ suffix s' = e ∧ Sane s' ∧ Moved s s' ∧
      (getTrack s').strip = runCmds (getTrack s).strip (selCmds i items) := by
  intro items
  induction items with
  | nil => intro e f s hs _ _ hsuf _ _ hf; exact ⟨s, f, rfl, hf, hsuf, hs, Moved.refl s, rfl⟩
  | cons it rest ih =>
    intro e f s hs hflag hoff hsuf hok hcmds hf
    rw [selCmds_cons] at hcmds
    obtain ⟨hc1, hc2⟩ := (cmdsOk_append _ _ _).mp hcmds
    -- the first item, as a segment up to `E`
    have hfirst : ∃ s1 f1, parseMmlTrackF f s = parseMmlTrackF f1 s1 ∧ (itemsText rest e).length + 1 ≤ f1 ∧ suffix s1 = itemsText rest e ∧
        Sane s1 ∧ Moved s s1 ∧ (getTrack s1).strip = runCmds (getTrack s).strip (cmdsOf (it.sel i)) ∧ ItemsOk i rest e := by
      cases it with
      | toks ts =>
        obtain ⟨h1, h2, h3⟩ := hok
        obtain ⟨s1, f1, a1, a2, a3, a4, a5, a6⟩ := parse_seg ts.length ts (Nat.le_refl _) (itemsText rest e) f s hs h2 hflag hsuf h1 hc1 hf
        exact ⟨s1, f1, a1, a2, a3, a4, a5, a6, h3⟩
      | block alts =>
        obtain ⟨h1, h2, h3, h4⟩ := hok
        obtain ⟨hsplit, hlen⟩ := alts_split alts i h1
        have hsuf' : suffix s = blockText (alts.take i ++ alts.getD i [] :: alts.drop (i + 1)) (itemsText rest e) := by
          rw [← hsplit]; exact hsuf
        obtain ⟨s1, f1, a1, a2, a3, a4, a5, a6⟩ := parse_block (alts.take i) (alts.getD i []) (alts.drop (i + 1)) (itemsText rest e) f s hs hflag
          (by rw [hlen]; exact hoff)
          (fun b hb => h2 b (by
            simp at hb
            rcases hb with hb | hb
            · exact List.mem_of_mem_take hb
            · exact List.mem_of_mem_drop hb))
          hsuf' h3 hc1
          (noBreak_of_clean _ (h2 _ (by
            rw [show alts.getD i [] = alts[i] from by simp [List.getD, List.getElem?_eq_getElem h1]]
            exact List.getElem_mem h1)))
          (by rw [← hsplit]; exact hf)
        exact ⟨s1, f1, a1, a2, a3, a4, a5, a6, h4⟩
    obtain ⟨s1, f1, a1, a2, a3, a4, a5, a6, hokr⟩ := hfirst
    have hctl := a5.ctl
    obtain ⟨s', f', b1, b2, b3, b4, b5, b6⟩ := ih e f1 s1 a4 (hctl.cond.trans hflag) (hctl.trackOffset.trans hoff) a3 hokr
      (by rw [a6]; exact hc2) a2
    exact ⟨s', f', a1.trans b1, b2, b3, b4, a5.trans b5, by rw [b6, a6, selCmds_cons, runCmds_append]⟩


/-- the `for` loop of `parse_mml` over distinct tracks on a body with blocks: the track at
position `i + j` receives the builder calls of its own selection -/
theorem parseMmlLoop_items (items : List Item) (e : List Nat) (col : Nat) (he : EndOk e) :
    ∀ (ids : List Nat) (i : Nat) (s : MmlState), Bytes s.inp.lb.buf → col ≤ s.inp.lb.buf.length →
    s.inp.lb.buf.drop col = itemsText items e → ids.Nodup → i + ids.length ≤ 65536 →
    (∀ j id, ids[j]? = some id → ItemsOk (i + j) items e ∧ CmdsOk (trackOf id s).strip (selCmds (i + j) items)) →
    ∃ s', parseMmlLoop col i ids s = .ok () s' ∧ LoopKeeps s s' ∧
      (∀ j id, ids[j]? = some id → (trackOf id s').strip = runCmds (trackOf id s).strip (selCmds (i + j) items)) ∧
      (∀ b, b ∉ ids → s'.song.tracks.lookup b = s.song.tracks.lookup b) := by
  intro ids
  induction ids with
  | nil => intro i s _ _ _ _ _ _; exact ⟨s, rfl, LoopKeeps.refl s, fun j id h => by simp at h, fun _ _ => rfl⟩
  | cons id rest ih =>
    intro i s hbytes hcol hdrop hnd hlen hcmds
    obtain ⟨s1, hs1⟩ : ∃ s1 : MmlState, s1 = { setLb s (s.inp.lb.seek col) with trackId := id, trackOffset := i % 65536, song := (setLb s (s.inp.lb.seek col)).song.makeTrack id, conditionalBlock := false } := ⟨_, rfl⟩
    have hsane1 : Sane s1 := by rw [hs1]; exact ⟨hbytes, hcol⟩
    have hsuf1 : suffix s1 = itemsText items e := by rw [hs1]; exact hdrop
    have hmk := makeTrack_lookup s.song id
    have hgt1 : getTrack s1 = trackOf id s := by
      rw [hs1]; unfold getTrack trackOf
      show (List.lookup id (s.song.makeTrack id).tracks).getD (Track.new (s.song.makeTrack id).ppqn) = _
      rw [hmk.1, hmk.2]; rfl
    have hoff1 : s1.trackOffset = i := by
      rw [hs1]; show i % 65536 = i
      simp at hlen; omega
    have hfuel : (itemsText items e).length + 1 ≤ trackFuel s1 := by
      have h1 := suffix_length s1
      rw [hsuf1] at h1
      unfold trackFuel
      have := hsane1.inl
      omega
    have h0 := hcmds 0 id (by simp)
    simp only [Nat.add_zero] at h0
    obtain ⟨sa, fa, a1, a2, a3, a4, a5, a6⟩ := parse_items i items e (trackFuel s1) s1 hsane1 (by rw [hs1]) hoff1 hsuf1 h0.1
      (by rw [hgt1]; exact h0.2) hfuel
    obtain ⟨s2, hp2, hm2, ht2⟩ := parse_toks_nil e fa sa he a3 (by omega)
    have hmv : Moved s1 s2 := a5.trans hm2
    have hres : (getTrack s2).strip = runCmds (trackOf id s).strip (selCmds i items) := by rw [ht2, a6, hgt1]
    have hctl := hmv.ctl
    have hpt : parseMmlTrack s1 = .ok () s2 := by
      unfold parseMmlTrack; rw [bind_ok (getS_run s1), a1]; exact hp2
    have hcond : s2.conditionalBlock = false := hctl.cond.trans (by subst hs1; rfl)
    have hid1 : s1.trackId = id := by rw [hs1]
    have hlk12 : ∀ b, b ≠ id → s2.song.tracks.lookup b = s.song.tracks.lookup b := by
      intro b hb
      rw [hctl.others b (by rw [hid1]; exact hb), hs1]
      exact lookup_makeTrack_ne b id s.song hb
    have hppqn2 : s2.song.ppqn = s.song.ppqn := by rw [hctl.ppqn, hs1]; exact hmk.2
    have hkeep2 : LoopKeeps s s2 := ⟨hctl.trackList.trans (by subst hs1; rfl), hctl.lastCmd.trans (by subst hs1; rfl), hppqn2,
      hctl.line.trans (by subst hs1; rfl), hctl.buf.trans (by subst hs1; rfl)⟩
    have hnd' := List.nodup_cons.mp hnd
    obtain ⟨s', hloop, hkeep, hall, hfr⟩ := ih (i + 1) s2 (by rw [hkeep2.buf]; exact hbytes) (by rw [hkeep2.buf]; exact hcol)
      (by rw [hkeep2.buf]; exact hdrop) hnd'.2 (by simp at hlen ⊢; omega)
      (fun j id' hid' => by
        have hmem : id' ∈ rest := List.mem_of_getElem? hid'
        have hne : id' ≠ id := fun e => hnd'.1 (e ▸ hmem)
        rw [trackOf_congr id' s s2 (hlk12 id' hne) hppqn2]
        have := hcmds (j + 1) id' (by simpa using hid')
        have e2 : i + (j + 1) = i + 1 + j := by omega
        rw [e2] at this
        exact this)
    refine ⟨s', ?_, hkeep2.trans hkeep, ?_, ?_⟩
    · rw [parseMmlLoop_cons, ← hs1, hpt]
      simp only [hcond, Bool.false_eq_true, if_false]
      exact hloop
    · intro j x hx
      cases j with
      | zero =>
        have hx' : x = id := by simpa using hx.symm
        subst hx'
        rw [trackOf_congr x s2 s' (hfr x hnd'.1) hkeep.ppqn]
        have : trackOf x s2 = getTrack s2 := by unfold trackOf getTrack; rw [hctl.trackId, hid1]
        rw [this, hres]; rfl
      | succ j =>
        have hx' : rest[j]? = some x := by simpa using hx
        have hmem : x ∈ rest := List.mem_of_getElem? hx'
        have hne : x ≠ id := fun e => hnd'.1 (e ▸ hmem)
        have e2 : i + (j + 1) = i + 1 + j := by omega
        rw [hall j x hx', trackOf_congr x s s2 (hlk12 x hne) hppqn2, e2]
    · intro b hb
      simp at hb
      rw [hfr b hb.2, hlk12 b hb.1]

theorem itemsOk_dropLead (j : Nat) (items : List Item) (e : List Nat) (h : ItemsOk j items e) : ItemsOk j (dropLead items) e := by
  cases items with
  | nil => exact h
  | cons it rest =>
    cases it with
    | toks ts => exact ⟨toksOk_drop ts _ h.1 _, h.2.1, h.2.2⟩
    | block alts => exact h

/-- the body behind the header's blank: its leading blanks, then the rest -/
theorem items_lead (items : List Item) (e : List Nat) (j : Nat) (hok : ItemsOk j items e)
    (hcov : ∀ c ∈ selCmds j items, LCovered c) (he : StopEnd e) :
    ∃ bl, itemsText items e = bl ++ itemsText (dropLead items) e ∧ bl.length = leadOf items ∧ (∀ x ∈ bl, x = 32 ∨ x = 9) ∧
      (itemsText (dropLead items) e = [] ∨ ∃ c r, itemsText (dropLead items) e = c :: r ∧ Stop c) := by
  cases items with
  | nil => exact ⟨[], rfl, rfl, fun x hx => by simp at hx, he⟩
  | cons it rest =>
    cases it with
    | toks ts =>
      have hcov' : ∀ c ∈ cmdsOf ts, LCovered c := fun c hc => hcov c (by rw [selCmds_cons]; simp [Item.sel, hc])
      obtain ⟨bl, rs, h1, h2, h3, h4⟩ := toks_shape ts (itemsText rest e) hok.1 hcov' hok.2.1
      have hd := (toks_drop_lead ts (itemsText rest e) (leadBlanks ts) (Nat.le_refl _)).1
      have hrs : rs = toksText (ts.drop (leadBlanks ts)) (itemsText rest e) := by
        rw [← hd, h1, ← h2]; simp
      refine ⟨bl, ?_, h2, h3, ?_⟩
      · show toksText ts (itemsText rest e) = bl ++ toksText (ts.drop (leadBlanks ts)) (itemsText rest e)
        rw [h1, hrs]
      · show toksText (ts.drop (leadBlanks ts)) (itemsText rest e) = [] ∨
            ∃ c r, toksText (ts.drop (leadBlanks ts)) (itemsText rest e) = c :: r ∧ Stop c
        rw [← hrs]; exact h4
    | block alts =>
      obtain ⟨r, hr⟩ := blockText_head alts (itemsText rest e)
      exact ⟨[], rfl, rfl, fun x hx => by simp at hx, Or.inr ⟨123, r, hr, by simp [Stop]⟩⟩

/-! ### whole lines -/

/-- from the blank behind the header (or at the start of a continuation line) to the end of the line -/
theorem lineTail_run_items (ids : List Nat) (s : MmlState) (hs : Sane s) (b : Nat) (hb : b = 32 ∨ b = 9) (items : List Item) (e : List Nat)
    (he : EndOk e) (hsuf : suffix s = b :: itemsText items e) (hready : Ready ids s) (hnd : ids.Nodup) (hlen : ids.length ≤ 65536)
    (hcmds : ∀ j id, ids[j]? = some id → ItemsOk j items e ∧ CmdsOk (trackOf id s).strip (selCmds j items)) (hne : ids ≠ []) :
    ∃ s', lineTail s = .ok () s' ∧ LineResI ids (fun j => selCmds j items) s s' ∧ Ready ids s' := by
  obtain ⟨id0, hid0⟩ : ∃ id0, ids[0]? = some id0 := by
    cases ids with
    | nil => exact absurd rfl hne
    | cons a _ => exact ⟨a, rfl⟩
  have h0 := hcmds 0 id0 hid0
  have hcov0 : ∀ c ∈ selCmds 0 items, LCovered c := cmdsOk_covered _ _ h0.2
  obtain ⟨bl, h1, h2, h3, h4⟩ := items_lead items e 0 h0.1 hcov0 (stopEnd_of_endOk he)
  rw [lineTail_shape s hs b hb bl _ h3 h4 (by rw [hsuf, h1]) hready.2]
  by_cases hnil : itemsText (dropLead items) e = []
  · simp only [hnil, if_true]
    refine ⟨_, rfl, ⟨fun j id hid => ?_, fun _ _ => rfl, rfl⟩, hready⟩
    have hc := hcmds j id hid
    have : selCmds j items = [] := by
      rw [← selCmds_dropLead]
      exact itemsText_nil_sel j _ e hnil (by rw [selCmds_dropLead]; exact cmdsOk_covered _ _ hc.2)
    simp only [this]
    rfl
  · simp only [hnil, if_false]
    have hle : bl.length ≤ (itemsText items e).length := by rw [h1]; simp
    have hs4 : Sane (adv s (1 + bl.length)) := sane_adv s hs _ (by rw [hsuf]; simp; omega)
    have hsuf4 : suffix (adv s (1 + bl.length)) = itemsText (dropLead items) e := by
      rw [suffix_adv, hsuf, h1, Nat.add_comm]; simp
    obtain ⟨s', hp, hkeep, hall, hfr⟩ := parseMmlLoop_items (dropLead items) e (s.inp.lb.column + (1 + bl.length)) he
      s.trackList 0 (adv s (1 + bl.length)) hs4.bytes hs4.inl hsuf4
      (by rw [hready.1]; exact hnd) (by rw [hready.1]; omega)
      (fun j id hid => by
        rw [hready.1] at hid
        have := hcmds j id hid
        simp only [Nat.zero_add, selCmds_dropLead]
        exact ⟨itemsOk_dropLead j items e this.1, this.2⟩)
    rw [hready.1] at hall hfr
    refine ⟨s', hp, ⟨fun j id hid => ?_, hfr, hkeep.ppqn⟩, ⟨hkeep.trackList.trans hready.1, hkeep.lastCmd.trans hready.2⟩⟩
    have := hall j id hid
    simp only [Nat.zero_add, selCmds_dropLead] at this
    exact this

/-- a well-formed line addressed to the tracks `ids` -/
def BLineOk (ids : List Nat) : BLine → Prop
  | .hdr as b items e => as ≠ [] ∧ HeaderOk as ∧ as.map Addr.id = ids ∧ (b = 32 ∨ b = 9) ∧ (∀ j, j < ids.length → ItemsOk j items e) ∧
      EndOk e ∧ Bytes (headerBytes as ++ b :: itemsText items e)
  | .cont b items e => (b = 32 ∨ b = 9) ∧ (∀ j, j < ids.length → ItemsOk j items e) ∧ EndOk e ∧ Bytes (b :: itemsText items e)
  | .empty => True
  | .comment _ => True

def BLinesOk (ids : List Nat) : Bool → List BLine → Prop
  | _, [] => True
  | r, l :: ls => BLineOk ids l ∧ (l.isCont = true → r = true) ∧ BLinesOk ids (r || l.isHdr) ls

theorem readBLine (ids : List Nat) (hnd : ids.Nodup) (hne : ids ≠ []) (hlen : ids.length ≤ 65536) (l : BLine) (n : Nat) (s : MmlState) (r : Bool)
    (hline : BLineOk ids l) (hcont : l.isCont = true → r = true) (hready : r = true → Ready ids s)
    (hcmds : ∀ j id, ids[j]? = some id → CmdsOk (trackOf id s).strip (l.cmds j)) :
    ∃ s1, readLine l.text n s = .ok () s1 ∧ LineResI ids (fun j => l.cmds j) s s1 ∧ ((r || l.isHdr) = true → Ready ids s1) := by
  cases l with
  | hdr as b items e =>
    obtain ⟨hne', hhdr, hids, hb, hitems, he, hbytes⟩ := hline
    obtain ⟨s3, h1, h2, h3, h4, h5⟩ := readLine_hdr_tail as b (itemsText items e) n s hne' hhdr hb hbytes
    rw [hids] at h4
    have htr : ∀ id, trackOf id s3 = trackOf id s := by intro id; unfold trackOf; rw [h5]
    obtain ⟨s', hrun, hres, hready'⟩ := lineTail_run_items ids s3 h2 b hb items e he h3 h4 hnd hlen
      (fun j id hid => ⟨hitems j (getElem?_lt ids j id hid), by rw [htr id]; exact hcmds j id hid⟩) hne
    refine ⟨s', by show readLine (headerBytes as ++ b :: itemsText items e) n s = _; rw [h1]; exact hrun, ⟨?_, ?_, ?_⟩, fun _ => hready'⟩
    · intro j id hid; rw [hres.tracks j id hid, htr id]; rfl
    · intro b' hb'; rw [hres.others b' hb', h5]
    · rw [hres.ppqn, h5]
  | cont b items e =>
    obtain ⟨hb, hitems, he, hbytes⟩ := hline
    have hr : r = true := hcont rfl
    obtain ⟨s0, hs0⟩ : ∃ s0 : MmlState, s0 = { s with inp := { lb := { buf := b :: itemsText items e, column := 0 }, line := n } } := ⟨_, rfl⟩
    have hsane0 : Sane s0 := by rw [hs0]; exact ⟨hbytes, Nat.zero_le _⟩
    have htr : ∀ id, trackOf id s0 = trackOf id s := by intro id; subst hs0; rfl
    obtain ⟨s', hrun, hres, hready'⟩ := lineTail_run_items ids s0 hsane0 b hb items e he (by rw [hs0]; rfl) (by rw [hs0]; exact hready hr) hnd hlen
      (fun j id hid => ⟨hitems j (getElem?_lt ids j id hid), by rw [htr id]; exact hcmds j id hid⟩) hne
    refine ⟨s', ?_, ⟨?_, ?_, ?_⟩, fun _ => hready'⟩
    · show readLine (b :: itemsText items e) n s = _
      rw [readLine_cont_tail b _ n s hb hbytes, ← hs0]; exact hrun
    · intro j id hid; rw [hres.tracks j id hid, htr id]; rfl
    · intro b' hb'; rw [hres.others b' hb']; subst hs0; rfl
    · rw [hres.ppqn]; subst hs0; rfl
  | empty =>
    refine ⟨_, readLine_empty n s, ⟨fun _ _ _ => rfl, fun _ _ => rfl, rfl⟩, fun h => ?_⟩
    have hr : r = true := by simpa [BLine.isHdr] using h
    exact hready hr
  | comment c =>
    refine ⟨_, readLine_comment c n s, ⟨fun _ _ _ => rfl, fun _ _ => rfl, rfl⟩, fun h => ?_⟩
    have hr : r = true := by simpa [BLine.isHdr] using h
    exact hready hr

/-- a whole layout with conditional blocks: the track at position `j` of the track list receives
the builder calls of its own selection of the layout's commands, in order; no other track changes -/
theorem readLines_blayout (ids : List Nat) (hnd : ids.Nodup) (hne : ids ≠ []) (hlen : ids.length ≤ 65536) :
    ∀ (ls : List BLine) (n : Nat) (s : MmlState) (r : Bool),
    BLinesOk ids r ls → (r = true → Ready ids s) → (∀ j id, ids[j]? = some id → CmdsOk (trackOf id s).strip (blayoutCmds j ls)) →
    ∃ s', readLines n (ls.map BLine.text) s = .ok () s' ∧ LineResI ids (fun j => blayoutCmds j ls) s s' := by
  intro ls
  induction ls with
  | nil => intro n s r _ _ _; exact ⟨s, rfl, ⟨fun _ _ _ => rfl, fun _ _ => rfl, rfl⟩⟩
  | cons l ls ih =>
    intro n s r hok hready hcmds
    obtain ⟨hline, hcont, hrest⟩ := hok
    have hsplit : ∀ j id, ids[j]? = some id → CmdsOk (trackOf id s).strip (l.cmds j) ∧ CmdsOk (runCmds (trackOf id s).strip (l.cmds j)) (blayoutCmds j ls) := by
      intro j id hid
      have := hcmds j id hid
      simp only [blayoutCmds, List.flatMap_cons] at this
      exact (cmdsOk_append _ _ _).mp this
    obtain ⟨s1, h1, hres1, hready1⟩ := readBLine ids hnd hne hlen l n s r hline hcont hready (fun j id hid => (hsplit j id hid).1)
    obtain ⟨s', h2, hres2⟩ := ih (n + 1) s1 (r || l.isHdr) hrest hready1
      (fun j id hid => by rw [hres1.tracks j id hid]; exact (hsplit j id hid).2)
    refine ⟨s', ?_, ?_⟩
    · show readLines n (l.text :: ls.map BLine.text) s = _
      rw [readLines_cons n _ _ s s1 h1]; exact h2
    · have := hres1.trans hres2
      simpa [blayoutCmds] using this

/-! ### round 5, first part ⇒ here (no side condition) -/

theorem itemsOk_of_v2 (i : Nat) : ∀ (items : List Item) (e : List Nat), L2.ItemsOk i items e → ItemsOk i items e := by
  intro items
  induction items with
  | nil => intro _ _; trivial
  | cons it rest ih =>
    intro e h
    cases it with
    | toks ts =>
      obtain ⟨h1, h2, h3⟩ := h
      exact ⟨toksOk_of_v2 ts _ h1, h2, ih e h3⟩
    | block alts =>
      obtain ⟨h1, h2, h3, h4⟩ := h
      exact ⟨h1, h2, toksOk_of_v2 _ _ h3, ih e h4⟩

theorem blineOk_of_v2 (ids : List Nat) (l : BLine) (h : L2.BLineOk ids l) : BLineOk ids l := by
  cases l with
  | hdr as b items e =>
    obtain ⟨h1, h2, h3, h4, h5, h6, h7⟩ := h
    exact ⟨h1, h2, h3, h4, fun j hj => itemsOk_of_v2 j items e (h5 j hj), h6, h7⟩
  | cont b items e =>
    obtain ⟨h1, h2, h3, h4⟩ := h
    exact ⟨h1, fun j hj => itemsOk_of_v2 j items e (h2 j hj), h3, h4⟩
  | empty => trivial
  | comment _ => trivial

theorem blinesOk_of_v2 (ids : List Nat) (ls : List BLine) : ∀ (r : Bool), L2.BLinesOk ids r ls → BLinesOk ids r ls := by
  induction ls with
  | nil => intro r _; trivial
  | cons l ls ih =>
    intro r h
    exact ⟨blineOk_of_v2 ids l h.1, h.2.1, ih _ h.2.2⟩

/-! ### decidability -/

instance decItemsOk (i : Nat) : (items : List Item) → (e : List Nat) → Decidable (ItemsOk i items e)
  | [], _ => isTrue trivial
  | .toks ts :: rest, e =>
    have := decItemsOk i rest e
    inferInstanceAs (Decidable (ToksOk ts (itemsText rest e) ∧ StopEnd (itemsText rest e) ∧ ItemsOk i rest e))
  | .block alts :: rest, e =>
    have := decItemsOk i rest e
    inferInstanceAs (Decidable (i < alts.length ∧ (∀ a ∈ alts, Clean (altText a)) ∧
      ToksOk (alts.getD i []) (afterText (alts.drop (i + 1)) (itemsText rest e)) ∧ ItemsOk i rest e))

instance decBLineOk (ids : List Nat) : (l : BLine) → Decidable (BLineOk ids l)
  | .hdr as b items e => inferInstanceAs (Decidable (as ≠ [] ∧ HeaderOk as ∧ as.map Addr.id = ids ∧ (b = 32 ∨ b = 9) ∧
      (∀ j, j < ids.length → ItemsOk j items e) ∧ EndOk e ∧ Bytes (headerBytes as ++ b :: itemsText items e)))
  | .cont b items e => inferInstanceAs (Decidable ((b = 32 ∨ b = 9) ∧ (∀ j, j < ids.length → ItemsOk j items e) ∧ EndOk e ∧
      Bytes (b :: itemsText items e)))
  | .empty => isTrue trivial
  | .comment _ => isTrue trivial

instance decBLinesOk (ids : List Nat) : (r : Bool) → (ls : List BLine) → Decidable (BLinesOk ids r ls)
  | _, [] => isTrue trivial
  | r, l :: ls =>
    have := decBLinesOk ids (r || l.isHdr) ls
    inferInstanceAs (Decidable (BLineOk ids l ∧ (l.isCont = true → r = true) ∧ BLinesOk ids (r || l.isHdr) ls))


end Ctrmml.Mml.L2.W
