/- Helper lemmas for Properties/C15 (no property statements here): the outcome algebra of the
pipeline model and the per-stage facts that need no other property's theorems. -/
import Ctrmml.Model.Pipeline
import Ctrmml.Proofs.WaveReader
namespace Ctrmml.Pipeline
open Ctrmml

theorem Out.bind_routed {α β : Type} (x : Out α) (g : α → Out β)
    (hx : x.routed) (hg : ∀ a, x = .ok a → (g a).routed) : (x.bind g).routed := by
  cases x with
  | ok a => exact hg a rfl
  | inputError m => exact hx
  | foreign k => exact hx.elim

theorem Out.map_routed {α β : Type} (x : Out α) (g : α → β) (hx : x.routed) : (x.map g).routed := by
  cases x with
  | ok a => trivial
  | inputError m => exact hx
  | foreign k => exact hx.elim

theorem playerMsg_ne_empty (e : Player.PErr) : playerMsg e ≠ "" := by
  cases e <;> decide

/-- `load_file` + `read` on any byte string: a decoded file or "not found" -/
theorem loadWav_total (f : Bytes) : ∃ r, loadWav f = .ok r := by
  unfold loadWav
  split
  · exact ⟨none, rfl⟩
  · exact Wave.readWav_total f

theorem loadSample_routed (file : Option Bytes) : (loadSample file).routed := by
  unfold loadSample
  cases file with
  | none => simp [Out.routed]
  | some f =>
    obtain ⟨r, hr⟩ := loadWav_total f
    simp only [hr]
    cases r <;> simp [Out.routed]

end Ctrmml.Pipeline
