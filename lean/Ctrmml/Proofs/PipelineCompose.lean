/- Helper definitions and lemmas for Properties/C15: what the composition still assumes about the
export stages (`StageHyps`) and the routedness of the export stages under it. -/
import Ctrmml.Proofs.PipelineBank
namespace Ctrmml.Pipeline
open Ctrmml

/-! ### the export stages: what is still assumed -/

/-- the only outcomes of the converter model that are neither a value nor an `InputError` of the
C++ and are not excluded by a theorem: the fixed budgets of the MODEL's track writer (20 000 000
player steps per stream, recursion depth 64 — the C++ has no such budget; its writer runs the
same player over the same track as the validator did).
Excluded by theorems: `FErr.riff`, `FErr.codec .atEmpty` (Proofs/PipelineMds), `FErr.bankIndex`,
`FErr.writer (.player .impossible)` (Proofs/PipelineBank, PipelineWriter); `FErr.headerWrap` and
`FErr.codec .stackEmpty` are `InputError`s since repository fixes 5952bf5 / 3e0ed67. -/
def ferrIsBudget : MdsFile.FErr → Bool
  | .writer .fuel | .writer (.player .fuel) => true
  | _ => false

/-- the model's writer budgets suffice -/
def MdsBudgetOK : Prop :=
  ∀ inp : MdsFile.Input, match MdsFile.exportMds MdsData.Arith.float inp with
    | .error e => ferrIsBudget e = false
    | .ok _ => True

/-- the driver model never reports `vector::at` out of range, a non-integer step or a writer fault -/
def VgmNoUB : Prop :=
  ∀ (d : MdDriver.Data) (song : Song) (m : MdDriver.TagMap) (st : MdDriver.Stamps),
    match MdDriver.exportSong d song m st with
    | .error .oob | .error .nonInteger | .error (.vgm _) => False
    | _ => True

/-- the linker accepts what the converter wrote, or rejects it with an `InputError` -/
def LinkOK : Prop :=
  ∀ (inp : MdsFile.Input) (o : MdsFile.Output), MdsFile.exportMds MdsData.Arith.float inp = .ok o → (linkStage o.file).routed

/-- what the composition assumes about the stages that are not (yet) under a theorem -/
structure StageHyps (u : Residual) (fmt : Format) : Prop where
  /-- only the mds export (formats `mds` and `link`) runs the converter -/
  mdsBudget : fmt ≠ .vgm → MdsBudgetOK
  vgmNoUB : fmt = .vgm → VgmNoUB
  linkOK : fmt = .link → LinkOK
  vgmPlay : ∀ inp d, (u.vgmPlay inp d).routed
  mdsGap : ∀ inp, (u.mdsGap inp).routed

theorem ferrOut_routed {α : Type} (inp : MdsFile.Input) (gap : MdsFile.Input → Out α)
    (e : MdsFile.FErr) (hg : e = .dataUnsupported → (gap inp).routed) (he : ferrIsBudget e = false) (hr : ∀ r, e ≠ .riff r) (ha : e ≠ .codec .atEmpty)
    (hb : e ≠ .bankIndex) (hi : e ≠ .writer (.player .impossible)) :
    (ferrOut inp gap e).routed := by
  cases e with
  | data => simp [ferrOut, Out.routed]
  | dataUnsupported => exact hg rfl
  | writer w =>
    cases w with
    | player p => cases p <;> first | (exact absurd he (by decide)) | (exact absurd rfl hi) | (simp only [ferrOut, Out.routed]; exact playerMsg_ne_empty _)
    | fuel => simp [ferrIsBudget] at he
    | _ => simp [ferrOut, Out.routed]
  | codec c =>
    cases c with
    | atEmpty => exact absurd rfl ha
    | stackEmpty => simp [ferrOut, Out.routed]
  | indexRange => simp [ferrOut, Out.routed]
  | headerWrap => simp [ferrOut, Out.routed]
  | seqTooLarge => simp [ferrOut, Out.routed]
  | bankIndex => exact absurd rfl hb
  | riff r => exact absurd rfl (hr r)

theorem exportMdsStage_routed (u : Residual) {fmt : Format} (hu : StageHyps u fmt) (hf : fmt ≠ .vgm)
    (inp : MdsFile.Input) (gap : Bool) : (exportMdsStage u inp gap).routed := by
  unfold exportMdsStage
  split
  · exact hu.mdsGap inp
  · have h := hu.mdsBudget hf inp
    obtain ⟨h3, h4⟩ := exportMds_no_bank_no_at inp
    split
    · trivial
    · rename_i e he
      rw [he] at h h3 h4
      obtain ⟨h1, h2⟩ := exportMds_err inp e he
      exact ferrOut_routed inp u.mdsGap e (fun _ => hu.mdsGap inp) h h1 h2 (fun hb => h3 (by rw [hb])) (fun hi => h4 (by rw [hi]))

theorem exportVgmStage_routed (u : Residual) {fmt : Format} (hu : StageHyps u fmt) (hf : fmt = .vgm) (inp : MdsFile.Input)
    (tm : MdDriver.TagMap) : (exportVgmStage u inp tm).routed := by
  unfold exportVgmStage
  split
  · rename_i d hd
    have h := hu.vgmNoUB hf (driverDataOf d inp.files inp.tags) inp.song tm vgmStamps
    split
    · exact hu.vgmPlay _ _
    split
    · trivial
    · simp [Out.routed]
    · exact hu.vgmPlay _ _
    · exact hu.vgmPlay _ _
    · rename_i he; rw [he] at h; exact h.elim
    · rename_i he; rw [he] at h; exact h.elim
    · rename_i he; rw [he] at h; exact h.elim
  · simp [Out.routed]
  · exact hu.mdsGap inp

theorem ferrOut_ok {α : Type} {inp : MdsFile.Input} {gap : MdsFile.Input → Out α} {e : MdsFile.FErr} {x : α}
    (h : ferrOut inp gap e = .ok x) : e = .dataUnsupported := by
  cases e with
  | dataUnsupported => rfl
  | data => simp [ferrOut] at h
  | writer w =>
    cases w with
    | player p => cases p <;> simp [ferrOut] at h
    | fuel => simp [ferrOut] at h
    | _ => simp [ferrOut] at h
  | codec c => cases c <;> simp [ferrOut] at h
  | indexRange => simp [ferrOut] at h
  | headerWrap => simp [ferrOut] at h
  | seqTooLarge => simp [ferrOut] at h
  | bankIndex => simp [ferrOut] at h
  | riff r => simp [ferrOut] at h

/-- inside the converter's models a successful export stage is the model's output file -/
theorem exportMdsStage_ok {u : Residual} {inp : MdsFile.Input} {gap : Bool} {mds : Bytes}
    (hin : mdsOutside inp gap = false) (h : exportMdsStage u inp gap = .ok mds) :
    ∃ o, MdsFile.exportMds MdsData.Arith.float inp = .ok o ∧ o.file = mds := by
  unfold mdsOutside at hin
  simp only [Bool.or_eq_false_iff] at hin
  obtain ⟨hg, hd⟩ := hin
  unfold exportMdsStage at h
  rw [if_neg (by simp [hg])] at h
  split at h
  · rename_i o ho
    injection h with h
    exact ⟨o, ho, h⟩
  · rename_i e he
    rw [he, ferrOut_ok h] at hd
    simp at hd

end Ctrmml.Pipeline
