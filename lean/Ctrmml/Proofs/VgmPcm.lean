/-
  Helper lemmas for C08, PCM clause: the data bank and the stream windows a VGM reader finds in
  the command list of an exporter operation sequence (`expected`), in terms of the operations.
  No property statements here.
-/
import Ctrmml.Proofs.VgmInv
namespace Ctrmml.Vgm
open Ctrmml Ctrmml.VgmSpec

/-- the windows the stream-start commands of `cs` address in a bank `bank` -/
def windowsIn (bank : Bytes) (cs : List (Nat × Cmd)) : List Bytes :=
  cs.filterMap fun p => match p.2 with
    | .dacStart _ st _ len => some ((bank.drop st).take len)
    | _ => none

theorem streamWindows_eq (cs : List (Nat × Cmd)) : streamWindows cs = windowsIn (bankOf cs) cs := rfl

theorem windowsIn_append (bank : Bytes) (a b : List (Nat × Cmd)) :
    windowsIn bank (a ++ b) = windowsIn bank a ++ windowsIn bank b := by
  simp [windowsIn, List.filterMap_append]

theorem bankOf_append (a b : List (Nat × Cmd)) : bankOf (a ++ b) = bankOf a ++ bankOf b := by
  induction a with
  | nil => rfl
  | cons c a ih =>
    obtain ⟨k, cmd⟩ := c
    cases cmd <;> simp only [List.cons_append, bankOf, ih]
    split
    · simp
    · rfl

theorem bankOf_waits (a : List (Nat × Cmd)) (h : ∀ c ∈ a, ∃ n, c.2 = .wait n) : bankOf a = [] := by
  induction a with
  | nil => rfl
  | cons c a ih =>
    obtain ⟨n, hn⟩ := h c (by simp)
    obtain ⟨k, cmd⟩ := c
    simp only at hn; subst hn
    simp only [bankOf]
    exact ih (fun q hq => h q (by simp [hq]))

theorem windowsIn_waits (bank : Bytes) (a : List (Nat × Cmd)) (h : ∀ c ∈ a, ∃ n, c.2 = .wait n) : windowsIn bank a = [] := by
  induction a with
  | nil => rfl
  | cons c a ih =>
    obtain ⟨n, hn⟩ := h c (by simp)
    obtain ⟨k, cmd⟩ := c
    simp only at hn; subst hn
    simp only [windowsIn, List.filterMap_cons]
    exact ih (fun q hq => h q (by simp [hq]))

theorem bankOf_delay (q : Nat) : bankOf (delayCmds q) = [] :=
  bankOf_waits _ fun c hc => by obtain ⟨n, h, _⟩ := delayCmds_all_waits q c hc; exact ⟨n, h⟩

theorem windowsIn_delay (bank : Bytes) (q : Nat) : windowsIn bank (delayCmds q) = [] :=
  windowsIn_waits bank _ fun c hc => by obtain ⟨n, h, _⟩ := delayCmds_all_waits q c hc; exact ⟨n, h⟩

/-- the payloads of the type-0 data blocks of an operation sequence, concatenated -/
def xBank : List XOp → Bytes
  | [] => []
  | .datablock t p _ _ :: r => if t = 0 then p ++ xBank r else xBank r
  | _ :: r => xBank r

/-- (start, length) of the stream starts of an operation sequence, as the file stores them -/
def xStarts : List XOp → List (Nat × Nat)
  | [] => []
  | .dacStart _ st len _ :: r => (st % 4294967296, len % 4294967296) :: xStarts r
  | _ :: r => xStarts r

theorem bankOf_expected (xs : List XOp) (hv : ∀ x ∈ xs, x.valid) (p : Nat) : bankOf (expected p xs) = xBank xs := by
  induction xs generalizing p with
  | nil => rw [expected_nil]; exact bankOf_delay p
  | cons x r ih =>
    have hvr : ∀ y ∈ r, y.valid := fun y hy => hv y (by simp [hy])
    cases x with
    | delay n => exact ih hvr _
    | psg d => simp only [expected, bankOf_append, bankOf_delay, XOp.cmds, bankOf, List.nil_append, xBank]; exact ih hvr _
    | ym a b d => simp only [expected, bankOf_append, bankOf_delay, XOp.cmds, bankOf, List.nil_append, xBank]; exact ih hvr _
    | setLoop => simp only [expected, bankOf_append, bankOf_delay, XOp.cmds, bankOf, List.nil_append, xBank]; exact ih hvr _
    | dacSetup a b e d f => simp only [expected, bankOf_append, bankOf_delay, XOp.cmds, bankOf, List.nil_append, xBank]; exact ih hvr _
    | dacStart a b e d => simp only [expected, bankOf_append, bankOf_delay, XOp.cmds, bankOf, List.nil_append, xBank]; exact ih hvr _
    | dacStop a => simp only [expected, bankOf_append, bankOf_delay, XOp.cmds, bankOf, List.nil_append, xBank]; exact ih hvr _
    | datablock t pl m o =>
      have ht := (hv (.datablock t pl m o) (by simp)).1
      have hb : (byteOf t = 0) ↔ t = 0 := by
        constructor
        · intro hh
          have := congrArg UInt8.toNat hh
          rw [byteOf_toNat] at this
          simp at this; omega
        · intro hh; subst hh; rfl
      simp only [expected, bankOf_append, bankOf_delay, XOp.cmds, bankOf, List.nil_append, xBank, ih hvr]
      by_cases h0 : t = 0
      · subst h0
        have : byteOf 0 = 0 := rfl
        simp [this]
      · simp [h0, show ¬ byteOf t = 0 from fun hh => h0 (hb.mp hh)]

theorem windowsIn_expected (bank : Bytes) (xs : List XOp) (p : Nat) :
    windowsIn bank (expected p xs) = (xStarts xs).map fun q => (bank.drop q.1).take q.2 := by
  induction xs generalizing p with
  | nil => rw [expected_nil]; exact windowsIn_delay bank p
  | cons x r ih =>
    cases x with
    | delay n => exact ih _
    | psg d => simp only [expected, windowsIn_append, windowsIn_delay, XOp.cmds, List.nil_append, xStarts, ih]; rfl
    | ym a b d => simp only [expected, windowsIn_append, windowsIn_delay, XOp.cmds, List.nil_append, xStarts, ih]; rfl
    | setLoop => simp only [expected, windowsIn_append, windowsIn_delay, XOp.cmds, List.nil_append, xStarts, ih]; rfl
    | dacSetup a b e d f => simp only [expected, windowsIn_append, windowsIn_delay, XOp.cmds, List.nil_append, xStarts, ih]; rfl
    | dacStart a b e d => simp only [expected, windowsIn_append, windowsIn_delay, XOp.cmds, List.nil_append, xStarts, ih]; rfl
    | dacStop a => simp only [expected, windowsIn_append, windowsIn_delay, XOp.cmds, List.nil_append, xStarts, ih]; rfl
    | datablock t pl m o => simp only [expected, windowsIn_append, windowsIn_delay, XOp.cmds, List.nil_append, xStarts, ih]; rfl

end Ctrmml.Vgm
