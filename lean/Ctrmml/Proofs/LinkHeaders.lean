/-
  Helper lemmas for C10: the generated assembly and C headers read back by the spec's header reader
  `LinkSpec.resolveHeaders` — decimal numbers, line splitting, the two line formats, valid symbols,
  distinct names, the group prefix of every song name, and the per-group shape (MIN, songs, MAX).
  No property statements here.
-/
import Ctrmml.Proofs.LinkBank
namespace Ctrmml.Linker
open Ctrmml Ctrmml.LinkSpec

/-! ### decimal numbers -/

/-- the decimal digits of `n`, most significant first -/
def digitsOf (n : Nat) : Bytes :=
  if h : n < 10 then [UInt8.ofNat (48 + n)] else digitsOf (n / 10) ++ [UInt8.ofNat (48 + n % 10)]
decreasing_by omega

theorem decAux_eq (f n : Nat) (acc : Bytes) (hf : n + 1 ≤ f) : decAux f n acc = digitsOf n ++ acc := by
  induction f generalizing n acc with
  | zero => omega
  | succ f ih =>
    unfold decAux
    simp only
    by_cases h : n / 10 = 0
    · rw [if_pos h]
      have hn : n < 10 := by omega
      rw [digitsOf, dif_pos hn]
      have : n % 10 = n := Nat.mod_eq_of_lt hn
      rw [this]; rfl
    · rw [if_neg h]
      have hn : ¬ n < 10 := by omega
      rw [ih (n / 10) _ (by omega)]
      conv => rhs; rw [digitsOf, dif_neg hn]
      simp

theorem decimal_eq (n : Nat) : decimal n = digitsOf n := by
  unfold decimal
  rw [decAux_eq _ _ _ (Nat.le_refl _)]
  simp

def digitStep (acc : Option Nat) (c : UInt8) : Option Nat :=
  match acc with
  | none => none
  | some v => if 48 ≤ c.toNat ∧ c.toNat ≤ 57 then some (v * 10 + (c.toNat - 48)) else none

theorem digits_fold (n : Nat) : (digitsOf n).foldl digitStep (some 0) = some n ∧ digitsOf n ≠ [] := by
  induction n using Nat.strongRecOn with
  | _ n ih =>
    rw [digitsOf]
    by_cases h : n < 10
    · rw [dif_pos h]
      refine ⟨?_, by simp⟩
      simp only [List.foldl_cons, List.foldl_nil, digitStep]
      have : (UInt8.ofNat (48 + n)).toNat = 48 + n := by simp; omega
      rw [this, if_pos (by omega)]
      congr 1; omega
    · rw [dif_neg h]
      refine ⟨?_, by simp⟩
      rw [List.foldl_append, (ih (n / 10) (by omega)).1]
      simp only [List.foldl_cons, List.foldl_nil, digitStep]
      have : (UInt8.ofNat (48 + n % 10)).toNat = 48 + n % 10 := by simp; omega
      rw [this, if_pos (by omega)]
      congr 1; omega

theorem natOfDigits_decimal (n : Nat) : natOfDigits (decimal n) = some n := by
  rw [decimal_eq]
  obtain ⟨h1, h2⟩ := digits_fold n
  unfold natOfDigits
  have : (digitsOf n).isEmpty = false := by
    cases h : digitsOf n with
    | nil => exact absurd h h2
    | cons _ _ => rfl
  rw [this]
  simp only [Bool.false_eq_true, if_false]
  exact h1

/-! ### splitting at a separator -/

theorem splitOn_ne_nil (sep : UInt8) (b : Bytes) : splitOn sep b ≠ [] := by
  cases b with
  | nil => simp [splitOn]
  | cons c r =>
    unfold splitOn
    split
    · simp
    · split <;> simp

theorem splitOn_none (sep : UInt8) (a : Bytes) (h : sep ∉ a) : splitOn sep a = [a] := by
  induction a with
  | nil => rfl
  | cons c r ih =>
    have hc : c ≠ sep := fun e => h (by rw [e]; exact List.mem_cons_self ..)
    unfold splitOn
    rw [ih (fun hm => h (List.mem_cons_of_mem _ hm))]
    simp [hc]

theorem splitOn_cons (sep : UInt8) (a rest : Bytes) (h : sep ∉ a) :
    splitOn sep (a ++ sep :: rest) = a :: splitOn sep rest := by
  induction a with
  | nil =>
    simp only [List.nil_append]
    rw [splitOn]
    cases hs : splitOn sep rest with
    | nil => exact absurd hs (splitOn_ne_nil sep rest)
    | cons x xs => simp
  | cons c r ih =>
    have hc : c ≠ sep := fun e => h (by rw [e]; exact List.mem_cons_self ..)
    simp only [List.cons_append]
    rw [splitOn, ih (fun hm => h (List.mem_cons_of_mem _ hm))]
    simp [hc]

/-- a text made of newline-terminated lines without inner newlines splits into exactly those lines -/
theorem linesOf_flatMap {α : Type} (ds : List α) (L : α → Bytes) (h : ∀ d ∈ ds, (10 : UInt8) ∉ L d) :
    linesOf (ds.flatMap fun d => L d ++ [10]) = some (ds.map L) := by
  have hs : splitOn 10 (ds.flatMap fun d => L d ++ [10]) = ds.map L ++ [[]] := by
    induction ds with
    | nil => rfl
    | cons d ds ih =>
      simp only [List.flatMap_cons, List.append_assoc, List.singleton_append, List.map_cons, List.cons_append]
      rw [splitOn_cons 10 (L d) _ (h d (List.mem_cons_self ..)), List.nil_append, ih (fun x hx => h x (List.mem_cons_of_mem _ hx))]
  unfold linesOf
  rw [hs]
  simp

/-! ### characters of names and numbers -/

theorem good_class : ∀ n, n < 256 → good (UInt8.ofNat n) = true →
    (n ≠ 32 ∧ n ≠ 10 ∧ ((65 ≤ n ∧ n ≤ 90) ∨ n = 95 ∨ (48 ≤ n ∧ n ≤ 57))) ∧ (isDigit (UInt8.ofNat n) = decide (48 ≤ n ∧ n ≤ 57)) := by
  decide +kernel

theorem good_facts (c : UInt8) (h : good c = true) :
    c ≠ 32 ∧ c ≠ 10 ∧ ((65 ≤ c.toNat ∧ c.toNat ≤ 90) ∨ c.toNat = 95 ∨ (48 ≤ c.toNat ∧ c.toNat ≤ 57)) ∧
    (isDigit c = decide (48 ≤ c.toNat ∧ c.toNat ≤ 57)) := by
  have := good_class c.toNat c.toNat_lt (by simpa using h)
  simp only [UInt8.ofNat_toNat] at this
  obtain ⟨⟨h1, h2, h3⟩, h4⟩ := this
  refine ⟨?_, ?_, h3, h4⟩
  · intro e; rw [e] at h1; exact h1 rfl
  · intro e; rw [e] at h2; exact h2 rfl

theorem keyOk_chars {s : Bytes} (h : KeyOk s) : (32 : UInt8) ∉ s ∧ (10 : UInt8) ∉ s := by
  constructor
  · intro hm; exact (good_facts 32 (h.1 32 hm)).1 rfl
  · intro hm; exact (good_facts 10 (h.1 10 hm)).2.1 rfl

theorem decimal_chars (n : Nat) : (32 : UInt8) ∉ decimal n ∧ (10 : UInt8) ∉ decimal n := by
  constructor
  · intro hm; have := decimal_digits n 32 hm; revert this; decide
  · intro hm; have := decimal_digits n 10 hm; revert this; decide

theorem validSymbol_of (s : Bytes) (h : KeyOk s) (hne : s ≠ []) : validSymbol s = true := by
  cases s with
  | nil => exact absurd rfl hne
  | cons c r =>
    have hc := good_facts c (h.1 c (List.mem_cons_self ..))
    have hnd := h.2 c r rfl
    rw [hc.2.2.2] at hnd
    simp only [decide_eq_false_iff_not] at hnd
    simp only [validSymbol, Bool.and_eq_true, Bool.or_eq_true, decide_eq_true_eq, beq_iff_eq, List.all_eq_true]
    refine ⟨?_, ?_⟩
    · rcases hc.2.2.1 with h1 | h1 | h1
      · exact Or.inl h1
      · exact Or.inr h1
      · exact absurd h1 hnd
    · intro d hd
      have := (good_facts d (h.1 d (List.mem_cons_of_mem _ hd))).2.2.1
      rcases this with h1 | h1 | h1
      · exact Or.inl (Or.inl h1)
      · exact Or.inl (Or.inr h1)
      · exact Or.inr h1

theorem distinct_of (names : List Bytes) (h : names.Nodup) : distinct names = true := by
  induction names with
  | nil => rfl
  | cons a r ih =>
    have hn := List.nodup_cons.mp h
    simp only [distinct, Bool.and_eq_true, Bool.not_eq_true', ih hn.2, and_true]
    simpa using hn.1

/-! ### the two line formats -/

theorem asmLine_ok (name : Bytes) (v : Nat) (h : KeyOk name) :
    asmLine (name ++ ascii " = " ++ decimal v) = some (name, v) := by
  have e : ascii " = " = [32, 61, 32] := by decide
  have h1 := (keyOk_chars h).1
  have h2 := (decimal_chars v).1
  unfold asmLine
  rw [e, List.append_assoc]
  simp only [List.cons_append, List.nil_append]
  rw [splitOn_cons 32 name _ h1]
  have : splitOn 32 (61 :: 32 :: decimal v) = [[61], decimal v] := by
    have := splitOn_cons 32 [61] (decimal v) (by decide)
    simp only [List.cons_append, List.nil_append] at this
    rw [this, splitOn_none 32 _ h2]
  rw [this]
  simp only [show ([61] : Bytes) = cc "=" by decide, if_true, natOfDigits_decimal, Option.map_some]

theorem cLine_ok (name : Bytes) (v : Nat) (h : KeyOk name) :
    cLine (ascii "#define " ++ name ++ [32] ++ decimal v) = some (name, v) := by
  have e : ascii "#define " = cc "#define" ++ [32] := by decide
  have h1 := (keyOk_chars h).1
  have h2 := (decimal_chars v).1
  unfold cLine
  rw [e]
  simp only [List.append_assoc, List.cons_append, List.nil_append]
  rw [splitOn_cons 32 (cc "#define") _ (by decide), splitOn_cons 32 name _ h1, splitOn_none 32 _ h2]
  simp only [if_true, natOfDigits_decimal, Option.map_some]

/-! ### every song name begins with its group -/

theorem keyifyRaw_append (a b : Bytes) : keyifyRaw (a ++ b) = keyifyRaw a ++ keyifyRaw b := by
  induction a with
  | nil => rfl
  | cons c cs ih => rw [List.cons_append, keyifyRaw_cons, keyifyRaw_cons, ih, List.append_assoc]

theorem keyify_group_prefix (g fn : Bytes) (hk : KeyOk g) (hne : g ≠ []) : g ++ [95] <+: keyify (g ++ [95] ++ fn) := by
  have h95 : keyifyRaw [95] = [95] := by decide
  have hraw : keyifyRaw (g ++ [95] ++ fn) = g ++ [95] ++ keyifyRaw fn := by
    rw [keyifyRaw_append, keyifyRaw_append, keyifyRaw_fix g hk.1, h95]
  unfold keyify
  rw [hraw]
  cases g with
  | nil => exact absurd rfl hne
  | cons c cs =>
    simp only [List.cons_append]
    rw [if_neg (by rw [hk.2 c cs rfl]; simp)]
    exact ⟨keyifyRaw fn, by simp⟩

theorem uniqueGo_prefix (f : Nat) (input : Bytes) (m m' : Counter) (s : Bytes) (h : uniqueGo f input m = some (s, m')) :
    keyify input <+: s := by
  induction f generalizing input m with
  | zero => simp [uniqueGo] at h
  | succ f ih =>
    unfold uniqueGo at h
    simp only at h
    split at h
    · have := ih _ _ h
      rw [keyify_fix (suffix_ok (keyify_ok input) _)] at this
      exact List.IsPrefix.trans ⟨_, by rw [List.append_assoc]⟩ this
    · simp only [Option.some.injEq, Prod.mk.injEq] at h
      rw [← h.1]
      exact List.prefix_refl _

theorem songName_prefix (g fn : Bytes) (m m' : Counter) (name : Bytes) (hk : KeyOk g) (hne : g ≠ [])
    (h : uniqueString (g ++ [95] ++ fn) m = some (name, m')) : hasPrefix (g ++ [95]) name = true := by
  have h1 := uniqueGo_prefix _ _ _ _ _ h
  have h2 := (keyify_group_prefix g fn hk hne).trans h1
  unfold hasPrefix
  rw [← List.prefix_iff_eq_take.mp h2]
  simp

/-! ### the shape of the definitions -/

theorem headerSongs_shape (g : Bytes) (hk : KeyOk g) (hne : g ≠ []) (ss : List SeqData) (id : Nat) (m m' : Counter)
    (ds : List Def) (id' : Nat) (h : headerSongs g ss id m = some (ds, id', m')) (hs : id + ss.length < 65536) :
    id' = id + ss.length ∧ ds.length = ss.length ∧
    ((enumFrom (id + 1) ds).all fun p => p.2.2 == p.1 && hasPrefix (g ++ [95]) p.2.1) = true := by
  induction ss generalizing id m ds with
  | nil =>
    simp only [headerSongs, Option.some.injEq, Prod.mk.injEq] at h
    obtain ⟨rfl, rfl, _⟩ := h
    exact ⟨rfl, rfl, rfl⟩
  | cons s ss ih =>
    unfold headerSongs at h
    cases hu : uniqueString (g ++ [95] ++ s.filename) m with
    | none => rw [hu] at h; cases h
    | some r =>
      obtain ⟨name, m1⟩ := r
      rw [hu] at h
      simp only at h
      cases hr : headerSongs g ss (id + 1) m1 with
      | none => rw [hr] at h; cases h
      | some r2 =>
        obtain ⟨ds2, id2, m2⟩ := r2
        rw [hr] at h
        simp only [Option.some.injEq, Prod.mk.injEq] at h
        obtain ⟨rfl, rfl, rfl⟩ := h
        simp only [List.length_cons] at hs
        obtain ⟨i1, i2, i3⟩ := ih (id + 1) m1 ds2 hr (by omega)
        refine ⟨by rw [i1, List.length_cons]; omega, by simp [i2], ?_⟩
        simp only [enumFrom, List.all_cons, Bool.and_eq_true, beq_iff_eq]
        refine ⟨⟨Nat.mod_eq_of_lt (by omega), songName_prefix g s.filename m m1 name hk hne hu⟩, i3⟩

def songCount (gs : List (Bytes × List SeqData)) : Nat := (gs.map fun p => p.2.length).sum

theorem groupShape_ok (gs : List (Bytes × List SeqData)) (hk : ∀ p ∈ gs, KeyOk p.1 ∧ p.1 ≠ [] ∧ p.2 ≠ []) (id : Nat) (m : Counter)
    (ds : List Def) (h : headerGroups gs id m = some ds) (hs : id + songCount gs < 65536) :
    groupShape (gs.map fun p => (p.1, p.2.length)) id ds = .ok () := by
  induction gs generalizing id m ds with
  | nil =>
    simp only [headerGroups, Option.some.injEq] at h
    subst h; rfl
  | cons p gs ih =>
    obtain ⟨g, ss⟩ := p
    have hkg := hk (g, ss) (List.mem_cons_self ..)
    simp only [songCount, List.map_cons, List.sum_cons] at hs
    unfold headerGroups at h
    cases h1 : uniqueString (g ++ ascii "_MIN") m with
    | none => rw [h1] at h; cases h
    | some r1 =>
      obtain ⟨nmin, m1⟩ := r1
      rw [h1] at h
      simp only at h
      cases h2 : headerSongs g ss id m1 with
      | none => rw [h2] at h; cases h
      | some r2 =>
        obtain ⟨sd, id', m2⟩ := r2
        rw [h2] at h
        simp only at h
        cases h3 : uniqueString (g ++ ascii "_MAX") m2 with
        | none => rw [h3] at h; cases h
        | some r3 =>
          obtain ⟨nmax, m3⟩ := r3
          rw [h3] at h
          simp only at h
          cases h4 : headerGroups gs id' m3 with
          | none => rw [h4] at h; cases h
          | some tail =>
            rw [h4] at h
            simp only [Option.some.injEq] at h
            subst h
            have hpos : 0 < ss.length := List.length_pos_iff.mpr hkg.2.2
            obtain ⟨e1, e2, e3⟩ := headerSongs_shape g hkg.1 hkg.2.1 ss id m1 m2 sd id' h2 (by omega)
            have hrest := ih (fun p hp => hk p (List.mem_cons_of_mem _ hp)) id' m3 tail h4 (by
              simp only [songCount]; rw [e1]; omega)
            simp only [List.map_cons, List.cons_append, groupShape]
            have ht : (sd ++ (nmax, id' % 65536) :: tail).take ss.length = sd := by
              rw [← e2]; simp
            have hd : (sd ++ (nmax, id' % 65536) :: tail).drop ss.length = (nmax, id' % 65536) :: tail := by
              rw [← e2]; simp
            have hv1 : (id + 1) % 65536 = id + 1 := Nat.mod_eq_of_lt (by omega)
            have hv2 : id' % 65536 = id + ss.length := by rw [e1]; exact Nat.mod_eq_of_lt (by omega)
            rw [ht, hd]
            simp only [e2, hv1, hv2, ne_eq, not_true_eq_false, if_false, e3, Bool.not_true, Bool.false_eq_true]
            rw [← e1]; exact hrest

theorem allSome_map {α β : Type} (f : α → Option β) (g : α → β) (xs : List α) (h : ∀ x ∈ xs, f x = some (g x)) :
    allSome (xs.map f) = some (xs.map g) := by
  induction xs with
  | nil => rfl
  | cons x xs ih =>
    simp only [List.map_cons, h x (List.mem_cons_self ..), allSome, ih (fun y hy => h y (List.mem_cons_of_mem _ hy)), Option.map_some]

/-- the header reader accepts the two generated texts, given what identifier generation guarantees -/
theorem resolveHeaders_of (l : Linker) (songs : List SongIn) (ds : List Def) (hd : headerDefs l = some ds)
    (hnodup : (ds.map (·.1)).Nodup) (hok : ∀ d ∈ ds, KeyOk d.1 ∧ d.1 ≠ [])
    (hgroups : l.seqBank.map (fun p => (p.1, p.2.length)) =
      (groupKeys songs).map (fun k => (k, (songs.filter fun s => groupOf s.group == k).length)))
    (hkeys : ∀ p ∈ l.seqBank, KeyOk p.1 ∧ p.1 ≠ [] ∧ p.2 ≠ []) (hcnt : songCount l.seqBank < 65536) :
    ∃ a c, asmHeader l = some a ∧ cHeader l = some c ∧ resolveHeaders songs a c = .ok () := by
  have h10 : (10 : UInt8) ∉ ascii " = " := by decide
  have h10d : (10 : UInt8) ∉ ascii "#define " := by decide
  refine ⟨ds.flatMap (fun d => (d.1 ++ ascii " = " ++ decimal d.2) ++ [10]),
          ds.flatMap (fun d => (ascii "#define " ++ d.1 ++ [32] ++ decimal d.2) ++ [10]), ?_, ?_, ?_⟩
  · unfold asmHeader; rw [hd]; rfl
  · unfold cHeader; rw [hd]; rfl
  · have hla := linesOf_flatMap ds (fun d => d.1 ++ ascii " = " ++ decimal d.2) (by
      intro d hdm hm
      have := (keyOk_chars (hok d hdm).1).2
      have := (decimal_chars d.2).2
      simp only [List.mem_append] at hm
      rcases hm with (hm | hm) | hm
      · contradiction
      · exact h10 hm
      · contradiction)
    have hlc := linesOf_flatMap ds (fun d => ascii "#define " ++ d.1 ++ [32] ++ decimal d.2) (by
      intro d hdm hm
      have := (keyOk_chars (hok d hdm).1).2
      have := (decimal_chars d.2).2
      simp only [List.mem_append, List.mem_singleton] at hm
      rcases hm with ((hm | hm) | hm) | hm
      · exact h10d hm
      · contradiction
      · exact absurd hm (by decide)
      · contradiction)
    have hda : allSome ((ds.map fun d => d.1 ++ ascii " = " ++ decimal d.2).map asmLine) = some (ds.map id) := by
      rw [List.map_map]
      exact allSome_map _ _ _ (fun d hdm => asmLine_ok d.1 d.2 (hok d hdm).1)
    have hdc : allSome ((ds.map fun d => ascii "#define " ++ d.1 ++ [32] ++ decimal d.2).map cLine) = some (ds.map id) := by
      rw [List.map_map]
      exact allSome_map _ _ _ (fun d hdm => cLine_ok d.1 d.2 (hok d hdm).1)
    simp only [List.map_id] at hda hdc
    have hvalid : (ds.all fun d => validSymbol d.1) = true := by
      simp only [List.all_eq_true]
      exact fun d hdm => validSymbol_of d.1 (hok d hdm).1 (hok d hdm).2
    have hshape := groupShape_ok l.seqBank hkeys 0 [] ds hd (by omega)
    rw [hgroups] at hshape
    unfold resolveHeaders
    simp only [hla, hlc, hda, hdc, ne_eq, not_true_eq_false, if_false, hvalid, distinct_of _ hnodup, Bool.not_true,
      Bool.false_eq_true, hshape]

theorem songCount_eq (gs : List (Bytes × List SeqData)) : songCount gs = (gs.flatMap (·.2)).length := by
  induction gs with
  | nil => rfl
  | cons p gs ih => simp only [songCount, List.map_cons, List.sum_cons, List.flatMap_cons, List.length_append] at ih ⊢; omega

theorem songs_length_eq (m bk : Nat) (files : List (Bytes × Bytes)) (songs : List SongIn) (l : Linker)
    (hparse : files.map (fun f => parseMds f.2) = songs.map some)
    (hrun : runOps (files.map fun f => Op.add f.1 f.2) (Linker.fresh m bk) = .ok l) : songs.length = l.songs.length := by
  have h1 := runOps_songs_length _ _ _ hrun
  rw [adds_src_length] at h1
  have h2 : files.length = songs.length := by
    have := congrArg List.length hparse
    simpa using this
  simp only [Linker.fresh, Linker.songs, List.flatMap_nil, List.length_nil, Nat.zero_add] at h1
  simp only [Linker.songs]
  omega

end Ctrmml.Linker
