/-
  Helper lemmas for C06, round 3 (no property statements here): the covered command subset of the
  layout theorems widened (`LCovered2` = `L2.LCovered`) by
    * the fine volume `V n` (n ≥ 0 as written), `V+n`, `V-n` (n > 0 decimal),
    * the echo `\` with any duration form, directly followed by a non-blank byte other than `=`,
    * the loop break `/` OUTSIDE conditional blocks (`s.conditionalBlock = false`: inside a block the
      same byte is the alternative separator).
  The interface has the names of Proofs/LayoutCmd inside the namespace `Ctrmml.Mml.L2`, so that the
  line-level files of round 2 can be replayed on it (Proofs/LayoutLine2, Proofs/LayoutLines2).
-/
import Ctrmml.Proofs.LayoutCmd
namespace Ctrmml.Mml
open Ctrmml.Tables Ctrmml.Lexer Ctrmml.TrackBuilder
open Ctrmml.MmlMeaning (Num Dur Acc Cmd Simple)

theorem Track.strip_addEcho (t : Track) (d : UInt16) : (t.addEcho d).strip = t.strip.addEcho d := by
  by_cases h1 : t.echoVolume = 0 <;> by_cases h2 : t.echoDelay = 0 <;> by_cases h3 : t.echoBuffer.length < t.echoDelay.toNat <;>
    by_cases h4 : t.echoBuffer[t.echoDelay.toNat - 1]?.getD 0 = 0 <;>
    simp [Track.addEcho, Track.strip, Track.addEvent, Track.flipShuffle, Track.addShuffle, Track.getDuration, Track.onTime,
      Track.offTime, BEvent.strip, h1, h2, h3, h4]

/-- `event_relative(VOL_FINE, VOL_FINE_REL)` on a plain number -/
theorem eventRelative_abs (s : MmlState) (hs : Sane s) (n : Num) (tail : List Nat)
    (hsuf : suffix s = n.bytes ++ tail) (hr : NumRange n) (hend : NumEnd (numBase n) tail) (h0 : 0 ≤ n.v) :
    eventRelative ev_VOL_FINE (some ev_VOL_FINE_REL) s =
      .ok () (adv (setTrack s ((getTrack s).addEvent ev_VOL_FINE n.v 0 0)) n.bytes.length) := by
  obtain ⟨c0, r0, hcr, hc0⟩ := num_bytes_head_nonneg n h0
  have hsuf' : suffix s = c0 :: (r0 ++ tail) := by rw [hsuf, hcr]; rfl
  have hrg : 33 ≤ c0 ∧ c0 < 128 := by omega
  have e43 := ne_lit c0 43 (by omega) 43 rfl
  have e45 := ne_lit c0 45 (by omega) 45 rfl
  unfold eventRelative
  rw [bind_ok (getTokenC_cons s c0 _ hsuf' hrg)]
  simp only [bne, e43, e45, Bool.or_self, Bool.not_false, Bool.false_eq_true, if_false, if_true]
  rw [bind_ok (ungetC_zero s)]
  rw [bind_ok (expectParameter_render s hs n tail hsuf hr hend)]
  rw [trackOp_ok _ _ _ "" rfl]
  finish

/-- … behind `+` -/
theorem eventRelative_up (s : MmlState) (hs : Sane s) (n : Num) (tail : List Nat)
    (hsuf : suffix s = 43 :: (n.bytes ++ tail)) (hr : NumRange n) (hend : NumEnd (numBase n) tail) :
    eventRelative ev_VOL_FINE (some ev_VOL_FINE_REL) s =
      .ok () (adv (setTrack s ((getTrack s).addEvent ev_VOL_FINE_REL n.v 0 0)) (1 + n.bytes.length)) := by
  have hs1 : Sane (adv s 1) := sane_adv s hs 1 (by rw [hsuf]; simp)
  have hsuf1 : suffix (adv s 1) = n.bytes ++ tail := by rw [suffix_adv, hsuf]; rfl
  unfold eventRelative
  rw [bind_ok (getTokenC_cons s 43 _ hsuf (by omega))]
  dispatch 43
  rw [bind_ok (expectParameter_render _ hs1 n tail hsuf1 hr hend)]
  rw [trackOp_ok _ _ _ "" rfl]
  finish

theorem neg_num_bytes (n : Num) (hh : n.hex = false) (h0 : 0 < n.v) :
    (Num.mk (-n.v) false).bytes = 45 :: n.bytes := by
  have h1 : -n.v < 0 := by omega
  have h2 : ¬ n.v < 0 := by omega
  simp [Num.bytes, hh, h0, h2]

/-- … behind `-`: the sign is put back and read as part of the number -/
theorem eventRelative_down (s : MmlState) (hs : Sane s) (n : Num) (tail : List Nat)
    (hsuf : suffix s = 45 :: (n.bytes ++ tail)) (hr : NumRange n) (hend : NumEnd (numBase n) tail)
    (hh : n.hex = false) (h0 : 0 < n.v) :
    eventRelative ev_VOL_FINE (some ev_VOL_FINE_REL) s =
      .ok () (adv (setTrack s ((getTrack s).addEvent ev_VOL_FINE_REL (-n.v) 0 0)) (1 + n.bytes.length)) := by
  have hb := neg_num_bytes n hh h0
  have hsufn : suffix s = (Num.mk (-n.v) false).bytes ++ tail := by rw [hb, hsuf]; rfl
  have hrn : NumRange (Num.mk (-n.v) false) := by
    have := hr; unfold NumRange at this ⊢; simp only; omega
  have hbase : numBase (Num.mk (-n.v) false) = numBase n := by simp [numBase, hh]
  have hexp := expectParameter_render s hs (Num.mk (-n.v) false) tail hsufn hrn (by rw [hbase]; exact hend)
  unfold eventRelative
  rw [bind_ok (getTokenC_cons s 45 _ hsuf (by omega))]
  dispatch 45
  rw [bind_ok (ungetC_zero s)]
  rw [bind_ok hexp]
  rw [trackOp_ok _ _ _ "" rfl]
  simp only [getTrack_adv, setTrack_adv, hb, List.length_cons]
  rw [Nat.add_comm]

/-- `mml_envelope`: `V` and what `event_relative` does behind it -/
theorem fineVol_span (s : MmlState) (tail1 : List Nat) (hsuf : suffix s = 86 :: tail1) (s2 : MmlState)
    (h : eventRelative ev_VOL_FINE (some ev_VOL_FINE_REL) (adv s 1) = .ok () s2) :
    mmlEnvelope s = .ok false s2 := by
  unfold mmlEnvelope
  rw [bind_ok (getTokenC_cons s 86 _ hsuf (by omega))]
  dispatch 86
  rw [bind_ok h, run_pure]

theorem lstep_fineVol (f : Nat) (s : MmlState) (hs : Sane s) (r : List Nat) (hsuf : suffix s = 86 :: r)
    (F : Track → Track) (k : Nat)
    (hspan : ∀ s0, Sane s0 → suffix s0 = 86 :: r → mmlEnvelope s0 = .ok false (adv (setTrack s0 (F (getTrack s0))) k)) :
    parseMmlTrackF (f + 1) s =
      parseMmlTrackF f (adv (setTrack s (F ((getTrack s).setReference (some { line := s.inp.line, column := s.inp.lb.column })))) k) := by
  obtain ⟨t1, ht1⟩ : ∃ t1, t1 = (getTrack s).setReference (some { line := s.inp.line, column := s.inp.lb.column }) := ⟨_, rfl⟩
  have hs0 : Sane (setTrack s t1) := sane_setTrack _ _ hs
  have hsuf0 : suffix (setTrack s t1) = 86 :: r := by rw [suffix_setTrack]; exact hsuf
  have hrg : 33 ≤ 86 ∧ 86 < 128 := by omega
  have hb := mmlBasic_declines (setTrack s t1) hs0 86 r hsuf0 hrg (by unfold NotBasic; omega)
  have hcd := mmlControl_declines (setTrack s t1) hs0 86 r hsuf0 hrg (by omega)
  have hc := hspan (setTrack s t1) hs0 hsuf0
  rw [getTrack_setTrack, setTrack_setTrack] at hc
  have := step_envelope f s hs 86 r hsuf hrg (by unfold NotLoopChar; omega) (setTrack s t1) _ (by rw [ht1]) hb hcd hc
  rw [this, ht1]

/-- the loop break `/` outside a conditional block: `parse_mml_track` hands the byte to `mml_control` -/
theorem step_break (f : Nat) (s : MmlState) (hs : Sane s) (r : List Nat) (hsuf : suffix s = 47 :: r)
    (hcb : s.conditionalBlock = false) :
    parseMmlTrackF (f + 1) s =
      parseMmlTrackF f (adv (setTrack s (((getTrack s).setReference (some { line := s.inp.line, column := s.inp.lb.column })).addEvent ev_LOOP_BREAK 0 0 0)) 1) := by
  obtain ⟨t1, ht1⟩ : ∃ t1, t1 = (getTrack s).setReference (some { line := s.inp.line, column := s.inp.lb.column }) := ⟨_, rfl⟩
  have hs0 : Sane (setTrack s t1) := sane_setTrack _ _ hs
  have hsuf0 : suffix (setTrack s t1) = 47 :: r := by rw [suffix_setTrack]; exact hsuf
  have hb := mmlBasic_declines (setTrack s t1) hs0 47 r hsuf0 (by omega) (by unfold NotBasic; omega)
  have hc : mmlControl (setTrack s t1) = .ok false (adv (setTrack s (t1.addEvent ev_LOOP_BREAK 0 0 0)) 1) := by
    unfold mmlControl
    rw [bind_ok (getTokenC_cons _ 47 _ hsuf0 (by omega))]
    dispatch 47
    rw [bind_ok (trackOp_ok _ _ _ "" rfl), run_pure]
    simp only [getTrack_adv, getTrack_setTrack, setTrack_adv, setTrack_setTrack]
  have h47 : schar 47 = 47 := by decide
  have hun : ungetC 47 (adv s 1) = .ok () s := by
    have := ungetC_same s hs.bytes 47 _ hsuf
    rw [h47] at this; exact this
  have hst : setTrack s (Track.setReference (getTrack s) (some s.inp.getReference)) = setTrack s t1 := by rw [ht1]; rfl
  have hcb1 : (adv s 1).conditionalBlock = false := hcb
  conv => lhs; unfold parseMmlTrackF
  rw [bind_ok (getTokenC_cons s 47 _ hsuf (by omega)), bind_ok (getS_run _)]
  have e1 : ((47 : Nat) : Int) = 47 := rfl
  rw [e1]
  simp only [hcb1, show (((47 : Int) == 124)) = false by decide, show (((47 : Int) == 59)) = false by decide,
    show (((47 : Int) == 123)) = false by decide, show (((47 : Int) == 37)) = false by decide,
    show (((47 : Int) == 0)) = false by decide, Bool.and_false, Bool.false_and, Bool.false_eq_true, if_false]
  rw [bind_ok hun, bind_ok (getS_run _), bind_ok (trackOp_ok _ _ _ "" rfl), hst, bind_ok hb]
  simp only [show (true == false) = false by decide, Bool.false_eq_true, if_false]
  rw [bind_ok hc]
  simp only [beq_self_eq_true, if_true]
  rw [ht1]

/-- the byte behind `\` (first byte of the duration, else of the rest of the line): not a blank, not `=` -/
def EchoHead : List Nat → Prop
  | [] => False
  | c :: _ => 33 ≤ c ∧ c < 128 ∧ c ≠ 61

instance : (l : List Nat) → Decidable (EchoHead l)
  | [] => inferInstanceAs (Decidable False)
  | c :: _ => inferInstanceAs (Decidable (33 ≤ c ∧ c < 128 ∧ c ≠ 61))

/-- `mml_basic`: `\` and a duration -/
theorem echo_span (s : MmlState) (hs : Sane s) (d : Dur) (tail : List Nat)
    (hsuf : suffix s = 92 :: (d.bytes ++ tail)) (hn : DurNums d) (ht : DurTail d tail) (hh : EchoHead (d.bytes ++ tail)) :
    mmlBasic s = .ok false
      (adv (setTrack s ((getTrack s).addEcho (UInt16.ofNat (durVal (getTrack s) d).toNat))) (1 + d.bytes.length + durSkip d tail)) := by
  have hs1 : Sane (adv s 1) := sane_adv s hs 1 (by rw [hsuf]; simp)
  have hsuf1 : suffix (adv s 1) = d.bytes ++ tail := by rw [suffix_adv, hsuf]; rfl
  obtain ⟨c0, r0, hcr, hc0⟩ : ∃ c0 r0, d.bytes ++ tail = c0 :: r0 ∧ (33 ≤ c0 ∧ c0 < 128 ∧ c0 ≠ 61) := by
    cases h : d.bytes ++ tail with
    | nil => rw [h] at hh; exact absurd hh id
    | cons c r => rw [h] at hh; exact ⟨c, r, rfl, hh⟩
  have hecho : mmlEcho (adv s 1) = .ok ()
      (adv (setTrack s ((getTrack s).addEcho (UInt16.ofNat (durVal (getTrack s) d).toNat))) (1 + d.bytes.length + durSkip d tail)) := by
    unfold mmlEcho
    rw [bind_ok (getTokenC_cons (adv s 1) c0 r0 (by rw [hsuf1, hcr]) ⟨hc0.1, hc0.2.1⟩)]
    simp only [ne_lit c0 61 hc0.2.2 61 rfl, Bool.false_eq_true, if_false]
    rw [bind_ok (ungetC_zero (adv s 1))]
    rw [bind_ok (readDuration_render (adv s 1) hs1 d tail hsuf1 hn ht)]
    rw [trackOp_ok _ _ _ "" rfl]
    finish
  unfold mmlBasic
  rw [bind_ok (getTokenC_cons s 92 _ hsuf (by omega))]
  dispatch 92
  rw [bind_ok hecho, run_pure]

namespace L2

/-- the commands the round-3 layout theorems cover: `LCovered` (round 2) and `V n`, `V+n`, `V-n`,
`\` with a duration, the loop break `/` -/
def LCovered : Cmd → Prop
  | .simple .volFine (some n) => 0 ≤ n.v
  | .simple .volFineUp (some _) => True
  | .simple .volFineDown (some n) => n.hex = false ∧ 0 < n.v
  | .simple .loopBreak none => True
  | .echo _ => True
  | c => Mml.LCovered c

def lcmdTrack (t : Track) : Cmd → Track
  | .simple .volFine (some n) => t.addEvent ev_VOL_FINE n.v 0 0
  | .simple .volFineUp (some n) => t.addEvent ev_VOL_FINE_REL n.v 0 0
  | .simple .volFineDown (some n) => t.addEvent ev_VOL_FINE_REL (-n.v) 0 0
  | .simple .loopBreak none => t.addEvent ev_LOOP_BREAK 0 0 0
  | .echo d => t.addEcho (UInt16.ofNat (durVal t d).toNat)
  | c => Mml.lcmdTrack t c

def LCmdNums (t : Track) : Cmd → Prop
  | .echo d => DurNums d
  | c => Mml.LCmdNums t c

def LCmdTail : Cmd → List Nat → Prop
  | .echo d, tail => DurTail d tail ∧ EchoHead (d.bytes ++ tail)
  | c, tail => Mml.LCmdTail c tail

def lcmdSkip : Cmd → List Nat → Nat
  | .echo d, tail => durSkip d tail
  | c, tail => Mml.lcmdSkip c tail

def LCmdStart (c : Nat) : Prop := Mml.LCmdStart c ∨ c = 86 ∨ c = 47 ∨ c = 92

/-- the new commands, or a command of round 2 on which every definition is the one of round 2 -/
theorem lcovered_cases (cmd : Cmd) (hc : LCovered cmd) :
    (∃ n, cmd = .simple .volFine (some n) ∧ 0 ≤ n.v) ∨ (∃ n, cmd = .simple .volFineUp (some n)) ∨
    (∃ n, cmd = .simple .volFineDown (some n) ∧ n.hex = false ∧ 0 < n.v) ∨ cmd = .simple .loopBreak none ∨ (∃ d, cmd = .echo d) ∨
    (Mml.LCovered cmd ∧ (∀ t, lcmdTrack t cmd = Mml.lcmdTrack t cmd) ∧ (∀ t, LCmdNums t cmd = Mml.LCmdNums t cmd) ∧
      (∀ tail, LCmdTail cmd tail = Mml.LCmdTail cmd tail) ∧ (∀ tail, lcmdSkip cmd tail = Mml.lcmdSkip cmd tail)) := by
  cases cmd with
  | echo d => exact Or.inr (Or.inr (Or.inr (Or.inr (Or.inl ⟨d, rfl⟩))))
  | simple sm n =>
    cases sm <;> cases n <;>
      first
      | exact Or.inl ⟨_, rfl, hc⟩
      | exact Or.inr (Or.inl ⟨_, rfl⟩)
      | exact Or.inr (Or.inr (Or.inl ⟨_, rfl, hc⟩))
      | exact Or.inr (Or.inr (Or.inr (Or.inl rfl)))
      | exact Or.inr (Or.inr (Or.inr (Or.inr (Or.inr ⟨hc, fun _ => rfl, fun _ => rfl, fun _ => rfl, fun _ => rfl⟩))))
  | _ => exact Or.inr (Or.inr (Or.inr (Or.inr (Or.inr ⟨hc, fun _ => rfl, fun _ => rfl, fun _ => rfl, fun _ => rfl⟩))))

theorem lcovered_of_old (c : Cmd) (h : Mml.LCovered c) : LCovered c := by
  cases c with
  | echo d => exact absurd h (by simp [Mml.LCovered, Covered])
  | simple sm n =>
    cases sm <;> cases n <;> first | exact h | exact absurd h (by simp [Mml.LCovered, evClass, covSimple])
  | _ => exact h

theorem lcovered_head (cmd : Cmd) (hc : LCovered cmd) : ∃ c r, cmd.bytes = c :: r ∧ LCmdStart c := by
  rcases lcovered_cases cmd hc with ⟨n, rfl, _⟩ | ⟨n, rfl⟩ | ⟨n, rfl, _⟩ | rfl | ⟨d, rfl⟩ | ⟨h, _⟩
  · exact ⟨86, _, rfl, by simp [LCmdStart]⟩
  · exact ⟨86, _, rfl, by simp [LCmdStart]⟩
  · exact ⟨86, _, rfl, by simp [LCmdStart]⟩
  · exact ⟨47, _, rfl, by simp [LCmdStart]⟩
  · exact ⟨92, _, rfl, by simp [LCmdStart]⟩
  · obtain ⟨c, r, h1, h2⟩ := Mml.lcovered_head cmd h
    exact ⟨c, r, h1, Or.inl h2⟩

theorem strip_lcmdTrack (t : Track) (cmd : Cmd) (hc : LCovered cmd) : (lcmdTrack t cmd).strip = lcmdTrack t.strip cmd := by
  rcases lcovered_cases cmd hc with ⟨n, rfl, _⟩ | ⟨n, rfl⟩ | ⟨n, rfl, _⟩ | rfl | ⟨d, rfl⟩ | ⟨_, h, _⟩
  · rfl
  · rfl
  · rfl
  · rfl
  · simp only [lcmdTrack, durVal_strip]; exact Track.strip_addEcho t _
  · rw [h, h]; exact Mml.strip_lcmdTrack t cmd

theorem lcmdNums_strip (t : Track) (cmd : Cmd) (hc : LCovered cmd) : LCmdNums t.strip cmd ↔ LCmdNums t cmd := by
  rcases lcovered_cases cmd hc with ⟨n, rfl, _⟩ | ⟨n, rfl⟩ | ⟨n, rfl, _⟩ | rfl | ⟨d, rfl⟩ | ⟨_, _, h, _⟩
  · exact Iff.rfl
  · exact Iff.rfl
  · exact Iff.rfl
  · exact Iff.rfl
  · exact Iff.rfl
  · rw [h, h]; exact Mml.lcmdNums_strip t cmd

theorem lcmdSkip_cases (cmd : Cmd) (tail : List Nat) (hc : LCovered cmd) : lcmdSkip cmd tail = 0 ∨ lcmdSkip cmd tail = (numSpan tail).2 := by
  rcases lcovered_cases cmd hc with ⟨n, rfl, _⟩ | ⟨n, rfl⟩ | ⟨n, rfl, _⟩ | rfl | ⟨d, rfl⟩ | ⟨_, _, _, _, h⟩
  · exact Or.inl rfl
  · exact Or.inl rfl
  · exact Or.inl rfl
  · exact Or.inl rfl
  · exact cmdSkip_cases (.rest d) tail
  · rw [h]; exact Mml.lcmdSkip_cases cmd tail

/-- ONE COVERED COMMAND AT THE CURSOR (round 3): as `lcmd_step`, for `L2.LCovered`; the only new
hypothesis is that the reader is not inside a conditional block (used by the loop break `/` only) -/
theorem lcmd_step (f : Nat) (s : MmlState) (hs : Sane s) (cmd : Cmd) (tail : List Nat) (hc : LCovered cmd)
    (hcb : s.conditionalBlock = false)
    (hsuf : suffix s = cmd.bytes ++ tail) (hn : LCmdNums (getTrack s).strip cmd) (ht : LCmdTail cmd tail) :
    parseMmlTrackF (f + 1) s =
      parseMmlTrackF f (adv (setTrack s (lcmdTrack ((getTrack s).setReference (some { line := s.inp.line, column := s.inp.lb.column })) cmd))
        (cmd.bytes.length + lcmdSkip cmd tail)) := by
  rcases lcovered_cases cmd hc with ⟨n, rfl, h0⟩ | ⟨n, rfl⟩ | ⟨n, rfl, hh, h0⟩ | rfl | ⟨d, rfl⟩ | ⟨hold, h1, h2, h3, h4⟩
  · have hsuf' : suffix s = 86 :: (n.bytes ++ tail) := by simpa [Cmd.bytes, Simple.spellingBytes, MmlMeaning.optNumBytes] using hsuf
    have h := lstep_fineVol f s hs _ hsuf' (fun t => t.addEvent ev_VOL_FINE n.v 0 0) (1 + n.bytes.length) (fun s0 hs0 hsuf0 => by
      have hs1 : Sane (adv s0 1) := sane_adv s0 hs0 1 (by rw [hsuf0]; simp)
      have hsuf1 : suffix (adv s0 1) = n.bytes ++ tail := by rw [suffix_adv, hsuf0]; rfl
      rw [fineVol_span s0 _ hsuf0 _ (eventRelative_abs (adv s0 1) hs1 n tail hsuf1 hn ht h0)]
      simp only [getTrack_adv, setTrack_adv, adv_adv])
    rw [h]
    simp only [Cmd.bytes, Simple.spellingBytes, MmlMeaning.optNumBytes, lcmdSkip, Mml.lcmdSkip, List.length_append, List.length_cons, List.length_nil, Nat.add_zero, Nat.zero_add]
    rfl
  · have hsuf' : suffix s = 86 :: 43 :: (n.bytes ++ tail) := by simpa [Cmd.bytes, Simple.spellingBytes, MmlMeaning.optNumBytes] using hsuf
    have h := lstep_fineVol f s hs _ hsuf' (fun t => t.addEvent ev_VOL_FINE_REL n.v 0 0) (2 + n.bytes.length) (fun s0 hs0 hsuf0 => by
      have hs1 : Sane (adv s0 1) := sane_adv s0 hs0 1 (by rw [hsuf0]; simp)
      have hsuf1 : suffix (adv s0 1) = 43 :: (n.bytes ++ tail) := by rw [suffix_adv, hsuf0]; rfl
      rw [fineVol_span s0 _ hsuf0 _ (eventRelative_up (adv s0 1) hs1 n tail hsuf1 hn ht)]
      simp only [getTrack_adv, setTrack_adv, adv_adv]
      have : 1 + (1 + n.bytes.length) = 2 + n.bytes.length := by omega
      rw [this])
    rw [h]
    simp only [Cmd.bytes, Simple.spellingBytes, MmlMeaning.optNumBytes, lcmdSkip, Mml.lcmdSkip, List.length_append, List.length_cons, List.length_nil, Nat.add_zero, Nat.zero_add]
    have : 2 + n.bytes.length = 1 + 1 + n.bytes.length := by omega
    rw [this]
    rfl
  · have hsuf' : suffix s = 86 :: 45 :: (n.bytes ++ tail) := by simpa [Cmd.bytes, Simple.spellingBytes, MmlMeaning.optNumBytes] using hsuf
    have h := lstep_fineVol f s hs _ hsuf' (fun t => t.addEvent ev_VOL_FINE_REL (-n.v) 0 0) (2 + n.bytes.length) (fun s0 hs0 hsuf0 => by
      have hs1 : Sane (adv s0 1) := sane_adv s0 hs0 1 (by rw [hsuf0]; simp)
      have hsuf1 : suffix (adv s0 1) = 45 :: (n.bytes ++ tail) := by rw [suffix_adv, hsuf0]; rfl
      rw [fineVol_span s0 _ hsuf0 _ (eventRelative_down (adv s0 1) hs1 n tail hsuf1 hn ht hh h0)]
      simp only [getTrack_adv, setTrack_adv, adv_adv]
      have : 1 + (1 + n.bytes.length) = 2 + n.bytes.length := by omega
      rw [this])
    rw [h]
    simp only [Cmd.bytes, Simple.spellingBytes, MmlMeaning.optNumBytes, lcmdSkip, Mml.lcmdSkip, List.length_append, List.length_cons, List.length_nil, Nat.add_zero, Nat.zero_add]
    have : 2 + n.bytes.length = 1 + 1 + n.bytes.length := by omega
    rw [this]
    rfl
  · have hsuf' : suffix s = 47 :: tail := by simpa [Cmd.bytes, Simple.spellingBytes, MmlMeaning.optNumBytes] using hsuf
    rw [step_break f s hs tail hsuf' hcb]
    rfl
  · obtain ⟨t1, ht1⟩ : ∃ t1, t1 = (getTrack s).setReference (some { line := s.inp.line, column := s.inp.lb.column }) := ⟨_, rfl⟩
    have hs0 : Sane (setTrack s t1) := sane_setTrack _ _ hs
    have hsuf0 : suffix (setTrack s t1) = 92 :: (d.bytes ++ tail) := by rw [suffix_setTrack]; simpa [Cmd.bytes] using hsuf
    have hspan := echo_span (setTrack s t1) hs0 d tail hsuf0 hn ht.1 ht.2
    rw [getTrack_setTrack, setTrack_setTrack] at hspan
    have hsuf' : suffix s = List.replicate 0 32 ++ 92 :: (d.bytes ++ tail) := by simpa [Cmd.bytes] using hsuf
    have := step_basic f s hs 0 92 _ hsuf' (by omega) (by unfold NotLoopChar; omega) _ (by
      rw [adv_zero, Nat.add_zero, ← ht1]; exact hspan)
    rw [this, ht1]
    simp only [Cmd.bytes, lcmdSkip, List.length_cons]
    have e : 1 + d.bytes.length + durSkip d tail = d.bytes.length + 1 + durSkip d tail := by omega
    rw [e]
    rfl
  · rw [h1, h4]
    rw [h2] at hn
    rw [h3] at ht
    exact Mml.lcmd_step f s hs cmd tail hold hsuf hn ht

end L2

/-- the round-3 covered command set, under the name the property file uses -/
abbrev LCovered2 : Cmd → Prop := L2.LCovered

/-- the round-3 step lemma under its own name -/
theorem lcmd_step2 (f : Nat) (s : MmlState) (hs : Sane s) (cmd : Cmd) (tail : List Nat) (hc : LCovered2 cmd)
    (hcb : s.conditionalBlock = false)
    (hsuf : suffix s = cmd.bytes ++ tail) (hn : L2.LCmdNums (getTrack s).strip cmd) (ht : L2.LCmdTail cmd tail) :
    parseMmlTrackF (f + 1) s =
      parseMmlTrackF f (adv (setTrack s (L2.lcmdTrack ((getTrack s).setReference (some { line := s.inp.line, column := s.inp.lb.column })) cmd))
        (cmd.bytes.length + L2.lcmdSkip cmd tail)) :=
  L2.lcmd_step f s hs cmd tail hc hcb hsuf hn ht

end Ctrmml.Mml
