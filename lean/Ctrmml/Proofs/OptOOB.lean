/-
  C15 (optimise stage), helper — `find_best_match` never reads a stack list outside its bounds:
  with complete stack lists (`ListsFull`, established by `analyze_stack`: Proofs/OptLists)
  `Opt.findBestMatch` never ends in `OErr.stackListOOB` — neither in `find_match` (which only reads
  the song and the lists) nor in `apply_match`/`find_subroutines`, where every
  `replace_with_subroutine` shortens a track and its stack list by the same amount.
-/
import Ctrmml.Proofs.OptLists
import Ctrmml.Proofs.OptChain
namespace Ctrmml.OptSteps
open Ctrmml Ctrmml.Tree Ctrmml.Expand Ctrmml.Rewrite Ctrmml.Opt Tables

/-- the two outcomes of the optimiser that are not an `InputError` of the C++: a stack list read
outside its bounds (undefined behaviour) and `Song::get_track` on a track that does not exist
(`std::out_of_range`, which nothing in the optimiser catches) -/
def Bad (e : OErr) : Prop := e = .stackListOOB ∨ e = .missingTrack

/-- neither of them -/
def NO {α : Type} (x : Except OErr α) : Prop := ∀ e, x = .error e → ¬ Bad e

theorem NO_ok {α : Type} (a : α) : NO (.ok a : Except OErr α) := fun _ h => by cases h
theorem NO_pure {α : Type} (a : α) : NO (pure a : Except OErr α) := fun _ h => by cases h
theorem NO_err {α : Type} {e : OErr} (h : ¬ Bad e) : NO (.error e : Except OErr α) := fun _ h' => by cases h'; exact h

theorem NO_bind {α β : Type} {x : Except OErr α} {f : α → Except OErr β} (hx : NO x)
    (hf : ∀ a, x = .ok a → NO (f a)) : NO (x >>= f) := by
  cases x with
  | error e => intro e' h; simp only [bind, Except.bind] at h; cases h; exact hx e rfl
  | ok a => exact hf a rfl

theorem NO_of_eq {α : Type} {x : Except OErr α} (h : NO x) : x ≠ .error .stackListOOB ∧ x ≠ .error .missingTrack :=
  ⟨fun he => h _ he (Or.inl rfl), fun he => h _ he (Or.inr rfl)⟩

/-- the song has a track `id` -/
def HasTrack (song : Song) (id : Nat) : Prop := ∃ evs, song.track? id = some evs

theorem hasTrack_of_mem {song : Song} {p : Nat × List Event} (h : p ∈ song.tracks) : HasTrack song p.1 := by
  unfold HasTrack Song.track?
  cases hl : song.tracks.lookup p.1 with
  | some v => exact ⟨v, rfl⟩
  | none => exact absurd rfl ((lookup_none_iff _ _).1 hl p h)

theorem NO_forIn_mem {α β : Type} (f : α → β → Except OErr (ForInStep β)) :
    ∀ (l : List α) (b : β), (∀ a ∈ l, ∀ b, NO (f a b)) → NO (forIn l b f) := by
  intro l
  induction l with
  | nil => intro b _; exact NO_pure b
  | cons a r ih =>
    intro b hf
    rw [List.forIn_cons]
    apply NO_bind (hf a List.mem_cons_self b)
    intro st _
    cases st with
    | done b' => exact NO_pure b'
    | yield b' => exact ih b' (fun a ha => hf a (List.mem_cons_of_mem _ ha))

theorem NO_forIn {α β : Type} (f : α → β → Except OErr (ForInStep β)) (hf : ∀ a b, NO (f a b))
    (l : List α) (b : β) : NO (forIn l b f) := NO_forIn_mem f l b (fun a _ b => hf a b)

def stepVal {β : Type} : ForInStep β → β
  | .done b => b
  | .yield b => b

/-- a loop whose body keeps an invariant and, under it, never reports the error -/
theorem NO_forIn_inv {α β : Type} (f : α → β → Except OErr (ForInStep β)) (P : β → Prop)
    (hf : ∀ a b, P b → NO (f a b) ∧ ∀ r, f a b = .ok r → P (stepVal r)) :
    ∀ (l : List α) (b : β), P b → NO (forIn l b f) ∧ ∀ r, forIn l b f = .ok r → P r := by
  intro l
  induction l with
  | nil =>
    intro b hb
    refine ⟨NO_pure b, fun r hr => ?_⟩
    simp only [List.forIn_nil, pure, Except.pure, Except.ok.injEq] at hr
    rw [← hr]; exact hb
  | cons a r ih =>
    intro b hb
    rw [List.forIn_cons]
    obtain ⟨h1, h2⟩ := hf a b hb
    cases hfa : f a b with
    | error e =>
      rw [hfa] at h1
      refine ⟨?_, fun r hr => ?_⟩
      · intro e' h; simp only [bind, Except.bind] at h; cases h; exact h1 e rfl
      · simp [bind, Except.bind] at hr
    | ok st =>
      have hP := h2 st hfa
      cases st with
      | done b' =>
        simp only [bind, Except.bind]
        refine ⟨NO_pure b', fun r hr => ?_⟩
        simp only [pure, Except.pure, Except.ok.injEq] at hr
        rw [← hr]; exact hP
      | yield b' =>
        simp only [bind, Except.bind]
        exact ih b' hP

/-! ## the stack analysis -/

/-- every `JUMP` of the list names a track of the song -/
def JumpsOK (song : Song) (evs : List Event) : Prop :=
  ∀ e ∈ evs, e.type = ev_JUMP → HasTrack song (trackIdOfParam e.param)

def SongJumpsOK (song : Song) : Prop := ∀ p ∈ song.tracks, JumpsOK song p.2

def ATNo (song : Song) (fuel : Nat) : Prop :=
  ∀ (m : SAMap) (self : Int) (evs : List Event) (drum : Int), JumpsOK song evs →
    NO (analyzeTrack song fuel m self evs drum)

theorem calleeR_NO {song : Song} (hs : SongJumpsOK song) {fuel : Nat} (ih : ATNo song fuel) (self : Int) (m : SAMap)
    (e : Event) (u0 drum drumArg : Int) (keepDrum isDrum : Bool)
    (he : isDrum = false → HasTrack song (trackIdOfParam e.param)) :
    NO (calleeR song fuel self m e u0 drum drumArg keepDrum isDrum) := by
  unfold calleeR
  split
  · split
    · split
      · rename_i hnone
        cases isDrum with
        | true => exact NO_err (by simp [Bad])
        | false =>
          obtain ⟨x, hx⟩ := he rfl
          rw [hx] at hnone
          cases hnone
      · rename_i cevs hc
        have := ih (setSA m e.param { getSA m e.param with baseUsage := wrap16 (u0 + (getSA m self).baseUsage) })
          e.param cevs drumArg (hs _ (mem_of_lookup' hc))
        split
        · rename_i x hx
          intro e' h'
          cases h'
          exact this _ hx
        · exact NO_ok _
    · exact NO_ok _
  · exact NO_ok _

theorem stepR_NO {song : Song} (hs : SongJumpsOK song) {fuel : Nat} (ih : ATNo song fuel) (self : Int) (m : SAMap)
    (e : Event) (ld drum : Int) (he : e.type = ev_JUMP → HasTrack song (trackIdOfParam e.param)) :
    NO (stepR song fuel self m e ld drum) := by
  unfold stepR
  simp only
  split
  · rename_i hj
    have := calleeR_NO hs ih self m e (usage0 e ld drum) drum drum true false (fun _ => he hj)
    split
    · rename_i x hx
      intro e' h'; cases h'; exact this _ hx
    · exact NO_ok _
  split
  · have := calleeR_NO hs ih self m e (usage0 e ld drum) drum 0 false true (fun h => by cases h)
    split
    · rename_i x hx
      intro e' h'; cases h'; exact this _ hx
    · exact NO_ok _
  split
  · exact NO_ok _
  split
  · exact NO_ok _
  · exact NO_ok _

theorem goA_NO {song : Song} (hs : SongJumpsOK song) {fuel : Nat} (ih : ATNo song fuel) (self : Int) :
    ∀ (evs : List Event) (m : SAMap) (ld drum : Int), JumpsOK song evs →
      NO (analyzeTrack.go song fuel self evs m ld drum) := by
  intro evs
  induction evs with
  | nil =>
    intro m ld drum _
    rw [analyzeTrack.go.eq_1]
    exact NO_ok _
  | cons e rest ihl =>
    intro m ld drum hj
    rw [go_cons]
    have := stepR_NO hs ih self m e ld drum (hj e List.mem_cons_self)
    split
    · rename_i x hx
      intro e' h'; cases h'; exact this _ hx
    · exact ihl _ _ _ (fun x hx => hj x (List.mem_cons_of_mem _ hx))

theorem analyzeTrack_NO {song : Song} (hs : SongJumpsOK song) : ∀ fuel, ATNo song fuel := by
  intro fuel
  induction fuel with
  | zero =>
    intro m self evs drum _
    rw [analyzeTrack.eq_1]
    exact NO_err (by simp [Bad])
  | succ fuel ih =>
    intro m self evs drum hj
    rw [analyzeTrack.eq_2]
    exact goA_NO hs ih self evs _ 0 drum hj

theorem foldlM_NO {α β : Type} (f : β → α → Except OErr β) :
    ∀ (l : List α) (b : β), (∀ a ∈ l, ∀ b, NO (f b a)) → NO (l.foldlM f b) := by
  intro l
  induction l with
  | nil => intro b _; exact NO_pure b
  | cons a r ih =>
    intro b hf
    rw [List.foldlM_cons]
    exact NO_bind (hf a List.mem_cons_self b) (fun b' _ => ih b' (fun a ha => hf a (List.mem_cons_of_mem _ ha)))

/-- **`analyze_stack` never asks for a track that does not exist** when every `JUMP` of the song
names a track (true of every song that validates: `jump_target_exists`); a missing drum routine is
the `InputError` of repository fix 0e6e685 (`OErr.missingDrum`). -/
theorem analyzeStack_NO {song : Song} (hs : SongJumpsOK song) : NO (analyzeStack song) := by
  intro e he
  refine (?_ : NO (song.tracks.foldlM (asBody song) [])) e (analyzeStack_error he)
  apply foldlM_NO
  intro p hp m
  unfold asBody
  simp only
  obtain ⟨m0, hm0⟩ : ∃ m0, m0 = (if m.any (·.1 == (p.1 : Int)) then m else m ++ [((p.1 : Int), ({} : SA))]) := ⟨_, rfl⟩
  rw [← hm0]
  split
  · have := analyzeTrack_NO hs (song.tracks.length + 2) m0 (p.1 : Int) p.2 0 (hs p hp)
    split
    · rename_i x hx
      intro e' h'; cases h'; exact this _ hx
    · exact NO_ok _
  · exact NO_ok _

/-- a song all of whose tracks validate calls only tracks that exist -/
theorem songJumpsOK_of_valid {song : Song} (hwf : SongWF song) (hval : C01.validAll song = true) : SongJumpsOK song := by
  intro p hp e he hj
  have ht : song.track? p.1 = some p.2 := lookup_of_mem_nodup' hwf.nodup hp
  obtain ⟨items, hpf⟩ := C01.validAll_ok hval ht
  have hk : e.kind = .jump := by
    unfold Event.kind kindOfType
    rw [hj]
    decide
  have := jump_target_exists (hwf.track ht).1 hpf he hk
  cases h : song.track? (trackIdOfParam e.param) with
  | some v => exact ⟨v, h⟩
  | none => exact absurd h this

/-! ## `find_match_length` -/

theorem go_NO (dS : Nat) (src dst : List Event) (sa : SA) (hlen : dst.length ≤ sa.eventList.length) :
    ∀ (fuel se de : Nat) (depth : Int) (safe : Nat) (track : Bool) (ll : Nat),
      NO (findMatchLength.go dS src dst sa fuel se de depth safe track ll) := by
  intro fuel
  induction fuel with
  | zero => intro se de depth safe track ll; exact NO_ok _
  | succ fuel ih =>
    intro se de depth safe track ll
    unfold findMatchLength.go
    simp only
    split
    · rename_i s d hs hd
      split
      · rename_i hnone
        exfalso
        have h1 := (List.getElem?_eq_some_iff.1 hd).1
        have h2 := List.getElem?_eq_none_iff.1 hnone
        omega
      · repeat' (first | exact NO_ok _ | exact ih _ _ _ _ _ _ | split)
    · exact NO_ok _

/-- the stack list of track `dstT` covers the track -/
def Covers (song : Song) (m : SAMap) (dstT : Nat) : Prop :=
  ∀ dst, song.track? dstT = some dst → dst.length ≤ (getSA m (dstT : Int)).eventList.length

theorem findMatchLength_NO {song : Song} {m : SAMap} {srcT : Nat} (hs : HasTrack song srcT) (srcStart : Nat)
    {dstT : Nat} (hd : HasTrack song dstT) (h : Covers song m dstT)
    (dstStart : Nat) (wl : Bool) : NO (findMatchLength song m srcT srcStart dstT dstStart wl) := by
  obtain ⟨src, hs⟩ := hs
  obtain ⟨dst, hd⟩ := hd
  rw [findMatchLength_unfold hs hd]
  exact go_NO _ _ _ _ (h dst hd) _ _ _ _ _ _ _

/-! ## `find_match` -/

set_option linter.unusedSectionVars false
section findMatch
variable {song : Song} {m : SAMap} (hfull : ListsFull song m) {srcT : Nat} (hsrc : HasTrack song srcT)
include hfull hsrc

theorem covers_of_full (dstT : Nat) : Covers song m dstT := fun dst hd => hfull dstT dst hd

theorem innerSame_NO (isBal : Nat → Bool) (dstPos length : Nat) (sc last : Counter) :
    NO (innerSame isBal dstPos length sc last) := by
  unfold innerSame
  apply NO_forIn
  intro a b
  split
  · split <;> exact NO_pure _
  · exact NO_pure _

theorem jp2Same_NO (isBal : Nat → Bool) (srcStart dstPos length0 : Nat) (sc last : Counter) (ld : Int)
    (lv : Bool) (mt : Match) : NO (jp2Same isBal srcStart dstPos length0 sc last ld lv mt) := by
  unfold jp2Same
  exact NO_bind (innerSame_NO hfull hsrc _ _ _ _ _) (fun _ _ => NO_pure _)

theorem jpSame_NO (srcStart : Nat) {dstT : Nat} (hd : HasTrack song dstT) (isBal : Nat → Bool) (dstPos : Nat)
    (mt : Match) (sc last : Counter) (ld : Int) (lv : Bool) :
    NO (jpSame song m srcT srcStart dstT isBal dstPos mt sc last ld lv) := by
  unfold jpSame
  apply NO_bind (findMatchLength_NO hsrc _ hd (covers_of_full hfull hsrc dstT) _ _)
  intro x _
  split
  · exact NO_pure _
  · split <;> exact jp2Same_NO hfull hsrc _ _ _ _ _ _ _ _ _

theorem midBody_NO (srcStart : Nat) {dstT : Nat} (hd : HasTrack song dstT) (dst : List Event) (isBal : Nat → Bool)
    (dstPos : Nat) (s : Match × Counter × Counter × Int × Bool) :
    NO (midBody song m srcT srcStart dstT dst isBal dstPos s) := by
  unfold midBody
  simp only
  split
  · exact jpSame_NO hfull hsrc _ hd _ _ _ _ _ _ _
  split
  · exact jpSame_NO hfull hsrc _ hd _ _ _ _ _ _ _
  split
  · exact jpSame_NO hfull hsrc _ hd _ _ _ _ _ _ _
  split
  · exact jpSame_NO hfull hsrc _ hd _ _ _ _ _ _ _
  · exact jpSame_NO hfull hsrc _ hd _ _ _ _ _ _ _

/-- the stack test of the same-track loop reads the list of the source track below the length of
that track -/
theorem midBodyS_NO (srcStart : Nat) (dst : List Event) (hdst : song.track? srcT = some dst) (isBal : Nat → Bool)
    (dstPos : Nat) (hpos : dstPos < dst.length) (s : Match × Counter × Counter × Int × Bool) :
    NO (midBodyS song m (getSA m srcT) srcT srcStart srcT dst isBal dstPos s) := by
  unfold midBodyS
  split
  · rename_i hnone
    exfalso
    have h1 := hfull srcT dst hdst
    have h2 := List.getElem?_eq_none_iff.1 hnone
    omega
  · split <;> exact midBody_NO hfull hsrc _ hsrc _ _ _ _

theorem sgo_NO (sa : SA) (l : List Event) : ∀ (i : Nat) (d : Int) (acc : List Bool),
    i + l.length ≤ sa.eventList.length → NO (sourcePrefixes.go sa l i d acc) := by
  induction l with
  | nil => intro i d acc _; exact NO_ok _
  | cons e rest ih =>
    intro i d acc hlen
    simp only [sourcePrefixes.go]
    simp only [List.length_cons] at hlen
    split
    · exact NO_ok _
    split
    · rename_i hnone
      exfalso
      have h2 := List.getElem?_eq_none_iff.1 hnone
      omega
    · split
      · exact NO_ok _
      · exact ih _ _ _ (by omega)

theorem sourcePrefixes_NO (src : List Event) (hs : song.track? srcT = some src) (start : Nat) :
    NO (sourcePrefixes (getSA m srcT) src start) := by
  unfold sourcePrefixes
  have : NO (sourcePrefixes.go (getSA m srcT) (src.drop start) start 0 []) := by
    by_cases h : start ≤ src.length
    · refine sgo_NO hfull hsrc (getSA m srcT) (src.drop start) start 0 [] ?_
      have := hfull srcT src hs
      rw [List.length_drop]
      omega
    · -- nothing is read: the phrase starts behind the end of the track
      rw [List.drop_eq_nil_of_le (by omega)]
      exact NO_ok _
  split
  · rename_i x hx
    rw [hx] at this
    exact this
  · exact NO_ok _

theorem otherBody_NO (srcStart : Nat) {dstT : Nat} (hd : HasTrack song dstT) (isBal : Nat → Bool)
    (dstPos : Nat) (s : Counter × Counter) : NO (otherBody song m srcT srcStart dstT isBal dstPos s) := by
  unfold otherBody
  apply NO_bind (findMatchLength_NO hsrc _ hd (covers_of_full hfull hsrc dstT) _ _)
  intro x _
  refine NO_bind ?_ (fun _ _ => NO_pure _)
  apply NO_forIn
  intro a b
  split
  · split <;> exact NO_pure _
  · exact NO_pure _

theorem trackBody_NO (hnd : (song.tracks.map (·.1)).Nodup) (srcStart : Nat) (isBal : Nat → Bool)
    (x : Nat × List Event) (hx : x ∈ song.tracks) (s : Match × Counter) :
    NO (trackBody song m (getSA m srcT) srcT srcStart isBal x s) := by
  have hd := hasTrack_of_mem hx
  unfold trackBody
  split
  · exact NO_pure _
  split
  · rename_i heq
    have hdst : song.track? srcT = some x.2 := by
      rw [← heq]; exact lookup_of_mem_nodup hnd (by simpa using hx)
    rw [heq]
    refine NO_bind (NO_forIn_mem _ _ _ (fun a ha b => midBodyS_NO hfull hsrc _ _ hdst _ _ ?_ _)) (fun _ _ => NO_pure _)
    obtain ⟨_, h1, h2⟩ := List.mem_range'.1 ha
    omega
  · exact NO_bind (NO_forIn _ (fun a b => otherBody_NO hfull hsrc _ hd _ _ _) _ _) (fun _ _ => NO_pure _)

theorem finalBody_NO' (x : Nat × Nat) (mt : Match) : NO (finalBody x mt) := by
  unfold finalBody
  split <;> exact NO_pure _

theorem findMatch_NO (hnd : (song.tracks.map (·.1)).Nodup) (srcStart : Nat) :
    NO (findMatch song m srcT srcStart) := by
  obtain ⟨src, hs⟩ := hsrc
  rw [findMatch_eq song m srcT srcStart src hs]
  apply NO_bind (sourcePrefixes_NO hfull ⟨src, hs⟩ src hs _)
  intro bal _
  apply NO_bind (NO_forIn_mem _ _ _ (fun a ha b => trackBody_NO hfull ⟨src, hs⟩ hnd _ _ a ha b))
  intro s _
  exact NO_bind (NO_forIn _ (fun a b => finalBody_NO' hfull ⟨src, hs⟩ _ _) _ _) (fun _ _ => NO_pure _)

end findMatch

/-! ## `replace_with_subroutine` keeps the lists as long as the tracks -/

/-- every track but the new subroutine track `subT` has a stack list that covers it -/
def LFX (subT : Nat) (s : Song) (mm : SAMap) : Prop := HasTrack s subT ∧ ∀ id, id ≠ subT → Covers s mm id

theorem replaceWithSub_lfx {subT : Nat} {s : Song} {mm : SAMap} (h : LFX subT s mm) (subId : Int) {dstT pos len : Nat}
    {evs : List Event} (hd : s.track? dstT = some evs) (hl : pos + len ≤ evs.length) (h1 : 1 ≤ len)
    (hne : dstT ≠ subT) :
    LFX subT (replaceWithSub s mm subId dstT pos len).1 (replaceWithSub s mm subId dstT pos len).2 := by
  unfold replaceWithSub
  rw [hd]
  simp only
  refine ⟨?_, ?_⟩
  · obtain ⟨x, hx⟩ := h.1
    refine ⟨x, ?_⟩
    rw [track?_setTrack hd, if_neg (Ne.symm hne)]
    exact hx
  intro id hid dst hdst
  rw [track?_setTrack hd] at hdst
  have hcov := h.2 dstT hne evs hd
  by_cases hi : id = dstT
  · subst hi
    rw [if_pos rfl] at hdst
    cases hdst
    rw [getSA_setSA_same]
    simp only [List.length_append, List.length_take, List.length_drop, List.length_cons, List.length_nil]
    omega
  · rw [if_neg hi] at hdst
    rw [getSA_setSA_ne _ _ _ _ (by omega)]
    exact h.2 id hid dst hdst

/-! ## `find_subroutines` -/

theorem fsInner_NO {bm : Match} (h1 : 1 ≤ bm.subLength) (subId : Int) {dstT : Nat}
    (hne : dstT ≠ trackIdOfParam subId) (st : Song × SAMap × Nat) (hP : LFX (trackIdOfParam subId) st.1 st.2.1) :
    NO (fsInner bm subId dstT st) ∧
      ∀ r, fsInner bm subId dstT st = .ok r → LFX (trackIdOfParam subId) (stepVal r).1 (stepVal r).2.1 := by
  unfold fsInner
  split
  · rename_i hlt
    have hdT : HasTrack st.1 dstT := by
      cases ht : st.1.track? dstT with
      | some v => exact ⟨v, ht⟩
      | none => rw [ht] at hlt; simp at hlt
    constructor
    · apply NO_bind (findMatchLength_NO hP.1 _ hdT (hP.2 dstT hne) _ _)
      intro x _
      split <;> exact NO_pure _
    · intro r hr
      obtain ⟨x, hx, hr⟩ := bind_ok hr
      split at hr
      · rename_i hxl
        simp only [pure, Except.pure, Except.ok.injEq] at hr
        rw [← hr]
        simp only [stepVal]
        obtain ⟨src, dst, _, hd, hspec⟩ := findMatchLength_spec (len := x.1) (loopLen := x.2) hx
        obtain ⟨_, d, _, g2, _⟩ := hspec.same (x.1 - 1) (by omega)
        have := (List.getElem?_eq_some_iff.1 g2).1
        exact replaceWithSub_lfx hP subId hd (by omega) (by omega) hne
      · simp only [pure, Except.pure, Except.ok.injEq] at hr
        rw [← hr]
        exact hP
  · refine ⟨NO_pure _, fun r hr => ?_⟩
    simp only [pure, Except.pure, Except.ok.injEq] at hr
    rw [← hr]
    exact hP

theorem fsOuter_NO {bm : Match} (h1 : 1 ≤ bm.subLength) (subId : Int) (x : Nat × List Event) (st : Song × SAMap)
    (hP : LFX (trackIdOfParam subId) st.1 st.2) :
    NO (fsOuter bm subId x st) ∧
      ∀ r, fsOuter bm subId x st = .ok r → LFX (trackIdOfParam subId) (stepVal r).1 (stepVal r).2 := by
  unfold fsOuter
  split
  · refine ⟨NO_pure _, fun r hr => ?_⟩
    simp only [pure, Except.pure, Except.ok.injEq] at hr
    rw [← hr]
    exact hP
  · rename_i hx
    have hne : x.1 ≠ trackIdOfParam subId := fun he => hx (Or.inr he)
    obtain ⟨g1, g2⟩ := NO_forIn_inv (fun _ => fsInner bm subId x.1)
      (fun (s : Song × SAMap × Nat) => LFX (trackIdOfParam subId) s.1 s.2.1)
      (fun _ b hb => fsInner_NO h1 subId hne b hb)
      (List.range ((Option.map (fun x => x.length) (st.1.track? x.1)).getD 0 + 1))
      (st.1, st.2, if x.1 = bm.trackId then bm.position + 1 else 0) hP
    constructor
    · exact NO_bind g1 (fun _ _ => NO_pure _)
    · intro r hr
      obtain ⟨y, hy, hr⟩ := bind_ok hr
      simp only [pure, Except.pure, Except.ok.injEq] at hr
      rw [← hr]
      exact g2 y hy

theorem findSubroutines_NO {bm : Match} (h1 : 1 ≤ bm.subLength) (subId : Int) (song : Song) (m : SAMap)
    (hP : LFX (trackIdOfParam subId) song m) : NO (findSubroutines song m bm subId) := by
  rw [findSubroutines_eq]
  obtain ⟨g1, _⟩ := NO_forIn_inv (fsOuter bm subId)
    (fun (s : Song × SAMap) => LFX (trackIdOfParam subId) s.1 s.2)
    (fun a b hb => fsOuter_NO h1 subId a b hb) song.tracks (song, m) hP
  exact NO_bind g1 (fun _ _ => NO_pure _)

/-! ## `apply_match` and `find_best_match` -/

theorem applyMatch_NO {song : Song} {m : SAMap} {bm : Match} {subId : Int} (hfull : ListsFull song m)
    (hnd : (song.tracks.map (·.1)).Nodup) (hfresh : song.track? (trackIdOfParam subId) = none)
    (htr : HasTrack song bm.trackId)
    (hsub : bm.loopScore < bm.subScore → 1 ≤ bm.subLength ∧
      ∀ src, song.track? bm.trackId = some src → bm.position + bm.subLength ≤ src.length) :
    NO (applyMatch song m bm subId) := by
  unfold applyMatch
  simp only
  split
  · rename_i src hsrc
    apply NO_bind (NO_pure _)
    intro src' hsrc'
    simp only [pure, Except.pure, Except.ok.injEq] at hsrc'
    subst hsrc'
    split
    · rename_i hbr
      obtain ⟨h1, hlen⟩ := hsub hbr
      have hne : bm.trackId ≠ trackIdOfParam subId := by
        intro he
        rw [he, hfresh] at hsrc
        cases hsrc
      refine NO_bind ?_ (fun _ _ => NO_pure _)
      apply findSubroutines_NO h1
      -- the song with the new track, then the first replacement
      have hs1 : ∀ id, (setTrack song (trackIdOfParam subId)
          ((song.track? (trackIdOfParam subId)).getD [] ++ (src.drop bm.position).take bm.subLength)).track? id =
          if id = trackIdOfParam subId then
            some ((song.track? (trackIdOfParam subId)).getD [] ++ (src.drop bm.position).take bm.subLength)
          else song.track? id := fun id => track?_setTrack_fresh qsortPerm_of_core hnd hfresh _ id
      have hP1 : LFX (trackIdOfParam subId) (setTrack song (trackIdOfParam subId)
          ((song.track? (trackIdOfParam subId)).getD [] ++ (src.drop bm.position).take bm.subLength)) m := by
        refine ⟨⟨_, by rw [hs1, if_pos rfl]⟩, ?_⟩
        intro id hid dst hdst
        rw [hs1, if_neg hid] at hdst
        exact hfull id dst hdst
      have hsrc1 := hs1 bm.trackId
      rw [if_neg hne, hsrc] at hsrc1
      exact replaceWithSub_lfx hP1 subId hsrc1 (hlen src hsrc) h1 hne
    · exact NO_pure _
  · rename_i hnone
    obtain ⟨x, hx⟩ := htr
    rw [hx] at hnone
    cases hnone

/-- **`find_best_match` never reads a stack list outside its bounds and never asks for a track that
does not exist**, for a well-formed song with complete stack lists and a fresh subroutine id. -/
theorem findBestMatch_NO {song : Song} {m : SAMap} {subId : Int} (hwf : SongWF song) (hfull : ListsFull song m)
    (hfresh : song.track? (trackIdOfParam subId) = none) : NO (findBestMatch song m subId) := by
  unfold findBestMatch
  apply NO_bind
  · apply NO_forIn_mem
    intro a ha b
    refine NO_bind ?_ (fun _ _ => NO_pure _)
    apply NO_forIn
    intro srcPos b2
    apply NO_bind (findMatch_NO hfull (hasTrack_of_mem ha) hwf.nodup _)
    intro mt _
    split <;> exact NO_pure _
  · intro best hloop
    have hinv : best = {} ∨ ∃ srcT srcPos, findMatch song m srcT srcPos = .ok best := by
      refine forIn_inv' _ (fun b => b = {} ∨ ∃ srcT srcPos, findMatch song m srcT srcPos = .ok b) _ _
        (Or.inl rfl) ?_ best hloop
      intro a _ b0 hb0 r hr
      obtain ⟨srcT, src⟩ := a
      obtain ⟨b1, hin, hr⟩ := bind_ok hr
      simp only [pure, Except.pure, Except.ok.injEq] at hr
      refine ⟨b1, hr.symm, ?_⟩
      refine forIn_inv' _ (fun b => b = {} ∨ ∃ srcT srcPos, findMatch song m srcT srcPos = .ok b) _ _
        hb0 ?_ b1 hin
      intro srcPos _ b2 hb2 r2 hr2
      obtain ⟨mt, hmt, hr2⟩ := bind_ok hr2
      split at hr2
      · simp only [pure, Except.pure, Except.ok.injEq] at hr2
        exact ⟨mt, hr2.symm, Or.inr ⟨srcT, srcPos, hmt⟩⟩
      · simp only [pure, Except.pure, Except.ok.injEq] at hr2
        exact ⟨b2, hr2.symm, hb2⟩
    simp only
    split
    · rename_i hne
      refine NO_bind ?_ (fun _ _ => NO_pure _)
      rcases hinv with h0 | ⟨srcT, srcPos, hfm⟩
      · rw [h0] at hne; exact absurd (by decide) hne
      obtain ⟨ht, hp, hss, _⟩ := findMatch_spec hwf.nodup hfm
      obtain ⟨src, hsrc⟩ := findMatch_track hfm
      apply applyMatch_NO hfull hwf.nodup hfresh ⟨src, by rw [ht]; exact hsrc⟩
      intro hbr
      · skip
        have hpos : 0 < best.subScore := by
          have hb : best.bestScore = best.subScore := by
            unfold Match.bestScore
            rw [if_pos hbr]
          rw [hb] at hne
          omega
        have hso := findMatch_subOK hsrc hfm hpos
        obtain ⟨hlen, _⟩ := subOK_balanced hsrc hso
        refine ⟨hso.1, fun src' hsrc' => ?_⟩
        rw [ht, hsrc] at hsrc'
        cases hsrc'
        rw [hp]
        exact hlen
    · exact NO_pure _

end Ctrmml.OptSteps
