/-
  C01 ∘ expected: for a channel track of a song the optimiser has rewritten (validated result), the
  expected tick string of the OPTIMISED song is that of the ORIGINAL song — `C01_optimize_preserves`
  (the observation of every track is preserved) followed by `SongOpt.expected_congr` (the expected
  tick string is a function of the observation and of how drum routines resolve).  Shared by the
  optimised-song theorems of C02 and C03.
-/
import Ctrmml.Properties.C01
import Ctrmml.Proofs.SongOpt
namespace Ctrmml.SongOpt
open Ctrmml Ctrmml.Expand Ctrmml.Opt Ctrmml.OptSteps Ctrmml.C01 Tables

theorem optimised_expected_eq (valid : Song → Bool) (hvalid : ∀ s, valid s = true → validAll s = true)
    (song : Song) (minScore : Int) (fuel : Nat) (r : OptResult) (pf : Timeline.Platform)
    (hwf : SongWF song) (hsorted : (song.tracks.map (·.1)).Pairwise (· < ·))
    (hids : ∀ p ∈ song.tracks, p.1 < 32767)
    (hok : ∀ id, song.track? id ≠ none → okTrack song id)
    (hr : optimize valid minScore fuel song (initialSubId song) [] = .ok r) (hv : r.validated = true)
    (hcnt : initialSubId song + (r.passes.length : Int) < 32768)
    (hsorted' : (r.song.tracks.map (·.1)).Pairwise (· < ·))
    {id : Nat} {root root' : List Event} (hmem : (id, root) ∈ song.tracks) (hmem' : (id, root') ∈ r.song.tracks)
    (hdr : ∀ items, perf song root = .ok items → DrumAlike song r.song pf (played items)) :
    Timeline.expected r.song pf root' = Timeline.expected song pf root := by
  have htr : song.track? id = some root := track?_of_mem hsorted hmem
  have htr' : r.song.track? id = some root' := track?_of_mem hsorted' hmem'
  obtain ⟨hok', hobs⟩ := C01_optimize_preserves valid hvalid song minScore fuel r hwf hsorted hids hok hr hv hcnt id
    (by rw [htr]; simp)
  obtain ⟨t0, items, h0, hperf⟩ := hok id (by rw [htr]; simp)
  rw [htr] at h0
  simp only [Option.some.injEq] at h0
  subst h0
  obtain ⟨t1, items', h1, hperf'⟩ := hok'
  rw [htr'] at h1
  simp only [Option.some.injEq] at h1
  subst h1
  simp only [obsOf, htr, htr', hperf, hperf', Option.some.injEq] at hobs
  exact expected_congr hperf hperf' hobs (hdr items hperf)

end Ctrmml.SongOpt
