/-
  Helper for C06 (no property statements here): the hypotheses of the layout theorems
  (`LinesOk`, `CmdsOk` and what they are made of) are decidable, so that concrete layouts can be
  checked by evaluation (`decide`).
-/
import Ctrmml.Proofs.LayoutLines
import Ctrmml.Proofs.LayoutBlockLines
namespace Ctrmml.Mml
open Ctrmml.Tables Ctrmml.Lexer Ctrmml.TrackBuilder
open Ctrmml.MmlMeaning (Num Dur Acc Cmd)
open Ctrmml.Layout (Addr)

instance decNotDigitHead (base : Nat) : (rest : List Nat) → Decidable (NotDigitHead base rest)
  | [] => isTrue (fun c hc => by simp at hc)
  | c :: r =>
    if h : digitVal base c = none then isTrue (fun x hx => by simp at hx; subst hx; exact h)
    else isFalse (fun hh => h (hh c rfl))

instance decNumEnd (base : Nat) : (rest : List Nat) → Decidable (NumEnd base rest)
  | [] => isTrue ⟨fun c hc => by simp at hc, fun _ c hc => by simp at hc⟩
  | c :: r =>
    if h : digitVal base c = none ∧ (base = 16 → c ≠ 120 ∧ c ≠ 88) then
      isTrue ⟨fun x hx => by simp at hx; subst hx; exact h.1, fun hb x hx => by simp at hx; subst hx; exact h.2 hb⟩
    else isFalse (fun hh => h ⟨hh.1 c rfl, fun hb => hh.2 hb c rfl⟩)

instance decDurTail : (d : Dur) → (tail : List Nat) → Decidable (DurTail d tail)
  | .dflt 0, tail => inferInstanceAs (Decidable ((numSpan tail).1 = none ∧ (tail.drop (numSpan tail).2).head? ≠ some 46 ∧ tail.head? ≠ some 58))
  | .dflt (_ + 1), tail => inferInstanceAs (Decidable (tail.head? ≠ some 46))
  | .len n 0, tail => inferInstanceAs (Decidable (NumEnd (numBase n) tail ∧ tail.head? ≠ some 46))
  | .len _ (_ + 1), tail => inferInstanceAs (Decidable (tail.head? ≠ some 46))
  | .frames n 0, tail => inferInstanceAs (Decidable (NumEnd (numBase n) tail ∧ tail.head? ≠ some 46))
  | .frames _ (_ + 1), tail => inferInstanceAs (Decidable (tail.head? ≠ some 46))

instance decNumRange (n : Num) : Decidable (NumRange n) := inferInstanceAs (Decidable (_ ∧ _))

instance decDurNums : (d : Dur) → Decidable (DurNums d)
  | .dflt _ => isTrue trivial
  | .len n _ => inferInstanceAs (Decidable (NumRange n ∧ 1 ≤ n.v))
  | .frames n _ => inferInstanceAs (Decidable (NumRange n ∧ 0 ≤ n.v))

instance decCmdTail : (c : Cmd) → (tail : List Nat) → Decidable (CmdTail c tail)
  | .note _ a d, tail => inferInstanceAs (Decidable (DurTail d tail ∧
      (a = .none → (d.bytes ++ tail).head? ≠ some 43 ∧ (d.bytes ++ tail).head? ≠ some 45 ∧ (d.bytes ++ tail).head? ≠ some 61)))
  | .rest d, tail => inferInstanceAs (Decidable (DurTail d tail))
  | .tie d, tail => inferInstanceAs (Decidable (DurTail d tail))
  | .length d, tail => inferInstanceAs (Decidable (DurTail d tail))
  | .octave n, tail => inferInstanceAs (Decidable (NumEnd (numBase n) tail))
  | .quantize n, tail => inferInstanceAs (Decidable (NumEnd (numBase n) tail))
  | .early n, tail => inferInstanceAs (Decidable (NumEnd (numBase n) tail))
  | .measure n, tail => inferInstanceAs (Decidable (NumEnd (numBase n) tail))
  | .shuffle n, tail => inferInstanceAs (Decidable (NumEnd (numBase n) tail))
  | .slur, _ | .octUp, _ | .octDown, _ | .revRest _, _ | .grace _ _ _, _ | .echoSet _ _, _ | .echo _, _ | .keyScale _, _
  | .keyMod _, _ | .drum _, _ | .simple _ _, _ | .bar, _ => isTrue trivial

instance decOptTail : (o : Option EvClass) → (tail : List Nat) → Decidable (optTail o tail)
  | some (.opt _ _ _ _), tail => inferInstanceAs (Decidable ((numSpan tail).1 = none))
  | some (.noarg _ _), _ => isTrue trivial
  | some (.num _ _), _ => isTrue trivial
  | none, _ => isTrue trivial

instance decLCmdTail : (c : Cmd) → (tail : List Nat) → Decidable (LCmdTail c tail)
  | .simple _ (some n), tail => inferInstanceAs (Decidable (NumEnd (numBase n) tail))
  | .simple s none, tail => inferInstanceAs (Decidable (optTail (evClass s) tail))
  | .drum n, tail => inferInstanceAs (Decidable (NumEnd (numBase n) tail))
  | .revRest d, tail => inferInstanceAs (Decidable (DurTail d tail))
  | .grace _ a d, tail => inferInstanceAs (Decidable (DurTail d tail ∧
      (a = .none → (d.bytes ++ tail).head? ≠ some 43 ∧ (d.bytes ++ tail).head? ≠ some 45 ∧ (d.bytes ++ tail).head? ≠ some 61)))
  | .note l a d, tail => decCmdTail (.note l a d) tail
  | .rest d, tail => decCmdTail (.rest d) tail
  | .tie d, tail => decCmdTail (.tie d) tail
  | .length d, tail => decCmdTail (.length d) tail
  | .octave n, tail => decCmdTail (.octave n) tail
  | .quantize n, tail => decCmdTail (.quantize n) tail
  | .early n, tail => decCmdTail (.early n) tail
  | .measure n, tail => decCmdTail (.measure n) tail
  | .shuffle n, tail => decCmdTail (.shuffle n) tail
  | .slur, _ | .octUp, _ | .octDown, _ | .echoSet _ _, _ | .echo _, _ | .keyScale _, _
  | .keyMod _, _ | .bar, _ => isTrue trivial

instance decCovSimple : (o : Option EvClass) → (n : Option Num) → Decidable (covSimple o n)
  | some (.noarg _ _), none => isTrue trivial
  | some (.noarg _ _), some _ => isFalse (fun h => h)
  | some (.opt _ _ _ _), none => isTrue trivial
  | some (.opt _ _ _ _), some _ => isTrue trivial
  | some (.num _ _), some _ => isTrue trivial
  | some (.num _ _), none => isFalse (fun h => h)
  | none, none => isFalse (fun h => h)
  | none, some _ => isFalse (fun h => h)

instance decLCovered : (c : Cmd) → Decidable (LCovered c)
  | .simple s n => inferInstanceAs (Decidable (covSimple (evClass s) n))
  | .drum _ => isTrue trivial
  | .revRest _ => isTrue trivial
  | .grace l _ _ => inferInstanceAs (Decidable (l < 8))
  | .note l _ _ => inferInstanceAs (Decidable (l < 8))
  | .rest _ | .tie _ | .length _ | .octave _ | .octUp | .octDown | .quantize _ | .early _
  | .measure _ | .shuffle _ | .slur => isTrue trivial
  | .echoSet _ _ | .echo _ | .keyScale _ | .keyMod _ | .bar => isFalse (fun h => h)

instance decLCmdNums (t : Track) : (c : Cmd) → Decidable (LCmdNums t c)
  | .simple _ (some n) => inferInstanceAs (Decidable (NumRange n))
  | .simple _ none => isTrue trivial
  | .drum n => inferInstanceAs (Decidable (NumRange n))
  | .revRest d => inferInstanceAs (Decidable (DurNums d ∧ (t.reverseRest (UInt16.ofNat (durVal t d).toNat)).2 = .done))
  | .grace _ _ d => inferInstanceAs (Decidable (DurNums d ∧ (t.reverseRest (UInt16.ofNat (durVal t d).toNat)).2 = .done))
  | .note _ _ d => inferInstanceAs (Decidable (DurNums d))
  | .rest d => inferInstanceAs (Decidable (DurNums d))
  | .tie d => inferInstanceAs (Decidable (DurNums d))
  | .length d => inferInstanceAs (Decidable (DurNums d))
  | .octave n => inferInstanceAs (Decidable (NumRange n))
  | .quantize n => inferInstanceAs (Decidable (NumRange n))
  | .early n => inferInstanceAs (Decidable (NumRange n))
  | .measure n => inferInstanceAs (Decidable (NumRange n))
  | .shuffle n => inferInstanceAs (Decidable (NumRange n))
  | .slur => inferInstanceAs (Decidable (t.addSlur.2 = 0))
  | .octUp | .octDown | .echoSet _ _ | .echo _ | .keyScale _
  | .keyMod _ | .bar => isTrue trivial

instance decCmdsOk : (t : Track) → (cs : List Cmd) → Decidable (CmdsOk t cs)
  | _, [] => isTrue trivial
  | t, c :: cs =>
    have := decCmdsOk (lcmdTrack t c) cs
    inferInstanceAs (Decidable (LCovered c ∧ LCmdNums t c ∧ CmdsOk (lcmdTrack t c) cs))

instance decToksOk : (ts : List Tok) → (e : List Nat) → Decidable (ToksOk ts e)
  | [], _ => isTrue trivial
  | .blank b :: ts, e =>
    have := decToksOk ts e
    inferInstanceAs (Decidable ((b = 32 ∨ b = 9) ∧ ToksOk ts e))
  | .bar :: ts, e => decToksOk ts e
  | .cmd c :: ts, e =>
    have := decToksOk ts e
    inferInstanceAs (Decidable (LCmdTail c (toksText ts e) ∧ ToksOk ts e))

instance decEndOk : (e : List Nat) → Decidable (EndOk e)
  | [] => isTrue (Or.inl rfl)
  | c :: r =>
    if h : c = 59 then isTrue (Or.inr ⟨r, by rw [h]⟩)
    else isFalse (fun hh => by
      rcases hh with hh | ⟨r', hh⟩
      · cases hh
      · simp at hh; exact h hh.1)

instance decBytes (l : List Nat) : Decidable (Bytes l) := inferInstanceAs (Decidable (∀ x ∈ l, x < 256))

instance decAddrOk : (a : Addr) → Decidable (AddrOk a)
  | .letter k => inferInstanceAs (Decidable (k < 26))
  | .digit d => inferInstanceAs (Decidable (d < 10))
  | .star n => inferInstanceAs (Decidable (n < 2147483648))

instance decStarFollow : (a : Addr) → (as : List Addr) → Decidable (∀ n, a = .star n → ∀ d, as.head? ≠ some (.digit d))
  | .letter _, _ => isTrue (fun n h => by cases h)
  | .digit _, _ => isTrue (fun n h => by cases h)
  | .star _, [] => isTrue (fun _ _ d => by simp)
  | .star _, .letter _ :: _ => isTrue (fun _ _ d => by simp)
  | .star _, .star _ :: _ => isTrue (fun _ _ d => by simp)
  | .star m, .digit d :: _ => isFalse (fun h => h m rfl d rfl)

instance decHeaderOk : (as : List Addr) → Decidable (HeaderOk as)
  | [] => isTrue trivial
  | a :: as =>
    have := decHeaderOk as
    inferInstanceAs (Decidable (AddrOk a ∧ (∀ n, a = .star n → ∀ d, as.head? ≠ some (.digit d)) ∧ HeaderOk as))

instance decLineOk (ids : List Nat) : (l : LLine) → Decidable (LineOk ids l)
  | .hdr as b ts e => inferInstanceAs (Decidable (as ≠ [] ∧ HeaderOk as ∧ as.map Addr.id = ids ∧ (b = 32 ∨ b = 9) ∧ ToksOk ts e ∧ EndOk e ∧
      Bytes (headerBytes as ++ b :: toksText ts e)))
  | .cont b ts e => inferInstanceAs (Decidable ((b = 32 ∨ b = 9) ∧ ToksOk ts e ∧ EndOk e ∧ Bytes (b :: toksText ts e)))
  | .empty => isTrue trivial
  | .comment _ => isTrue trivial

instance decLinesOk (ids : List Nat) : (r : Bool) → (ls : List LLine) → Decidable (LinesOk ids r ls)
  | _, [] => isTrue trivial
  | r, l :: ls =>
    have := decLinesOk ids (r || l.isHdr) ls
    inferInstanceAs (Decidable (LineOk ids l ∧ (l.isCont = true → r = true) ∧ LinesOk ids (r || l.isHdr) ls))

/-! ### bodies with blocks -/

instance decCmdStart (c : Nat) : Decidable (CmdStart c) := inferInstanceAs (Decidable (_ ∨ _))
instance decLCmdStart (c : Nat) : Decidable (LCmdStart c) := inferInstanceAs (Decidable (_ ∨ _))
instance decStop (c : Nat) : Decidable (Stop c) := inferInstanceAs (Decidable (_ ∨ _))

instance decStopEnd : (e : List Nat) → Decidable (StopEnd e)
  | [] => isTrue (Or.inl rfl)
  | c :: r =>
    if h : Stop c then isTrue (Or.inr ⟨c, r, rfl, h⟩)
    else isFalse (fun hh => by
      rcases hh with hh | ⟨c', r', hh, hc⟩
      · cases hh
      · simp at hh; exact h (hh.1 ▸ hc))

instance decClean (l : List Nat) : Decidable (Clean l) :=
  inferInstanceAs (Decidable (∀ x ∈ l, x ≠ 0 ∧ x ≠ 47 ∧ x ≠ 59 ∧ x ≠ 125 ∧ x < 128))

instance decItemsOk (i : Nat) : (items : List Item) → (e : List Nat) → Decidable (ItemsOk i items e)
  | [], _ => isTrue trivial
  | .toks ts :: rest, e =>
    have := decItemsOk i rest e
    inferInstanceAs (Decidable (ToksOk ts (itemsText rest e) ∧ StopEnd (itemsText rest e) ∧ ItemsOk i rest e))
  | .block alts :: rest, e =>
    have := decItemsOk i rest e
    inferInstanceAs (Decidable (i < alts.length ∧ (∀ a ∈ alts, Clean (altText a)) ∧
      ToksOk (alts.getD i []) (afterText (alts.drop (i + 1)) (itemsText rest e)) ∧ ItemsOk i rest e))

instance decBLineOk (ids : List Nat) : (l : BLine) → Decidable (BLineOk ids l)
  | .hdr as b items e => inferInstanceAs (Decidable (as ≠ [] ∧ HeaderOk as ∧ as.map Addr.id = ids ∧ (b = 32 ∨ b = 9) ∧
      (∀ j, j < ids.length → ItemsOk j items e) ∧ EndOk e ∧ Bytes (headerBytes as ++ b :: itemsText items e)))
  | .cont b items e => inferInstanceAs (Decidable ((b = 32 ∨ b = 9) ∧ (∀ j, j < ids.length → ItemsOk j items e) ∧ EndOk e ∧
      Bytes (b :: itemsText items e)))
  | .empty => isTrue trivial
  | .comment _ => isTrue trivial

instance decBLinesOk (ids : List Nat) : (r : Bool) → (ls : List BLine) → Decidable (BLinesOk ids r ls)
  | _, [] => isTrue trivial
  | r, l :: ls =>
    have := decBLinesOk ids (r || l.isHdr) ls
    inferInstanceAs (Decidable (BLineOk ids l ∧ (l.isCont = true → r = true) ∧ BLinesOk ids (r || l.isHdr) ls))

end Ctrmml.Mml
