/-
  C09 helper (round 4): unfolding equations for evaluating the mutually (well-founded) recursive
  writer on a CONCRETE song inside the kernel.  `decide`/`rfl` cannot unfold `runWriter` / `hook` /
  `getSubroutine`; these lemmas expose one loop iteration at a time with every non-recursive piece
  (`stepTrace`, the hook's `switch`, `end_hook`) left to `rfl`:
    `rw [run_hook_step rfl rfl rfl ((hook_vis rfl rfl).trans rfl)]`
  The intermediate states are never written down — `rfl` unifies them.
-/
import Ctrmml.Proofs.MdsHook
namespace Ctrmml.MdsFragP
open Ctrmml Ctrmml.Mds Ctrmml.Player Tables

/-- `end_hook` -/
def endW (w : WState) (s' : PState) : WState :=
  if (flushRest w).inLoop ∧ !(decide ((s'.acc.playTime : Int) = s'.acc.loopPlayTime)) then push (flushRest w) mds_JUMP 0
  else push (flushRest w) mds_FINISH 0

theorem run_hook_step {song : Song} {d : DataInfo} {root : List Event} {n k : Nat} {c : Conv} {w : WState} {s s' : PState}
    {it : TraceItem} {c' : Conv} {w' : WState} (hen : s.acc.enabled = true) (hd : w.disabled = false)
    (h1 : stepTrace song root false s = .ok (s', some (some it))) (h2 : hook song d n c w it = .ok (c', w')) :
    runWriter song d root (n + 1) (k + 1) c w s = runWriter song d root (n + 1) k c' w' s' := by
  rw [runWriter]; simp [hen, hd, h1, h2]

theorem run_none_step {song : Song} {d : DataInfo} {root : List Event} {n k : Nat} {c : Conv} {w : WState} {s s' : PState}
    (hen : s.acc.enabled = true) (hd : w.disabled = false) (h1 : stepTrace song root false s = .ok (s', none)) :
    runWriter song d root (n + 1) (k + 1) c w s = runWriter song d root (n + 1) k c w s' := by
  rw [runWriter]; simp [hen, hd, h1]

theorem run_end_step {song : Song} {d : DataInfo} {root : List Event} {n k : Nat} {c : Conv} {w : WState} {s s' : PState}
    (hen : s.acc.enabled = true) (hd : w.disabled = false) (h1 : stepTrace song root false s = .ok (s', some none)) :
    runWriter song d root (n + 1) (k + 1) c w s = .ok (c, endW w s') := by
  rw [runWriter]; simp [hen, hd, h1, endW]

theorem hook_vis {song : Song} {d : DataInfo} {n : Nat} {c : Conv} {w : WState} {it : TraceItem}
    (h1 : it.insideLoop = false) (h2 : it.insideJump = false) :
    hook song d (n + 1) c w it = hookVis song d n c (prep w it) it := by
  rw [hook_succ_eq]; simp [h1, h2]

theorem hook_silent {song : Song} {d : DataInfo} {n : Nat} {c : Conv} {w : WState} {it : TraceItem}
    (h1 : (it.insideLoop || it.insideJump) = true) (h2 : it.ev.type ≠ ev_INS) :
    hook song d (n + 1) c w it = .ok (c, w) := by
  rw [hook_succ_eq]
  have : it.insideLoop = true ∨ it.insideJump = true := by simpa using h1
  simp [this, h2]

theorem hookVis_jump {song : Song} {d : DataInfo} {n : Nat} {c c' : Conv} {w : WState} {it : TraceItem} {id : Int}
    (ht : it.ev.type = ev_JUMP) (hg : getSubroutine song d n c it.ev.param false w.drumEnabled = .ok (c', id)) :
    hookVis song d n c w it = .ok (c', push w mds_PAT id) := by
  unfold hookVis
  simp (config := { decide := true }) only [ht, hg, if_false, if_true]

theorem getSub_new {song : Song} {d : DataInfo} {n : Nat} {c c2 : Conv} {t : Int} {a b : Bool} {evs : List Event} {w : WState}
    (hl : c.subMap.lookup (t * 4 + (if a then 2 else 0) + (if b then 1 else 0)) = none)
    (htr : song.track? (trackIdOfParam t) = some evs)
    (hr : runWriter song d evs n 20000000 { c with subMap := c.subMap ++ [(t * 4 + (if a then 2 else 0) + (if b then 1 else 0), c.subList.length)], subList := c.subList ++ [[]] }
        { drumEnabled := b, inDrum := a, trackId := t } initState = .ok (c2, w)) :
    getSubroutine song d (n + 1) c t a b = .ok ({ c2 with subList := c2.subList.set c.subList.length w.out }, c.subList.length) := by
  rw [getSubroutine]
  simp only [hl, htr, hr]

end Ctrmml.MdsFragP
