/- Helper lemmas for C16: the player machine and MDSDRV_Track_Writer do not depend on the params of
   LOOP_BREAK events (which every player overwrites in the Song). -/
import Ctrmml.Model.Globals
namespace Ctrmml.Globals
open Ctrmml Ctrmml.Player Ctrmml.Mds Tables

theorem normE_type (e : Event) : (normE e).type = e.type := by
  unfold normE; split <;> rfl
theorem normE_on (e : Event) : (normE e).on = e.on := by
  unfold normE; split <;> rfl
theorem normE_off (e : Event) : (normE e).off = e.off := by
  unfold normE; split <;> rfl
theorem normE_kind (e : Event) : (normE e).kind = e.kind := by
  unfold Event.kind; rw [normE_type]
theorem normE_of_ne (e : Event) (h : e.type ≠ ev_LOOP_BREAK) : normE e = e := by
  unfold normE; simp [h]
theorem normE_idem (e : Event) : normE (normE e) = normE e := by
  unfold normE; split <;> simp_all

theorem kind_ne_brk {e : Event} (h : e.kind ≠ .loopBreak) : e.type ≠ ev_LOOP_BREAK := by
  intro hc; apply h; unfold Event.kind kindOfType; rw [hc]; decide

theorem normE_endEvent : normE endEvent = endEvent := by decide

theorem fetch_norm (code : List Event) (pos : Nat) : fetch (normCode code) pos = normE (fetch code pos) := by
  unfold fetch normCode
  rw [List.getElem?_map]
  cases code[pos]? <;> simp [normE_endEvent]

theorem lookup_map {β γ} (l : List (Nat × β)) (f : β → γ) (k : Nat) :
    (l.map fun p => (p.1, f p.2)).lookup k = (l.lookup k).map f := by
  induction l with
  | nil => rfl
  | cons p r ih =>
    by_cases h : k = p.1
    · subst h; simp [List.lookup]
    · have h' : (k == p.1) = false := by simp [h]
      simp [List.lookup, h', ih]

theorem track_norm (s : Song) (id : Nat) : (normSong s).track? id = (s.track? id).map normCode := by
  unfold Song.track? normSong
  exact lookup_map _ _ _

theorem codeOf_norm (s : Song) (root : List Event) (t : TRef) :
    codeOf (normSong s) (normCode root) t = normCode (codeOf s root t) := by
  cases t with
  | root => rfl
  | id n =>
    simp only [codeOf, track_norm]
    cases s.track? n <;> simp [normCode]

def normOut : Out → Out
  | .hook v f => .hook (normE v) (normE f)
  | .ret f => .ret (normE f)
  | .rootEnd f => .rootEnd (normE f)

theorem coreStep_norm (s : Song) (root : List Event) (c : Core) :
    coreStep (normSong s) (normCode root) c = (coreStep s root c).map fun p => (p.1, normOut p.2) := by
  unfold coreStep
  simp only [codeOf_norm, fetch_norm, normE_kind]
  generalize he : fetch (codeOf s root c.track) c.position = e
  cases hk : e.kind with
  | loopStart =>
    simp only
    cases push c.stack _ <;> simp [Except.map, normOut]
  | loopBreak =>
    simp only
    cases stackTop c.stack .loop with
    | error err => rfl
    | ok f =>
      simp only
      split
      · unfold normCode
        rw [List.getElem?_map]
        cases (codeOf s root c.track)[f.endPosition - 1]? <;> simp [Except.map, normOut]
      · simp [Except.map, normOut]
  | loopEnd =>
    have hne : normE e = e := normE_of_ne e (kind_ne_brk (by rw [hk]; decide))
    simp only [hne]
    cases stackTop c.stack .loop with
    | error err => rfl
    | ok f =>
      simp only
      generalize (if f.loopCount = 0 then e.param else f.loopCount) = cnt
      by_cases h1 : cnt < 0
      · simp [h1, Except.map]
      · by_cases h2 : 1 < cnt <;> simp [h1, h2, Except.map, normOut, hne]
  | segno => simp [Except.map, normOut]
  | jump =>
    have hne : normE e = e := normE_of_ne e (kind_ne_brk (by rw [hk]; decide))
    simp only [hne, track_norm]
    cases s.track? (trackIdOfParam e.param) with
    | none => rfl
    | some _ =>
      simp only [Option.map]
      cases push c.stack _ <;> simp [Except.map, normOut, hne]
  | fin =>
    simp only
    cases c.stack with
    | nil => simp [Except.map, normOut]
    | cons f r =>
      simp only
      cases stackTop (f :: r) .jump <;> simp [Except.map, normOut]
  | other => simp [Except.map, normOut]

def normEmit : Emit → Emit
  | .event e => .event (normE e)
  | x => x

theorem fetched_norm (o : Out) : (normOut o).fetched = normE o.fetched := by
  cases o <;> rfl

theorem accStep_norm (lh : Bool) (a : Acc) (pos : Nat) (c' : Core) (o : Out) :
    accStep lh a pos c' (normOut o) =
      ((accStep lh a pos c' o).1, (accStep lh a pos c' o).2.1, normEmit (accStep lh a pos c' o).2.2) := by
  unfold accStep
  simp only [fetched_norm, normE_on, normE_off]
  cases o with
  | hook v f =>
    simp only [normOut, normE_kind]
    split <;> rfl
  | ret f => rfl
  | rootEnd f =>
    simp only [normOut]
    split <;> rfl

def normItem (t : TraceItem) : TraceItem := { t with ev := normE t.ev }

theorem hookStack_norm (c c' : Core) (o : Out) : hookStack c c' (normOut o) = hookStack c c' o := by
  cases o <;> simp [hookStack, normOut, normE_kind]

theorem hookBeforeError_norm (s : Song) (root : List Event) (st : PState) :
    hookBeforeError (normSong s) (normCode root) st = (hookBeforeError s root st).map normItem := by
  unfold hookBeforeError
  simp only [codeOf_norm, fetch_norm, normE_kind, normE_on, normE_off]
  generalize fetch (codeOf s root st.core.track) st.core.position = e
  by_cases hk : e.kind = .jump
  · have hne : normE e = e := normE_of_ne e (kind_ne_brk (by rw [hk]; decide))
    simp only [hne, track_norm, Option.isSome_map]
    split <;> simp [normItem, hne]
  · simp [hk]

theorem stepTrace_norm (s : Song) (root : List Event) (lh : Bool) (st : PState) :
    stepTrace (normSong s) (normCode root) lh st =
      match stepTrace s root lh st with
      | .error (e, h) => .error (e, h.map normItem)
      | .ok (st', t) => .ok (st', t.map (·.map normItem)) := by
  unfold stepTrace
  rw [coreStep_norm, hookBeforeError_norm]
  cases coreStep s root st.core with
  | error e => rfl
  | ok p =>
    obtain ⟨c', o⟩ := p
    simp only [Except.map, accStep_norm, hookStack_norm]
    generalize accStep lh st.acc st.core.position c' o = r
    obtain ⟨a', c'', em⟩ := r
    cases em <;> simp [normEmit, normItem, normE_on, normE_off]

end Ctrmml.Globals

namespace Ctrmml.Globals
open Ctrmml Ctrmml.Player Ctrmml.Mds Tables

/-- the four mutually recursive functions of the writer agree on `song` and `normSong song` -/
structure WriterInv (s : Song) (d : DataInfo) (n : Nat) : Prop where
  hook : ∀ c w it, Mds.hook (normSong s) d n c w (normItem it) = Mds.hook s d n c w it
  run : ∀ steps root c w st, runWriter (normSong s) d (normCode root) n steps c w st = runWriter s d root n steps c w st
  sub : ∀ c tid a b, getSubroutine (normSong s) d n c tid a b = getSubroutine s d n c tid a b
  mac : ∀ c tid, getMacroTrack (normSong s) d n c tid = getMacroTrack s d n c tid

theorem hook_succ (s : Song) (d : DataInfo) (n : Nat) (ih : WriterInv s d n) (c : Conv) (w : WState) (it : TraceItem) :
    Mds.hook (normSong s) d (n + 1) c w (normItem it) = Mds.hook s d (n + 1) c w it := by
  by_cases hb : it.ev.type = ev_LOOP_BREAK
  · have h1 : (normItem it).ev.type = 5 := by simp only [normItem, normE_type, hb]; rfl
    have h2 : it.ev.type = 5 := hb
    simp only [Mds.hook, h1, h2]
    simp [normItem, ev_INS, ev_REST, ev_TIE, ev_NOTE, ev_LOOP_START, ev_LOOP_BREAK]
  · have : normItem it = it := by
      unfold normItem; rw [normE_of_ne _ hb]
    rw [this]
    simp only [Mds.hook, ih.sub, ih.mac]

theorem run_succ (s : Song) (d : DataInfo) (n : Nat) (ih : WriterInv s d n) (steps : Nat) :
    ∀ root c w st, runWriter (normSong s) d (normCode root) (n + 1) steps c w st = runWriter s d root (n + 1) steps c w st := by
  induction steps with
  | zero => intro root c w st; simp only [runWriter]
  | succ k ihk =>
    intro root c w st
    simp only [runWriter, stepTrace_norm]
    split
    · rfl
    · cases hst : stepTrace s root false st with
      | error p =>
        obtain ⟨e, h⟩ := p
        cases h with
        | none => rfl
        | some it => simp only [Option.map, ih.hook]
      | ok p =>
        obtain ⟨st', t⟩ := p
        cases t with
        | none => simp only [Option.map]; exact ihk root c w st'
        | some t1 =>
          cases t1 with
          | none => rfl
          | some it =>
            have ht : (normItem it).ev.type = it.ev.type := by simp only [normItem, normE_type]
            simp only [Option.map, ih.hook, ht]
            cases Mds.hook s d n c w it with
            | error x => rfl
            | ok r => exact ihk root r.1 r.2 st'

theorem writerInv (s : Song) (d : DataInfo) : ∀ n, WriterInv s d n := by
  intro n
  induction n with
  | zero =>
    refine ⟨?_, ?_, ?_, ?_⟩
    · intro c w it; simp only [Mds.hook]
    · intro steps root c w st; cases steps <;> simp only [runWriter]
    · intro c tid a b; simp only [getSubroutine]
    · intro c tid; simp only [getMacroTrack]
  | succ n ih =>
    refine ⟨hook_succ s d n ih, fun steps => run_succ s d n ih steps, ?_, ?_⟩
    · intro c tid a b
      simp only [getSubroutine, track_norm]
      split
      · rfl
      · cases s.track? (trackIdOfParam tid) with
        | none => rfl
        | some evs => simp only [Option.map, ih.run]
    · intro c tid
      simp only [getMacroTrack, track_norm]
      split
      · rfl
      · cases s.track? (trackIdOfParam tid) with
        | none => rfl
        | some evs => simp only [Option.map, ih.run]

end Ctrmml.Globals

namespace Ctrmml.Globals
open Ctrmml Ctrmml.Player Ctrmml.Mds Tables

theorem ids_norm (s : Song) : (normSong s).tracks.map (·.1) = s.tracks.map (·.1) := by
  simp [normSong, List.map_map, Function.comp_def]

/-- the whole `MDSDRV_Converter` constructor is blind to `LOOP_BREAK` params -/
theorem convertSong_norm (s : Song) (d : DataInfo) (v : Option Nat) : convertSong (normSong s) d v = convertSong s d v := by
  unfold convertSong
  simp only [ids_norm]
  congr 1
  congr 1
  funext id r
  rw [track_norm]
  cases s.track? id with
  | none => rfl
  | some evs => simp only [Option.map, (writerInv s d 64).run]

/-! ### the write-backs of a player step only touch `LOOP_BREAK` params and `play_time` stamps -/

def eraseStamps (l : List SEvent) : List Event := l.map (·.ev)

theorem setAt_map {α β} (l : List α) (i : Nat) (f : α → α) (g : α → β) (h : ∀ a, g (f a) = g a) :
    (setAt l i f).map g = l.map g := by
  unfold setAt
  cases hi : l[i]? with
  | none => rfl
  | some a =>
    simp only
    apply List.ext_getElem?
    intro j
    simp only [List.getElem?_map, List.getElem?_set]
    split
    · rename_i hij
      subst hij
      split
      · simp [hi, h]
      · rename_i hlt; simp at hlt; simp [List.getElem?_eq_none hlt]
    · rfl

theorem brk_of_kind {e : Event} (h : e.kind = .loopBreak) : e.type = ev_LOOP_BREAK := by
  unfold Event.kind kindOfType at h
  split at h
  · cases h
  · split at h
    · assumption
    · split at h
      · cases h
      · split at h
        · cases h
        · split at h
          · cases h
          · split at h
            · cases h
            · cases h

theorem stampEvent_ev (st : PState) (e : SEvent) : (stampEvent st e).ev = e.ev := by
  unfold stampEvent; simp only; split <;> rfl

theorem brkEvent_norm (st : PState) (e : SEvent) : normE (brkEvent st e).ev = normE e.ev := by
  unfold brkEvent
  split
  · rename_i hk
    have ht := brk_of_kind hk
    cases stackTop st.core.stack .loop with
    | error _ => rfl
    | ok f => simp [normE, ht]
  · rfl

theorem wbEvent_norm (st : PState) (e : SEvent) : normE (wbEvent st e).ev = normE e.ev := by
  unfold wbEvent; rw [brkEvent_norm, stampEvent_ev]

/-- one `step_event` leaves a track that differs from the old one only in `LOOP_BREAK` params
(and in `play_time` stamps, which `eraseStamps` forgets) -/
theorem wbStep_norm (st : PState) (code : List SEvent) :
    normCode (eraseStamps (wbStep st code)) = normCode (eraseStamps code) := by
  unfold wbStep normCode eraseStamps
  rw [List.map_map, List.map_map]
  exact setAt_map code st.core.position (wbEvent st) (normE ∘ (·.ev)) (fun a => wbEvent_norm st a)

end Ctrmml.Globals
