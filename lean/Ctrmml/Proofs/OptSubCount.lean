/-
  C01, layer 2 — the subroutine candidate of `find_match`: every phrase length it counts is a
  balanced prefix (`balanced[len]`) of the phrase and at most the length of some match returned by
  `find_match_length`; hence the chosen `subLength` prefix is a balanced segment inside the track.
-/
import Ctrmml.Proofs.OptQSort
import Ctrmml.Proofs.OptSrcRoom
namespace Ctrmml.OptSteps
open Ctrmml Ctrmml.Tree Ctrmml.Expand Ctrmml.Rewrite Ctrmml.Opt Tables

/-- what `find_match` knows about a phrase length it counts -/
def SubOK (song : Song) (m : SAMap) (srcT srcStart : Nat) (isBal : Nat → Bool) (len : Nat) : Prop :=
  1 ≤ len ∧ isBal len = true ∧
    ∃ dstT dstPos wl len0 ll, findMatchLength song m srcT srcStart dstT dstPos wl = .ok (len0, ll) ∧ len ≤ len0

theorem SubOK.mono {song : Song} {m : SAMap} {srcT srcStart : Nat} {isBal isBal' : Nat → Bool} {len : Nat}
    (h : SubOK song m srcT srcStart isBal' len) (hb : ∀ len, isBal' len = true → isBal len = true) :
    SubOK song m srcT srcStart isBal len :=
  ⟨h.1, hb _ h.2.1, h.2.2⟩

def CInv (P : Nat → Prop) (c : Counter) : Prop := ∀ p ∈ c, P p.1

theorem cSet_mem {c : Counter} {k v : Nat} {p : Nat × Nat} (h : p ∈ cSet c k v) : p ∈ c ∨ p.1 = k := by
  unfold cSet at h
  split at h
  · obtain ⟨q, hq, rfl⟩ := List.mem_map.1 h
    split
    · right; rfl
    · left; exact hq
  · rcases List.mem_append.1 h with h | h
    · left; exact h
    · right; simp at h; rw [h]

theorem CInv.cSet {P : Nat → Prop} {c : Counter} (h : CInv P c) {k : Nat} (hk : P k) (v : Nat) :
    CInv P (cSet c k v) := by
  intro p hp
  rcases cSet_mem hp with h1 | h1
  · exact h p h1
  · rw [h1]; exact hk

theorem minSubScore_eq : minSubScore = 3 := rfl

theorem innerSame_cnt {P : Nat → Prop} {isBal : Nat → Bool} {dstPos length : Nat} {sc last : Counter}
    (hsc : CInv P sc) (hP : ∀ len, 1 ≤ len → len ≤ length → isBal len = true → P len)
    {s : Counter × Counter × Nat} (h : innerSame isBal dstPos length sc last = .ok s) : CInv P s.1 := by
  unfold innerSame at h
  have := forIn_inv' _ (fun s : Counter × Counter × Nat => CInv P s.1 ∧ s.2.2 ≤ length) _ _
    ⟨hsc, Nat.le_refl _⟩ ?_ s h
  · exact this.1
  · intro _ _ b hb r hr
    split at hr
    · rename_i hgt
      split at hr
      · rename_i hc
        simp only [pure, Except.pure, Except.ok.injEq] at hr
        refine ⟨_, hr.symm, ?_, by simp only; omega⟩
        exact hb.1.cSet (hP _ (by omega) hb.2 hc.1) _
      · simp only [pure, Except.pure, Except.ok.injEq] at hr
        exact ⟨_, hr.symm, hb.1, by simp only; omega⟩
    · simp only [pure, Except.pure, Except.ok.injEq] at hr
      exact ⟨_, hr.symm, hb⟩

theorem jp2Same_cnt {P : Nat → Prop} {isBal : Nat → Bool} {srcStart dstPos length0 : Nat} {sc last : Counter}
    {ld : Int} {lv : Bool} {mt : Match} {r : ForInStep (Match × Counter × Counter × Int × Bool)}
    (hsc : CInv P sc) (hP : ∀ len, 1 ≤ len → len ≤ length0 → isBal len = true → P len)
    (h : jp2Same isBal srcStart dstPos length0 sc last ld lv mt = .ok r) :
    ∃ b', r = .yield b' ∧ CInv P b'.2.1 := by
  unfold jp2Same at h
  obtain ⟨s, hs, h⟩ := bind_ok h
  simp only [pure, Except.pure, Except.ok.injEq] at h
  refine ⟨_, h.symm, ?_⟩
  refine innerSame_cnt hsc (fun len h1 h2 h3 => hP len h1 ?_ h3) hs
  split at h2 <;> omega

theorem jpSame_cnt {song : Song} {m : SAMap} {srcT srcStart dstT : Nat} {isBal : Nat → Bool} {dstPos : Nat}
    {mt : Match} {sc last : Counter} {ld : Int} {lv : Bool}
    {r : ForInStep (Match × Counter × Counter × Int × Bool)}
    (hsc : CInv (SubOK song m srcT srcStart isBal) sc)
    (h : jpSame song m srcT srcStart dstT isBal dstPos mt sc last ld lv = .ok r) :
    ∃ b', r = .yield b' ∧ CInv (SubOK song m srcT srcStart isBal) b'.2.1 := by
  unfold jpSame at h
  obtain ⟨x, hx, h⟩ := bind_ok h
  have hP : ∀ len, 1 ≤ len → len ≤ x.1 → isBal len = true → SubOK song m srcT srcStart isBal len :=
    fun len h1 h2 h3 => ⟨h1, h3, dstT, dstPos, true, x.1, x.2, hx, h2⟩
  split at h
  · simp only [pure, Except.pure, Except.ok.injEq] at h
    exact ⟨_, h.symm, hsc⟩
  · split at h
    · exact jp2Same_cnt hsc hP h
    · exact jp2Same_cnt hsc hP h

theorem midBody_cnt {song : Song} {m : SAMap} {srcT srcStart dstT : Nat} {dst : List Event} {isBal : Nat → Bool}
    {a : Nat} {s : Match × Counter × Counter × Int × Bool}
    (hsc : CInv (SubOK song m srcT srcStart isBal) s.2.1)
    {r : ForInStep (Match × Counter × Counter × Int × Bool)}
    (hr : midBody song m srcT srcStart dstT dst isBal a s = .ok r) :
    ∃ b', r = .yield b' ∧ CInv (SubOK song m srcT srcStart isBal) b'.2.1 := by
  unfold midBody at hr
  simp only at hr
  split at hr
  · exact jpSame_cnt hsc hr
  split at hr
  · exact jpSame_cnt hsc hr
  split at hr
  · exact jpSame_cnt hsc hr
  split at hr
  · exact jpSame_cnt hsc hr
  · exact jpSame_cnt hsc hr

theorem midBodyS_cnt {song : Song} {m : SAMap} {sa : SA} {srcT srcStart dstT : Nat} {dst : List Event} {isBal : Nat → Bool}
    {a : Nat} {s : Match × Counter × Counter × Int × Bool}
    (hsc : CInv (SubOK song m srcT srcStart isBal) s.2.1)
    {r : ForInStep (Match × Counter × Counter × Int × Bool)}
    (hr : midBodyS song m sa srcT srcStart dstT dst isBal a s = .ok r) :
    ∃ b', r = .yield b' ∧ CInv (SubOK song m srcT srcStart isBal) b'.2.1 := by
  obtain ⟨lv, hr'⟩ := midBodyS_cases hr
  exact midBody_cnt (s := (s.1, s.2.1, s.2.2.1, s.2.2.2.1, lv)) hsc hr'

theorem otherBody_cnt {song : Song} {m : SAMap} {srcT srcStart dstT : Nat} {isBal : Nat → Bool}
    {dstPos : Nat} {s : Counter × Counter} (hsc : CInv (SubOK song m srcT srcStart isBal) s.1)
    {r : ForInStep (Counter × Counter)} (hr : otherBody song m srcT srcStart dstT isBal dstPos s = .ok r) :
    ∃ b', r = .yield b' ∧ CInv (SubOK song m srcT srcStart isBal) b'.1 := by
  unfold otherBody at hr
  obtain ⟨x, hx, hr⟩ := bind_ok hr
  obtain ⟨r1, hr1, hr⟩ := bind_ok hr
  simp only [pure, Except.pure, Except.ok.injEq] at hr
  refine ⟨_, hr.symm, ?_⟩
  have := forIn_inv' _ (fun s : Counter × Counter × Nat =>
      CInv (SubOK song m srcT srcStart isBal) s.1 ∧ s.2.2 ≤ x.1) _ _ ⟨hsc, Nat.le_refl _⟩ ?_ r1 hr1
  · exact this.1
  · intro _ _ b hb r hr
    split at hr
    · rename_i hge
      have h1 : 1 ≤ b.2.2 := by rw [minSubScore_eq] at hge; omega
      split at hr
      · rename_i hc
        simp only [pure, Except.pure, Except.ok.injEq] at hr
        refine ⟨_, hr.symm, ?_, by simp only; omega⟩
        exact hb.1.cSet ⟨h1, hc.1, dstT, dstPos, false, x.1, x.2, hx, hb.2⟩ _
      · simp only [pure, Except.pure, Except.ok.injEq] at hr
        exact ⟨_, hr.symm, hb.1, by simp only; omega⟩
    · simp only [pure, Except.pure, Except.ok.injEq] at hr
      exact ⟨_, hr.symm, hb⟩

theorem trackBody_cnt {song : Song} {m : SAMap} {sa : SA} {srcT srcStart : Nat} {isBal : Nat → Bool}
    {x : Nat × List Event} {s : Match × Counter} (hsc : CInv (SubOK song m srcT srcStart isBal) s.2)
    {r : ForInStep (Match × Counter)} (hr : trackBody song m sa srcT srcStart isBal x s = .ok r) :
    ∃ b', r = .yield b' ∧ CInv (SubOK song m srcT srcStart isBal) b'.2 := by
  unfold trackBody at hr
  split at hr
  · simp only [pure, Except.pure, Except.ok.injEq] at hr
    exact ⟨_, hr.symm, hsc⟩
  split at hr
  · obtain ⟨r1, hr1, hr⟩ := bind_ok hr
    simp only [pure, Except.pure, Except.ok.injEq] at hr
    refine ⟨_, hr.symm, ?_⟩
    exact forIn_inv' _ (fun s : Match × Counter × Counter × Int × Bool =>
      CInv (SubOK song m srcT srcStart isBal) s.2.1) _ _ hsc
      (fun _ _ b hb r hr => midBodyS_cnt hb hr) r1 hr1
  · obtain ⟨r1, hr1, hr⟩ := bind_ok hr
    simp only [pure, Except.pure, Except.ok.injEq] at hr
    refine ⟨_, hr.symm, ?_⟩
    exact forIn_inv' _ (fun s : Counter × Counter => CInv (SubOK song m srcT srcStart isBal) s.1) _ _ hsc
      (fun _ _ b hb r hr => otherBody_cnt hb hr) r1 hr1

/-- **`find_match`, the subroutine candidate**: a positive `subScore` comes with a counted length
(`bal` = the `balanced` vector the run computed) -/
theorem findMatch_subOK_bal {song : Song} {m : SAMap} {srcT srcStart : Nat} {mt : Match} {src : List Event}
    (hsrc : song.track? srcT = some src) (h : findMatch song m srcT srcStart = .ok mt) :
    ∃ bal, sourcePrefixes (getSA m srcT) src srcStart = .ok bal ∧ (0 < mt.subScore →
      SubOK song m srcT srcStart (fun len => (bal[len]?).getD false) mt.subLength) := by
  rw [findMatch_eq song m srcT srcStart src hsrc] at h
  obtain ⟨bal, hbal, h⟩ := bind_ok h
  refine ⟨bal, hbal, ?_⟩
  obtain ⟨s, hs, h⟩ := bind_ok h
  obtain ⟨mt2, h2, h⟩ := bind_ok h
  simp only [pure, Except.pure, Except.ok.injEq] at h
  subst h
  have hQ : CInv (SubOK song m srcT srcStart (fun len => (bal[len]?).getD false)) s.2 ∧
      s.1.subScore = 0 := by
    refine forIn_inv' _ (fun s : Match × Counter =>
      CInv (SubOK song m srcT srcStart (fun len => (bal[len]?).getD false)) s.2 ∧
        s.1.subScore = 0) _ _ ⟨fun p hp => by simp at hp, rfl⟩ ?_ s hs
    intro x _ b hb r hr
    obtain ⟨b', h1, h2⟩ := trackBody_cnt hb.1 hr
    refine ⟨b', h1, h2, ?_⟩
    -- the subroutine score is only written by the final loop
    subst h1
    unfold trackBody at hr
    split at hr
    · simp only [pure, Except.pure, Except.ok.injEq, ForInStep.yield.injEq] at hr
      rw [← hr]; exact hb.2
    split at hr
    · obtain ⟨r1, hr1, hr⟩ := bind_ok hr
      simp only [pure, Except.pure, Except.ok.injEq, ForInStep.yield.injEq] at hr
      rw [← hr]
      refine forIn_inv' _ (fun s : Match × Counter × Counter × Int × Bool => s.1.subScore = 0) _ _ hb.2 ?_ r1 hr1
      intro a _ c hc r hr
      obtain ⟨lv0, hr⟩ := midBodyS_cases hr
      unfold midBody at hr
      simp only at hr
      have key : ∀ ld lv, jpSame song m srcT srcStart x.1
          (fun len => (bal[len]?).getD false) a c.1 c.2.1 c.2.2.1 ld lv = .ok r →
          ∃ b', r = .yield b' ∧ b'.1.subScore = 0 := by
        intro ld lv hj
        obtain ⟨mt', sc', last', hr', hmt⟩ := jpSame_spec hj
        refine ⟨_, hr', ?_⟩
        rcases hmt with h | ⟨_, _, _, _, _, _, _, h3⟩
        · rw [h]; exact hc
        · rw [h3]; exact hc
      split at hr
      · exact key _ _ hr
      split at hr
      · exact key _ _ hr
      split at hr
      · exact key _ _ hr
      split at hr
      · exact key _ _ hr
      · exact key _ _ hr
    · obtain ⟨r1, hr1, hr⟩ := bind_ok hr
      simp only [pure, Except.pure, Except.ok.injEq, ForInStep.yield.injEq] at hr
      rw [← hr]; exact hb.2
  -- the final loop over the sorted counter
  have hsorted : ∀ x ∈ (s.2.toArray.qsort (fun a b => a.1 < b.1)).toList,
      SubOK song m srcT srcStart (fun len => (bal[len]?).getD false) x.1 := by
    intro x hx
    have := (qsort_perm s.2.toArray (fun a b => a.1 < b.1)).mem_iff.1 hx
    exact hQ.1 x (by simpa using this)
  have hF := forIn_inv' finalBody (fun mt' : Match => 0 < mt'.subScore →
      SubOK song m srcT srcStart (fun len => (bal[len]?).getD false) mt'.subLength) _
    { s.1 with trackId := srcT, position := srcStart }
    (fun h0 => by
      have : (0 : Int) < s.1.subScore := h0
      rw [hQ.2] at this; omega)
    (fun a ha b hb r hr => by
      unfold finalBody at hr
      split at hr
      · simp only [pure, Except.pure, Except.ok.injEq] at hr
        exact ⟨_, hr.symm, fun _ => hsorted a ha⟩
      · simp only [pure, Except.pure, Except.ok.injEq] at hr
        exact ⟨_, hr.symm, hb⟩) mt2 h2
  exact hF

/-- **`find_match`, the subroutine candidate**: a positive `subScore` comes with a counted length that
the loop structure of the source phrase allows (`balancedPrefixes`, the depth-only vector) -/
theorem findMatch_subOK {song : Song} {m : SAMap} {srcT srcStart : Nat} {mt : Match} {src : List Event}
    (hsrc : song.track? srcT = some src) (h : findMatch song m srcT srcStart = .ok mt) :
    0 < mt.subScore →
      SubOK song m srcT srcStart (fun len => ((balancedPrefixes src srcStart)[len]?).getD false) mt.subLength := by
  obtain ⟨bal, hbal, h2⟩ := findMatch_subOK_bal hsrc h
  intro hp
  exact (h2 hp).mono (fun len hl => (sourcePrefixes_spec hbal len hl).1)

/-- **`find_match`, the stack budget of the source phrase (repair of D18)**: every event of the phrase
that becomes a subroutine — the occurrence `find_match` was asked about, which `apply_match` replaces
by a call like the copies — passed the stack test `stack_depth < max_src_stack` -/
theorem findMatch_subRoom {song : Song} {m : SAMap} {srcT srcStart : Nat} {mt : Match} {src : List Event}
    (hsrc : song.track? srcT = some src) (h : findMatch song m srcT srcStart = .ok mt) (hp : 0 < mt.subScore) :
    ∀ i, srcStart ≤ i → i < srcStart + mt.subLength → SrcRoom (getSA m srcT) i := by
  obtain ⟨bal, hbal, h2⟩ := findMatch_subOK_bal hsrc h
  exact (sourcePrefixes_spec hbal _ (h2 hp).2.1).2

/-! ## `balanced[len]` and the depth scan -/

/-- one event: if the scan goes on, the `int` depth of `find_match` follows it -/
theorem scan_step {e : Event} {r : List Event} {dn : Nat} {x : Nat} (h : scan (e :: r) dn = some x) :
    ∃ dn1 : Nat, (if e.type = ev_LOOP_START then (dn : Int) + 1 else if e.type = ev_LOOP_END then (dn : Int) - 1
      else (dn : Int)) = (dn1 : Int) ∧ scan r dn1 = some x := by
  rw [scan_cons] at h
  by_cases h1 : e.type = ev_LOOP_START
  · rw [if_pos h1] at h ⊢
    exact ⟨dn + 1, rfl, h⟩
  · rw [if_neg h1] at h ⊢
    by_cases h2 : e.type = ev_LOOP_END
    · rw [if_pos h2] at h ⊢
      by_cases h0 : dn = 0
      · rw [if_pos h0] at h; cases h
      · rw [if_neg h0] at h
        exact ⟨dn - 1, by omega, h⟩
    · rw [if_neg h2] at h ⊢
      by_cases h3 : e.type = ev_LOOP_BREAK
      · rw [if_pos h3] at h
        by_cases h0 : dn = 0
        · rw [if_pos h0] at h; cases h
        · rw [if_neg h0] at h; exact ⟨dn, rfl, h⟩
      · rw [if_neg h3] at h; exact ⟨dn, rfl, h⟩

theorem go_get : ∀ (l : List Event) (k dn d' : Nat), k < l.length → scan (l.take (k + 1)) dn = some d' →
    (balancedPrefixes.go l (dn : Int) [])[k]? = some (decide (d' = 0)) := by
  intro l
  induction l with
  | nil => intro k dn d' hk; simp at hk
  | cons e rest ih =>
    intro k dn d' hk hs
    simp only [List.take_succ_cons] at hs
    obtain ⟨dn1, hd1, hs1⟩ := scan_step hs
    simp only [balancedPrefixes.go]
    have hnn : ¬ ((dn : Int) < 0) := by omega
    rw [if_neg hnn, hd1, go_acc]
    cases k with
    | zero =>
      simp only [List.take_zero, scan_nil, Option.some.injEq] at hs1
      subst hs1
      simp only [List.reverse_cons, List.reverse_nil, List.nil_append, List.cons_append,
        List.getElem?_cons_zero, Option.some.injEq]
      by_cases h0 : dn1 = 0
      · simp [h0]
      · simp [h0]
    | succ k =>
      simp only [List.reverse_cons, List.reverse_nil, List.nil_append, List.cons_append,
        List.getElem?_cons_succ]
      exact ih k dn1 d' (by simpa using hk) hs1

/-- a counted phrase length is a balanced segment inside the track -/
theorem subOK_balanced {song : Song} {m : SAMap} {srcT srcStart : Nat} {src : List Event} {len : Nat}
    (hsrc : song.track? srcT = some src)
    (h : SubOK song m srcT srcStart (fun len => ((balancedPrefixes src srcStart)[len]?).getD false) len) :
    srcStart + len ≤ src.length ∧ scan ((src.drop srcStart).take len) 0 = some 0 := by
  obtain ⟨h1, hbal, dstT, dstPos, wl, len0, ll, hf, hle⟩ := h
  obtain ⟨src', dst, hs, _, hspec⟩ := findMatchLength_spec hf
  rw [hsrc] at hs
  cases hs
  have hlen : srcStart + len ≤ src.length := by
    obtain ⟨s, d, g1, _, _⟩ := hspec.same (len - 1) (by omega)
    have := (List.getElem?_eq_some_iff.1 g1).1
    omega
  refine ⟨hlen, ?_⟩
  -- the types of the two segments agree
  have hty : ((src.drop srcStart).take len).map (·.type) = ((dst.drop dstPos).take len).map (·.type) := by
    apply List.ext_getElem?
    intro i
    simp only [List.getElem?_map, List.getElem?_take, List.getElem?_drop]
    by_cases hi : i < len
    · obtain ⟨s, d, g1, g2, g3, _, _⟩ := hspec.same i (by omega)
      simp only [hi, if_true, g1, g2, Option.map_some, sameEvent_type g3]
    · simp [hi]
  -- a prefix of a successful scan is a successful scan
  have hpre : ∃ d, scan ((dst.drop dstPos).take len) 0 = some d := by
    have hb := hspec.bal
    have : (dst.drop dstPos).take len0 = (dst.drop dstPos).take len ++
        ((dst.drop dstPos).drop len).take (len0 - len) := by
      rw [← List.take_add]; congr 1; omega
    rw [this, scan_append] at hb
    cases hc : scan ((dst.drop dstPos).take len) 0 with
    | none => rw [hc] at hb; simp at hb
    | some d => exact ⟨d, rfl⟩
  obtain ⟨d, hd⟩ := hpre
  rw [scan_congr hty, hd]
  -- `balanced[len]` says that the depth is 0
  have hd' : scan ((src.drop srcStart).take (len - 1 + 1)) 0 = some d := by
    have e : len - 1 + 1 = len := by omega
    rw [e, scan_congr hty, hd]
  have hg := go_get (src.drop srcStart) (len - 1) 0 d (by rw [List.length_drop]; omega) hd'
  obtain ⟨k, hk⟩ : ∃ k, len = k + 1 := ⟨len - 1, by omega⟩
  subst hk
  simp only [balancedPrefixes, List.getElem?_cons_succ] at hbal
  simp only [Nat.add_sub_cancel] at hg
  rw [show ((0 : Nat) : Int) = 0 from rfl] at hg
  rw [hg] at hbal
  simp only [Option.getD_some, decide_eq_true_eq] at hbal
  rw [hbal]

end Ctrmml.OptSteps
